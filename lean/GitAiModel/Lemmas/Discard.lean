/-
  Lemmas/Discard.lean — every discarding operation of Model/Discard.lean preserves the combined
  invariant `RInv` (working log + history) of Lemmas/RewriteInv.lean.
-/
import GitAiModel.Model.Discard
import GitAiModel.Lemmas.RewriteOps2
namespace GitAi.Sys

/-! ### hypotheses -/

/-- content `ys` may be put into the working tree without a report: distinct known lines, and every
    line that the next checkpoint will not find in the snapshot it diffs against (the latest entry, the
    content recorded with INITIAL, or HEAD) is nobody's -/
structure WorkOK (sp : Spec) (ys : List Nat) : Prop where
  nodup : ys.Nodup
  seen : ∀ y ∈ ys, y ∈ sp.seen
  rest : ∀ y ∈ ys, y ∉ (previous sp.st).snap → target sp y = none

structure ForceOK (root : List Nat) (sp : Spec) (otherLog : List (List Nat × List Nat)) (otherNotes : List Note)
    (otherHead : List Nat) : Prop where
  hist : HistOK sp.g root otherLog otherNotes
  tip : otherHead = tipOf root otherLog
  seen : ∀ cp ∈ otherLog, ∀ y ∈ cp.1, y ∈ sp.seen

theorem RInv.head_nodup {root sp} (h : RInv root sp) : sp.st.head.Nodup := by
  rw [h.head]; exact h.hist.tip_nodup h.rootNodup

/-- HEAD itself may always be put back -/
theorem WorkOK.head {root sp} (h : RInv root sp) : WorkOK sp sp.st.head :=
  ⟨h.head_nodup, h.inv2.headSeen, fun y hy _ => by simp [target, hy]⟩

/-! ### the working tree changes, nothing else -/

theorem Inv2.setWork {sp : Spec} (h : Inv2 sp) (ys : List Nat) (hok : WorkOK sp ys) :
    Inv2 ⟨{ sp.st with work := ys }, sp.g, sp.seen⟩ := by
  refine ⟨hok.nodup, hok.seen, h.headSeen, h.snapSeen, ?_⟩
  have hl := h.latest
  have hr := hok.rest
  unfold previous at hr
  show match sp.st.entries.getLast? with
    | some e => e.attr = e.snap.map (target sp) ∧ ∀ y ∈ ys, y ∉ e.snap → target sp y = none
    | none => PendingOK ⟨{ sp.st with work := ys }, sp.g, sp.seen⟩
  cases he : sp.st.entries.getLast? with
  | some e =>
    rw [he] at hl hr
    simp only at hl hr ⊢
    exact ⟨hl.1, hr⟩
  | none =>
    rw [he] at hl hr
    simp only at hl hr ⊢
    rcases hl with ⟨hi, _⟩ | ⟨hne, hi, hnd, hseen, _⟩
    · left
      refine ⟨hi, ?_⟩
      intro y hy
      simp only [hi, List.isEmpty_nil, if_true] at hr
      by_cases hh : y ∈ sp.st.head
      · show target sp y = none
        simp [target, hh]
      · exact hr y hy hh
    · right
      have hemp : sp.st.initial.isEmpty = false := by
        cases hx : sp.st.initial with
        | nil => exact absurd hx hne
        | cons a as => rfl
      simp only [hemp, Bool.false_eq_true, if_false] at hr
      exact ⟨hne, hi, hnd, hseen, hr⟩

theorem RInv.setWork {root sp} (h : RInv root sp) (ys : List Nat) (hok : WorkOK sp ys) :
    RInv root ⟨{ sp.st with work := ys }, sp.g, sp.seen⟩ :=
  ⟨h.inv2.setWork ys hok, h.hist, h.head, h.rootHuman, h.rootSeen, h.rootNodup, h.logSeen⟩

theorem RInv.setIndex {root sp} (h : RInv root sp) (xs : List Nat) :
    RInv root ⟨{ sp.st with index := xs }, sp.g, sp.seen⟩ :=
  ⟨⟨h.inv2.nodup, h.inv2.workSeen, h.inv2.headSeen, h.inv2.snapSeen, h.inv2.latest⟩, h.hist, h.head, h.rootHuman,
    h.rootSeen, h.rootNodup, h.logSeen⟩

/-! ### the operations -/

theorem RInv.restoreFile {root sp} (h : RInv root sp) (hok : WorkOK sp sp.st.index) :
    RInv root ⟨restoreFile sp.st, sp.g, sp.seen⟩ :=
  h.setWork sp.st.index hok

theorem RInv.unstage {root sp} (h : RInv root sp) : RInv root ⟨unstage sp.st, sp.g, sp.seen⟩ :=
  h.setIndex sp.st.head

theorem RInv.unstageAll {root sp} (h : RInv root sp) : RInv root ⟨unstageAll sp.st, sp.g, sp.seen⟩ :=
  h.checkpointed.setIndex sp.st.head

theorem RInv.checkoutForceSame {root sp} (h : RInv root sp) :
    RInv root ⟨checkoutForceSame sp.st, sp.g, sp.seen⟩ :=
  (h.setWork sp.st.head (WorkOK.head h)).setIndex sp.st.head

/-- a state without any claim whose working tree holds only lines that are nobody's -/
theorem Inv2.noClaims {sp : Spec} (hnd : sp.st.work.Nodup) (hws : ∀ y ∈ sp.st.work, y ∈ sp.seen)
    (hhs : ∀ y ∈ sp.st.head, y ∈ sp.seen) (he : sp.st.entries = []) (hi : sp.st.initial = [])
    (hclean : ∀ y ∈ sp.st.work, target sp y = none) : Inv2 sp := by
  refine ⟨hnd, hws, hhs, by intro e hmem; rw [he] at hmem; simp at hmem, ?_⟩
  rw [he]
  simp only [List.getLast?_nil]
  exact Or.inl ⟨hi, hclean⟩

/-- path checkout = the staged version lands in the working tree (`restoreFile`), then a human checkpoint -/
theorem RInv.discardFile {root sp} (h : RInv root sp) (hok : WorkOK sp sp.st.index) :
    RInv root ⟨discardFile sp.st, sp.g, sp.seen⟩ :=
  (h.restoreFile hok).checkpointed

theorem RInv.resetHard {root sp} (h : RInv root sp) (k : Nat) (hok : ResetOK sp k) :
    RInv root ⟨resetHard k sp.st, sp.g, sp.seen⟩ := by
  have hC := h.checkpointed
  have hlC := checkpoint_log sp.st none
  have hdepth : k ≤ (checkpoint sp.st none).log.length := by rw [hlC]; exact hok.depth
  obtain ⟨ul, un, uh, _, _, _, _⟩ := undoN_spec k (checkpoint sp.st none) hC.hist hC.head hdepth
  have hseenTip : ∀ y ∈ tipOf root ((checkpoint sp.st none).log.drop k), y ∈ sp.seen := by
    intro y hy
    cases hd : (checkpoint sp.st none).log.drop k with
    | nil => rw [hd] at hy; exact h.rootSeen y hy
    | cons cp rest =>
      rw [hd] at hy
      have : cp ∈ (checkpoint sp.st none).log := List.mem_of_mem_drop (by rw [hd]; simp)
      exact hC.logSeen cp this y hy
  have hnd : (tipOf root ((checkpoint sp.st none).log.drop k)).Nodup :=
    (hC.hist.drop k).tip_nodup h.rootNodup
  refine ⟨Inv2.noClaims ?_ ?_ ?_ rfl rfl ?_, ?_, ?_, h.rootHuman, h.rootSeen, h.rootNodup, ?_⟩
  · show (undoN k (checkpoint sp.st none)).head.Nodup
    rw [uh]; exact hnd
  · show ∀ y ∈ (undoN k (checkpoint sp.st none)).head, y ∈ sp.seen
    rw [uh]; exact hseenTip
  · show ∀ y ∈ (undoN k (checkpoint sp.st none)).head, y ∈ sp.seen
    rw [uh]; exact hseenTip
  · intro y hy
    have hy' : y ∈ (undoN k (checkpoint sp.st none)).head := hy
    show (if y ∈ (undoN k (checkpoint sp.st none)).head then none else sp.g y) = none
    simp [hy']
  · show HistOK sp.g root (undoN k (checkpoint sp.st none)).log (undoN k (checkpoint sp.st none)).notes
    rw [ul, un]; exact hC.hist.drop k
  · show (undoN k (checkpoint sp.st none)).head = tipOf root (undoN k (checkpoint sp.st none)).log
    rw [uh, ul]
  · intro cp hcp y hy
    have : (GitAi.Sys.resetHard k sp.st).log = (checkpoint sp.st none).log.drop k := ul
    rw [this] at hcp
    exact hC.logSeen cp (List.mem_of_mem_drop hcp) y hy

theorem RInv.checkoutForce {root sp} (h : RInv root sp) (otherLog : List (List Nat × List Nat)) (otherNotes : List Note)
    (otherHead : List Nat) (hok : ForceOK root sp otherLog otherNotes otherHead) :
    RInv root ⟨checkoutForce otherLog otherNotes otherHead sp.st, sp.g, sp.seen⟩ := by
  have hts := tip_seen h otherLog hok.seen
  refine ⟨Inv2.noClaims ?_ ?_ ?_ rfl rfl ?_, hok.hist, hok.tip, h.rootHuman, h.rootSeen, h.rootNodup, hok.seen⟩
  · show otherHead.Nodup
    rw [hok.tip]; exact hok.hist.tip_nodup h.rootNodup
  · show ∀ y ∈ otherHead, y ∈ sp.seen
    rw [hok.tip]; exact hts
  · show ∀ y ∈ otherHead, y ∈ sp.seen
    rw [hok.tip]; exact hts
  · intro y hy
    have hy' : y ∈ otherHead := hy
    show (if y ∈ otherHead then none else sp.g y) = none
    simp [hy']

theorem RInv.stashPopNoNote {root sp} (h : RInv root sp) (ys : List Nat) (hok : WorkOK sp ys)
    (stk : List (List Nat × List (Nat × Nat))) :
    RInv root ⟨(stashPopNoNote ys ⟨sp.st, stk⟩).st, sp.g, sp.seen⟩ := by
  cases stk with
  | nil => exact h
  | cons e rest => exact h.setWork ys hok

end GitAi.Sys
