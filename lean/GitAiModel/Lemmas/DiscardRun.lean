/-
  Lemmas/DiscardRun.lean — the ghost run over the UNION alphabet (`DOp` = Sys ops ∪ Rewrite ops ∪
  discarding ops) and the preservation of the combined invariant `RInv2` (working log + history +
  stash stack) by every operation of it.
-/
import GitAiModel.Lemmas.Discard
import GitAiModel.Props.C02
namespace GitAi.Sys

/-- the ghost state next to the model state: a discarding operation teaches the ghost nothing -/
def dspecStep (r : RSpec) (op : DOp) : RSpec :=
  match op with
  | .r o => rspecStep r o
  | .stashDrop =>
    let r' := dstep ⟨r.sp.st, r.stash⟩ .stashDrop
    ⟨⟨r'.st, r.sp.g, r.sp.seen⟩, r'.stash, r.stashHeads.tail⟩
  | .stashPushOther =>
    let r' := dstep ⟨r.sp.st, r.stash⟩ .stashPushOther
    ⟨⟨r'.st, r.sp.g, r.sp.seen⟩, r'.stash, r.sp.st.head :: r.stashHeads⟩
  | .stashPopNoNote ys =>
    let r' := dstep ⟨r.sp.st, r.stash⟩ (.stashPopNoNote ys)
    ⟨⟨r'.st, r.sp.g, r.sp.seen⟩, r'.stash, r.stashHeads.tail⟩
  | _ =>
    let r' := dstep ⟨r.sp.st, r.stash⟩ op
    ⟨⟨r'.st, r.sp.g, r.sp.seen⟩, r'.stash, r.stashHeads⟩

def dspecRun (r : RSpec) (ops : List DOp) : RSpec := ops.foldl dspecStep r

/-- what each operation of the union alphabet needs -/
def ValidDOp (root : List Nat) (r : RSpec) : DOp → Prop
  | .r o => ValidROp root r o
  | .discardFile => WorkOK r.sp r.sp.st.index
  | .restoreFile => WorkOK r.sp r.sp.st.index
  | .unstage => True
  | .unstageAll => True
  | .resetHard k => ResetOK r.sp k
  | .checkoutForceSame => True
  | .checkoutForce l n h => ForceOK root r.sp l n h
  | .stashDrop => True
  | .stashPushOther => True
  | .stashPopNoNote ys => WorkOK r.sp ys
  | .stashApply ys =>
    match r.stash, r.stashHeads with
    | (snap, _) :: _, hd :: _ => StashPopOK r.sp hd snap ys
    | _, _ => True

def ValidDOps (root : List Nat) : RSpec → List DOp → Prop
  | _, [] => True
  | r, op :: ops => ValidDOp root r op ∧ ValidDOps root (dspecStep r op) ops

theorem StashInv.tail {g : Nat → Author} {seen : List Nat} :
    ∀ {es : List (List Nat × List (Nat × Nat))} {hds : List (List Nat)}, StashInv g seen es hds →
      StashInv g seen es.tail hds.tail
  | [], [], _ => trivial
  | _ :: _, _ :: _, h => h.2
  | [], _ :: _, h => h.elim
  | _ :: _, [], h => h.elim

theorem dspecStep_inv (root : List Nat) (r : RSpec) (op : DOp) (h : RInv2 root r) (hv : ValidDOp root r op) :
    RInv2 root (dspecStep r op) := by
  cases op with
  | r o => exact rspecStep_inv root r o h hv
  | discardFile => exact ⟨h.1.discardFile hv, h.2⟩
  | restoreFile => exact ⟨h.1.restoreFile hv, h.2⟩
  | unstage => exact ⟨h.1.unstage, h.2⟩
  | unstageAll => exact ⟨h.1.unstageAll, h.2⟩
  | resetHard k => exact ⟨h.1.resetHard k hv, h.2⟩
  | checkoutForceSame => exact ⟨h.1.checkoutForceSame, h.2⟩
  | checkoutForce l n hd => exact ⟨h.1.checkoutForce l n hd hv, h.2⟩
  | stashDrop => exact ⟨h.1.checkpointed, h.2.tail⟩
  | stashPushOther =>
    refine ⟨h.1.checkpointed, ?_, h.2⟩
    exact ⟨rfl, List.nodup_nil, fun y hy => absurd hy (by simp)⟩
  | stashPopNoNote ys =>
    refine ⟨h.1.stashPopNoNote ys hv r.stash, ?_⟩
    show StashInv r.sp.g r.sp.seen (stashPopNoNote ys ⟨r.sp.st, r.stash⟩).stash r.stashHeads.tail
    have ht := h.2.tail
    cases hst : r.stash with
    | nil =>
      cases hhd : r.stashHeads with
      | nil => trivial
      | cons a as => have := h.2; rw [hst, hhd] at this; exact this.elim
    | cons e rest =>
      rw [hst] at ht
      exact ht
  | stashApply ys =>
    obtain ⟨h1, hs⟩ := h
    match hst : r.stash, hhd : r.stashHeads, hs with
    | [], [], _ =>
      refine ⟨?_, ?_⟩
      · show RInv root ⟨(stashPop ys ⟨r.sp.st, r.stash⟩).st, r.sp.g, r.sp.seen⟩
        rw [hst]; exact h1
      · show StashInv r.sp.g r.sp.seen r.stash r.stashHeads
        rw [hst, hhd]; trivial
    | (snap, saved) :: es, hd :: hds, hs' =>
      have hv' : StashPopOK r.sp hd snap ys := by
        simp only [ValidDOp, hst, hhd] at hv; exact hv
      refine ⟨?_, ?_⟩
      · show RInv root ⟨(stashPop ys ⟨r.sp.st, r.stash⟩).st, r.sp.g, r.sp.seen⟩
        rw [hst]; exact h1.stashPop hd snap saved es ys hs'.1 hv'
      · show StashInv r.sp.g r.sp.seen r.stash r.stashHeads
        rw [hst, hhd]; exact hs'
    | [], _ :: _, hs' => exact hs'.elim
    | _ :: _, [], hs' => exact hs'.elim

theorem dspecRun_inv (root : List Nat) (r : RSpec) (ops : List DOp) (h : RInv2 root r)
    (hv : ValidDOps root r ops) : RInv2 root (dspecRun r ops) := by
  induction ops generalizing r with
  | nil => exact h
  | cons op ops ih => exact ih (dspecStep r op) (dspecStep_inv root r op h hv.1) hv.2

theorem validDOps_append (root : List Nat) (r : RSpec) (a b : List DOp) (h : ValidDOps root r (a ++ b)) :
    ValidDOps root r a ∧ ValidDOps root (dspecRun r a) b := by
  induction a generalizing r with
  | nil => exact ⟨trivial, h⟩
  | cons op a ih =>
    obtain ⟨h1, h2⟩ := h
    obtain ⟨i1, i2⟩ := ih (dspecStep r op) h2
    exact ⟨⟨h1, i1⟩, i2⟩

/-- ghost authors of known ids never change -/
theorem dspecStep_g_seen (r : RSpec) (op : DOp) (y : Nat) (hy : y ∈ r.sp.seen) :
    (dspecStep r op).sp.g y = r.sp.g y ∧ y ∈ (dspecStep r op).sp.seen := by
  cases op with
  | r o => exact rspecStep_g_seen r o y hy
  | _ => exact ⟨rfl, hy⟩

theorem dspecRun_g_seen (r : RSpec) (ops : List DOp) (y : Nat) (hy : y ∈ r.sp.seen) :
    (dspecRun r ops).sp.g y = r.sp.g y ∧ y ∈ (dspecRun r ops).sp.seen := by
  induction ops generalizing r with
  | nil => exact ⟨rfl, hy⟩
  | cons op ops ih =>
    obtain ⟨h1, h2⟩ := dspecStep_g_seen r op y hy
    obtain ⟨i1, i2⟩ := ih (dspecStep r op) h2
    exact ⟨by simp only [dspecRun, List.foldl_cons] at i1 ⊢; rw [i1, h1], i2⟩

/-- the model state of the ghost run is the model run -/
theorem dspecRun_st (r : RSpec) (ops : List DOp) :
    (⟨(dspecRun r ops).sp.st, (dspecRun r ops).stash⟩ : RState) = drun ⟨r.sp.st, r.stash⟩ ops := by
  induction ops generalizing r with
  | nil => rfl
  | cons op ops ih =>
    simp only [dspecRun, drun, List.foldl_cons] at ih ⊢
    rw [ih (dspecStep r op)]
    congr 1
    cases op with
    | r o =>
      have := rspecRun_st r [o]
      simpa [rspecRun, rrun, dspecStep, dstep] using this
    | _ => rfl

end GitAi.Sys
