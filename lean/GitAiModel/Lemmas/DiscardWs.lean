/-
  Lemmas/DiscardWs.lean — the whitespace-sensitive commit / amend / reset of Model/Discard.lean
  (`commitStepWs`, `amendStepWs`, `resetStepWs`): with no re-indented line they are the operations of the
  alphabet, and from every state the invariant `RInv` describes, whatever they credit (the note of the new
  commit, the claims left in INITIAL) names the ghost author of that very line.
-/
import GitAiModel.Lemmas.Discard
import GitAiModel.Lemmas.RewriteWF
namespace GitAi.Sys

theorem minus_nil (xs : List Nat) : minus xs [] = xs := by
  unfold minus
  simp

theorem commitStepWs_nil (st : State) : commitStepWs [] st = commitStep st := by
  rw [commitStep_eq]
  unfold commitStepWs
  simp only [minus_nil]

theorem mergedAuthorWs_nil (st : State) : mergedAuthorWs [] st = mergedAuthor st := by
  funext y
  simp [mergedAuthorWs]

theorem mergedAuthorWs_some (hum : List Nat) (st : State) (y t : Nat) (h : mergedAuthorWs hum st y = some t) :
    mergedAuthor st y = some t := by
  unfold mergedAuthorWs at h
  split at h
  · unfold mergedAuthor; rw [h]
  · exact h

theorem amendCoreWs_nil (st : State) : amendCoreWs [] [] st = amendCore st := by
  unfold amendCoreWs amendCore
  cases st.log with
  | nil => rfl
  | cons cp log =>
    obtain ⟨c, p⟩ := cp
    cases st.notes with
    | nil => rfl
    | cons n notes => simp only [minus_nil, mergedAuthorWs_nil]

theorem amendStepWs_nil (st : State) : amendStepWs [] [] st = amendStep st := by
  unfold amendStepWs amendStep
  exact amendCoreWs_nil _

theorem resetStepWs_nil (k : Nat) (soft : Bool) (st : State) : resetStepWs k soft [] [] st = resetStep k soft st := by
  unfold resetStepWs resetStep splitPending
  simp [mergedAuthorWs_nil]

/-- a member of a split names a line of the content and the author function's answer for it -/
theorem mem_splitNote (p c : List Nat) (A : Nat → Author) (i s : Nat) (h : (i, s) ∈ splitNote p c A) :
    ∃ y, (i, y) ∈ enum1 c ∧ A y = some s := by
  rw [splitNote_eq_claims] at h
  obtain ⟨y, hy, hF⟩ := claimsFrom_mem 1 c _ (i, s) h
  refine ⟨y, hy, ?_⟩
  split at hF
  · simp at hF
  · exact hF

/-- a bounded blame answers like the unbounded one or not at all -/
theorem blame_take_some (n : Nat) : ∀ (log : List (List Nat × List Nat)) (notes : List Note) (y s : Nat),
    blame (log.take n) (notes.take n) y = some s → blame log notes y = some s := by
  induction n with
  | zero => intro log notes y s h; simp [blame] at h
  | succ n ih =>
    intro log notes y s h
    match log, notes with
    | [], _ => simp [blame] at h
    | (c, p) :: log, [] => simp [blame] at h
    | (c, p) :: log, nt :: notes =>
      simp only [List.take_succ_cons] at h
      rw [blame_cons] at h ⊢
      split
      · rename_i hc; rw [if_pos hc] at h; exact h
      · rename_i hc; rw [if_neg hc] at h; exact ih log notes y s h

/-- **commit.** Every entry of the note names a staged line and its ghost author. -/
theorem commitStepWs_no_invention {root sp} (h : RInv root sp) (re : List Nat) (note : Note) (i s : Nat)
    (hn : (commitStepWs re sp.st).notes.head? = some note) (hm : (i, s) ∈ note) :
    ∃ y, (i, y) ∈ enum1 sp.st.index ∧ sp.g y = some s := by
  obtain ⟨hwC, hhC, _, hxC, _⟩ := checkpoint_fields sp.st none
  have hC := h.checkpointed
  unfold commitStepWs at hn
  simp only [List.head?_cons, Option.some.injEq] at hn
  subst hn
  obtain ⟨y, hy, hA⟩ := mem_splitNote _ _ _ i s hm
  rw [hxC] at hy
  refine ⟨y, hy, ?_⟩
  have := wlAuthor_spec _ hC.inv2 y
  rw [this] at hA
  by_cases hw : y ∈ (checkpoint sp.st none).work
  · simp only [hw, if_true, target] at hA
    by_cases hh : y ∈ (checkpoint sp.st none).head
    · simp [hh] at hA
    · simpa [hh] using hA
  · simp [hw] at hA

/-- **amend.** Every entry of the amended commit's note names a staged line and its ghost author. -/
theorem amendStepWs_no_invention {root sp} (h : RInv root sp) (hne : sp.st.log ≠ []) (re hum : List Nat) (note : Note)
    (i s : Nat) (hn : (amendStepWs re hum sp.st).notes.head? = some note) (hm : (i, s) ∈ note) :
    ∃ y, (i, y) ∈ enum1 sp.st.index ∧ sp.g y = some s := by
  obtain ⟨_, _, _, hxC, hnC⟩ := checkpoint_fields sp.st none
  have hlC := checkpoint_log sp.st none
  have hC := h.checkpointed
  have hmA := mergedAuthor_spec hC
  have hhist := hC.hist
  unfold amendStepWs amendCoreWs at hn
  match hl : (checkpoint sp.st none).log, hnn : (checkpoint sp.st none).notes with
  | [], _ => rw [hlC] at hl; exact absurd hl hne
  | (c, p) :: log, [] =>
    have : HistOK sp.g root (checkpoint sp.st none).log (checkpoint sp.st none).notes := hhist
    rw [hl, hnn] at this; exact this.elim
  | (c, p) :: log, n :: notes =>
    simp only [hl, hnn, List.head?_cons, Option.some.injEq] at hn
    subst hn
    obtain ⟨y, hy, hA⟩ := mem_splitNote _ _ _ i s hm
    rw [hxC] at hy
    refine ⟨y, hy, ?_⟩
    unfold mergedAuthorWs at hA
    split at hA
    · have := wlAuthor_spec _ hC.inv2 y
      rw [this] at hA
      by_cases hw : y ∈ (checkpoint sp.st none).work
      · simp only [hw, if_true, target] at hA
        by_cases hh : y ∈ (checkpoint sp.st none).head
        · simp [hh] at hA
        · simpa [hh] using hA
      · simp [hw] at hA
    · rw [hmA] at hA
      split at hA
      · exact hA
      · simp at hA

/-- **reset --soft / --mixed.** Every claim left in INITIAL names a line of the working tree (the content
    recorded with it) and its ghost author — also the claims about lines the target holds in another
    whitespace form. -/
theorem resetStepWs_no_invention {root sp} (h : RInv root sp) (k : Nat) (soft : Bool) (re hum : List Nat) (i s : Nat)
    (hm : (i, s) ∈ (resetStepWs k soft re hum sp.st).initial) :
    ∃ y, (i, y) ∈ enum1 (resetStepWs k soft re hum sp.st).initSnap ∧ sp.g y = some s := by
  have hmA := mergedAuthor_spec h
  have hsnap : (resetStepWs k soft re hum sp.st).initSnap = sp.st.work := rfl
  rw [hsnap]
  have hi : (resetStepWs k soft re hum sp.st).initial = (enum1 sp.st.work).filterMap (fun p =>
      if (undoN k sp.st).head.contains p.2 then
        (if re.contains p.2 && resetConsiders k sp.st then (boundedAuthor k hum sp.st p.2).map (fun s => (p.1, s)) else none)
      else (mergedAuthorWs hum sp.st p.2).map (fun s => (p.1, s))) := rfl
  rw [hi] at hm
  simp only [List.mem_filterMap] at hm
  obtain ⟨⟨j, y⟩, hjy, hf⟩ := hm
  have hyw : y ∈ sp.st.work := by
    have : ∀ (k : Nat) (l : List Nat), (j, y) ∈ enumFrom k l → y ∈ l := by
      intro k l
      induction l generalizing k with
      | nil => intro h; simp [enumFrom] at h
      | cons x xs ih =>
        intro h
        simp only [enumFrom, List.mem_cons, Prod.mk.injEq] at h
        rcases h with ⟨_, rfl⟩ | h
        · simp
        · exact List.mem_cons_of_mem _ (ih _ h)
    exact this 1 _ hjy
  have hmerged : ∀ t, mergedAuthor sp.st y = some t → sp.g y = some t := by
    intro t ht
    rw [hmA] at ht
    simpa [hyw] using ht
  simp only at hf
  split at hf
  · split at hf
    · cases hb : boundedAuthor k hum sp.st y with
      | none => simp [hb] at hf
      | some t =>
        simp only [hb, Option.map_some, Option.some.injEq, Prod.mk.injEq] at hf
        obtain ⟨rfl, rfl⟩ := hf
        refine ⟨y, hjy, ?_⟩
        apply hmerged
        unfold boundedAuthor at hb
        unfold mergedAuthor tipAuthor
        cases hw : wlAuthor sp.st y with
        | some u => simp only [hw] at hb ⊢; exact hb
        | none =>
          simp only [hw] at hb ⊢
          split at hb
          · rename_i hh
            have hh' : sp.st.head.contains y = true := by
              simp only [Bool.and_eq_true] at hh; exact hh.1
            rw [if_pos hh']
            exact blame_take_some _ _ _ _ _ hb
          · simp at hb
    · simp at hf
  · cases hb : mergedAuthorWs hum sp.st y with
    | none => simp [hb] at hf
    | some t =>
      simp only [hb, Option.map_some, Option.some.injEq, Prod.mk.injEq] at hf
      obtain ⟨rfl, rfl⟩ := hf
      exact ⟨y, hjy, hmerged _ (mergedAuthorWs_some hum _ _ _ hb)⟩

end GitAi.Sys
