/-
  Lemmas/GitPath.lean — `unquotePath (quoteC full p) = p` for every path.
-/
import GitAiModel.Model.GitPath
namespace GitAi.GitPath
open GitAi

/-! ### UTF-8 round trip -/

theorem char_valid (c : Char) : c.toNat < 0xD800 ∨ (0xDFFF < c.toNat ∧ c.toNat < 0x110000) :=
  c.valid

theorem utf8Encode_lt (c : Char) : ∀ b ∈ utf8Encode c, b < 256 := by
  intro b hb
  have hv := char_valid c
  unfold utf8Encode utf8EncodeN at hb
  split at hb
  · simp only [List.mem_singleton] at hb; omega
  · split at hb
    · simp only [List.mem_cons, List.not_mem_nil, or_false] at hb; omega
    · split at hb
      · simp only [List.mem_cons, List.not_mem_nil, or_false] at hb; omega
      · simp only [List.mem_cons, List.not_mem_nil, or_false] at hb; omega

set_option maxRecDepth 100000 in
theorem start1 : ∀ b : Fin 256, b.val < 0x80 →
    startStep b.val = (some (Char.ofNat b.val), .start) := by decide
set_option maxRecDepth 100000 in
theorem start2 : ∀ b : Fin 256, 0xC2 ≤ b.val → b.val ≤ 0xDF →
    startStep b.val = (none, .need 1 (b.val - 0xC0) 0x80 0xBF) := by decide
set_option maxRecDepth 100000 in
theorem start3 : ∀ b : Fin 256, 0xE0 ≤ b.val → b.val ≤ 0xEF →
    startStep b.val = (none, .need 2 (b.val - 0xE0) (if b.val = 0xE0 then 0xA0 else 0x80)
      (if b.val = 0xED then 0x9F else 0xBF)) := by decide
set_option maxRecDepth 100000 in
theorem start4 : ∀ b : Fin 256, 0xF0 ≤ b.val → b.val ≤ 0xF4 →
    startStep b.val = (none, .need 3 (b.val - 0xF0) (if b.val = 0xF0 then 0x90 else 0x80)
      (if b.val = 0xF4 then 0x8F else 0xBF)) := by decide

/-- one continuation byte accepted, more to come -/
theorem decGo_need_more (rem acc lo hi b : Nat) (bs : List Nat) (h : lo ≤ b ∧ b ≤ hi)
    (hr : ¬ rem ≤ 1) :
    decGo (.need rem acc lo hi) (b :: bs) =
      decGo (.need (rem - 1) (acc * 64 + (b - 0x80)) 0x80 0xBF) bs := by
  rw [decGo, if_pos h, if_neg hr]

/-- last continuation byte accepted -/
theorem decGo_need_last (acc lo hi b : Nat) (bs : List Nat) (h : lo ≤ b ∧ b ≤ hi) :
    decGo (.need 1 acc lo hi) (b :: bs) = Char.ofNat (acc * 64 + (b - 0x80)) :: decGo .start bs := by
  rw [decGo, if_pos h, if_pos (Nat.le_refl 1)]

theorem decGo_start (b : Nat) (bs : List Nat) :
    decGo .start (b :: bs) = emit (startStep b).1 ++ decGo (startStep b).2 bs := by
  rw [decGo]

theorem decGo_encodeN (n : Nat) (hv : n < 0xD800 ∨ (0xDFFF < n ∧ n < 0x110000)) (c : Char)
    (hc : Char.ofNat n = c) (bs : List Nat) :
    decGo .start (utf8EncodeN n ++ bs) = c :: decGo .start bs := by
  unfold utf8EncodeN
  split
  · -- one byte
    rename_i h1
    have e := start1 ⟨n, by omega⟩ h1
    simp only at e
    rw [List.cons_append, List.nil_append, decGo_start, e, hc]
    rfl
  · rename_i h1
    split
    · -- two bytes
      rename_i h2
      have e := start2 ⟨0xC0 + n / 64, by omega⟩ (by simp only; omega) (by simp only; omega)
      simp only at e
      rw [List.cons_append, List.cons_append, List.nil_append, decGo_start, e]
      simp only [emit, List.nil_append]
      rw [decGo_need_last _ _ _ _ _ (by omega)]
      have : (0xC0 + n / 64 - 0xC0) * 64 + (0x80 + n % 64 - 0x80) = n := by omega
      rw [this, hc]
    · rename_i h2
      split
      · -- three bytes
        rename_i h3
        have e := start3 ⟨0xE0 + n / 4096, by omega⟩ (by simp only; omega) (by simp only; omega)
        simp only at e
        rw [List.cons_append, List.cons_append, List.cons_append, List.nil_append, decGo_start, e]
        simp only [emit, List.nil_append]
        rw [decGo_need_more _ _ _ _ _ _ (by split <;> split <;> omega) (by omega)]
        rw [decGo_need_last _ _ _ _ _ (by omega)]
        have : ((0xE0 + n / 4096 - 0xE0) * 64 + (0x80 + n / 64 % 64 - 0x80)) * 64 +
            (0x80 + n % 64 - 0x80) = n := by omega
        rw [this, hc]
      · -- four bytes
        rename_i h3
        have e := start4 ⟨0xF0 + n / 262144, by omega⟩ (by simp only; omega) (by simp only; omega)
        simp only at e
        rw [List.cons_append, List.cons_append, List.cons_append, List.cons_append,
          List.nil_append, decGo_start, e]
        simp only [emit, List.nil_append]
        rw [decGo_need_more _ _ _ _ _ _ (by split <;> split <;> omega) (by omega)]
        rw [decGo_need_more _ _ _ _ _ _ (by omega) (by omega)]
        rw [decGo_need_last _ _ _ _ _ (by omega)]
        have : (((0xF0 + n / 262144 - 0xF0) * 64 + (0x80 + n / 4096 % 64 - 0x80)) * 64 +
            (0x80 + n / 64 % 64 - 0x80)) * 64 + (0x80 + n % 64 - 0x80) = n := by omega
        rw [this, hc]

theorem decGo_encode (c : Char) (bs : List Nat) :
    decGo .start (utf8Encode c ++ bs) = c :: decGo .start bs :=
  decGo_encodeN c.toNat (char_valid c) c (Char.ofNat_toNat c) bs

theorem flatEncode_cons (c : Char) (p : Str) :
    (c :: p).flatMap utf8Encode = utf8Encode c ++ p.flatMap utf8Encode := by
  simp [List.flatMap_cons]

theorem decodeLossy_encode (p : Str) : decodeLossy (p.flatMap utf8Encode) = p := by
  unfold decodeLossy
  induction p with
  | nil => simp [decGo]
  | cons c p ih => rw [flatEncode_cons, decGo_encode, ih]

/-! ### escapes -/

theorem oct_props : ∀ d : Fin 8,
    isDigit (digitChar d.val) = true ∧ isOct (digitChar d.val) = true ∧
      digitVal (digitChar d.val) = d.val := by decide

theorem unesc_oct3 (b : Nat) (hb : b < 256) (cs : Str) :
    unescGo .esc (oct3 b ++ cs) = b :: unescGo .normal cs := by
  have h1 := oct_props ⟨b / 64, by omega⟩
  have h2 := oct_props ⟨b / 8 % 8, by omega⟩
  have h3 := oct_props ⟨b % 8, by omega⟩
  simp only at h1 h2 h3
  have ne : ∀ d : Fin 8, digitChar d.val ≠ '\\' ∧ digitChar d.val ≠ '"' ∧ digitChar d.val ≠ 'n' ∧
      digitChar d.val ≠ 't' ∧ digitChar d.val ≠ 'r' ∧ digitChar d.val ≠ 'a' ∧
      digitChar d.val ≠ 'b' ∧ digitChar d.val ≠ 'f' ∧ digitChar d.val ≠ 'v' := by decide
  have n1 := ne ⟨b / 64, by omega⟩
  simp only at n1
  obtain ⟨a1, a2, a3, a4, a5, a6, a7, a8, a9⟩ := n1
  simp only [oct3, List.cons_append, List.nil_append, unescGo, if_neg a1, if_neg a2, if_neg a3,
    if_neg a4, if_neg a5, if_neg a6, if_neg a7, if_neg a8, if_neg a9, h1.1, h1.2.1, h1.2.2,
    h2.2.1, h2.2.2, h3.2.1, h3.2.2, if_true]
  have e : (b / 64 * 8 + b / 8 % 8) * 8 + b % 8 = b := by omega
  simp [e, finishOct, hb]

theorem unesc_octEscapes (bs : List Nat) (hbs : ∀ b ∈ bs, b < 256) (cs : Str) :
    unescGo .normal (octEscapes bs ++ cs) = bs ++ unescGo .normal cs := by
  induction bs with
  | nil => simp [octEscapes]
  | cons b bs ih =>
    have hb : b < 256 := hbs b (by simp)
    have ih' := ih (fun x hx => hbs x (by simp [hx]))
    simp only [octEscapes, List.cons_append, List.append_assoc]
    rw [unescGo]
    simp only [normalStep, if_true, List.nil_append]
    rw [unesc_oct3 b hb, ih']

theorem utf8Encode_ascii (c : Char) (h : c.toNat < 0x80) : utf8Encode c = [c.toNat] := by
  unfold utf8Encode utf8EncodeN
  rw [if_pos h]

theorem ne_of_toNat_ne (c d : Char) (h : c.toNat ≠ d.toNat) : c ≠ d := fun e => h (by rw [e])

theorem unesc_literal (c : Char) (h : c.toNat ≠ 92) (cs : Str) :
    unescGo .normal (c :: cs) = utf8Encode c ++ unescGo .normal cs := by
  have : c ≠ '\\' := ne_of_toNat_ne c '\\' h
  rw [unescGo]
  simp [normalStep, this]

theorem unesc_backslash (cs : Str) : unescGo .normal ('\\' :: cs) = unescGo .esc cs := by
  rw [unescGo]
  simp [normalStep]

theorem unesc_charText (full : Bool) (c : Char) (cs : Str) :
    unescGo .normal (charText full c ++ cs) = utf8Encode c ++ unescGo .normal cs := by
  unfold charText quoteChar
  split
  · rename_i hlt
    rw [utf8Encode_ascii c hlt]
    unfold escAscii
    split
    · rename_i h; simp [h, unesc_backslash, unescGo]
    · split
      · rename_i h; simp [h, unesc_backslash, unescGo]
      · split
        · rename_i h; simp [h, unesc_backslash, unescGo]
        · split
          · rename_i h; simp [h, unesc_backslash, unescGo]
          · split
            · rename_i h; simp [h, unesc_backslash, unescGo]
            · split
              · rename_i h; simp [h, unesc_backslash, unescGo]
              · split
                · rename_i h; simp [h, unesc_backslash, unescGo]
                · split
                  · rename_i h; simp [h, unesc_backslash, unescGo]
                  · split
                    · rename_i h; simp [h, unesc_backslash, unescGo]
                    · rename_i h92
                      split
                      · simp only [Option.getD_some, List.cons_append]
                        rw [unesc_backslash, unesc_oct3 _ (by omega)]
                        rfl
                      · simp only [Option.getD_none, List.cons_append, List.nil_append]
                        rw [unesc_literal c h92, utf8Encode_ascii c hlt]
                        rfl
  · rename_i hge
    split
    · simp only [Option.getD_some]
      exact unesc_octEscapes _ (utf8Encode_lt c) cs
    · simp only [Option.getD_none, List.cons_append, List.nil_append]
      exact unesc_literal c (by omega) cs

theorem unesc_quoteBody (full : Bool) (p : Str) :
    unescGo .normal (quoteBody full p) = p.flatMap utf8Encode := by
  induction p with
  | nil => simp [quoteBody, unescGo]
  | cons c p ih => rw [quoteBody, unesc_charText, ih, flatEncode_cons]

theorem head_of_not_needsQuote (full : Bool) (p : Str) (h : needsQuote full p = false) :
    p.head? ≠ some '"' := by
  cases p with
  | nil => simp
  | cons c p =>
    intro e
    simp only [List.head?_cons, Option.some.injEq] at e
    subst e
    simp [needsQuote, quoteChar, escAscii] at h

/-- **un-quoting inverts git's quoting** for every path and both `core.quotePath` settings. -/
theorem unquote_quote (full : Bool) (p : Str) : unquotePath (quoteC full p) = p := by
  unfold quoteC
  split
  · unfold unquotePath
    have h1 : ¬ (('"' :: (quoteBody full p ++ ['"'])).length < 2) := by simp
    have h2 : ('"' :: (quoteBody full p ++ ['"'])).getLast? = some '"' := by
      rw [← List.cons_append, List.getLast?_append]
      simp
    simp only [h1, h2, decide_false, List.head?_cons, bne_self_eq_false, Bool.or_self,
      Bool.false_eq_true, if_false, List.tail_cons]
    rw [List.dropLast_concat, unesc_quoteBody, decodeLossy_encode]
  · rename_i h
    have hh := head_of_not_needsQuote full p (by simpa using h)
    unfold unquotePath
    have : (p.head? != some '"') = true := by simpa using hh
    simp [this]

end GitAi.GitPath
