/-
  Lemmas/HookMode.lean — helper lemmas for Props/C13.lean (hooks-mode / wrapper-mode model).
-/
import GitAiModel.Model.HookMode
namespace GitAi.HookMode
open GitAi.Extracted

theorem canon_append (a b : List Eff) : canon (a ++ b) = canon a ++ canon b := by
  induction a with
  | nil => rfl
  | cons e r ih =>
    cases e with
    | handle j => simp only [List.cons_append, canon]; cases canonEv j <;> simp [ih]
    | checkpoint u => cases u <;> simp [canon, ih]
    | renameWL o n p => cases p <;> simp [canon, ih]
    | _ => simp [canon, ih]

theorem journalOf_append (a b : List Eff) : journalOf (a ++ b) = journalOf a ++ journalOf b := by
  induction a with
  | nil => rfl
  | cons e r ih => cases e <;> simp [journalOf, ih]

/-- a hook git runs inside a rebase does nothing in hooks mode: it is masked, or (post-rewrite amend, a terminal
    hook) returns at `is_rebase_in_progress` -/
theorem invoke_rebase_inner (env : Env) (b : Bool) (st : St) (c : Ctx) (i : Inner)
    (hc : c.rebaseDir = true) (hm : st.side.mask = true) (hb : st.side.cpBatch = none) :
    invoke env st b (innerEv c i) = (st, []) := by
  cases i with
  | postRewriteAmend ps =>
    simp only [invoke, innerEv, hm]
    have ht : isTerminal (HookEv.postRewriteAmend ps c).name = true := by simp only [HookEv.name]; decide
    have hn : isManagedName (HookEv.postRewriteAmend ps c).name = true := by simp only [HookEv.name]; decide
    simp only [ht, hn, Bool.not_true, Bool.and_false, Bool.false_eq_true, if_false, needsLookup, if_true]
    split
    · rfl
    split
    · rfl
    simp [managed, prelude, hm, hc, finalizeBatch, hb, managedArm, HookEv.ctx, journalOf]
  | _ =>
    simp only [invoke, innerEv, hm]
    rfl

theorem invokeAll_rebase_inner (env : Env) (b : Bool) (st : St) (c : Ctx) (l : List Inner)
    (hc : c.rebaseDir = true) (hm : st.side.mask = true) (hb : st.side.cpBatch = none) :
    invokeAll env b st (l.map (innerEv c)) = (st, []) := by
  induction l with
  | nil => rfl
  | cons i r ih =>
    simp only [List.map_cons, invokeAll, invoke_rebase_inner env b st c i hc hm hb, ih, List.append_nil]

theorem invokeAll_append (env : Env) (b : Bool) (st : St) (l1 l2 : List HookEv) :
    invokeAll env b st (l1 ++ l2) =
      ((invokeAll env b (invokeAll env b st l1).1 l2).1,
       (invokeAll env b st l1).2 ++ (invokeAll env b (invokeAll env b st l1).1 l2).2) := by
  induction l1 generalizing st with
  | nil => simp [invokeAll]
  | cons e r ih => simp [invokeAll, ih, List.append_assoc]

theorem getLast?_map_fst (ps : List (Sha × Sha)) : (ps.map (·.1)).getLast? = ps.getLast?.map (·.1) := by
  simp [List.getLast?_map]

/-- unfold both translations -/
macro "hm_simp" : tactic => `(tactic|
  simp [hooks, fires, invokeAll, invoke, isTerminal, isManagedName, needsLookup, managed, prelude, managedArm,
    HookEv.ctx, HookEv.name, cpInProgress, finalizeBatch, captureCp, isCpPostCommit, isAmendPostCommit, journalOf,
    hasStashUpd, hasHeadOrBranch, stashTx, resetTx, wrapper, wrapperEffs, canon, canonEv, Op.backward, recordCp,
    pullPostRewrite, managedPostCheckout, wrapperRebaseDone, picksEvs, pickEvs, lastNew, rebaseStartEvs, rebaseEndEvs,
    Op.heal, checkpointRestores, HookTables.checkpointEntryCalls, HookTables.noopRestorePullOnly, HookTables.noopRestoreForces,
    HookTables.managedHookNames, HookTables.rebaseTerminalHookNames, HookTables.managedRunGuardedBySkip, *])

/-- start of a rebase whose todo is not empty: Start logged, the mask on -/
theorem rebase_start (sH : St) (r : RebaseFacts) (hs : sH.side = {}) (ha : r.autostash = false) :
    invokeAll {} false sH (rebaseStartEvs r false false) =
      ({ journal := sH.journal ++ [.rebaseStart (r.branchArg.getD r.orig) false (some r.upstreamArg)], side := { mask := true } },
       .log (.rebaseStart (r.branchArg.getD r.orig) false (some r.upstreamArg)) ::
         (if r.orig = r.onto then [] else [.renameWL r.orig r.onto r.wlAtOrig])) := by
  unfold rebaseStartEvs
  rw [invokeAll_append]
  have h3 : invokeAll {} false sH
      [.preRebase (some r.upstreamArg) r.branchArg
          { head := some r.orig, action := if false = true then Action.pull else Action.unset, rebaseDir := r.autostash },
       .refTx .committed [⟨some r.orig, some r.onto, .head⟩]
          { ({ rebaseDir := true, action := if false = true then Action.pull else Action.unset } : Ctx) with head := some r.onto },
       .postCheckout (some r.orig) (some r.onto) true
          { ({ rebaseDir := true, action := if false = true then Action.pull else Action.unset } : Ctx) with
            head := some r.onto, wlPresent := r.wlAtOrig, todoEmpty := false }] =
      ({ journal := sH.journal ++ [.rebaseStart (r.branchArg.getD r.orig) false (some r.upstreamArg)], side := { mask := true } },
       .log (.rebaseStart (r.branchArg.getD r.orig) false (some r.upstreamArg)) ::
         (if r.orig = r.onto then [] else [.renameWL r.orig r.onto r.wlAtOrig])) := by
    hm_simp
    split <;> simp [journalOf]
  rw [h3]
  simp only
  rw [invokeAll_rebase_inner _ _ _ _ _ (by simp) (by simp) (by simp)]
  simp

/-- a rebase with nothing to replay (empty todo): the checkout of the new base is the last hook git runs while the
    rebase directory exists; the fallback of the post-checkout arm puts the masked entry points back -/
theorem rebase_noop (sH : St) (r : RebaseFacts) (hs : sH.side = {}) (hi : r.inner = []) (ha : r.autostash = false) :
    invokeAll {} false sH (rebaseStartEvs r false true ++ rebaseEndEvs { r with pairs := [] } false) =
      ({ journal := sH.journal ++ [.rebaseStart (r.branchArg.getD r.orig) false (some r.upstreamArg)], side := {} },
       .log (.rebaseStart (r.branchArg.getD r.orig) false (some r.upstreamArg)) ::
         (if r.orig = r.onto then [] else [.renameWL r.orig r.onto r.wlAtOrig])) := by
  hm_simp
  split <;> simp [journalOf]

theorem pull_rebase_start (sH : St) (r : RebaseFacts) (hs : sH.side = {}) (ha : r.autostash = false) :
    invokeAll {} false sH (rebaseStartEvs r true false) =
      ({ journal := sH.journal, side := { mask := true, pull := some r.orig } }, []) := by
  unfold rebaseStartEvs
  rw [invokeAll_append]
  have h3 : invokeAll {} false sH
      [.preRebase (some r.upstreamArg) r.branchArg
          { head := some r.orig, action := if true = true then Action.pull else Action.unset, rebaseDir := r.autostash },
       .refTx .committed [⟨some r.orig, some r.onto, .head⟩]
          { ({ rebaseDir := true, action := if true = true then Action.pull else Action.unset } : Ctx) with head := some r.onto },
       .postCheckout (some r.orig) (some r.onto) true
          { ({ rebaseDir := true, action := if true = true then Action.pull else Action.unset } : Ctx) with
            head := some r.onto, wlPresent := r.wlAtOrig, todoEmpty := false }] =
      ({ journal := sH.journal, side := { mask := true, pull := some r.orig } }, []) := by
    hm_simp
  rw [h3]
  simp only
  rw [invokeAll_rebase_inner _ _ _ _ _ (by simp) (by simp) (by simp)]
  simp

/-- `pull --rebase` in which every local commit is already upstream: the fallback runs the pull post-rewrite
    handling (working log moved to the new head, nothing to map) and restores the masked entry points -/
theorem pull_rebase_noop (sH : St) (r : RebaseFacts) (hs : sH.side = {}) (hi : r.inner = []) (hne : r.orig ≠ r.onto)
    (ha : r.autostash = false) :
    invokeAll {} false sH (rebaseStartEvs r true true ++ rebaseEndEvs { r with pairs := [] } true) =
      ({ journal := sH.journal, side := {} }, [.fetchNotes, .renameWL r.orig r.onto r.wlAtOrig]) := by
  hm_simp

theorem rebase_end (st : St) (r : RebaseFacts) (hs : st.side = { mask := true }) (p : Sha × Sha)
    (hp : r.pairs.getLast? = some p) :
    invokeAll {} false st (rebaseEndEvs r false) =
      ({ journal := st.journal ++ [.rebaseComplete p.1 r.newHead false (r.pairs.map (·.1)) (r.pairs.map (·.2))], side := {} },
       [.handle (.rebaseComplete p.1 r.newHead false (r.pairs.map (·.1)) (r.pairs.map (·.2)))]) := by
  have hne : r.pairs.isEmpty = false := by
    cases h : r.pairs with
    | nil => simp [h] at hp
    | cons a b => rfl
  hm_simp

theorem pull_rebase_end (st : St) (r : RebaseFacts) (hs : st.side = { mask := true, pull := some r.orig })
    (hne : r.pairs.isEmpty = false) (hw : r.wf = true) :
    invokeAll {} false st (rebaseEndEvs r true) =
      ({ journal := st.journal ++ [.rebaseComplete r.orig r.newHead false r.chain r.newChain], side := {} },
       [.fetchNotes, .renameWL r.orig r.newHead r.wlAtOrig, .handle (.rebaseComplete r.orig r.newHead false r.chain r.newChain)]) := by
  simp only [RebaseFacts.wf, Bool.and_eq_true, bne_iff_ne, ne_eq, Bool.not_eq_true', beq_iff_eq] at hw
  obtain ⟨⟨⟨⟨⟨h1, h2⟩, h3⟩, h4⟩, h5⟩, h6⟩ := hw
  hm_simp

end GitAi.HookMode
