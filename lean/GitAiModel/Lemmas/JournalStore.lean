/-
  Lemmas/JournalStore.lean — execution lemmas for Model/JournalStore.lean (used by Props/C07.lean §4b).
-/
import GitAiModel.Lemmas.Wrapper
import GitAiModel.Model.JournalStore
namespace GitAi.JournalStore
open GitAi GitAi.Wrapper

/-- the program cannot reach `process::exit` in a run without injected faults on healthy plumbing: every step is one
    the inventory allows and, whatever a SUCCESSFUL step hands back, the rest is calm again. (An `exit` behind an
    `Err` / a non-zero status of a step is allowed — that is the refusal branch of the dichotomy.) -/
inductive Calm : Prog → Prop
  | done : Calm .done
  | panic : Calm .panic
  | step (s : Step) (k : Res → Prog) : s.allowed = true → (∀ o, Calm (k (.ok 0 o))) → Calm (.step s k)

theorem doStep_ok (K : GitKernel) (hK : ∀ argv refs w, callOk argv refs = true → (K.G argv refs w).status = 0)
    (st : Step) (w : World) (h : st.allowed = true) : ∃ o, (doStep K st w).1 = .ok 0 o := by
  cases st with
  | git argv refs => exact ⟨(K.G argv refs w).out, by simp [doStep, hK argv refs w h]⟩
  | fsA f => exact ⟨[], rfl⟩
  | fsU f => simp [Step.allowed] at h
  | readA q => exact ⟨q w.a, rfl⟩
  | readU q => exact ⟨q w.u, rfl⟩

theorem exec_calm (K : GitKernel) (hK : ∀ argv refs w, callOk argv refs = true → (K.G argv refs w).status = 0)
    {p : Prog} (h : Calm p) (s : St) (hp : s.plan = []) (c : Nat) : (execProg K p s).1 ≠ .exited c := by
  induction h generalizing s with
  | done => simp [execProg]
  | panic => simp [execProg]
  | step st k ha _ ih =>
    unfold execProg
    rw [hp]
    obtain ⟨o, ho⟩ := doStep_ok K hK st s.w ha
    simp only [ho]
    exact ih o _ rfl

theorem calm_seq {p q : Prog} (hp : Calm p) (hq : Calm q) : Calm (seq p q) := by
  induction hp with
  | done => exact hq
  | panic => exact .panic
  | step s k ha _ ih => exact .step s _ ha ih

theorem confined_seq {p q : Prog} (hp : Confined p) (hq : Confined q) : Confined (seq p q) := by
  induction hp with
  | done => exact hq
  | panic => exact .panic
  | exit c => exact .exit c
  | step s k ha _ ih => exact .step s _ ha ih

theorem exitsNZ_seq {p q : Prog} (hp : ExitsNZ p) (hq : ExitsNZ q) : ExitsNZ (seq p q) := by
  induction hp with
  | done => exact hq
  | panic => exact .panic
  | exit c hc => exact .exit c hc
  | step s k _ ih => exact .step s _ ih

/-- a tolerated write never exits — blocked or not. -/
theorem calm_writeS_tolerate (b : AState → Bool) (f : AState → AState) {k : Prog} (hk : Calm k) :
    Calm (writeS .tolerate b f k) := by
  unfold writeS
  refine .step _ _ rfl fun o => ?_
  cases o with
  | nil => exact .step _ _ rfl fun _ => hk
  | cons c cs => exact hk

theorem confined_writeS (h : OnFailure) (b : AState → Bool) (f : AState → AState) {k : Prog} (hk : Confined k) :
    Confined (writeS h b f k) := by
  unfold writeS
  refine .step _ _ rfl fun r => ?_
  have hx : Confined (match h with | .tolerate => k | .refuse => .exit 1) := by cases h <;> first | exact hk | exact .exit 1
  cases r with
  | err => exact hx
  | ok st o =>
    cases o with
    | cons c cs => exact hx
    | nil =>
      refine .step _ _ rfl fun r2 => ?_
      cases r2 with
      | ok _ _ => exact hk
      | err => exact hx

theorem exitsNZ_writeS (h : OnFailure) (b : AState → Bool) (f : AState → AState) {k : Prog} (hk : ExitsNZ k) :
    ExitsNZ (writeS h b f k) := by
  unfold writeS
  refine .step _ _ fun r => ?_
  have hx : ExitsNZ (match h with | .tolerate => k | .refuse => .exit 1) := by
    cases h <;> first | exact hk | exact .exit 1 (by decide)
  cases r with
  | err => exact hx
  | ok st o =>
    cases o with
    | cons c cs => exact hx
    | nil =>
      refine .step _ _ fun r2 => ?_
      cases r2 with
      | ok _ _ => exact hk
      | err => exact hx

end GitAi.JournalStore
