/-
  Lemmas/LineStep.lean — assembly: the byte-level pipeline of `lineStep` follows the line rule.
-/
import GitAiModel.Lemmas.LineStepText
import GitAiModel.Lemmas.LineStepFill
import GitAiModel.Lemmas.LineStepTransform
import GitAiModel.Lemmas.LineStepProject
import GitAiModel.Props.C16
namespace GitAi.LineStep
open GitAi GitAi.Tracker

theorem srcOk_nil (l : List Seg) : ∀ k, SrcOk [] k l := by
  induction l with
  | nil => intro k; trivial
  | cons x xs ih =>
    intro k
    simp only [SrcOk]
    cases x.op <;> simp only
    · exact ih k
    · exact ⟨by simp, ih _⟩
    · exact ih k

theorem mem_normalizeOld (l : List Attr) (x : Attr) : x ∈ normalizeOld l ↔ x ∈ l := by
  simp only [normalizeOld]
  split
  · rfl
  · exact mem_sortBy _ _ _

/-! ## the previous content: who covers a line -/

/-- the filled prior attributions of a text with per-line authors `as` -/
def filledOf (bs : List Text) (as : List Str) (ts0 tsf : Nat) : List Attr :=
  fillUnattributed (textOf bs) (lineAttrsToAttrs (priorLines 1 as) (textOf bs) ts0) human tsf

theorem rangesFrom_chain (bs : List Text) (hb : BodiesOk bs) : Chain 0 (rangesFrom 0 bs) (textOf bs).length := by
  rw [← lineRanges_textOf bs hb]
  exact lineRanges_chain _

theorem old_facts (bs1 : List Text) (b : Text) (bs2 : List Text) (as : List Str) (ts0 tsf : Nat)
    (hb : BodiesOk (bs1 ++ b :: bs2)) (hlen : as.length = (bs1 ++ b :: bs2).length) :
    (as.getD bs1.length human ≠ human →
      (⟨(textOf bs1).length, (textOf bs1).length + b.length + 1, as.getD bs1.length human, ts0⟩ : Attr)
        ∈ filledOf (bs1 ++ b :: bs2) as ts0 tsf) ∧
    (∀ a ∈ filledOf (bs1 ++ b :: bs2) as ts0 tsf, ∀ q, (textOf bs1).length ≤ q →
      q < (textOf bs1).length + b.length + 1 → a.start ≤ q → q < a.stop →
      a.author = as.getD bs1.length human) ∧
    (∀ a ∈ filledOf (bs1 ++ b :: bs2) as ts0 tsf, OnB (textOf (bs1 ++ b :: bs2)) a) := by
  obtain ⟨add, hfilled, hFiller⟩ := fillUnattributed_spec (textOf (bs1 ++ b :: bs2))
    (lineAttrsToAttrs (priorLines 1 as) (textOf (bs1 ++ b :: bs2)) ts0) human tsf
  have hidx : bs1.length < as.length := by rw [hlen]; simp
  have hget : as[bs1.length]? = some (as.getD bs1.length human) := by
    rw [List.getD_eq_getElem?_getD, List.getElem?_eq_getElem hidx]; rfl
  have hrange := rangesFrom_split bs1 b bs2 0
  simp only [Nat.zero_add] at hrange
  have hch := rangesFrom_chain _ hb
  have hprior : as.getD bs1.length human ≠ human →
      (⟨(textOf bs1).length, (textOf bs1).length + b.length + 1, as.getD bs1.length human, ts0⟩ : Attr)
        ∈ lineAttrsToAttrs (priorLines 1 as) (textOf (bs1 ++ b :: bs2)) ts0 := by
    intro hA
    exact (mem_priors _ as ts0 hb hlen _).2 ⟨bs1.length, _, _, _, hget, hA, hrange, rfl⟩
  refine ⟨?_, ?_, ?_⟩
  · intro hA
    simp only [filledOf, hfilled, List.mem_append]
    exact Or.inl (hprior hA)
  · intro a ha q hq1 hq2 ha1 ha2
    simp only [filledOf, hfilled, List.mem_append] at ha
    rcases ha with ha | ha
    · obtain ⟨i, A', s, e, h1, _, h3, rfl⟩ := (mem_priors _ as ts0 hb hlen a).1 ha
      simp only at ha1 ha2 ⊢
      have hi : i = bs1.length := by
        rcases Nat.lt_trichotomy i bs1.length with h | h | h
        · have := hch.ord _ _ _ _ _ _ h3 hrange h; omega
        · exact h
        · have := hch.ord _ _ _ _ _ _ hrange h3 h; omega
      subst hi
      rw [hget] at h1
      simp only [Option.some.injEq] at h1
      exact h1.symm
    · obtain ⟨hau, _, _, _, _, _, hfree⟩ := hFiller a ha
      rw [hau]
      by_cases hA : as.getD bs1.length human = human
      · exact hA.symm
      · exact absurd ⟨by simp only; omega, by simp only; omega⟩ (hfree q ha1 ha2 _ (hprior hA))
  · intro a ha
    simp only [filledOf, hfilled, List.mem_append] at ha
    rcases ha with ha | ha
    · obtain ⟨i, A', s, e, _, _, h3, rfl⟩ := (mem_priors _ as ts0 hb hlen a).1 ha
      have := linesOnBoundaries_textOf _ hb (s, e)
        (by rw [lineRanges_textOf _ hb]; exact List.mem_of_getElem? h3)
      exact this
    · obtain ⟨_, _, _, _, h5, h6, _⟩ := hFiller a ha
      exact ⟨h5, h6⟩

/-! ## reading the result -/

theorem authorAt_eq (R : List LineAttr) (k : Nat) : authorAt R k = (lineAuthor R k).getD human := by
  simp only [authorAt, lineAuthor]
  have : (fun r : LineAttr => decide (r.startLine ≤ k) && decide (k ≤ r.endLine)) = (fun r => coversB r k) := rfl
  rw [this]
  cases R.find? (fun r => coversB r k) <;> rfl

theorem authorsFrom_eq (R : List LineAttr) : ∀ (n k : Nat) (L : List Str), L.length = n →
    (∀ i, i < n → L[i]? = some (authorAt R (k + i))) → authorsFrom R k n = L := by
  intro n
  induction n with
  | zero =>
    intro k L hL _
    cases L with
    | nil => rfl
    | cons _ _ => simp at hL
  | succ n ih =>
    intro k L hL h
    cases L with
    | nil => simp at hL
    | cons x xs =>
      have h0 := h 0 (by omega)
      simp only [List.getElem?_cons_zero, Option.some.injEq, Nat.add_zero] at h0
      simp only [authorsFrom, h0]
      congr 1
      apply ih (k + 1) xs (by simpa using hL)
      intro i hi
      have := h (i + 1) (by omega)
      simp only [List.getElem?_cons_succ] at this
      rw [this]
      congr 2
      omega

/-! ## the step -/

/-- **the byte-level checkpoint step follows the line rule** -/
theorem lineStep_eq (al : List Al) (as : List Str) (who : Str) (ts ts0 : Nat) (subst : List (Nat × Nat))
    (hok : alOk al = true) (hlen : as.length = (oldBodies al).length) :
    lineStep al as who ts ts0 subst = .ok (lineRule al as who) := by
  have hbO := alOk_old al hok
  have hbN := alOk_new al hok
  have hfold : fillUnattributed (textOf (oldBodies al))
      (lineAttrsToAttrs (priorLines 1 as) (textOf (oldBodies al)) ts0) human (ts - 1)
      = filledOf (oldBodies al) as ts0 (ts - 1) := rfl
  obtain ⟨raw, hraw⟩ := transform_ok (segsOf al) subst [] (normalizeOld (filledOf (oldBodies al) as ts0 (ts - 1)))
    who ts (by intro m hm; simp at hm)
  have hupd : update (segsOf al) subst [] (filledOf (oldBodies al) as ts0 (ts - 1)) who ts = .ok (merge raw) := by
    simp only [update, hraw]
  have hsorted := normalizeOld_sortedStart (filledOf (oldBodies al) as ts0 (ts - 1))
  have hbnd := in_bounds _ _ _ _ _ _ _ hupd
  -- boundaries of the result
  have honb : ∀ a ∈ merge raw, OnB (textOf (newBodies al)) a := by
    rw [← newOf_segsOf]
    refine on_boundaries _ _ _ _ _ _ _ (segStartsOk_segsOf al hok) ?_ (by intro m hm; simp at hm) hupd
    intro x hx
    rw [oldOf_segsOf]
    by_cases hnil : oldBodies al = []
    · -- empty previous content: nothing is attributed
      exfalso
      obtain ⟨add, hf, hFiller⟩ := fillUnattributed_spec (textOf (oldBodies al))
        (lineAttrsToAttrs (priorLines 1 as) (textOf (oldBodies al)) ts0) human (ts - 1)
      rw [hfold] at hf
      rw [hf, hnil] at hx
      simp only [textOf, lineAttrsToAttrs, List.isEmpty_nil, Bool.or_true, if_true, List.nil_append] at hx
      obtain ⟨_, _, h3, h4, _⟩ := hFiller x hx
      rw [hnil] at h4
      simp only [textOf, List.length_nil] at h4
      omega
    · obtain ⟨b, bs2, hcons⟩ : ∃ b bs2, oldBodies al = [] ++ b :: bs2 := by
        cases h : oldBodies al with
        | nil => exact absurd h hnil
        | cons b r => exact ⟨b, r, rfl⟩
      have := (old_facts [] b bs2 as ts0 (ts - 1) (by rw [← hcons]; exact hbO) (by rw [← hcons]; exact hlen)).2.2
      rw [← hcons] at this
      exact this x hx
  -- the projection, line by line
  obtain ⟨R, hR, hauth⟩ := toLineAttrs_authors (merge raw) (textOf (newBodies al))
    (fun i => (lineRule al as who).getD i human) (linesOnBoundaries_textOf _ hbN) honb (by
    intro i ls le hi
    rw [lineRanges_textOf _ hbN] at hi
    have hilt : i < (newBodies al).length := by
      have := (List.getElem?_eq_some_iff.1 hi).1
      rwa [rangesFrom_length] at this
    obtain ⟨pre, item, post, hal, hpre, hitem⟩ := split_at_new al i hilt
    have hsegs : segsOf al = segsOf pre ++ item.seg :: segsOf post := by
      rw [hal, segsOf_append]; rfl
    have hnp : (newOf (segsOf pre)).length = (textOf (newBodies pre)).length := by rw [newOf_segsOf]
    have hopre : (oldOf (segsOf pre)).length = (textOf (oldBodies pre)).length := by rw [oldOf_segsOf]
    -- no deletion marker strictly inside the line
    have hnoempty : ∀ (b : Text), (item = .keep b ∨ item = .insert b) →
        newBodies al = newBodies pre ++ b :: newBodies post →
        ls = (textOf (newBodies pre)).length ∧ le = (textOf (newBodies pre)).length + (line b).length ∧
        ∀ y ∈ merge raw, y.overlaps ls le = true → y.start < y.stop := by
      intro b hb hnb
      have hr := rangesFrom_split (newBodies pre) b (newBodies post) 0
      rw [← hnb, hpre, hi] at hr
      simp only [Option.some.injEq, Prod.mk.injEq, Nat.zero_add] at hr
      have hll : (line b).length = b.length + 1 := by simp [line]
      refine ⟨hr.1, by rw [hll]; omega, ?_⟩
      intro y hy hov
      simp only [Attr.overlaps, Bool.and_eq_true, decide_eq_true_eq] at hov
      have hseg : item.seg.op ≠ .delete ∧ item.seg.data = line b := by
        rcases hb with rfl | rfl <;> simp [Al.seg]
      have h1 := raw_no_inner_empty (segsOf pre) (segsOf post) item.seg subst _ who ts raw hseg.1
        (by rw [← hsegs]; exact hraw)
      have h2 := merge_no_inner_empty (newOf (segsOf pre)).length
        ((newOf (segsOf pre)).length + item.seg.data.length) raw h1 y hy
      have := (hbnd y hy).1
      rw [hnp, hseg.2, hll] at h2
      by_cases hd : y.start < y.stop
      · exact hd
      · exfalso; apply h2; omega
    rcases hitem with ⟨b, rfl⟩ | ⟨b, rfl⟩
    · -- a kept line
      have hnb : newBodies al = newBodies pre ++ b :: newBodies post := by
        rw [hal, newBodies_append]; rfl
      have hob : oldBodies al = oldBodies pre ++ b :: oldBodies post := by
        rw [hal, oldBodies_append]; rfl
      obtain ⟨hls, hle, hne⟩ := hnoempty b (Or.inl rfl) hnb
      have hll : (line b).length = b.length + 1 := by simp [line]
      have hg : (lineRule al as who).getD i human = as.getD (oldBodies pre).length human := by
        rw [List.getD_eq_getElem?_getD, hal, ← hpre, lineRule_keep]; rfl
      obtain ⟨O1, O2, _⟩ := old_facts (oldBodies pre) b (oldBodies post) as ts0 (ts - 1)
        (by rw [← hob]; exact hbO) (by rw [← hob]; exact hlen)
      rw [← hob] at O1 O2
      simp only [hg]
      have hupd' : update (segsOf pre ++ ⟨.equal, line b⟩ :: segsOf post) subst []
          (filledOf (oldBodies al) as ts0 (ts - 1)) who ts = .ok (merge raw) := by
        have : (Al.keep b).seg = ⟨.equal, line b⟩ := rfl
        rw [← this, ← hsegs]; exact hupd
      constructor
      · intro y hy hov
        have hd := hne y hy hov
        simp only [Attr.overlaps, Bool.and_eq_true, decide_eq_true_eq] at hov
        -- byte `p` of the line is covered by `y`
        have hp1 : ls ≤ max y.start ls := by omega
        have hp2 : max y.start ls < le := by omega
        have hcov : Covered (merge raw) y.who ((newOf (segsOf pre)).length + (max y.start ls - ls)) := by
          refine ⟨y, hy, rfl, ?_, ?_⟩ <;> rw [hnp, ← hls] <;> omega
        have := (unchanged_keeps_author (segsOf pre) (segsOf post) (line b) subst [] _ who ts _
          (srcOk_nil _ 0) hupd' y.who (max y.start ls - ls) (by omega)).1 hcov
        obtain ⟨a, ha, hw, ha1, ha2⟩ := this
        rw [hopre] at ha1 ha2
        have := O2 a ha _ (by omega) (by omega) ha1 ha2
        simp only [Attr.who, Prod.mk.injEq] at hw
        rw [← hw.1]; exact this
      · intro hA
        have hin := O1 hA
        have hraw' : transform (segsOf pre ++ ⟨.equal, line b⟩ :: segsOf post) subst []
            (normalizeOld (filledOf (oldBodies al) as ts0 (ts - 1))) who ts = .ok raw := by
          have : (Al.keep b).seg = ⟨.equal, line b⟩ := rfl
          rw [← this, ← hsegs]; exact hraw
        have hfull := equal_full_range (segsOf pre) (segsOf post) (line b) subst _ who ts raw hsorted hraw'
          _ ((mem_normalizeOld _ _).2 hin) (by omega) (by simp only; omega) (by simp only; omega)
        obtain ⟨y, hy, _, hy1, hy2⟩ := merge_super raw _ hfull
        simp only at hy1 hy2
        exact ⟨y, hy, by omega, by omega⟩
    · -- an inserted line
      have hnb : newBodies al = newBodies pre ++ b :: newBodies post := by
        rw [hal, newBodies_append]; rfl
      obtain ⟨hls, hle, hne⟩ := hnoempty b (Or.inr rfl) hnb
      have hll : (line b).length = b.length + 1 := by simp [line]
      have hg : (lineRule al as who).getD i human = who := by
        rw [List.getD_eq_getElem?_getD, hal, ← hpre, lineRule_insert]; rfl
      have hnl : hasNewline (line b) = true := by simp [hasNewline, line]
      simp only [hg]
      constructor
      · intro y hy hov
        have hd := hne y hy hov
        simp only [Attr.overlaps, Bool.and_eq_true, decide_eq_true_eq] at hov
        have hupd' : update (segsOf pre ++ ⟨.insert, line b⟩ :: segsOf post) subst []
            (filledOf (oldBodies al) as ts0 (ts - 1)) who ts = .ok (merge raw) := by
          have : (Al.insert b).seg = ⟨.insert, line b⟩ := rfl
          rw [← this, ← hsegs]; exact hupd
        have := (new_text_is_reporters (segsOf pre) (segsOf post) (line b) subst [] _ who ts _
          (rangesForInsertion_nil _) (Or.inl hnl) hupd' (max y.start ls) (by rw [hnp]; omega)
          (by rw [hnp]; omega)).2 y.who ⟨y, hy, rfl, by omega, by omega⟩
        simp only [Attr.who, Prod.mk.injEq] at this
        exact this.1
      · intro _
        have hraw' : transform (segsOf pre ++ ⟨.insert, line b⟩ :: segsOf post) subst []
            (normalizeOld (filledOf (oldBodies al) as ts0 (ts - 1))) who ts = .ok raw := by
          have : (Al.insert b).seg = ⟨.insert, line b⟩ := rfl
          rw [← this, ← hsegs]; exact hraw
        have hfull := (new_text_exact (segsOf pre) (segsOf post) (line b) subst [] _ who ts raw
          (rangesForInsertion_nil _) (Or.inl hnl) hraw').1
        obtain ⟨y, hy, _, hy1, hy2⟩ := merge_super raw _ hfull
        simp only at hy1 hy2
        exact ⟨y, hy, by omega, by omega⟩)
  -- assemble
  simp only [lineStep, hfold, hupd, hR, lineAuthors]
  congr 1
  apply authorsFrom_eq
  · exact lineRule_length al as who
  · intro i hi
    rw [authorAt_eq, Nat.add_comm 1 i, hauth i (by rw [lineRanges_textOf _ hbN, rangesFrom_length]; exact hi)]
    rw [List.getD_eq_getElem?_getD, List.getElem?_eq_getElem (by rw [lineRule_length]; exact hi)]
    rfl

/-! ## the prior attributions read back: what "the author of the pre-image line" means -/

theorem filled_nonempty (bs : List Text) (as : List Str) (ts0 tsf : Nat) (hb : BodiesOk bs)
    (hlen : as.length = bs.length) : ∀ a ∈ filledOf bs as ts0 tsf, a.start < a.stop := by
  obtain ⟨add, hfilled, hFiller⟩ := fillUnattributed_spec (textOf bs)
    (lineAttrsToAttrs (priorLines 1 as) (textOf bs) ts0) human tsf
  intro a ha
  simp only [filledOf, hfilled, List.mem_append] at ha
  rcases ha with ha | ha
  · obtain ⟨i, A', s, e, _, _, h3, rfl⟩ := (mem_priors _ as ts0 hb hlen a).1 ha
    exact ((rangesFrom_chain bs hb).get? i s e h3).2.1
  · exact (hFiller a ha).2.2.1

theorem filled_onB (bs : List Text) (as : List Str) (ts0 tsf : Nat) (hb : BodiesOk bs)
    (hlen : as.length = bs.length) : ∀ a ∈ filledOf bs as ts0 tsf, OnB (textOf bs) a := by
  cases bs with
  | nil =>
    cases as with
    | nil =>
      intro a ha
      simp [filledOf, textOf, priorLines, lineAttrsToAttrs, fillUnattributed, charSpans, spansGo, fillGo] at ha
    | cons _ _ => simp at hlen
  | cons b r => exact (old_facts [] b r as ts0 tsf hb hlen).2.2

/-- the reconstructed (and filled) prior attributions project back, line by line, to the per-line
    authors they were built from: `as[k]` IS the dominant author of line `k + 1` of the previous
    content -/
theorem prior_projection (bs : List Text) (as : List Str) (ts0 tsf : Nat) (hb : BodiesOk bs)
    (hlen : as.length = bs.length) :
    ∃ R, toLineAttrs (filledOf bs as ts0 tsf) (textOf bs) = .ok R ∧ lineAuthors R bs.length = as := by
  have hne := filled_nonempty bs as ts0 tsf hb hlen
  obtain ⟨R, hR, hauth⟩ := toLineAttrs_authors (filledOf bs as ts0 tsf) (textOf bs)
    (fun i => as.getD i human) (linesOnBoundaries_textOf _ hb)
    (filled_onB bs as ts0 tsf hb hlen)
    (by
      intro i ls le hi
      rw [lineRanges_textOf _ hb] at hi
      obtain ⟨bs1, b, bs2, rfl, rfl, rfl, rfl⟩ := rangesFrom_get bs i ls le hi
      obtain ⟨O1, O2, _⟩ := old_facts bs1 b bs2 as ts0 tsf hb hlen
      constructor
      · intro a ha hov
        have hd := hne a ha
        simp only [Attr.overlaps, Bool.and_eq_true, decide_eq_true_eq] at hov
        exact O2 a ha (max a.start (textOf bs1).length) (by omega) (by omega) (by omega) (by omega)
      · intro hA
        exact ⟨_, O1 hA, Nat.le_refl _, Nat.le_refl _⟩)
  refine ⟨R, hR, ?_⟩
  simp only [lineAuthors]
  apply authorsFrom_eq _ _ _ _ hlen
  intro i hi
  rw [authorAt_eq, Nat.add_comm 1 i, hauth i (by rw [lineRanges_textOf _ hb, rangesFrom_length]; exact hi)]
  rw [List.getD_eq_getElem?_getD, List.getElem?_eq_getElem (by omega)]
  rfl

end GitAi.LineStep
