/-
  Lemmas/LineStepFill.lean — `attribute_unattributed_ranges` (`fillUnattributed`): the prior list is
  kept as a prefix; every range added is the filler's, non-empty, inside the text, on char
  boundaries, and covers no byte a prior range covers.
-/
import GitAiModel.Lemmas.TrackerRoundtrip
import GitAiModel.Lemmas.TrackerBoundaries
namespace GitAi.Tracker
open GitAi

/-! ## `char_indices` as a chain of spans -/

theorem spansGo_chain (t : Text) : ∀ (i s : Nat), s ≤ i → Chain s (spansGo i s t) (i + t.length) := by
  induction t with
  | nil =>
    intro i s h
    simp only [spansGo]
    split
    · simp [Chain]; omega
    · simp [Chain]; omega
  | cons b r ih =>
    intro i s h
    simp only [spansGo]
    split
    · have := ih (i + 1) s (by omega)
      simpa [Nat.add_assoc, Nat.add_comm 1] using this
    · have hr := ih (i + 1) i (by omega)
      have e : i + 1 + r.length = i + (b :: r).length := by simp; omega
      rw [e] at hr
      split
      · exact ⟨rfl, by omega, hr⟩
      · have : s = i := by omega
        subst this
        simpa using hr

theorem charSpans_chain (t : Text) : Chain 0 (charSpans t) t.length := by
  have := spansGo_chain t 0 0 (Nat.le_refl _)
  simpa [charSpans] using this

/-- every span starts where the running start was, or at a non-continuation byte -/
theorem spansGo_starts (c : Text) : ∀ (t pre : Text) (s : Nat), c = pre ++ t →
    ∀ sp ∈ spansGo pre.length s t, sp.1 = s ∨ isBoundary c sp.1 = true := by
  intro t
  induction t with
  | nil =>
    intro pre s _ sp hsp
    simp only [spansGo] at hsp
    split at hsp
    · simp only [List.mem_singleton] at hsp; subst hsp; exact Or.inl rfl
    · simp at hsp
  | cons b r ih =>
    intro pre s hc sp hsp
    have hc' : c = (pre ++ [b]) ++ r := by simp [hc]
    have hlen : (pre ++ [b]).length = pre.length + 1 := by simp
    simp only [spansGo] at hsp
    split at hsp
    · have := ih (pre ++ [b]) s hc' sp (by rw [hlen]; exact hsp)
      exact this
    · rename_i hcont
      have hb : isBoundary c pre.length = true := by
        rw [hc]
        apply isBoundary_append
        simpa [headOk] using hcont
      simp only [List.mem_append] at hsp
      rcases hsp with hsp | hsp
      · split at hsp
        · simp only [List.mem_singleton] at hsp; subst hsp; exact Or.inl rfl
        · simp at hsp
      · rcases ih (pre ++ [b]) pre.length hc' sp (by rw [hlen]; exact hsp) with h | h
        · right; rw [h]; exact hb
        · exact Or.inr h

theorem charSpans_starts (c : Text) : ∀ sp ∈ charSpans c, isBoundary c sp.1 = true := by
  intro sp hsp
  rcases spansGo_starts c c [] 0 (by simp) sp (by simpa [charSpans] using hsp) with h | h
  · rw [h]; simp [isBoundary]
  · exact h

/-! ## the filling loop -/

/-- no prior range covers byte `p` -/
def Free (prev : List Attr) (p : Nat) : Prop := ∀ a ∈ prev, ¬ (a.start ≤ p ∧ p < a.stop)

/-- a range the filler may add -/
def Filler (c : Text) (prev : List Attr) (author : Str) (ts : Nat) (x : Attr) : Prop :=
  x.author = author ∧ x.ts = ts ∧ x.start < x.stop ∧ x.stop ≤ c.length ∧
    isBoundary c x.start = true ∧ isBoundary c x.stop = true ∧
    ∀ p, x.start ≤ p → p < x.stop → Free prev p

theorem fillGo_spec (c : Text) (prev : List Attr) (author : Str) (ts : Nat) (spans : List (Nat × Nat)) :
    ∀ (s0 : Nat) (attrs : List Attr) (rs : Option Nat),
      Chain s0 spans c.length → (∀ sp ∈ spans, isBoundary c sp.1 = true) →
      (∀ st, rs = some st → st ≤ s0 ∧ isBoundary c st = true ∧ ∀ p, st ≤ p → p < s0 → Free prev p) →
      (∃ add, attrs = prev ++ add ∧ ∀ x ∈ add, Filler c prev author ts x) →
      (∃ add, (fillGo author ts spans attrs rs).1 = prev ++ add ∧ ∀ x ∈ add, Filler c prev author ts x) ∧
      (∀ st, (fillGo author ts spans attrs rs).2 = some st →
        isBoundary c st = true ∧ ∀ p, st ≤ p → p < c.length → Free prev p) := by
  induction spans with
  | nil =>
    intro s0 attrs rs hch _ hrs hadd
    simp only [Chain] at hch
    subst hch
    simp only [fillGo]
    exact ⟨hadd, fun st hst => ⟨(hrs st hst).2.1, (hrs st hst).2.2⟩⟩
  | cons sp r ih =>
    intro s0 attrs rs hch hb hrs hadd
    obtain ⟨idx, e⟩ := sp
    obtain ⟨rfl, hlt, hr⟩ := hch
    have hbr : ∀ sp ∈ r, isBoundary c sp.1 = true := fun sp hsp => hb sp (by simp [hsp])
    have hbi : isBoundary c idx = true := hb (idx, e) (by simp)
    have hle : e ≤ c.length := hr.le
    obtain ⟨add, hattrs, hfill⟩ := hadd
    simp only [fillGo]
    split
    · -- the char is attributed: close the pending range
      cases rs with
      | none => exact ih e attrs none hr hbr (by intro st h; cases h) ⟨add, hattrs, hfill⟩
      | some st =>
        obtain ⟨h1, h2, h3⟩ := hrs st rfl
        simp only
        split
        · rename_i hst
          refine ih e _ none hr hbr (by intro st h; cases h) ⟨add ++ [⟨st, idx, author, ts⟩], by simp [hattrs], ?_⟩
          intro x hx
          simp only [List.mem_append, List.mem_singleton] at hx
          rcases hx with hx | rfl
          · exact hfill x hx
          · exact ⟨rfl, rfl, hst, by simp only; omega, h2, hbi, h3⟩
        · exact ih e attrs none hr hbr (by intro st h; cases h) ⟨add, hattrs, hfill⟩
    · -- the char is not attributed: it is free
      rename_i hany
      have hfree : ∀ p, idx ≤ p → p < e → Free prev p := by
        intro p hp1 hp2 a ha hcov
        apply hany
        rw [List.any_eq_true]
        refine ⟨a, by rw [hattrs]; simp [ha], ?_⟩
        simp only [Attr.overlaps, Bool.and_eq_true, decide_eq_true_eq]
        omega
      cases rs with
      | none =>
        refine ih e attrs (some idx) hr hbr ?_ ⟨add, hattrs, hfill⟩
        intro st h
        simp only [Option.some.injEq] at h
        subst h
        exact ⟨by omega, hbi, hfree⟩
      | some st =>
        obtain ⟨h1, h2, h3⟩ := hrs st rfl
        refine ih e attrs (some st) hr hbr ?_ ⟨add, hattrs, hfill⟩
        intro st' h
        simp only [Option.some.injEq] at h
        subst h
        refine ⟨by omega, h2, ?_⟩
        intro p hp1 hp2
        by_cases hp : p < idx
        · exact h3 p hp1 hp
        · exact hfree p (by omega) hp2

/-- **`attribute_unattributed_ranges`**: prior list kept; additions are the filler's, non-empty,
    in range, on boundaries, and touch no byte a prior range covers. -/
theorem fillUnattributed_spec (c : Text) (prev : List Attr) (author : Str) (ts : Nat) :
    ∃ add, fillUnattributed c prev author ts = prev ++ add ∧ ∀ x ∈ add, Filler c prev author ts x := by
  obtain ⟨⟨add, hadd, hfill⟩, hrs⟩ := fillGo_spec c prev author ts (charSpans c) 0 prev none
    (charSpans_chain c) (charSpans_starts c) (by intro st h; cases h) ⟨[], by simp, by simp⟩
  simp only [fillUnattributed]
  cases hgo : fillGo author ts (charSpans c) prev none with
  | mk attrs rs =>
    rw [hgo] at hadd hrs
    simp only at hadd hrs
    cases rs with
    | none => exact ⟨add, hadd, hfill⟩
    | some st =>
      obtain ⟨h1, h2⟩ := hrs st rfl
      simp only
      split
      · rename_i hst
        refine ⟨add ++ [⟨st, c.length, author, ts⟩], by simp [hadd], ?_⟩
        intro x hx
        simp only [List.mem_append, List.mem_singleton] at hx
        rcases hx with hx | rfl
        · exact hfill x hx
        · exact ⟨rfl, rfl, hst, Nat.le_refl _, h1, by simp [isBoundary], h2⟩
      · exact ⟨add, hadd, hfill⟩

end GitAi.Tracker
