/-
  Lemmas/LineStepProject.lean — `attributions_to_line_attributions` read line by line: if every
  range meeting a line has author `X` (and, when `X` is not "human", some range covers the whole
  line), the projection gives the line to `X`.
-/
import GitAiModel.Lemmas.TrackerRoundtrip
import GitAiModel.Lemmas.TrackerBoundaries
namespace GitAi.Tracker
open GitAi

theorem isCandidate_ok (c : Text) (ls le : Nat) (e : Bool) (a : Attr)
    (hbs : isBoundary c ls = true) (hbe : isBoundary c le = true) (hle : le ≤ c.length)
    (ha : OnB c a) : ∃ b, isCandidate c ls le e a = .ok b := by
  by_cases hov : a.overlaps ls le = true
  · have hss : isBoundary c (max ls a.start) = true := by
      rcases Nat.le_total ls a.start with h | h
      · rw [Nat.max_eq_right h]; exact ha.1
      · rw [Nat.max_eq_left h]; exact hbs
    have hse : isBoundary c (min le a.stop) = true := by
      rcases Nat.le_total le a.stop with h | h
      · rw [Nat.min_eq_left h]; exact hbe
      · rw [Nat.min_eq_right h]; exact ha.2
    by_cases hlt : max ls a.start < min le a.stop
    · have hslice : sliceStr c (max ls a.start) (min le a.stop) =
          .ok ((c.drop (max ls a.start)).take (min le a.stop - max ls a.start)) := by
        simp only [sliceStr]
        rw [if_pos ⟨by omega, by omega, hss, hse⟩]
      simp only [isCandidate, hov, hlt, hss, hse, hslice, Bool.not_true, Bool.false_eq_true, if_false, if_true]
      exact ⟨_, rfl⟩
    · simp only [isCandidate, hov, hlt, Bool.not_true, Bool.false_eq_true, if_false]
      exact ⟨_, rfl⟩
  · simp only [isCandidate, hov, Bool.not_false, if_true]
    exact ⟨false, by simp⟩

theorem isCandidate_overlaps (c : Text) (ls le : Nat) (e : Bool) (a : Attr)
    (h : isCandidate c ls le e a = .ok true) : a.overlaps ls le = true := by
  by_cases hov : a.overlaps ls le = true
  · exact hov
  · simp [isCandidate, hov] at h

theorem filterCandidates_spec (c : Text) (ls le : Nat) (e : Bool) (act : List Attr)
    (h : ∀ a ∈ act, ∃ b, isCandidate c ls le e a = .ok b) :
    ∃ cands, filterCandidates c ls le e act = .ok cands ∧
      ∀ x, x ∈ cands ↔ x ∈ act ∧ isCandidate c ls le e x = .ok true := by
  induction act with
  | nil => exact ⟨[], rfl, by simp⟩
  | cons a r ih =>
    obtain ⟨b, hb⟩ := h a (by simp)
    obtain ⟨cs, hcs, hmem⟩ := ih (fun x hx => h x (by simp [hx]))
    simp only [filterCandidates, hb, hcs]
    cases b with
    | true =>
      refine ⟨a :: cs, rfl, ?_⟩
      intro x
      simp only [List.mem_cons, hmem]
      constructor
      · rintro (rfl | ⟨h1, h2⟩)
        · exact ⟨Or.inl rfl, hb⟩
        · exact ⟨Or.inr h1, h2⟩
      · rintro ⟨rfl | h1, h2⟩
        · exact Or.inl rfl
        · exact Or.inr ⟨h1, h2⟩
    | false =>
      refine ⟨cs, rfl, ?_⟩
      intro x
      simp only [List.mem_cons, hmem]
      constructor
      · rintro ⟨h1, h2⟩; exact ⟨Or.inr h1, h2⟩
      · rintro ⟨rfl | h1, h2⟩
        · rw [hb] at h2; cases h2
        · exact ⟨h1, h2⟩

theorem dominant_author (c : Text) (ls le : Nat) (e : Bool) (act cands : List Attr) (X : Str)
    (hf : filterCandidates c ls le e act = .ok cands) (hall : ∀ x ∈ cands, x.author = X)
    (hne : cands ≠ [] ∨ X = human) : ∃ o, dominant c ls le e act = .ok (X, o) := by
  cases cands with
  | nil =>
    rcases hne with h | h
    · exact absurd rfl h
    · subst h
      exact ⟨none, by simp only [dominant, hf]⟩
  | cons c0 cs =>
    have hwin : (latest c0 cs).author = X := by
      rcases latest_mem c0 cs with h | h
      · rw [h]; exact hall c0 (by simp)
      · exact hall _ (List.mem_cons_of_mem _ h)
    simp only [dominant, hf, hwin]
    exact ⟨_, rfl⟩

/-- one line of the projection -/
theorem lineResult_author (c : Text) (ls le : Nat) (act : List Attr) (X : Str)
    (hlt : ls < le) (hle : le ≤ c.length)
    (hbs : isBoundary c ls = true) (hbe : isBoundary c le = true)
    (hon : ∀ a ∈ act, OnB c a)
    (hall : ∀ a ∈ act, a.overlaps ls le = true → a.author = X)
    (hfull : X ≠ human → ∃ a ∈ act, a.start ≤ ls ∧ le ≤ a.stop) :
    ∃ o, lineResult c ls le act = .ok (some (X, o)) := by
  have hslice : sliceStr c ls le = .ok ((c.drop ls).take (le - ls)) := by
    simp only [sliceStr]
    rw [if_pos ⟨by omega, hle, hbs, hbe⟩]
  obtain ⟨cands, hf, hmem⟩ := filterCandidates_spec c ls le
    (((c.drop ls).take (le - ls)).isEmpty || allWs ((c.drop ls).take (le - ls))) act
    (fun a ha => isCandidate_ok c ls le _ a hbs hbe hle (hon a ha))
  obtain ⟨o, ho⟩ := dominant_author c ls le _ act cands X hf
    (by
      intro x hx
      obtain ⟨h1, h2⟩ := (hmem x).1 hx
      exact hall x h1 (isCandidate_overlaps c ls le _ x h2))
    (by
      by_cases hX : X = human
      · exact Or.inr hX
      · left
        obtain ⟨a, ha, h1, h2⟩ := hfull hX
        have := isCandidate_full c ls le _ a hslice hlt hbs hbe h1 h2
        intro hnil
        have hin := (hmem a).2 ⟨ha, this⟩
        rw [hnil] at hin
        simp at hin)
  exact ⟨o, by simp only [lineResult, hslice, ho]⟩

theorem sweepSpec_authors (c : Text) (S : List (Nat × Attr)) (g : Nat → Str) :
    ∀ (Ls : List (Nat × Nat)) (n0 : Nat),
      (∀ i a b, Ls[i]? = some (a, b) →
        ∃ o, lineResult c a b ((S.filter (ov a b)).map (·.2)) = .ok (some (g (n0 + i), o))) →
      ∃ auths : List (Str × Option Str), sweepSpec c S Ls = .ok (auths.map some) ∧
        auths.length = Ls.length ∧ ∀ i x, auths[i]? = some x → x.1 = g (n0 + i) := by
  intro Ls
  induction Ls with
  | nil => intro n0 _; exact ⟨[], rfl, rfl, by simp⟩
  | cons l r ih =>
    intro n0 h
    obtain ⟨a, b⟩ := l
    obtain ⟨o, h0⟩ := h 0 a b (by simp)
    obtain ⟨auths, hr, hlen, hget⟩ := ih (n0 + 1) (by
      intro i a' b' hi
      have := h (i + 1) a' b' (by simpa using hi)
      have e : n0 + 1 + i = n0 + (i + 1) := by omega
      rw [e]; exact this)
    refine ⟨(g (n0 + 0), o) :: auths, by simp only [sweepSpec, h0, hr, List.map_cons], by simp [hlen], ?_⟩
    intro i x hx
    cases i with
    | zero =>
      simp only [List.getElem?_cons_zero, Option.some.injEq] at hx
      subst hx; rfl
    | succ i =>
      simp only [List.getElem?_cons_succ] at hx
      have := hget i x hx
      have e : n0 + 1 + i = n0 + (i + 1) := by omega
      rw [← e]; exact this

/-- **the projection, line by line** -/
theorem toLineAttrs_authors (out : List Attr) (c : Text) (g : Nat → Str) (hb : LinesOnBoundaries c)
    (hon : ∀ a ∈ out, OnB c a)
    (hline : ∀ i ls le, (lineRanges c)[i]? = some (ls, le) →
        (∀ a ∈ out, a.overlaps ls le = true → a.author = g i) ∧
        (g i ≠ human → ∃ a ∈ out, a.start ≤ ls ∧ le ≤ a.stop)) :
    ∃ R, toLineAttrs out c = .ok R ∧
      ∀ i, i < (lineRanges c).length → (lineAuthor R (i + 1)).getD human = g i := by
  have hch := lineRanges_chain c
  -- with no attribution at all every line is human
  have hall_human : out = [] → ∀ i, i < (lineRanges c).length → g i = human := by
    intro hout i hi
    by_cases hg : g i = human
    · exact hg
    · obtain ⟨ls, le⟩ := (lineRanges c)[i]
      obtain ⟨a, ha, _⟩ := (hline i _ _ (List.getElem?_eq_getElem hi)).2 hg
      rw [hout] at ha
      simp at ha
  rw [toLineAttrs_eq]
  by_cases hc : c.isEmpty = true
  · refine ⟨[], by simp [hc], ?_⟩
    intro i hi
    have : c = [] := by simpa using hc
    subst this
    simp [lineRanges, linesGo] at hi
  by_cases ho : out.isEmpty = true
  · refine ⟨[], by simp [ho], ?_⟩
    intro i hi
    rw [hall_human (by simpa using ho) i hi]
    rfl
  by_cases hl : (lineRanges c).isEmpty = true
  · refine ⟨[], by simp [hl], ?_⟩
    intro i hi
    have : lineRanges c = [] := by simpa using hl
    rw [this] at hi
    simp at hi
  simp only [hc, ho, hl, Bool.or_self, Bool.false_eq_true, if_false]
  obtain ⟨auths, hsw, hlen, hget⟩ := sweepSpec_authors c (sortBy idxLe (enumFrom 0 out)) g (lineRanges c) 0 (by
    intro i ls le hi
    obtain ⟨_, hlt, hle⟩ := hch.get? i ls le hi
    obtain ⟨hbs, hbe⟩ := hb (ls, le) (List.mem_of_getElem? hi)
    obtain ⟨h1, h2⟩ := hline i ls le hi
    rw [Nat.zero_add]
    apply lineResult_author c ls le _ (g i) hlt hle hbs hbe
    · intro a ha
      simp only [List.mem_map, List.mem_filter, mem_sortBy] at ha
      obtain ⟨p, ⟨hp, _⟩, rfl⟩ := ha
      exact hon _ (mem_enumFrom _ _ p hp)
    · intro a ha hov
      simp only [List.mem_map, List.mem_filter, mem_sortBy] at ha
      obtain ⟨p, ⟨hp, _⟩, rfl⟩ := ha
      exact h1 _ (mem_enumFrom _ _ p hp) hov
    · intro hg
      obtain ⟨a, ha, ha1, ha2⟩ := h2 hg
      obtain ⟨idx, hidx⟩ := exists_enumFrom out 0 a ha
      refine ⟨a, ?_, ha1, ha2⟩
      simp only [List.mem_map, List.mem_filter, mem_sortBy]
      refine ⟨(idx, a), ⟨hidx, ?_⟩, rfl⟩
      simp only [ov, Bool.and_eq_true, decide_eq_true_eq]
      omega)
  simp only [hsw]
  refine ⟨_, rfl, ?_⟩
  intro i hi
  have hproj := lineAuthor_project auths (i + 1)
  have hkeep : (fun l : LineAttr => l.author != human || l.overrode.isSome) = keepLine := rfl
  rw [hkeep, hproj]
  have hi' : i < auths.length := by omega
  have e : i + 1 - 1 = i := by omega
  simp only [Nat.le_add_left, if_true, e, List.getElem?_eq_getElem hi']
  have hX := hget i _ (List.getElem?_eq_getElem hi')
  rw [Nat.zero_add] at hX
  generalize auths[i] = xo at hX ⊢
  obtain ⟨X, o⟩ := xo
  simp only at hX
  subst hX
  simp only
  split
  · rfl
  · rename_i hcond
    simp only [Bool.or_eq_true, bne_iff_ne, ne_eq, not_or, Decidable.not_not] at hcond
    simp [hcond.1]

end GitAi.Tracker
