/-
  Lemmas/LineStepSys.lean — the line rule of `LineStep`, read through content ids, is
  `Sys.checkpointAttr`.
-/
import GitAiModel.Model.LineStep
import GitAiModel.Model.Sys
namespace GitAi.LineStep
open GitAi GitAi.Tracker

/-- an alignment whose lines carry content ids (a kept line has ONE id: it keeps it) -/
abbrev IdAl := List (Al × Nat)

def alOf (ial : IdAl) : List Al := ial.map (·.1)

/-- ids of the previous snapshot (kept and deleted lines) -/
def prevIds : IdAl → List Nat
  | [] => []
  | (.keep _, y) :: r => y :: prevIds r
  | (.delete _, y) :: r => y :: prevIds r
  | (.insert _, _) :: r => prevIds r

/-- ids of the current content (kept and inserted lines) -/
def newIds : IdAl → List Nat
  | [] => []
  | (.keep _, y) :: r => y :: newIds r
  | (.delete _, _) :: r => newIds r
  | (.insert _, y) :: r => y :: newIds r

def insertedIds : IdAl → List Nat
  | [] => []
  | (.insert _, y) :: r => y :: insertedIds r
  | _ :: r => insertedIds r

/-- ids are unique within the previous snapshot -/
def idsUnique (ial : IdAl) : Bool := decide (prevIds ial).Nodup

/-- an inserted line has an id the previous snapshot does not contain -/
def insertedFresh (ial : IdAl) : Bool := (insertedIds ial).all (fun y => !(prevIds ial).contains y)

theorem oldBodies_alOf_length (ial : IdAl) : (oldBodies (alOf ial)).length = (prevIds ial).length := by
  induction ial with
  | nil => rfl
  | cons p r ih =>
    obtain ⟨a, y⟩ := p
    cases a <;> simp only [alOf, List.map_cons, oldBodies, prevIds, List.length_cons] <;>
      simpa [alOf] using ih

theorem lookup_none (y : Nat) : ∀ (snap : List Nat) (attr : List Sys.Author), y ∉ snap →
    Sys.lookup snap attr y = none := by
  intro snap
  induction snap with
  | nil => intro attr _; simp [Sys.lookup]
  | cons x xs ih =>
    intro attr h
    cases attr with
    | nil => simp [Sys.lookup]
    | cons a as =>
      simp only [List.mem_cons, not_or] at h
      simp only [Sys.lookup]
      rw [if_neg (fun e => h.1 e.symm)]
      exact ih as h.2

theorem lookup_append (y : Nat) (s : List Nat) (sa : List Sys.Author) :
    ∀ (d : List Nat) (da : List Sys.Author), d.length = da.length → y ∉ d →
      Sys.lookup (d ++ s) (da ++ sa) y = Sys.lookup s sa y := by
  intro d
  induction d with
  | nil =>
    intro da hl _
    cases da with
    | nil => rfl
    | cons _ _ => simp at hl
  | cons x xs ih =>
    intro da hl h
    cases da with
    | nil => simp at hl
    | cons a as =>
      simp only [List.mem_cons, not_or] at h
      simp only [List.cons_append, Sys.lookup]
      rw [if_neg (fun e => h.1 e.symm)]
      exact ih as (by simpa using hl) h.2

/-- the line rule through ids, with the part of the snapshot already passed as context -/
theorem lineRule_ids (enc : Sys.Author → Str) (who : Sys.Author) :
    ∀ (ial : IdAl) (doneIds : List Nat) (doneAuth as : List Sys.Author),
      doneIds.length = doneAuth.length → as.length = (prevIds ial).length →
      (doneIds ++ prevIds ial).Nodup → (∀ y ∈ insertedIds ial, y ∉ doneIds ++ prevIds ial) →
      lineRule (alOf ial) (as.map enc) (enc who) =
        (newIds ial).map (fun y => enc ((Sys.lookup (doneIds ++ prevIds ial) (doneAuth ++ as) y).getD who)) := by
  intro ial
  induction ial with
  | nil => intro _ _ _ _ _ _ _; rfl
  | cons p r ih =>
    intro doneIds doneAuth as hd hl hnd hfr
    obtain ⟨a, y⟩ := p
    cases a with
    | keep b =>
      simp only [prevIds, List.length_cons] at hl
      cases as with
      | nil => simp at hl
      | cons a0 as' =>
        have hy : y ∉ doneIds := by
          intro hmem
          rw [List.nodup_append] at hnd
          exact hnd.2.2 y hmem y (by simp [prevIds]) rfl
        have e1 : doneIds ++ prevIds ((Al.keep b, y) :: r) = (doneIds ++ [y]) ++ prevIds r := by
          simp [prevIds]
        have e2 : doneAuth ++ a0 :: as' = (doneAuth ++ [a0]) ++ as' := by simp
        have hlook : Sys.lookup (doneIds ++ prevIds ((Al.keep b, y) :: r)) (doneAuth ++ a0 :: as') y = some a0 := by
          rw [lookup_append y _ _ doneIds doneAuth hd hy]
          simp [prevIds, Sys.lookup]
        simp only [alOf, List.map_cons, lineRule, newIds, List.headD_cons, List.tail_cons, hlook, Option.getD_some]
        congr 1
        rw [e1, e2]
        apply ih (doneIds ++ [y]) (doneAuth ++ [a0]) as' (by simp [hd]) (by simpa using hl)
        · rw [← e1]; exact hnd
        · intro z hz; rw [← e1]; exact hfr z (by simpa [insertedIds] using hz)
    | delete b =>
      simp only [prevIds, List.length_cons] at hl
      cases as with
      | nil => simp at hl
      | cons a0 as' =>
        have e1 : doneIds ++ prevIds ((Al.delete b, y) :: r) = (doneIds ++ [y]) ++ prevIds r := by
          simp [prevIds]
        have e2 : doneAuth ++ a0 :: as' = (doneAuth ++ [a0]) ++ as' := by simp
        simp only [alOf, List.map_cons, lineRule, newIds, List.tail_cons]
        rw [e1, e2]
        apply ih (doneIds ++ [y]) (doneAuth ++ [a0]) as' (by simp [hd]) (by simpa using hl)
        · rw [← e1]; exact hnd
        · intro z hz; rw [← e1]; exact hfr z (by simpa [insertedIds] using hz)
    | insert b =>
      have e1 : prevIds ((Al.insert b, y) :: r) = prevIds r := rfl
      have hy := hfr y (by simp [insertedIds])
      rw [e1] at hy hnd hl ⊢
      simp only [alOf, List.map_cons, lineRule, newIds, lookup_none y _ _ hy, Option.getD_none]
      congr 1
      apply ih doneIds doneAuth as hd hl hnd
      intro z hz
      have := hfr z (by simp [insertedIds, hz])
      rwa [e1] at this

theorem lineRule_checkpointAttr (enc : Sys.Author → Str) (who : Sys.Author) (ial : IdAl)
    (prevAuthors : List Sys.Author) (hlen : prevAuthors.length = (prevIds ial).length)
    (huniq : idsUnique ial = true) (hfresh : insertedFresh ial = true) :
    lineRule (alOf ial) (prevAuthors.map enc) (enc who) =
      (Sys.checkpointAttr ⟨prevIds ial, prevAuthors⟩ (newIds ial) who).map enc := by
  have := lineRule_ids enc who ial [] [] prevAuthors rfl hlen
    (by simpa [idsUnique] using huniq)
    (by
      intro y hy
      simp only [insertedFresh, List.all_eq_true, Bool.not_eq_true', List.contains_eq_mem,
        decide_eq_false_iff_not] at hfresh
      simpa using hfresh y hy)
  simp only [List.nil_append] at this
  rw [this]
  simp [Sys.checkpointAttr]

end GitAi.LineStep
