/-
  Lemmas/LineStepText.lean — texts made of newline-terminated lines: their line ranges, the
  segment list of an alignment, boundaries, and the prior attributions built from per-line authors.
-/
import GitAiModel.Model.LineStep
import GitAiModel.Lemmas.TrackerRoundtrip
import GitAiModel.Lemmas.TrackerBoundaries
namespace GitAi.LineStep
open GitAi GitAi.Tracker

/-! ## line ranges of `textOf` -/

/-- consecutive ranges of the lines with the given bodies, from offset `off` -/
def rangesFrom : Nat → List Text → List (Nat × Nat)
  | _, [] => []
  | off, b :: r => (off, off + b.length + 1) :: rangesFrom (off + b.length + 1) r

theorem linesGo_line (b rest : Text) (hb : b.contains 10 = false) : ∀ (i s : Nat),
    linesGo i s (b ++ 10 :: rest) =
      (s, i + b.length + 1) :: linesGo (i + b.length + 1) (i + b.length + 1) rest := by
  induction b with
  | nil => intro i s; simp [linesGo]
  | cons x xs ih =>
    intro i s
    have hx : x ≠ 10 := by
      intro h; subst h; simp at hb
    have hxs : xs.contains 10 = false := by
      simp only [List.contains_cons, Bool.or_eq_false_iff] at hb
      exact hb.2
    simp only [List.cons_append, linesGo, hx, if_false]
    rw [ih hxs (i + 1) s]
    simp only [List.length_cons]
    have e : i + 1 + xs.length + 1 = i + (xs.length + 1) + 1 := by omega
    rw [e]

theorem textOf_append (x y : List Text) : textOf (x ++ y) = textOf x ++ textOf y := by
  induction x with
  | nil => rfl
  | cons b r ih => simp [textOf, ih]

def BodiesOk (bs : List Text) : Prop := ∀ b ∈ bs, bodyOk b = true

theorem bodyOk_noNl {b : Text} (h : bodyOk b = true) : b.contains 10 = false := by
  simp only [bodyOk, Bool.and_eq_true, Bool.not_eq_true'] at h
  exact h.1

theorem bodyOk_headOk {b : Text} (h : bodyOk b = true) : headOk (line b) := by
  cases b with
  | nil => simp [line, headOk, isCont]
  | cons x xs =>
    simp only [bodyOk, Bool.and_eq_true, Bool.not_eq_true'] at h
    simpa [line, headOk] using h.2

theorem linesGo_textOf (bs : List Text) (h : BodiesOk bs) : ∀ off,
    linesGo off off (textOf bs) = rangesFrom off bs := by
  induction bs with
  | nil => intro off; simp [textOf, linesGo, rangesFrom]
  | cons b r ih =>
    intro off
    have hb := bodyOk_noNl (h b (by simp))
    have hr : BodiesOk r := fun x hx => h x (by simp [hx])
    simp only [textOf, line, List.append_assoc, List.singleton_append, rangesFrom]
    rw [linesGo_line b (textOf r) hb off off, ih hr]

theorem lineRanges_textOf (bs : List Text) (h : BodiesOk bs) : lineRanges (textOf bs) = rangesFrom 0 bs := by
  simpa [lineRanges] using linesGo_textOf bs h 0

theorem rangesFrom_length (bs : List Text) : ∀ off, (rangesFrom off bs).length = bs.length := by
  induction bs with
  | nil => intro off; rfl
  | cons b r ih => intro off; simp [rangesFrom, ih]

theorem textOf_length_cons (b : Text) (r : List Text) :
    (textOf (b :: r)).length = b.length + 1 + (textOf r).length := by
  simp [textOf, line]; omega

theorem rangesFrom_split (bs1 : List Text) (b : Text) (bs2 : List Text) : ∀ off,
    (rangesFrom off (bs1 ++ b :: bs2))[bs1.length]? =
      some (off + (textOf bs1).length, off + (textOf bs1).length + b.length + 1) := by
  induction bs1 with
  | nil => intro off; simp [rangesFrom, textOf]
  | cons x xs ih =>
    intro off
    simp only [List.cons_append, rangesFrom, List.length_cons, List.getElem?_cons_succ]
    rw [ih, textOf_length_cons]
    congr 2 <;> omega

theorem rangesFrom_mem (bs : List Text) : ∀ (off : Nat) (p : Nat × Nat), p ∈ rangesFrom off bs →
    ∃ bs1 b bs2, bs = bs1 ++ b :: bs2 ∧
      p = (off + (textOf bs1).length, off + (textOf bs1).length + b.length + 1) := by
  induction bs with
  | nil => intro off p hp; simp [rangesFrom] at hp
  | cons x xs ih =>
    intro off p hp
    simp only [rangesFrom, List.mem_cons] at hp
    rcases hp with rfl | hp
    · exact ⟨[], x, xs, rfl, by simp [textOf]⟩
    · obtain ⟨bs1, b, bs2, rfl, rfl⟩ := ih _ p hp
      refine ⟨x :: bs1, b, bs2, rfl, ?_⟩
      rw [textOf_length_cons]
      congr 1 <;> omega

theorem rangesFrom_get (bs : List Text) (i s e : Nat) (h : (rangesFrom 0 bs)[i]? = some (s, e)) :
    ∃ bs1 b bs2, bs = bs1 ++ b :: bs2 ∧ bs1.length = i ∧ s = (textOf bs1).length ∧
      e = (textOf bs1).length + b.length + 1 := by
  have hlt : i < bs.length := by
    have := (List.getElem?_eq_some_iff.1 h).1
    rwa [rangesFrom_length] at this
  refine ⟨bs.take i, bs[i], bs.drop (i + 1), ?_, ?_, ?_⟩
  · simp
  · simp [List.length_take]; omega
  · have h2 := rangesFrom_split (bs.take i) bs[i] (bs.drop (i + 1)) 0
    have e1 : bs.take i ++ bs[i] :: bs.drop (i + 1) = bs := by simp
    have e2 : (bs.take i).length = i := by simp [List.length_take]; omega
    rw [e1, e2, h] at h2
    simp only [Option.some.injEq, Prod.mk.injEq, Nat.zero_add] at h2
    exact h2

/-! ## boundaries -/

theorem textOf_headOk (bs : List Text) (h : BodiesOk bs) : headOk (textOf bs) := by
  cases bs with
  | nil => trivial
  | cons b r =>
    have := bodyOk_headOk (h b (by simp))
    simp only [textOf]
    cases hb : line b with
    | nil => simp [line] at hb
    | cons x xs => rw [hb] at this; simpa [headOk] using this

theorem isBoundary_split (bs1 bs2 : List Text) (h : BodiesOk bs2) :
    isBoundary (textOf (bs1 ++ bs2)) (textOf bs1).length = true := by
  rw [textOf_append]
  exact isBoundary_append _ _ (textOf_headOk bs2 h)

theorem linesOnBoundaries_textOf (bs : List Text) (h : BodiesOk bs) : LinesOnBoundaries (textOf bs) := by
  intro p hp
  rw [lineRanges_textOf bs h] at hp
  obtain ⟨bs1, b, bs2, rfl, rfl⟩ := rangesFrom_mem bs 0 p hp
  have h2 : BodiesOk (b :: bs2) := fun x hx => h x (by simp at hx ⊢; right; exact hx)
  have h3 : BodiesOk bs2 := fun x hx => h x (by simp [hx])
  constructor
  · simpa using isBoundary_split bs1 (b :: bs2) h2
  · have := isBoundary_split (bs1 ++ [b]) bs2 h3
    have e1 : (bs1 ++ [b]) ++ bs2 = bs1 ++ b :: bs2 := by simp
    have e2 : (textOf (bs1 ++ [b])).length = 0 + (textOf bs1).length + b.length + 1 := by
      rw [textOf_append]; simp [textOf, line]; omega
    rw [e1, e2] at this
    exact this

/-! ## the segment list of an alignment -/

theorem oldOf_segsOf (al : List Al) : oldOf (segsOf al) = textOf (oldBodies al) := by
  induction al with
  | nil => rfl
  | cons a r ih =>
    cases a <;> simp [segsOf, Al.seg, oldOf, oldBodies, textOf] <;> simpa [segsOf] using ih

theorem newOf_segsOf (al : List Al) : newOf (segsOf al) = textOf (newBodies al) := by
  induction al with
  | nil => rfl
  | cons a r ih =>
    cases a <;> simp [segsOf, Al.seg, newOf, newBodies, textOf] <;> simpa [segsOf] using ih

theorem segsOf_append (x y : List Al) : segsOf (x ++ y) = segsOf x ++ segsOf y := by
  simp [segsOf]

theorem oldBodies_append (x y : List Al) : oldBodies (x ++ y) = oldBodies x ++ oldBodies y := by
  induction x with
  | nil => rfl
  | cons a r ih => cases a <;> simp [oldBodies, ih]

theorem newBodies_append (x y : List Al) : newBodies (x ++ y) = newBodies x ++ newBodies y := by
  induction x with
  | nil => rfl
  | cons a r ih => cases a <;> simp [newBodies, ih]

theorem alOk_old (al : List Al) (h : alOk al = true) : BodiesOk (oldBodies al) := by
  induction al with
  | nil => intro b hb; simp [oldBodies] at hb
  | cons a r ih =>
    simp only [alOk, List.all_cons, Bool.and_eq_true] at h
    have hr := ih (by simpa [alOk] using h.2)
    intro b hb
    cases a <;> simp only [oldBodies, List.mem_cons] at hb
    · rcases hb with rfl | hb
      · simpa [Al.body] using h.1
      · exact hr b hb
    · rcases hb with rfl | hb
      · simpa [Al.body] using h.1
      · exact hr b hb
    · exact hr b hb

theorem alOk_new (al : List Al) (h : alOk al = true) : BodiesOk (newBodies al) := by
  induction al with
  | nil => intro b hb; simp [newBodies] at hb
  | cons a r ih =>
    simp only [alOk, List.all_cons, Bool.and_eq_true] at h
    have hr := ih (by simpa [alOk] using h.2)
    intro b hb
    cases a <;> simp only [newBodies, List.mem_cons] at hb
    · rcases hb with rfl | hb
      · simpa [Al.body] using h.1
      · exact hr b hb
    · exact hr b hb
    · rcases hb with rfl | hb
      · simpa [Al.body] using h.1
      · exact hr b hb

theorem segStartsOk_segsOf (al : List Al) (h : alOk al = true) : SegStartsOk (segsOf al) := by
  intro g hg _
  simp only [segsOf, List.mem_map] at hg
  obtain ⟨a, ha, rfl⟩ := hg
  have hb : bodyOk a.body = true := by
    simp only [alOk, List.all_eq_true] at h
    exact h a ha
  cases a <;> exact bodyOk_headOk hb

/-- every new line is a kept or an inserted item of the alignment -/
theorem split_at_new (al : List Al) : ∀ (j : Nat), j < (newBodies al).length →
    ∃ pre item post, al = pre ++ item :: post ∧ (newBodies pre).length = j ∧
      ((∃ b, item = .keep b) ∨ (∃ b, item = .insert b)) := by
  induction al with
  | nil => intro j hj; simp [newBodies] at hj
  | cons a r ih =>
    intro j hj
    cases a with
    | delete b =>
      simp only [newBodies] at hj
      obtain ⟨pre, item, post, rfl, h1, h2⟩ := ih j hj
      exact ⟨.delete b :: pre, item, post, rfl, by simpa [newBodies] using h1, h2⟩
    | keep b =>
      cases j with
      | zero => exact ⟨[], .keep b, r, rfl, rfl, Or.inl ⟨b, rfl⟩⟩
      | succ j =>
        simp only [newBodies, List.length_cons] at hj
        obtain ⟨pre, item, post, rfl, h1, h2⟩ := ih j (by omega)
        exact ⟨.keep b :: pre, item, post, rfl, by simp [newBodies, h1], h2⟩
    | insert b =>
      cases j with
      | zero => exact ⟨[], .insert b, r, rfl, rfl, Or.inr ⟨b, rfl⟩⟩
      | succ j =>
        simp only [newBodies, List.length_cons] at hj
        obtain ⟨pre, item, post, rfl, h1, h2⟩ := ih j (by omega)
        exact ⟨.insert b :: pre, item, post, rfl, by simp [newBodies, h1], h2⟩

/-! ## the line rule, pointwise -/

theorem lineRule_length (al : List Al) : ∀ (as : List Str) (who : Str),
    (lineRule al as who).length = (newBodies al).length := by
  induction al with
  | nil => intro as who; rfl
  | cons a r ih => intro as who; cases a <;> simp [lineRule, newBodies, ih]

theorem lineRule_keep (pre post : List Al) (b : Text) : ∀ (as : List Str) (who : Str),
    (lineRule (pre ++ .keep b :: post) as who)[(newBodies pre).length]? =
      some (as.getD (oldBodies pre).length human) := by
  induction pre with
  | nil => intro as who; cases as <;> simp [lineRule, newBodies, oldBodies]
  | cons a r ih =>
    intro as who
    cases a with
    | keep x =>
      simp only [List.cons_append, lineRule, newBodies, oldBodies, List.length_cons, List.getElem?_cons_succ, ih]
      cases as <;> simp
    | delete x =>
      simp only [List.cons_append, lineRule, newBodies, oldBodies, List.length_cons, ih]
      cases as <;> simp
    | insert x =>
      simp only [List.cons_append, lineRule, newBodies, oldBodies, List.length_cons, List.getElem?_cons_succ, ih]

theorem lineRule_insert (pre post : List Al) (b : Text) : ∀ (as : List Str) (who : Str),
    (lineRule (pre ++ .insert b :: post) as who)[(newBodies pre).length]? = some who := by
  induction pre with
  | nil => intro as who; simp [lineRule, newBodies]
  | cons a r ih =>
    intro as who
    cases a <;>
      simp only [List.cons_append, lineRule, newBodies, List.length_cons, List.getElem?_cons_succ, ih]

/-! ## prior attributions from per-line authors -/

theorem mem_priorLines (as : List Str) : ∀ (n : Nat) (l : LineAttr),
    l ∈ priorLines n as ↔ ∃ i a, as[i]? = some a ∧ a ≠ human ∧ l = ⟨n + i, n + i, a, none⟩ := by
  induction as with
  | nil => intro n l; simp [priorLines]
  | cons x xs ih =>
    intro n l
    simp only [priorLines, List.mem_append, ih]
    constructor
    · rintro (h | ⟨i, a, h1, h2, h3⟩)
      · split at h
        · simp at h
        · rename_i hx
          simp only [List.mem_singleton] at h
          exact ⟨0, x, by simp, hx, by simpa using h⟩
      · exact ⟨i + 1, a, by simpa using h1, h2, by rw [h3]; congr 1 <;> omega⟩
    · rintro ⟨i, a, h1, h2, h3⟩
      cases i with
      | zero =>
        simp only [List.getElem?_cons_zero, Option.some.injEq] at h1
        subst h1
        left
        simp [h2, h3]
      | succ i =>
        right
        exact ⟨i, a, by simpa using h1, h2, by rw [h3]; congr 1 <;> omega⟩

/-- the prior attributions: exactly one range per non-human line, the range of that line -/
theorem mem_priors (bs : List Text) (as : List Str) (ts0 : Nat) (hb : BodiesOk bs)
    (hlen : as.length = bs.length) (a : Attr) :
    a ∈ lineAttrsToAttrs (priorLines 1 as) (textOf bs) ts0 ↔
      ∃ (i : Nat) (A : Str) (s e : Nat), as[i]? = some A ∧ A ≠ human ∧ (rangesFrom 0 bs)[i]? = some (s, e) ∧ a = ⟨s, e, A, ts0⟩ := by
  have hlr := lineRanges_textOf bs hb
  have hrange : ∀ l ∈ priorLines 1 as,
      1 ≤ l.startLine ∧ l.startLine ≤ l.endLine ∧ l.endLine ≤ (lineRanges (textOf bs)).length := by
    intro l hl
    obtain ⟨i, A, h1, _, rfl⟩ := (mem_priorLines as 1 l).1 hl
    have : i < as.length := (List.getElem?_eq_some_iff.1 h1).1
    rw [hlr, rangesFrom_length]
    simp only
    omega
  by_cases hnil : priorLines 1 as = []
  · have h0 : lineAttrsToAttrs (priorLines 1 as) (textOf bs) ts0 = [] := by
      simp [lineAttrsToAttrs, hnil]
    rw [h0]
    constructor
    · intro h; simp at h
    · rintro ⟨i, A, s, e, h1, h2, _, _⟩
      have : (⟨1 + i, 1 + i, A, none⟩ : LineAttr) ∈ priorLines 1 as :=
        (mem_priorLines as 1 _).2 ⟨i, A, h1, h2, rfl⟩
      rw [hnil] at this
      simp at this
  · have hc : textOf bs ≠ [] := by
      intro h
      cases bs with
      | nil =>
        cases as with
        | nil => exact hnil rfl
        | cons _ _ => simp at hlen
      | cons b r => simp [textOf, line] at h
    rw [lineAttrsToAttrs_eq _ _ ts0 hrange hnil hc, hlr]
    simp only [List.mem_map]
    constructor
    · rintro ⟨l, hl, rfl⟩
      obtain ⟨i, A, h1, h2, rfl⟩ := (mem_priorLines as 1 l).1 hl
      have hi : i < (rangesFrom 0 bs).length := by
        rw [rangesFrom_length, ← hlen]; exact (List.getElem?_eq_some_iff.1 h1).1
      refine ⟨i, A, ((rangesFrom 0 bs)[i]).1, ((rangesFrom 0 bs)[i]).2, h1, h2, by rw [List.getElem?_eq_getElem hi], ?_⟩
      have e : 1 + i - 1 = i := by omega
      simp [toA, e, List.getD_eq_getElem?_getD, List.getElem?_eq_getElem hi]
    · rintro ⟨i, A, s, e, h1, h2, h3, rfl⟩
      refine ⟨⟨1 + i, 1 + i, A, none⟩, (mem_priorLines as 1 _).2 ⟨i, A, h1, h2, rfl⟩, ?_⟩
      have e' : 1 + i - 1 = i := by omega
      simp [toA, e', List.getD_eq_getElem?_getD, h3]

end GitAi.LineStep
