/-
  Lemmas/LineStepTransform.lean — facts about `transform` without move mappings and about `merge`
  that the line-level bridge needs beyond the coverage theorems of C16:
    * a prior range covering the whole pre-image of an Equal segment comes out as ONE range covering
      the whole segment (not only byte by byte);
    * no empty range (deletion marker) lies strictly inside an Equal / Insert segment;
    * `merge` only widens: every input range lies inside an output range of the same (author, ts),
      and it creates no empty range strictly inside a given interval.
-/
import GitAiModel.Lemmas.TrackerMerge
import GitAiModel.Lemmas.TrackerWs
namespace GitAi.Tracker
open GitAi

/-! ## `mapOverlaps`: a range covering the whole slice -/

theorem mapOverlaps_mem_full (lo hi base : Nat) (hlt : lo < hi) (a : Attr) (h1 : a.start ≤ lo) (h2 : hi ≤ a.stop)
    (l : List Attr) (hs : SortedStart l) (ha : a ∈ l) :
    (⟨base, base + (hi - lo), a.author, a.ts⟩ : Attr) ∈ mapOverlaps lo hi base l := by
  induction l with
  | nil => simp at ha
  | cons x xs ih =>
    have hs' : SortedStart xs := (List.pairwise_cons.1 hs).2
    have hle : ∀ y ∈ xs, x.start ≤ y.start := (List.pairwise_cons.1 hs).1
    have hx : x.start < hi := by
      rcases List.mem_cons.1 ha with rfl | ha'
      · omega
      · have := hle a ha'; omega
    simp only [mapOverlaps]
    rw [if_neg (by omega)]
    rcases List.mem_cons.1 ha with rfl | ha'
    · have e1 : max a.start lo = lo := by omega
      have e2 : min a.stop hi = hi := by omega
      simp only [e1, e2, hlt, if_true, Nat.sub_self, Nat.add_zero]
      exact List.mem_cons_self
    · split
      · exact List.mem_cons_of_mem _ (ih hs' ha')
      · exact ih hs' ha'

theorem mapOverlaps_src (lo hi base : Nat) (l : List Attr) :
    ∀ x ∈ mapOverlaps lo hi base l, ∃ a ∈ l, a.author = x.author ∧ a.ts = x.ts ∧ a.start < hi ∧ lo < a.stop := by
  induction l with
  | nil => intro x hx; simp [mapOverlaps] at hx
  | cons y ys ih =>
    intro x hx
    simp only [mapOverlaps] at hx
    split at hx
    · simp at hx
    · split at hx
      · simp only [List.mem_cons] at hx
        rcases hx with rfl | hx
        · exact ⟨y, by simp, rfl, rfl, by omega, by omega⟩
        · obtain ⟨a, ha, r⟩ := ih x hx
          exact ⟨a, List.mem_cons_of_mem _ ha, r⟩
      · obtain ⟨a, ha, r⟩ := ih x hx
        exact ⟨a, List.mem_cons_of_mem _ ha, r⟩

/-! ## one segment of a run without moves -/

theorem not_inMoved_nil (c : Ctx) (hm : c.moves = []) (x : Attr) : ¬ InMovedIns c x := by
  rintro ⟨m, hmem, _⟩
  rw [hm] at hmem
  simp at hmem

/-- without moves, an Equal / Insert step appends only non-empty ranges or a range starting at the
    segment start -/
theorem step_mid_nomoves (c : Ctx) (hm : c.moves = []) (s s' : St) (g : Seg) (hop : g.op ≠ .delete)
    (h : step c s g = .ok s') :
    ∃ d, s'.out = s.out ++ d ∧ ∀ x ∈ d, x.start < x.stop ∨ x.start = s.newPos := by
  simp only [step] at h
  cases hg : g.op <;> simp only [hg] at h
  · cases h
    exact ⟨_, rfl, fun x hx => Or.inl (mapOverlaps_nonempty _ _ _ _ x hx)⟩
  · exact absurd hg hop
  · rw [hm, rangesForInsertion_nil] at h
    simp only at h
    split at h
    · cases h
    · cases h
      refine ⟨_, rfl, ?_⟩
      intro x hx
      simp only [List.mem_singleton] at hx
      subst hx
      exact Or.inr rfl

/-- the pieces of a run around one segment, without moves -/
theorem transform_pieces (pre post : List Seg) (g : Seg) (subst : List (Nat × Nat))
    (old : List Attr) (author : Str) (ts : Nat) (raw : List Attr)
    (h : transform (pre ++ g :: post) subst [] old author ts = .ok raw) :
    ∃ (c : Ctx) (s1 s2 : St) (d1 mid d3 : List Attr),
      c.old = old ∧ c.moves = [] ∧ c.author = author ∧ c.ts = ts ∧
      step c s1 g = .ok s2 ∧ s1.newPos = (newOf pre).length ∧ s1.oldPos = (oldOf pre).length ∧
      CurInv c s1 ∧ s1.out = d1 ∧ s2.out = d1 ++ mid ∧ raw = d1 ++ mid ++ d3 ∧
      (∀ x ∈ d1, x.start ≤ x.stop ∧ x.stop ≤ (newOf pre).length) ∧
      (∀ x ∈ d3, (newOf pre).length + g.newLen ≤ x.start ∧ x.start ≤ x.stop) := by
  simp only [transform] at h
  split at h
  · cases h
  · rename_i s3 hrun
    cases h
    generalize hc : (⟨old, author, ts, insertions (pre ++ g :: post), [], subst⟩ : Ctx) = c at hrun
    have hins : c.ins = insertions (pre ++ g :: post) := by rw [← hc]
    have hmv : c.moves = [] := by rw [← hc]
    have hwf := insertions_wf _ c hins
    obtain ⟨s1, s2, h1, h2, h3⟩ := runSegs_split c pre post _ St.init s3 hrun
    have hnp1 : s1.newPos = (newOf pre).length := by
      rw [runSegs_newPos c pre _ _ h1]; simp [St.init]
    have hop1 : s1.oldPos = (oldOf pre).length := by
      rw [runSegs_oldPos c pre _ _ h1]; simp [St.init]
    have hsrc : ∀ (l : List Seg) (k : Nat), SrcOk c.moves k l := by
      intro l
      induction l with
      | nil => intro k; trivial
      | cons x xs ih =>
        intro k
        simp only [SrcOk]
        cases x.op <;> simp only
        · exact ih k
        · exact ⟨by rw [hmv]; simp, ih _⟩
        · exact ih k
    have hinv1 : CurInv c s1 :=
      runSegs_curInv c pre St.init s1 (by intro x hx; simp [St.init] at hx) (hsrc _ _) h1
    obtain ⟨d1, hd1, hP1⟩ := runSegs_delta c hwf pre _ _ h1
    obtain ⟨mid, hd2, _⟩ := step_delta c hwf s1 s2 g h2
    obtain ⟨d3, hd3, hP3⟩ := runSegs_delta c hwf post _ _ h3
    simp only [St.init, List.nil_append] at hd1
    have hnp2 := step_newPos c s1 s2 g h2
    refine ⟨c, s1, s2, d1, mid, d3, by rw [← hc], hmv, by rw [← hc], by rw [← hc], h2, hnp1, hop1, hinv1,
      hd1, by rw [hd2, hd1], by rw [hd3, hd2, hd1], ?_, ?_⟩
    · intro x hx
      rcases hP1 x hx with hw | hmm
      · simp only [Within, St.init] at hw; omega
      · exact absurd hmm (not_inMoved_nil c hmv x)
    · intro x hx
      rcases hP3 x hx with hw | hmm
      · simp only [Within] at hw; omega
      · exact absurd hmm (not_inMoved_nil c hmv x)

/-- **no deletion marker strictly inside an Equal / Insert segment** (no moves) -/
theorem raw_no_inner_empty (pre post : List Seg) (g : Seg) (subst : List (Nat × Nat))
    (old : List Attr) (author : Str) (ts : Nat) (raw : List Attr) (hop : g.op ≠ .delete)
    (h : transform (pre ++ g :: post) subst [] old author ts = .ok raw) :
    ∀ x ∈ raw, ¬ ((newOf pre).length < x.start ∧ x.start < (newOf pre).length + g.data.length ∧ x.stop ≤ x.start) := by
  obtain ⟨c, s1, s2, d1, mid, d3, _, hmv, _, _, hstep, hnp, _, _, ho1, ho2, hraw, hd1, hd3⟩ :=
    transform_pieces pre post g subst old author ts raw h
  have hlen : g.newLen = g.data.length := by
    cases hg : g.op <;> simp [Seg.newLen, hg] at hop ⊢
  obtain ⟨d, hd, hP⟩ := step_mid_nomoves c hmv s1 s2 g hop hstep
  have hmid : d = mid := by
    rw [ho1] at hd
    rw [ho2] at hd
    exact (List.append_cancel_left hd).symm
  intro x hx hbad
  rw [hraw] at hx
  simp only [List.mem_append] at hx
  rcases hx with (hx | hx) | hx
  · have := hd1 x hx; omega
  · rw [← hmid] at hx
    rcases hP x hx with h' | h'
    · omega
    · rw [hnp] at h'; omega
  · have := hd3 x hx; omega

/-- **a prior range over the whole pre-image of an Equal segment comes out as one range over the
    whole segment** (no moves, priors sorted by start) -/
theorem equal_full_range (pre post : List Seg) (d : Text) (subst : List (Nat × Nat))
    (old : List Attr) (author : Str) (ts : Nat) (raw : List Attr) (hsorted : SortedStart old)
    (h : transform (pre ++ ⟨.equal, d⟩ :: post) subst [] old author ts = .ok raw)
    (a : Attr) (ha : a ∈ old) (hd : 0 < d.length)
    (h1 : a.start ≤ (oldOf pre).length) (h2 : (oldOf pre).length + d.length ≤ a.stop) :
    (⟨(newOf pre).length, (newOf pre).length + d.length, a.author, a.ts⟩ : Attr) ∈ raw := by
  obtain ⟨c, s1, s2, d1, mid, d3, hold, _, _, _, hstep, hnp, hop, hinv, ho1, ho2, hraw, _, _⟩ :=
    transform_pieces pre post ⟨.equal, d⟩ subst old author ts raw h
  have hmid : mid = mapOverlaps s1.oldPos (s1.oldPos + d.length) s1.newPos
      (c.old.drop (advance c.old s1.oldPos s1.oldCur)) := by
    simp only [step, Except.ok.injEq] at hstep
    subst hstep
    simp only at ho2
    rw [ho1] at ho2
    exact (List.append_cancel_left ho2).symm
  rw [hraw, hmid, hop, hnp, hold]
  simp only [List.mem_append]
  left; right
  have hmem : a ∈ old.drop (advance old (oldOf pre).length s1.oldCur) := by
    have hsplit : a ∈ old.take (advance old (oldOf pre).length s1.oldCur) ++
        old.drop (advance old (oldOf pre).length s1.oldCur) := by
      rw [List.take_append_drop]; exact ha
    rcases List.mem_append.1 hsplit with ht | hd'
    · rcases advance_take _ _ _ a ht with h' | h'
      · have := hinv a (by rw [hold]; exact h')
        rw [hop] at this
        omega
      · omega
    · exact hd'
  have := mapOverlaps_mem_full (oldOf pre).length ((oldOf pre).length + d.length) (newOf pre).length
    (by omega) a h1 h2 _ (hsorted.drop _) hmem
  have e : (oldOf pre).length + d.length - (oldOf pre).length = d.length := by omega
  rw [e] at this
  exact this

/-! ## `merge` only widens -/

theorem coalesce_super (w : Str × Nat) (u v : Nat) (S : List Attr) :
    ∀ (cur : Option Attr), SortedStart S → (∀ l, cur = some l → ∀ y ∈ S, l.start ≤ y.start) →
      (∃ z ∈ cur.toList ++ S, z.who = w ∧ z.start ≤ u ∧ v ≤ z.stop) →
      ∃ y ∈ coalesce cur S, y.who = w ∧ y.start ≤ u ∧ v ≤ y.stop := by
  induction S with
  | nil =>
    intro cur _ _ h
    simpa [coalesce] using h
  | cons a r ih =>
    intro cur hs hcur h
    have hs' : SortedStart r := (List.pairwise_cons.1 hs).2
    have har : ∀ y ∈ r, a.start ≤ y.start := (List.pairwise_cons.1 hs).1
    cases cur with
    | none =>
      simp only [coalesce]
      exact ih (some a) hs' (by intro l hl; cases hl; exact har) (by simpa using h)
    | some l =>
      have hla : l.start ≤ a.start := hcur l rfl a (by simp)
      simp only [coalesce]
      split
      · rename_i hc
        obtain ⟨hau, hts, _, _, _⟩ := hc
        apply ih (some { l with stop := max l.stop a.stop }) hs'
          (by intro l' hl'; cases hl'; intro y hy; have := har y hy; simp only; omega)
        obtain ⟨z, hz, hw, hz1, hz2⟩ := h
        simp only [Option.toList_some, List.singleton_append, List.mem_cons] at hz
        rcases hz with rfl | rfl | hz
        · exact ⟨{ z with stop := max z.stop a.stop }, by simp, by simpa [Attr.who] using hw,
            by simp only; exact hz1, by simp only; omega⟩
        · refine ⟨{ l with stop := max l.stop z.stop }, by simp, ?_, by simp only; omega, by simp only; omega⟩
          simp only [Attr.who] at hw ⊢
          rw [hau, hts]; exact hw
        · exact ⟨z, by simp [hz], hw, hz1, hz2⟩
      · obtain ⟨z, hz, hw, hz1, hz2⟩ := h
        simp only [Option.toList_some, List.singleton_append, List.mem_cons] at hz
        rcases hz with rfl | hz
        · exact ⟨z, by simp, hw, hz1, hz2⟩
        · obtain ⟨y, hy, r'⟩ := ih (some a) hs' (by intro l' hl'; cases hl'; exact har)
            ⟨z, by simpa using hz, hw, hz1, hz2⟩
          exact ⟨y, List.mem_cons_of_mem _ hy, r'⟩

/-- every input range lies inside an output range of the same (author, ts) -/
theorem merge_super (l : List Attr) (x : Attr) (hx : x ∈ l) :
    ∃ y ∈ merge l, y.who = x.who ∧ y.start ≤ x.start ∧ x.stop ≤ y.stop := by
  simp only [merge]
  split
  · exact ⟨x, hx, rfl, Nat.le_refl _, Nat.le_refl _⟩
  · apply coalesce_super x.who x.start x.stop _ none
      (dedupAdj_sortedStart _ (sortBy_sortedStart l)) (by intro l hl; cases hl)
    exact ⟨x, by simpa using mem_dedupAdj_of_mem _ x ((mem_sortBy _ _ _).2 hx), rfl, Nat.le_refl _, Nat.le_refl _⟩

/-- `merge` creates no empty range strictly inside `(u, v)` -/
theorem merge_no_inner_empty (u v : Nat) (l : List Attr)
    (h : ∀ x ∈ l, ¬ (u < x.start ∧ x.start < v ∧ x.stop ≤ x.start)) :
    ∀ y ∈ merge l, ¬ (u < y.start ∧ y.start < v ∧ y.stop ≤ y.start) := by
  intro y hy
  simp only [merge] at hy
  split at hy
  · exact h y hy
  · refine coalesce_forall (fun x => ¬ (u < x.start ∧ x.start < v ∧ x.stop ≤ x.start)) ?_ _ none (by simp) ?_ y hy
    · intro l a hl _
      simp only
      intro hbad
      apply hl
      omega
    · intro x hx
      exact h x ((mem_sortBy _ _ _).1 (mem_dedupAdj _ x hx))

end GitAi.Tracker
