/-
  Lemmas/NoteFormat.lean — helper lemmas for the note-format round trip (C17).
-/
import GitAiModel.Model.NoteFormat
import GitAiModel.Lemmas.Text
import GitAiModel.Lemmas.Digits
namespace GitAi.NoteFormat
open GitAi

/-! ### decidable well-formedness predicates (the hypotheses of the round trip) -/

def rangeOk : LineRange → Bool
  | .single n => decide (n < 4294967296)
  | .range s e => decide (s < 4294967296) && decide (e < 4294967296)

/-- a path the serializer/parser pair round-trips: anything without a newline -/
def pathOk (p : Str) : Bool := !p.contains '\n'

def entryOk (e : Entry) : Bool :=
  !e.hash.contains ' ' && !e.hash.contains '\n' && e.ranges.all rangeOk

def fileOk (f : FileAtt) : Bool := pathOk f.path && f.entries.all entryOk

def Serializable (fs : List FileAtt) : Bool := fs.all fileOk

/-- facts about serde's pretty printer output -/
def jsonOk (J : Str) : Bool := !J.contains '\r' && J.getLast? != some '\n'

def normEntry (e : Entry) : Entry := { e with ranges := sortByStart e.ranges }

def liveEntries (f : FileAtt) : List Entry := f.entries.filter (fun e => !e.ranges.isEmpty)

/-- what a round trip returns: ranges stably sorted by start; entries without ranges and
    files left without entries dropped -/
def normalise (fs : List FileAtt) : List FileAtt :=
  (fs.filter (fun f => !(liveEntries f).isEmpty)).map
    (fun f => { f with entries := (liveEntries f).map normEntry })

/-! ### ranges -/

theorem fmtRange_ne_nil (r : LineRange) : fmtRange r ≠ [] := by
  cases r with
  | single n => exact natToStr_ne_nil n
  | range s e => simp [fmtRange]

theorem fmtRange_no_comma (r : LineRange) : ',' ∉ fmtRange r := by
  cases r with
  | single n => exact natToStr_no_comma n
  | range s e =>
    simp only [fmtRange, List.mem_append, List.mem_cons, not_or]
    exact ⟨natToStr_no_comma s, by decide, natToStr_no_comma e⟩

theorem fmtRange_no_space (r : LineRange) : ' ' ∉ fmtRange r := by
  cases r with
  | single n => exact natToStr_no_space n
  | range s e =>
    simp only [fmtRange, List.mem_append, List.mem_cons, not_or]
    exact ⟨natToStr_no_space s, by decide, natToStr_no_space e⟩

theorem fmtRange_no_nl (r : LineRange) : '\n' ∉ fmtRange r := by
  cases r with
  | single n => exact natToStr_no_nl n
  | range s e =>
    simp only [fmtRange, List.mem_append, List.mem_cons, not_or]
    exact ⟨natToStr_no_nl s, by decide, natToStr_no_nl e⟩

theorem fmtRange_getLast (r : LineRange) : ∃ d, d < 10 ∧ (fmtRange r).getLast? = some (digitChar d) := by
  cases r with
  | single n => exact natToStr_getLast n
  | range s e =>
    obtain ⟨d, hd, hl⟩ := natToStr_getLast e
    refine ⟨d, hd, ?_⟩
    simp only [fmtRange]
    exact getLast?_append_of_some _ _ _ (getLast?_cons_of_some _ _ _ hl)

theorem parsePart_fmtRange (r : LineRange) (h : rangeOk r = true) : parsePart (fmtRange r) = .ok r := by
  cases r with
  | single n =>
    simp only [rangeOk, decide_eq_true_eq] at h
    simp [parsePart, fmtRange, splitFirst_none _ _ (natToStr_no_dash n), parseU32_natToStr n h]
  | range s e =>
    simp only [rangeOk, Bool.and_eq_true, decide_eq_true_eq] at h
    simp [parsePart, fmtRange, splitFirst_append _ _ _ (natToStr_no_dash s),
      parseU32_natToStr s h.1, parseU32_natToStr e h.2]

theorem parseParts_map_fmtRange (l : List LineRange) (h : ∀ r ∈ l, rangeOk r = true) :
    parseParts (l.map fmtRange) = .ok l := by
  induction l with
  | nil => rfl
  | cons r rs ih =>
    have hne : (fmtRange r).isEmpty = false := by
      cases hh : fmtRange r with
      | nil => exact absurd hh (fmtRange_ne_nil r)
      | cons _ _ => rfl
    simp [parseParts, hne, parsePart_fmtRange r (h r (by simp)),
      ih (fun x hx => h x (by simp [hx]))]

theorem mem_insertFront (r x : LineRange) (l : List LineRange) :
    x ∈ sortByStart.insertFront r l ↔ x = r ∨ x ∈ l := by
  induction l with
  | nil => simp [sortByStart.insertFront]
  | cons y ys ih =>
    unfold sortByStart.insertFront
    split
    · simp
    · simp [ih]; constructor
      · rintro (h | h | h) <;> simp [h]
      · rintro (h | h | h) <;> simp [h]

theorem mem_sortByStart (x : LineRange) (l : List LineRange) : x ∈ sortByStart l ↔ x ∈ l := by
  induction l with
  | nil => simp [sortByStart]
  | cons y ys ih => simp [sortByStart, mem_insertFront, ih]

theorem sortByStart_ne_nil (l : List LineRange) (h : l ≠ []) : sortByStart l ≠ [] := by
  cases l with
  | nil => exact absurd rfl h
  | cons y ys =>
    intro he
    have : y ∈ sortByStart (y :: ys) := (mem_sortByStart y _).2 (by simp)
    rw [he] at this
    simp at this

theorem parseRanges_formatRanges (rs : List LineRange) (h : ∀ r ∈ rs, rangeOk r = true) :
    parseRanges (formatRanges rs) = .ok (sortByStart rs) := by
  unfold parseRanges formatRanges
  by_cases hnil : sortByStart rs = []
  · simp [hnil, joinWith, splitOn, parseParts]
  · rw [splitOn_joinWith ',' _ (by simpa using hnil)
      (by intro p hp; simp at hp; obtain ⟨r, _, rfl⟩ := hp; exact fmtRange_no_comma r)]
    exact parseParts_map_fmtRange _ (fun r hr => h r ((mem_sortByStart r rs).1 hr))

/-- characters of `joinWith` come from the pieces or are the separator -/
theorem mem_joinWith (sep c : Char) (ps : List Str) (h : c ∈ joinWith sep ps) :
    c = sep ∨ ∃ p ∈ ps, c ∈ p := by
  induction ps with
  | nil => simp [joinWith] at h
  | cons p rest ih =>
    cases rest with
    | nil => simp [joinWith] at h; exact Or.inr ⟨p, by simp, h⟩
    | cons q qs =>
      simp only [joinWith, List.mem_append, List.mem_cons] at h
      rcases h with h | h | h
      · exact Or.inr ⟨p, by simp, h⟩
      · exact Or.inl h
      · rcases ih h with h | ⟨x, hx, hc⟩
        · exact Or.inl h
        · exact Or.inr ⟨x, by simp [hx], hc⟩

theorem formatRanges_no_space (rs : List LineRange) : ' ' ∉ formatRanges rs := by
  intro h
  rcases mem_joinWith _ _ _ h with h | ⟨p, hp, hc⟩
  · exact absurd h (by decide)
  · simp at hp; obtain ⟨r, _, rfl⟩ := hp; exact fmtRange_no_space r hc

theorem formatRanges_no_nl (rs : List LineRange) : '\n' ∉ formatRanges rs := by
  intro h
  rcases mem_joinWith _ _ _ h with h | ⟨p, hp, hc⟩
  · exact absurd h (by decide)
  · simp at hp; obtain ⟨r, _, rfl⟩ := hp; exact fmtRange_no_nl r hc

theorem getLast?_joinWith (sep : Char) (ps : List Str) (p : Str) (c : Char)
    (hp : ps.getLast? = some p) (hc : p.getLast? = some c) :
    (joinWith sep ps).getLast? = some c := by
  induction ps with
  | nil => simp at hp
  | cons q rest ih =>
    cases rest with
    | nil => simp at hp; subst hp; simpa [joinWith] using hc
    | cons r rs =>
      simp only [joinWith]
      apply getLast?_append_of_some
      apply getLast?_cons_of_some
      exact ih (by simpa [List.getLast?_cons_cons] using hp)

theorem formatRanges_getLast (rs : List LineRange) (h : rs ≠ []) :
    ∃ d, d < 10 ∧ (formatRanges rs).getLast? = some (digitChar d) := by
  unfold formatRanges
  have hne := sortByStart_ne_nil rs h
  obtain ⟨r, hr⟩ : ∃ r, (sortByStart rs).getLast? = some r := by
    cases hh : (sortByStart rs).getLast? with
    | none => simp at hh; exact absurd hh hne
    | some r => exact ⟨r, rfl⟩
  obtain ⟨d, hd, hl⟩ := fmtRange_getLast r
  refine ⟨d, hd, getLast?_joinWith _ _ (fmtRange r) _ ?_ hl⟩
  simp [List.getLast?_map, hr]

end GitAi.NoteFormat

namespace GitAi.NoteFormat
open GitAi

/-! ### lines of the attestation section -/

theorem not_contains_iff (c : Char) (s : Str) : (s.contains c = false) ↔ c ∉ s := by
  simp [List.contains_iff_mem]

theorem entryLine_getLast (e : Entry) (h : e.ranges ≠ []) :
    ∃ d, d < 10 ∧ (entryLine e).getLast? = some (digitChar d) := by
  obtain ⟨d, hd, hl⟩ := formatRanges_getLast e.ranges h
  refine ⟨d, hd, ?_⟩
  unfold entryLine
  apply getLast?_cons_of_some
  apply getLast?_cons_of_some
  apply getLast?_append_of_some
  exact getLast?_cons_of_some _ _ _ hl

theorem entryOk_unfold (e : Entry) (h : entryOk e = true) :
    ' ' ∉ e.hash ∧ '\n' ∉ e.hash ∧ ∀ r ∈ e.ranges, rangeOk r = true := by
  simp only [entryOk, Bool.and_eq_true, Bool.not_eq_true', List.all_eq_true] at h
  obtain ⟨⟨h1, h2⟩, h4⟩ := h
  exact ⟨(not_contains_iff _ _).1 h1, (not_contains_iff _ _).1 h2, h4⟩

theorem digit_not_ws (d : Nat) (hd : d < 10) : isWhitespace (digitChar d) = false :=
  (digitChar_props ⟨d, hd⟩).2.2.2.2.2.2.2.2

theorem digit_ne_cr (d : Nat) (hd : d < 10) : digitChar d ≠ '\r' :=
  (digitChar_props ⟨d, hd⟩).2.2.2.2.2.2.2.1

theorem parseAtt_entry (e : Entry) (he : entryOk e = true) (hne : e.ranges ≠ []) (rest : List Str)
    (acc : List FileAtt) (f : FileAtt) :
    parseAtt (entryLine e :: rest) acc (some f) =
      parseAtt rest acc (some { f with entries := f.entries ++ [normEntry e] }) := by
  obtain ⟨hsp, _, hr⟩ := entryOk_unfold e he
  obtain ⟨d, hd, hl⟩ := entryLine_getLast e hne
  have htrim : trimEnd (entryLine e) = entryLine e := trimEnd_eq_self _ _ hl (digit_not_ws d hd)
  rw [parseAtt]
  simp only [htrim]
  have hstrip : stripPrefix2 (entryLine e) = some (e.hash ++ ' ' :: formatRanges e.ranges) := by
    simp [entryLine, stripPrefix2]
  have hemp : (entryLine e).isEmpty = false := by simp [entryLine]
  simp only [hemp, hstrip, splitFirst_append _ _ _ hsp, parseRanges_formatRanges _ hr]
  simp [normEntry]

theorem parseAtt_entries (es : List Entry) (hes : ∀ e ∈ es, entryOk e = true ∧ e.ranges ≠ [])
    (rest : List Str)
    (acc : List FileAtt) (f : FileAtt) :
    parseAtt (es.map entryLine ++ rest) acc (some f) =
      parseAtt rest acc (some { f with entries := f.entries ++ es.map normEntry }) := by
  induction es generalizing f with
  | nil => simp
  | cons e es ih =>
    simp only [List.map_cons, List.cons_append]
    rw [parseAtt_entry e (hes e (by simp)).1 (hes e (by simp)).2]
    rw [ih (fun x hx => hes x (by simp [hx]))]
    simp [List.append_assoc]

theorem pathOk_unfold (p : Str) (h : pathOk p = true) : '\n' ∉ p := by
  simp only [pathOk, Bool.not_eq_true'] at h
  exact (not_contains_iff _ _).1 h

/-- what `needsQuoting p = false` gives -/
theorem unquoted_facts (p : Str) (hq : needsQuoting p = false) :
    (∀ c ∈ p, isWhitespace c = false) ∧ p.head? ≠ some '"' ∧ p ≠ divider ∧ p ≠ [] := by
  simp only [needsQuoting, Bool.or_eq_false_iff, List.any_eq_false, decide_eq_false_iff_not,
    beq_eq_false_iff_ne, ne_eq, List.isEmpty_eq_false_iff] at hq
  obtain ⟨⟨⟨h1, h2⟩, h3⟩, h4⟩ := hq
  exact ⟨fun c hc => by simpa using h1 c hc, h2, h3, h4⟩

theorem unquoted_last (p : Str) (hq : needsQuoting p = false) :
    ∃ c, p.getLast? = some c ∧ isWhitespace c = false := by
  obtain ⟨hws, _, _, hne⟩ := unquoted_facts p hq
  cases hl : p.getLast? with
  | none => simp at hl; exact absurd hl hne
  | some c => exact ⟨c, rfl, hws c (getLast?_mem _ _ hl)⟩

theorem parseAtt_path (p : Str) (rest : List Str)
    (acc : List FileAtt) (cur : Option FileAtt) :
    parseAtt (pathLine p :: rest) acc cur = parseAtt rest (flush acc cur) (some ⟨p, []⟩) := by
  cases hq : needsQuoting p with
  | true =>
    have hline : pathLine p = '"' :: (p ++ ['"']) := by simp [pathLine, hq]
    have hlast : (pathLine p).getLast? = some '"' := by
      rw [hline]; apply getLast?_cons_of_some; simp
    have htrim : trimEnd (pathLine p) = pathLine p := trimEnd_eq_self _ _ hlast (by decide)
    rw [parseAtt]
    simp only [htrim]
    have hemp : (pathLine p).isEmpty = false := by simp [hline]
    have hstrip : stripPrefix2 (pathLine p) = none := by simp [hline, stripPrefix2]
    have hpl : parsePathLine (pathLine p) = .ok p := by
      unfold parsePathLine
      rw [hlast]
      simp [hline]
    simp only [hemp, hstrip, hpl]
    rfl
  | false =>
    obtain ⟨hws, hhead, _, hne⟩ := unquoted_facts p hq
    obtain ⟨c, hc, hcw⟩ := unquoted_last p hq
    have hline : pathLine p = p := by simp [pathLine, hq]
    have htrim : trimEnd p = p := trimEnd_eq_self _ _ hc hcw
    have hnosp : ' ' ∉ p := fun hm => absurd (hws ' ' hm) (by decide)
    rw [parseAtt, hline]
    simp only [htrim]
    have hemp : p.isEmpty = false := by
      cases p with
      | nil => exact absurd rfl hne
      | cons _ _ => rfl
    have hstrip : stripPrefix2 p = none := by
      unfold stripPrefix2
      split
      · exact absurd (by simp) hnosp
      · rfl
    have hpl : parsePathLine p = .ok p := by
      unfold parsePathLine
      simp [hhead]
    simp only [hemp, hstrip, hpl]
    rfl

theorem flush_some (acc : List FileAtt) (f : FileAtt) :
    flush acc (some f) = acc ++ (if f.entries.isEmpty then [] else [f]) := by
  simp only [flush]; split <;> simp

theorem parseAtt_attLines (fs : List FileAtt) (h : Serializable fs = true)
    (acc : List FileAtt) (cur : Option FileAtt) :
    parseAtt (attLines fs) acc cur = .ok (flush acc cur ++ normalise fs) := by
  induction fs generalizing acc cur with
  | nil => simp [attLines, parseAtt, normalise]
  | cons f fs ih =>
    simp only [Serializable, List.all_cons, Bool.and_eq_true] at h
    obtain ⟨hf, hfs⟩ := h
    simp only [fileOk, Bool.and_eq_true, List.all_eq_true] at hf
    simp only [attLines]
    have hlive : ∀ e ∈ f.entries.filter (fun e => !e.ranges.isEmpty), entryOk e = true ∧ e.ranges ≠ [] := by
      intro e he
      simp only [List.mem_filter, Bool.not_eq_true', List.isEmpty_eq_false_iff] at he
      exact ⟨hf.2 e he.1, he.2⟩
    rw [parseAtt_path f.path, parseAtt_entries _ hlive, ih hfs]
    simp only [List.nil_append, flush_some, normalise, List.filter_cons, liveEntries]
    cases hE : f.entries.filter (fun e => !e.ranges.isEmpty) with
    | nil => simp
    | cons e es => simp [hE, List.append_assoc]

/-! ### line structure of the serialized text -/

theorem rustLines_unlinesNl (ls : List Str) (rest : Str)
    (h : ∀ l ∈ ls, '\n' ∉ l ∧ l.getLast? ≠ some '\r') :
    rustLines (unlinesNl ls ++ rest) = ls ++ rustLines rest := by
  induction ls with
  | nil => simp [unlinesNl]
  | cons l ls ih =>
    obtain ⟨h1, h2⟩ := h l (by simp)
    simp only [unlinesNl, List.append_assoc, List.cons_append]
    rw [rustLines_cons _ _ h1, stripCr_eq_self _ h2, ih (fun x hx => h x (by simp [hx]))]

theorem splitAtDivider_append (ls rest : List Str) (h : ∀ l ∈ ls, l ≠ divider) :
    splitAtDivider (ls ++ divider :: rest) = some (ls, rest) := by
  induction ls with
  | nil => simp [splitAtDivider]
  | cons l ls ih =>
    simp [splitAtDivider, h l (by simp), ih (fun x hx => h x (by simp [hx]))]

theorem pathLine_facts (p : Str) (hp : pathOk p = true) :
    '\n' ∉ pathLine p ∧ (pathLine p).getLast? ≠ some '\r' ∧ pathLine p ≠ divider := by
  have hnl := pathOk_unfold p hp
  cases hq : needsQuoting p with
  | true =>
    have hline : pathLine p = '"' :: (p ++ ['"']) := by simp [pathLine, hq]
    have hlast : (pathLine p).getLast? = some '"' := by
      rw [hline]; apply getLast?_cons_of_some; simp
    refine ⟨?_, ?_, ?_⟩
    · rw [hline]; simp [hnl]
    · rw [hlast]; decide
    · rw [hline]; simp [divider]
  | false =>
    obtain ⟨_, _, hdiv, _⟩ := unquoted_facts p hq
    obtain ⟨c, hc, hcw⟩ := unquoted_last p hq
    have hline : pathLine p = p := by simp [pathLine, hq]
    rw [hline]
    refine ⟨hnl, ?_, hdiv⟩
    rw [hc]
    intro he
    cases he
    exact absurd hcw (by decide)

theorem entryLine_facts (e : Entry) (he : entryOk e = true) (hne : e.ranges ≠ []) :
    '\n' ∉ entryLine e ∧ (entryLine e).getLast? ≠ some '\r' ∧ entryLine e ≠ divider := by
  obtain ⟨_, hnl, _⟩ := entryOk_unfold e he
  obtain ⟨d, hd, hl⟩ := entryLine_getLast e hne
  refine ⟨?_, ?_, ?_⟩
  · simp [entryLine, hnl, formatRanges_no_nl]
  · rw [hl]; intro h; exact digit_ne_cr d hd (Option.some.inj h)
  · simp [entryLine, divider]

theorem attLines_facts (fs : List FileAtt) (h : Serializable fs = true) :
    ∀ l ∈ attLines fs, ('\n' ∉ l ∧ l.getLast? ≠ some '\r') ∧ l ≠ divider := by
  induction fs with
  | nil => simp [attLines]
  | cons f fs ih =>
    simp only [Serializable, List.all_cons, Bool.and_eq_true] at h
    obtain ⟨hf, hfs⟩ := h
    simp only [fileOk, Bool.and_eq_true, List.all_eq_true] at hf
    intro l hl
    simp only [attLines, List.mem_cons, List.mem_append, List.mem_map] at hl
    rcases hl with rfl | ⟨e, he, rfl⟩ | hl
    · have := pathLine_facts f.path hf.1; exact ⟨⟨this.1, this.2.1⟩, this.2.2⟩
    · simp only [List.mem_filter, Bool.not_eq_true', List.isEmpty_eq_false_iff] at he
      have := entryLine_facts e (hf.2 e he.1) he.2; exact ⟨⟨this.1, this.2.1⟩, this.2.2⟩
    · exact ih hfs l hl

end GitAi.NoteFormat
