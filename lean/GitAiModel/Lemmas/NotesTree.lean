/-
  Lemmas/NotesTree.lean — helper lemmas for C05 (notes tree fan-out, batch writer/lookup,
  range builders).
-/
import GitAiModel.Model.NotesTree
import GitAiModel.Lemmas.NoteFormat
namespace GitAi.NotesTree
open GitAi GitAi.NoteFormat

/-! ### fan-out paths -/

theorem objOf_append (a b : Str) : objOf (a ++ b) = objOf a ++ objOf b := by
  simp [objOf]

theorem objOf_of_noslash (o : Str) (h : '/' ∉ o) : objOf o = o := by
  unfold objOf
  rw [List.filter_eq_self]
  intro c hc
  simp only [bne_iff_ne, ne_eq]
  intro e; subst e; exact h hc

theorem objOf_cons_slash (p : Str) : objOf ('/' :: p) = objOf p := by
  simp [objOf]

theorem objOf_cons_ne (c : Char) (p : Str) (h : c ≠ '/') : objOf (c :: p) = c :: objOf p := by
  simp [objOf, h]

theorem isHex_ne_slash (c : Char) (h : isHex c = true) : c ≠ '/' := by
  intro e; subst e; revert h; decide

theorem noslash_of_hex (o : Str) (h : ∀ c ∈ o, isHex c = true) : '/' ∉ o := by
  intro hm; exact isHex_ne_slash _ (h _ hm) rfl

theorem objOf_fanPath (d : Nat) (o : Str) (h : '/' ∉ o) : objOf (fanPath d o) = o := by
  induction d generalizing o with
  | zero => unfold fanPath; exact objOf_of_noslash o h
  | succ d ih =>
    match o with
    | [] => simp [fanPath, objOf]
    | [a] => simp only [fanPath]; exact objOf_of_noslash _ h
    | a :: b :: tl =>
      simp only [fanPath]
      split
      · exact objOf_of_noslash _ h
      · have ha : a ≠ '/' := fun e => h (by simp [e])
        have hb : b ≠ '/' := fun e => h (by simp [e])
        have htl : '/' ∉ tl := fun e => h (by simp [e])
        rw [objOf_cons_ne a _ ha, objOf_cons_ne b _ hb, objOf_cons_slash, ih tl htl]

theorem fanPath_mem_variants (d : Nat) (o : Str) : fanPath d o ∈ variants o := by
  induction d generalizing o with
  | zero =>
    unfold fanPath
    match o with
    | [] => simp [variants]
    | [a] => simp [variants]
    | a :: b :: tl => unfold variants; split <;> simp
  | succ d ih =>
    match o with
    | [] => simp [fanPath, variants]
    | [a] => simp [fanPath, variants]
    | a :: b :: tl =>
      simp only [fanPath, variants]
      split
      · simp
      · simp only [List.mem_cons, List.mem_map]
        right
        exact ⟨fanPath d tl, ih tl, rfl⟩

theorem mem_variants (o : Str) (p : Path) (h : p ∈ variants o) : ∃ d, p = fanPath d o := by
  induction o using variants.induct generalizing p with
  | case1 a b tl hemp =>
    rw [variants, if_pos hemp] at h
    simp only [List.mem_singleton] at h
    exact ⟨0, by simp [h, fanPath]⟩
  | case2 a b tl hne ih =>
    rw [variants, if_neg hne] at h
    simp only [List.mem_cons, List.mem_map] at h
    rcases h with rfl | ⟨q, hq, rfl⟩
    · exact ⟨0, by simp [fanPath]⟩
    · obtain ⟨d, rfl⟩ := ih q hq
      exact ⟨d + 1, by simp [fanPath, hne]⟩
  | case3 o hno =>
    have : variants o = [o] := by
      match o with
      | [] => simp [variants]
      | [a] => simp [variants]
      | a :: b :: tl => exact absurd rfl (hno a b tl)
    rw [this] at h
    simp only [List.mem_singleton] at h
    exact ⟨0, by simp [h, fanPath]⟩

theorem fanPath_ne_nil (d : Nat) (o : Str) (h : o ≠ []) : fanPath d o ≠ [] := by
  match d, o with
  | 0, o => simpa [fanPath] using h
  | d + 1, [] => exact absurd rfl h
  | d + 1, [a] => simp [fanPath]
  | d + 1, a :: b :: tl => simp only [fanPath]; split <;> simp

theorem fanPath_getLast (d : Nat) (o : Str) : (fanPath d o).getLast? = o.getLast? := by
  induction d generalizing o with
  | zero => simp [fanPath]
  | succ d ih =>
    match o with
    | [] => simp [fanPath]
    | [a] => simp [fanPath]
    | a :: b :: tl =>
      simp only [fanPath]
      split
      · rfl
      · rename_i hne
        have htl : tl ≠ [] := by simpa using hne
        have h1 : fanPath d tl ≠ [] := fanPath_ne_nil d tl htl
        obtain ⟨x, xs, hx⟩ := List.exists_cons_of_ne_nil h1
        obtain ⟨y, ys, hy⟩ := List.exists_cons_of_ne_nil htl
        have := ih tl
        rw [hx] at this ⊢
        rw [hy] at this ⊢
        simp only [List.getLast?_cons_cons] at this ⊢
        exact this


/-! ### well-formed trees -/

/-- `o` is an object name of the repository's hash length `n` (lower-case hex) -/
def IsOid (n : Nat) (o : Str) : Prop := o.length = n ∧ ∀ c ∈ o, isHex c = true

/-- every entry is a note path (any fan-out depth) of an object name of length `n`, and no
    object has two entries — "each annotated object has exactly one note" -/
structure WFTree (n : Nat) (t : Tree) : Prop where
  shape : ∀ e ∈ t, ∃ d o, e.1 = fanPath d o ∧ IsOid n o
  one : (t.map (fun e => objOf e.1)).Nodup

theorem IsOid.noslash {n o} (h : IsOid n o) : '/' ∉ o := noslash_of_hex o h.2

theorem objOf_shape {n : Nat} {p : Path} (h : ∃ d o, p = fanPath d o ∧ IsOid n o) :
    IsOid n (objOf p) ∧ ∃ d, p = fanPath d (objOf p) := by
  obtain ⟨d, o, rfl, ho⟩ := h
  rw [objOf_fanPath d o ho.noslash]
  exact ⟨ho, d, rfl⟩

theorem isNotePath_fanPath {n : Nat} (d : Nat) (o : Str) (ho : IsOid n o) :
    isNotePath (fanPath d o) = true := by
  unfold isNotePath
  rw [objOf_fanPath d o ho.noslash]
  simp only [Bool.and_eq_true, List.all_eq_true, List.contains_iff_mem]
  exact ⟨ho.2, fanPath_mem_variants d o⟩

theorem all_slash_of_objOf_nil (r : Str) (h : objOf r = []) : ∀ c ∈ r, c = '/' := by
  intro c hc
  unfold objOf at h
  rw [List.filter_eq_nil_iff] at h
  have := h c hc
  simpa using this

/-- a note path of an object of length `n` is never a directory above another such path -/
theorem not_isDirPrefix {n : Nat} (hn : 1 ≤ n) (p k : Path)
    (hp : ∃ d o, p = fanPath d o ∧ IsOid n o) (hk : ∃ d o, k = fanPath d o ∧ IsOid n o) :
    isDirPrefix p k = false := by
  cases hpre : isDirPrefix p k with
  | false => rfl
  | true =>
    exfalso
    unfold isDirPrefix at hpre
    rw [List.isPrefixOf_iff_prefix] at hpre
    obtain ⟨r, hr⟩ := hpre
    obtain ⟨d, o, rfl, ho⟩ := hp
    obtain ⟨d', o', rfl, ho'⟩ := hk
    have hobj := congrArg objOf hr
    rw [objOf_append, objOf_append, objOf_fanPath d o ho.noslash, objOf_fanPath d' o' ho'.noslash] at hobj
    have hlen := congrArg List.length hobj
    simp only [List.length_append, ho.1, ho'.1] at hlen
    have hr0 : objOf r = [] := by
      have : (objOf ['/']).length = 0 := by decide
      apply List.eq_nil_of_length_eq_zero; omega
    have hslash := all_slash_of_objOf_nil r hr0
    -- last char of the right-hand side is hex, of the left-hand side '/'
    have hl := congrArg List.getLast? hr
    rw [fanPath_getLast] at hl
    have ho'ne : o' ≠ [] := by
      intro e; have := ho'.1; rw [e] at this; simp at this; omega
    obtain ⟨c, hc⟩ : ∃ c, o'.getLast? = some c := by
      cases hh : o'.getLast? with
      | none => exact absurd (List.getLast?_eq_none_iff.1 hh) ho'ne
      | some c => exact ⟨c, rfl⟩
    rw [hc] at hl
    have hcmem : c ∈ o' := getLast?_mem _ _ hc
    have hcne : c ≠ '/' := isHex_ne_slash c (ho'.2 c hcmem)
    have hmem : c ∈ ['/'] ++ r := by
      have h2 : ((fanPath d o ++ ['/']) ++ r).getLast? = (['/'] ++ r).getLast? := by
        rw [List.append_assoc]
        cases hh : (['/'] ++ r).getLast? with
        | none => simp at hh
        | some x => exact getLast?_append_of_some _ _ _ hh
      rw [h2] at hl
      exact getLast?_mem _ _ hl
    simp only [List.singleton_append, List.mem_cons] at hmem
    rcases hmem with h | h
    · exact hcne h
    · exact hcne (hslash c h)

theorem fiDelete_shape {n : Nat} (hn : 1 ≤ n) (p : Path) (t : Tree)
    (hp : ∃ d o, p = fanPath d o ∧ IsOid n o)
    (ht : ∀ e ∈ t, ∃ d o, e.1 = fanPath d o ∧ IsOid n o) :
    fiDelete p t = t.filter (fun e => e.1 != p) := by
  unfold fiDelete
  apply List.filter_congr
  intro e he
  rw [not_isDirPrefix hn p e.1 hp (ht e he)]
  simp [bne]


/-! ### git-ai's path helpers on hex object names -/

theorem utf8Size_hex (c : Char) (h : isHex c = true) : utf8Size c = 1 := by
  have : c.toNat < 0x80 := by
    unfold isHex at h
    simp only [Bool.or_eq_true, Bool.and_eq_true, decide_eq_true_eq] at h
    have h9 : ('9' : Char).toNat = 57 := by decide
    have hf : ('f' : Char).toNat = 102 := by decide
    rcases h with ⟨_, h⟩ | ⟨_, h⟩
    · have := (Char.le_def).1 h; simp only [UInt32.le_iff_toNat_le] at this
      have e : c.toNat = c.val.toNat := rfl
      have e9 : ('9' : Char).val.toNat = 57 := by decide
      omega
    · have := (Char.le_def).1 h; simp only [UInt32.le_iff_toNat_le] at this
      have e : c.toNat = c.val.toNat := rfl
      have ef : ('f' : Char).val.toNat = 102 := by decide
      omega
  simp [utf8Size, this]

theorem utf8Len_hex (o : Str) (h : ∀ c ∈ o, isHex c = true) : utf8Len o = o.length := by
  induction o with
  | nil => rfl
  | cons c cs ih =>
    simp only [utf8Len, List.length_cons]
    rw [utf8Size_hex c (h c (by simp)), ih (fun x hx => h x (by simp [hx]))]
    omega

theorem isAscii_hex (o : Str) (h : ∀ c ∈ o, isHex c = true) : isAscii o = true := by
  unfold isAscii
  rw [List.all_eq_true]
  intro c hc
  have h1 := utf8Size_hex c (h c hc)
  unfold utf8Size at h1
  simp only at h1
  by_cases hlt : c.toNat < 128
  · simpa using hlt
  · exfalso
    have : ¬ c.toNat < 0x80 := hlt
    simp only [this, if_false] at h1
    split at h1 <;> try split at h1
    all_goals omega

theorem notesPathForObject_hex (o : Str) (h : ∀ c ∈ o, isHex c = true) :
    notesPathForObject o = .ok (fanPath 1 o) := by
  unfold notesPathForObject
  rw [utf8Len_hex o h]
  match o, h with
  | [], _ => simp [fanPath]
  | [a], _ => simp [fanPath]
  | [a, b], _ => simp [fanPath]
  | a :: b :: c :: tl, h =>
    have ha := utf8Size_hex a (h a (by simp))
    have hb := utf8Size_hex b (h b (by simp))
    simp [sliceAt2, ha, hb, fanPath]

theorem slicePath_cons2 (a b : Char) (tl : Str) (d : Nat) :
    slicePath (a :: b :: tl) (d + 1) = a :: b :: '/' :: slicePath tl d := by
  simp [slicePath]

theorem deeperLoop_shift (a b : Char) (tl : Str) (F d : Nat) :
    deeperLoop (a :: b :: tl) F (d + 1) = (deeperLoop tl F d).map (fun p => a :: b :: '/' :: p) := by
  induction F generalizing d with
  | zero => simp [deeperLoop]
  | succ F ih =>
    simp only [deeperLoop, List.length_cons]
    by_cases hc : d * 2 < tl.length
    · have hc' : (d + 1) * 2 < tl.length + 1 + 1 := by omega
      rw [if_pos hc, if_pos hc', slicePath_cons2, ih (d + 1)]
      simp
    · have hc' : ¬ (d + 1) * 2 < tl.length + 1 + 1 := by omega
      rw [if_neg hc, if_neg hc']
      simp

theorem deeperLoop_zero_eq_variants (o : Str) (hne : o ≠ []) (F : Nat) (hF : o.length ≤ F) :
    deeperLoop o F 0 = variants o := by
  induction o using variants.induct generalizing F with
  | case1 a b tl hemp =>
    have htl : tl = [] := by simpa using hemp
    subst htl
    obtain ⟨F', rfl⟩ : ∃ F', F = F' + 1 := ⟨F - 1, by simp at hF; omega⟩
    rw [variants, if_pos hemp]
    simp only [deeperLoop, List.length_cons, List.length_nil, slicePath]
    cases F' with
    | zero => simp [deeperLoop]
    | succ F'' => simp [deeperLoop]
  | case2 a b tl hne' ih =>
    have htl : tl ≠ [] := by simpa using hne'
    obtain ⟨F', rfl⟩ : ∃ F', F = F' + 1 := ⟨F - 1, by simp at hF; omega⟩
    rw [variants, if_neg hne']
    have h0 : 0 * 2 < (a :: b :: tl).length := by simp
    rw [deeperLoop, if_pos h0, deeperLoop_shift, ih htl F' (by simp at hF; omega)]
    simp [slicePath]
  | case3 o hno =>
    match o, hne, hno with
    | [a], _, _ =>
      obtain ⟨F', rfl⟩ : ∃ F', F = F' + 1 := ⟨F - 1, by simp at hF; omega⟩
      cases F' <;> simp [deeperLoop, variants, slicePath]
    | a :: b :: tl, _, hno => exact absurd rfl (hno a b tl)

theorem deeperLoop_unfold_two (o : Str) (F : Nat) (h3 : 3 ≤ o.length) :
    deeperLoop o (F + 2) 0 = o :: slicePath o 1 :: deeperLoop o F 2 := by
  have h0 : 0 * 2 < o.length := by omega
  have h1 : (0 + 1) * 2 < o.length := by omega
  rw [deeperLoop, if_pos h0, deeperLoop, if_pos h1]
  simp [slicePath]

theorem slicePath_one_eq (o : Str) (h3 : 3 ≤ o.length) : slicePath o 1 = fanPath 1 o := by
  match o, h3 with
  | a :: b :: c :: tl, _ => simp [slicePath, fanPath]

theorem fanPath_one_short (o : Str) (h : o.length ≤ 2) : fanPath 1 o = o := by
  match o, h with
  | [], _ => simp [fanPath]
  | [a], _ => simp [fanPath]
  | [a, b], _ => simp [fanPath]

theorem deeperLoop_two_short (o : Str) (F : Nat) (h : o.length ≤ 4) : deeperLoop o F 2 = [] := by
  cases F with
  | zero => rfl
  | succ F => rw [deeperLoop, if_neg (by omega)]

theorem variants_short (o : Str) (h : o.length ≤ 2) : variants o = [o] := by
  match o, h with
  | [], _ => simp [variants]
  | [a], _ => simp [variants]
  | [a, b], _ => simp [variants]

/-- on hex names the (fixed) Rust enumeration is exactly the set of fan-out splits -/
theorem notePathsForObject_hex (o : Str) (h : ∀ c ∈ o, isHex c = true) :
    notePathsForObject o = .ok (variants o) := by
  unfold notePathsForObject
  rw [notesPathForObject_hex o h]
  simp only [deeperFanoutNotePaths, isAscii_hex o h, if_true]
  by_cases h3 : 3 ≤ o.length
  · have hne : o ≠ [] := by intro e; rw [e] at h3; simp at h3
    have hv := deeperLoop_zero_eq_variants o hne (o.length + 2) (by omega)
    rw [deeperLoop_unfold_two o o.length h3, slicePath_one_eq o h3] at hv
    have hneq : (fanPath 1 o != o) = true := by
      match o, h3 with
      | a :: b :: c :: tl, _ => simp [fanPath]
    rw [hneq]
    simp only [if_true]
    rw [← hv]
    simp
  · have hs : o.length ≤ 2 := by omega
    rw [fanPath_one_short o hs, variants_short o hs, deeperLoop_two_short o _ (by omega)]
    simp

theorem noteLookupPaths_hex (o : Str) (h : ∀ c ∈ o, isHex c = true) :
    ∃ ps, noteLookupPaths o = .ok ps ∧ ∀ p, p ∈ ps ↔ p ∈ variants o := by
  have hp := notePathsForObject_hex o h
  unfold notePathsForObject at hp
  unfold noteLookupPaths
  rw [notesPathForObject_hex o h] at hp ⊢
  refine ⟨_, rfl, ?_⟩
  intro p
  simp only [Except.ok.injEq] at hp
  rw [← hp]
  by_cases he : fanPath 1 o = o
  · simp [he]
  · have : (fanPath 1 o != o) = true := by simpa using he
    simp [this]


/-! ### the batch writer on a well-formed tree -/

/-- canonical "replace the note of `o`" with the new note at depth `d` -/
def setNote (d : Nat) (t : Tree) (o : Str) (b : Blob) : Tree :=
  t.filter (fun e => objOf e.1 != o) ++ [(fanPath d o, b)]

theorem foldl_delete {n : Nat} (hn : 1 ≤ n) (ps : List Path) (t : Tree)
    (hps : ∀ p ∈ ps, ∃ d o, p = fanPath d o ∧ IsOid n o)
    (ht : ∀ e ∈ t, ∃ d o, e.1 = fanPath d o ∧ IsOid n o) :
    (ps.map Cmd.D).foldl applyCmd t = t.filter (fun e => !ps.contains e.1) := by
  induction ps generalizing t with
  | nil =>
    simp only [List.map_nil, List.foldl_nil, List.contains_nil, Bool.not_false]
    exact (List.filter_eq_self.2 (fun _ _ => rfl)).symm
  | cons p ps ih =>
    simp only [List.map_cons, List.foldl_cons, applyCmd]
    rw [fiDelete_shape hn p t (hps p (by simp)) ht]
    rw [ih _ (fun q hq => hps q (by simp [hq]))
      (fun e he => ht e (List.mem_filter.1 he).1)]
    rw [List.filter_filter]
    apply List.filter_congr
    intro e _
    simp only [List.contains_cons, Bool.not_or, bne, Bool.and_comm]

theorem mem_variants_iff_objOf {n : Nat} (o : Str) (ho : IsOid n o) (k : Path)
    (hk : ∃ d o', k = fanPath d o' ∧ IsOid n o') : k ∈ variants o ↔ objOf k = o := by
  constructor
  · intro h
    obtain ⟨d, rfl⟩ := mem_variants o k h
    exact objOf_fanPath d o ho.noslash
  · intro h
    obtain ⟨_, d, hd⟩ := objOf_shape hk
    rw [hd, h]
    exact fanPath_mem_variants d o

/-- one entry of the batch script: every entry of `o` is dropped, whatever its depth, and the
    new note is written at the one-level path -/
theorem noteTreeUpdate_effect {n : Nat} (hn : 1 ≤ n) (t : Tree) (o : Str) (b : Blob)
    (ht : ∀ e ∈ t, ∃ d o, e.1 = fanPath d o ∧ IsOid n o) (ho : IsOid n o) :
    ∃ cmds, noteTreeUpdate o b = .ok cmds ∧ cmds.foldl applyCmd t = setNote 1 t o b := by
  unfold noteTreeUpdate
  rw [notePathsForObject_hex o ho.2, notesPathForObject_hex o ho.2]
  refine ⟨_, rfl, ?_⟩
  rw [List.foldl_append]
  have hvs : ∀ p ∈ variants o, ∃ d o', p = fanPath d o' ∧ IsOid n o' := by
    intro p hp
    obtain ⟨d, rfl⟩ := mem_variants o p hp
    exact ⟨d, o, rfl, ho⟩
  rw [foldl_delete hn (variants o) t hvs ht]
  have hfilt : t.filter (fun e => !(variants o).contains e.1) = t.filter (fun e => objOf e.1 != o) := by
    apply List.filter_congr
    intro e he
    have := mem_variants_iff_objOf o ho e.1 (ht e he)
    by_cases hm : e.1 ∈ variants o
    · have h2 := this.1 hm
      simp [hm, h2]
    · have h2 : objOf e.1 ≠ o := fun x => hm (this.2 x)
      simp [hm, h2]
  rw [hfilt]
  simp only [List.foldl_cons, List.foldl_nil, applyCmd, fiModify, setNote]
  congr 1
  have ht' : ∀ e ∈ t.filter (fun e => objOf e.1 != o), ∃ d o, e.1 = fanPath d o ∧ IsOid n o :=
    fun e he => ht e (List.mem_filter.1 he).1
  rw [fiDelete_shape hn _ _ ⟨1, o, rfl, ho⟩ ht', List.filter_filter]
  apply List.filter_congr
  intro e _
  by_cases h : objOf e.1 = o
  · simp [h]
  · have : e.1 ≠ fanPath 1 o := by
      intro x; apply h; rw [x]; exact objOf_fanPath 1 o ho.noslash
    simp [h, this]

theorem setNote_shape {n : Nat} (d : Nat) (t : Tree) (o : Str) (b : Blob)
    (ht : ∀ e ∈ t, ∃ d o, e.1 = fanPath d o ∧ IsOid n o) (ho : IsOid n o) :
    ∀ e ∈ setNote d t o b, ∃ d o, e.1 = fanPath d o ∧ IsOid n o := by
  intro e he
  simp only [setNote, List.mem_append, List.mem_filter, List.mem_singleton] at he
  rcases he with ⟨he, _⟩ | rfl
  · exact ht e he
  · exact ⟨d, o, rfl, ho⟩

theorem setNote_wf {n : Nat} (d : Nat) (t : Tree) (o : Str) (b : Blob)
    (ht : WFTree n t) (ho : IsOid n o) : WFTree n (setNote d t o b) := by
  refine ⟨setNote_shape d t o b ht.shape ho, ?_⟩
  simp only [setNote, List.map_append, List.map_cons, List.map_nil]
  rw [objOf_fanPath d o ho.noslash]
  rw [List.nodup_append]
  refine ⟨?_, by simp, ?_⟩
  · have hsub : List.Sublist ((t.filter (fun e => objOf e.1 != o)).map (fun e => objOf e.1))
        (t.map (fun e => objOf e.1)) := (List.filter_sublist).map _
    exact hsub.nodup ht.one
  · intro a ha b' hb'
    simp only [List.mem_singleton] at hb'
    subst hb'
    simp only [List.mem_map, List.mem_filter] at ha
    obtain ⟨e, ⟨_, hne⟩, rfl⟩ := ha
    simpa using hne


/-! ### git's writer (any re-layout) and reader on a well-formed tree -/

/-- the abstract content of the notes ref: object → note -/
def absMap (t : Tree) : List (Str × Blob) := t.map (fun e => (objOf e.1, e.2))

theorem relayout_shape {n : Nat} (lay : Str → Nat) (t : Tree)
    (ht : ∀ e ∈ t, ∃ d o, e.1 = fanPath d o ∧ IsOid n o) :
    ∀ e ∈ relayout lay t, ∃ d o, e.1 = fanPath d o ∧ IsOid n o := by
  intro e he
  simp only [relayout, List.mem_map] at he
  obtain ⟨e0, he0, rfl⟩ := he
  have hs := ht e0 he0
  obtain ⟨d, o, hd, ho⟩ := hs
  have hnp : isNotePath e0.1 = true := by rw [hd]; exact isNotePath_fanPath d o ho
  rw [if_pos hnp]
  refine ⟨lay (objOf e0.1), objOf e0.1, rfl, ?_⟩
  rw [hd, objOf_fanPath d o ho.noslash]; exact ho

theorem absMap_relayout {n : Nat} (lay : Str → Nat) (t : Tree)
    (ht : ∀ e ∈ t, ∃ d o, e.1 = fanPath d o ∧ IsOid n o) :
    absMap (relayout lay t) = absMap t := by
  unfold absMap relayout
  rw [List.map_map]
  apply List.map_congr_left
  intro e he
  obtain ⟨d, o, hd, ho⟩ := ht e he
  have hnp : isNotePath e.1 = true := by rw [hd]; exact isNotePath_fanPath d o ho
  simp only [Function.comp, if_pos hnp]
  rw [hd, objOf_fanPath d o ho.noslash, objOf_fanPath _ o ho.noslash]

theorem relayout_wf {n : Nat} (lay : Str → Nat) (t : Tree) (ht : WFTree n t) :
    WFTree n (relayout lay t) := by
  refine ⟨relayout_shape lay t ht.shape, ?_⟩
  have h := absMap_relayout lay t ht.shape
  have h1 : (relayout lay t).map (fun e => objOf e.1) = (absMap (relayout lay t)).map (fun e => e.1) := by
    simp [absMap, List.map_map, Function.comp]
  have h2 : t.map (fun e => objOf e.1) = (absMap t).map (fun e => e.1) := by
    simp [absMap, List.map_map, Function.comp]
  rw [h1, h, ← h2]
  exact ht.one

theorem gitNotesAdd_eq {n : Nat} (lay : Str → Nat) (t : Tree) (o : Str) (b : Blob)
    (ht : ∀ e ∈ t, ∃ d o, e.1 = fanPath d o ∧ IsOid n o) :
    gitNotesAdd lay t o b = relayout lay (setNote 0 t o b) := by
  unfold gitNotesAdd setNote
  congr 2
  apply List.filter_congr
  intro e he
  obtain ⟨d, o', hd, ho'⟩ := ht e he
  have hnp : isNotePath e.1 = true := by rw [hd]; exact isNotePath_fanPath d o' ho'
  simp [hnp, bne]

theorem absMap_setNote {n : Nat} (d : Nat) (t : Tree) (o : Str) (b : Blob) (ho : IsOid n o) :
    absMap (setNote d t o b) = (absMap t).filter (fun e => e.1 != o) ++ [(o, b)] := by
  unfold absMap setNote
  rw [List.map_append, List.map_cons, List.map_nil, objOf_fanPath d o ho.noslash, List.filter_map]
  rfl

theorem notesOf_eq {n : Nat} (t : Tree) (o : Str)
    (ht : ∀ e ∈ t, ∃ d o, e.1 = fanPath d o ∧ IsOid n o) :
    notesOf t o = t.filter (fun e => objOf e.1 == o) := by
  unfold notesOf
  apply List.filter_congr
  intro e he
  obtain ⟨d, o', hd, ho'⟩ := ht e he
  have hnp : isNotePath e.1 = true := by rw [hd]; exact isNotePath_fanPath d o' ho'
  simp [hnp]

theorem filter_key_nodup (l : List (Str × Blob)) (o : Str) (h : (l.map (fun e => e.1)).Nodup) :
    (l.filter (fun e => e.1 == o)).map (fun e => e.2) = (l.lookup o).toList := by
  induction l with
  | nil => rfl
  | cons e l ih =>
    obtain ⟨k, v⟩ := e
    simp only [List.map_cons, List.nodup_cons] at h
    by_cases hk : k = o
    · subst hk
      have hnone : l.filter (fun e => e.1 == k) = [] := by
        rw [List.filter_eq_nil_iff]
        intro x hx hxe
        apply h.1
        simp only [beq_iff_eq] at hxe
        rw [← hxe]
        exact List.mem_map.2 ⟨x, hx, rfl⟩
      simp [hnone]
    · have hk' : (o == k) = false := by simpa using fun e : o = k => hk e.symm
      have hk'' : (k == o) = false := by simpa using hk
      simp only [List.filter_cons, hk'', List.lookup_cons, hk']
      simpa using ih h.2

theorem show_eq_lookup {n : Nat} (t : Tree) (o : Str) (ht : WFTree n t) :
    gitNotesShow t o = (absMap t).lookup o := by
  unfold gitNotesShow
  rw [notesOf_eq t o ht.shape]
  have hk : ((absMap t).map (fun e => e.1)).Nodup := by
    have : (absMap t).map (fun e => e.1) = t.map (fun e => objOf e.1) := by
      simp [absMap, List.map_map, Function.comp]
    rw [this]; exact ht.one
  have h := filter_key_nodup (absMap t) o hk
  have h2 : (t.filter (fun e => objOf e.1 == o)).map (fun e => e.2)
      = ((absMap t).filter (fun e => e.1 == o)).map (fun e => e.2) := by
    unfold absMap
    rw [List.filter_map, List.map_map]
    rfl
  rw [h2, h]
  cases (absMap t).lookup o <;> rfl

theorem notesOf_length_le_one {n : Nat} (t : Tree) (o : Str) (ht : WFTree n t) :
    (notesOf t o).length ≤ 1 := by
  have hk : ((absMap t).map (fun e => e.1)).Nodup := by
    have : (absMap t).map (fun e => e.1) = t.map (fun e => objOf e.1) := by
      simp [absMap, List.map_map, Function.comp]
    rw [this]; exact ht.one
  have h := congrArg List.length (filter_key_nodup (absMap t) o hk)
  rw [notesOf_eq t o ht.shape]
  have h2 : (t.filter (fun e => objOf e.1 == o)).length
      = (((absMap t).filter (fun e => e.1 == o)).map (fun e => e.2)).length := by
    unfold absMap
    rw [List.filter_map, List.length_map, List.length_map]
    rfl
  rw [h2, h]
  cases (absMap t).lookup o <;> simp

/-! ### the batch lookup on a well-formed tree -/

theorem lookup_of_mem (t : Tree) (k : Path) (b : Blob) (h1 : (t.map (fun e => objOf e.1)).Nodup)
    (hm : (k, b) ∈ t) : t.lookup k = some b := by
  induction t with
  | nil => cases hm
  | cons e t ih =>
    obtain ⟨k', b'⟩ := e
    simp only [List.map_cons, List.nodup_cons] at h1
    rw [List.lookup_cons]
    by_cases hk : k = k'
    · subst hk
      simp only [beq_self_eq_true]
      rcases List.mem_cons.1 hm with h | h
      · cases h; rfl
      · exfalso; apply h1.1
        exact List.mem_map.2 ⟨(k, b), h, rfl⟩
    · have : (k == k') = false := by simpa using hk
      simp only [this]
      rcases List.mem_cons.1 hm with h | h
      · cases h; exact absurd rfl hk
      · exact ih h1.2 h

theorem mem_of_lookup (t : Tree) (k : Path) (b : Blob) (h : t.lookup k = some b) : (k, b) ∈ t := by
  induction t with
  | nil => cases h
  | cons e t ih =>
    obtain ⟨k', b'⟩ := e
    rw [List.lookup_cons] at h
    by_cases hk : k = k'
    · subst hk
      simp only [beq_self_eq_true, Option.some.injEq] at h
      subst h; simp
    · have : (k == k') = false := by simpa using hk
      simp only [this] at h
      exact List.mem_cons_of_mem _ (ih h)

theorem same_obj_same_entry (t : Tree) (e1 e2 : Path × Blob)
    (h1 : (t.map (fun e => objOf e.1)).Nodup) (m1 : e1 ∈ t) (m2 : e2 ∈ t)
    (ho : objOf e1.1 = objOf e2.1) : e1 = e2 := by
  induction t with
  | nil => cases m1
  | cons e t ih =>
    simp only [List.map_cons, List.nodup_cons] at h1
    rcases List.mem_cons.1 m1 with r1 | r1 <;> rcases List.mem_cons.1 m2 with r2 | r2
    · rw [r1, r2]
    · exfalso; apply h1.1; rw [← r1, ho]; exact List.mem_map.2 ⟨e2, r2, rfl⟩
    · exfalso; apply h1.1; rw [← r2, ← ho]; exact List.mem_map.2 ⟨e1, r1, rfl⟩
    · exact ih h1.2 r1 r2

theorem findSome_of_all {α β} (l : List α) (f : α → Option β) (b : β)
    (hall : ∀ p ∈ l, f p = none ∨ f p = some b) (hex : ∃ p ∈ l, f p = some b) :
    l.findSome? f = some b := by
  induction l with
  | nil => obtain ⟨p, hp, _⟩ := hex; cases hp
  | cons x l ih =>
    rw [List.findSome?_cons]
    rcases hall x (by simp) with h | h
    · rw [h]
      apply ih (fun p hp => hall p (by simp [hp]))
      obtain ⟨p, hp, hfp⟩ := hex
      rcases List.mem_cons.1 hp with r | r
      · subst r; rw [h] at hfp; cases hfp
      · exact ⟨p, r, hfp⟩
    · rw [h]

theorem lookup_absMap_some (t : Tree) (o : Str) (b : Blob) (h : (absMap t).lookup o = some b) :
    ∃ k, (k, b) ∈ t ∧ objOf k = o := by
  have := mem_of_lookup (absMap t) o b h
  simp only [absMap, List.mem_map, Prod.mk.injEq] at this
  obtain ⟨e, he, h1, h2⟩ := this
  exact ⟨e.1, by rw [← h2]; exact he, h1⟩

theorem lookup_absMap_none (t : Tree) (o : Str) (h : (absMap t).lookup o = none) :
    ∀ e ∈ t, objOf e.1 ≠ o := by
  intro e he hobj
  induction t with
  | nil => cases he
  | cons x t ih =>
    simp only [absMap, List.map_cons, List.lookup_cons] at h
    by_cases hx : o = objOf x.1
    · simp [hx] at h
    · have : (o == objOf x.1) = false := by simpa using hx
      simp only [this] at h
      rcases List.mem_cons.1 he with r | r
      · subst r; exact hx hobj.symm
      · exact ih h r

/-- the (fixed) batch lookup finds exactly the note git shows, at whatever depth it sits -/
theorem findSome_variants {n : Nat} (t : Tree) (o : Str) (ps : List Path) (ht : WFTree n t)
    (ho : IsOid n o) (hps : ∀ p, p ∈ ps ↔ p ∈ variants o) :
    ps.findSome? (catFileBlob t) = gitNotesShow t o := by
  rw [show_eq_lookup t o ht]
  cases hl : (absMap t).lookup o with
  | none =>
    rw [List.findSome?_eq_none_iff]
    intro p hp
    cases hc : catFileBlob t p with
    | none => rfl
    | some b =>
      exfalso
      have hm := mem_of_lookup t p b hc
      obtain ⟨d, rfl⟩ := mem_variants o p ((hps p).1 hp)
      exact lookup_absMap_none t o hl _ hm (objOf_fanPath d o ho.noslash)
  | some b =>
    obtain ⟨k, hk, hko⟩ := lookup_absMap_some t o b hl
    apply findSome_of_all
    · intro p hp
      cases hc : catFileBlob t p with
      | none => left; rfl
      | some b' =>
        right
        have hm := mem_of_lookup t p b' hc
        obtain ⟨d, rfl⟩ := mem_variants o p ((hps p).1 hp)
        have := same_obj_same_entry t (k, b) (fanPath d o, b') ht.one hk hm
          (by simp [hko, objOf_fanPath d o ho.noslash])
        cases this; rfl
    · refine ⟨k, ?_, lookup_of_mem t k b ht.one hk⟩
      rw [hps]
      exact (mem_variants_iff_objOf o ho k (ht.shape _ hk)).2 hko


/-! ### range builders -/

def coversAny (rs : List LineRange) (x : Nat) : Bool := rs.any (fun r => covers r x)

theorem lo_mkRange (s e : Nat) : lo (mkRange s e) = s := by
  unfold mkRange; split <;> simp [lo]

theorem hi_mkRange (s e : Nat) : hi (mkRange s e) = e := by
  unfold mkRange; split
  · rename_i h; simp [hi, h]
  · simp [hi]

theorem covers_mkRange (s e x : Nat) : covers (mkRange s e) x = true ↔ s ≤ x ∧ x ≤ e := by
  simp [covers, lo_mkRange, hi_mkRange]

/-- `compressLoop` on a strictly ascending remainder above `e` -/
theorem compressLoop_spec (rest : List Nat) (s e : Nat) (hse : s ≤ e)
    (hasc : (e :: rest).Pairwise (· < ·)) (hmax : ∀ x ∈ e :: rest, x ≤ u32Max) :
    ∃ r rs, compressLoop rest s e = .ok (r :: rs) ∧ lo r = s ∧ sortedDisjoint (r :: rs) = true ∧
      (∀ q ∈ r :: rs, lo q ≤ hi q) ∧
      ∀ x, coversAny (r :: rs) x = true ↔ (s ≤ x ∧ x ≤ e) ∨ x ∈ rest := by
  induction rest generalizing s e with
  | nil =>
    refine ⟨mkRange s e, [], rfl, lo_mkRange s e, by simp [sortedDisjoint], ?_, ?_⟩
    · intro q hq; simp only [List.mem_singleton] at hq; subst hq
      rw [lo_mkRange, hi_mkRange]; exact hse
    · intro x; simp [coversAny, covers_mkRange]
  | cons l rest ih =>
    rw [List.pairwise_cons] at hasc
    have hel : e < l := hasc.1 l (by simp)
    have hlmax : l ≤ u32Max := hmax l (by simp)
    have hnov : ¬ e ≥ u32Max := by omega
    have hmax' : ∀ x ∈ l :: rest, x ≤ u32Max := fun x hx => hmax x (by simp [hx])
    unfold compressLoop
    rw [if_neg hnov]
    by_cases hadj : l = e + 1
    · rw [if_pos hadj]
      obtain ⟨r, rs, h1, h2, h3, h4, h5⟩ := ih s l (by omega) hasc.2 hmax'
      refine ⟨r, rs, h1, h2, h3, h4, ?_⟩
      intro x; rw [h5 x]; simp only [List.mem_cons]
      constructor
      · rintro (h | h)
        · by_cases hx : x = l
          · right; left; exact hx
          · left; omega
        · right; right; exact h
      · rintro (h | h | h)
        · left; omega
        · left; omega
        · right; exact h
    · rw [if_neg hadj]
      obtain ⟨r, rs, h1, h2, h3, h4, h5⟩ := ih l l (Nat.le_refl l) hasc.2 hmax'
      rw [h1]
      refine ⟨mkRange s e, r :: rs, rfl, lo_mkRange s e, ?_, ?_, ?_⟩
      · simp only [sortedDisjoint, hi_mkRange, h2, Bool.and_eq_true, decide_eq_true_eq]
        refine ⟨hel, ?_⟩
        simpa [sortedDisjoint] using h3
      · intro q hq
        rcases List.mem_cons.1 hq with rfl | hq
        · rw [lo_mkRange, hi_mkRange]; exact hse
        · exact h4 q hq
      · intro x
        have := h5 x
        simp only [coversAny, List.any_cons, Bool.or_eq_true, covers_mkRange] at this ⊢
        rw [this]; simp only [List.mem_cons]
        constructor
        · rintro (h | h | h)
          · left; exact h
          · right; left; omega
          · right; right; exact h
        · rintro (h | h | h)
          · left; exact h
          · right; left; omega
          · right; right; exact h

theorem compressLines_spec (ls : List Nat) (hasc : ls.Pairwise (· < ·)) (hmax : ∀ x ∈ ls, x ≤ u32Max) :
    ∃ rs, compressLines ls = .ok rs ∧ sortedDisjoint rs = true ∧ (∀ q ∈ rs, lo q ≤ hi q) ∧
      (∀ x, coversAny rs x = true ↔ x ∈ ls) ∧ (ls ≠ [] → rs ≠ []) := by
  match ls with
  | [] => exact ⟨[], rfl, rfl, by simp, by simp [coversAny], by simp⟩
  | l :: rest =>
    obtain ⟨r, rs, h1, _, h3, h4, h5⟩ := compressLoop_spec rest l l (Nat.le_refl l) hasc hmax
    refine ⟨r :: rs, h1, h3, h4, ?_, by simp⟩
    intro x; rw [h5 x]; simp only [List.mem_cons]
    constructor
    · rintro (h | h)
      · left; omega
      · right; exact h
    · rintro (h | h)
      · left; omega
      · right; exact h

theorem insertDedup_spec (x : Nat) (ys : List Nat) (h : ys.Pairwise (· < ·)) :
    (insertDedup x ys).Pairwise (· < ·) ∧ ∀ z, z ∈ insertDedup x ys ↔ z = x ∨ z ∈ ys := by
  induction ys with
  | nil => simp [insertDedup]
  | cons y ys ih =>
    rw [List.pairwise_cons] at h
    unfold insertDedup
    by_cases h1 : x < y
    · rw [if_pos h1]
      refine ⟨?_, by simp⟩
      rw [List.pairwise_cons]
      refine ⟨?_, List.pairwise_cons.2 h⟩
      intro z hz
      rcases List.mem_cons.1 hz with rfl | hz
      · exact h1
      · exact Nat.lt_trans h1 (h.1 z hz)
    · rw [if_neg h1]
      by_cases h2 : x = y
      · rw [if_pos h2]
        refine ⟨List.pairwise_cons.2 h, ?_⟩
        intro z; simp only [List.mem_cons]; subst h2
        constructor
        · intro hz; right; exact hz
        · rintro (hz | hz)
          · left; exact hz
          · exact hz
      · rw [if_neg h2]
        obtain ⟨ih1, ih2⟩ := ih h.2
        refine ⟨?_, ?_⟩
        · rw [List.pairwise_cons]
          refine ⟨?_, ih1⟩
          intro z hz
          rcases (ih2 z).1 hz with rfl | hz
          · omega
          · exact h.1 z hz
        · intro z; simp only [List.mem_cons, ih2 z]
          constructor
          · rintro (h | h | h)
            · right; left; exact h
            · left; exact h
            · right; right; exact h
          · rintro (h | h | h)
            · right; left; exact h
            · left; exact h
            · right; right; exact h

theorem sortDedup_spec (l : List Nat) :
    (sortDedup l).Pairwise (· < ·) ∧ ∀ z, z ∈ sortDedup l ↔ z ∈ l := by
  induction l with
  | nil => simp [sortDedup]
  | cons x xs ih =>
    obtain ⟨h1, h2⟩ := insertDedup_spec x (sortDedup xs) ih.1
    refine ⟨h1, ?_⟩
    intro z
    simp only [sortDedup, h2 z, ih.2 z, List.mem_cons]

theorem sortedDisjoint_pairwise (l : List LineRange) (h : sortedDisjoint l = true)
    (hle : ∀ r ∈ l, lo r ≤ hi r) : l.Pairwise (fun a b => hi a < lo b) := by
  induction l with
  | nil => exact List.Pairwise.nil
  | cons a rest ih =>
    simp only [sortedDisjoint, Bool.and_eq_true] at h
    have ihr := ih h.2 (fun r hr => hle r (by simp [hr]))
    rw [List.pairwise_cons]
    refine ⟨?_, ihr⟩
    match rest, h, ihr with
    | [], _, _ => intro b hb; cases hb
    | b0 :: rest', h, ihr =>
      have h0 : hi a < lo b0 := by simpa using h.1
      intro b hb
      rcases List.mem_cons.1 hb with rfl | hb
      · exact h0
      · have := (List.pairwise_cons.1 ihr).1 b hb
        have := hle b0 (by simp)
        omega

theorem pairwiseDisjoint_iff (l : List LineRange) :
    pairwiseDisjoint l = true ↔ l.Pairwise (fun a b => disjoint a b = true) := by
  induction l with
  | nil => simp [pairwiseDisjoint]
  | cons a rest ih =>
    simp only [pairwiseDisjoint, Bool.and_eq_true, List.all_eq_true, List.pairwise_cons, ih]


theorem coversAny_of_mem (rs : List LineRange) (r : LineRange) (x : Nat) (hr : r ∈ rs)
    (hc : covers r x = true) : coversAny rs x = true :=
  List.any_eq_true.2 ⟨r, hr, hc⟩

theorem covers_lo (r : LineRange) (h : lo r ≤ hi r) : covers r (lo r) = true := by
  simp [covers, h]

theorem covers_hi (r : LineRange) (h : lo r ≤ hi r) : covers r (hi r) = true := by
  simp [covers, h]

/-- the committed bucket of post-commit: what each emitted entry looks like -/
theorem entriesOfCommitted_spec (m : List (Str × List Nat)) (n : Nat) (hn : n ≤ u32Max)
    (hb : ∀ kv ∈ m, ∀ l ∈ kv.2, 1 ≤ l ∧ l ≤ n) :
    ∃ es, entriesOfCommitted m = .ok es ∧ (es.map (fun e => e.hash)).Sublist (m.map (fun kv => kv.1)) ∧
      ∀ e ∈ es, e.hash ≠ humanId ∧ e.ranges ≠ [] ∧ sortedDisjoint e.ranges = true ∧
        e.ranges.all (rangeWF n) = true ∧
        ∃ ls, (e.hash, ls) ∈ m ∧ ∀ x, coversAny e.ranges x = true ↔ x ∈ ls := by
  induction m with
  | nil => exact ⟨[], rfl, List.Sublist.slnil, by simp⟩
  | cons kv m ih =>
    obtain ⟨a, ls⟩ := kv
    obtain ⟨es, h1, h2, h3⟩ := ih (fun kv hkv => hb kv (by simp [hkv]))
    have h3' : ∀ e ∈ es, e.hash ≠ humanId ∧ e.ranges ≠ [] ∧ sortedDisjoint e.ranges = true ∧
        e.ranges.all (rangeWF n) = true ∧
        ∃ ls', (e.hash, ls') ∈ (a, ls) :: m ∧ ∀ x, coversAny e.ranges x = true ↔ x ∈ ls' := by
      intro e he
      obtain ⟨q1, q2, q3, q4, ls', q5, q6⟩ := h3 e he
      exact ⟨q1, q2, q3, q4, ls', by simp [q5], q6⟩
    unfold entriesOfCommitted
    by_cases hh : (a == humanId) = true
    · rw [if_pos hh]
      exact ⟨es, h1, h2.cons _, h3'⟩
    · rw [if_neg hh]
      simp only
      by_cases hemp : (sortDedup ls).isEmpty = true
      · rw [if_pos hemp]
        exact ⟨es, h1, h2.cons _, h3'⟩
      · rw [if_neg hemp]
        obtain ⟨hs1, hs2⟩ := sortDedup_spec ls
        have hbl : ∀ x ∈ sortDedup ls, 1 ≤ x ∧ x ≤ n :=
          fun x hx => hb (a, ls) (by simp) x ((hs2 x).1 hx)
        obtain ⟨rs, c1, c2, c3, c4, c5⟩ := compressLines_spec (sortDedup ls) hs1
          (fun x hx => Nat.le_trans (hbl x hx).2 hn)
        rw [c1, h1]
        refine ⟨⟨a, rs⟩ :: es, rfl, ?_, ?_⟩
        · simpa using h2.cons_cons a
        · intro e he
          rcases List.mem_cons.1 he with rfl | he
          · refine ⟨by simpa using hh, c5 (by simpa using hemp), c2, ?_, ls, by simp, ?_⟩
            · rw [List.all_eq_true]
              intro r hr
              have hle := c3 r hr
              have hlo := hbl _ ((c4 _).1 (coversAny_of_mem rs r _ hr (covers_lo r hle)))
              have hhi := hbl _ ((c4 _).1 (coversAny_of_mem rs r _ hr (covers_hi r hle)))
              simp only [rangeWF, Bool.and_eq_true, decide_eq_true_eq]
              exact ⟨⟨hlo.1, hle⟩, hhi.2⟩
            · intro x; rw [c4 x, hs2 x]
          · exact h3' e he

theorem mem_linesMapOf (f : Nat → Option Str) (n : Nat) (authors : List Str) (a : Str) (ls : List Nat)
    (h : (a, ls) ∈ linesMapOf f n authors) : ∀ x, x ∈ ls ↔ (1 ≤ x ∧ x ≤ n ∧ f x = some a) := by
  simp only [linesMapOf, List.mem_map, Prod.mk.injEq] at h
  obtain ⟨a', _, rfl, rfl⟩ := h
  intro x
  simp only [List.mem_filter, List.mem_range'_1, beq_iff_eq]
  constructor
  · rintro ⟨⟨h1, h2⟩, h3⟩; exact ⟨h1, by omega, h3⟩
  · rintro ⟨h1, h2, h3⟩; exact ⟨⟨h1, by omega⟩, h3⟩

theorem rangeWF_le (n : Nat) (r : LineRange) (h : rangeWF n r = true) : lo r ≤ hi r := by
  simp only [rangeWF, Bool.and_eq_true, decide_eq_true_eq] at h
  exact h.1.2

/-- two ranges that list no common line are disjoint -/
theorem disjoint_of_no_common (r1 r2 : LineRange) (h1 : lo r1 ≤ hi r1) (h2 : lo r2 ≤ hi r2)
    (h : ∀ x, ¬ (covers r1 x = true ∧ covers r2 x = true)) : disjoint r1 r2 = true := by
  simp only [disjoint, Bool.or_eq_true, decide_eq_true_eq]
  by_cases hc : hi r1 < lo r2
  · left; exact hc
  · right
    by_cases hc2 : hi r2 < lo r1
    · exact hc2
    · exfalso
      by_cases hm : lo r1 ≤ lo r2
      · apply h (lo r2)
        simp only [covers, Bool.and_eq_true, decide_eq_true_eq]
        omega
      · apply h (lo r1)
        simp only [covers, Bool.and_eq_true, decide_eq_true_eq]
        omega


/-! ### `WF` survives the serializer's normalisation -/

theorem lo_eq_start (r : LineRange) : lo r = r.start := by cases r <;> rfl

theorem sortByStart_of_sorted (l : List LineRange)
    (h : l.Pairwise (fun a b => a.start ≤ b.start)) : sortByStart l = l := by
  induction l with
  | nil => rfl
  | cons r rs ih =>
    rw [List.pairwise_cons] at h
    rw [sortByStart, ih h.2]
    match rs, h with
    | [], _ => rfl
    | x :: xs, h =>
      have : r.start ≤ x.start := h.1 x (by simp)
      simp [sortByStart.insertFront, this]

theorem entryWF_sorted (n : Nat) (m : NoteMeta) (e : Entry) (h : entryWF n m e = true) :
    sortByStart e.ranges = e.ranges := by
  simp only [entryWF, Bool.and_eq_true] at h
  obtain ⟨⟨⟨hr, hs⟩, _⟩, _⟩ := h
  rw [List.all_eq_true] at hr
  have hp := sortedDisjoint_pairwise e.ranges hs (fun r hr' => rangeWF_le n r (hr r hr'))
  apply sortByStart_of_sorted
  refine List.Pairwise.imp_of_mem ?_ hp
  intro a b ha _ hab
  have := rangeWF_le n a (hr a ha)
  rw [← lo_eq_start, ← lo_eq_start]; omega

theorem flatMap_live (l : List Entry) :
    (l.filter (fun e => !e.ranges.isEmpty)).flatMap (fun e => e.ranges) = l.flatMap (fun e => e.ranges) := by
  induction l with
  | nil => rfl
  | cons e l ih =>
    rw [List.filter_cons]
    by_cases he : e.ranges.isEmpty = true
    · have : e.ranges = [] := by simpa using he
      simp [ih, this]
    · simp [he, ih]

theorem map_normEntry_id (l : List Entry) (h : ∀ e ∈ l, sortByStart e.ranges = e.ranges) :
    l.map normEntry = l := by
  induction l with
  | nil => rfl
  | cons e l ih =>
    rw [List.map_cons, ih (fun x hx => h x (by simp [hx]))]
    have := h e (by simp)
    simp [normEntry, this]

/-- when every entry's ranges are already ascending, `normalise` only drops range-less
    entries and entry-less files -/
theorem normalise_eq (fs : List FileAtt)
    (h : ∀ f ∈ fs, ∀ e ∈ f.entries, sortByStart e.ranges = e.ranges) :
    normalise fs = (fs.filter (fun f => !(liveEntries f).isEmpty)).map
      (fun f => { f with entries := liveEntries f }) := by
  unfold normalise
  apply List.map_congr_left
  intro f hf
  have hf' := (List.mem_filter.1 hf).1
  rw [map_normEntry_id]
  intro e he
  exact h f hf' e (List.mem_filter.1 he).1

theorem rangesOfPath_normalise (fs : List FileAtt) (p : Str)
    (h : ∀ f ∈ fs, ∀ e ∈ f.entries, sortByStart e.ranges = e.ranges) :
    rangesOfPath (normalise fs) p = rangesOfPath fs p := by
  rw [normalise_eq fs h]
  clear h
  induction fs with
  | nil => rfl
  | cons f fs ih =>
    unfold rangesOfPath at ih ⊢
    rw [List.filter_cons]
    by_cases hl : (!(liveEntries f).isEmpty) = true
    · rw [if_pos hl, List.map_cons, List.filter_cons, List.filter_cons]
      by_cases hp : (f.path == p) = true
      · simp only [hp, if_true, List.flatMap_cons, ih]
        congr 1
        exact flatMap_live f.entries
      · simp only [hp]
        exact ih
    · rw [if_neg hl, ih, List.filter_cons]
      by_cases hp : (f.path == p) = true
      · simp only [hp, if_true, List.flatMap_cons]
        have hemp : liveEntries f = [] := by simpa using hl
        have : f.entries.flatMap (fun e => e.ranges) = [] := by
          rw [← flatMap_live, ← liveEntries.eq_1 f, hemp]; rfl
        rw [this]; rfl
      · simp [hp]

theorem WF_normalise (fs : List FileAtt) (m : NoteMeta) (c : CommitFacts) (h : WF ⟨fs, m⟩ c = true) :
    WF ⟨normalise fs, m⟩ c = true := by
  simp only [WF, Bool.and_eq_true, List.all_eq_true] at h ⊢
  obtain ⟨hf, hb⟩ := h
  have hsorted : ∀ f ∈ fs, ∀ e ∈ f.entries, sortByStart e.ranges = e.ranges := by
    intro f hfm e he
    have := hf f hfm
    unfold fileWF at this
    split at this
    · cases this
    · rename_i n _
      simp only [Bool.and_eq_true, List.all_eq_true] at this
      exact entryWF_sorted n m e (this.1 e he)
  refine ⟨?_, hb⟩
  intro f' hf'
  rw [normalise_eq fs hsorted] at hf'
  simp only [List.mem_map, List.mem_filter] at hf'
  obtain ⟨f, ⟨hfm, _⟩, rfl⟩ := hf'
  have := hf f hfm
  unfold fileWF at this ⊢
  simp only
  split at this
  · cases this
  · rename_i n hn
    simp only [Bool.and_eq_true, List.all_eq_true] at this ⊢
    refine ⟨?_, ?_⟩
    · intro e he
      exact this.1 e (List.mem_filter.1 he).1
    · rw [rangesOfPath_normalise fs f.path hsorted]
      exact this.2

/-! ### the pre-fix writer/lookup on trees whose entries are all at fan-out depth ≤ 1 -/

theorem count_slash_of_noslash (x : Str) (h : '/' ∉ x) : x.count '/' = 0 :=
  List.count_eq_zero.2 h

theorem fanPath_noslash_eq (d : Nat) (x : Str) (hx : '/' ∉ x) (h : (fanPath d x).count '/' = 0) :
    fanPath d x = x := by
  match d, x with
  | 0, x => simp [fanPath]
  | d + 1, [] => simp [fanPath]
  | d + 1, [a] => simp [fanPath]
  | d + 1, a :: b :: tl =>
    simp only [fanPath] at h ⊢
    split
    · rfl
    · rename_i hne
      rw [if_neg hne] at h
      exfalso
      have : '/' ∈ a :: b :: '/' :: fanPath d tl := by simp
      exact (List.count_eq_zero.1 h) this

theorem depth_fanPath_one (o : Str) (ho : '/' ∉ o) : depthOf (fanPath 1 o) ≤ 1 := by
  unfold depthOf
  match o, ho with
  | [], _ => simp [fanPath]
  | [a], ho => simp only [fanPath]; rw [count_slash_of_noslash _ ho]; omega
  | a :: b :: tl, ho =>
    simp only [fanPath]
    split
    · rw [count_slash_of_noslash _ ho]; omega
    · have ha : a ≠ '/' := fun e => ho (by simp [e])
      have hb : b ≠ '/' := fun e => ho (by simp [e])
      have htl : '/' ∉ tl := fun e => ho (by simp [e])
      rw [List.count_cons, List.count_cons, List.count_cons, count_slash_of_noslash _ htl]
      simp [ha, hb]

theorem fanPath_depth_le_one (d : Nat) (o : Str) (ho : '/' ∉ o) (h : depthOf (fanPath d o) ≤ 1) :
    fanPath d o = o ∨ fanPath d o = fanPath 1 o := by
  unfold depthOf at h
  match d, o, ho with
  | 0, o, _ => left; simp [fanPath]
  | d + 1, [], _ => left; simp [fanPath]
  | d + 1, [a], _ => left; simp [fanPath]
  | d + 1, a :: b :: tl, ho =>
    simp only [fanPath] at h ⊢
    split
    · left; rfl
    · rename_i hne
      rw [if_neg hne] at h
      right
      have ha : a ≠ '/' := fun e => ho (by simp [e])
      have hb : b ≠ '/' := fun e => ho (by simp [e])
      have htl : '/' ∉ tl := fun e => ho (by simp [e])
      rw [List.count_cons, List.count_cons, List.count_cons] at h
      have e1 : (a == '/') = false := by simpa using ha
      have e2 : (b == '/') = false := by simpa using hb
      have h0 : (fanPath d tl).count '/' = 0 := by
        simp [e1, e2] at h
        omega
      rw [fanPath_noslash_eq d tl htl h0]

/-- the pre-fix writer does what the fixed one does when no entry is deeper than one level -/
theorem noteTreeUpdateV0_effect {n : Nat} (hn : 1 ≤ n) (t : Tree) (o : Str) (b : Blob)
    (ht : ∀ e ∈ t, ∃ d o, e.1 = fanPath d o ∧ IsOid n o) (hd : ∀ e ∈ t, depthOf e.1 ≤ 1)
    (ho : IsOid n o) :
    ∃ cmds, noteTreeUpdateV0 o b = .ok cmds ∧ cmds.foldl applyCmd t = setNote 1 t o b := by
  unfold noteTreeUpdateV0
  rw [notesPathForObject_hex o ho.2]
  refine ⟨_, rfl, ?_⟩
  let ps0 : List Path := (if o != fanPath 1 o then [o] else []) ++ [fanPath 1 o]
  have hcmds : (if o != fanPath 1 o then [Cmd.D o] else []) ++ [Cmd.D (fanPath 1 o), Cmd.M b (fanPath 1 o)]
      = ps0.map Cmd.D ++ [Cmd.M b (fanPath 1 o)] := by
    simp only [ps0]
    split <;> simp
  rw [hcmds, List.foldl_append]
  have hps : ∀ p ∈ ps0, ∃ d o', p = fanPath d o' ∧ IsOid n o' := by
    intro p hp
    simp only [ps0, List.mem_append, List.mem_singleton] at hp
    rcases hp with hp | hp
    · split at hp
      · simp only [List.mem_singleton] at hp; exact ⟨0, o, by simp [hp, fanPath], ho⟩
      · cases hp
    · exact ⟨1, o, hp, ho⟩
  rw [foldl_delete hn ps0 t hps ht]
  have hfilt : t.filter (fun e => !ps0.contains e.1) = t.filter (fun e => objOf e.1 != o) := by
    apply List.filter_congr
    intro e he
    by_cases hobj : objOf e.1 = o
    · obtain ⟨_, d, hde⟩ := objOf_shape (ht e he)
      rw [hobj] at hde
      have hdep := hd e he
      rw [hde] at hdep
      have hmem : e.1 ∈ ps0 := by
        rcases fanPath_depth_le_one d o ho.noslash hdep with h | h
        · rw [hde, h]
          simp only [ps0, List.mem_append, List.mem_singleton]
          by_cases hq : o = fanPath 1 o
          · right; exact hq
          · left; have : (o != fanPath 1 o) = true := by simpa using hq
            simp [this]
        · rw [hde, h]; simp [ps0]
      simp [hmem, hobj]
    · have hnm : e.1 ∉ ps0 := by
        intro hm
        obtain ⟨d, o', hp, _⟩ := hps e.1 hm
        simp only [ps0, List.mem_append, List.mem_singleton] at hm
        apply hobj
        rcases hm with hm | hm
        · split at hm
          · simp only [List.mem_singleton] at hm; rw [hm]; exact objOf_of_noslash o ho.noslash
          · cases hm
        · rw [hm]; exact objOf_fanPath 1 o ho.noslash
      simp [hnm, hobj]
  rw [hfilt]
  simp only [List.foldl_cons, List.foldl_nil, applyCmd, fiModify, setNote]
  congr 1
  have ht' : ∀ e ∈ t.filter (fun e => objOf e.1 != o), ∃ d o, e.1 = fanPath d o ∧ IsOid n o :=
    fun e he => ht e (List.mem_filter.1 he).1
  rw [fiDelete_shape hn _ _ ⟨1, o, rfl, ho⟩ ht', List.filter_filter]
  apply List.filter_congr
  intro e _
  by_cases h : objOf e.1 = o
  · simp [h]
  · have : e.1 ≠ fanPath 1 o := by
      intro x; apply h; rw [x]; exact objOf_fanPath 1 o ho.noslash
    simp [h, this]

theorem setNote_depth (t : Tree) (o : Str) (b : Blob) (ho : '/' ∉ o) (hd : ∀ e ∈ t, depthOf e.1 ≤ 1) :
    ∀ e ∈ setNote 1 t o b, depthOf e.1 ≤ 1 := by
  intro e he
  simp only [setNote, List.mem_append, List.mem_filter, List.mem_singleton] at he
  rcases he with ⟨he, _⟩ | rfl
  · exact hd e he
  · exact depth_fanPath_one o ho

/-- batch lookup over any list of candidate paths that (a) are fan-out splits of `o` and
    (b) include the path where `o`'s note actually sits -/
theorem findSome_paths {n : Nat} (t : Tree) (o : Str) (ps : List Path) (ht : WFTree n t)
    (ho : IsOid n o) (h1 : ∀ p ∈ ps, p ∈ variants o)
    (h2 : ∀ k b, (k, b) ∈ t → objOf k = o → k ∈ ps) :
    ps.findSome? (catFileBlob t) = gitNotesShow t o := by
  rw [show_eq_lookup t o ht]
  cases hl : (absMap t).lookup o with
  | none =>
    rw [List.findSome?_eq_none_iff]
    intro p hp
    cases hc : catFileBlob t p with
    | none => rfl
    | some b =>
      exfalso
      have hm := mem_of_lookup t p b hc
      obtain ⟨d, rfl⟩ := mem_variants o p (h1 p hp)
      exact lookup_absMap_none t o hl _ hm (objOf_fanPath d o ho.noslash)
  | some b =>
    obtain ⟨k, hk, hko⟩ := lookup_absMap_some t o b hl
    apply findSome_of_all
    · intro p hp
      cases hc : catFileBlob t p with
      | none => left; rfl
      | some b' =>
        right
        have hm := mem_of_lookup t p b' hc
        obtain ⟨d, rfl⟩ := mem_variants o p (h1 p hp)
        have := same_obj_same_entry t (k, b) (fanPath d o, b') ht.one hk hm
          (by simp [hko, objOf_fanPath d o ho.noslash])
        cases this; rfl
    · exact ⟨k, h2 k b hk hko, lookup_of_mem t k b ht.one hk⟩

end GitAi.NotesTree
