/-
  Lemmas/Profile.lean — helper lemmas for Props/C12.lean (profile rewriting, `--` splitting,
  UTF-8 and C-style quoting round trips, base-dir resolution).
-/
import GitAiModel.Model.Profile
namespace GitAi.Profile
open GitAi

/-! ## `--` splitting -/

theorem beforeDD_append_fromDD (l : List Str) : beforeDD l ++ fromDD l = l := by
  induction l with
  | nil => rfl
  | cons a t ih =>
    unfold beforeDD fromDD
    by_cases h : a = dd <;> simp [h, ih]

theorem dd_not_mem_beforeDD (l : List Str) : dd ∉ beforeDD l := by
  induction l with
  | nil => simp [beforeDD]
  | cons a t ih =>
    unfold beforeDD
    by_cases h : a = dd
    · simp [h]
    · simp only [h, if_false, List.mem_cons, not_or]
      exact ⟨fun e => h e.symm, ih⟩

/-- a list is "a tail from `--` on" when it is empty or starts with `--` -/
def StartsDD (t : List Str) : Prop := t = [] ∨ t.head? = some dd

theorem startsDD_fromDD (l : List Str) : StartsDD (fromDD l) := by
  induction l with
  | nil => exact Or.inl rfl
  | cons a t ih =>
    unfold fromDD
    by_cases h : a = dd
    · simp [h, StartsDD]
    · simpa [h] using ih

theorem beforeDD_append (m t : List Str) (hm : dd ∉ m) (ht : StartsDD t) : beforeDD (m ++ t) = m := by
  induction m with
  | nil =>
    rcases ht with rfl | ht
    · rfl
    · cases t with
      | nil => rfl
      | cons a t' =>
        simp only [List.head?_cons, Option.some.injEq] at ht
        simp [beforeDD, ht]
  | cons a m ih =>
    simp only [List.mem_cons, not_or] at hm
    have : a ≠ dd := fun e => hm.1 e.symm
    simp [beforeDD, this, ih hm.2]

theorem fromDD_append (m t : List Str) (hm : dd ∉ m) (ht : StartsDD t) : fromDD (m ++ t) = t := by
  induction m with
  | nil =>
    rcases ht with rfl | ht
    · rfl
    · cases t with
      | nil => rfl
      | cons a t' =>
        simp only [List.head?_cons, Option.some.injEq] at ht
        simp [fromDD, ht]
  | cons a m ih =>
    simp only [List.mem_cons, not_or] at hm
    have : a ≠ dd := fun e => hm.1 e.symm
    simp [fromDD, this, ih hm.2]

/-! ## `first_git_subcommand_index` -/

theorem firstSubIdxFrom_bounds (vo : List Str) (l : List Str) (i j : Nat)
    (h : firstSubIdxFrom vo l i = some j) : i ≤ j ∧ j < i + l.length := by
  fun_induction firstSubIdxFrom vo l i with
  | case1 => simp at h
  | case2 a rest i hd =>
    simp only [Option.some.injEq] at h
    subst h
    simp
  | case3 => simp at h
  | case4 a i hd hv x rest' ih =>
    have := ih h
    simp only [List.length_cons]
    omega
  | case5 a rest i hd hv ih =>
    have := ih h
    simp only [List.length_cons]
    omega

/-- the answer only depends on the tokens up to and including the sub-command -/
theorem firstSubIdxFrom_take (vo : List Str) (l r : List Str) (i j : Nat)
    (h : firstSubIdxFrom vo l i = some j) :
    firstSubIdxFrom vo (l.take (j - i + 1) ++ r) i = some j := by
  fun_induction firstSubIdxFrom vo l i with
  | case1 => simp at h
  | case2 a rest i hd =>
    simp only [Option.some.injEq] at h
    subst h
    simp only [Nat.sub_self, Nat.zero_add, List.take_succ_cons, List.take_zero, List.cons_append, List.nil_append]
    unfold firstSubIdxFrom
    rw [if_pos hd]
  | case3 => simp at h
  | case4 a i hd hv x rest' ih =>
    have hb := firstSubIdxFrom_bounds _ _ _ _ h
    have := ih h
    have e : j - i + 1 = (j - (i + 2) + 1) + 2 := by omega
    rw [e]
    simp only [List.take_succ_cons, List.cons_append]
    unfold firstSubIdxFrom
    rw [if_neg hd, if_pos hv]
    exact this
  | case5 a rest i hd hv ih =>
    have hb := firstSubIdxFrom_bounds _ _ _ _ h
    have := ih h
    have e : j - i + 1 = (j - (i + 1) + 1) + 1 := by omega
    rw [e]
    simp only [List.take_succ_cons, List.cons_append]
    unfold firstSubIdxFrom
    rw [if_neg hd, if_neg hv]
    exact this

theorem firstSubIdx_lt (args : List Str) (ci : Nat) (h : firstSubIdx args = some ci) : ci < args.length := by
  have := firstSubIdxFrom_bounds _ _ _ _ h
  omega

theorem firstSubIdx_take_append (args r : List Str) (ci : Nat) (h : firstSubIdx args = some ci) :
    firstSubIdx (args.take (ci + 1) ++ r) = some ci := by
  have := firstSubIdxFrom_take _ args r 0 ci h
  simpa [firstSubIdx] using this

/-! ## `strip_profile_conflicts` -/

/-- specification of the stripping loop on the option segment (no `--` inside): a token is kept iff it is
    not conflicting; a conflicting split-form option (`--src-prefix X`) takes its value with it. -/
inductive Stripped (p : InternalGitProfile) : List Str → List Str → Prop
  | nil : Stripped p [] []
  | keep {a l l'} : shouldDrop p a = false → Stripped p l l' → Stripped p (a :: l) (a :: l')
  | drop {a l l'} : shouldDrop p a = true → isSplit p a = false → Stripped p l l' → Stripped p (a :: l) l'
  | dropSplit {a v l l'} : shouldDrop p a = true → isSplit p a = true → Stripped p l l' →
      Stripped p (a :: v :: l) l'
  | dropSplitLast {a} : shouldDrop p a = true → isSplit p a = true → Stripped p [a] []

theorem Stripped.sublist {p m k} (h : Stripped p m k) : k.Sublist m := by
  induction h with
  | nil => exact List.Sublist.slnil
  | keep _ _ ih => exact ih.cons₂ _
  | drop _ _ _ ih => exact ih.cons _
  | dropSplit _ _ _ ih => exact (ih.cons _).cons _
  | dropSplitLast _ _ => exact List.nil_sublist _

theorem Stripped.none_conflicting {p m k} (h : Stripped p m k) : ∀ a ∈ k, shouldDrop p a = false := by
  induction h with
  | nil => simp
  | keep ha _ ih => intro b hb; rcases List.mem_cons.1 hb with rfl | hb; exact ha; exact ih b hb
  | drop _ _ _ ih => exact ih
  | dropSplit _ _ _ ih => exact ih
  | dropSplitLast _ _ => simp

theorem stripTail_dd (p) (rest : List Str) : stripTail p (dd :: rest) = dd :: rest := by
  rw [stripTail.eq_def]; simp
theorem stripTail_keep (p) (a : Str) (rest : List Str) (h : a ≠ dd) (hk : shouldDrop p a = false) :
    stripTail p (a :: rest) = a :: stripTail p rest := by
  rw [stripTail.eq_def]; simp [h, hk]
theorem stripTail_drop (p) (a : Str) (rest : List Str) (h : a ≠ dd) (hk : shouldDrop p a = true)
    (hs : isSplit p a = false) : stripTail p (a :: rest) = stripTail p rest := by
  rw [stripTail.eq_def]; simp [h, hk, hs]
theorem stripTail_split_nil (p) (a : Str) (h : a ≠ dd) (hk : shouldDrop p a = true)
    (hs : isSplit p a = true) : stripTail p [a] = [] := by
  rw [stripTail.eq_def]; simp [h, hk, hs]
theorem stripTail_split_dd (p) (a : Str) (r : List Str) (h : a ≠ dd) (hk : shouldDrop p a = true)
    (hs : isSplit p a = true) : stripTail p (a :: dd :: r) = dd :: r := by
  rw [stripTail.eq_def]; simp [h, hk, hs]
theorem stripTail_split_cons (p) (a b : Str) (r : List Str) (h : a ≠ dd) (hk : shouldDrop p a = true)
    (hs : isSplit p a = true) (hb : b ≠ dd) : stripTail p (a :: b :: r) = stripTail p r := by
  rw [stripTail.eq_def]; simp [h, hk, hs, hb]

/-- the loop copies everything from the first `--` on, and works on the option segment before it -/
theorem stripTail_split (p : InternalGitProfile) (l : List Str) :
    stripTail p l = stripTail p (beforeDD l) ++ fromDD l := by
  fun_induction stripTail p l with
  | case1 => rfl
  | case2 rest =>
    simp [beforeDD, fromDD, stripTail_dd, stripTail.eq_def]
  | case3 a rest h hk ih =>
    have hk' : shouldDrop p a = false := by simpa using hk
    simp only [beforeDD, fromDD, h, if_false]
    rw [stripTail_keep p a _ h hk', ih]; rfl
  | case4 a h hk hs =>
    have hk' : shouldDrop p a = true := by simpa using hk
    simp only [beforeDD, fromDD, h, if_false]
    rw [stripTail_split_nil p a h hk' hs]; rfl
  | case5 a h hk hs rest' =>
    have hk' : shouldDrop p a = true := by simpa using hk
    simp only [beforeDD, fromDD, h, if_false, if_true]
    rw [stripTail_split_nil p a h hk' hs]; rfl
  | case6 a h hk hs b rest' hb ih =>
    have hk' : shouldDrop p a = true := by simpa using hk
    simp only [beforeDD, fromDD, h, hb, if_false]
    rw [stripTail_split_cons p a b _ h hk' hs hb, ih]
  | case7 a rest h hk hs ih =>
    have hk' : shouldDrop p a = true := by simpa using hk
    have hs' : isSplit p a = false := by simpa using hs
    simp only [beforeDD, fromDD, h, if_false]
    rw [stripTail_drop p a _ h hk' hs', ih]

theorem stripTail_stripped (p : InternalGitProfile) (m : List Str) (hm : dd ∉ m) :
    Stripped p m (stripTail p m) := by
  fun_induction stripTail p m with
  | case1 => exact .nil
  | case2 rest => simp at hm
  | case3 a rest h hk ih =>
    simp only [List.mem_cons, not_or] at hm
    exact .keep (by simpa using hk) (ih hm.2)
  | case4 a h hk hs => exact .dropSplitLast (by simpa using hk) hs
  | case5 a h hk hs rest' => simp at hm
  | case6 a h hk hs b rest' hb ih =>
    simp only [List.mem_cons, not_or] at hm
    exact .dropSplit (by simpa using hk) hs (ih hm.2.2)
  | case7 a rest h hk hs ih =>
    simp only [List.mem_cons, not_or] at hm
    exact .drop (by simpa using hk) (by simpa using hs) (ih hm.2)

theorem dd_not_mem_of_sublist {k m : List Str} (h : k.Sublist m) (hm : dd ∉ m) : dd ∉ k :=
  fun hk => hm (h.subset hk)

/-! ## `args_with_internal_git_profile` -/

theorem stripConflicts_eq (args : List Str) (p : InternalGitProfile) (ci : Nat)
    (hp : p ≠ .general) (h : firstSubIdx args = some ci) :
    stripConflicts args p = args.take (ci + 1) ++
      (stripTail p (beforeDD (args.drop (ci + 1))) ++ fromDD (args.drop (ci + 1))) := by
  unfold stripConflicts
  rw [if_neg hp, h]
  simp only
  rw [stripTail_split]

theorem dd_not_mem_stripTail (p : InternalGitProfile) (l : List Str) : dd ∉ stripTail p (beforeDD l) :=
  dd_not_mem_of_sublist (stripTail_stripped p _ (dd_not_mem_beforeDD l)).sublist (dd_not_mem_beforeDD l)

/-- closed form of the rewriting when a sub-command is found -/
theorem rewrite_eq (args : List Str) (p : InternalGitProfile) (ci : Nat)
    (hp : p ≠ .general) (h : firstSubIdx args = some ci) :
    rewrite args p = args.take (ci + 1) ++
      (((ProfileTables.options p).filter
          (fun o => !(stripTail p (beforeDD (args.drop (ci + 1)))).contains o)
        ++ stripTail p (beforeDD (args.drop (ci + 1)))) ++ fromDD (args.drop (ci + 1))) := by
  have hlt := firstSubIdx_lt args ci h
  have hlen : (args.take (ci + 1)).length = ci + 1 := by simp; omega
  unfold rewrite
  rw [if_neg hp]
  simp only
  rw [stripConflicts_eq args p ci hp h, firstSubIdx_take_append args _ ci h]
  simp only
  have htake : ∀ X : List Str, (args.take (ci + 1) ++ X).take (ci + 1) = args.take (ci + 1) := by
    intro X; rw [List.take_append_of_le_length (by omega)]; simp [List.take_take]
  have hdrop : ∀ X : List Str, (args.take (ci + 1) ++ X).drop (ci + 1) = X := by
    intro X
    have := List.drop_append_of_le_length (l₁ := args.take (ci + 1)) (l₂ := X) (i := ci + 1) (by omega)
    rw [this, List.drop_of_length_le (by omega)]; rfl
  rw [htake, hdrop, beforeDD_append _ _ (dd_not_mem_stripTail p _) (startsDD_fromDD _)]
  split
  · rename_i he
    have : ProfileTables.options p = [] := by simpa using he
    simp [this]
  · simp [List.append_assoc]

theorem count_filter_not_mem (opts kept : List Str) (o : Str) (ho : o ∈ opts) (hn : opts.Nodup) :
    ((opts.filter (fun x => !kept.contains x)) ++ kept).count o = max 1 (kept.count o) := by
  rw [List.count_append]
  by_cases hk : o ∈ kept
  · have : (opts.filter (fun x => !kept.contains x)).count o = 0 := by
      apply List.count_eq_zero.2
      simp [hk]
    have hpos : 0 < kept.count o := List.count_pos_iff.2 hk
    omega
  · have h1 : (opts.filter (fun x => !kept.contains x)).count o = 1 := by
      have hmem : o ∈ opts.filter (fun x => !kept.contains x) := by simp [ho, hk]
      have hnd : (opts.filter (fun x => !kept.contains x)).Nodup := hn.filter _
      have h1 := List.nodup_iff_count.1 hnd o
      have h2 := List.count_pos_iff.2 hmem
      omega
    have : kept.count o = 0 := List.count_eq_zero.2 hk
    omega

end GitAi.Profile
