/-
  Lemmas/Profile.lean — helper lemmas for Props/C12.lean (profile rewriting, `--` splitting,
  UTF-8 and C-style quoting round trips, base-dir resolution).
-/
import GitAiModel.Model.Profile
namespace GitAi.Profile
open GitAi

/-! ## `--` splitting -/

theorem beforeDD_append_fromDD (l : List Str) : beforeDD l ++ fromDD l = l := by
  induction l with
  | nil => rfl
  | cons a t ih =>
    unfold beforeDD fromDD
    by_cases h : a = dd <;> simp [h, ih]

theorem dd_not_mem_beforeDD (l : List Str) : dd ∉ beforeDD l := by
  induction l with
  | nil => simp [beforeDD]
  | cons a t ih =>
    unfold beforeDD
    by_cases h : a = dd
    · simp [h]
    · simp only [h, if_false, List.mem_cons, not_or]
      exact ⟨fun e => h e.symm, ih⟩

/-- a list is "a tail from `--` on" when it is empty or starts with `--` -/
def StartsDD (t : List Str) : Prop := t = [] ∨ t.head? = some dd

theorem startsDD_fromDD (l : List Str) : StartsDD (fromDD l) := by
  induction l with
  | nil => exact Or.inl rfl
  | cons a t ih =>
    unfold fromDD
    by_cases h : a = dd
    · simp [h, StartsDD]
    · simpa [h] using ih

theorem beforeDD_append (m t : List Str) (hm : dd ∉ m) (ht : StartsDD t) : beforeDD (m ++ t) = m := by
  induction m with
  | nil =>
    rcases ht with rfl | ht
    · rfl
    · cases t with
      | nil => rfl
      | cons a t' =>
        simp only [List.head?_cons, Option.some.injEq] at ht
        simp [beforeDD, ht]
  | cons a m ih =>
    simp only [List.mem_cons, not_or] at hm
    have : a ≠ dd := fun e => hm.1 e.symm
    simp [beforeDD, this, ih hm.2]

theorem fromDD_append (m t : List Str) (hm : dd ∉ m) (ht : StartsDD t) : fromDD (m ++ t) = t := by
  induction m with
  | nil =>
    rcases ht with rfl | ht
    · rfl
    · cases t with
      | nil => rfl
      | cons a t' =>
        simp only [List.head?_cons, Option.some.injEq] at ht
        simp [fromDD, ht]
  | cons a m ih =>
    simp only [List.mem_cons, not_or] at hm
    have : a ≠ dd := fun e => hm.1 e.symm
    simp [fromDD, this, ih hm.2]

/-! ## `first_git_subcommand_index` -/

theorem firstSubIdxFrom_bounds (vo : List Str) (l : List Str) (i j : Nat)
    (h : firstSubIdxFrom vo l i = some j) : i ≤ j ∧ j < i + l.length := by
  fun_induction firstSubIdxFrom vo l i with
  | case1 => simp at h
  | case2 a rest i hd =>
    simp only [Option.some.injEq] at h
    subst h
    simp
  | case3 => simp at h
  | case4 a i hd hv x rest' ih =>
    have := ih h
    simp only [List.length_cons]
    omega
  | case5 a rest i hd hv ih =>
    have := ih h
    simp only [List.length_cons]
    omega

/-- the answer only depends on the tokens up to and including the sub-command -/
theorem firstSubIdxFrom_take (vo : List Str) (l r : List Str) (i j : Nat)
    (h : firstSubIdxFrom vo l i = some j) :
    firstSubIdxFrom vo (l.take (j - i + 1) ++ r) i = some j := by
  fun_induction firstSubIdxFrom vo l i with
  | case1 => simp at h
  | case2 a rest i hd =>
    simp only [Option.some.injEq] at h
    subst h
    simp only [Nat.sub_self, Nat.zero_add, List.take_succ_cons, List.take_zero, List.cons_append, List.nil_append]
    unfold firstSubIdxFrom
    rw [if_pos hd]
  | case3 => simp at h
  | case4 a i hd hv x rest' ih =>
    have hb := firstSubIdxFrom_bounds _ _ _ _ h
    have := ih h
    have e : j - i + 1 = (j - (i + 2) + 1) + 2 := by omega
    rw [e]
    simp only [List.take_succ_cons, List.cons_append]
    unfold firstSubIdxFrom
    rw [if_neg hd, if_pos hv]
    exact this
  | case5 a rest i hd hv ih =>
    have hb := firstSubIdxFrom_bounds _ _ _ _ h
    have := ih h
    have e : j - i + 1 = (j - (i + 1) + 1) + 1 := by omega
    rw [e]
    simp only [List.take_succ_cons, List.cons_append]
    unfold firstSubIdxFrom
    rw [if_neg hd, if_neg hv]
    exact this

theorem firstSubIdx_lt (args : List Str) (ci : Nat) (h : firstSubIdx args = some ci) : ci < args.length := by
  have := firstSubIdxFrom_bounds _ _ _ _ h
  omega

theorem firstSubIdx_take_append (args r : List Str) (ci : Nat) (h : firstSubIdx args = some ci) :
    firstSubIdx (args.take (ci + 1) ++ r) = some ci := by
  have := firstSubIdxFrom_take _ args r 0 ci h
  simpa [firstSubIdx] using this

/-! ## `strip_profile_conflicts` -/

/-- specification of the stripping loop on the option segment (no `--` inside): a token is kept iff it is
    not conflicting; a conflicting split-form option (`--src-prefix X`) takes its value with it. -/
inductive Stripped (p : InternalGitProfile) : List Str → List Str → Prop
  | nil : Stripped p [] []
  | keep {a l l'} : shouldDrop p a = false → Stripped p l l' → Stripped p (a :: l) (a :: l')
  | drop {a l l'} : shouldDrop p a = true → isSplit p a = false → Stripped p l l' → Stripped p (a :: l) l'
  | dropSplit {a v l l'} : shouldDrop p a = true → isSplit p a = true → Stripped p l l' →
      Stripped p (a :: v :: l) l'
  | dropSplitLast {a} : shouldDrop p a = true → isSplit p a = true → Stripped p [a] []

theorem Stripped.sublist {p m k} (h : Stripped p m k) : k.Sublist m := by
  induction h with
  | nil => exact List.Sublist.slnil
  | keep _ _ ih => exact ih.cons₂ _
  | drop _ _ _ ih => exact ih.cons _
  | dropSplit _ _ _ ih => exact (ih.cons _).cons _
  | dropSplitLast _ _ => exact List.nil_sublist _

theorem Stripped.none_conflicting {p m k} (h : Stripped p m k) : ∀ a ∈ k, shouldDrop p a = false := by
  induction h with
  | nil => simp
  | keep ha _ ih => intro b hb; rcases List.mem_cons.1 hb with rfl | hb; exact ha; exact ih b hb
  | drop _ _ _ ih => exact ih
  | dropSplit _ _ _ ih => exact ih
  | dropSplitLast _ _ => simp

theorem stripTail_dd (p) (rest : List Str) : stripTail p (dd :: rest) = dd :: rest := by
  rw [stripTail.eq_def]; simp
theorem stripTail_keep (p) (a : Str) (rest : List Str) (h : a ≠ dd) (hk : shouldDrop p a = false) :
    stripTail p (a :: rest) = a :: stripTail p rest := by
  rw [stripTail.eq_def]; simp [h, hk]
theorem stripTail_drop (p) (a : Str) (rest : List Str) (h : a ≠ dd) (hk : shouldDrop p a = true)
    (hs : isSplit p a = false) : stripTail p (a :: rest) = stripTail p rest := by
  rw [stripTail.eq_def]; simp [h, hk, hs]
theorem stripTail_split_nil (p) (a : Str) (h : a ≠ dd) (hk : shouldDrop p a = true)
    (hs : isSplit p a = true) : stripTail p [a] = [] := by
  rw [stripTail.eq_def]; simp [h, hk, hs]
theorem stripTail_split_dd (p) (a : Str) (r : List Str) (h : a ≠ dd) (hk : shouldDrop p a = true)
    (hs : isSplit p a = true) : stripTail p (a :: dd :: r) = dd :: r := by
  rw [stripTail.eq_def]; simp [h, hk, hs]
theorem stripTail_split_cons (p) (a b : Str) (r : List Str) (h : a ≠ dd) (hk : shouldDrop p a = true)
    (hs : isSplit p a = true) (hb : b ≠ dd) : stripTail p (a :: b :: r) = stripTail p r := by
  rw [stripTail.eq_def]; simp [h, hk, hs, hb]

/-- the loop copies everything from the first `--` on, and works on the option segment before it -/
theorem stripTail_split (p : InternalGitProfile) (l : List Str) :
    stripTail p l = stripTail p (beforeDD l) ++ fromDD l := by
  fun_induction stripTail p l with
  | case1 => rfl
  | case2 rest =>
    simp [beforeDD, fromDD, stripTail_dd, stripTail.eq_def]
  | case3 a rest h hk ih =>
    have hk' : shouldDrop p a = false := by simpa using hk
    simp only [beforeDD, fromDD, h, if_false]
    rw [stripTail_keep p a _ h hk', ih]; rfl
  | case4 a h hk hs =>
    have hk' : shouldDrop p a = true := by simpa using hk
    simp only [beforeDD, fromDD, h, if_false]
    rw [stripTail_split_nil p a h hk' hs]; rfl
  | case5 a h hk hs rest' =>
    have hk' : shouldDrop p a = true := by simpa using hk
    simp only [beforeDD, fromDD, h, if_false, if_true]
    rw [stripTail_split_nil p a h hk' hs]; rfl
  | case6 a h hk hs b rest' hb ih =>
    have hk' : shouldDrop p a = true := by simpa using hk
    simp only [beforeDD, fromDD, h, hb, if_false]
    rw [stripTail_split_cons p a b _ h hk' hs hb, ih]
  | case7 a rest h hk hs ih =>
    have hk' : shouldDrop p a = true := by simpa using hk
    have hs' : isSplit p a = false := by simpa using hs
    simp only [beforeDD, fromDD, h, if_false]
    rw [stripTail_drop p a _ h hk' hs', ih]

theorem stripTail_stripped (p : InternalGitProfile) (m : List Str) (hm : dd ∉ m) :
    Stripped p m (stripTail p m) := by
  fun_induction stripTail p m with
  | case1 => exact .nil
  | case2 rest => simp at hm
  | case3 a rest h hk ih =>
    simp only [List.mem_cons, not_or] at hm
    exact .keep (by simpa using hk) (ih hm.2)
  | case4 a h hk hs => exact .dropSplitLast (by simpa using hk) hs
  | case5 a h hk hs rest' => simp at hm
  | case6 a h hk hs b rest' hb ih =>
    simp only [List.mem_cons, not_or] at hm
    exact .dropSplit (by simpa using hk) hs (ih hm.2.2)
  | case7 a rest h hk hs ih =>
    simp only [List.mem_cons, not_or] at hm
    exact .drop (by simpa using hk) (by simpa using hs) (ih hm.2)

theorem dd_not_mem_of_sublist {k m : List Str} (h : k.Sublist m) (hm : dd ∉ m) : dd ∉ k :=
  fun hk => hm (h.subset hk)

/-! ## `args_with_internal_git_profile` -/

theorem stripConflicts_eq (args : List Str) (p : InternalGitProfile) (ci : Nat)
    (hp : p ≠ .general) (h : firstSubIdx args = some ci) :
    stripConflicts args p = args.take (ci + 1) ++
      (stripTail p (beforeDD (args.drop (ci + 1))) ++ fromDD (args.drop (ci + 1))) := by
  unfold stripConflicts
  rw [if_neg hp, h]
  simp only
  rw [stripTail_split]

theorem dd_not_mem_stripTail (p : InternalGitProfile) (l : List Str) : dd ∉ stripTail p (beforeDD l) :=
  dd_not_mem_of_sublist (stripTail_stripped p _ (dd_not_mem_beforeDD l)).sublist (dd_not_mem_beforeDD l)

/-- closed form of the rewriting when a sub-command is found -/
theorem rewrite_eq (args : List Str) (p : InternalGitProfile) (ci : Nat)
    (hp : p ≠ .general) (h : firstSubIdx args = some ci) :
    rewrite args p = args.take (ci + 1) ++
      (((ProfileTables.options p).filter
          (fun o => !(stripTail p (beforeDD (args.drop (ci + 1)))).contains o)
        ++ stripTail p (beforeDD (args.drop (ci + 1)))) ++ fromDD (args.drop (ci + 1))) := by
  have hlt := firstSubIdx_lt args ci h
  have hlen : (args.take (ci + 1)).length = ci + 1 := by simp; omega
  unfold rewrite
  rw [if_neg hp]
  simp only
  rw [stripConflicts_eq args p ci hp h, firstSubIdx_take_append args _ ci h]
  simp only
  have htake : ∀ X : List Str, (args.take (ci + 1) ++ X).take (ci + 1) = args.take (ci + 1) := by
    intro X; rw [List.take_append_of_le_length (by omega)]; simp [List.take_take]
  have hdrop : ∀ X : List Str, (args.take (ci + 1) ++ X).drop (ci + 1) = X := by
    intro X
    have := List.drop_append_of_le_length (l₁ := args.take (ci + 1)) (l₂ := X) (i := ci + 1) (by omega)
    rw [this, List.drop_of_length_le (by omega)]; rfl
  rw [htake, hdrop, beforeDD_append _ _ (dd_not_mem_stripTail p _) (startsDD_fromDD _)]
  split
  · rename_i he
    have : ProfileTables.options p = [] := by simpa using he
    simp [this]
  · simp [List.append_assoc]

theorem count_filter_not_mem (opts kept : List Str) (o : Str) (ho : o ∈ opts) (hn : opts.Nodup) :
    ((opts.filter (fun x => !kept.contains x)) ++ kept).count o = max 1 (kept.count o) := by
  rw [List.count_append]
  by_cases hk : o ∈ kept
  · have : (opts.filter (fun x => !kept.contains x)).count o = 0 := by
      apply List.count_eq_zero.2
      simp [hk]
    have hpos : 0 < kept.count o := List.count_pos_iff.2 hk
    omega
  · have h1 : (opts.filter (fun x => !kept.contains x)).count o = 1 := by
      have hmem : o ∈ opts.filter (fun x => !kept.contains x) := by simp [ho, hk]
      have hnd : (opts.filter (fun x => !kept.contains x)).Nodup := hn.filter _
      have h1 := List.nodup_iff_count.1 hnd o
      have h2 := List.count_pos_iff.2 hmem
      omega
    have : kept.count o = 0 := List.count_eq_zero.2 hk
    omega

/-! ## UTF-8 round trip -/

theorem char_range (c : Char) : c.toNat < 0xD800 ∨ (0xDFFF < c.toNat ∧ c.toNat < 0x110000) := c.valid

theorem decRun_cons (st : DSt) (b : Nat) (t : List Nat) :
    decRun st (b :: t) = (feedByte st b).1 ++ decRun (feedByte st b).2 t := rfl

theorem dec1 (b0 : Nat) (rest : List Nat) (h0 : b0 < 0x80) :
    decRun .idle (b0 :: rest) = Char.ofNat b0 :: decRun .idle rest := by
  simp [decRun_cons, feedByte, DSt.idle, startByte, h0]

theorem dec2 (b0 b1 : Nat) (rest : List Nat) (h0 : 0xC2 ≤ b0 ∧ b0 ≤ 0xDF) (h1 : 0x80 ≤ b1 ∧ b1 ≤ 0xBF) :
    decRun .idle (b0 :: b1 :: rest) = Char.ofNat ((b0 - 0xC0) * 64 + (b1 - 0x80)) :: decRun .idle rest := by
  have a1 : ¬ b0 < 0x80 := by omega
  simp [decRun_cons, feedByte, DSt.idle, startByte, a1, h0, h1]

theorem dec3 (b0 b1 b2 : Nat) (rest : List Nat) (h0 : 0xE0 ≤ b0 ∧ b0 ≤ 0xEF)
    (h1 : 0x80 ≤ b1 ∧ b1 ≤ 0xBF) (hE0 : b0 = 0xE0 → 0xA0 ≤ b1) (hED : b0 = 0xED → b1 ≤ 0x9F)
    (h2 : 0x80 ≤ b2 ∧ b2 ≤ 0xBF) :
    decRun .idle (b0 :: b1 :: b2 :: rest)
      = Char.ofNat ((b0 - 0xE0) * 4096 + (b1 - 0x80) * 64 + (b2 - 0x80)) :: decRun .idle rest := by
  have a1 : ¬ b0 < 0x80 := by omega
  have a2 : ¬ (0xC2 ≤ b0 ∧ b0 ≤ 0xDF) := by omega
  by_cases c1 : b0 = 0xE0
  · have := hE0 c1
    subst c1
    have r : 0xA0 ≤ b1 ∧ b1 ≤ 0xBF := by omega
    simp [decRun_cons, feedByte, DSt.idle, startByte, r, h2] <;> (refine congrArg Char.ofNat ?_; omega)
  · by_cases c2 : b0 = 0xED
    · have := hED c2
      subst c2
      have r : 0x80 ≤ b1 ∧ b1 ≤ 0x9F := by omega
      simp [decRun_cons, feedByte, DSt.idle, startByte, r, h2] <;> (refine congrArg Char.ofNat ?_; omega)
    · have r : 0xE1 ≤ b0 ∧ b0 ≤ 0xEF := by omega
      simp [decRun_cons, feedByte, DSt.idle, startByte, a1, a2, c1, c2, r, h1, h2] <;> (refine congrArg Char.ofNat ?_; omega)

theorem dec4 (b0 b1 b2 b3 : Nat) (rest : List Nat) (h0 : 0xF0 ≤ b0 ∧ b0 ≤ 0xF4)
    (h1 : 0x80 ≤ b1 ∧ b1 ≤ 0xBF) (hF0 : b0 = 0xF0 → 0x90 ≤ b1) (hF4 : b0 = 0xF4 → b1 ≤ 0x8F)
    (h2 : 0x80 ≤ b2 ∧ b2 ≤ 0xBF) (h3 : 0x80 ≤ b3 ∧ b3 ≤ 0xBF) :
    decRun .idle (b0 :: b1 :: b2 :: b3 :: rest)
      = Char.ofNat ((b0 - 0xF0) * 262144 + (b1 - 0x80) * 4096 + (b2 - 0x80) * 64 + (b3 - 0x80))
          :: decRun .idle rest := by
  have a1 : ¬ b0 < 0x80 := by omega
  have a2 : ¬ (0xC2 ≤ b0 ∧ b0 ≤ 0xDF) := by omega
  have a3 : ¬ (0xE1 ≤ b0 ∧ b0 ≤ 0xEF) := by omega
  have a4 : ¬ b0 = 0xE0 := by omega
  have a5 : ¬ b0 = 0xED := by omega
  by_cases c1 : b0 = 0xF0
  · have := hF0 c1
    subst c1
    have r : 0x90 ≤ b1 ∧ b1 ≤ 0xBF := by omega
    simp [decRun_cons, feedByte, DSt.idle, startByte, r, h2, h3] <;> (refine congrArg Char.ofNat ?_; omega)
  · by_cases c2 : b0 = 0xF4
    · have := hF4 c2
      subst c2
      have r : 0x80 ≤ b1 ∧ b1 ≤ 0x8F := by omega
      simp [decRun_cons, feedByte, DSt.idle, startByte, r, h2, h3] <;> (refine congrArg Char.ofNat ?_; omega)
    · have r : 0xF1 ≤ b0 ∧ b0 ≤ 0xF3 := by omega
      simp [decRun_cons, feedByte, DSt.idle, startByte, a1, a2, a3, a4, a5, c1, c2, r, h1, h2, h3] <;> (refine congrArg Char.ofNat ?_; omega)

theorem decRun_enc (c : Char) (rest : List Nat) :
    decRun .idle (utf8Enc c ++ rest) = c :: decRun .idle rest := by
  have hv := char_range c
  have hc := Char.ofNat_toNat c
  generalize hn : c.toNat = n at hv hc
  have e : ∀ m, m = n → Char.ofNat m = c := fun m h => h ▸ hc
  unfold utf8Enc
  rw [hn]
  simp only
  by_cases h1 : n < 0x80
  · rw [if_pos h1]
    simp only [List.cons_append, List.nil_append]
    rw [dec1 _ _ h1, hc]
  · rw [if_neg h1]
    by_cases h2 : n < 0x800
    · rw [if_pos h2]
      simp only [List.cons_append, List.nil_append]
      rw [dec2 _ _ _ (by omega) (by omega), e _ (by omega)]
    · rw [if_neg h2]
      by_cases h3 : n < 0x10000
      · rw [if_pos h3]
        simp only [List.cons_append, List.nil_append]
        rw [dec3 _ _ _ _ (by omega) (by omega) (by omega) (by omega) (by omega), e _ (by omega)]
      · rw [if_neg h3]
        simp only [List.cons_append, List.nil_append]
        rw [dec4 _ _ _ _ _ (by omega) (by omega) (by omega) (by omega) (by omega) (by omega), e _ (by omega)]

theorem decRun_encAll (p : Str) : decRun .idle (utf8EncAll p) = p := by
  induction p with
  | nil => rfl
  | cons c cs ih => rw [utf8EncAll, decRun_enc, ih]


/-! ## `unescape_git_path` against git's quoting -/

theorem runU_cons (st : USt) (c : Char) (t : Str) :
    runU st (c :: t) = (stepU st c).1 ++ runU (stepU st c).2 t := rfl

theorem runU_plain (c : Char) (rest : Str) (h : c ≠ '\\') :
    runU .normal (c :: rest) = utf8Enc c ++ runU .normal rest := by
  simp [runU_cons, stepU, stepNormal, h]

theorem runU_letter (d : Char) (b : Nat) (rest : Str) (h : letterEscape d = some b) :
    runU .normal ('\\' :: d :: rest) = b :: runU .normal rest := by
  simp [runU_cons, stepU, stepNormal, h]

theorem octVal_octDigit (d : Nat) (h : d < 8) : octVal (octDigit d) = some d := by
  have : d = 0 ∨ d = 1 ∨ d = 2 ∨ d = 3 ∨ d = 4 ∨ d = 5 ∨ d = 6 ∨ d = 7 := by omega
  rcases this with rfl | rfl | rfl | rfl | rfl | rfl | rfl | rfl <;> decide

theorem letterEscape_octDigit (d : Nat) : letterEscape (octDigit d) = none := by
  unfold octDigit
  split <;> decide

theorem isDigit_octDigit (d : Nat) : isDigit (octDigit d) = true := by
  unfold octDigit
  split <;> decide

theorem runU_oct3 (v : Nat) (rest : Str) :
    runU (.oct 3 v) rest = octByte v ++ runU .normal rest := by
  cases rest with
  | nil => simp [runU, finishU]
  | cons c t => simp [runU_cons, stepU, runU_plain, List.append_assoc]

theorem runU_octal (b : Nat) (rest : Str) (hb : b ≤ 255) :
    runU .normal ('\\' :: (octal3 b ++ rest)) = b :: runU .normal rest := by
  have h1 : b / 64 < 8 := by omega
  have h2 : b / 8 % 8 < 8 := by omega
  have h3 : b % 8 < 8 := by omega
  have hv : (b / 64 * 8 + b / 8 % 8) * 8 + b % 8 = b := by omega
  simp only [octal3, List.cons_append, List.nil_append]
  rw [runU_cons]
  simp only [stepU, stepNormal, if_true, List.nil_append]
  rw [runU_cons]
  simp only [stepU, letterEscape_octDigit, isDigit_octDigit, octVal_octDigit _ h1, if_true, List.nil_append]
  rw [runU_cons]
  simp only [stepU, show (1 : Nat) < 3 by omega, if_true, octVal_octDigit _ h2, List.nil_append]
  rw [runU_cons]
  simp only [stepU, show (1 + 1 : Nat) < 3 by omega, if_true, octVal_octDigit _ h3, List.nil_append]
  rw [runU_oct3, hv]
  simp [octByte, hb]


theorem runU_octals (bs : List Nat) (rest : Str) (hb : ∀ b ∈ bs, b ≤ 255) :
    runU .normal (bs.flatMap (fun b => '\\' :: octal3 b) ++ rest) = bs ++ runU .normal rest := by
  induction bs with
  | nil => rfl
  | cons b t ih =>
    simp only [List.flatMap_cons, List.append_assoc, List.cons_append]
    rw [runU_octal b _ (hb b (by simp)), ih (fun x hx => hb x (by simp [hx]))]

theorem utf8Enc_le (c : Char) : ∀ b ∈ utf8Enc c, b ≤ 255 := by
  have hv := char_range c
  unfold utf8Enc
  intro b hb
  simp only at hb
  split at hb
  · simp at hb; omega
  · split at hb
    · simp at hb; omega
    · split at hb
      · simp at hb; omega
      · simp at hb; omega

theorem utf8Enc_ascii (c : Char) (h : c.toNat < 0x80) : utf8Enc c = [c.toNat] := by
  simp [utf8Enc, h]

theorem char_eq_of_toNat (c : Char) (n : Nat) (h : c.toNat = n) : c = Char.ofNat n := by
  rw [← h, Char.ofNat_toNat]

theorem runU_quoteChar (qp : Bool) (c : Char) (rest : Str) :
    runU .normal (quoteChar qp c ++ rest) = utf8Enc c ++ runU .normal rest := by
  unfold quoteChar
  simp only
  split
  · rename_i h; rw [utf8Enc_ascii c (by omega), h]; exact runU_letter _ _ _ (by decide)
  split
  · rename_i h; rw [utf8Enc_ascii c (by omega), h]; exact runU_letter _ _ _ (by decide)
  split
  · rename_i h; rw [utf8Enc_ascii c (by omega), h]; exact runU_letter _ _ _ (by decide)
  split
  · rename_i h; rw [utf8Enc_ascii c (by omega), h]; exact runU_letter _ _ _ (by decide)
  split
  · rename_i h; rw [utf8Enc_ascii c (by omega), h]; exact runU_letter _ _ _ (by decide)
  split
  · rename_i h; rw [utf8Enc_ascii c (by omega), h]; exact runU_letter _ _ _ (by decide)
  split
  · rename_i h; rw [utf8Enc_ascii c (by omega), h]; exact runU_letter _ _ _ (by decide)
  split
  · rename_i h; subst h; exact runU_letter _ _ _ (by decide)
  split
  · rename_i h; subst h; exact runU_letter _ _ _ (by decide)
  split
  · rename_i h
    have hlt : c.toNat < 0x80 := by
      simp only [Bool.or_eq_true, decide_eq_true_eq] at h; omega
    rw [utf8Enc_ascii c hlt]
    simp only [List.cons_append]
    exact runU_octal _ _ (by omega)
  split
  · exact runU_octals _ _ (utf8Enc_le c)
  · rename_i h1 h2 h3 h4 h5 h6 h7 h8 h9 h10 h11
    exact runU_plain c rest h9

theorem unescBody_quoteBody (qp : Bool) (p : Str) : unescBody (quoteBody qp p) = utf8EncAll p := by
  unfold unescBody
  induction p with
  | nil => rfl
  | cons c cs ih => rw [quoteBody, runU_quoteChar, ih, utf8EncAll]


theorem getLast?_append_singleton (l : Str) (c : Char) : (l ++ [c]).getLast? = some c := by
  simp

theorem unescape_gitQuote (qp : Bool) (p : Str) : unescape (gitQuote qp p) = p := by
  unfold gitQuote
  split
  · -- quoted
    unfold unescape
    have h1 : ¬ ((('"' :: quoteBody qp p ++ ['"']).length < 2) = true) := by
      simp
    have hh : ('"' :: quoteBody qp p ++ ['"']).head? = some '"' := rfl
    have hl : ('"' :: quoteBody qp p ++ ['"']).getLast? = some '"' := by
      exact getLast?_append_singleton _ _
    simp only [hh, hl, ne_eq, not_true_eq_false, decide_false, Bool.or_false]
    rw [if_neg (by simpa using h1)]
    have : ('"' :: quoteBody qp p ++ ['"']).tail.dropLast = quoteBody qp p := by
      simp [List.dropLast_concat]
    rw [this, unescBody_quoteBody]
    exact decRun_encAll p
  · -- nothing to escape: the path does not start with a quote
    rename_i hany
    unfold unescape
    have hq : p.head? ≠ some '"' := by
      intro hp
      cases p with
      | nil => simp at hp
      | cons c cs =>
        simp only [List.head?_cons, Option.some.injEq] at hp
        subst hp
        exact hany (by simp [needsEscape])
    simp [hq]

/-! ## `resolve_command_base_dir` -/

theorem resolveBaseDir_append (cwd b : Str) (g1 g2 : List Str) (h : resolveBaseDir cwd g1 = .ok b) :
    resolveBaseDir cwd (g1 ++ g2) = resolveBaseDir b g2 := by
  fun_induction resolveBaseDir cwd g1 with
  | case1 cwd => simp only [Except.ok.injEq] at h; subst h; rfl
  | case2 cwd => simp at h
  | case3 cwd p rest' ih =>
    simp only [List.cons_append]
    rw [resolveBaseDir.eq_def]
    simp only [if_true]
    exact ih h
  | case4 cwd a rest hne ih =>
    simp only [List.cons_append]
    rw [resolveBaseDir.eq_def]
    simp only [hne, if_false]
    exact ih h

end GitAi.Profile
