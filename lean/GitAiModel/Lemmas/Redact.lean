/-
  Lemmas/Redact.lean — specification-level view of `redact_secrets_in_text` and the proof that
  the index/slice model (`Model/Redact.lean`) refines it without ever reaching a panic.

    spec      : run-based rewriting of a text (no indices)
    runsOf    : maximal secret-character runs of a text
    pipe      : select + rebuild fused (proof device)
-/
import GitAiModel.Model.Redact
import GitAiModel.Lemmas.RedactJson
namespace GitAi.Redact
open GitAi

/-! ## byte offsets -/

theorem utf8Len_pos (c : Char) : 1 ≤ utf8Len c := by
  unfold utf8Len; repeat' split
  all_goals omega

theorem byteLen_append (a b : Str) : byteLen (a ++ b) = byteLen a + byteLen b := by
  induction a with
  | nil => simp [byteLen]
  | cons c cs ih => simp [byteLen, ih]; omega

@[simp] theorem dropBytes_zero (s : Str) : dropBytes s 0 = some s := by
  cases s <;> rfl

@[simp] theorem takeBytes_zero (s : Str) : takeBytes s 0 = some [] := by
  cases s <;> rfl

theorem dropBytes_append (p q : Str) : dropBytes (p ++ q) (byteLen p) = some q := by
  induction p with
  | nil => simp [byteLen]
  | cons c cs ih =>
    have h := utf8Len_pos c
    obtain ⟨n, hn⟩ : ∃ n, utf8Len c + byteLen cs = n + 1 := ⟨utf8Len c + byteLen cs - 1, by omega⟩
    simp only [List.cons_append, byteLen, hn, dropBytes]
    rw [if_pos (by omega)]
    have : n + 1 - utf8Len c = byteLen cs := by omega
    rw [this, ih]

theorem takeBytes_append (p q : Str) : takeBytes (p ++ q) (byteLen p) = some p := by
  induction p with
  | nil => simp [byteLen]
  | cons c cs ih =>
    have h := utf8Len_pos c
    obtain ⟨n, hn⟩ : ∃ n, utf8Len c + byteLen cs = n + 1 := ⟨utf8Len c + byteLen cs - 1, by omega⟩
    simp only [List.cons_append, byteLen, hn, takeBytes]
    rw [if_pos (by omega)]
    have : n + 1 - utf8Len c = byteLen cs := by omega
    rw [this, ih]; rfl

/-- a slice whose ends are the byte lengths of prefixes is always on char boundaries -/
theorem strSlice_mid (a m r : Str) :
    strSlice (a ++ m ++ r) (byteLen a) (byteLen a + byteLen m) = some m := by
  unfold strSlice
  rw [if_pos (by omega), List.append_assoc, dropBytes_append]
  simp only [Option.bind_some]
  have : byteLen a + byteLen m - byteLen a = byteLen m := by omega
  rw [this, takeBytes_append]

/-! ## secret characters are one byte wide -/

def allSecret (s : Str) : Bool := s.all isSecretChar

theorem isSecretChar_ascii (c : Char) (h : isSecretChar c = true) : utf8Len c = 1 := by
  have : c.toNat < 0x80 := by
    simp only [isSecretChar, isAsciiAlnum, Bool.or_eq_true, Bool.and_eq_true, decide_eq_true_eq,
      beq_iff_eq] at h
    rcases h with (((((h | h) | h) | h) | h) | h) | h
    · omega
    all_goals (subst h; decide)
  simp [utf8Len, this]

theorem byteLen_allSecret (s : Str) (h : allSecret s = true) : byteLen s = s.length := by
  induction s with
  | nil => rfl
  | cons c cs ih =>
    simp only [allSecret, List.all_cons, Bool.and_eq_true] at h
    simp only [byteLen, List.length_cons, isSecretChar_ascii c h.1]
    rw [ih (by simpa [allSecret] using h.2)]; omega

theorem allSecret_append (a b : Str) : allSecret (a ++ b) = (allSecret a && allSecret b) := by
  simp [allSecret]

theorem allSecret_take (s : Str) (n : Nat) (h : allSecret s = true) : allSecret (s.take n) = true := by
  simp only [allSecret, List.all_eq_true] at h ⊢
  intro x hx; exact h x (List.mem_of_mem_take hx)

theorem allSecret_drop (s : Str) (n : Nat) (h : allSecret s = true) : allSecret (s.drop n) = true := by
  simp only [allSecret, List.all_eq_true] at h ⊢
  intro x hx; exact h x (List.mem_of_mem_drop hx)

/-! ## the mask -/

theorem inWindow_zero : inWindow 0 = false := by decide

theorem inWindow_long (n : Nat) (h : inWindow n = true) : visibleChars * 2 < n := by
  simp only [inWindow, minSecretLen, maxSecretLen, Bool.and_eq_true] at h
  have := of_decide_eq_true h.1
  simp only [visibleChars]; omega


/-- what `redact_secret` returns on a long token: 4 visible, eight stars, 4 visible -/
def mask (r : Str) : Str := r.take visibleChars ++ stars 8 ++ r.drop (r.length - visibleChars)

theorem redactSecret_run (r : Str) (hs : allSecret r = true) (hl : visibleChars * 2 < r.length) :
    redactSecret r = some (mask r) := by
  have hb := byteLen_allSecret r hs
  have hv : visibleChars = 4 := rfl
  unfold redactSecret
  simp only [hb]
  rw [if_neg (by omega)]
  have h1 : strSlice r 0 visibleChars = some (r.take visibleChars) := by
    have := strSlice_mid [] (r.take visibleChars) (r.drop visibleChars)
    simp only [List.nil_append, List.take_append_drop, byteLen, Nat.zero_add] at this
    rw [byteLen_allSecret _ (allSecret_take r _ hs), List.length_take, Nat.min_eq_left (by omega)] at this
    exact this
  have h2 : strSlice r (r.length - visibleChars) r.length = some (r.drop (r.length - visibleChars)) := by
    have := strSlice_mid (r.take (r.length - visibleChars)) (r.drop (r.length - visibleChars)) []
    simp only [List.append_nil, List.take_append_drop] at this
    rw [byteLen_allSecret _ (allSecret_take r _ hs), byteLen_allSecret _ (allSecret_drop r _ hs),
      List.length_take, List.length_drop, Nat.min_eq_left (by omega)] at this
    have e : r.length - visibleChars + (r.length - (r.length - visibleChars)) = r.length := by omega
    rw [e] at this
    exact this
  rw [h1, h2]; rfl

/-! ## the specification: rewrite maximal runs, no indices -/

/-- a run is rewritten iff its length is in the window and the classifier flags it -/
def flagged (sel : Str → Bool) (r : Str) : Bool := inWindow r.length && sel r

/-- what happens to one maximal secret-char run -/
def flush (sel : Str → Bool) (run : Str) : Str :=
  if flagged sel run then mask run else run

def flushCount (sel : Str → Bool) (run : Str) : Nat :=
  if flagged sel run then 1 else 0

theorem flagged_nil (sel : Str → Bool) : flagged sel [] = false := by
  simp [flagged, inWindow_zero]

/-- `spec sel run rest`: `run` is the secret-char run collected so far, `rest` the unread text -/
def spec (sel : Str → Bool) : Str → Str → Str
  | run, [] => flush sel run
  | run, c :: cs =>
    if isSecretChar c then spec sel (run ++ [c]) cs else flush sel run ++ c :: spec sel [] cs

def specCount (sel : Str → Bool) : Str → Str → Nat
  | run, [] => flushCount sel run
  | run, c :: cs =>
    if isSecretChar c then specCount sel (run ++ [c]) cs else flushCount sel run + specCount sel [] cs

/-! ## select + rebuild fused -/

def pipe (sel : Str → Bool) (T : Str) : List (Nat × Nat) → Nat → Str → Nat → Option (Str × Nat)
  | [], prev, acc, k => (dropBytes T prev).bind fun tail => some (acc ++ tail, k)
  | (s, e) :: rest, prev, acc, k =>
    (strSlice T s e).bind fun tok =>
      if sel tok then
        (strSlice T prev s).bind fun before =>
        (redactSecret tok).bind fun red =>
        pipe sel T rest e (acc ++ before ++ red) (k + 1)
      else pipe sel T rest prev acc k

theorem pipe_eq (sel : Str → Bool) (T : Str) (toks : List (Nat × Nat)) :
    ∀ prev acc k,
      ((selectSecrets sel T toks).bind fun secrets =>
        (rebuild T secrets prev acc).bind fun out => some (out, k + secrets.length))
        = pipe sel T toks prev acc k := by
  induction toks with
  | nil =>
    intro prev acc k
    cases h : dropBytes T prev <;> simp [selectSecrets, rebuild, pipe, h]
  | cons t toks ih =>
    intro prev acc k
    obtain ⟨s, e⟩ := t
    simp only [selectSecrets, pipe]
    cases h1 : strSlice T s e with
    | none => simp
    | some tok =>
      simp only [Option.bind_some]
      by_cases hsel : sel tok = true
      · simp only [hsel, if_true]
        cases h2 : strSlice T prev s with
        | none =>
          cases selectSecrets sel T toks <;> simp [rebuild, h2]
        | some before =>
          cases h3 : redactSecret tok with
          | none =>
            cases selectSecrets sel T toks <;> simp [rebuild, h2, h1, h3]
          | some red =>
            simp only [Option.bind_some]
            rw [← ih e (acc ++ before ++ red) (k + 1)]
            cases selectSecrets sel T toks with
            | none => simp
            | some more =>
              simp only [Option.bind_some, rebuild, h2, h1, h3, List.length_cons]
              have : k + (more.length + 1) = k + 1 + more.length := by omega
              rw [this]
      · simp only [hsel]
        rw [← ih prev acc k]
        cases selectSecrets sel T toks <;> simp

theorem redactText_eq_pipe (sel : Str → Bool) (T : Str) :
    redactText sel T = pipe sel T (extractTokens T) 0 [] 0 := by
  rw [← pipe_eq]
  unfold redactText
  cases selectSecrets sel T (extractTokens T) with
  | none => simp
  | some secrets =>
    simp only [Option.bind_some]
    cases secrets with
    | nil => simp [rebuild]
    | cons a l => simp

/-! ## the scan/select/rebuild pipeline computes `spec` and never panics -/

/-- consuming the (at most one) token that closes the current run -/
theorem pipe_flush (sel : Str → Bool) (T prevA gap run R : Str) (toks : List (Nat × Nat))
    (acc : Str) (k : Nat)
    (hT : T = prevA ++ gap ++ run ++ R) (hs : allSecret run = true) :
    pipe sel T (flushCur (if run.isEmpty then none else some (byteLen prevA + byteLen gap))
                  (byteLen prevA + byteLen gap + run.length) ++ toks) (byteLen prevA) acc k
      = if flagged sel run = true
        then pipe sel T toks (byteLen prevA + byteLen gap + run.length) (acc ++ gap ++ mask run) (k + 1)
        else pipe sel T toks (byteLen prevA) acc k := by
  cases hrun : run with
  | nil => simp [flushCur, flagged_nil]
  | cons x xs =>
    rw [← hrun]
    have hne : run.isEmpty = false := by simp [hrun]
    simp only [hne, flushCur, emitTok, Bool.false_eq_true, if_false, flagged]
    have hsub : byteLen prevA + byteLen gap + run.length - (byteLen prevA + byteLen gap) = run.length := by omega
    rw [hsub]
    by_cases hw : inWindow run.length = true
    · simp only [hw, if_true, List.cons_append, List.nil_append, pipe, Bool.true_and]
      have hb := byteLen_allSecret run hs
      have h1 : strSlice T (byteLen prevA + byteLen gap) (byteLen prevA + byteLen gap + run.length) = some run := by
        have := strSlice_mid (prevA ++ gap) run R
        rw [byteLen_append, hb, ← hT] at this
        exact this
      have h2 : strSlice T (byteLen prevA) (byteLen prevA + byteLen gap) = some gap := by
        have := strSlice_mid prevA gap (run ++ R)
        rw [← List.append_assoc, ← hT] at this
        exact this
      rw [h1]
      simp only [Option.bind_some]
      by_cases hsel : sel run = true
      · simp only [hsel, if_true, h2, Option.bind_some, redactSecret_run run hs (inWindow_long _ hw)]
      · simp only [hsel]; simp
    · simp only [hw]; simp

theorem pipe_scan (sel : Str → Bool) (T : Str) :
    ∀ (rest prevA gap run acc : Str) (k : Nat),
      T = prevA ++ gap ++ run ++ rest → allSecret run = true →
      pipe sel T (scan rest (byteLen prevA + byteLen gap + run.length)
                    (if run.isEmpty then none else some (byteLen prevA + byteLen gap)))
           (byteLen prevA) acc k
        = some (acc ++ gap ++ spec sel run rest, k + specCount sel run rest) := by
  intro rest
  induction rest with
  | nil =>
    intro prevA gap run acc k hT hs
    have hb := byteLen_allSecret run hs
    have := pipe_flush sel T prevA gap run [] [] acc k hT hs
    simp only [List.append_nil] at this
    simp only [scan, this, spec, specCount, flush, flushCount]
    simp only [List.append_nil] at hT
    split
    · have hd : dropBytes T (byteLen prevA + byteLen gap + run.length) = some [] := by
        have := dropBytes_append (prevA ++ gap ++ run) []
        rw [List.append_nil, byteLen_append, byteLen_append, hb, ← hT] at this
        exact this
      simp [pipe, hd]
    · have hd : dropBytes T (byteLen prevA) = some (gap ++ run) := by
        have := dropBytes_append prevA (gap ++ run)
        rw [← List.append_assoc, ← hT] at this
        exact this
      simp [pipe, hd]
  | cons c cs ih =>
    intro prevA gap run acc k hT hs
    have hb := byteLen_allSecret run hs
    by_cases hc : isSecretChar c = true
    · simp only [scan, hc, if_true, spec, specCount]
      have hT' : T = prevA ++ gap ++ (run ++ [c]) ++ cs := by simp [hT]
      have hs' : allSecret (run ++ [c]) = true := by
        rw [allSecret_append, hs]; simp [allSecret, hc]
      have := ih prevA gap (run ++ [c]) acc k hT' hs'
      have hne : (run ++ [c]).isEmpty = false := by simp
      simp only [hne, List.length_append, List.length_cons, List.length_nil, Bool.false_eq_true, if_false] at this
      have hcur : (if run.isEmpty then none else some (byteLen prevA + byteLen gap)).getD
            (byteLen prevA + byteLen gap + run.length) = byteLen prevA + byteLen gap := by
        cases run <;> simp
      rw [hcur]
      have e : byteLen prevA + byteLen gap + (run.length + (0 + 1)) = byteLen prevA + byteLen gap + run.length + 1 := by omega
      rw [e] at this
      exact this
    · have hc' : isSecretChar c = false := by simpa using hc
      simp only [scan, hc', Bool.false_eq_true, if_false, spec, specCount]
      rw [pipe_flush sel T prevA gap run (c :: cs) _ acc k hT hs]
      split
      · rename_i hcond
        have hT' : T = (prevA ++ gap ++ run) ++ [c] ++ [] ++ cs := by simp [hT]
        have := ih (prevA ++ gap ++ run) [c] [] (acc ++ gap ++ mask run) (k + 1) hT' rfl
        simp only [byteLen_append, byteLen, hb, List.isEmpty_nil, if_true, List.length_nil, Nat.add_zero] at this
        rw [this]
        simp only [flush, flushCount, hcond, if_true]
        simp only [List.append_assoc, List.cons_append, List.nil_append]
        congr 2; omega
      · rename_i hcond
        have hT' : T = prevA ++ (gap ++ run ++ [c]) ++ [] ++ cs := by simp [hT]
        have := ih prevA (gap ++ run ++ [c]) [] acc k hT' rfl
        simp only [byteLen_append, byteLen, hb, List.isEmpty_nil, if_true, List.length_nil, Nat.add_zero] at this
        have e : byteLen prevA + (byteLen gap + run.length + utf8Len c) = byteLen prevA + byteLen gap + run.length + utf8Len c := by omega
        rw [e] at this
        rw [this]
        simp only [flush, flushCount, hcond]
        simp only [List.append_assoc, List.cons_append, List.nil_append]
        simp

/-- **refinement**: the byte-offset model computes the run-based specification and never
    reaches a panicking slice, for every text and every classifier. -/
theorem redactText_eq_spec (sel : Str → Bool) (T : Str) :
    redactText sel T = some (spec sel [] T, specCount sel [] T) := by
  rw [redactText_eq_pipe]
  have := pipe_scan sel T T [] [] [] [] 0 (by simp) rfl
  simpa [extractTokens, byteLen] using this

/-! ## maximal secret-character runs of a text -/

def emitRun (cur : Str) : List Str := if cur.isEmpty then [] else [cur]

/-- `runsAux cur t`: `cur` is the run being collected -/
def runsAux : Str → Str → List Str
  | cur, [] => emitRun cur
  | cur, c :: cs => if isSecretChar c then runsAux (cur ++ [c]) cs else emitRun cur ++ runsAux [] cs

/-- the maximal runs of secret characters of `t`, left to right -/
def runsOf (t : Str) : List Str := runsAux [] t

/-- what is left of one input run in the output, as maximal runs -/
def frag (sel : Str → Bool) (r : Str) : List Str :=
  if flagged sel r then [r.take visibleChars, r.drop (r.length - visibleChars)] else [r]

theorem runsAux_split (x : Str) (c : Char) (rest : Str) (hc : isSecretChar c = false) :
    ∀ cur, runsAux cur (x ++ c :: rest) = runsAux cur x ++ runsAux [] rest := by
  induction x with
  | nil => intro cur; simp [runsAux, hc]
  | cons y ys ih =>
    intro cur
    simp only [List.cons_append, runsAux]
    split
    · exact ih _
    · rw [ih, List.append_assoc]

theorem runsAux_run (r : Str) (hr : allSecret r = true) :
    ∀ cur rest, runsAux cur (r ++ rest) = runsAux (cur ++ r) rest := by
  induction r with
  | nil => intro cur rest; simp
  | cons y ys ih =>
    intro cur rest
    simp only [allSecret, List.all_cons, Bool.and_eq_true] at hr
    simp only [List.cons_append, runsAux, hr.1, if_true]
    rw [ih (by simpa [allSecret] using hr.2)]
    simp

theorem runsAux_stars (k : Nat) (x : Str) : runsAux [] (stars k ++ x) = runsAux [] x := by
  induction k with
  | zero => simp [stars]
  | succ k ih =>
    have : isSecretChar '*' = false := by decide
    simp only [stars, List.replicate_succ, List.cons_append, runsAux, this, Bool.false_eq_true, if_false]
    simpa [stars, emitRun] using ih

theorem runs_flush (sel : Str → Bool) (run : Str) (hs : allSecret run = true) :
    runsAux [] (flush sel run) = (emitRun run).flatMap (frag sel) := by
  cases hrun : run with
  | nil => simp [flush, flagged_nil, runsAux, emitRun]
  | cons x xs =>
    rw [← hrun]
    have hne : run.isEmpty = false := by simp [hrun]
    simp only [emitRun, hne, Bool.false_eq_true, if_false, List.flatMap_cons, List.flatMap_nil,
      List.append_nil, frag, flush]
    by_cases hf : flagged sel run = true
    · rw [if_pos hf, if_pos hf]
      have hlen := inWindow_long run.length (by simp only [flagged, Bool.and_eq_true] at hf; exact hf.1)
      simp only [visibleChars] at hlen
      simp only [mask, List.append_assoc]
      rw [runsAux_run _ (allSecret_take run _ hs)]
      have hst : stars 8 = '*' :: stars 7 := rfl
      have hstar : isSecretChar '*' = false := by decide
      rw [hst]
      simp only [List.cons_append, runsAux, hstar, Bool.false_eq_true, if_false, List.nil_append]
      rw [runsAux_stars]
      have := runsAux_run (run.drop (run.length - visibleChars)) (allSecret_drop run _ hs) [] []
      simp only [List.append_nil, List.nil_append] at this
      rw [this]
      have l1 : (run.take visibleChars).length = 4 := by
        simp only [List.length_take, visibleChars]; omega
      have l2 : (run.drop (run.length - visibleChars)).length = 4 := by
        simp only [List.length_drop, visibleChars]; omega
      have h1 : (run.take visibleChars).isEmpty = false := by
        cases h : run.take visibleChars with
        | nil => rw [h] at l1; simp at l1
        | cons _ _ => rfl
      have h2 : (run.drop (run.length - visibleChars)).isEmpty = false := by
        cases h : run.drop (run.length - visibleChars) with
        | nil => rw [h] at l2; simp at l2
        | cons _ _ => rfl
      simp only [runsAux, emitRun, h1, h2, Bool.false_eq_true, if_false]
      rfl
    · rw [if_neg hf, if_neg hf]
      have := runsAux_run run hs [] []
      simp only [List.append_nil, List.nil_append] at this
      rw [this]
      simp [runsAux, emitRun, hne]

/-- **runs of the output** = fragments of the runs of the input, in order -/
theorem runs_spec (sel : Str → Bool) (t : Str) :
    ∀ run, allSecret run = true →
      runsAux [] (spec sel run t) = (runsAux run t).flatMap (frag sel) := by
  induction t with
  | nil => intro run hs; simpa [spec, runsAux] using runs_flush sel run hs
  | cons c cs ih =>
    intro run hs
    by_cases hc : isSecretChar c = true
    · simp only [spec, runsAux, hc, if_true]
      exact ih _ (by rw [allSecret_append, hs]; simp [allSecret, hc])
    · have hc' : isSecretChar c = false := by simpa using hc
      simp only [spec, runsAux, hc', Bool.false_eq_true, if_false]
      rw [runsAux_split _ _ _ hc', runs_flush sel run hs, ih [] rfl, List.flatMap_append]

/-- every listed run is a non-empty block of secret characters -/
theorem runsAux_sound (t : Str) :
    ∀ cur, allSecret cur = true → ∀ r ∈ runsAux cur t, r ≠ [] ∧ allSecret r = true := by
  induction t with
  | nil =>
    intro cur hs r hr
    simp only [runsAux, emitRun] at hr
    split at hr
    · simp at hr
    · simp only [List.mem_singleton] at hr
      subst hr
      exact ⟨by intro h; simp_all, hs⟩
  | cons c cs ih =>
    intro cur hs r hr
    simp only [runsAux] at hr
    split at hr
    · rename_i hc
      exact ih _ (by rw [allSecret_append, hs]; simp [allSecret, hc]) r hr
    · rw [List.mem_append] at hr
      rcases hr with hr | hr
      · simp only [emitRun] at hr
        split at hr
        · simp at hr
        · simp only [List.mem_singleton] at hr
          subst hr
          exact ⟨by intro h; simp_all, hs⟩
      · exact ih [] rfl r hr

/-- **completeness of `runsOf`**: every maximal block of secret characters of `t` (not
    preceded and not followed by a secret character) is listed. -/
theorem runsOf_complete (pre r post : Str) (hr : r ≠ []) (hs : allSecret r = true)
    (hpre : ∀ c, pre.getLast? = some c → isSecretChar c = false)
    (hpost : ∀ c, post.head? = some c → isSecretChar c = false) :
    r ∈ runsOf (pre ++ r ++ post) := by
  have hne : r.isEmpty = false := by cases r <;> simp_all
  have key : r ∈ runsAux [] (r ++ post) := by
    rw [runsAux_run r hs]
    simp only [List.nil_append]
    cases post with
    | nil => simp [runsAux, emitRun, hne]
    | cons c p =>
      have := hpost c rfl
      simp [runsAux, this, emitRun, hne]
  unfold runsOf
  rcases List.eq_nil_or_concat pre with h | ⟨pre', c, h⟩
  · subst h; simpa using key
  · rw [List.concat_eq_append] at h
    subst h
    have hc : isSecretChar c = false := hpre c (by simp)
    have : pre' ++ [c] ++ r ++ post = pre' ++ c :: (r ++ post) := by simp
    rw [this, runsAux_split _ _ _ hc]
    exact List.mem_append_right _ key

/-- a text none of whose runs is flagged is left unchanged -/
theorem spec_id (sel : Str → Bool) (t : Str) :
    ∀ run, allSecret run = true → (∀ r ∈ runsAux run t, flagged sel r = false) →
      spec sel run t = run ++ t ∧ specCount sel run t = 0 := by
  induction t with
  | nil =>
    intro run hs h
    simp only [spec, specCount, flush, flushCount, List.append_nil]
    cases hrun : run with
    | nil => simp [flagged_nil]
    | cons x xs =>
      rw [← hrun]
      have : flagged sel run = false := h run (by simp [runsAux, emitRun, hrun])
      simp [this]
  | cons c cs ih =>
    intro run hs h
    by_cases hc : isSecretChar c = true
    · simp only [spec, specCount, hc, if_true]
      have := ih (run ++ [c]) (by rw [allSecret_append, hs]; simp [allSecret, hc])
        (by intro r hr; exact h r (by simpa [runsAux, hc] using hr))
      simpa using this
    · have hc' : isSecretChar c = false := by simpa using hc
      simp only [spec, specCount, hc', Bool.false_eq_true, if_false]
      have h2 := ih [] rfl (by intro r hr; exact h r (by simp [runsAux, hc', hr]))
      rw [h2.1, h2.2]
      cases hrun : run with
      | nil => simp [flush, flushCount, flagged_nil]
      | cons x xs =>
        rw [← hrun]
        have : flagged sel run = false := h run (by simp [runsAux, hc', emitRun, hrun])
        simp [flush, flushCount, this]

/-! ## consequences for the output -/

/-- no run of `t` is flagged by the classifier inside the length window -/
def Clean (sel : Str → Bool) (t : Str) : Prop :=
  ∀ r ∈ runsOf t, inWindow r.length = true → sel r = false

theorem frag_not_flagged (sel : Str → Bool) (r0 r : Str) (h : r ∈ frag sel r0)
    (hw : inWindow r.length = true) : sel r = false := by
  unfold frag at h
  split at h
  · rename_i hf
    have hlen := inWindow_long r0.length (by simp only [flagged, Bool.and_eq_true] at hf; exact hf.1)
    simp only [visibleChars] at hlen
    have h4 : r.length = 4 := by
      simp only [List.mem_cons, List.not_mem_nil, or_false] at h
      rcases h with h | h <;> subst h <;> simp only [List.length_take, List.length_drop, visibleChars] <;> omega
    rw [h4] at hw
    exact absurd hw (by decide)
  · rename_i hf
    simp only [List.mem_singleton] at h
    subst h
    simp only [flagged, hw, Bool.true_and] at hf
    simpa using hf

theorem spec_clean (sel : Str → Bool) (t : Str) : Clean sel (spec sel [] t) := by
  intro r hr hw
  unfold runsOf at hr
  rw [runs_spec sel t [] rfl, List.mem_flatMap] at hr
  obtain ⟨r0, _, hr0⟩ := hr
  exact frag_not_flagged sel r0 r hr0 hw

theorem specCount_eq (sel : Str → Bool) (t : Str) :
    ∀ run, specCount sel run t = ((runsAux run t).filter (flagged sel)).length := by
  induction t with
  | nil =>
    intro run
    simp only [specCount, flushCount, runsAux, emitRun]
    cases hrun : run with
    | nil => simp [flagged_nil]
    | cons x xs =>
      rw [← hrun]
      have : run.isEmpty = false := by simp [hrun]
      simp only [this, Bool.false_eq_true, if_false, List.filter_cons, List.filter_nil]
      split <;> simp
  | cons c cs ih =>
    intro run
    simp only [specCount, runsAux]
    split
    · exact ih _
    · rw [ih, List.filter_append, List.length_append]
      congr 1
      simp only [flushCount, emitRun]
      cases hrun : run with
      | nil => simp [flagged_nil]
      | cons x xs =>
        rw [← hrun]
        have : run.isEmpty = false := by simp [hrun]
        simp only [this, Bool.false_eq_true, if_false, List.filter_cons, List.filter_nil]
        split <;> simp

/-! ## tool inputs (JSON values) -/

/-- a zero count means the text is unchanged (so `if count > 0 { *text = redacted }` loses nothing) -/
theorem spec_of_count_zero (sel : Str → Bool) (t : Str) (h : specCount sel [] t = 0) :
    spec sel [] t = t := by
  rw [specCount_eq] at h
  have hall : ∀ r ∈ runsAux [] t, flagged sel r = false := by
    intro r hr
    cases hf : flagged sel r
    · rfl
    · have : r ∈ (runsAux [] t).filter (flagged sel) := List.mem_filter.2 ⟨hr, hf⟩
      rw [List.eq_nil_of_length_eq_zero h] at this
      simp at this
  simpa using (spec_id sel t [] rfl hall).1

/-- the byte-offset model of `redact_secrets_in_text` is a text redaction in the sense the JSON
    traversal needs: never panics, returns `spec`, and a zero count means "unchanged" -/
theorem redactText_refines (sel : Str → Bool) : TextRefines (redactText sel) (spec sel []) := by
  intro s
  exact ⟨specCount sel [] s, redactText_eq_spec sel s, spec_of_count_zero sel s⟩

/-- the specification of `redact_secrets_in_json`: `spec` on every string leaf and object key -/
def specJ (sel : Str → Bool) (j : J) : J := specJWith (spec sel []) j

/-- **no panic, exact result** of the JSON traversal, for every value (any depth, any width) -/
theorem redactJ_eq (sel : Str → Bool) (j : J) : ∃ n, redactJ sel j = some (specJ sel j, n) :=
  redactJWith_eq (redactText_refines sel) j

/-- every string of a redacted value — leaf or key, at any depth — is the redaction of a string of
    the input, hence clean -/
theorem specJ_strings (sel : Str → Bool) (j : J) :
    ∀ t ∈ (specJ sel j).strings, (∃ s ∈ j.strings, t = spec sel [] s) ∧ Clean sel t := by
  intro t ht
  obtain ⟨s, hs, rfl⟩ := strings_specJWith (spec sel []) j t ht
  exact ⟨⟨s, hs, rfl⟩, spec_clean sel s⟩

/-! ## prompts -/

/-- every string of a message that reaches a note and that `redact_secrets_from_prompts` is
    responsible for: the text of a text message; every string leaf and every object key of a tool
    input (the tool NAME and the timestamps are identifiers / metadata the code never rewrites) -/
def msgStrings : Msg → List Str
  | .user t | .assistant t | .thinking t | .plan t => [t]
  | .toolUse _ i => i.strings

def CleanMsgs (sel : Str → Bool) (ms : List Msg) : Prop :=
  ∀ m ∈ ms, ∀ t ∈ msgStrings m, Clean sel t

/-- the specification of `redact_secrets_from_prompts` on one message -/
def specMsg (sel : Str → Bool) : Msg → Msg
  | .user t => .user (spec sel [] t)
  | .assistant t => .assistant (spec sel [] t)
  | .thinking t => .thinking (spec sel [] t)
  | .plan t => .plan (spec sel [] t)
  | .toolUse n i => .toolUse n (specJ sel i)

theorem redactMsg_eq (sel : Str → Bool) (m : Msg) :
    ∃ n, redactMsg sel m = some (specMsg sel m, n) := by
  cases m with
  | toolUse name i =>
    obtain ⟨n, hn⟩ := redactJ_eq sel i
    exact ⟨n, by simp [redactMsg, specMsg, hn]⟩
  | _ => simp [redactMsg, specMsg, redactText_eq_spec]

theorem redactMsgs_eq (sel : Str → Bool) (ms : List Msg) :
    ∃ n, redactMsgs sel ms = some (ms.map (specMsg sel), n) := by
  induction ms with
  | nil => exact ⟨0, rfl⟩
  | cons m ms ih =>
    obtain ⟨a, ha⟩ := redactMsg_eq sel m
    obtain ⟨b, hb⟩ := ih
    exact ⟨a + b, by simp [redactMsgs, ha, hb]⟩

def specPrompt (sel : Str → Bool) (p : Prompt) : Prompt :=
  { p with messages := p.messages.map (specMsg sel) }

theorem redactPrompts_eq (sel : Str → Bool) (ps : List Prompt) :
    ∃ n, redactPrompts sel ps = some (ps.map (specPrompt sel), n) := by
  induction ps with
  | nil => exact ⟨0, rfl⟩
  | cons p ps ih =>
    obtain ⟨a, ha⟩ := redactMsgs_eq sel p.messages
    obtain ⟨b, hb⟩ := ih
    exact ⟨a + b, by simp [redactPrompts, ha, hb, specPrompt]⟩

theorem specMsg_clean (sel : Str → Bool) (ms : List Msg) : CleanMsgs sel (ms.map (specMsg sel)) := by
  intro m hm t ht
  rw [List.mem_map] at hm
  obtain ⟨m0, _, rfl⟩ := hm
  cases m0 with
  | toolUse name i => exact (specJ_strings sel i t ht).2
  | _ =>
    simp only [specMsg, msgStrings, List.mem_singleton] at ht
    subst ht; exact spec_clean sel _

theorem stripMessages_empty (ps : List Prompt) : ∀ p ∈ stripMessages ps, p.messages = [] := by
  intro p hp
  simp only [stripMessages, List.mem_map] at hp
  obtain ⟨q, _, rfl⟩ := hp
  rfl

/-! ### the `Default` arm over a shape -/

theorem shapeSafe_iff (sh : EnqShape) :
    shapeSafe sh = true ↔ sh.onSerializeErr = .propagate ∧ sh.onEnqueueErr = .propagate ∧
      sh.clearsOnOk = true ∧ sh.stripsOnErr = true ∧ sh.stripsWhenNotEnqueueing = true := by
  simp [shapeSafe, and_assoc]

/-- under a safe shape, a loop that returns `Ok` has cleared every prompt -/
theorem enqueueLoop_ok_clears (sh : EnqShape) (hs : shapeSafe sh = true) (ps : List Prompt) :
    ∀ outs, (enqueueLoop sh ps outs).2 = true → ∀ p ∈ (enqueueLoop sh ps outs).1, p.messages = [] := by
  obtain ⟨h1, h2, h3, _, _⟩ := (shapeSafe_iff sh).1 hs
  induction ps with
  | nil => intro _ _ p hp; simp [enqueueLoop] at hp
  | cons q qs ih =>
    intro outs hok p hp
    by_cases he : q.messages.isEmpty = true
    · simp only [enqueueLoop, he, if_true] at hok hp
      simp only [List.mem_cons] at hp
      rcases hp with rfl | hp
      · simpa using he
      · exact ih outs hok p hp
    · simp only [enqueueLoop, he, Bool.false_eq_true, if_false, h1, h2, h3] at hok hp
      generalize outs.headD .enqueueErr = o at hok hp
      cases o with
      | serializeErr => simp at hok
      | enqueueErr => simp at hok
      | ok url =>
        simp only [if_true] at hok hp
        simp only [List.mem_cons] at hp
        rcases hp with rfl | hp
        · rfl
        · exact ih _ hok p hp

theorem enqueueCas_ok_clears (sh : EnqShape) (hs : shapeSafe sh = true) (cas : CasRun) (ps : List Prompt) :
    (enqueueCas sh cas ps).2 = true → ∀ p ∈ (enqueueCas sh cas ps).1, p.messages = [] := by
  unfold enqueueCas
  split
  · exact enqueueLoop_ok_clears sh hs ps cas.outs
  · intro h; simp at h

/-- **safe shapes are safe**: whatever the database and every single enqueue do, the arm leaves
    no message -/
theorem defaultArm_no_messages (sh : EnqShape) (hs : shapeSafe sh = true) (sel : Str → Bool)
    (env : UploadEnv) (ps out : List Prompt) (h : defaultArm sh sel env ps = some out) :
    ∀ p ∈ out, p.messages = [] := by
  obtain ⟨_, _, _, h4, h5⟩ := (shapeSafe_iff sh).1 hs
  simp only [defaultArm, h4, h5, if_true] at h
  split at h
  · obtain ⟨n, hn⟩ := redactPrompts_eq sel ps
    simp only [hn, Option.bind_some, Option.some.injEq] at h
    subst h
    split
    · rename_i hok; exact enqueueCas_ok_clears sh hs _ _ hok
    · exact stripMessages_empty _
  · simp only [Option.some.injEq] at h
    subst h; exact stripMessages_empty ps

theorem codeShape_safe : shapeSafe codeShape = true := by decide

/-- outside `notes` mode the filter leaves no message in any prompt -/
theorem applyStorageMode_no_messages (sel : Str → Bool) (env : UploadEnv) (mode : Mode)
    (hm : mode ≠ .notes) (ps out : List Prompt) (h : applyStorageMode sel env mode ps = some out) :
    ∀ p ∈ out, p.messages = [] := by
  cases mode with
  | notes => exact absurd rfl hm
  | «local» =>
    simp only [applyStorageMode, Option.some.injEq] at h
    subst h; exact stripMessages_empty ps
  | default =>
    simp only [applyStorageMode] at h
    exact defaultArm_no_messages codeShape codeShape_safe sel env ps out h

/-! ### the exact result of the `Default` arm of the code as it is -/

theorem stripMessages_of_empty (l : List Prompt) (h : ∀ p ∈ l, p.messages = []) : stripMessages l = l := by
  induction l with
  | nil => rfl
  | cons p ps ih =>
    have hp : p.messages = [] := h p (List.mem_cons_self ..)
    have := ih (fun q hq => h q (List.mem_cons_of_mem _ hq))
    simp only [stripMessages, List.map_cons] at this ⊢
    rw [this]
    cases p; simp_all

theorem stripMessages_cons (p : Prompt) (ps : List Prompt) :
    stripMessages (p :: ps) = { p with messages := [] } :: stripMessages ps := rfl

/-- stripped, the loop's result is: urls handed to the prompts with messages up to the first
    failing iteration -/
theorem enqueueLoop_strip (ps : List Prompt) :
    ∀ outs, stripMessages (enqueueLoop codeShape ps outs).1 = stripMessages (setUrls ps (okPrefix outs)) := by
  induction ps with
  | nil => intro _; rfl
  | cons q qs ih =>
    intro outs
    by_cases he : q.messages.isEmpty = true
    · simp only [enqueueLoop, setUrls, he, if_true, stripMessages_cons, ih]
    · have c1 : codeShape.onSerializeErr = .propagate := rfl
      have c2 : codeShape.onEnqueueErr = .propagate := rfl
      have c3 : codeShape.setsUrlOnOk = true := rfl
      have c4 : codeShape.clearsOnOk = true := rfl
      simp only [enqueueLoop, setUrls, he, Bool.false_eq_true, if_false, c1, c2, c3, c4, if_true]
      cases outs with
      | nil => simp [okPrefix]
      | cons o rest =>
        cases o with
        | serializeErr => simp [okPrefix]
        | enqueueErr => simp [okPrefix]
        | ok url =>
          have := ih rest
          simp only [stripMessages] at this ⊢
          simp [okPrefix, this]

theorem specPrompt_isEmpty (sel : Str → Bool) (p : Prompt) :
    (specPrompt sel p).messages.isEmpty = p.messages.isEmpty := by
  cases h : p.messages <;> simp [specPrompt, h]

/-- redaction only rewrites message texts: it changes nothing that survives stripping -/
theorem strip_setUrls_spec (sel : Str → Bool) (ps : List Prompt) :
    ∀ us, stripMessages (setUrls (ps.map (specPrompt sel)) us) = stripMessages (setUrls ps us) := by
  induction ps with
  | nil => intro _; rfl
  | cons q qs ih =>
    intro us
    have hstrip : ∀ l : List Prompt, stripMessages (l.map (specPrompt sel)) = stripMessages l := by
      intro l; simp [stripMessages, specPrompt]
    by_cases he : q.messages.isEmpty = true
    · have he' := (specPrompt_isEmpty sel q).trans he
      simp only [List.map_cons, setUrls, he, he', if_true, stripMessages_cons, ih]
      simp [specPrompt]
    · have he' : ¬ (specPrompt sel q).messages.isEmpty = true := by rw [specPrompt_isEmpty]; exact he
      simp only [List.map_cons, setUrls, he, he']
      cases us with
      | nil =>
        show stripMessages ((q :: qs).map (specPrompt sel)) = _
        exact hstrip _
      | cons u us =>
        have := ih us
        simp only [stripMessages] at this ⊢
        simp [specPrompt, this]

/-- **exact result of the `Default` arm (code as it is)**, for every database state and every
    vector of enqueue outcomes: all messages gone; a `messages_url` exactly for the prompts with
    messages that precede the first failing iteration, when an upload is attempted at all. -/
theorem defaultArm_code_eq (sel : Str → Bool) (env : UploadEnv) (ps : List Prompt) :
    defaultArm codeShape sel env ps = some (stripMessages (setUrls ps
      (if env.shouldEnqueue && (env.cas (ps.map (specPrompt sel))).dbOpens
       then okPrefix (env.cas (ps.map (specPrompt sel))).outs else []))) := by
  obtain ⟨n, hn⟩ := redactPrompts_eq sel ps
  have hnil : ∀ l : List Prompt, setUrls l [] = l := by
    intro l
    induction l with
    | nil => rfl
    | cons p ps ih => simp only [setUrls]; split <;> simp [ih]
  unfold defaultArm
  by_cases hse : env.shouldEnqueue = true
  · simp only [hse, if_true, hn, Option.bind_some, Bool.true_and, Option.some.injEq]
    by_cases hdb : (env.cas (ps.map (specPrompt sel))).dbOpens = true
    · simp only [enqueueCas, hdb, if_true]
      rw [← strip_setUrls_spec sel ps, ← enqueueLoop_strip]
      split
      · rename_i hok
        exact (stripMessages_of_empty _ (enqueueLoop_ok_clears codeShape codeShape_safe _ _ hok)).symm
      · simp [codeShape]
    · simp only [enqueueCas, hdb, Bool.false_eq_true, if_false, hnil]
      simp [codeShape, stripMessages, specPrompt]
  · simp only [hse, Bool.false_eq_true, if_false, Bool.false_and, hnil]
    simp [codeShape]

theorem strip_setUrls_ids (ps : List Prompt) :
    ∀ us, (stripMessages (setUrls ps us)).map (·.id) = ps.map (·.id) := by
  induction ps with
  | nil => intro _; rfl
  | cons q qs ih =>
    intro us
    by_cases he : q.messages.isEmpty = true
    · have := ih us
      simp only [stripMessages] at this
      simp [setUrls, he, stripMessages, this]
    · simp only [setUrls, he]
      cases us with
      | nil => simp [stripMessages]
      | cons u us =>
        have := ih us
        simp only [stripMessages] at this
        simp [stripMessages, this]

/-! ### unsafe shapes leak (one witness per rejected field, the other fields arbitrary) -/

/-- a record whose only message is a tool call with a `null` input (nothing to redact, whatever the classifier) -/
def leakWitness : Prompt := ⟨[], [.toolUse [] .null], none⟩

theorem redactPrompts_leakWitness (sel : Str → Bool) :
    redactPrompts sel [leakWitness] = some ([leakWitness], 0) := by
  simp [redactPrompts, redactMsgs, redactMsg, redactJ, redactJWith, leakWitness]

theorem leak_notEnqueueing (sh : EnqShape) (h : sh.stripsWhenNotEnqueueing = false) (sel : Str → Bool) :
    defaultArm sh sel ⟨false, fun _ => ⟨true, []⟩⟩ [leakWitness] = some [leakWitness] := by
  simp [defaultArm, h]

theorem leak_noStripOnErr (sh : EnqShape) (h : sh.stripsOnErr = false) (sel : Str → Bool) :
    defaultArm sh sel ⟨true, fun _ => ⟨false, []⟩⟩ [leakWitness] = some [leakWitness] := by
  simp only [defaultArm, redactPrompts_leakWitness, Option.bind_some, enqueueCas, if_true]
  simp [h]

theorem leak_serializeSkip (sh : EnqShape) (h : sh.onSerializeErr = .skip) (sel : Str → Bool) :
    defaultArm sh sel ⟨true, fun _ => ⟨true, [.serializeErr]⟩⟩ [leakWitness] = some [leakWitness] := by
  simp only [defaultArm, redactPrompts_leakWitness, Option.bind_some, enqueueCas, if_true]
  simp [enqueueLoop, leakWitness, h]

theorem leak_enqueueSkip (sh : EnqShape) (h : sh.onEnqueueErr = .skip) (sel : Str → Bool) :
    defaultArm sh sel ⟨true, fun _ => ⟨true, [.enqueueErr]⟩⟩ [leakWitness] = some [leakWitness] := by
  simp only [defaultArm, redactPrompts_leakWitness, Option.bind_some, enqueueCas, if_true]
  simp [enqueueLoop, leakWitness, h]

theorem leak_noClear (sh : EnqShape) (h : sh.clearsOnOk = false) (sel : Str → Bool) :
    ∃ u, defaultArm sh sel ⟨true, fun _ => ⟨true, [.ok []]⟩⟩ [leakWitness] =
      some [{ leakWitness with messagesUrl := u }] := by
  refine ⟨if sh.setsUrlOnOk then some [] else none, ?_⟩
  simp only [defaultArm, redactPrompts_leakWitness, Option.bind_some, enqueueCas, if_true]
  simp [enqueueLoop, leakWitness, h]

theorem unsafe_shape_leaks_aux (sh : EnqShape) (hs : shapeSafe sh = false) (sel : Str → Bool) :
    ∃ env ps out, defaultArm sh sel env ps = some out ∧ ∃ p ∈ out, p.messages ≠ [] := by
  have hw : leakWitness.messages ≠ [] := by simp [leakWitness]
  by_cases h5 : sh.stripsWhenNotEnqueueing = true
  · by_cases h4 : sh.stripsOnErr = true
    · by_cases h1 : sh.onSerializeErr = .propagate
      · by_cases h2 : sh.onEnqueueErr = .propagate
        · by_cases h3 : sh.clearsOnOk = true
          · rw [(shapeSafe_iff sh).2 ⟨h1, h2, h3, h4, h5⟩] at hs
            exact absurd hs (by decide)
          · obtain ⟨u, hu⟩ := leak_noClear sh (by simpa using h3) sel
            exact ⟨_, _, _, hu, _, List.mem_singleton.2 rfl, hw⟩
        · have : sh.onEnqueueErr = .skip := by cases h : sh.onEnqueueErr <;> simp_all
          exact ⟨_, _, _, leak_enqueueSkip sh this sel, _, List.mem_singleton.2 rfl, hw⟩
      · have : sh.onSerializeErr = .skip := by cases h : sh.onSerializeErr <;> simp_all
        exact ⟨_, _, _, leak_serializeSkip sh this sel, _, List.mem_singleton.2 rfl, hw⟩
    · exact ⟨_, _, _, leak_noStripOnErr sh (by simpa using h4) sel, _, List.mem_singleton.2 rfl, hw⟩
  · exact ⟨_, _, _, leak_notEnqueueing sh (by simpa using h5) sel, _, List.mem_singleton.2 rfl, hw⟩

/-- in `notes` mode the filter output is the message-wise specification -/
theorem applyStorageMode_notes (sel : Str → Bool) (env : UploadEnv) (ps : List Prompt) :
    applyStorageMode sel env .notes ps = some (ps.map (specPrompt sel)) := by
  obtain ⟨n, hn⟩ := redactPrompts_eq sel ps
  simp [applyStorageMode, hn]

/-- the filter never panics -/
theorem applyStorageMode_total (sel : Str → Bool) (env : UploadEnv) (mode : Mode) (ps : List Prompt) :
    ∃ out, applyStorageMode sel env mode ps = some out := by
  obtain ⟨n, hn⟩ := redactPrompts_eq sel ps
  cases mode with
  | default =>
    simp only [applyStorageMode, defaultArm, hn, Option.bind_some]
    split <;> simp
  | _ => simp [applyStorageMode, hn]

/-! ## histories -/

/-- every prompt of every note ever written satisfies `Q` on its messages -/
def NotesSat (Q : List Msg → Prop) (st : St) : Prop := ∀ n ∈ st.notes, ∀ p ∈ n, Q p.messages

theorem assemble_sat (Q : List Msg → Prop) (hQ : Q []) (src : List Prompt)
    (hsrc : ∀ p ∈ src, Q p.messages) : ∀ picks, ∀ p ∈ assemble src picks, Q p.messages := by
  intro picks
  induction picks with
  | nil => intro p hp; simp [assemble] at hp
  | cons k ks ih =>
    intro p hp
    unfold assemble at hp
    split at hp
    · exact ih p hp
    · rename_i q hq
      simp only [List.mem_cons] at hp
      rcases hp with rfl | hp
      · split
        · exact hsrc q (List.mem_of_getElem? hq)
        · exact hQ
      · exact ih p hp

/-- **generic invariant**: if the filter establishes `Q` and every working-log reader that writes
    to the shared ref filters, `Q` holds of every note after every history. -/
theorem run_preserves (Q : List Msg → Prop) (hQ : Q []) (sel : Str → Bool) (env : UploadEnv) (mode : Mode)
    (hfilter : ∀ ps out, applyStorageMode sel env mode ps = some out → ∀ p ∈ out, Q p.messages)
    (table : List Writer) (hT : tableOk table = true) :
    ∀ (steps : List Step) (st st' : St),
      (∀ w picks, Step.write w picks ∈ steps → w ∈ table) →
      NotesSat Q st → run sel env mode st steps = some st' → NotesSat Q st' := by
  intro steps
  induction steps with
  | nil => intro st st' _ hinv hrun; simp only [run, Option.some.injEq] at hrun; subst hrun; exact hinv
  | cons s ss ih =>
    intro st st' hmem hinv hrun
    simp only [run] at hrun
    cases hstep : step sel env mode st s with
    | none => simp [hstep] at hrun
    | some st1 =>
      simp only [hstep, Option.bind_some] at hrun
      refine ih st1 st' (fun w picks h => hmem w picks (List.mem_cons_of_mem _ h)) ?_ hrun
      cases s with
      | checkpoint ps =>
        simp only [step, Option.some.injEq] at hstep
        subst hstep; exact hinv
      | write w picks =>
        have hw : w ∈ table := hmem w picks (List.mem_cons_self ..)
        have hok : writerOk w = true := by
          simp only [tableOk, List.all_eq_true] at hT; exact hT w hw
        simp only [step] at hstep
        cases hout : (if w.filters = true then applyStorageMode sel env mode (assemble (sources w st) picks)
            else some (assemble (sources w st) picks)) with
        | none => simp [hout] at hstep
        | some out =>
          simp only [hout, Option.bind_some] at hstep
          cases htgt : w.target with
          | stashNotes =>
            simp only [htgt, Option.some.injEq] at hstep
            subst hstep; exact hinv
          | aiNotes =>
            simp only [htgt, Option.some.injEq] at hstep
            subst hstep
            intro n hn p hp
            simp only [List.mem_cons] at hn
            rcases hn with rfl | hn
            · by_cases hf : w.filters = true
              · simp only [hf, if_true] at hout
                exact hfilter _ _ hout p hp
              · simp only [hf] at hout
                simp only [Bool.false_eq_true, if_false, Option.some.injEq] at hout
                subst hout
                have hnr : w.readsWorkingLog = false := by
                  simp only [writerOk, htgt] at hok
                  cases h : w.readsWorkingLog <;> simp_all
                refine assemble_sat Q hQ _ ?_ picks p hp
                intro q hq
                simp only [sources, hnr, Bool.false_eq_true, if_false, List.nil_append, List.mem_flatten] at hq
                obtain ⟨n', hn', hq'⟩ := hq
                exact hinv n' hn' q hq'
            · exact hinv n hn p hp

end GitAi.Redact
