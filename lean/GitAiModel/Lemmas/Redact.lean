/-
  Lemmas/Redact.lean — specification-level view of `redact_secrets_in_text` and the proof that
  the index/slice model (`Model/Redact.lean`) refines it without ever reaching a panic.

    spec      : run-based rewriting of a text (no indices)
    runsOf    : maximal secret-character runs of a text
    pipe      : select + rebuild fused (proof device)
-/
import GitAiModel.Model.Redact
namespace GitAi.Redact
open GitAi

/-! ## byte offsets -/

theorem utf8Len_pos (c : Char) : 1 ≤ utf8Len c := by
  unfold utf8Len; repeat' split
  all_goals omega

theorem byteLen_append (a b : Str) : byteLen (a ++ b) = byteLen a + byteLen b := by
  induction a with
  | nil => simp [byteLen]
  | cons c cs ih => simp [byteLen, ih]; omega

@[simp] theorem dropBytes_zero (s : Str) : dropBytes s 0 = some s := by
  cases s <;> rfl

@[simp] theorem takeBytes_zero (s : Str) : takeBytes s 0 = some [] := by
  cases s <;> rfl

theorem dropBytes_append (p q : Str) : dropBytes (p ++ q) (byteLen p) = some q := by
  induction p with
  | nil => simp [byteLen]
  | cons c cs ih =>
    have h := utf8Len_pos c
    obtain ⟨n, hn⟩ : ∃ n, utf8Len c + byteLen cs = n + 1 := ⟨utf8Len c + byteLen cs - 1, by omega⟩
    simp only [List.cons_append, byteLen, hn, dropBytes]
    rw [if_pos (by omega)]
    have : n + 1 - utf8Len c = byteLen cs := by omega
    rw [this, ih]

theorem takeBytes_append (p q : Str) : takeBytes (p ++ q) (byteLen p) = some p := by
  induction p with
  | nil => simp [byteLen]
  | cons c cs ih =>
    have h := utf8Len_pos c
    obtain ⟨n, hn⟩ : ∃ n, utf8Len c + byteLen cs = n + 1 := ⟨utf8Len c + byteLen cs - 1, by omega⟩
    simp only [List.cons_append, byteLen, hn, takeBytes]
    rw [if_pos (by omega)]
    have : n + 1 - utf8Len c = byteLen cs := by omega
    rw [this, ih]; rfl

/-- a slice whose ends are the byte lengths of prefixes is always on char boundaries -/
theorem strSlice_mid (a m r : Str) :
    strSlice (a ++ m ++ r) (byteLen a) (byteLen a + byteLen m) = some m := by
  unfold strSlice
  rw [if_pos (by omega), List.append_assoc, dropBytes_append]
  simp only [Option.bind_some]
  have : byteLen a + byteLen m - byteLen a = byteLen m := by omega
  rw [this, takeBytes_append]

/-! ## secret characters are one byte wide -/

def allSecret (s : Str) : Bool := s.all isSecretChar

theorem isSecretChar_ascii (c : Char) (h : isSecretChar c = true) : utf8Len c = 1 := by
  have : c.toNat < 0x80 := by
    simp only [isSecretChar, isAsciiAlnum, Bool.or_eq_true, Bool.and_eq_true, decide_eq_true_eq,
      beq_iff_eq] at h
    rcases h with (((((h | h) | h) | h) | h) | h) | h
    · omega
    all_goals (subst h; decide)
  simp [utf8Len, this]

theorem byteLen_allSecret (s : Str) (h : allSecret s = true) : byteLen s = s.length := by
  induction s with
  | nil => rfl
  | cons c cs ih =>
    simp only [allSecret, List.all_cons, Bool.and_eq_true] at h
    simp only [byteLen, List.length_cons, isSecretChar_ascii c h.1]
    rw [ih (by simpa [allSecret] using h.2)]; omega

theorem allSecret_append (a b : Str) : allSecret (a ++ b) = (allSecret a && allSecret b) := by
  simp [allSecret]

theorem allSecret_take (s : Str) (n : Nat) (h : allSecret s = true) : allSecret (s.take n) = true := by
  simp only [allSecret, List.all_eq_true] at h ⊢
  intro x hx; exact h x (List.mem_of_mem_take hx)

theorem allSecret_drop (s : Str) (n : Nat) (h : allSecret s = true) : allSecret (s.drop n) = true := by
  simp only [allSecret, List.all_eq_true] at h ⊢
  intro x hx; exact h x (List.mem_of_mem_drop hx)

/-! ## the mask -/

/-- what `redact_secret` returns on a long token: 4 visible, eight stars, 4 visible -/
def mask (r : Str) : Str := r.take visibleChars ++ stars 8 ++ r.drop (r.length - visibleChars)

theorem redactSecret_run (r : Str) (hs : allSecret r = true) (hl : visibleChars * 2 < r.length) :
    redactSecret r = some (mask r) := by
  have hb := byteLen_allSecret r hs
  have hv : visibleChars = 4 := rfl
  unfold redactSecret
  simp only [hb]
  rw [if_neg (by omega)]
  have h1 : strSlice r 0 visibleChars = some (r.take visibleChars) := by
    have := strSlice_mid [] (r.take visibleChars) (r.drop visibleChars)
    simp only [List.nil_append, List.take_append_drop, byteLen, Nat.zero_add] at this
    rw [byteLen_allSecret _ (allSecret_take r _ hs), List.length_take, Nat.min_eq_left (by omega)] at this
    exact this
  have h2 : strSlice r (r.length - visibleChars) r.length = some (r.drop (r.length - visibleChars)) := by
    have := strSlice_mid (r.take (r.length - visibleChars)) (r.drop (r.length - visibleChars)) []
    simp only [List.append_nil, List.take_append_drop] at this
    rw [byteLen_allSecret _ (allSecret_take r _ hs), byteLen_allSecret _ (allSecret_drop r _ hs),
      List.length_take, List.length_drop, Nat.min_eq_left (by omega)] at this
    have e : r.length - visibleChars + (r.length - (r.length - visibleChars)) = r.length := by omega
    rw [e] at this
    exact this
  rw [h1, h2]; rfl

/-! ## the specification: rewrite maximal runs, no indices -/

/-- what happens to one maximal secret-char run -/
def flush (sel : Str → Bool) (run : Str) : Str :=
  if inWindow run.length && sel run then mask run else run

def flushCount (sel : Str → Bool) (run : Str) : Nat :=
  if inWindow run.length && sel run then 1 else 0

/-- `spec sel run rest`: `run` is the secret-char run collected so far, `rest` the unread text -/
def spec (sel : Str → Bool) : Str → Str → Str
  | run, [] => flush sel run
  | run, c :: cs =>
    if isSecretChar c then spec sel (run ++ [c]) cs else flush sel run ++ c :: spec sel [] cs

def specCount (sel : Str → Bool) : Str → Str → Nat
  | run, [] => flushCount sel run
  | run, c :: cs =>
    if isSecretChar c then specCount sel (run ++ [c]) cs else flushCount sel run + specCount sel [] cs

/-! ## select + rebuild fused -/

def pipe (sel : Str → Bool) (T : Str) : List (Nat × Nat) → Nat → Str → Nat → Option (Str × Nat)
  | [], prev, acc, k => (dropBytes T prev).bind fun tail => some (acc ++ tail, k)
  | (s, e) :: rest, prev, acc, k =>
    (strSlice T s e).bind fun tok =>
      if sel tok then
        (strSlice T prev s).bind fun before =>
        (redactSecret tok).bind fun red =>
        pipe sel T rest e (acc ++ before ++ red) (k + 1)
      else pipe sel T rest prev acc k

theorem pipe_eq (sel : Str → Bool) (T : Str) (toks : List (Nat × Nat)) :
    ∀ prev acc k,
      ((selectSecrets sel T toks).bind fun secrets =>
        (rebuild T secrets prev acc).bind fun out => some (out, k + secrets.length))
        = pipe sel T toks prev acc k := by
  induction toks with
  | nil =>
    intro prev acc k
    cases h : dropBytes T prev <;> simp [selectSecrets, rebuild, pipe, h]
  | cons t toks ih =>
    intro prev acc k
    obtain ⟨s, e⟩ := t
    simp only [selectSecrets, pipe]
    cases h1 : strSlice T s e with
    | none => simp
    | some tok =>
      simp only [Option.bind_some]
      by_cases hsel : sel tok = true
      · simp only [hsel, if_true]
        cases h2 : strSlice T prev s with
        | none =>
          cases selectSecrets sel T toks <;> simp [rebuild, h2]
        | some before =>
          cases h3 : redactSecret tok with
          | none =>
            cases selectSecrets sel T toks <;> simp [rebuild, h2, h1, h3]
          | some red =>
            simp only [Option.bind_some]
            rw [← ih e (acc ++ before ++ red) (k + 1)]
            cases selectSecrets sel T toks with
            | none => simp
            | some more =>
              simp only [Option.bind_some, rebuild, h2, h1, h3, List.length_cons]
              have : k + (more.length + 1) = k + 1 + more.length := by omega
              rw [this]
      · simp only [hsel]
        rw [← ih prev acc k]
        cases selectSecrets sel T toks <;> simp

theorem redactText_eq_pipe (sel : Str → Bool) (T : Str) :
    redactText sel T = pipe sel T (extractTokens T) 0 [] 0 := by
  rw [← pipe_eq]
  unfold redactText
  cases selectSecrets sel T (extractTokens T) with
  | none => simp
  | some secrets =>
    simp only [Option.bind_some]
    cases secrets with
    | nil => simp [rebuild]
    | cons a l => simp

/-! ## the scan/select/rebuild pipeline computes `spec` and never panics -/

theorem inWindow_zero : inWindow 0 = false := by decide

theorem inWindow_long (n : Nat) (h : inWindow n = true) : visibleChars * 2 < n := by
  simp [inWindow, minSecretLen, maxSecretLen] at h
  have := h.1
  simp only [visibleChars]; omega

/-- consuming the (at most one) token that closes the current run -/
theorem pipe_flush (sel : Str → Bool) (T prevA gap run R : Str) (toks : List (Nat × Nat))
    (acc : Str) (k : Nat)
    (hT : T = prevA ++ gap ++ run ++ R) (hs : allSecret run = true) :
    pipe sel T (flushCur (if run.isEmpty then none else some (byteLen prevA + byteLen gap))
                  (byteLen prevA + byteLen gap + run.length) ++ toks) (byteLen prevA) acc k
      = if (inWindow run.length && sel run) = true
        then pipe sel T toks (byteLen prevA + byteLen gap + run.length) (acc ++ gap ++ mask run) (k + 1)
        else pipe sel T toks (byteLen prevA) acc k := by
  cases hrun : run with
  | nil => simp [flushCur, inWindow_zero]
  | cons x xs =>
    rw [← hrun]
    have hne : run.isEmpty = false := by simp [hrun]
    simp only [hne, flushCur, emitTok, Bool.false_eq_true, if_false]
    have hsub : byteLen prevA + byteLen gap + run.length - (byteLen prevA + byteLen gap) = run.length := by omega
    rw [hsub]
    by_cases hw : inWindow run.length = true
    · simp only [hw, if_true, List.cons_append, List.nil_append, pipe, Bool.true_and]
      have hb := byteLen_allSecret run hs
      have h1 : strSlice T (byteLen prevA + byteLen gap) (byteLen prevA + byteLen gap + run.length) = some run := by
        have := strSlice_mid (prevA ++ gap) run R
        rw [byteLen_append, hb, ← hT] at this
        exact this
      have h2 : strSlice T (byteLen prevA) (byteLen prevA + byteLen gap) = some gap := by
        have := strSlice_mid prevA gap (run ++ R)
        rw [← List.append_assoc, ← hT] at this
        exact this
      rw [h1]
      simp only [Option.bind_some]
      by_cases hsel : sel run = true
      · simp only [hsel, if_true, h2, Option.bind_some, redactSecret_run run hs (inWindow_long _ hw)]
      · simp only [hsel]; simp
    · simp only [hw]; simp

theorem pipe_scan (sel : Str → Bool) (T : Str) :
    ∀ (rest prevA gap run acc : Str) (k : Nat),
      T = prevA ++ gap ++ run ++ rest → allSecret run = true →
      pipe sel T (scan rest (byteLen prevA + byteLen gap + run.length)
                    (if run.isEmpty then none else some (byteLen prevA + byteLen gap)))
           (byteLen prevA) acc k
        = some (acc ++ gap ++ spec sel run rest, k + specCount sel run rest) := by
  intro rest
  induction rest with
  | nil =>
    intro prevA gap run acc k hT hs
    have hb := byteLen_allSecret run hs
    have := pipe_flush sel T prevA gap run [] [] acc k hT hs
    simp only [List.append_nil] at this
    simp only [scan, this, spec, specCount, flush, flushCount]
    simp only [List.append_nil] at hT
    split
    · have hd : dropBytes T (byteLen prevA + byteLen gap + run.length) = some [] := by
        have := dropBytes_append (prevA ++ gap ++ run) []
        rw [List.append_nil, byteLen_append, byteLen_append, hb, ← hT] at this
        exact this
      simp [pipe, hd]
    · have hd : dropBytes T (byteLen prevA) = some (gap ++ run) := by
        have := dropBytes_append prevA (gap ++ run)
        rw [← List.append_assoc, ← hT] at this
        exact this
      simp [pipe, hd]
  | cons c cs ih =>
    intro prevA gap run acc k hT hs
    have hb := byteLen_allSecret run hs
    by_cases hc : isSecretChar c = true
    · simp only [scan, hc, if_true, spec, specCount]
      have hT' : T = prevA ++ gap ++ (run ++ [c]) ++ cs := by simp [hT]
      have hs' : allSecret (run ++ [c]) = true := by
        rw [allSecret_append, hs]; simp [allSecret, hc]
      have := ih prevA gap (run ++ [c]) acc k hT' hs'
      have hne : (run ++ [c]).isEmpty = false := by simp
      simp only [hne, List.length_append, List.length_cons, List.length_nil, Bool.false_eq_true, if_false] at this
      have hcur : (if run.isEmpty then none else some (byteLen prevA + byteLen gap)).getD
            (byteLen prevA + byteLen gap + run.length) = byteLen prevA + byteLen gap := by
        cases run <;> simp
      rw [hcur]
      have e : byteLen prevA + byteLen gap + (run.length + (0 + 1)) = byteLen prevA + byteLen gap + run.length + 1 := by omega
      rw [e] at this
      exact this
    · have hc' : isSecretChar c = false := by simpa using hc
      simp only [scan, hc', Bool.false_eq_true, if_false, spec, specCount]
      rw [pipe_flush sel T prevA gap run (c :: cs) _ acc k hT hs]
      split
      · rename_i hcond
        have hT' : T = (prevA ++ gap ++ run) ++ [c] ++ [] ++ cs := by simp [hT]
        have := ih (prevA ++ gap ++ run) [c] [] (acc ++ gap ++ mask run) (k + 1) hT' rfl
        simp only [byteLen_append, byteLen, hb, List.isEmpty_nil, if_true, List.length_nil, Nat.add_zero] at this
        rw [this]
        simp only [flush, flushCount, hcond, if_true]
        simp only [List.append_assoc, List.cons_append, List.nil_append]
        congr 2; omega
      · rename_i hcond
        have hT' : T = prevA ++ (gap ++ run ++ [c]) ++ [] ++ cs := by simp [hT]
        have := ih prevA (gap ++ run ++ [c]) [] acc k hT' rfl
        simp only [byteLen_append, byteLen, hb, List.isEmpty_nil, if_true, List.length_nil, Nat.add_zero] at this
        have e : byteLen prevA + (byteLen gap + run.length + utf8Len c) = byteLen prevA + byteLen gap + run.length + utf8Len c := by omega
        rw [e] at this
        rw [this]
        simp only [flush, flushCount, hcond]
        simp only [List.append_assoc, List.cons_append, List.nil_append]
        simp

/-- **refinement**: the byte-offset model computes the run-based specification and never
    reaches a panicking slice, for every text and every classifier. -/
theorem redactText_eq_spec (sel : Str → Bool) (T : Str) :
    redactText sel T = some (spec sel [] T, specCount sel [] T) := by
  rw [redactText_eq_pipe]
  have := pipe_scan sel T T [] [] [] [] 0 (by simp) rfl
  simpa [extractTokens, byteLen] using this

end GitAi.Redact
