/-
  Lemmas/RedactJson.lean — the JSON traversal of `redact_secrets_in_json` (Model/RedactJson.lean),
  generically in the text redaction `g` and its specification `f`:

    redactJWith_eq        : the traversal never panics and computes `specJWith f`
    strings_specJWith     : every string of the result (leaf or key, any depth) is `f s` for a string `s`
                            of the input
    shape lemmas          : arrays are mapped element-wise; scalars untouched; an object is rebuilt by
                            `Map::insert` from the rewritten entries (`fromPairs`), whose keys are exactly
                            the rewritten keys, and — when no two rewritten keys coincide — whose entries
                            are exactly the rewritten entries
-/
import GitAiModel.Model.RedactJson
namespace GitAi.Redact
open GitAi

/-! ## the traversal computes its specification -/

/-- what the text redaction must satisfy: it returns `f s` and a count, and a zero count means
    nothing changed (the Rust code only assigns `*text = redacted` when `count > 0`) -/
def TextRefines (g : Str → Option (Str × Nat)) (f : Str → Str) : Prop :=
  ∀ s, ∃ n, g s = some (f s, n) ∧ (n = 0 → f s = s)

mutual
theorem redactJWith_eq {g : Str → Option (Str × Nat)} {f : Str → Str} (hg : TextRefines g f) :
    (j : J) → ∃ n, redactJWith g j = some (specJWith f j, n)
  | .null => ⟨0, rfl⟩
  | .bool _ => ⟨0, rfl⟩
  | .num _ => ⟨0, rfl⟩
  | .str s => by
    obtain ⟨n, h, h0⟩ := hg s
    refine ⟨n, ?_⟩
    simp only [redactJWith, specJWith, h, Option.bind_some]
    by_cases hn : n > 0
    · simp [hn]
    · have : n = 0 := by omega
      simp [this, h0 this]
  | .arr xs => by
    obtain ⟨n, h⟩ := redactJListWith_eq hg xs
    exact ⟨n, by simp [redactJWith, specJWith, h]⟩
  | .obj kvs => by
    obtain ⟨n, h⟩ := redactJFieldsWith_eq hg kvs .nil
    exact ⟨n, by simp [redactJWith, specJWith, h]⟩
theorem redactJListWith_eq {g : Str → Option (Str × Nat)} {f : Str → Str} (hg : TextRefines g f) :
    (xs : JList) → ∃ n, redactJListWith g xs = some (specJListWith f xs, n)
  | .nil => ⟨0, rfl⟩
  | .cons x xs => by
    obtain ⟨a, ha⟩ := redactJWith_eq hg x
    obtain ⟨b, hb⟩ := redactJListWith_eq hg xs
    exact ⟨a + b, by simp [redactJListWith, specJListWith, ha, hb]⟩
theorem redactJFieldsWith_eq {g : Str → Option (Str × Nat)} {f : Str → Str} (hg : TextRefines g f) :
    (kvs : JFields) → ∀ acc, ∃ n, redactJFieldsWith g kvs acc = some (specJFieldsWith f kvs acc, n)
  | .nil => fun _ => ⟨0, rfl⟩
  | .cons k v rest => fun acc => by
    obtain ⟨a, ha⟩ := redactJWith_eq hg v
    obtain ⟨b, hb, _⟩ := hg k
    obtain ⟨c, hc⟩ := redactJFieldsWith_eq hg rest (acc.insert (f k) (specJWith f v))
    exact ⟨a + b + c, by simp [redactJFieldsWith, specJFieldsWith, ha, hb, hc]⟩
end

/-! ## every string of the result is an image of `f` -/

theorem insert_strings (k : Str) (v : J) :
    (acc : JFields) → ∀ t ∈ (acc.insert k v).strings, t = k ∨ t ∈ v.strings ∨ t ∈ acc.strings
  | .nil => by
    intro t ht
    simp only [JFields.insert, JFields.strings, List.append_nil, List.mem_cons] at ht
    rcases ht with h | h
    · exact .inl h
    · exact .inr (.inl h)
  | .cons k' v' rest => by
    intro t ht
    simp only [JFields.insert] at ht
    split at ht
    · simp only [JFields.strings, List.mem_cons, List.mem_append] at ht ⊢
      rcases ht with h | h | h
      · exact .inl h
      · exact .inr (.inl h)
      · exact .inr (.inr (.inr (.inr h)))
    · split at ht
      · simp only [JFields.strings, List.mem_cons, List.mem_append] at ht ⊢
        rcases ht with h | h | h | h | h
        · exact .inl h
        · exact .inr (.inl h)
        · exact .inr (.inr (.inl h))
        · exact .inr (.inr (.inr (.inl h)))
        · exact .inr (.inr (.inr (.inr h)))
      · simp only [JFields.strings, List.mem_cons, List.mem_append] at ht ⊢
        rcases ht with h | h | h
        · exact .inr (.inr (.inl h))
        · exact .inr (.inr (.inr (.inl h)))
        · rcases insert_strings k v rest t h with h | h | h
          · exact .inl h
          · exact .inr (.inl h)
          · exact .inr (.inr (.inr (.inr h)))

mutual
theorem strings_specJWith (f : Str → Str) :
    (j : J) → ∀ t ∈ (specJWith f j).strings, ∃ s ∈ j.strings, t = f s
  | .null => by intro t ht; simp [specJWith, J.strings] at ht
  | .bool _ => by intro t ht; simp [specJWith, J.strings] at ht
  | .num _ => by intro t ht; simp [specJWith, J.strings] at ht
  | .str s => by
    intro t ht
    simp only [specJWith, J.strings, List.mem_singleton] at ht
    exact ⟨s, by simp [J.strings], ht⟩
  | .arr xs => by
    intro t ht
    simp only [specJWith, J.strings] at ht ⊢
    exact strings_specJListWith f xs t ht
  | .obj kvs => by
    intro t ht
    simp only [specJWith, J.strings] at ht ⊢
    rcases strings_specJFieldsWith f kvs .nil t ht with h | h
    · simp [JFields.strings] at h
    · exact h
theorem strings_specJListWith (f : Str → Str) :
    (xs : JList) → ∀ t ∈ (specJListWith f xs).strings, ∃ s ∈ xs.strings, t = f s
  | .nil => by intro t ht; simp [specJListWith, JList.strings] at ht
  | .cons x xs => by
    intro t ht
    simp only [specJListWith, JList.strings, List.mem_append] at ht ⊢
    rcases ht with h | h
    · obtain ⟨s, hs, e⟩ := strings_specJWith f x t h
      exact ⟨s, .inl hs, e⟩
    · obtain ⟨s, hs, e⟩ := strings_specJListWith f xs t h
      exact ⟨s, .inr hs, e⟩
theorem strings_specJFieldsWith (f : Str → Str) :
    (kvs : JFields) → ∀ acc, ∀ t ∈ (specJFieldsWith f kvs acc).strings,
      t ∈ acc.strings ∨ ∃ s ∈ kvs.strings, t = f s
  | .nil => by intro acc t ht; exact .inl ht
  | .cons k v rest => by
    intro acc t ht
    simp only [specJFieldsWith] at ht
    rcases strings_specJFieldsWith f rest _ t ht with h | ⟨s, hs, e⟩
    · rcases insert_strings _ _ acc t h with h | h | h
      · exact .inr ⟨k, by simp [JFields.strings], h⟩
      · obtain ⟨s, hs, e⟩ := strings_specJWith f v t h
        exact .inr ⟨s, by simp [JFields.strings, hs], e⟩
      · exact .inl h
    · exact .inr ⟨s, by simp [JFields.strings, hs], e⟩
end

/-! ## shape -/

theorem specJListWith_toList (f : Str → Str) :
    (xs : JList) → (specJListWith f xs).toList = xs.toList.map (specJWith f)
  | .nil => rfl
  | .cons x xs => by simp [specJListWith, JList.toList, specJListWith_toList f xs]

/-- `Map::insert` of a list of entries, in list order -/
def fromPairs (l : List (Str × J)) (acc : JFields) : JFields :=
  l.foldl (fun a p => a.insert p.1 p.2) acc

theorem specJFieldsWith_eq_fromPairs (f : Str → Str) :
    (kvs : JFields) → ∀ acc, specJFieldsWith f kvs acc =
      fromPairs (kvs.toList.map fun p => (f p.1, specJWith f p.2)) acc
  | .nil => fun _ => rfl
  | .cons k v rest => fun acc => by
    simp [specJFieldsWith, JFields.toList, fromPairs, specJFieldsWith_eq_fromPairs f rest]

def JFields.keys (m : JFields) : List Str := m.toList.map (·.1)

theorem insert_keys (k : Str) (v : J) :
    (acc : JFields) → ∀ x, x ∈ (acc.insert k v).keys ↔ x = k ∨ x ∈ acc.keys
  | .nil => by intro x; simp [JFields.insert, JFields.keys, JFields.toList]
  | .cons k' v' rest => by
    intro x
    have ih := insert_keys k v rest x
    simp only [JFields.keys] at ih
    simp only [JFields.insert]
    split
    · rename_i h; subst h
      simp [JFields.keys, JFields.toList]
    · split
      · simp [JFields.keys, JFields.toList]
      · simp only [JFields.keys, JFields.toList, List.map_cons, List.mem_cons, ih]
        constructor
        · rintro (h | h | h)
          · exact .inr (.inl h)
          · exact .inl h
          · exact .inr (.inr h)
        · rintro (h | h | h)
          · exact .inr (.inl h)
          · exact .inl h
          · exact .inr (.inr h)

/-- inserting a key that is not there adds exactly that entry -/
theorem insert_perm (k : Str) (v : J) :
    (acc : JFields) → k ∉ acc.keys → ((acc.insert k v).toList).Perm ((k, v) :: acc.toList)
  | .nil => by intro _; simp [JFields.insert, JFields.toList]
  | .cons k' v' rest => by
    intro hk
    have hk' : k ≠ k' ∧ k ∉ rest.keys := by
      simp only [JFields.keys, JFields.toList, List.map_cons, List.mem_cons, not_or] at hk
      exact hk
    simp only [JFields.insert, hk'.1, if_false]
    split
    · simp only [JFields.toList]; exact List.Perm.refl _
    · simp only [JFields.toList]
      exact ((insert_perm k v rest hk'.2).cons (k', v')).trans (List.Perm.swap _ _ _)

theorem fromPairs_keys : ∀ (l : List (Str × J)) (acc : JFields) (x : Str),
    x ∈ (fromPairs l acc).keys ↔ x ∈ l.map (·.1) ∨ x ∈ acc.keys
  | [], acc, x => by simp [fromPairs]
  | p :: l, acc, x => by
    have := fromPairs_keys l (acc.insert p.1 p.2) x
    simp only [fromPairs, List.foldl_cons] at this ⊢
    rw [this, insert_keys]
    simp only [List.map_cons, List.mem_cons]
    constructor
    · rintro (h | h | h)
      · exact .inl (.inr h)
      · exact .inl (.inl h)
      · exact .inr h
    · rintro ((h | h) | h)
      · exact .inr (.inl h)
      · exact .inl h
      · exact .inr (.inr h)

/-- without key collisions the rebuilt map holds exactly the given entries -/
theorem fromPairs_perm : ∀ (l : List (Str × J)) (acc : JFields),
    (l.map (·.1)).Nodup → (∀ x ∈ l.map (·.1), x ∉ acc.keys) →
    ((fromPairs l acc).toList).Perm (l ++ acc.toList)
  | [], acc, _, _ => by simp [fromPairs]
  | p :: l, acc, hnd, hdis => by
    simp only [List.map_cons, List.nodup_cons] at hnd
    have hp : p.1 ∉ acc.keys := hdis p.1 (by simp)
    have hdis' : ∀ x ∈ l.map (·.1), x ∉ (acc.insert p.1 p.2).keys := by
      intro x hx
      rw [insert_keys]
      rintro (h | h)
      · subst h; exact hnd.1 hx
      · exact hdis x (by simp [hx]) h
    have h1 := fromPairs_perm l (acc.insert p.1 p.2) hnd.2 hdis'
    simp only [fromPairs, List.foldl_cons] at h1 ⊢
    refine h1.trans ?_
    have h2 := insert_perm p.1 p.2 acc hp
    exact ((List.Perm.append_left l h2).trans List.perm_middle)

end GitAi.Redact
