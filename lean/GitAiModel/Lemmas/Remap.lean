/-
  Lemmas/Remap.lean — helper lemmas for the note-remap shortcut (C15).
-/
import GitAiModel.Model.Remap
import GitAiModel.Lemmas.NoteFormat
namespace GitAi.Remap
open GitAi GitAi.NoteFormat

/-! ### `stripPrefix` / `findSplit` (`str::find`) -/

theorem stripPrefix_append_self (p r : Str) : stripPrefix p (p ++ r) = some r := by
  induction p with
  | nil => cases r <;> simp [stripPrefix]
  | cons c cs ih => simp [stripPrefix, ih]

/-- a failed comparison stays failed when the text is extended by a char the pattern does not
    contain -/
theorem stripPrefix_none_append_sep (pat s z : Str) (sep : Char) (hsep : sep ∉ pat)
    (h : stripPrefix pat s = none) : stripPrefix pat (s ++ sep :: z) = none := by
  induction pat generalizing s with
  | nil => cases s <;> simp [stripPrefix] at h
  | cons p ps ih =>
    have hp : p ≠ sep := fun e => hsep (by simp [e])
    have hps : sep ∉ ps := fun e => hsep (by simp [e])
    cases s with
    | nil => simp [stripPrefix, hp]
    | cons c cs =>
      simp only [stripPrefix, List.cons_append] at h ⊢
      split
      · rename_i hpc
        simp only [hpc, if_true] at h
        exact ih cs hps h
      · rfl

/-- a failed comparison that saw the whole pattern stays failed under any extension -/
theorem stripPrefix_none_append_long (pat s z : Str) (hlen : pat.length ≤ s.length)
    (h : stripPrefix pat s = none) : stripPrefix pat (s ++ z) = none := by
  induction pat generalizing s with
  | nil => cases s <;> simp [stripPrefix] at h
  | cons p ps ih =>
    cases s with
    | nil => simp at hlen
    | cons c cs =>
      simp only [stripPrefix, List.cons_append] at h ⊢
      split
      · rename_i hpc
        simp only [hpc, if_true] at h
        exact ih cs (by simpa using hlen) h
      · rfl

theorem findSplit_none_cons (pat : Str) (c : Char) (cs : Str) (h : findSplit pat (c :: cs) = none) :
    stripPrefix pat (c :: cs) = none ∧ findSplit pat cs = none := by
  simp only [findSplit] at h
  cases hs : stripPrefix pat (c :: cs) with
  | some r => simp [hs] at h
  | none =>
    simp only [hs] at h
    cases hf : findSplit pat cs with
    | none => exact ⟨rfl, rfl⟩
    | some ab => simp [hf] at h

/-- `find` skips a pattern-free stretch that ends in a char the pattern does not contain -/
theorem findSplit_skip_sep (pat x z : Str) (sep : Char) (hne : pat ≠ []) (hsep : sep ∉ pat)
    (h : findSplit pat x = none) :
    findSplit pat (x ++ sep :: z) =
      match findSplit pat z with
      | none => none
      | some (a, b) => some (x ++ sep :: a, b) := by
  induction x with
  | nil =>
    have hs : stripPrefix pat (sep :: z) = none := by
      cases pat with
      | nil => exact absurd rfl hne
      | cons p ps =>
        have hp : p ≠ sep := fun e => hsep (by simp [e])
        simp [stripPrefix, hp]
    simp only [List.nil_append, findSplit, hs]
    cases findSplit pat z with
    | none => rfl
    | some ab => rfl
  | cons c cs ih =>
    obtain ⟨h1, h2⟩ := findSplit_none_cons pat c cs h
    have hs : stripPrefix pat (c :: cs ++ sep :: z) = none :=
      stripPrefix_none_append_sep pat (c :: cs) z sep hsep h1
    simp only [List.cons_append] at hs ⊢
    simp only [findSplit, hs, ih h2]
    cases findSplit pat z with
    | none => rfl
    | some ab => rfl

theorem length_dropLast_lt (pat : Str) (hne : pat ≠ []) : pat.dropLast.length + 1 = pat.length := by
  cases pat with
  | nil => exact absurd rfl hne
  | cons p ps => simp

/-- no occurrence starts inside `pre` ⇒ `find` returns the occurrence right after `pre` -/
theorem findSplit_at (pat pre y : Str) (hne : pat ≠ [])
    (h : findSplit pat (pre ++ pat.dropLast) = none) :
    findSplit pat (pre ++ pat ++ y) = some (pre, y) := by
  induction pre with
  | nil =>
    cases pat with
    | nil => exact absurd rfl hne
    | cons p ps =>
      simp only [List.nil_append, List.cons_append, findSplit]
      have := stripPrefix_append_self (p :: ps) y
      simp only [List.cons_append] at this
      simp [this]
  | cons c cs ih =>
    simp only [List.cons_append] at h
    obtain ⟨h1, h2⟩ := findSplit_none_cons pat c _ h
    have hlen : pat.length ≤ (c :: (cs ++ pat.dropLast)).length := by
      have := length_dropLast_lt pat hne
      simp only [List.length_cons, List.length_append]
      omega
    have hs := stripPrefix_none_append_long pat (c :: (cs ++ pat.dropLast)) (pat.getLast hne :: y) hlen h1
    have hre : c :: (cs ++ pat.dropLast) ++ pat.getLast hne :: y = c :: (cs ++ pat ++ y) := by
      have : pat.dropLast ++ [pat.getLast hne] = pat := List.dropLast_concat_getLast hne
      calc c :: (cs ++ pat.dropLast) ++ pat.getLast hne :: y
          = c :: (cs ++ (pat.dropLast ++ [pat.getLast hne]) ++ y) := by simp [List.append_assoc]
        _ = c :: (cs ++ pat ++ y) := by rw [this]
    rw [hre] at hs
    simp only [List.cons_append, findSplit, hs, ih h2]

/-! ### whitespace around the colon -/

theorem takeWs_append (w r : Str) (hw : ∀ c ∈ w, isJsonWs c = true)
    (hr : ∀ c, r.head? = some c → isJsonWs c = false) : takeWs (w ++ r) = w := by
  induction w with
  | nil =>
    cases r with
    | nil => rfl
    | cons c cs => simp [takeWs, hr c (by simp)]
  | cons c cs ih =>
    simp [takeWs, hw c (by simp), ih (fun x hx => hw x (by simp [hx]))]

theorem dropWs_append (w r : Str) (hw : ∀ c ∈ w, isJsonWs c = true)
    (hr : ∀ c, r.head? = some c → isJsonWs c = false) : dropWs (w ++ r) = r := by
  induction w with
  | nil =>
    cases r with
    | nil => rfl
    | cons c cs => simp [dropWs, hr c (by simp)]
  | cons c cs ih =>
    simp [dropWs, hw c (by simp), ih (fun x hx => hw x (by simp [hx]))]

/-! ### the value scanner against serde's escaping -/

theorem hexDigit_plain (n : Nat) (h : n < 16) : hexDigit n ≠ '"' ∧ hexDigit n ≠ '\\' := by
  have : ∀ k : Fin 16, hexDigit k.val ≠ '"' ∧ hexDigit k.val ≠ '\\' := by decide
  exact this ⟨n, h⟩

theorem scanValue_plain (c : Char) (r : Str) (h1 : c ≠ '"') (h2 : c ≠ '\\') :
    scanValue (c :: r) =
      match scanValue r with
      | none => none
      | some (v, r') => some (c :: v, r') := by
  rw [scanValue.eq_def]
  simp only [h1, h2, if_false]
  cases scanValue r with
  | none => rfl
  | some vr => rfl

theorem scanValue_backslash (d : Char) (r : Str) :
    scanValue ('\\' :: d :: r) =
      match scanValue r with
      | none => none
      | some (v, r') => some ('\\' :: d :: v, r') := by
  rw [scanValue.eq_def]
  simp only [show ('\\' : Char) ≠ '"' by decide, if_false, if_true]
  cases scanValue r with
  | none => rfl
  | some vr => rfl

/-- **JSON-escaping lemma.** In serde's escaping of one char a `"` only ever follows a `\`
    and backslashes come in consumed pairs, so the value loop walks across it. -/
theorem scanValue_escapeChar (c : Char) (r : Str) :
    scanValue (escapeChar c ++ r) =
      match scanValue r with
      | none => none
      | some (v, r') => some (escapeChar c ++ v, r') := by
  unfold escapeChar
  split
  · exact scanValue_backslash _ r
  split
  · exact scanValue_backslash _ r
  split
  · exact scanValue_backslash _ r
  split
  · exact scanValue_backslash _ r
  split
  · exact scanValue_backslash _ r
  split
  · exact scanValue_backslash _ r
  split
  · exact scanValue_backslash _ r
  split
  · rename_i hlt
    have h16 : c.toNat / 16 < 16 := by omega
    have hm : c.toNat % 16 < 16 := Nat.mod_lt _ (by decide)
    obtain ⟨a1, a2⟩ := hexDigit_plain _ h16
    obtain ⟨b1, b2⟩ := hexDigit_plain _ hm
    simp only [List.cons_append, List.nil_append]
    rw [scanValue_backslash, scanValue_plain '0' _ (by decide) (by decide),
      scanValue_plain '0' _ (by decide) (by decide), scanValue_plain _ _ a1 a2,
      scanValue_plain _ _ b1 b2]
    cases scanValue r with
    | none => rfl
    | some vr => rfl
  · rename_i h1 h2 _ _ _ _ _ _
    simp only [List.cons_append, List.nil_append]
    exact scanValue_plain c r h1 h2

theorem scanValue_jsonEscape (s post : Str) :
    scanValue (jsonEscape s ++ '"' :: post) = some (jsonEscape s, '"' :: post) := by
  induction s with
  | nil => rw [jsonEscape, List.nil_append, scanValue.eq_def]; simp
  | cons c cs ih =>
    simp only [jsonEscape, List.append_assoc]
    rw [scanValue_escapeChar, ih]

end GitAi.Remap

namespace GitAi.Remap
open GitAi GitAi.NoteFormat

/-! ### the field scanner on serde-shaped metadata -/

/-- decidable side conditions on the metadata text around the base field -/
def allWs (w : Str) : Bool := w.all isJsonWs

/-- no occurrence of the field name starts inside `pre` (overlaps with the real field name
    included) — a fact about serde's output for `AuthorshipMetadata`, asserted per case in the
    correspondence -/
def prefixOk (pre : Str) : Bool := (findSplit fieldName (pre ++ fieldName.dropLast)).isNone

theorem fieldName_ne_nil : fieldName ≠ [] := by decide

theorem splitField_metaJson (pre w1 w2 b post : Str)
    (hpre : prefixOk pre = true) (hw1 : allWs w1 = true) (hw2 : allWs w2 = true) :
    splitField (metaJson pre w1 w2 (jsonEscape b) post) =
      some (pre ++ fieldName ++ w1 ++ ':' :: w2 ++ ['"'], jsonEscape b, '"' :: post) := by
  have hfind : findSplit fieldName (pre ++ fieldName ++ (w1 ++ ':' :: (w2 ++ '"' :: (jsonEscape b ++ '"' :: post))))
      = some (pre, w1 ++ ':' :: (w2 ++ '"' :: (jsonEscape b ++ '"' :: post))) := by
    apply findSplit_at _ _ _ fieldName_ne_nil
    simpa [prefixOk] using hpre
  have hw1' : ∀ c ∈ w1, isJsonWs c = true := by simpa [allWs] using hw1
  have hw2' : ∀ c ∈ w2, isJsonWs c = true := by simpa [allWs] using hw2
  have hshape : metaJson pre w1 w2 (jsonEscape b) post =
      pre ++ fieldName ++ (w1 ++ ':' :: (w2 ++ '"' :: (jsonEscape b ++ '"' :: post))) := by
    simp [metaJson, List.append_assoc]
  have hd1 : dropWs (w1 ++ ':' :: (w2 ++ '"' :: (jsonEscape b ++ '"' :: post))) =
      ':' :: (w2 ++ '"' :: (jsonEscape b ++ '"' :: post)) :=
    dropWs_append _ _ hw1' (by intro c hc; simp at hc; subst hc; decide)
  have ht1 : takeWs (w1 ++ ':' :: (w2 ++ '"' :: (jsonEscape b ++ '"' :: post))) = w1 :=
    takeWs_append _ _ hw1' (by intro c hc; simp at hc; subst hc; decide)
  have hd2 : dropWs (w2 ++ '"' :: (jsonEscape b ++ '"' :: post)) =
      '"' :: (jsonEscape b ++ '"' :: post) :=
    dropWs_append _ _ hw2' (by intro c hc; simp at hc; subst hc; decide)
  have ht2 : takeWs (w2 ++ '"' :: (jsonEscape b ++ '"' :: post)) = w2 :=
    takeWs_append _ _ hw2' (by intro c hc; simp at hc; subst hc; decide)
  rw [hshape]
  unfold splitField
  rw [hfind]
  simp only [hd1, hd2, ht1, ht2, scanValue_jsonEscape]

/-! ### the metadata section of a serialized note -/

theorem splitOn_unlinesNl (ls : List Str) (rest : Str) (h : ∀ l ∈ ls, '\n' ∉ l) :
    splitOn '\n' (unlinesNl ls ++ rest) = ls ++ splitOn '\n' rest := by
  induction ls with
  | nil => simp [unlinesNl]
  | cons l ls ih =>
    simp only [unlinesNl, List.append_assoc, List.cons_append]
    rw [splitOn_append_sep _ _ _ (h l (by simp)), ih (fun x hx => h x (by simp [hx]))]

theorem splitAtDividerLine_append (ls rest : List Str) (hrest : rest ≠ [])
    (h : ∀ l ∈ ls, stripCr l ≠ divider) :
    splitAtDividerLine (ls ++ divider :: rest) = some (ls ++ [divider], rest) := by
  induction ls with
  | nil =>
    cases rest with
    | nil => exact absurd rfl hrest
    | cons q qs => simp [splitAtDividerLine, stripCr, divider]
  | cons l ls ih =>
    have hl := h l (by simp)
    have ih' := ih (fun x hx => h x (by simp [hx]))
    cases hls : ls ++ divider :: rest with
    | nil => simp at hls
    | cons q qs =>
      rw [hls] at ih'
      simp only [List.cons_append, hls, splitAtDividerLine, hl, if_false, ih']

theorem unlinesNl_append (a b : List Str) : unlinesNl (a ++ b) = unlinesNl a ++ unlinesNl b := by
  induction a with
  | nil => rfl
  | cons l ls ih => simp [unlinesNl, ih, List.append_assoc]

theorem metadataSplit_serialize (fs : List FileAtt) (J : Str) (h : Serializable fs = true) :
    metadataSplit (serialize fs J) =
      some (unlinesNl (attLines fs) ++ ['-', '-', '-', '\n'], J) := by
  have hfacts := attLines_facts fs h
  have hsplit : splitOn '\n' (serialize fs J) = attLines fs ++ divider :: splitOn '\n' J := by
    unfold serialize
    rw [splitOn_unlinesNl _ _ (fun l hl => (hfacts l hl).1.1)]
    have : ('-' :: '-' :: '-' :: '\n' :: J) = divider ++ '\n' :: J := rfl
    rw [this, splitOn_append_sep _ _ _ (by decide)]
  unfold metadataSplit
  rw [hsplit, splitAtDividerLine_append _ _ (splitOn_ne_nil _ _)
    (fun l hl => by rw [stripCr_eq_self _ (hfacts l hl).1.2]; exact (hfacts l hl).2)]
  simp only [unlinesNl_append, joinWith_splitOn]
  rfl

/-! ### the raw diff-tree scanner on rendered output -/

/-- one section of `diff-tree --stdin` output: header line and the records after it -/
structure Sec where
  hdr : Str
  recs : Str

def render : List Sec → Str
  | [] => []
  | s :: ss => s.hdr ++ '\n' :: (s.recs ++ render ss)

/-- header: no newline inside; starts with a char that is neither `:` nor newline -/
def HdrOk (h : Str) : Prop := '\n' ∉ h ∧ ∃ c r, h = c :: r ∧ c ≠ ':' ∧ c ≠ '\n'

/-- records: none, or text starting with `:` -/
def RecsOk (r : Str) : Prop := r = [] ∨ ∃ r', r = ':' :: r'

theorem dropLine_append (h x : Str) (hn : '\n' ∉ h) : dropLine (h ++ '\n' :: x) = some x := by
  induction h with
  | nil => simp [dropLine]
  | cons c cs ih =>
    have hc : c ≠ '\n' := fun e => hn (by simp [e])
    simp [dropLine, hc, ih (fun e => hn (by simp [e]))]

theorem render_head (ss : List Sec) (h : ∀ s ∈ ss, HdrOk s.hdr) :
    render ss = [] ∨ ∃ c r, render ss = c :: r ∧ c ≠ ':' ∧ c ≠ '\n' := by
  cases ss with
  | nil => exact Or.inl rfl
  | cons s ss =>
    obtain ⟨_, c, r, hc, h1, h2⟩ := h s (by simp)
    exact Or.inr ⟨c, r ++ '\n' :: (s.recs ++ render ss), by simp [render, hc], h1, h2⟩

theorem scanPairs_render_clean (ss : List Sec) (h : ∀ s ∈ ss, HdrOk s.hdr)
    (hclean : ∀ s ∈ ss, s.recs = []) : scanPairs ss.length (render ss) = some [] := by
  induction ss with
  | nil => rfl
  | cons s ss ih =>
    have hs := h s (by simp)
    have hrec := hclean s (by simp)
    have ih' := ih (fun x hx => h x (by simp [hx])) (fun x hx => hclean x (by simp [hx]))
    simp only [render, List.length_cons, scanPairs, dropLine_append _ _ hs.1, hrec, List.nil_append]
    rcases render_head ss (fun x hx => h x (by simp [hx])) with he | ⟨c, r, he, h1, h2⟩
    · rw [he] at ih' ⊢
      simpa [skipNl] using ih'
    · rw [he] at ih' ⊢
      simp only [skipNl, h2, if_false]
      split
      · rename_i heq; cases heq; exact absurd rfl h1
      · exact ih'

theorem scanPairs_render_dirty (ss : List Sec) (h : ∀ s ∈ ss, HdrOk s.hdr)
    (hrecs : ∀ s ∈ ss, RecsOk s.recs) (hdirty : ∃ s ∈ ss, s.recs ≠ []) :
    scanPairs ss.length (render ss) = none := by
  induction ss with
  | nil => simp at hdirty
  | cons s ss ih =>
    have hs := h s (by simp)
    simp only [render, List.length_cons, scanPairs, dropLine_append _ _ hs.1]
    rcases hrecs s (by simp) with hrec | ⟨r', hrec⟩
    · -- this section is clean: the dirty one is later
      have hlater : ∃ x ∈ ss, x.recs ≠ [] := by
        obtain ⟨x, hx, hne⟩ := hdirty
        simp at hx
        rcases hx with rfl | hx
        · exact absurd hrec hne
        · exact ⟨x, hx, hne⟩
      have ih' := ih (fun x hx => h x (by simp [hx])) (fun x hx => hrecs x (by simp [hx])) hlater
      rw [hrec, List.nil_append]
      rcases render_head ss (fun x hx => h x (by simp [hx])) with he | ⟨c, r, he, h1, h2⟩
      · obtain ⟨x, hx, _⟩ := hlater
        cases ss with
        | nil => simp at hx
        | cons y ys =>
          obtain ⟨_, c, r, hc, _, _⟩ := h y (by simp)
          simp [render, hc] at he
      · rw [he] at ih' ⊢
        simp only [skipNl, h2, if_false]
        split
        · rfl
        · exact ih'
    · rw [hrec]
      rfl

/-- **the scanner returns true exactly when no record appears for any pair** -/
theorem scanDiffTree_render (ss : List Sec) (h : ∀ s ∈ ss, HdrOk s.hdr)
    (hrecs : ∀ s ∈ ss, RecsOk s.recs) :
    scanDiffTree (render ss) ss.length = true ↔ ∀ s ∈ ss, s.recs = [] := by
  constructor
  · intro ht
    by_cases hd : ∃ s ∈ ss, s.recs ≠ []
    · simp [scanDiffTree, scanPairs_render_dirty ss h hrecs hd] at ht
    · intro s hs
      by_cases he : s.recs = []
      · exact he
      · exact absurd ⟨s, hs, he⟩ hd
  · intro hc
    simp [scanDiffTree, scanPairs_render_clean ss h hc, tailOk]

end GitAi.Remap

namespace GitAi.Remap
open GitAi GitAi.NoteFormat

/-! ### git's output for the pairs is a rendering of sections -/

def isHex (c : Char) : Bool := ('0' ≤ c && c ≤ '9') || ('a' ≤ c && c ≤ 'f')

/-- tree ids are hex strings (emptiness is tested by the code itself) -/
def WorldOk (w : World) : Bool := w.commits.all (fun c => c.tree.all isHex)

/-- the two trees of a pair agree on every tracked path -/
def agreeOn (w : World) (tracked : List Str) (pr : Oid × Oid) : Bool :=
  match w.commit pr.1, w.commit pr.2 with
  | some l, some r => tracked.all (fun p => lookup p l.files == lookup p r.files)
  | _, _ => false

theorem isHex_facts (c : Char) (h : isHex c = true) : c ≠ ':' ∧ c ≠ '\n' ∧ c ≠ ' ' := by
  refine ⟨?_, ?_, ?_⟩ <;> (intro e; subst e; revert h; decide)

theorem rawRecord_shape (l r : Commit) (p : Str) :
    (rawRecord l r p = [] ∧ lookup p l.files = lookup p r.files) ∨
    ((∃ x, rawRecord l r p = ':' :: x) ∧ lookup p l.files ≠ lookup p r.files) := by
  unfold rawRecord
  cases lookup p l.files <;> cases lookup p r.files
  · exact Or.inl ⟨rfl, rfl⟩
  · exact Or.inr ⟨⟨_, rfl⟩, by simp⟩
  · exact Or.inr ⟨⟨_, rfl⟩, by simp⟩
  · rename_i a b
    by_cases hab : a = b
    · subst hab; simp
    · right; simp [hab]

theorem records_shape (l r : Commit) (tracked : List Str) :
    RecsOk (records l r tracked) ∧
    (records l r tracked = [] ↔ ∀ p ∈ tracked, lookup p l.files = lookup p r.files) := by
  induction tracked with
  | nil => exact ⟨Or.inl rfl, by simp [records]⟩
  | cons p ps ih =>
    simp only [records]
    rcases rawRecord_shape l r p with ⟨he, heq⟩ | ⟨⟨x, hx⟩, hne⟩
    · rw [he, List.nil_append]
      refine ⟨ih.1, ?_⟩
      rw [ih.2]
      constructor
      · intro h q hq
        simp at hq
        rcases hq with rfl | hq
        · exact heq
        · exact h q hq
      · intro h q hq; exact h q (by simp [hq])
    · rw [hx]
      refine ⟨Or.inr ⟨_, rfl⟩, ?_⟩
      constructor
      · intro h; simp at h
      · intro h; exact absurd (h p (by simp)) hne

theorem find?_mem_commit (w : World) (id : Oid) (c : Commit) (h : w.commit id = some c) :
    c ∈ w.commits := by
  unfold World.commit at h
  exact List.mem_of_find?_eq_some h

theorem hdrOk_of_hex (a b : Str) (ha : a.all isHex = true) (hb : b.all isHex = true)
    (hne : a.isEmpty = false) : HdrOk (a ++ ' ' :: b) := by
  have ha' : ∀ c ∈ a, isHex c = true := by simpa using ha
  have hb' : ∀ c ∈ b, isHex c = true := by simpa using hb
  refine ⟨?_, ?_⟩
  · intro hm
    simp only [List.mem_append, List.mem_cons] at hm
    rcases hm with hm | hm | hm
    · exact (isHex_facts _ (ha' _ hm)).2.1 rfl
    · exact absurd hm (by decide)
    · exact (isHex_facts _ (hb' _ hm)).2.1 rfl
  · cases a with
    | nil => simp at hne
    | cons c cs =>
      have := isHex_facts c (ha' c (by simp))
      exact ⟨c, cs ++ ' ' :: b, rfl, this.1, this.2.1⟩

theorem diffTreeOutput_render (w : World) (hw : WorldOk w = true) (tracked : List Str)
    (pairs : List (Oid × Oid)) (out : Str) (h : diffTreeOutput w pairs tracked = some out) :
    ∃ ss : List Sec, out = render ss ∧ ss.length = pairs.length ∧
      (∀ s ∈ ss, HdrOk s.hdr) ∧ (∀ s ∈ ss, RecsOk s.recs) ∧
      ((∀ s ∈ ss, s.recs = []) ↔ ∀ pr ∈ pairs, agreeOn w tracked pr = true) := by
  induction pairs generalizing out with
  | nil =>
    simp only [diffTreeOutput, Option.some.injEq] at h
    exact ⟨[], by simp [render, ← h], rfl, by simp, by simp, by simp⟩
  | cons pr ps ih =>
    obtain ⟨o, n⟩ := pr
    simp only [diffTreeOutput] at h
    cases hl : w.commit o with
    | none => simp [hl] at h
    | some l =>
      cases hr : w.commit n with
      | none => simp [hl, hr] at h
      | some r =>
        simp only [hl, hr] at h
        split at h
        · cases h
        · rename_i hemp
          simp only [Bool.or_eq_true, not_or, Bool.not_eq_true] at hemp
          cases hrest : diffTreeOutput w ps tracked with
          | none => simp [hrest] at h
          | some rest =>
            simp only [hrest, Option.some.injEq] at h
            obtain ⟨ss, hss, hlen, hh, hrs, hiff⟩ := ih rest hrest
            have hwl : l.tree.all isHex = true := by
              have := find?_mem_commit w o l hl
              unfold WorldOk at hw
              exact (List.all_eq_true.1 hw) l this
            have hwr : r.tree.all isHex = true := by
              have := find?_mem_commit w n r hr
              unfold WorldOk at hw
              exact (List.all_eq_true.1 hw) r this
            have hshape := records_shape l r tracked
            refine ⟨⟨l.tree ++ ' ' :: r.tree, records l r tracked⟩ :: ss, ?_, by simp [hlen], ?_, ?_, ?_⟩
            · rw [← h, hss]; simp [render, section_, List.append_assoc]
            · intro s hs
              simp at hs
              rcases hs with rfl | hs
              · exact hdrOk_of_hex _ _ hwl hwr hemp.1
              · exact hh s hs
            · intro s hs
              simp at hs
              rcases hs with rfl | hs
              · exact hshape.1
              · exact hrs s hs
            · constructor
              · intro hall pr hpr
                simp at hpr
                rcases hpr with rfl | hpr
                · have := (hshape.2).1 (hall ⟨l.tree ++ ' ' :: r.tree, records l r tracked⟩ (by simp))
                  simp only [agreeOn, hl, hr, List.all_eq_true, beq_iff_eq]
                  exact this
                · exact hiff.1 (fun s hs => hall s (by simp [hs])) pr hpr
              · intro hall s hs
                simp at hs
                rcases hs with rfl | hs
                · have := hall (o, n) (by simp)
                  simp only [agreeOn, hl, hr, List.all_eq_true, beq_iff_eq] at this
                  exact (hshape.2).2 this
                · exact hiff.2 (fun pr hpr => hall pr (by simp [hpr])) s hs

/-- **safety of the comparator**: `true` only if every pair agrees on every tracked path -/
theorem pathsMatch_sound (w : World) (hw : WorldOk w = true) (pairs : List (Oid × Oid))
    (tracked : List Str) (hne : pairs ≠ []) (h : pathsMatch w pairs tracked = true) :
    ∀ pr ∈ pairs, agreeOn w tracked pr = true := by
  unfold pathsMatch at h
  have hemp : pairs.isEmpty = false := by cases pairs <;> simp_all
  simp only [hemp] at h
  cases hout : diffTreeOutput w pairs tracked with
  | none => simp [hout] at h
  | some out =>
    simp only [hout] at h
    obtain ⟨ss, hss, hlen, hh, hrs, hiff⟩ := diffTreeOutput_render w hw tracked pairs out hout
    rw [hss, ← hlen] at h
    exact hiff.1 ((scanDiffTree_render ss hh hrs).1 (by simpa using h))

/-- completeness: when git answers and every pair agrees, the comparator says `true` -/
theorem pathsMatch_complete (w : World) (hw : WorldOk w = true) (pairs : List (Oid × Oid))
    (tracked : List Str) (out : Str) (hout : diffTreeOutput w pairs tracked = some out)
    (h : ∀ pr ∈ pairs, agreeOn w tracked pr = true) : pathsMatch w pairs tracked = true := by
  unfold pathsMatch
  split
  · rfl
  · simp only [hout]
    obtain ⟨ss, hss, hlen, hh, hrs, hiff⟩ := diffTreeOutput_render w hw tracked pairs out hout
    rw [hss, ← hlen]
    exact (scanDiffTree_render ss hh hrs).2 (hiff.2 h)

/-! ### what `≈` sees of a serialized note -/

theorem noteView_serialize (fs : List FileAtt) (pre w1 w2 b post : Str)
    (hfs : Serializable fs = true) (hJ : jsonOk (metaJson pre w1 w2 (jsonEscape b) post) = true)
    (hpre : prefixOk pre = true) (hw1 : allWs w1 = true) (hw2 : allWs w2 = true) :
    noteView (serialize fs (metaJson pre w1 w2 (jsonEscape b) post)) =
      some ⟨canonAtt (normalise fs), pre ++ fieldName ++ w1 ++ ':' :: w2 ++ ['"'],
        '"' :: post, jsonEscape b⟩ := by
  have hrt : deserialize (serialize fs (metaJson pre w1 w2 (jsonEscape b) post)) =
      .ok (normalise fs, metaJson pre w1 w2 (jsonEscape b) post) := by
    -- C17 round trip (proved in Props/C17 from the same lemmas; restated here to keep
    -- Lemmas/ independent of Props/)
    have hfacts := attLines_facts fs hfs
    simp only [jsonOk, Bool.and_eq_true, Bool.not_eq_true', bne_iff_ne, ne_eq] at hJ
    have hcr := (not_contains_iff _ _).1 hJ.1
    have hlines : rustLines (serialize fs (metaJson pre w1 w2 (jsonEscape b) post)) =
        attLines fs ++ divider :: rustLines (metaJson pre w1 w2 (jsonEscape b) post) := by
      unfold serialize
      rw [rustLines_unlinesNl _ _ (fun l hl => (hfacts l hl).1)]
      have : ('-' :: '-' :: '-' :: '\n' :: metaJson pre w1 w2 (jsonEscape b) post) =
          divider ++ '\n' :: metaJson pre w1 w2 (jsonEscape b) post := rfl
      rw [this, rustLines_cons _ _ (by decide), stripCr_eq_self _ (by decide)]
    unfold deserialize
    rw [hlines, splitAtDivider_append _ _ (fun l hl => (hfacts l hl).2)]
    simp only [parseAtt_attLines fs hfs, joinWith_rustLines _ hcr hJ.2]
    simp [flush]
  unfold noteView
  rw [hrt]
  simp only [splitField_metaJson pre w1 w2 b post hpre hw1 hw2]

end GitAi.Remap

namespace GitAi.Remap
open GitAi GitAi.NoteFormat

/-! ### per-commit vs cumulative notes: what blame looks up -/

theorem lookupLine_append (a b : List (Str × Str × Nat)) (p : Str) (j : Nat) :
    lookupLine (a ++ b) p j =
      match lookupLine a p j with
      | some h => some h
      | none => lookupLine b p j := by
  unfold lookupLine
  rw [List.find?_append]
  cases List.find? (fun t => decide (t.1 = p) && decide (t.2.2 = j)) a with
  | none => simp
  | some t => simp

theorem lookupLine_fileTriples_other (keep : GLine → Bool) (p' p : Str) (hne : p' ≠ p)
    (i j : Nat) (f : List GLine) : lookupLine (fileTriples keep p' i f) p j = none := by
  induction f generalizing i with
  | nil => simp [fileTriples, lookupLine]
  | cons l ls ih =>
    unfold fileTriples
    cases hw : l.who with
    | none => simpa using ih (i + 1)
    | some h =>
      by_cases hk : keep l = true
      · have := ih (i + 1)
        unfold lookupLine at this ⊢
        simp only [hk, if_true, List.find?_cons, hne, decide_false, Bool.false_and]
        exact this
      · simp only [hk]
        simpa using ih (i + 1)

theorem lookupLine_fileTriples (keep : GLine → Bool) (p : Str) (i j : Nat) (f : List GLine) :
    lookupLine (fileTriples keep p i f) p j =
      match nthFrom i j f with
      | some l => if keep l then l.who else none
      | none => none := by
  induction f generalizing i with
  | nil => simp [fileTriples, lookupLine, nthFrom]
  | cons l ls ih =>
    unfold fileTriples nthFrom
    by_cases hij : i = j
    · subst hij
      -- line numbers only grow: later lines never carry number `i`
      have hlater : ∀ (f : List GLine) (m : Nat), i < m → nthFrom m i f = none := by
        intro f
        induction f with
        | nil => intro m _; rfl
        | cons x xs ihx =>
          intro m hm
          have : m ≠ i := by omega
          simp only [nthFrom, this, if_false]
          exact ihx (m + 1) (by omega)
      have hrest : lookupLine (fileTriples keep p (i + 1) ls) p i = none := by
        rw [ih (i + 1), hlater ls (i + 1) (by omega)]
      cases hw : l.who with
      | none =>
        simp only [if_true]
        rw [hrest]
        split <;> simp [hw]
      | some h =>
        by_cases hk : keep l = true
        · simp [hk, lookupLine, hw]
        · have hk' : keep l = false := by simpa using hk
          simp only [hk', if_true]
          simpa using hrest
    · have := ih (i + 1)
      simp only [hij, if_false]
      cases hw : l.who with
      | none => simpa using this
      | some h =>
        by_cases hk : keep l = true
        · simp only [hk, if_true]
          unfold lookupLine at this ⊢
          simp only [List.find?_cons, hij, decide_false, Bool.and_false]
          exact this
        · simp only [hk]
          simpa using this

theorem lookupLine_treeTriples_absent (keep : GLine → Bool) (t : GTree) (p : Str) (j : Nat)
    (h : p ∉ t.map (·.1)) : lookupLine (treeTriples keep t) p j = none := by
  induction t with
  | nil => simp [treeTriples, lookupLine]
  | cons pf r ih =>
    obtain ⟨p', f⟩ := pf
    have hne : p' ≠ p := fun e => h (by simp [e])
    have hr : p ∉ r.map (·.1) := fun e => h (by simp [e])
    simp only [treeTriples]
    rw [lookupLine_append, lookupLine_fileTriples_other keep p' p hne, ih hr]

theorem lookup_none_of_not_mem {β} (p : Str) (t : List (Str × β)) (h : p ∉ t.map (·.1)) :
    lookup p t = none := by
  induction t with
  | nil => rfl
  | cons pf r ih =>
    obtain ⟨p', f⟩ := pf
    have hne : p' ≠ p := fun e => h (by simp [e])
    simp [lookup, hne, ih (fun e => h (by simp [e]))]

theorem lookupLine_treeTriples (keep : GLine → Bool) (t : GTree) (hnd : (t.map (·.1)).Nodup)
    (p : Str) (j : Nat) :
    lookupLine (treeTriples keep t) p j =
      match lineOf t p j with
      | some l => if keep l then l.who else none
      | none => none := by
  induction t with
  | nil => simp [treeTriples, lookupLine, lineOf, lookup]
  | cons pf r ih =>
    obtain ⟨p', f⟩ := pf
    simp only [List.map_cons, List.nodup_cons] at hnd
    simp only [treeTriples]
    rw [lookupLine_append]
    by_cases hp : p' = p
    · subst hp
      rw [lookupLine_fileTriples, lookupLine_treeTriples_absent keep r p' j hnd.1]
      simp only [lineOf, lookup, if_true]
      cases nthFrom 1 j f with
      | none => rfl
      | some l => by_cases hk : keep l = true <;> simp [hk] <;> cases l.who <;> rfl
    · rw [lookupLine_fileTriples_other keep p' p hp, ih hnd.2]
      simp [lineOf, lookup, hp]

theorem lookup_filter_keys {β} (q : Str → Bool) (p : Str) (t : List (Str × β)) :
    lookup p (t.filter (fun pf => q pf.1)) = if q p then lookup p t else none := by
  induction t with
  | nil => simp [lookup]
  | cons pf r ih =>
    obtain ⟨p', f⟩ := pf
    simp only [List.filter_cons]
    by_cases hq : q p' = true
    · simp only [hq, if_true, lookup]
      by_cases hp : p' = p
      · subst hp; simp [hq]
      · simp [hp, ih]
    · simp only [hq]
      by_cases hp : p' = p
      · subst hp; simp [lookup, hq, ih]
      · simp [lookup, hp, ih]

theorem nodup_filter_keys {β} (q : Str × β → Bool) (t : List (Str × β))
    (h : (t.map (·.1)).Nodup) : ((t.filter q).map (·.1)).Nodup :=
  List.Nodup.sublist (List.Sublist.map _ List.filter_sublist) h

/-- For a line that the k-th commit itself introduced (the only lines for which blame consults
    the k-th commit's note), the cumulative state of full replay and the per-commit note the
    shortcut copies name the same session. -/
theorem state_agrees_on_born (tk : GTree) (k : Nat) (hk : 1 ≤ k)
    (hnd : (tk.map (·.1)).Nodup) (p : Str) (j : Nat) (l : GLine)
    (hl : lineOf tk p j = some l) (hb : l.born = k) :
    lookupLine (cumulativeLines tk) p j = lookupLine (perCommitLines k tk) p j := by
  unfold cumulativeLines perCommitLines
  rw [lookupLine_treeTriples _ tk hnd, lookupLine_treeTriples _ tk hnd, hl]
  have h1 : decide (1 ≤ l.born) = true := by simp [hb, hk]
  have h2 : decide (l.born = k) = true := by simp [hb]
  simp only [h1, h2, if_true]

end GitAi.Remap
