/-
  Lemmas/RemapReplay.lean — the per-commit note of full replay (Model/Remap.lean §7): cutting
  the cumulative state to the lines a commit adds gives exactly the per-commit line set, and
  the prompt records of an intact commit are the original note's records.
-/
import GitAiModel.Lemmas.Remap
namespace GitAi.Remap
open GitAi GitAi.NoteFormat

/-- line numbers only grow: a file whose first line has number `m > i` has no line `i` -/
theorem nthFrom_lt (f : List GLine) (m i : Nat) (h : i < m) : nthFrom m i f = none := by
  induction f generalizing m with
  | nil => rfl
  | cons x xs ih =>
    have : m ≠ i := by omega
    simp only [nthFrom, this, if_false]
    exact ih (m + 1) (by omega)

/-- filtering a file's triples by a test on the line NUMBER that is determined by the line
    found under that number is the same as keeping the lines that pass the test -/
theorem filter_fileTriples (keep r : GLine → Bool) (q : Nat → Bool) (p : Str) (i : Nat)
    (f : List GLine) (h : ∀ j l, nthFrom i j f = some l → q j = r l) :
    (fileTriples keep p i f).filter (fun x => q x.2.2) =
      fileTriples (fun l => keep l && r l) p i f := by
  induction f generalizing i with
  | nil => simp [fileTriples]
  | cons l ls ih =>
    have hhead : q i = r l := h i l (by simp [nthFrom])
    have htail : ∀ j l', nthFrom (i + 1) j ls = some l' → q j = r l' := by
      intro j l' hj
      by_cases hij : i = j
      · subst hij
        rw [nthFrom_lt ls (i + 1) i (by omega)] at hj
        cases hj
      · exact h j l' (by simp [nthFrom, hij, hj])
    have ih' := ih (i + 1) htail
    unfold fileTriples
    cases hw : l.who with
    | none => simpa using ih'
    | some s =>
      by_cases hk : keep l = true
      · by_cases hr : r l = true
        · simp [hk, hr, hhead, ih']
        · simp [hk, hr, hhead, ih']
      · simp [hk, ih']

theorem fileTriples_path (keep : GLine → Bool) (p : Str) (i : Nat) (f : List GLine) :
    ∀ x ∈ fileTriples keep p i f, x.1 = p := by
  induction f generalizing i with
  | nil => intro x hx; simp [fileTriples] at hx
  | cons l ls ih =>
    intro x hx
    unfold fileTriples at hx
    cases hw : l.who with
    | none => rw [hw] at hx; exact ih (i + 1) x hx
    | some s =>
      rw [hw] at hx
      by_cases hk : keep l = true
      · simp only [hk, if_true, List.mem_cons] at hx
        rcases hx with rfl | hx
        · rfl
        · exact ih (i + 1) x hx
      · simp only [hk] at hx
        exact ih (i + 1) x hx

theorem lookup_of_mem_nodup {β} (t : List (Str × β)) (hnd : (t.map (·.1)).Nodup) :
    ∀ pf ∈ t, lookup pf.1 t = some pf.2 := by
  induction t with
  | nil => intro pf h; cases h
  | cons a r ih =>
    obtain ⟨p', f'⟩ := a
    simp only [List.map_cons, List.nodup_cons] at hnd
    intro pf hpf
    simp only [List.mem_cons] at hpf
    rcases hpf with rfl | hpf
    · simp [lookup]
    · have hne : p' ≠ pf.1 := fun e => hnd.1 (e ▸ List.mem_map_of_mem (f := (·.1)) hpf)
      simp only [lookup, hne, if_false]
      exact ih hnd.2 pf hpf

/-- cutting tree triples to the lines the k-th commit adds (looked up in the whole tree `T`) -/
theorem filter_treeTriples (keep : GLine → Bool) (k : Nat) (T t : GTree)
    (hsub : ∀ pf ∈ t, lookup pf.1 T = some pf.2) :
    (treeTriples keep t).filter (fun x => addedBy k T x.1 x.2.2) =
      treeTriples (fun l => keep l && decide (l.born = k)) t := by
  induction t with
  | nil => simp [treeTriples]
  | cons pf rest ih =>
    obtain ⟨p, f⟩ := pf
    have hpf : lookup p T = some f := hsub (p, f) (by simp)
    have ih' := ih (fun x hx => hsub x (by simp [hx]))
    simp only [treeTriples, List.filter_append, ih']
    congr 1
    have hcongr : (fileTriples keep p 1 f).filter (fun x => addedBy k T x.1 x.2.2) =
        (fileTriples keep p 1 f).filter (fun x => addedBy k T p x.2.2) := by
      apply List.filter_congr
      intro x hx
      rw [fileTriples_path keep p 1 f x hx]
    rw [hcongr]
    apply filter_fileTriples keep (fun l => decide (l.born = k)) (fun j => addedBy k T p j)
    intro j l hj
    simp [addedBy, lineOf, hpf, hj]

/-- **the per-commit cut is exact**: the cumulative state restricted to the lines the k-th
    commit adds is the per-commit line set (what the post-commit path wrote, what the shortcut
    copies) -/
theorem replayLines_eq_perCommitLines (k : Nat) (tk : GTree) (hk : 1 ≤ k)
    (hnd : (tk.map (·.1)).Nodup) : replayLines k tk = perCommitLines k tk := by
  unfold replayLines cumulativeLines perCommitLines
  rw [filter_treeTriples _ k tk tk (lookup_of_mem_nodup tk hnd)]
  congr 1
  funext l
  by_cases h : l.born = k
  · have : 1 ≤ l.born := by omega
    simp [h, hk]
  · simp [h]

/-- all lines arrived: the records are the original note's records -/
theorem replayRecs_intact (recount : Str → Nat → Str) (recs : List Rec)
    (ls : List (Str × Str × Nat)) : replayRecs recount recs ls ls = recs := by
  unfold replayRecs
  have hf : (fun r : Rec =>
      if (sessionsOf ls).contains r.1 then
        if countOf r.1 ls = countOf r.1 ls then some r
        else some (r.1, recount r.2 (countOf r.1 ls))
      else if (sessionsOf ls).contains r.1 then none
      else some r) = some := by
    funext r
    by_cases hc : (sessionsOf ls).contains r.1 = true <;> simp
  rw [hf, List.filterMap_some]

theorem ghostTree_agree (g : Ghost) (l r : Commit) (tracked : List Str)
    (h : tracked.all (fun p => lookup p l.files == lookup p r.files) = true) :
    ghostTree g l tracked = ghostTree g r tracked := by
  unfold ghostTree
  induction tracked with
  | nil => rfl
  | cons p ps ih =>
    simp only [List.all_cons, Bool.and_eq_true, beq_iff_eq] at h
    simp only [List.filterMap_cons, h.1]
    rw [ih h.2]

theorem ghostTree_paths (g : Ghost) (c : Commit) (tracked : List Str) :
    (ghostTree g c tracked).map (·.1) = tracked.filter (fun p => (lookup p c.files).isSome) := by
  unfold ghostTree
  induction tracked with
  | nil => rfl
  | cons p ps ih =>
    simp only [List.filterMap_cons, List.filter_cons]
    cases hl : lookup p c.files with
    | none => simpa using ih
    | some b => simpa using ih

theorem ghostTree_nodup (g : Ghost) (c : Commit) (tracked : List Str) (h : tracked.Nodup) :
    ((ghostTree g c tracked).map (·.1)).Nodup := by
  rw [ghostTree_paths]
  exact List.Nodup.sublist List.filter_sublist h

end GitAi.Remap
