/-
  Lemmas/Rewrite.lean — blame over a chain of commits, the history invariant `HistOK`
  ("at every commit of the chain, blame reports each line's ghost author") and its preservation
  by commits and by the rewriting operations of Model/Rewrite.lean.
-/
import GitAiModel.Model.Rewrite
import GitAiModel.Lemmas.SysPartial
namespace GitAi.Sys

/-! ### notes as claims, positions -/

theorem noteAuthor_eq_initialAuthor (n : Note) (i : Nat) : noteAuthor n i = initialAuthor n i := by
  unfold noteAuthor initialAuthor
  cases List.find? (fun p => decide (p.1 = i)) n <;> rfl

theorem splitNote_eq_claims (p c : List Nat) (A : Nat → Author) :
    splitNote p c A = claimsFrom 1 c (fun y => if p.contains y then none else A y) := by
  unfold splitNote claimsFrom enum1
  apply filterMap_congr_mem
  intro a _
  by_cases h : a.2 ∈ p <;> simp [h]

theorem splitPending_eq_claims (x w : List Nat) (A : Nat → Author) :
    splitPending x w A = claimsFrom 1 w (fun y => if x.contains y then none else A y) := by
  unfold splitPending claimsFrom enum1
  apply filterMap_congr_mem
  intro a _
  by_cases h : a.2 ∈ x <;> simp [h]

theorem posOf_enumFrom (y : Nat) (c : List Nat) (h : y ∈ c) :
    ∃ i, posOf y c = some i ∧ ∀ k, (k + i, y) ∈ enumFrom (k + 1) c := by
  induction c with
  | nil => simp at h
  | cons x xs ih =>
    by_cases hx : x = y
    · refine ⟨1, by simp [posOf, hx], fun k => ?_⟩
      simp [enumFrom, hx]
    · have hy : y ∈ xs := by
        rcases List.mem_cons.1 h with e | e
        · exact absurd e.symm hx
        · exact e
      obtain ⟨j, hj, hm⟩ := ih hy
      refine ⟨j + 1, by simp [posOf, hx, hj], fun k => ?_⟩
      have := hm (k + 1)
      simp only [enumFrom, List.mem_cons]
      right
      have e : k + 1 + j = k + (j + 1) := by omega
      rw [← e]; exact this

/-! ### blame, one commit at a time -/

theorem blame_cons (c p : List Nat) (log : List (List Nat × List Nat)) (n : Note) (notes : List Note) (y : Nat) :
    blame ((c, p) :: log) (n :: notes) y =
      if c.contains y && !p.contains y then
        (match posOf y c with
         | some i => noteAuthor n i
         | none => none)
      else blame log notes y := by
  rfl

/-- a line the newest commit adds is credited by that commit's note -/
theorem blame_added (c p : List Nat) (log : List (List Nat × List Nat)) (notes : List Note)
    (A : Nat → Author) (y : Nat) (hnd : c.Nodup) (hy : y ∈ c) (hp : y ∉ p) :
    blame ((c, p) :: log) (splitNote p c A :: notes) y = A y := by
  rw [blame_cons]
  have h1 : c.contains y = true := by simpa using hy
  have h2 : p.contains y = false := by simpa using hp
  simp only [h1, h2, Bool.not_false, Bool.and_self, if_true]
  obtain ⟨i, hi, hm⟩ := posOf_enumFrom y c hy
  rw [hi]
  simp only
  rw [noteAuthor_eq_initialAuthor, splitNote_eq_claims]
  have hm0 := hm 0
  simp only [Nat.zero_add] at hm0
  rw [initialAuthor_claimsFrom 1 c _ i y hm0 hnd]
  simp [hp]

/-- a line the newest commit does not add is credited by the older history -/
theorem blame_kept (c p : List Nat) (log : List (List Nat × List Nat)) (n : Note) (notes : List Note)
    (y : Nat) (h : y ∈ p ∨ y ∉ c) :
    blame ((c, p) :: log) (n :: notes) y = blame log notes y := by
  rw [blame_cons]
  rcases h with h | h
  · simp [h]
  · simp [h]

/-! ### the history invariant -/

/-- content at the tip of a chain that starts from `root` -/
def tipOf (root : List Nat) : List (List Nat × List Nat) → List Nat
  | [] => root
  | (c, _) :: _ => c

/-- at every commit of the chain, blame (over the chain up to that commit) reports the ghost
    author of every line of that commit; commits are linked parent-to-content -/
def HistOK (g : Nat → Author) (root : List Nat) : List (List Nat × List Nat) → List Note → Prop
  | [], [] => True
  | (c, p) :: log, n :: notes =>
      (∀ y ∈ c, blame ((c, p) :: log) (n :: notes) y = g y) ∧ p = tipOf root log ∧ c.Nodup ∧
      HistOK g root log notes
  | _, _ => False

instance HistOK.dec (g : Nat → Author) (root : List Nat) :
    ∀ (log : List (List Nat × List Nat)) (notes : List Note), Decidable (HistOK g root log notes)
  | [], [] => isTrue trivial
  | (c, p) :: log, n :: notes =>
    have := HistOK.dec g root log notes
    by unfold HistOK; exact inferInstance
  | [], _ :: _ => isFalse (fun h => h)
  | (_, _) :: _, [] => isFalse (fun h => h)

theorem HistOK.length {g root} : ∀ {log notes}, HistOK g root log notes → log.length = notes.length
  | [], [], _ => rfl
  | (_, _) :: log, _ :: notes, h => by
      have := HistOK.length (log := log) (notes := notes) h.2.2.2
      simp [this]
  | [], _ :: _, h => h.elim
  | _ :: _, [], h => by cases ‹_ × _›; exact h.elim

/-- blame at the tip -/
theorem HistOK.tip {g root log notes} (h : HistOK g root log notes) (hroot : ∀ y ∈ root, g y = none) :
    ∀ y ∈ tipOf root log, blame log notes y = g y := by
  intro y hy
  match log, notes, h with
  | [], [], _ =>
    have : blame [] [] y = none := rfl
    rw [this]; exact (hroot y hy).symm
  | (c, p) :: log, n :: notes, h => exact h.1 y hy

theorem HistOK.drop {g root} : ∀ (k : Nat) {log notes}, HistOK g root log notes →
    HistOK g root (log.drop k) (notes.drop k)
  | 0, _, _, h => h
  | k + 1, [], [], _ => trivial
  | k + 1, (_, _) :: log, _ :: notes, h => HistOK.drop k (log := log) (notes := notes) h.2.2.2
  | _ + 1, [], _ :: _, h => h.elim
  | _ + 1, _ :: _, [], h => by cases ‹_ × _›; exact h.elim

/-- the invariant only looks at the ghost authors of lines that occur in the chain -/
theorem HistOK.congr {g g' root} : ∀ {log notes}, HistOK g root log notes →
    (∀ cp ∈ log, ∀ y ∈ cp.1, g' y = g y) → HistOK g' root log notes
  | [], [], _, _ => trivial
  | (c, p) :: log, n :: notes, h, hg => by
      refine ⟨fun y hy => ?_, h.2.1, h.2.2.1, HistOK.congr h.2.2.2 (fun cp hcp => hg cp (List.mem_cons_of_mem _ hcp))⟩
      rw [h.1 y hy, hg (c, p) (by simp) y hy]
  | [], _ :: _, h, _ => h.elim
  | _ :: _, [], h, _ => by cases ‹_ × _›; exact h.elim

/-- blame over a good chain reports the ghost author of every line that occurs anywhere in it -/
theorem HistOK.blame_any {g root} (hroot : ∀ y ∈ root, g y = none) : ∀ {log notes}, HistOK g root log notes →
    ∀ y, (y ∈ root ∨ ∃ cp ∈ log, y ∈ cp.1) → blame log notes y = g y
  | [], [], _, y, hy => by
      rcases hy with hy | ⟨cp, hcp, _⟩
      · have : blame [] [] y = none := rfl
        rw [this]; exact (hroot y hy).symm
      · simp at hcp
  | (c, p) :: log, n :: notes, h, y, hy => by
      by_cases hc : y ∈ c
      · exact h.1 y hc
      · rw [blame_kept _ _ _ _ _ _ (Or.inr hc)]
        apply HistOK.blame_any hroot h.2.2.2 y
        rcases hy with hy | ⟨cp, hcp, hy⟩
        · exact Or.inl hy
        · rcases List.mem_cons.1 hcp with e | e
          · subst e; exact absurd hy hc
          · exact Or.inr ⟨cp, e, hy⟩
  | [], _ :: _, h, _, _ => h.elim
  | _ :: _, [], h, _, _ => by cases ‹_ × _›; exact h.elim

/-- a line that occurs nowhere in the chain is nobody's -/
theorem blame_absent : ∀ (log : List (List Nat × List Nat)) (notes : List Note) (y : Nat),
    (∀ cp ∈ log, y ∉ cp.1) → blame log notes y = none
  | [], _, _, _ => by unfold blame; rfl
  | _ :: _, [], _, _ => by unfold blame; rfl
  | (c, p) :: log, n :: notes, y, h => by
      rw [blame_kept _ _ _ _ _ _ (Or.inr (h (c, p) (by simp)))]
      exact blame_absent log notes y (fun cp hcp => h cp (List.mem_cons_of_mem _ hcp))

/-- a new commit on top of a good chain -/
theorem HistOK.push {g root log notes} (h : HistOK g root log notes) (hroot : ∀ y ∈ root, g y = none)
    (c : List Nat) (A : Nat → Author) (hnd : c.Nodup)
    (hA : ∀ y ∈ c, y ∉ tipOf root log → A y = g y) :
    HistOK g root ((c, tipOf root log) :: log) (splitNote (tipOf root log) c A :: notes) := by
  refine ⟨fun y hy => ?_, rfl, hnd, h⟩
  by_cases hp : y ∈ tipOf root log
  · rw [blame_kept _ _ _ _ _ _ (Or.inl hp)]
    exact h.tip hroot y hp
  · rw [blame_added c _ log notes A y hnd hy hp]
    exact hA y hy hp

end GitAi.Sys
