/-
  Lemmas/RewriteCredit.lean — the per-line lookup of the content-replay path (Model/RewriteCredit.lean)
  against the ghost author, over a good source history (`HistOK`) whose notes are well-formed
  (`AllNotesWF`: a note only attests lines its commit adds — true of every note the model ever
  writes, `notes_wf_history`).
-/
import GitAiModel.Lemmas.RewriteWF
import GitAiModel.Model.RewriteCredit
namespace GitAi.Sys

/-! ### positions -/

theorem posOf_pos (y : Nat) : ∀ (c : List Nat) (i : Nat), posOf y c = some i → 1 ≤ i
  | [], _, h => by simp [posOf] at h
  | x :: xs, i, h => by
    by_cases hx : x = y
    · simp [posOf, hx] at h; omega
    · simp only [posOf, hx, if_false, Option.map_eq_some_iff] at h
      obtain ⟨j, _, rfl⟩ := h
      omega

theorem posOf_mem (y : Nat) : ∀ (c : List Nat) (i : Nat), posOf y c = some i → y ∈ c
  | [], _, h => by simp [posOf] at h
  | x :: xs, i, h => by
    by_cases hx : x = y
    · simp [hx]
    · simp only [posOf, hx, if_false, Option.map_eq_some_iff] at h
      obtain ⟨j, hj, _⟩ := h
      exact List.mem_cons_of_mem _ (posOf_mem y xs j hj)

theorem posOf_none (y : Nat) : ∀ (c : List Nat), y ∉ c → posOf y c = none
  | [], _ => rfl
  | x :: xs, h => by
    have hx : x ≠ y := fun e => h (by simp [e])
    have := posOf_none y xs (fun e => h (List.mem_cons_of_mem _ e))
    simp [posOf, hx, this]

/-- the element at the position `posOf` reports is the element asked for -/
theorem posOf_enum_unique (y y' : Nat) : ∀ (c : List Nat) (k i : Nat), posOf y c = some i →
    (k + i, y') ∈ enumFrom (k + 1) c → y' = y
  | [], _, _, h, _ => by simp [posOf] at h
  | x :: xs, k, i, h, hm => by
    simp only [enumFrom, List.mem_cons, Prod.mk.injEq] at hm
    by_cases hx : x = y
    · simp only [posOf, hx, if_true, Option.some.injEq] at h
      subst h
      rcases hm with ⟨_, e⟩ | hm
      · rw [e, hx]
      · have := (mem_enumFrom' (k + 1 + 1) xs (k + 1) y' hm).2
        omega
    · simp only [posOf, hx, if_false, Option.map_eq_some_iff] at h
      obtain ⟨j, hj, rfl⟩ := h
      have hj1 := posOf_pos y xs j hj
      rcases hm with ⟨e, _⟩ | hm
      · omega
      · have e : k + (j + 1) = k + 1 + j := by omega
        rw [e] at hm
        exact posOf_enum_unique y y' xs (k + 1) j hj hm

/-- a well-formed note attests only lines its commit adds -/
theorem NoteWF.attests_added {c p : List Nat} {n : Note} (h : NoteWF c p n) {y i s : Nat}
    (hp : posOf y c = some i) (ha : noteAuthor n i = some s) : y ∉ p := by
  unfold noteAuthor at ha
  cases hf : n.find? (fun q => q.1 = i) with
  | none => simp [hf] at ha
  | some e =>
    have hmem : e ∈ n := List.mem_of_find?_eq_some hf
    have hi : e.1 = i := by simpa using List.find?_some hf
    obtain ⟨⟨y', hy', hnp⟩, _, _⟩ := h.2 e hmem
    rw [hi] at hy'
    have : y' = y := by
      have h0 : (0 + i, y') ∈ enumFrom (0 + 1) c := by simpa [enum1] using hy'
      exact posOf_enum_unique y y' c 0 i hp h0
    rw [← this]; exact hnp

/-! ### the notes table -/

/-- a line that occurs in none of the commits is in no note table -/
theorem notesCredit_absent : ∀ (log : List (List Nat × List Nat)) (notes : List Note) (y : Nat),
    (∀ cp ∈ log, y ∉ cp.1) → notesCredit log notes y = none
  | [], _, _, _ => by unfold notesCredit; rfl
  | _ :: _, [], _, _ => by unfold notesCredit; rfl
  | (c, p) :: log, n :: notes, y, h => by
    unfold notesCredit
    rw [posOf_none y c (h (c, p) (by simp))]
    simp only [Option.bind_none]
    exact notesCredit_absent log notes y (fun cp hcp => h cp (List.mem_cons_of_mem _ hcp))

/-- what one commit's note says about a line it contains: the ghost author if the commit adds the
    line, nothing otherwise -/
theorem note_entry_spec {g : Nat → Author} {root c p : List Nat} {log : List (List Nat × List Nat)} {n : Note}
    {notes : List Note} (h : HistOK g root ((c, p) :: log) (n :: notes)) (hwf : NoteWF c p n) (y i : Nat)
    (hp : posOf y c = some i) :
    (y ∉ p → noteAuthor n i = g y) ∧ (y ∈ p → noteAuthor n i = none) := by
  have hy : y ∈ c := posOf_mem y c i hp
  constructor
  · intro hnp
    have hb := h.1 y hy
    rw [blame_cons] at hb
    have h1 : c.contains y = true := by simpa using hy
    have h2 : p.contains y = false := by simpa using hnp
    simp only [h1, h2, Bool.not_false, Bool.and_self, if_true, hp] at hb
    exact hb
  · intro hin
    cases ha : noteAuthor n i with
    | none => rfl
    | some s => exact absurd hin (hwf.attests_added hp ha)

/-- **the notes table never invents.** Over any prefix (`take k`) of a good, well-formed history,
    an author found in the notes table is the ghost author. -/
theorem notesCredit_sound {g : Nat → Author} {root : List Nat} :
    ∀ (k : Nat) {log : List (List Nat × List Nat)} {notes : List Note}, HistOK g root log notes → AllNotesWF log notes →
    ∀ y s, notesCredit (log.take k) (notes.take k) y = some s → g y = some s
  | 0, _, _, _, _, y, s, hs => by simp [notesCredit] at hs
  | _ + 1, [], _, _, _, y, s, hs => by simp [notesCredit] at hs
  | _ + 1, _ :: _, [], h, _, _, _, _ => by cases ‹_ × _›; exact h.elim
  | k + 1, (c, p) :: log, n :: notes, h, hwf, y, s, hs => by
    simp only [List.take_succ_cons] at hs
    unfold notesCredit at hs
    cases hp : posOf y c with
    | none =>
      simp only [hp, Option.bind_none] at hs
      exact notesCredit_sound k h.2.2.2 hwf.2 y s hs
    | some i =>
      simp only [hp, Option.bind_some] at hs
      obtain ⟨hadd, hkept⟩ := note_entry_spec h hwf.1 y i hp
      cases ha : noteAuthor n i with
      | none =>
        simp only [ha] at hs
        exact notesCredit_sound k h.2.2.2 hwf.2 y s hs
      | some t =>
        simp only [ha, Option.some.injEq] at hs
        subst hs
        by_cases hin : y ∈ p
        · rw [hkept hin] at ha; cases ha
        · rw [← hadd hin]; exact ha

/-- **the notes table finds every AI line a replayed commit adds.** If one of the `k` newest commits
    adds `y` (has it, its parent does not) the table reports the ghost author of `y`. -/
theorem notesCredit_complete {g : Nat → Author} {root : List Nat} :
    ∀ (k : Nat) {log : List (List Nat × List Nat)} {notes : List Note}, HistOK g root log notes → AllNotesWF log notes →
    ∀ y, (∃ cp ∈ log.take k, y ∈ cp.1 ∧ y ∉ cp.2) → notesCredit (log.take k) (notes.take k) y = g y
  | 0, _, _, _, _, y, hy => by obtain ⟨cp, hcp, _⟩ := hy; simp at hcp
  | _ + 1, [], _, _, _, y, hy => by obtain ⟨cp, hcp, _⟩ := hy; simp at hcp
  | _ + 1, _ :: _, [], h, _, _, _ => by cases ‹_ × _›; exact h.elim
  | k + 1, (c, p) :: log, n :: notes, h, hwf, y, hy => by
    simp only [List.take_succ_cons]
    unfold notesCredit
    -- whatever an older part of the table says is the ghost author
    have hrest : ∀ s, notesCredit (log.take k) (notes.take k) y = some s → g y = some s :=
      notesCredit_sound k h.2.2.2 hwf.2 y
    cases hp : posOf y c with
    | none =>
      simp only [Option.bind_none]
      apply notesCredit_complete k h.2.2.2 hwf.2 y
      obtain ⟨cp, hcp, hy1, hy2⟩ := hy
      simp only [List.take_succ_cons, List.mem_cons] at hcp
      rcases hcp with e | e
      · subst e
        have : y ∈ c := hy1
        rw [posOf_none_iff_not_mem] at hp
        exact absurd this hp
      · exact ⟨cp, e, hy1, hy2⟩
    | some i =>
      simp only [Option.bind_some]
      obtain ⟨hadd, hkept⟩ := note_entry_spec h hwf.1 y i hp
      by_cases hin : y ∈ p
      · -- not added here: the note is silent, an older replayed commit adds it
        rw [hkept hin]
        simp only
        apply notesCredit_complete k h.2.2.2 hwf.2 y
        obtain ⟨cp, hcp, hy1, hy2⟩ := hy
        simp only [List.take_succ_cons, List.mem_cons] at hcp
        rcases hcp with e | e
        · subst e; exact absurd hin hy2
        · exact ⟨cp, e, hy1, hy2⟩
      · rw [hadd hin]
        cases hg : g y with
        | some s => rfl
        | none =>
          simp only
          cases hr : notesCredit (log.take k) (notes.take k) y with
          | none => rfl
          | some s => have := hrest s hr; rw [hg] at this; cases this
where
  posOf_none_iff_not_mem {y : Nat} {c : List Nat} : posOf y c = none ↔ y ∉ c := by
    constructor
    · intro h hin
      obtain ⟨i, hi, _⟩ := posOf_enumFrom y c hin
      rw [h] at hi; cases hi
    · exact posOf_none y c

/-! ### the head table and the combined lookup -/

theorem headCredit_sound {g : Nat → Author} {root : List Nat} {log : List (List Nat × List Nat)} {notes : List Note}
    (h : HistOK g root log notes) (y s : Nat) (hs : headCredit log notes y = some s) : g y = some s := by
  match log, notes, h with
  | [], _, _ => simp [headCredit] at hs
  | (c, p) :: log, n :: notes, h =>
    simp only [headCredit] at hs
    by_cases hc : y ∈ c
    · have h1 : c.contains y = true := by simpa using hc
      rw [h1] at hs
      simp only [if_true] at hs
      rw [← h.1 y hc]; exact hs
    · have h1 : c.contains y = false := by simpa using hc
      rw [h1] at hs
      simp at hs

theorem headCredit_complete {g : Nat → Author} {root : List Nat} {c p : List Nat} {log : List (List Nat × List Nat)}
    {n : Note} {notes : List Note} (h : HistOK g root ((c, p) :: log) (n :: notes)) (y : Nat) (hy : y ∈ c) :
    headCredit ((c, p) :: log) (n :: notes) y = g y := by
  have h1 : c.contains y = true := by simpa using hy
  simp only [headCredit, h1, if_true]
  exact h.1 y hy

/-- **the lookup never invents** -/
theorem replayCredit_sound {g : Nat → Author} {root : List Nat} {log : List (List Nat × List Nat)} {notes : List Note}
    (h : HistOK g root log notes) (hwf : AllNotesWF log notes) (k y s : Nat)
    (hs : replayCredit k log notes y = some s) : g y = some s := by
  unfold replayCredit at hs
  cases hh : headCredit log notes y with
  | some t =>
    rw [hh] at hs
    simp only [Option.some.injEq] at hs
    subst hs
    exact headCredit_sound h y t hh
  | none =>
    rw [hh] at hs
    exact notesCredit_sound k h hwf y s hs

/-- **the lookup finds the ghost author** of every line that is in the source HEAD state or that one
    of the `k` replayed commits adds; and it says "nobody" for a line nobody's (typed by a person
    while resolving a conflict, or an upstream line). -/
theorem replayCredit_eq_ghost {g : Nat → Author} {root : List Nat} {log : List (List Nat × List Nat)} {notes : List Note}
    (h : HistOK g root log notes) (hwf : AllNotesWF log notes) (k y : Nat)
    (hy : (∃ cp, log.head? = some cp ∧ y ∈ cp.1) ∨ (∃ cp ∈ log.take k, y ∈ cp.1 ∧ y ∉ cp.2) ∨ g y = none) :
    replayCredit k log notes y = g y := by
  rcases hy with ⟨cp, hcp, hy⟩ | hy | hy
  · match log, notes, h with
    | [], _, _ => simp at hcp
    | (c, p) :: log, n :: notes, h =>
      simp only [List.head?_cons, Option.some.injEq] at hcp
      subst hcp
      unfold replayCredit
      rw [headCredit_complete h y hy]
      cases hg : g y with
      | some s => rfl
      | none =>
        simp only
        cases hr : notesCredit (((c, p) :: log).take k) ((n :: notes).take k) y with
        | none => rfl
        | some s => have := notesCredit_sound k h hwf y s hr; rw [hg] at this; cases this
  · unfold replayCredit
    cases hh : headCredit log notes y with
    | some s =>
      simp only
      exact (headCredit_sound h y s hh).symm
    | none =>
      simp only
      exact notesCredit_complete k h hwf y hy
  · cases hr : replayCredit k log notes y with
    | none => exact hy.symm
    | some s => have := replayCredit_sound h hwf k y s hr; rw [hy] at this; cases this

end GitAi.Sys
