/-
  Lemmas/RewriteInv.lean — the combined invariant (working log + history) and its preservation by
  every operation of Model/Rewrite.lean.
-/
import GitAiModel.Lemmas.Rewrite
namespace GitAi.Sys

/-! ### what the working log says, for any state that satisfies the working-log invariant -/

theorem effective_spec (sp : Spec) (h : Inv2 sp) : effective sp.st = sp.st.work.map (target sp) := by
  have hl := h.latest
  unfold effective
  cases he : sp.st.entries.getLast? with
  | some e =>
    rw [he] at hl
    simp only at hl ⊢
    obtain ⟨ha, hn⟩ := hl
    unfold checkpointAttr
    apply List.map_congr_left
    intro y hy
    rw [ha, lookup_map]
    by_cases hs : y ∈ e.snap
    · simp [hs]
    · have := hn y hy hs
      simp [hs, this]
  | none =>
    rw [he] at hl
    simp only at hl ⊢
    rcases hl with ⟨hi, hnone⟩ | ⟨_, hi, hnd, _, hrest⟩
    · rw [hi, checkpointAttr_no_claims]
      apply List.map_congr_left
      intro y hy
      exact (hnone y hy).symm
    · rw [hi, map_initialAuthor_claimsFrom sp.st.initSnap (target sp) hnd]
      unfold checkpointAttr
      apply List.map_congr_left
      intro y hy
      simp only
      rw [lookup_map]
      by_cases hs : y ∈ sp.st.initSnap
      · simp [hs]
      · simp [hs, hrest y hy hs]

theorem wlAuthor_spec (sp : Spec) (h : Inv2 sp) (y : Nat) :
    wlAuthor sp.st y = if y ∈ sp.st.work then target sp y else none := by
  unfold wlAuthor
  rw [effective_spec sp h, lookup_map]
  by_cases hy : y ∈ sp.st.work <;> simp [hy]

theorem checkpoint_log (st : State) (who : Author) :
    (checkpoint st who).log = st.log := by
  unfold checkpoint; simp only; split <;> rfl

/-! ### the combined invariant -/

structure RInv (root : List Nat) (sp : Spec) : Prop where
  inv2 : Inv2 sp
  hist : HistOK sp.g root sp.st.log sp.st.notes
  head : sp.st.head = tipOf root sp.st.log
  rootHuman : ∀ y ∈ root, sp.g y = none
  rootSeen : ∀ y ∈ root, y ∈ sp.seen
  rootNodup : root.Nodup
  logSeen : ∀ cp ∈ sp.st.log, ∀ y ∈ cp.1, y ∈ sp.seen

/-- blame at HEAD reports the ghost author of every line of HEAD -/
theorem RInv.blame_head {root sp} (h : RInv root sp) :
    ∀ y ∈ sp.st.head, blame sp.st.log sp.st.notes y = sp.g y := by
  intro y hy
  rw [h.head] at hy
  exact h.hist.tip h.rootHuman y hy

/-- working log first, blame for the rest: the ghost author of every line of the working tree or
    of HEAD -/
theorem mergedAuthor_spec {root sp} (h : RInv root sp) (y : Nat) :
    mergedAuthor sp.st y = if y ∈ sp.st.work ∨ y ∈ sp.st.head then sp.g y else none := by
  unfold mergedAuthor tipAuthor
  rw [wlAuthor_spec sp h.inv2]
  by_cases hh : y ∈ sp.st.head
  · have hb := h.blame_head y hh
    by_cases hw : y ∈ sp.st.work
    · simp [hw, hh, target, hb]
    · simp [hw, hh, hb]
  · by_cases hw : y ∈ sp.st.work
    · simp only [hw, hh, if_true, target, if_false, true_or]
      cases hg : sp.g y <;> simp [hh]
    · simp [hw, hh]

/-! ### edits, checkpoints and staging leave the history alone -/

theorem step_nocommit_fields (st : State) (op : Op) (hop : op ≠ .commit) :
    (step st op).log = st.log ∧ (step st op).notes = st.notes ∧ (step st op).head = st.head := by
  cases op with
  | humanEdit ys => exact ⟨rfl, rfl, rfl⟩
  | aiEdit s ys =>
    simp only [step]
    obtain ⟨_, h2, _, _, h5⟩ := checkpoint_fields { (checkpoint st none) with work := ys } (some s)
    obtain ⟨_, g2, _, _, g5⟩ := checkpoint_fields st none
    refine ⟨?_, ?_, ?_⟩
    · rw [checkpoint_log]; show (checkpoint st none).log = st.log; rw [checkpoint_log]
    · rw [h5]; exact g5
    · rw [h2]; exact g2
  | humanCheckpoint =>
    obtain ⟨_, g2, _, _, g5⟩ := checkpoint_fields st none
    exact ⟨checkpoint_log st none, g5, g2⟩
  | stageAll => exact ⟨rfl, rfl, rfl⟩
  | stage ys => exact ⟨rfl, rfl, rfl⟩
  | commit => exact absurd rfl hop

theorem RInv.nocommit {root sp} (h : RInv root sp) (op : Op) (hop : op ≠ .commit) (hv : ValidOp2 sp op) :
    RInv root (specStep sp op) := by
  obtain ⟨hl, hn, hh⟩ := step_nocommit_fields sp.st op hop
  have hst : (specStep sp op).st = step sp.st op := by cases op <;> rfl
  have hg : ∀ y ∈ sp.seen, (specStep sp op).g y = sp.g y ∧ y ∈ (specStep sp op).seen :=
    fun y hy => specStep_g_seen sp op y hy
  refine ⟨specStep_inv2 sp op h.inv2 hv, ?_, ?_, ?_, ?_, ?_, ?_⟩
  · rw [hst, hl, hn]
    exact h.hist.congr (fun cp hcp y hy => (hg y (h.logSeen cp hcp y hy)).1)
  · rw [hst, hh, hl]; exact h.head
  · intro y hy; rw [(hg y (h.rootSeen y hy)).1]; exact h.rootHuman y hy
  · intro y hy; exact (hg y (h.rootSeen y hy)).2
  · exact h.rootNodup
  · intro cp hcp y hy
    rw [hst, hl] at hcp
    exact (hg y (h.logSeen cp hcp y hy)).2

end GitAi.Sys
