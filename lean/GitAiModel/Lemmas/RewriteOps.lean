/-
  Lemmas/RewriteOps.lean — commit, amend, reset, stash round trip, replay (rebase / cherry-pick)
  and squash preparation preserve the combined invariant `RInv`.
-/
import GitAiModel.Lemmas.RewriteInv
namespace GitAi.Sys

theorem HistOK.tip_nodup {g root log notes} (h : HistOK g root log notes) (hr : root.Nodup) :
    (tipOf root log).Nodup := by
  match log, notes, h with
  | [], [], _ => exact hr
  | (c, p) :: log, n :: notes, h => exact h.2.2.1

/-! ### commit -/

/-- what is staged is made of lines of HEAD and of the working tree, each once -/
def CommitOK3 (sp : Spec) : Prop :=
  CommitOK sp ∧ sp.st.index.Nodup ∧ ∀ y ∈ sp.st.index, y ∈ sp.st.head ∨ y ∈ sp.st.work

theorem commitStep_eq (st : State) :
    commitStep st =
      { head := (checkpoint st none).index, index := (checkpoint st none).index,
        work := (checkpoint st none).work, entries := [],
        initial := splitPending (checkpoint st none).index (checkpoint st none).work (wlAuthor (checkpoint st none)),
        initSnap := (checkpoint st none).work,
        notes := splitNote (checkpoint st none).head (checkpoint st none).index (wlAuthor (checkpoint st none)) ::
          (checkpoint st none).notes,
        log := ((checkpoint st none).index, (checkpoint st none).head) :: (checkpoint st none).log } := by
  rfl

theorem RInv.checkpointed {root sp} (h : RInv root sp) :
    RInv root ⟨checkpoint sp.st none, sp.g, sp.seen⟩ :=
  h.nocommit .humanCheckpoint (by simp) trivial

theorem RInv.commit {root sp} (h : RInv root sp) (hok : CommitOK3 sp) :
    RInv root ⟨commitStep sp.st, sp.g, sp.seen⟩ := by
  obtain ⟨hwC, hhC, _, hxC, hnC⟩ := checkpoint_fields sp.st none
  have hlC := checkpoint_log sp.st none
  have hC := h.checkpointed
  have hA : ∀ y, wlAuthor (checkpoint sp.st none) y = if y ∈ sp.st.work then target sp y else none := by
    intro y
    have := wlAuthor_spec _ hC.inv2 y
    simp only [hwC] at this
    rw [this]
    by_cases hy : y ∈ sp.st.work
    · simp [hy, target, hhC]
    · simp [hy]
  refine ⟨(commit_spec sp h.inv2 hok.1).2, ?_, ?_, h.rootHuman, h.rootSeen, h.rootNodup, ?_⟩
  · show HistOK sp.g root (commitStep sp.st).log (commitStep sp.st).notes
    rw [commitStep_eq]
    simp only [hxC, hhC, hnC, hlC, h.head]
    apply h.hist.push h.rootHuman _ _ hok.2.1
    intro y hy hp
    rw [← h.head] at hp
    rcases hok.2.2 y hy with hh | hw
    · exact absurd hh hp
    · rw [hA]; simp [hw, target, hp]
  · show (commitStep sp.st).head = tipOf root (commitStep sp.st).log
    rw [commitStep_eq]; rfl
  · intro cp hcp y hy
    have : (commitStep sp.st).log = (sp.st.index, sp.st.head) :: sp.st.log := by
      rw [commitStep_eq]; simp only [hxC, hhC, hlC]
    rw [this] at hcp
    rcases List.mem_cons.1 hcp with e | e
    · subst e; exact hok.1.1 y hy
    · exact h.logSeen cp e y hy

/-! ### amend -/

structure AmendOK (sp : Spec) : Prop where
  nonempty : sp.st.log ≠ []
  seen : ∀ y ∈ sp.st.index, y ∈ sp.seen
  nodup : sp.st.index.Nodup
  fromTree : ∀ y ∈ sp.st.index, y ∈ sp.st.head ∨ y ∈ sp.st.work

theorem RInv.amendCore {root sp} (h : RInv root sp) (hok : AmendOK sp) :
    RInv root ⟨amendCore sp.st, sp.g, sp.seen⟩ := by
  have hm := mergedAuthor_spec h
  have hhist := h.hist
  have hlogSeen := h.logSeen
  have hhead := h.head
  unfold GitAi.Sys.amendCore
  match hl : sp.st.log, hn : sp.st.notes with
  | [], _ => exact absurd hl hok.nonempty
  | (c, p) :: log, [] => rw [hl, hn] at hhist; exact hhist.elim
  | (c, p) :: log, n :: notes =>
    rw [hl, hn] at hhist
    obtain ⟨_, hp, _, hrest⟩ := hhist
    have hmi : ∀ y ∈ sp.st.index, mergedAuthor sp.st y = sp.g y := by
      intro y hy
      rw [hm]
      rcases hok.fromTree y hy with e | e <;> simp [e]
    simp only
    refine ⟨⟨h.inv2.nodup, h.inv2.workSeen, hok.seen, by intro e he; simp at he, ?_⟩, ?_, ?_, h.rootHuman,
      h.rootSeen, h.rootNodup, ?_⟩
    · -- pending = pendingOf the new state, recorded with the working tree
      show PendingOK _
      refine @PendingOK.of_work ⟨_, sp.g, sp.seen⟩ ?_ rfl h.inv2.nodup h.inv2.workSeen
      show splitPending sp.st.index sp.st.work (mergedAuthor sp.st) = pendingOf _
      rw [splitPending_eq_claims]
      unfold pendingOf
      apply claimsFrom_congr
      intro y hy
      have : mergedAuthor sp.st y = sp.g y := by rw [hm]; simp [hy]
      simp only [target, this]
      by_cases hx : y ∈ sp.st.index <;> simp [hx]
    · show HistOK sp.g root ((sp.st.index, p) :: log) (splitNote p sp.st.index (mergedAuthor sp.st) :: notes)
      rw [hp]
      apply hrest.push h.rootHuman _ _ hok.nodup
      intro y hy _
      exact hmi y hy
    · rfl
    · intro cp hcp y hy
      rcases List.mem_cons.1 hcp with e | e
      · subst e; exact hok.seen y hy
      · exact hlogSeen cp (by rw [hl]; exact List.mem_cons_of_mem _ e) y hy

theorem RInv.amend {root sp} (h : RInv root sp) (hok : AmendOK sp) :
    RInv root ⟨amendStep sp.st, sp.g, sp.seen⟩ := by
  obtain ⟨hwC, hhC, _, hxC, _⟩ := checkpoint_fields sp.st none
  have hlC := checkpoint_log sp.st none
  have hC := h.checkpointed
  apply hC.amendCore
  refine ⟨?_, ?_, ?_, ?_⟩
  · show (checkpoint sp.st none).log ≠ []; rw [hlC]; exact hok.nonempty
  · show ∀ y ∈ (checkpoint sp.st none).index, y ∈ sp.seen; rw [hxC]; exact hok.seen
  · show (checkpoint sp.st none).index.Nodup; rw [hxC]; exact hok.nodup
  · show ∀ y ∈ (checkpoint sp.st none).index, y ∈ (checkpoint sp.st none).head ∨ y ∈ (checkpoint sp.st none).work
    rw [hxC, hhC, hwC]; exact hok.fromTree

end GitAi.Sys
