/-
  Lemmas/RewriteOps2.lean — reset, stash round trip, replay (rebase / cherry-pick) and squash
  preparation preserve the combined invariant `RInv`.
-/
import GitAiModel.Lemmas.RewriteOps
namespace GitAi.Sys

/-! ### moving HEAD back -/

theorem undoN_spec {g root} : ∀ (k : Nat) (st : State), HistOK g root st.log st.notes →
    st.head = tipOf root st.log → k ≤ st.log.length →
    (undoN k st).log = st.log.drop k ∧ (undoN k st).notes = st.notes.drop k ∧
    (undoN k st).head = tipOf root (st.log.drop k) ∧ (undoN k st).work = st.work ∧
    (undoN k st).index = st.index ∧ (undoN k st).entries = st.entries ∧ (undoN k st).initial = st.initial
  | 0, st, _, hh, _ => ⟨rfl, rfl, hh, rfl, rfl, rfl, rfl⟩
  | k + 1, st, hist, hh, hk => by
    match hl : st.log, hn : st.notes with
    | [], _ => rw [hl] at hk; simp at hk
    | (c, p) :: log, [] => rw [hl, hn] at hist; exact hist.elim
    | (c, p) :: log, n :: notes =>
      rw [hl, hn] at hist
      obtain ⟨_, hp, _, hrest⟩ := hist
      have hk' : k ≤ log.length := by rw [hl] at hk; simpa using hk
      have ih := undoN_spec (g := g) (root := root) k { st with head := p, log := log, notes := notes } hrest hp hk'
      have e : undoN (k + 1) st = undoN k { st with head := p, log := log, notes := notes } := by
        simp only [undoN, hl, hn]
      rw [e]
      simpa using ih

structure ResetOK (sp : Spec) (k : Nat) : Prop where
  depth : k ≤ sp.st.log.length

theorem RInv.reset {root sp} (h : RInv root sp) (k : Nat) (soft : Bool) (hok : ResetOK sp k) :
    RInv root ⟨resetStep k soft sp.st, sp.g, sp.seen⟩ := by
  obtain ⟨ul, un, uh, uw, _, _, _⟩ := undoN_spec k sp.st h.hist h.head hok.depth
  have hm := mergedAuthor_spec h
  have hwk : (resetStep k soft sp.st).work = sp.st.work := uw
  have hseenTip : ∀ y ∈ tipOf root (sp.st.log.drop k), y ∈ sp.seen := by
    intro y hy
    cases hd : sp.st.log.drop k with
    | nil => rw [hd] at hy; exact h.rootSeen y hy
    | cons cp rest =>
      rw [hd] at hy
      have : cp ∈ sp.st.log := List.mem_of_mem_drop (by rw [hd]; simp)
      exact h.logSeen cp this y hy
  refine ⟨⟨?_, ?_, ?_, by intro e he; simp [resetStep] at he, ?_⟩, ?_, ?_, h.rootHuman,
    h.rootSeen, h.rootNodup, ?_⟩
  · show (resetStep k soft sp.st).work.Nodup
    rw [hwk]; exact h.inv2.nodup
  · show ∀ y ∈ (resetStep k soft sp.st).work, y ∈ sp.seen
    rw [hwk]; exact h.inv2.workSeen
  · show ∀ y ∈ (undoN k sp.st).head, y ∈ sp.seen
    rw [uh]; exact hseenTip
  · show PendingOK _
    refine @PendingOK.of_work ⟨resetStep k soft sp.st, sp.g, sp.seen⟩ ?_ (by show sp.st.work = (resetStep k soft sp.st).work; rw [hwk])
      (by show (resetStep k soft sp.st).work.Nodup; rw [hwk]; exact h.inv2.nodup)
      (by show ∀ y ∈ (resetStep k soft sp.st).work, y ∈ sp.seen; rw [hwk]; exact h.inv2.workSeen)
    show splitPending (undoN k sp.st).head sp.st.work (mergedAuthor sp.st) = pendingOf _
    rw [splitPending_eq_claims]
    unfold pendingOf
    show _ = claimsFrom 1 (resetStep k soft sp.st).work _
    rw [hwk]
    apply claimsFrom_congr
    intro y hy
    have : mergedAuthor sp.st y = sp.g y := by rw [hm]; simp [hy]
    have hhd : (resetStep k soft sp.st).head = (undoN k sp.st).head := rfl
    simp only [target, this, hhd]
    by_cases hx : y ∈ (undoN k sp.st).head <;> simp [hx]
  · show HistOK sp.g root (undoN k sp.st).log (undoN k sp.st).notes
    rw [ul, un]; exact h.hist.drop k
  · show (undoN k sp.st).head = tipOf root (undoN k sp.st).log
    rw [uh, ul]
  · intro cp hcp y hy
    have : (resetStep k soft sp.st).log = sp.st.log.drop k := ul
    rw [this] at hcp
    exact h.logSeen cp (List.mem_of_mem_drop hcp) y hy

/-! ### stash: push, then pop onto the same content -/

theorem RInv.stash_roundtrip {root sp} (h : RInv root sp) (stk : List (List Nat × List (Nat × Nat))) :
    RInv root ⟨(stashPop sp.st.work (stashPush ⟨sp.st, stk⟩)).st, sp.g, sp.seen⟩ ∧
    (stashPop sp.st.work (stashPush ⟨sp.st, stk⟩)).st.work = sp.st.work ∧
    (stashPop sp.st.work (stashPush ⟨sp.st, stk⟩)).stash = stk := by
  obtain ⟨hwC, hhC, _, hxC, hnC⟩ := checkpoint_fields sp.st none
  have hlC := checkpoint_log sp.st none
  have hC := h.checkpointed
  have hA := wlAuthor_spec _ hC.inv2
  refine ⟨?_, rfl, rfl⟩
  simp only [stashPop, stashPush]
  refine ⟨⟨h.inv2.nodup, h.inv2.workSeen, ?_, ?_, ?_⟩, ?_, ?_, h.rootHuman, h.rootSeen, h.rootNodup, ?_⟩
  · exact hC.inv2.headSeen
  · exact hC.inv2.snapSeen
  · have hl := hC.inv2.latest
    show match (checkpoint sp.st none).entries.getLast? with
      | some e => e.attr = e.snap.map (target _) ∧ ∀ y ∈ sp.st.work, y ∉ e.snap → target _ y = none
      | none => PendingOK _
    cases he : (checkpoint sp.st none).entries.getLast? with
    | some e =>
      rw [he] at hl
      simp only at hl ⊢
      refine ⟨hl.1, ?_⟩
      intro y hy
      exact hl.2 y (by show y ∈ (checkpoint sp.st none).work; rw [hwC]; exact hy)
    | none =>
      simp only
      refine @PendingOK.of_work ⟨_, sp.g, sp.seen⟩ ?_ hwC h.inv2.nodup h.inv2.workSeen
      unfold pendingOf
      show List.filterMap _ (enum1 (checkpoint sp.st none).work) = claimsFrom 1 sp.st.work _
      rw [hwC]
      unfold claimsFrom enum1
      apply filterMap_congr_mem
      intro a ha
      have hy : a.2 ∈ sp.st.work := (mem_enumFrom' 1 _ a.1 a.2 ha).1
      rw [hA]
      simp only [hwC, hy, if_true]
      rfl
  · exact hC.hist
  · exact hC.head
  · exact hC.logSeen

/-! ### replay -/

/-- every new commit has distinct lines, and every line it adds is credited by `orig` as its ghost
    author -/
def NewsOK (orig g : Nat → Author) : List Nat → List (List Nat) → Prop
  | _, [] => True
  | base, c :: cs => c.Nodup ∧ (∀ y ∈ c, y ∉ base → orig y = g y) ∧ NewsOK orig g c cs

instance NewsOK.dec (orig g : Nat → Author) : ∀ (base : List Nat) (news : List (List Nat)),
    Decidable (NewsOK orig g base news)
  | _, [] => isTrue trivial
  | base, c :: cs =>
    have := NewsOK.dec orig g c cs
    by unfold NewsOK; exact inferInstance

theorem replayChain_hist {g root} (orig : Nat → Author) (hroot : ∀ y ∈ root, g y = none) :
    ∀ (news : List (List Nat)) (base : List Nat) (L : List (List Nat × List Nat)) (N : List Note),
    HistOK g root L N → base = tipOf root L → NewsOK orig g base news →
    HistOK g root ((replayChain orig base news).map (·.1) ++ L) ((replayChain orig base news).map (·.2) ++ N) ∧
    tipOf root ((replayChain orig base news).map (·.1) ++ L) = (news.getLast?).getD base
  | [], base, L, N, h, hb, _ => ⟨by simpa [replayChain] using h, by simp [replayChain, hb]⟩
  | c :: cs, base, L, N, h, hb, hn => by
    obtain ⟨hnd, hadd, hrest⟩ := hn
    have h1 : HistOK g root ((c, base) :: L) (splitNote base c orig :: N) := by
      rw [hb]
      apply h.push hroot c orig hnd
      intro y hy hp
      exact hadd y hy (by rw [hb]; exact hp)
    obtain ⟨ih1, ih2⟩ := replayChain_hist orig hroot cs c ((c, base) :: L) (splitNote base c orig :: N) h1 rfl hrest
    have e1 : (replayChain orig base (c :: cs)).map (·.1) ++ L = (replayChain orig c cs).map (·.1) ++ (c, base) :: L := by
      simp [replayChain]
    have e2 : (replayChain orig base (c :: cs)).map (·.2) ++ N = (replayChain orig c cs).map (·.2) ++ splitNote base c orig :: N := by
      simp [replayChain]
    rw [e1, e2]
    refine ⟨ih1, ?_⟩
    rw [ih2]
    cases cs with
    | nil => simp
    | cons d ds => simp [List.getLast?_cons]

theorem midTip_tipOf (root : List Nat) (mid : List ((List Nat × List Nat) × Note)) (L : List (List Nat × List Nat)) :
    midTip mid (tipOf root L) = tipOf root (mid.map (·.1) ++ L) := by
  cases mid with
  | nil => rfl
  | cons m ms => obtain ⟨⟨c, p⟩, n⟩ := m; rfl

theorem replayChain_tip (orig : Nat → Author) (base : List Nat) (news : List (List Nat)) :
    midTip (replayChain orig base news) base = (news.getLast?).getD base := by
  induction news generalizing base with
  | nil => simp [replayChain, midTip]
  | cons c cs ih =>
    have := ih c
    unfold midTip at this ⊢
    simp only [replayChain]
    cases hr : replayChain orig c cs with
    | nil =>
      rw [hr] at this
      cases cs with
      | nil => simp
      | cons d ds => simp [replayChain] at hr
    | cons x xs =>
      rw [hr] at this
      obtain ⟨⟨c', p'⟩, n'⟩ := x
      simp only [List.cons_append]
      simp only at this
      rw [this]
      cases cs with
      | nil => simp [replayChain] at hr
      | cons d ds => simp [List.getLast?_cons]

structure ReplayOK (root : List Nat) (sp : Spec) (drop : Nat) (mid : List ((List Nat × List Nat) × Note)) (k : Nat)
    (srcLog : List (List Nat × List Nat)) (srcNotes : List Note) (news : List (List Nat)) : Prop where
  depth : drop ≤ sp.st.log.length
  midHist : HistOK sp.g root (mid.map (·.1) ++ sp.st.log.drop drop) (mid.map (·.2) ++ sp.st.notes.drop drop)
  midSeen : ∀ m ∈ mid, ∀ y ∈ m.1.1, y ∈ sp.seen
  newsOK : NewsOK (replayCredit k srcLog srcNotes) sp.g (tipOf root (mid.map (·.1) ++ sp.st.log.drop drop)) news
  newsSeen : ∀ c ∈ news, ∀ y ∈ c, y ∈ sp.seen

theorem NewsOK.last_nodup {orig g} : ∀ (news : List (List Nat)) (base : List Nat), NewsOK orig g base news →
    base.Nodup → ((news.getLast?).getD base).Nodup
  | [], _, _, hb => by simpa using hb
  | c :: cs, _, h, _ => by
    have := NewsOK.last_nodup cs c h.2.2 h.1
    cases cs with
    | nil => simpa using h.1
    | cons d ds => simpa [List.getLast?_cons] using this

theorem RInv.replay {root sp} (h : RInv root sp) (drop : Nat) (mid : List ((List Nat × List Nat) × Note)) (k : Nat)
    (srcLog : List (List Nat × List Nat)) (srcNotes : List Note) (news : List (List Nat))
    (hok : ReplayOK root sp drop mid k srcLog srcNotes news) :
    RInv root ⟨replayStep drop mid k srcLog srcNotes news sp.st, sp.g, sp.seen⟩ := by
  obtain ⟨ul, un, uh, _, _, _, _⟩ := undoN_spec drop sp.st h.hist h.head hok.depth
  -- the base the new commits sit on
  have hbase : midTip mid (undoN drop sp.st).head = tipOf root (mid.map (·.1) ++ sp.st.log.drop drop) := by
    rw [uh]; exact midTip_tipOf root mid _
  obtain ⟨hc1, hc2⟩ := replayChain_hist (replayCredit k srcLog srcNotes) h.rootHuman news _ _ _ hok.midHist rfl hok.newsOK
  have htipnd : ((news.getLast?).getD (tipOf root (mid.map (·.1) ++ sp.st.log.drop drop))).Nodup :=
    NewsOK.last_nodup news _ hok.newsOK (hok.midHist.tip_nodup h.rootNodup)
  have htipseen : ∀ y ∈ (news.getLast?).getD (tipOf root (mid.map (·.1) ++ sp.st.log.drop drop)), y ∈ sp.seen := by
    intro y hy
    cases hl : news.getLast? with
    | some c =>
      rw [hl] at hy
      exact hok.newsSeen c (List.mem_of_getLast? hl) y hy
    | none =>
      rw [hl] at hy
      simp only [Option.getD_none] at hy
      cases hm : mid with
      | nil =>
        rw [hm] at hy
        simp only [List.map_nil, List.nil_append] at hy
        cases hd : sp.st.log.drop drop with
        | nil => rw [hd] at hy; exact h.rootSeen y hy
        | cons cp rest =>
          rw [hd] at hy
          exact h.logSeen cp (List.mem_of_mem_drop (by rw [hd]; simp)) y hy
      | cons m ms =>
        rw [hm] at hy
        obtain ⟨⟨c, p⟩, n⟩ := m
        exact hok.midSeen ((c, p), n) (by rw [hm]; simp) y hy
  -- unfold the step
  have htip : (replayStep drop mid k srcLog srcNotes news sp.st).head =
      (news.getLast?).getD (tipOf root (mid.map (·.1) ++ sp.st.log.drop drop)) := by
    simp only [replayStep]
    rw [hbase]
    exact replayChain_tip _ _ _
  have hwork : (replayStep drop mid k srcLog srcNotes news sp.st).work = (replayStep drop mid k srcLog srcNotes news sp.st).head := rfl
  have hlog : (replayStep drop mid k srcLog srcNotes news sp.st).log =
      (replayChain (replayCredit k srcLog srcNotes) (tipOf root (mid.map (·.1) ++ sp.st.log.drop drop)) news).map (·.1) ++
        (mid.map (·.1) ++ sp.st.log.drop drop) := by
    simp only [replayStep]; rw [hbase, ul]
  have hnotes : (replayStep drop mid k srcLog srcNotes news sp.st).notes =
      (replayChain (replayCredit k srcLog srcNotes) (tipOf root (mid.map (·.1) ++ sp.st.log.drop drop)) news).map (·.2) ++
        (mid.map (·.2) ++ sp.st.notes.drop drop) := by
    simp only [replayStep]; rw [hbase, un]
  refine ⟨⟨?_, ?_, ?_, by intro e he; simp [replayStep] at he, ?_⟩, ?_, ?_, h.rootHuman, h.rootSeen, h.rootNodup, ?_⟩
  · show (replayStep drop mid k srcLog srcNotes news sp.st).work.Nodup
    rw [hwork, htip]; exact htipnd
  · show ∀ y ∈ (replayStep drop mid k srcLog srcNotes news sp.st).work, y ∈ sp.seen
    rw [hwork, htip]; exact htipseen
  · show ∀ y ∈ (replayStep drop mid k srcLog srcNotes news sp.st).head, y ∈ sp.seen
    rw [htip]; exact htipseen
  · show PendingOK _
    left
    refine ⟨rfl, ?_⟩
    intro y hy
    have hy' : y ∈ (replayStep drop mid k srcLog srcNotes news sp.st).head := hy
    simp [target, hy']
  · show HistOK sp.g root (replayStep drop mid k srcLog srcNotes news sp.st).log (replayStep drop mid k srcLog srcNotes news sp.st).notes
    rw [hlog, hnotes]; exact hc1
  · show (replayStep drop mid k srcLog srcNotes news sp.st).head = tipOf root (replayStep drop mid k srcLog srcNotes news sp.st).log
    rw [htip, hlog, hc2]
  · intro cp hcp y hy
    rw [hlog] at hcp
    rcases List.mem_append.1 hcp with e | e
    · -- a new commit: its content is one of `news`
      have : ∀ (news : List (List Nat)) (base : List Nat), ∀ x ∈ (replayChain (replayCredit k srcLog srcNotes) base news).map (·.1),
          x.1 ∈ news := by
        intro news
        induction news with
        | nil => intro base x hx; simp [replayChain] at hx
        | cons c cs ih =>
          intro base x hx
          simp only [replayChain, List.map_append, List.mem_append, List.map_cons, List.map_nil,
            List.mem_singleton] at hx
          rcases hx with hx | hx
          · exact List.mem_cons_of_mem _ (ih c x hx)
          · subst hx; simp
      exact hok.newsSeen cp.1 (this news _ cp e) y hy
    · rcases List.mem_append.1 e with e | e
      · obtain ⟨m, hm, rfl⟩ := List.mem_map.1 e
        exact hok.midSeen m hm y hy
      · exact h.logSeen cp (List.mem_of_mem_drop e) y hy

/-! ### merge --squash -/

structure SquashOK (sp : Spec) (srcLog : List (List Nat × List Nat)) (srcNotes : List Note) (ys : List Nat) : Prop where
  nodup : ys.Nodup
  seen : ∀ y ∈ ys, y ∈ sp.seen
  credited : ∀ y ∈ ys, y ∉ sp.st.head → blame srcLog srcNotes y = sp.g y

theorem RInv.squash {root sp} (h : RInv root sp) (srcLog : List (List Nat × List Nat)) (srcNotes : List Note)
    (ys : List Nat) (hok : SquashOK sp srcLog srcNotes ys) :
    RInv root ⟨squashPrepare srcLog srcNotes ys sp.st, sp.g, sp.seen⟩ := by
  refine ⟨⟨hok.nodup, hok.seen, h.inv2.headSeen, by intro e he; simp [squashPrepare] at he, ?_⟩, h.hist, h.head,
    h.rootHuman, h.rootSeen, h.rootNodup, h.logSeen⟩
  show PendingOK _
  refine @PendingOK.of_work ⟨squashPrepare srcLog srcNotes ys sp.st, sp.g, sp.seen⟩ ?_ rfl hok.nodup hok.seen
  show splitPending sp.st.head ys (blame srcLog srcNotes) = pendingOf _
  rw [splitPending_eq_claims]
  unfold pendingOf
  apply claimsFrom_congr
  intro y hy
  have hhd : (squashPrepare srcLog srcNotes ys sp.st).head = sp.st.head := rfl
  simp only [target, hhd]
  by_cases hx : y ∈ sp.st.head
  · simp [hx]
  · simp [hx, hok.credited y hy hx]

/-! ### switching branches with uncommitted work -/

structure SwitchOK (root : List Nat) (sp : Spec) (otherLog : List (List Nat × List Nat)) (otherNotes : List Note)
    (otherHead : List Nat) : Prop where
  hist : HistOK sp.g root otherLog otherNotes
  tip : otherHead = tipOf root otherLog
  seen : ∀ cp ∈ otherLog, ∀ y ∈ cp.1, y ∈ sp.seen
  /-- a file with local changes is the same at both tips; a file without has nothing in the working log -/
  carry : (sp.st.work = sp.st.head ∧ sp.st.index = sp.st.head ∧ sp.st.entries = [] ∧ sp.st.initial = []) ∨
          (¬(sp.st.work = sp.st.head ∧ sp.st.index = sp.st.head) ∧ otherHead = sp.st.head)

theorem tip_seen {root sp} (h : RInv root sp) (otherLog : List (List Nat × List Nat))
    (hs : ∀ cp ∈ otherLog, ∀ y ∈ cp.1, y ∈ sp.seen) : ∀ y ∈ tipOf root otherLog, y ∈ sp.seen := by
  intro y hy
  cases otherLog with
  | nil => exact h.rootSeen y hy
  | cons cp rest => exact hs cp (by simp) y hy

theorem RInv.switchCarry {root sp} (h : RInv root sp) (otherLog : List (List Nat × List Nat)) (otherNotes : List Note)
    (otherHead : List Nat) (hok : SwitchOK root sp otherLog otherNotes otherHead) :
    RInv root ⟨switchCarry otherLog otherNotes otherHead sp.st, sp.g, sp.seen⟩ := by
  have hts := tip_seen h otherLog hok.seen
  rcases hok.carry with ⟨hw, hx, he, hi0⟩ | ⟨hn, heq⟩
  · have hc : (sp.st.work = sp.st.head && sp.st.index = sp.st.head) = true := by simp [hw, hx]
    unfold GitAi.Sys.switchCarry
    rw [if_pos hc]
    refine ⟨⟨?_, ?_, ?_, ?_, ?_⟩, hok.hist, hok.tip, h.rootHuman, h.rootSeen, h.rootNodup, hok.seen⟩
    · show otherHead.Nodup
      rw [hok.tip]; exact hok.hist.tip_nodup h.rootNodup
    · show ∀ y ∈ otherHead, y ∈ sp.seen
      rw [hok.tip]; exact hts
    · show ∀ y ∈ otherHead, y ∈ sp.seen
      rw [hok.tip]; exact hts
    · exact h.inv2.snapSeen
    · show match sp.st.entries.getLast? with
        | some e => _
        | none => PendingOK _
      rw [he]
      simp only [List.getLast?_nil]
      -- nothing is pending, and the working tree is the other tip
      left
      refine ⟨hi0, ?_⟩
      intro y hy
      have hy' : y ∈ otherHead := hy
      simp [target, hy']
  · have hc : (sp.st.work = sp.st.head && sp.st.index = sp.st.head) = false := by
      simp only [Bool.and_eq_false_iff, decide_eq_false_iff_not]
      by_cases hw : sp.st.work = sp.st.head
      · right; intro hx; exact hn ⟨hw, hx⟩
      · left; exact hw
    unfold GitAi.Sys.switchCarry
    rw [if_neg (by simp [hc])]
    exact ⟨⟨h.inv2.nodup, h.inv2.workSeen, h.inv2.headSeen, h.inv2.snapSeen, h.inv2.latest⟩, hok.hist,
      by show sp.st.head = tipOf root otherLog; rw [← heq]; exact hok.tip, h.rootHuman, h.rootSeen, h.rootNodup, hok.seen⟩

structure SwitchMergeOK (root : List Nat) (sp : Spec) (otherLog : List (List Nat × List Nat)) (otherNotes : List Note)
    (otherHead ys : List Nat) : Prop where
  hist : HistOK sp.g root otherLog otherNotes
  tip : otherHead = tipOf root otherLog
  seen : ∀ cp ∈ otherLog, ∀ y ∈ cp.1, y ∈ sp.seen
  nodup : ys.Nodup
  /-- git's merge result is made of the other tip's lines and of the local changes -/
  merged : ∀ y ∈ ys, y ∈ otherHead ∨ (y ∈ sp.st.work ∧ y ∉ sp.st.head)

theorem RInv.switchMerge {root sp} (h : RInv root sp) (otherLog : List (List Nat × List Nat)) (otherNotes : List Note)
    (otherHead ys : List Nat) (hok : SwitchMergeOK root sp otherLog otherNotes otherHead ys) :
    RInv root ⟨switchMerge otherLog otherNotes otherHead ys sp.st, sp.g, sp.seen⟩ := by
  have hts := tip_seen h otherLog hok.seen
  have hA := wlAuthor_spec sp h.inv2
  refine ⟨⟨hok.nodup, ?_, ?_, by intro e he; exact absurd he (by simp [GitAi.Sys.switchMerge]), ?_⟩, hok.hist, hok.tip, h.rootHuman,
    h.rootSeen, h.rootNodup, hok.seen⟩
  · intro y hy
    rcases hok.merged y hy with e | ⟨e, _⟩
    · exact hts y (hok.tip ▸ e)
    · exact h.inv2.workSeen y e
  · show ∀ y ∈ otherHead, y ∈ sp.seen
    rw [hok.tip]; exact hts
  · show PendingOK _
    refine @PendingOK.of_work ⟨GitAi.Sys.switchMerge otherLog otherNotes otherHead ys sp.st, sp.g, sp.seen⟩ ?_ rfl hok.nodup ?_
    · show splitPending otherHead ys (wlAuthor sp.st) = pendingOf _
      rw [splitPending_eq_claims]
      unfold pendingOf
      apply claimsFrom_congr
      intro y hy
      have hhd : (GitAi.Sys.switchMerge otherLog otherNotes otherHead ys sp.st).head = otherHead := rfl
      simp only [target, hhd]
      by_cases hx : y ∈ otherHead
      · simp [hx]
      · rcases hok.merged y hy with e | ⟨e1, e2⟩
        · exact absurd e hx
        · rw [hA]; simp [hx, e1, e2, target]
    · intro y hy
      rcases hok.merged y hy with e | ⟨e, _⟩
      · exact hts y (hok.tip ▸ e)
      · exact h.inv2.workSeen y e

/-! ### stash push and pop as separate operations -/

/-- what a push made when HEAD was `hd` saved: the AI lines of the stashed content -/
def StashEntryOK (g : Nat → Author) (seen hd : List Nat) (e : List Nat × List (Nat × Nat)) : Prop :=
  e.2 = claimsFrom 1 e.1 (fun y => if y ∈ hd then none else g y) ∧ e.1.Nodup ∧ ∀ y ∈ e.1, y ∈ seen

theorem StashEntryOK.mono {g g' : Nat → Author} {seen seen' hd : List Nat} {e : List Nat × List (Nat × Nat)}
    (h : StashEntryOK g seen hd e) (hg : ∀ y ∈ seen, g' y = g y ∧ y ∈ seen') : StashEntryOK g' seen' hd e := by
  obtain ⟨h1, h2, h3⟩ := h
  refine ⟨?_, h2, fun y hy => (hg y (h3 y hy)).2⟩
  rw [h1]
  apply claimsFrom_congr
  intro y hy
  rw [(hg y (h3 y hy)).1]

/-- `git stash`: the working tree goes back to HEAD, the working log's entries stay, the AI lines of
    the stashed content are saved -/
theorem RInv.stashPush {root sp} (h : RInv root sp) (stk : List (List Nat × List (Nat × Nat))) :
    RInv root ⟨(stashPush ⟨sp.st, stk⟩).st, sp.g, sp.seen⟩ ∧
    ∃ saved, (stashPush ⟨sp.st, stk⟩).stash = (sp.st.work, saved) :: stk ∧
      StashEntryOK sp.g sp.seen sp.st.head (sp.st.work, saved) := by
  obtain ⟨hwC, hhC, _, hxC, hnC⟩ := checkpoint_fields sp.st none
  have hlC := checkpoint_log sp.st none
  have hC := h.checkpointed
  have hA := wlAuthor_spec _ hC.inv2
  have hheadnd : sp.st.head.Nodup := by rw [h.head]; exact h.hist.tip_nodup h.rootNodup
  constructor
  · simp only [GitAi.Sys.stashPush]
    refine ⟨⟨?_, ?_, ?_, ?_, ?_⟩, ?_, ?_, h.rootHuman, h.rootSeen, h.rootNodup, ?_⟩
    · show (checkpoint sp.st none).head.Nodup
      rw [hhC]; exact hheadnd
    · show ∀ y ∈ (checkpoint sp.st none).head, y ∈ sp.seen
      exact hC.inv2.headSeen
    · exact hC.inv2.headSeen
    · exact hC.inv2.snapSeen
    · have hl := hC.inv2.latest
      show match (checkpoint sp.st none).entries.getLast? with
        | some e => e.attr = e.snap.map (target _) ∧ ∀ y ∈ (checkpoint sp.st none).head, y ∉ e.snap → target _ y = none
        | none => PendingOK _
      cases he : (checkpoint sp.st none).entries.getLast? with
      | some e =>
        rw [he] at hl
        simp only at hl ⊢
        refine ⟨hl.1, ?_⟩
        intro y hy _
        have hy' : y ∈ (checkpoint sp.st none).head := hy
        simp [target, hy']
      | none =>
        simp only
        left
        refine ⟨rfl, ?_⟩
        intro y hy
        have hy' : y ∈ (checkpoint sp.st none).head := hy
        simp [target, hy']
    · exact hC.hist
    · exact hC.head
    · exact hC.logSeen
  · refine ⟨(enum1 (checkpoint sp.st none).work).filterMap
        (fun p => (wlAuthor (checkpoint sp.st none) p.2).map (fun s => (p.1, s))), ?_, ?_, h.inv2.nodup, h.inv2.workSeen⟩
    · simp only [GitAi.Sys.stashPush]
      rw [hwC]
    · show List.filterMap _ (enum1 (checkpoint sp.st none).work) = claimsFrom 1 sp.st.work _
      rw [hwC]
      unfold claimsFrom enum1
      apply filterMap_congr_mem
      intro a ha
      have hy : a.2 ∈ sp.st.work := (mem_enumFrom' 1 _ a.1 a.2 ha).1
      rw [hA]
      simp only [hwC, hy, if_true, target, hhC]

/-- what `git stash pop` needs: git's merge result `ys` has distinct known lines, and every line of it
    that does not come from what the next checkpoint will diff against (the latest snapshot, or the
    stashed content) is a HEAD line or a person's; when the stashed content is what will be diffed
    against, its lines are in HEAD now exactly when they were at push time. -/
def popRest (sp : Spec) (hd snap ys : List Nat) : Option Entry → Prop
  | some e => ∀ y ∈ ys, y ∉ e.snap → target sp y = none
  | none => (∀ y ∈ snap, (y ∈ hd ↔ y ∈ sp.st.head)) ∧ ∀ y ∈ ys, y ∉ snap → target sp y = none

instance (sp : Spec) (hd snap ys : List Nat) (o : Option Entry) : Decidable (popRest sp hd snap ys o) := by
  cases o <;> (unfold popRest; exact inferInstance)

structure StashPopOK (sp : Spec) (hd snap ys : List Nat) : Prop where
  nodup : ys.Nodup
  seen : ∀ y ∈ ys, y ∈ sp.seen
  rest : popRest sp hd snap ys sp.st.entries.getLast?

theorem RInv.stashPop {root sp} (h : RInv root sp) (hd snap : List Nat) (saved : List (Nat × Nat))
    (rest : List (List Nat × List (Nat × Nat))) (ys : List Nat)
    (he : StashEntryOK sp.g sp.seen hd (snap, saved)) (hok : StashPopOK sp hd snap ys) :
    RInv root ⟨(stashPop ys ⟨sp.st, (snap, saved) :: rest⟩).st, sp.g, sp.seen⟩ := by
  obtain ⟨hs1, hs2, hs3⟩ := he
  simp only [GitAi.Sys.stashPop]
  refine ⟨⟨hok.nodup, hok.seen, h.inv2.headSeen, h.inv2.snapSeen, ?_⟩, h.hist, h.head, h.rootHuman, h.rootSeen,
    h.rootNodup, h.logSeen⟩
  have hl := h.inv2.latest
  have hr := hok.rest
  show match sp.st.entries.getLast? with
    | some e => e.attr = e.snap.map (target _) ∧ ∀ y ∈ ys, y ∉ e.snap → target _ y = none
    | none => PendingOK _
  cases hee : sp.st.entries.getLast? with
  | some e =>
    rw [hee] at hl hr
    simp only [popRest] at hl hr ⊢
    exact ⟨hl.1, hr⟩
  | none =>
    rw [hee] at hr
    simp only [popRest] at hr ⊢
    obtain ⟨hiff, hrest⟩ := hr
    have hF : ∀ y ∈ snap, (if y ∈ hd then none else sp.g y) = target sp y := by
      intro y hy
      by_cases hh : y ∈ hd
      · have : y ∈ sp.st.head := (hiff y hy).1 hh
        simp [hh, target, this]
      · have : y ∉ sp.st.head := fun hx => hh ((hiff y hy).2 hx)
        simp [hh, target, this]
    have hsaved : saved = claimsFrom 1 snap (target sp) := by
      show (snap, saved).2 = _
      rw [hs1]
      exact claimsFrom_congr 1 snap _ _ hF
    by_cases hnil : saved = []
    · left
      refine ⟨hnil, ?_⟩
      intro y hy
      by_cases hin : y ∈ snap
      · exact claimsFrom_nil_target snap (target sp) (by rw [← hsaved]; exact hnil) y hin
      · exact hrest y hy hin
    · right
      exact ⟨hnil, hsaved, hs2, hs3, hrest⟩

end GitAi.Sys
