/-
  Lemmas/RewriteStop.lean — a rebase / cherry-pick that stopped and was continued
  (Model/Rewrite.lean: stopCredit, replayStepR, ROp.replayR). The working logs of the commits the
  operation stopped on credit the lines an agent's checkpoint recorded there (`res`); everything else
  goes through the replay lookup. The invariant argument is the one of `RInv.replay`: it only needs
  that every line a new commit adds is credited with its ghost author (`NewsOK`).
-/
import GitAiModel.Lemmas.RewriteTyped
namespace GitAi.Sys

theorem stopCredit_nil (orig : Nat → Author) : stopCredit [] orig = orig := rfl

/-- a line recorded for session `s` is credited to `s` -/
theorem stopCredit_recorded (res : List (Nat × Nat)) (orig : Nat → Author) (y s : Nat)
    (h : res.lookup y = some s) : stopCredit res orig y = some s := by
  simp [stopCredit, h]

/-- a line no stopped-on working log recorded goes through the lookup -/
theorem stopCredit_other (res : List (Nat × Nat)) (orig : Nat → Author) (y : Nat)
    (h : res.lookup y = none) : stopCredit res orig y = orig y := by
  simp [stopCredit, h]

/-- nothing is invented: an answer comes from a recorded claim or from the lookup -/
theorem stopCredit_sound (res : List (Nat × Nat)) (orig : Nat → Author) (y s : Nat)
    (h : stopCredit res orig y = some s) : res.lookup y = some s ∨ orig y = some s := by
  unfold stopCredit at h
  split at h
  · rename_i s' hl; left; rw [hl]; exact h
  · right; exact h

theorem lookup_map_const (ids : List Nat) (s y : Nat) :
    (ids.map (fun y => (y, s))).lookup y = if y ∈ ids then some s else none := by
  induction ids with
  | nil => simp
  | cons a as ih =>
    simp only [List.map_cons, List.lookup_cons, List.mem_cons]
    by_cases hya : y = a
    · subst hya; simp
    · have : (y == a) = false := by simpa using hya
      rw [this, ih]; simp [hya]

/-- what the replay of the continued operation answers for a typed line, whoever typed it -/
theorem stopCredit_typed (who : Author) (ids : List Nat) (orig : Nat → Author) (y : Nat) (hy : y ∈ ids)
    (ho : orig y = none) : stopCredit (stopClaims who ids) orig y = who := by
  cases who with
  | none => simp [stopClaims, stopCredit, ho]
  | some s =>
    apply stopCredit_recorded
    simp only [stopClaims]; rw [lookup_map_const]; simp [hy]

/-- … and for every other line: the lookup, as without the stop -/
theorem stopCredit_untyped (who : Author) (ids : List Nat) (orig : Nat → Author) (y : Nat) (hy : y ∉ ids) :
    stopCredit (stopClaims who ids) orig y = orig y := by
  apply stopCredit_other
  cases who with
  | none => simp [stopClaims]
  | some s => simp only [stopClaims]; rw [lookup_map_const]; simp [hy]

structure ReplayOKR (root : List Nat) (sp : Spec) (res : List (Nat × Nat)) (drop : Nat) (mid : List ((List Nat × List Nat) × Note)) (k : Nat)
    (srcLog : List (List Nat × List Nat)) (srcNotes : List Note) (news : List (List Nat)) : Prop where
  depth : drop ≤ sp.st.log.length
  midHist : HistOK sp.g root (mid.map (·.1) ++ sp.st.log.drop drop) (mid.map (·.2) ++ sp.st.notes.drop drop)
  midSeen : ∀ m ∈ mid, ∀ y ∈ m.1.1, y ∈ sp.seen
  newsOK : NewsOK (stopCredit res (replayCredit k srcLog srcNotes)) sp.g (tipOf root (mid.map (·.1) ++ sp.st.log.drop drop)) news
  newsSeen : ∀ c ∈ news, ∀ y ∈ c, y ∈ sp.seen

theorem RInv.replayR {root sp} (h : RInv root sp) (res : List (Nat × Nat)) (drop : Nat) (mid : List ((List Nat × List Nat) × Note)) (k : Nat)
    (srcLog : List (List Nat × List Nat)) (srcNotes : List Note) (news : List (List Nat))
    (hok : ReplayOKR root sp res drop mid k srcLog srcNotes news) :
    RInv root ⟨replayStepR res drop mid k srcLog srcNotes news sp.st, sp.g, sp.seen⟩ := by
  obtain ⟨ul, un, uh, _, _, _, _⟩ := undoN_spec drop sp.st h.hist h.head hok.depth
  -- the base the new commits sit on
  have hbase : midTip mid (undoN drop sp.st).head = tipOf root (mid.map (·.1) ++ sp.st.log.drop drop) := by
    rw [uh]; exact midTip_tipOf root mid _
  obtain ⟨hc1, hc2⟩ := replayChain_hist (stopCredit res (replayCredit k srcLog srcNotes)) h.rootHuman news _ _ _ hok.midHist rfl hok.newsOK
  have htipnd : ((news.getLast?).getD (tipOf root (mid.map (·.1) ++ sp.st.log.drop drop))).Nodup :=
    NewsOK.last_nodup news _ hok.newsOK (hok.midHist.tip_nodup h.rootNodup)
  have htipseen : ∀ y ∈ (news.getLast?).getD (tipOf root (mid.map (·.1) ++ sp.st.log.drop drop)), y ∈ sp.seen := by
    intro y hy
    cases hl : news.getLast? with
    | some c =>
      rw [hl] at hy
      exact hok.newsSeen c (List.mem_of_getLast? hl) y hy
    | none =>
      rw [hl] at hy
      simp only [Option.getD_none] at hy
      cases hm : mid with
      | nil =>
        rw [hm] at hy
        simp only [List.map_nil, List.nil_append] at hy
        cases hd : sp.st.log.drop drop with
        | nil => rw [hd] at hy; exact h.rootSeen y hy
        | cons cp rest =>
          rw [hd] at hy
          exact h.logSeen cp (List.mem_of_mem_drop (by rw [hd]; simp)) y hy
      | cons m ms =>
        rw [hm] at hy
        obtain ⟨⟨c, p⟩, n⟩ := m
        exact hok.midSeen ((c, p), n) (by rw [hm]; simp) y hy
  -- unfold the step
  have htip : (replayStepR res drop mid k srcLog srcNotes news sp.st).head =
      (news.getLast?).getD (tipOf root (mid.map (·.1) ++ sp.st.log.drop drop)) := by
    simp only [replayStepR]
    rw [hbase]
    exact replayChain_tip _ _ _
  have hwork : (replayStepR res drop mid k srcLog srcNotes news sp.st).work = (replayStepR res drop mid k srcLog srcNotes news sp.st).head := rfl
  have hlog : (replayStepR res drop mid k srcLog srcNotes news sp.st).log =
      (replayChain (stopCredit res (replayCredit k srcLog srcNotes)) (tipOf root (mid.map (·.1) ++ sp.st.log.drop drop)) news).map (·.1) ++
        (mid.map (·.1) ++ sp.st.log.drop drop) := by
    simp only [replayStepR]; rw [hbase, ul]
  have hnotes : (replayStepR res drop mid k srcLog srcNotes news sp.st).notes =
      (replayChain (stopCredit res (replayCredit k srcLog srcNotes)) (tipOf root (mid.map (·.1) ++ sp.st.log.drop drop)) news).map (·.2) ++
        (mid.map (·.2) ++ sp.st.notes.drop drop) := by
    simp only [replayStepR]; rw [hbase, un]
  refine ⟨⟨?_, ?_, ?_, by intro e he; simp [replayStepR] at he, ?_⟩, ?_, ?_, h.rootHuman, h.rootSeen, h.rootNodup, ?_⟩
  · show (replayStepR res drop mid k srcLog srcNotes news sp.st).work.Nodup
    rw [hwork, htip]; exact htipnd
  · show ∀ y ∈ (replayStepR res drop mid k srcLog srcNotes news sp.st).work, y ∈ sp.seen
    rw [hwork, htip]; exact htipseen
  · show ∀ y ∈ (replayStepR res drop mid k srcLog srcNotes news sp.st).head, y ∈ sp.seen
    rw [htip]; exact htipseen
  · show PendingOK _
    left
    refine ⟨rfl, ?_⟩
    intro y hy
    have hy' : y ∈ (replayStepR res drop mid k srcLog srcNotes news sp.st).head := hy
    simp [target, hy']
  · show HistOK sp.g root (replayStepR res drop mid k srcLog srcNotes news sp.st).log (replayStepR res drop mid k srcLog srcNotes news sp.st).notes
    rw [hlog, hnotes]; exact hc1
  · show (replayStepR res drop mid k srcLog srcNotes news sp.st).head = tipOf root (replayStepR res drop mid k srcLog srcNotes news sp.st).log
    rw [htip, hlog, hc2]
  · intro cp hcp y hy
    rw [hlog] at hcp
    rcases List.mem_append.1 hcp with e | e
    · -- a new commit: its content is one of `news`
      have : ∀ (news : List (List Nat)) (base : List Nat), ∀ x ∈ (replayChain (stopCredit res (replayCredit k srcLog srcNotes)) base news).map (·.1),
          x.1 ∈ news := by
        intro news
        induction news with
        | nil => intro base x hx; simp [replayChain] at hx
        | cons c cs ih =>
          intro base x hx
          simp only [replayChain, List.map_append, List.mem_append, List.map_cons, List.map_nil,
            List.mem_singleton] at hx
          rcases hx with hx | hx
          · exact List.mem_cons_of_mem _ (ih c x hx)
          · subst hx; simp
      exact hok.newsSeen cp.1 (this news _ cp e) y hy
    · rcases List.mem_append.1 e with e | e
      · obtain ⟨m, hm, rfl⟩ := List.mem_map.1 e
        exact hok.midSeen m hm y hy
      · exact h.logSeen cp (List.mem_of_mem_drop e) y hy

end GitAi.Sys
