/-
  Lemmas/RewriteTyped.lean — the ghost bookkeeping may learn about new line ids (lines typed into
  the working tree while a rebase / cherry-pick is stopped at a conflict) without disturbing the
  invariant: `RInv` only looks at the ghost author of ids that were already seen.
-/
import GitAiModel.Lemmas.RewriteCredit
namespace GitAi.Sys

theorem target_congr {st : State} {g g' : Nat → Author} {seen seen' : List Nat} (y : Nat) (h : g' y = g y) :
    target ⟨st, g', seen'⟩ y = target ⟨st, g, seen⟩ y := by
  unfold target; simp only; rw [h]

theorem PendingOK.congr {st : State} {g g' : Nat → Author} {seen seen' : List Nat}
    (hws : ∀ y ∈ st.work, y ∈ seen)
    (hg : ∀ y ∈ seen, g' y = g y ∧ y ∈ seen') (h : PendingOK ⟨st, g, seen⟩) : PendingOK ⟨st, g', seen'⟩ := by
  rcases h with ⟨h1, h2⟩ | ⟨h1, h2, h3, h4, h5⟩
  · left
    refine ⟨h1, fun y hy => ?_⟩
    rw [target_congr y (hg y (hws y hy)).1]; exact h2 y hy
  · right
    refine ⟨h1, ?_, h3, fun y hy => (hg y (h4 y hy)).2, fun y hy hn => ?_⟩
    · show st.initial = claimsFrom 1 st.initSnap (target ⟨st, g', seen'⟩)
      have h2' : st.initial = claimsFrom 1 st.initSnap (target ⟨st, g, seen⟩) := h2
      rw [h2']
      apply claimsFrom_congr
      intro y hy
      exact (target_congr y (hg y (h4 y hy)).1).symm
    · rw [target_congr y (hg y (hws y hy)).1]; exact h5 y hy hn

theorem Inv2.congr {st : State} {g g' : Nat → Author} {seen seen' : List Nat}
    (hg : ∀ y ∈ seen, g' y = g y ∧ y ∈ seen') (h : Inv2 ⟨st, g, seen⟩) : Inv2 ⟨st, g', seen'⟩ := by
  obtain ⟨h1, h2, h3, h4, h5⟩ := h
  refine ⟨h1, fun y hy => (hg y (h2 y hy)).2, fun y hy => (hg y (h3 y hy)).2,
    fun e he y hy => (hg y (h4 e he y hy)).2, ?_⟩
  show match st.entries.getLast? with
    | some e => e.attr = e.snap.map (target ⟨st, g', seen'⟩) ∧ ∀ y ∈ st.work, y ∉ e.snap → target ⟨st, g', seen'⟩ y = none
    | none => PendingOK ⟨st, g', seen'⟩
  have h5' : match st.entries.getLast? with
    | some e => e.attr = e.snap.map (target ⟨st, g, seen⟩) ∧ ∀ y ∈ st.work, y ∉ e.snap → target ⟨st, g, seen⟩ y = none
    | none => PendingOK ⟨st, g, seen⟩ := h5
  cases hl : st.entries.getLast? with
  | none =>
    rw [hl] at h5'
    exact PendingOK.congr h2 hg h5'
  | some e =>
    rw [hl] at h5'
    have he : e ∈ st.entries := List.mem_of_getLast? hl
    refine ⟨?_, fun y hy hn => ?_⟩
    · rw [h5'.1]
      apply List.map_congr_left
      intro y hy
      exact (target_congr y (hg y (h4 e he y hy)).1).symm
    · rw [target_congr y (hg y (h2 y hy)).1]; exact h5'.2 y hy hn

/-- the invariant only depends on the ghost author of ids already seen -/
theorem RInv.congr {root : List Nat} {st : State} {g g' : Nat → Author} {seen seen' : List Nat}
    (hg : ∀ y ∈ seen, g' y = g y ∧ y ∈ seen') (h : RInv root ⟨st, g, seen⟩) : RInv root ⟨st, g', seen'⟩ := by
  obtain ⟨h1, h2, h3, h4, h5, h6, h7⟩ := h
  refine ⟨h1.congr hg, ?_, h3, fun y hy => ?_, fun y hy => (hg y (h5 y hy)).2, h6,
    fun cp hcp y hy => (hg y (h7 cp hcp y hy)).2⟩
  · exact HistOK.congr h2 (fun cp hcp y hy => (hg y (h7 cp hcp y hy)).1)
  · show g' y = none
    rw [(hg y (h5 y hy)).1]; exact h4 y hy

/-- a line id that was never seen is in no table of the replay lookup -/
theorem replayCredit_unseen {root : List Nat} {sp : Spec} (h : RInv root sp) (k y : Nat) (hy : y ∉ sp.seen) :
    replayCredit k sp.st.log sp.st.notes y = none := by
  have habs : ∀ cp ∈ sp.st.log, y ∉ cp.1 := fun cp hcp hin => hy (h.logSeen cp hcp y hin)
  unfold replayCredit
  have hh : headCredit sp.st.log sp.st.notes y = none := by
    unfold headCredit
    split
    · rename_i c p rest hl
      have : y ∉ c := habs (c, p) (by rw [hl]; simp)
      simp [this]
    · rfl
  rw [hh]
  simp only
  apply notesCredit_absent
  intro cp hcp
  exact habs cp (List.mem_of_mem_take hcp)

end GitAi.Sys
