/-
  Lemmas/RewriteWF.lean — every note the history-level model ever writes is well-formed against
  its commit (property C05 at history level): strictly increasing line numbers, inside the
  commit's content, only lines the commit adds. Holds for every operation sequence, valid or not.
-/
import GitAiModel.Lemmas.RewriteOps2
namespace GitAi.Sys

/-- a note is well-formed against its commit (content `c`, parent content `p`) -/
def NoteWF (c p : List Nat) (n : Note) : Prop :=
  (n.map (·.1)).Pairwise (· < ·) ∧
  ∀ e ∈ n, (∃ y, (e.1, y) ∈ enum1 c ∧ y ∉ p) ∧ 1 ≤ e.1 ∧ e.1 ≤ c.length

def AllNotesWF : List (List Nat × List Nat) → List Note → Prop
  | [], [] => True
  | (c, p) :: log, n :: notes => NoteWF c p n ∧ AllNotesWF log notes
  | _, _ => False

theorem mem_enumFrom_lt {α} (k : Nat) (l : List α) (i : Nat) (y : α) (h : (i, y) ∈ enumFrom k l) :
    i < k + l.length := by
  induction l generalizing k with
  | nil => simp [enumFrom] at h
  | cons x xs ih =>
    simp only [enumFrom, List.mem_cons, Prod.mk.injEq] at h
    rcases h with ⟨rfl, _⟩ | h
    · simp
    · have := ih (k + 1) h
      simp only [List.length_cons]; omega

theorem claimsFrom_cons (k : Nat) (x : Nat) (xs : List Nat) (F : Nat → Author) :
    claimsFrom k (x :: xs) F =
      (match F x with
       | some s => [(k, s)]
       | none => []) ++ claimsFrom (k + 1) xs F := by
  unfold claimsFrom
  simp only [enumFrom, List.filterMap_cons]
  cases F x <;> simp

theorem claimsFrom_sorted (k : Nat) (l : List Nat) (F : Nat → Author) :
    ((claimsFrom k l F).map (·.1)).Pairwise (· < ·) := by
  induction l generalizing k with
  | nil => simp [claimsFrom, enumFrom]
  | cons x xs ih =>
    rw [claimsFrom_cons]
    have hge := claimsFrom_index_ge (k + 1) xs F
    cases F x with
    | none => simpa using ih (k + 1)
    | some s =>
      simp only [List.singleton_append, List.map_cons, List.pairwise_cons]
      refine ⟨?_, ih (k + 1)⟩
      intro a ha
      obtain ⟨p, hp, rfl⟩ := List.mem_map.1 ha
      have := hge p hp
      omega

theorem claimsFrom_mem (k : Nat) (l : List Nat) (F : Nat → Author) (e : Nat × Nat) (h : e ∈ claimsFrom k l F) :
    ∃ y, (e.1, y) ∈ enumFrom k l ∧ F y = some e.2 := by
  simp only [claimsFrom, List.mem_filterMap] at h
  obtain ⟨⟨i, y⟩, hm, hf⟩ := h
  cases hF : F y with
  | none => simp [hF] at hf
  | some s =>
    simp [hF] at hf
    subst hf
    exact ⟨y, hm, hF⟩

theorem splitNote_wf (p c : List Nat) (A : Nat → Author) : NoteWF c p (splitNote p c A) := by
  rw [splitNote_eq_claims]
  refine ⟨claimsFrom_sorted 1 c _, ?_⟩
  intro e he
  obtain ⟨y, hm, hF⟩ := claimsFrom_mem 1 c _ e he
  have hp : y ∉ p := by
    intro hin
    simp [hin] at hF
  have h1 := (mem_enumFrom' 1 c e.1 y hm).2
  have h2 := mem_enumFrom_lt 1 c e.1 y hm
  exact ⟨⟨y, hm, hp⟩, h1, by omega⟩

theorem AllNotesWF.append {l1 : List (List Nat × List Nat)} {n1 : List Note} {l2 n2} :
    AllNotesWF l1 n1 → AllNotesWF l2 n2 → AllNotesWF (l1 ++ l2) (n1 ++ n2) := by
  induction l1 generalizing n1 with
  | nil =>
    cases n1 with
    | nil => intro _ h; simpa using h
    | cons a as => intro h; exact h.elim
  | cons cp l1 ih =>
    obtain ⟨c, p⟩ := cp
    cases n1 with
    | nil => intro h; exact h.elim
    | cons a as =>
      intro h h2
      exact ⟨h.1, ih h.2 h2⟩

theorem undoN_allwf : ∀ (k : Nat) (st : State), AllNotesWF st.log st.notes →
    AllNotesWF (undoN k st).log (undoN k st).notes
  | 0, _, h => h
  | k + 1, st, h => by
    unfold undoN
    split
    · rename_i c p log n notes hl hn
      rw [hl, hn] at h
      exact undoN_allwf k _ h.2
    · exact h

theorem replayChain_allwf (orig : Nat → Author) : ∀ (news : List (List Nat)) (base : List Nat),
    AllNotesWF ((replayChain orig base news).map (·.1)) ((replayChain orig base news).map (·.2))
  | [], _ => by simp [replayChain, AllNotesWF]
  | c :: cs, base => by
    simp only [replayChain, List.map_append, List.map_cons, List.map_nil]
    exact (replayChain_allwf orig cs c).append ⟨splitNote_wf base c orig, trivial⟩

/-- upstream commits brought in by a replay carry well-formed notes themselves -/
def MidOK : ROp → Prop
  | .replay _ mid _ _ => AllNotesWF (mid.map (·.1)) (mid.map (·.2))
  | .replayR _ _ mid _ _ => AllNotesWF (mid.map (·.1)) (mid.map (·.2))
  | .switchCarry l n _ => AllNotesWF l n
  | .switchMerge l n _ _ => AllNotesWF l n
  | _ => True

theorem rstep_allwf (r : RState) (op : ROp) (h : AllNotesWF r.st.log r.st.notes) (hm : MidOK op) :
    AllNotesWF (rstep r op).st.log (rstep r op).st.notes := by
  cases op with
  | base o =>
    by_cases hc : o = .commit
    · subst hc
      show AllNotesWF (commitStep r.st).log (commitStep r.st).notes
      rw [commitStep_eq]
      obtain ⟨_, _, _, _, hn⟩ := checkpoint_fields r.st none
      simp only [hn, checkpoint_log]
      exact ⟨splitNote_wf _ _ _, h⟩
    · obtain ⟨hl, hn, _⟩ := step_nocommit_fields r.st o hc
      show AllNotesWF (step r.st o).log (step r.st o).notes
      rw [hl, hn]; exact h
  | amend =>
    show AllNotesWF (amendStep r.st).log (amendStep r.st).notes
    obtain ⟨_, _, _, _, hn⟩ := checkpoint_fields r.st none
    have hl := checkpoint_log r.st none
    have h' : AllNotesWF (checkpoint r.st none).log (checkpoint r.st none).notes := by rw [hl, hn]; exact h
    unfold amendStep amendCore
    split
    · rename_i c p log n notes hl' hn'
      rw [hl', hn'] at h'
      exact ⟨splitNote_wf _ _ _, h'.2⟩
    · exact h'
  | reset k soft => exact undoN_allwf k r.st h
  | stashPush =>
    show AllNotesWF (checkpoint r.st none).log (checkpoint r.st none).notes
    obtain ⟨_, _, _, _, hn⟩ := checkpoint_fields r.st none
    rw [checkpoint_log, hn]; exact h
  | stashPop ys =>
    simp only [rstep, stashPop]
    split <;> exact h
  | replay drop mid src news =>
    have h0 := undoN_allwf drop r.st h
    cases src with
    | none =>
      exact (replayChain_allwf _ news _).append (AllNotesWF.append hm h0)
    | some ln =>
      obtain ⟨l, n⟩ := ln
      exact (replayChain_allwf _ news _).append (AllNotesWF.append hm h0)
  | squash l n ys => exact h
  | switchCarry l n hd =>
    show AllNotesWF (switchCarry l n hd r.st).log (switchCarry l n hd r.st).notes
    unfold switchCarry
    split <;> exact hm
  | switchMerge l n hd ys => exact hm
  | aborted => exact h
  | typed who ids => exact h
  | replayR res drop mid src news =>
    have h0 := undoN_allwf drop r.st h
    cases src with
    | none =>
      exact (replayChain_allwf _ news _).append (AllNotesWF.append hm h0)
    | some ln =>
      obtain ⟨l, n⟩ := ln
      exact (replayChain_allwf _ news _).append (AllNotesWF.append hm h0)

/-- **every note is well-formed against its commit, after every operation.** -/
theorem notes_wf_history (r : RState) (ops : List ROp) (h : AllNotesWF r.st.log r.st.notes)
    (hm : ∀ op ∈ ops, MidOK op) : AllNotesWF (rrun r ops).st.log (rrun r ops).st.notes := by
  induction ops generalizing r with
  | nil => exact h
  | cons op ops ih =>
    exact ih (rstep r op) (rstep_allwf r op h (hm op (by simp))) (fun o ho => hm o (List.mem_cons_of_mem _ ho))

end GitAi.Sys
