/-
  Lemmas/Routing.lean — helper lemmas for Props/C20.lean (model: Model/Routing.lean).
-/
import GitAiModel.Model.Routing
import GitAiModel.Lemmas.Text
namespace GitAi.Routing
open GitAi

/-! ## lists / prefixes -/

theorem stripPrefix_eq_some {α} [DecidableEq α] (p l r : List α) :
    stripPrefix p l = some r ↔ l = p ++ r := by
  induction p generalizing l with
  | nil => simp [stripPrefix, eq_comm]
  | cons a as ih =>
    cases l with
    | nil => simp [stripPrefix]
    | cons b bs =>
      simp only [stripPrefix]
      split
      · rename_i h; subst h; simp [ih]
      · rename_i h
        constructor
        · intro hh; cases hh
        · intro hh
          simp only [List.cons_append, List.cons.injEq] at hh
          exact absurd hh.1.symm h

theorem prefix_dropLast_of_ne {α} (p l : List α) (h : p <+: l) (hne : p ≠ l) : p <+: l.dropLast := by
  obtain ⟨t, rfl⟩ := h
  have ht : t ≠ [] := by
    intro ht; subst ht; simp at hne
  rw [List.dropLast_append_of_ne_nil ht]
  exact List.prefix_append _ _

theorem prefix_antisymm {α} (a b : List α) (h1 : a <+: b) (h2 : b <+: a) : a = b := by
  exact List.IsPrefix.eq_of_length_le h1 h2.length_le

theorem prefix_of_prefix_both {α} (a b d : List α) (ha : a <+: d) (hb : b <+: d)
    (hl : a.length ≤ b.length) : a <+: b :=
  List.prefix_of_prefix_length_le ha hb hl

/-! ## asRaw / normalise -/

theorem asRaw_append (a b : Dir) : asRaw (a ++ b) = asRaw a ++ asRaw b := by
  simp [asRaw]

theorem asRaw_dropLast (d : Dir) : (asRaw d).dropLast = asRaw d.dropLast := by
  simp [asRaw, List.map_dropLast]

theorem asRaw_length (d : Dir) : (asRaw d).length = d.length := by simp [asRaw]

theorem asRaw_injective : ∀ (a b : Dir), asRaw a = asRaw b → a = b := by
  intro a
  induction a with
  | nil => intro b h; cases b <;> simp_all [asRaw]
  | cons x xs ih =>
    intro b h
    cases b with
    | nil => simp [asRaw] at h
    | cons y ys =>
      simp only [asRaw, List.map_cons, List.cons.injEq, Comp.name.injEq] at h
      rw [h.1, ih ys (by simpa [asRaw] using h.2)]

theorem asRaw_eq_nil (d : Dir) : asRaw d = [] ↔ d = [] := by
  cases d <;> simp [asRaw]

theorem asRaw_isPrefixOf (a b : Dir) : (asRaw a).isPrefixOf (asRaw b) = a.isPrefixOf b := by
  induction a generalizing b with
  | nil => simp [asRaw]
  | cons x xs ih =>
    cases b with
    | nil => simp [asRaw]
    | cons y ys =>
      have := ih ys
      simp only [asRaw, List.map_cons, List.isPrefixOf_cons_cons] at this ⊢
      rw [this]
      by_cases hxy : x = y
      · subst hxy; simp
      · have h1 : (Comp.name x == Comp.name y) = false := by
          simp [hxy]
        have h2 : (x == y) = false := by simp [hxy]
        simp [h1, h2]

theorem normaliseFrom_append (acc : Dir) (p q : RawPath) :
    normaliseFrom acc (p ++ q) = normaliseFrom (normaliseFrom acc p) q := by
  simp [normaliseFrom, List.foldl_append]

theorem normaliseFrom_asRaw (acc d : Dir) : normaliseFrom acc (asRaw d) = acc ++ d := by
  induction d generalizing acc with
  | nil => simp [normaliseFrom, asRaw]
  | cons x xs ih =>
    have := ih (acc ++ [x])
    simp only [normaliseFrom, asRaw, List.map_cons, List.foldl_cons, normStep] at this ⊢
    rw [this]; simp

theorem normalise_asRaw (d : Dir) : normalise (asRaw d) = d := by
  simp [normalise, normaliseFrom_asRaw]

theorem normalise_asRaw_append (d : Dir) (p : RawPath) :
    normalise (asRaw d ++ p) = normaliseFrom d p := by
  simp [normalise, normaliseFrom_append, normaliseFrom_asRaw]

/-! ## resolve -/

theorem resolveFrom_eq_normalise (fs : FS) (p : RawPath) :
    ∀ (cur : Dir) (b : Bool) (d : Dir), resolveFrom fs cur b p = some d → d = normaliseFrom cur p := by
  induction p with
  | nil => intro cur b d h; simp [resolveFrom] at h; simp [normaliseFrom, h]
  | cons c rest ih =>
    intro cur b d h
    unfold resolveFrom at h
    split at h
    · cases h
    · cases c with
      | cur => simpa [normaliseFrom, normStep] using ih _ _ _ h
      | up => simpa [normaliseFrom, normStep] using ih _ _ _ h
      | name s =>
        simp only at h
        split at h
        · simpa [normaliseFrom, normStep] using ih _ _ _ h
        · simpa [normaliseFrom, normStep] using ih _ _ _ h
        · cases h

theorem resolve_eq_normalise (fs : FS) (p : RawPath) (d : Dir) (h : resolve fs p = some d) :
    d = normalise p := resolveFrom_eq_normalise fs p [] false d h

/-- directories reachable by names only: every non-empty prefix must be a directory -/
theorem resolveFrom_asRaw (fs : FS) (q : Dir) :
    ∀ (cur : Dir), (∀ q', q' <+: q → q' ≠ [] → fs.node (cur ++ q') = .dir) →
      resolveFrom fs cur false (asRaw q) = some (cur ++ q) := by
  induction q with
  | nil => intro cur _; simp [asRaw, resolveFrom]
  | cons s rest ih =>
    intro cur h
    have h1 : fs.node (cur ++ [s]) = .dir := h [s] (by simp) (by simp)
    have := ih (cur ++ [s]) (by
      intro q' hq' hne
      have := h (s :: q') (by simpa using hq') (by simp)
      simpa using this)
    simp only [asRaw, List.map_cons] at this ⊢
    unfold resolveFrom
    simp only [Bool.false_eq_true, ↓reduceIte, h1]
    simpa using this

def dirOK (fs : FS) (d : Dir) : Prop := d = [] ∨ d ∈ fs.dirs

theorem wf_dropLast (fs : FS) (hwf : fs.WF = true) (d : Dir) (h : dirOK fs d) : dirOK fs d.dropLast := by
  rcases h with rfl | h
  · left; rfl
  · simp only [FS.WF, Bool.and_eq_true, List.all_eq_true, Bool.or_eq_true, decide_eq_true_eq,
      List.contains_iff_mem] at hwf
    rcases hwf.1 d h with h' | h'
    · left; exact h'
    · right; exact h'

theorem wf_prefix (fs : FS) (hwf : fs.WF = true) :
    ∀ (n : Nat) (d : Dir), d.length = n → dirOK fs d → ∀ q, q <+: d → dirOK fs q := by
  intro n
  induction n with
  | zero =>
    intro d hl _ q hq
    have : d = [] := List.length_eq_zero_iff.1 hl
    subst this
    left; exact List.prefix_nil.1 hq
  | succ n ih =>
    intro d hl hd q hq
    by_cases hqd : q = d
    · subst hqd; exact hd
    · have := prefix_dropLast_of_ne q d hq hqd
      exact ih d.dropLast (by simp [hl]) (wf_dropLast fs hwf d hd) q this

theorem node_of_dirOK (fs : FS) (d : Dir) (h : dirOK fs d) : fs.node d = .dir := by
  unfold FS.node
  rcases h with h | h <;> simp [h]

theorem resolve_asRaw_of_dirOK (fs : FS) (hwf : fs.WF = true) (d : Dir) (h : dirOK fs d) :
    resolve fs (asRaw d) = some d := by
  have := resolveFrom_asRaw fs d [] (by
    intro q' hq' _
    simpa using node_of_dirOK fs q' (wf_prefix fs hwf d.length d rfl h q' hq'))
  simpa [resolve] using this

/-! ## path_is_in_workdir and the pathspec filter -/

theorem pathInWorkdir_sound (fs : FS) (root : Dir) (full : RawPath)
    (h : pathInWorkdir fs root full = true) : root <+: normalise full := by
  unfold pathInWorkdir at h
  split at h
  · rename_i c hc
    rw [← resolve_eq_normalise fs full c hc]
    exact List.isPrefixOf_iff_prefix.1 h
  · exact List.isPrefixOf_iff_prefix.1 h

theorem filterPath_sound (fs : FS) (root : Dir) (p : PathArg) (rel : RawPath)
    (h : filterPath fs root p = some rel) :
    root <+: normalise (absOf (asRaw root) p) ∧
    normalise (asRaw root ++ rel) = normalise (absOf (asRaw root) p) := by
  unfold filterPath at h
  simp only at h
  split at h
  · rename_i hin
    refine ⟨pathInWorkdir_sound fs root _ hin, ?_⟩
    split at h
    · rename_i habs
      split at h
      · rename_i r hr
        cases h
        simp [absOf, habs, (stripPrefix_eq_some _ _ _).1 hr]
      · split at h
        · rename_i c hc
          cases hs : stripPrefix root c with
          | none => simp [hs] at h
          | some r' =>
            simp only [hs, Option.map_some, Option.some.injEq] at h
            subst h
            have hcr := (stripPrefix_eq_some _ _ _).1 hs
            rw [← asRaw_append, normalise_asRaw, ← hcr]
            exact resolve_eq_normalise fs _ c hc
        · cases h
    · rename_i habs
      cases h
      simp [absOf, habs]
  · cases h

theorem scopeOf_specs (fs : FS) (root : Dir) (ps : List PathArg) (rel : RawPath)
    (h : rel ∈ (scopeOf fs root (some ps)).specs) : ∃ p ∈ ps, filterPath fs root p = some rel := by
  unfold scopeOf at h
  simp only at h
  split at h
  · split at h <;> simp [Scope.specs] at h
  · rename_i f hf
    simp only [Scope.specs] at h
    have := List.mem_filterMap.1 h
    exact this

theorem scopeOf_ne_all (fs : FS) (root : Dir) (ps : List PathArg) (hne : ps ≠ []) :
    scopeOf fs root (some ps) ≠ .all := by
  unfold scopeOf
  simp only
  split
  · have : ps.isEmpty = false := by cases ps <;> simp_all
    simp [this]
  · simp

/-! ## grouping -/

theorem mem_insertGroup (r : Dir) (f : RawPath) (acc : List (Dir × List RawPath))
    (g : Dir × List RawPath) (x : RawPath) (hg : g ∈ insertGroup r f acc) (hx : x ∈ g.2) :
    (g.1 = r ∧ x = f) ∨ ∃ g' ∈ acc, g'.1 = g.1 ∧ x ∈ g'.2 := by
  induction acc with
  | nil =>
    simp only [insertGroup, List.mem_singleton] at hg
    subst hg; simp at hx; left; exact ⟨rfl, hx⟩
  | cons a rest ih =>
    obtain ⟨r', fs'⟩ := a
    unfold insertGroup at hg
    split at hg
    · rename_i heq
      rcases List.mem_cons.1 hg with h | h
      · subst h
        simp only [List.mem_append, List.mem_singleton] at hx
        rcases hx with hx | hx
        · right; exact ⟨(r', fs'), by simp, rfl, hx⟩
        · left; exact ⟨heq, hx⟩
      · right; exact ⟨g, by simp [h], rfl, hx⟩
    · rcases List.mem_cons.1 hg with h | h
      · subst h; right; exact ⟨(r', fs'), by simp, rfl, hx⟩
      · rcases ih h with h' | ⟨g', hg', h1, h2⟩
        · left; exact h'
        · right; exact ⟨g', by simp [hg'], h1, h2⟩

theorem insertGroup_nonempty (r : Dir) (f : RawPath) (acc : List (Dir × List RawPath))
    (hacc : ∀ g ∈ acc, g.2 ≠ []) : ∀ g ∈ insertGroup r f acc, g.2 ≠ [] := by
  induction acc with
  | nil => intro g hg; simp [insertGroup] at hg; subst hg; simp
  | cons a rest ih =>
    obtain ⟨r', fs'⟩ := a
    intro g hg
    unfold insertGroup at hg
    split at hg
    · rcases List.mem_cons.1 hg with h | h
      · subst h; simp
      · exact hacc g (by simp [h])
    · rcases List.mem_cons.1 hg with h | h
      · subst h; exact hacc _ (by simp)
      · exact ih (fun g hg => hacc g (by simp [hg])) g h

theorem groupsOf_aux (l : List (RawPath × Option Dir)) :
    ∀ (acc : List (Dir × List RawPath)) (g : Dir × List RawPath) (x : RawPath),
      g ∈ l.foldl (fun acc fr => match fr.2 with | some r => insertGroup r fr.1 acc | none => acc) acc →
      x ∈ g.2 → (x, some g.1) ∈ l ∨ ∃ g' ∈ acc, g'.1 = g.1 ∧ x ∈ g'.2 := by
  induction l with
  | nil => intro acc g x hg hx; right; exact ⟨g, by simpa using hg, rfl, hx⟩
  | cons a rest ih =>
    intro acc g x hg hx
    obtain ⟨f, r⟩ := a
    simp only [List.foldl_cons] at hg
    cases r with
    | none =>
      rcases ih acc g x hg hx with h | h
      · left; simp [h]
      · right; exact h
    | some r =>
      rcases ih _ g x hg hx with h | ⟨g', hg', h1, h2⟩
      · left; simp [h]
      · rcases mem_insertGroup r f acc g' x hg' h2 with ⟨h3, h4⟩ | h
        · left; subst h4; rw [← h1, h3]; simp
        · right
          obtain ⟨g'', hg'', h5, h6⟩ := h
          exact ⟨g'', hg'', h5.trans h1, h6⟩

/-- every file of a group was assigned to that group's root by `find_repository_for_file` -/
theorem mem_groupsOf (l : List (RawPath × Option Dir)) (g : Dir × List RawPath) (x : RawPath)
    (hg : g ∈ groupsOf l) (hx : x ∈ g.2) : (x, some g.1) ∈ l := by
  rcases groupsOf_aux l [] g x hg hx with h | ⟨g', hg', _, _⟩
  · exact h
  · simp at hg'

theorem groupsOf_nonempty_aux (l : List (RawPath × Option Dir)) :
    ∀ (acc : List (Dir × List RawPath)), (∀ g ∈ acc, g.2 ≠ []) →
      ∀ g ∈ l.foldl (fun acc fr => match fr.2 with | some r => insertGroup r fr.1 acc | none => acc) acc,
        g.2 ≠ [] := by
  induction l with
  | nil => intro acc h g hg; exact h g (by simpa using hg)
  | cons a rest ih =>
    intro acc h g hg
    obtain ⟨f, r⟩ := a
    simp only [List.foldl_cons] at hg
    cases r with
    | none => exact ih acc h g hg
    | some r => exact ih _ (insertGroup_nonempty r f acc h) g hg

theorem groupsOf_nonempty (l : List (RawPath × Option Dir)) : ∀ g ∈ groupsOf l, g.2 ≠ [] :=
  groupsOf_nonempty_aux l [] (by simp)

theorem mem_groupFiles (fs : FS) (files : List RawPath) (b : Option RawPath) (x : RawPath) (r : Option Dir)
    (h : (x, r) ∈ groupFiles fs files b) : x ∈ files ∧ r = findRepoForFile fs x b := by
  simp only [groupFiles, List.mem_map, Prod.mk.injEq] at h
  obtain ⟨f, hf, h1, h2⟩ := h
  subst h1; exact ⟨hf, h2.symm⟩

/-! ## the upward walk of `find_repository_for_file` on a canonical start directory -/

/-- `r` is the innermost work-tree root containing `d` component-wise, and lies inside the
    boundary (when there is one) -/
def Innermost (fs : FS) (b : Option Dir) (d r : Dir) : Prop :=
  fs.rootKind r = some .normal ∧ r <+: d ∧ (∀ bd, b = some bd → bd <+: r) ∧
  ∀ r', fs.rootKind r' = some .normal → r' <+: d → r' <+: r

theorem gitAt_asRaw (fs : FS) (hwf : fs.WF = true) (d : Dir) (hd : dirOK fs d) :
    gitAt fs (asRaw d) = visibleKind (fs.rootKind d) := by
  simp [gitAt, resolve_asRaw_of_dirOK fs hwf d hd]

theorem visibleKind_normal (k : Option RootKind) : visibleKind k = some .normal ↔ k = some .normal := by
  cases k with
  | none => simp [visibleKind]
  | some k => cases k <;> simp [visibleKind]

theorem outsideBoundary_asRaw (b : Option Dir) (d : Dir) :
    outsideBoundary (b.map asRaw) (asRaw d) = true ↔ ∃ bd, b = some bd ∧ ¬ bd <+: d := by
  cases b with
  | none => simp [outsideBoundary]
  | some bd =>
    simp only [outsideBoundary, Option.map_some, asRaw_isPrefixOf, Bool.not_eq_eq_eq_not, Bool.not_true,
      Option.some.injEq, exists_eq_left']
    rw [← List.isPrefixOf_iff_prefix]
    cases List.isPrefixOf bd d <;> simp

theorem walk_canon (fs : FS) (hwf : fs.WF = true) (b : Option Dir) :
    ∀ (n : Nat) (d : Dir), d.length + 1 = n → dirOK fs d →
      ∀ r, walk fs (b.map asRaw) n (asRaw d) = some r ↔ Innermost fs b d r := by
  intro n
  induction n with
  | zero => intro d h; omega
  | succ n ih =>
    intro d hl hd r
    unfold walk
    by_cases hout : outsideBoundary (b.map asRaw) (asRaw d) = true
    · -- outside the boundary: the loop breaks
      simp only [hout, ↓reduceIte]
      obtain ⟨bd, hbd, hnp⟩ := (outsideBoundary_asRaw b d).1 hout
      constructor
      · intro h; cases h
      · intro ⟨_, hrd, hb, _⟩
        exact absurd ((hb bd hbd).trans hrd) hnp
    · simp only [hout, Bool.false_eq_true, ↓reduceIte]
      have hinB : ∀ bd, b = some bd → bd <+: d := by
        intro bd hbd
        by_cases hp : bd <+: d
        · exact hp
        · exact absurd ((outsideBoundary_asRaw b d).2 ⟨bd, hbd, hp⟩) hout
      rw [gitAt_asRaw fs hwf d hd]
      by_cases hroot : fs.rootKind d = some .normal
      · -- `.git` found here
        simp only [(visibleKind_normal _).2 hroot, ↓reduceIte, normalise_asRaw, Option.some.injEq]
        constructor
        · intro h; subst h
          exact ⟨hroot, List.prefix_refl _, hinB, fun r' _ h => h⟩
        · intro ⟨_, hrd, _, hmax⟩
          exact prefix_antisymm _ _ (hmax d hroot (List.prefix_refl _)) hrd
      · have hvk : ¬ visibleKind (fs.rootKind d) = some .normal := fun h => hroot ((visibleKind_normal _).1 h)
        simp only [hvk, ↓reduceIte]
        have hshrink : ∀ r', fs.rootKind r' = some .normal → r' <+: d → r' <+: d.dropLast := by
          intro r' hr' hp
          apply prefix_dropLast_of_ne _ _ hp
          intro he; subst he; exact hroot hr'
        have hiff : Innermost fs b d r ↔ Innermost fs b d.dropLast r := by
          constructor
          · intro ⟨h1, h2, h3, h4⟩
            exact ⟨h1, hshrink r h1 h2, h3, fun r' hr' hp => h4 r' hr' (hp.trans (List.dropLast_prefix _))⟩
          · intro ⟨h1, h2, h3, h4⟩
            exact ⟨h1, h2.trans (List.dropLast_prefix _), h3, fun r' hr' hp => h4 r' hr' (hshrink r' hr' hp)⟩
        by_cases hnil : d = []
        · subst hnil
          simp only [asRaw, List.map_nil, ↓reduceIte]
          constructor
          · intro h; cases h
          · intro ⟨h1, h2, _, _⟩
            have : r = [] := List.prefix_nil.1 h2
            subst this; exact absurd h1 hroot
        · have : asRaw d ≠ [] := by rw [Ne, asRaw_eq_nil]; exact hnil
          simp only [this, ↓reduceIte, asRaw_dropLast]
          rw [hiff]
          apply ih d.dropLast _ (wf_dropLast fs hwf d hd)
          have : d.length ≠ 0 := by
            intro h0; exact hnil (List.length_eq_zero_iff.1 h0)
          simp only [List.length_dropLast]; omega

/-- whatever `walk` returns (canonical start or not) is the normalised form of a directory
    at which a work-tree `.git` physically exists -/
theorem walk_some_is_root (fs : FS) (b : Option RawPath) :
    ∀ (n : Nat) (dir : RawPath) (r : Dir), walk fs b n dir = some r → fs.rootKind r = some .normal := by
  intro n
  induction n with
  | zero => intro dir r h; simp [walk] at h
  | succ n ih =>
    intro dir r h
    unfold walk at h
    split at h
    · cases h
    · split at h
      · rename_i hg
        cases h
        unfold gitAt at hg
        split at hg
        · rename_i d hd
          rw [← resolve_eq_normalise fs dir d hd]
          exact (visibleKind_normal _).1 hg
        · cases hg
      · split at h
        · cases h
        · exact ih _ _ h

end GitAi.Routing
