/-
  Lemmas/RoutingJson.lean — serde_json's compact writer never emits a raw control character;
  JSONL framing of the working log (helper lemmas for Props/C20.lean).
-/
import GitAiModel.Model.Routing
import GitAiModel.Lemmas.Text
import GitAiModel.Lemmas.Digits
namespace GitAi.Routing
open GitAi

/-- no character below U+0020 (in particular no `\n`, no `\r`) -/
def noCtl (s : Str) : Bool := s.all (fun c => decide (32 ≤ c.toNat))

theorem noCtl_append (a b : Str) : noCtl (a ++ b) = (noCtl a && noCtl b) := by
  simp [noCtl, List.all_append]

theorem noCtl_cons (c : Char) (s : Str) : noCtl (c :: s) = (decide (32 ≤ c.toNat) && noCtl s) := by
  simp [noCtl]

theorem noCtl_not_mem (s : Str) (h : noCtl s = true) (c : Char) (hc : c.toNat < 32) : c ∉ s := by
  intro hm
  simp only [noCtl, List.all_eq_true, decide_eq_true_eq] at h
  have := h c hm
  omega

theorem hexDigit_ok (n : Nat) : 32 ≤ (hexDigit n).toNat := by
  have hall : hexChars.all (fun c => decide (32 ≤ c.toNat)) = true := by decide
  simp only [List.all_eq_true, decide_eq_true_eq] at hall
  unfold hexDigit
  rw [List.getD_eq_getElem?_getD]
  cases h : hexChars[n]? with
  | none => simp
  | some c => simpa using hall c (List.mem_of_getElem? h)

theorem escapeChar_noCtl (c : Char) : noCtl (escapeChar c) = true := by
  unfold escapeChar
  repeat' split
  all_goals first
    | decide
    | (simp only [noCtl, List.all_cons, List.all_nil, Bool.and_true, Bool.and_eq_true, decide_eq_true_eq]
       first
        | omega
        | (refine ⟨by decide, by decide, by decide, by decide, hexDigit_ok _, hexDigit_ok _⟩))

theorem flatMap_escape_noCtl (s : Str) : noCtl (s.flatMap escapeChar) = true := by
  induction s with
  | nil => rfl
  | cons c cs ih => simp [List.flatMap_cons, noCtl_append, escapeChar_noCtl, ih]

theorem renderStr_noCtl (s : Str) : noCtl (renderStr s) = true := by
  simp [renderStr, noCtl_cons, noCtl_append, flatMap_escape_noCtl]
  decide

theorem natToStr_noCtl (n : Nat) : noCtl (natToStr n) = true := by
  have := natToStr_all_isDigit n
  simp only [List.all_eq_true] at this
  simp only [noCtl, List.all_eq_true, decide_eq_true_eq]
  intro c hc
  have hd := this c hc
  simp only [isDigit, Bool.and_eq_true, decide_eq_true_eq] at hd
  have : '0' ≤ c := hd.1
  have h48 : (48 : Nat) ≤ c.toNat := by
    have : '0'.toNat ≤ c.toNat := this
    simpa using this
  omega

theorem renderInt_noCtl (n : Int) : noCtl (renderInt n) = true := by
  cases n with
  | ofNat k => simpa [renderInt] using natToStr_noCtl k
  | negSucc k => simp [renderInt, noCtl_cons, natToStr_noCtl]

mutual
theorem render_noCtl : ∀ v : JVal, noCtl (render v) = true
  | .null => by decide
  | .bool true => by decide
  | .bool false => by decide
  | .num n => by simpa [render] using renderInt_noCtl n
  | .str s => by simpa [render] using renderStr_noCtl s
  | .arr xs => by
      have := renderElems_noCtl xs
      simp [render, noCtl_cons, noCtl_append, this]; decide
  | .obj kvs => by
      have := renderFields_noCtl kvs
      simp [render, noCtl_cons, noCtl_append, this]; decide
theorem renderElems_noCtl : ∀ xs : List JVal, noCtl (renderElems xs) = true
  | [] => by decide
  | [x] => by simpa [renderElems] using render_noCtl x
  | x :: y :: rest => by
      have h1 := render_noCtl x
      have h2 := renderElems_noCtl (y :: rest)
      simp [renderElems, noCtl_cons, noCtl_append, h1, h2]
theorem renderFields_noCtl : ∀ kvs : List (Str × JVal), noCtl (renderFields kvs) = true
  | [] => by decide
  | [(k, v)] => by
      have h1 := render_noCtl v
      simp [renderFields, noCtl_cons, noCtl_append, renderStr_noCtl, h1]
  | (k, v) :: kv :: rest => by
      have h1 := render_noCtl v
      have h2 := renderFields_noCtl (kv :: rest)
      simp [renderFields, noCtl_cons, noCtl_append, renderStr_noCtl, h1, h2]
end

theorem render_ne_nil (v : JVal) : render v ≠ [] := by
  cases v with
  | null => simp [render]
  | bool b => cases b <;> simp [render]
  | num n =>
    cases n with
    | ofNat k => simpa [render, renderInt] using natToStr_ne_nil k
    | negSucc k => simp [render, renderInt]
  | str s => simp [render, renderStr]
  | arr xs => simp [render]
  | obj kvs => simp [render]

/-! ## framing -/

theorem rustLinesAux_snoc_nil (ls : List Str) (hcr : ∀ l ∈ ls, '\r' ∉ l) :
    rustLinesAux (ls ++ [[]]) = ls := by
  induction ls with
  | nil => simp [rustLinesAux]
  | cons l rest ih =>
    have hrest := ih (fun l hl => hcr l (by simp [hl]))
    have hl : stripCr l = l := by
      apply stripCr_eq_self
      intro h
      exact hcr l (by simp) (getLast?_mem _ _ h)
    cases rest with
    | nil => simp [rustLinesAux, hl]
    | cons r rs =>
      simp only [List.cons_append] at hrest ⊢
      rw [rustLinesAux, hl, hrest]

theorem joinWith_snoc_nil (ls : List Str) (hne : ls ≠ []) :
    joinWith '\n' (ls ++ [[]]) = joinWith '\n' ls ++ ['\n'] := by
  induction ls with
  | nil => exact absurd rfl hne
  | cons l rest ih =>
    cases rest with
    | nil => simp [joinWith]
    | cons r rs =>
      have := ih (by simp)
      simp only [List.cons_append] at this ⊢
      simp [joinWith, this]

end GitAi.Routing
