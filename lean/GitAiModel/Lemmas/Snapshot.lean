/-
  Lemmas/Snapshot.lean — lost snapshots can only lose attribution (Model/Snapshot.lean), and the link to the
  working-log invariant of Model/Sys.lean (C03).
-/
import GitAiModel.Model.Snapshot
import GitAiModel.Lemmas.SysPartial
namespace GitAi.Snapshot
open GitAi.Sys

/-! ### specification vocabulary -/

/-- `store` is what damage leaves of the true blobs directory `store₀`: a blob reads as it was written, or as a
    truncation of that at a line boundary, or not at all (deleted / unreadable / a directory / not UTF-8). -/
def Damaged (store₀ store : Store) : Prop :=
  ∀ r c, store r = some c → ∃ c₀, store₀ r = some c₀ ∧ c <+: c₀

/-- per-line authors `attr` are sound for the content `c` they were recorded with: a line listed under
    session `s` is a line whose content `s` reported (`rep s y`). -/
@[reducible] def EntrySound (rep : Nat → Nat → Prop) (c : List Nat) (attr : List Author) : Prop :=
  ∀ i y s : Nat, c[i]? = some y → attr[i]? = some (some s) → rep s y

/-- the working log is sound with respect to the blobs as they were written: the latest entry and the INITIAL
    record credit a session only with lines it reported (C03's working-log invariant, `sound_of_inv2`). -/
structure Sound (rep : Nat → Nat → Prop) (store₀ : Store) (wl : WLog) : Prop where
  latest : ∀ e, wl.entries.getLast? = some e → ∃ c, store₀ e.ref = some c ∧ EntrySound rep c e.attr
  pending : ∀ p, wl.pending = some p → ∃ c, store₀ p.ref = some c ∧ EntrySound rep c p.attr

/-- healing keeps `Damaged` -/
theorem Damaged.heal {store₀ store : Store} (h : Damaged store₀ store) (r : Ref) (cur : List Nat) :
    Damaged (heal store₀ r cur) (heal store r cur) := by
  intro r' c hc
  unfold Snapshot.heal at hc ⊢
  by_cases hr : r' = r
  · simp only [hr, if_true, Option.some.injEq] at hc ⊢
    exact ⟨cur, rfl, by rw [hc]; exact List.prefix_refl _⟩
  · simp only [hr, if_false] at hc ⊢
    exact h r' c hc

theorem Damaged.pendStore {store₀ store : Store} (h : Damaged store₀ store) (r : Ref) (cur : List Nat) :
    Damaged (Snapshot.heal store₀ r cur) (Snapshot.pendStore store r cur) := by
  intro r' c hc
  unfold Snapshot.pendStore at hc
  split at hc
  · cases hc
  · exact h.heal r cur r' c hc

/-- … and `Sound`, blobs being content-addressed: the blob named `r`, if it was ever written, holds `cur` -/
theorem Sound.heal {rep : Nat → Nat → Prop} {store₀ : Store} {wl : WLog} (h : Sound rep store₀ wl) (r : Ref) (cur : List Nat)
    (hca : ∀ c, store₀ r = some c → c = cur) : Sound rep (heal store₀ r cur) wl := by
  constructor
  · intro e he
    obtain ⟨c, hc, hs⟩ := h.latest e he
    unfold Snapshot.heal
    by_cases hr : e.ref = r
    · simp only [hr, if_true]
      rw [hr] at hc
      exact ⟨cur, rfl, by rw [← hca c hc]; exact hs⟩
    · simp only [hr, if_false]
      exact ⟨c, hc, hs⟩
  · intro p hp
    obtain ⟨c, hc, hs⟩ := h.pending p hp
    unfold Snapshot.heal
    by_cases hr : p.ref = r
    · simp only [hr, if_true]
      rw [hr] at hc
      exact ⟨cur, rfl, by rw [← hca c hc]; exact hs⟩
    · simp only [hr, if_false]
      exact ⟨c, hc, hs⟩

/-! ### list facts -/

theorem EntrySound.of_prefix {rep : Nat → Nat → Prop} {c c₀ : List Nat} {attr : List Author}
    (h : EntrySound rep c₀ attr) (hp : c <+: c₀) : EntrySound rep c attr := by
  intro i y s hc ha
  obtain ⟨t, rfl⟩ := hp
  refine h i y s ?_ ha
  have hi : i < c.length := by
    rcases Nat.lt_or_ge i c.length with hlt | hge
    · exact hlt
    · rw [List.getElem?_eq_none hge] at hc; cases hc
  rw [List.getElem?_append_left hi]
  exact hc

theorem EntrySound.tail {rep : Nat → Nat → Prop} {x : Nat} {xs : List Nat} {a : Author} {as : List Author}
    (h : EntrySound rep (x :: xs) (a :: as)) : EntrySound rep xs as := by
  intro i y s hc ha
  exact h (i + 1) y s (by simpa using hc) (by simpa using ha)

/-- the diff's carry-over (`lookup`: first occurrence of the id in the previous content) stays inside a sound record -/
theorem lookup_sound {rep : Nat → Nat → Prop} (c : List Nat) (attr : List Author) (h : EntrySound rep c attr)
    (y s : Nat) (hl : lookup c attr y = some (some s)) : rep s y := by
  induction c generalizing attr with
  | nil => simp [lookup] at hl
  | cons x xs ih =>
    cases attr with
    | nil => simp [lookup] at hl
    | cons a as =>
      simp only [lookup] at hl
      by_cases hx : x = y
      · simp only [hx, if_true, Option.some.injEq] at hl
        subst hx hl
        exact h 0 x s (by simp) (by simp)
      · simp only [hx, if_false] at hl
        exact ih as h.tail hl

theorem positional_getElem? (attr : List Author) (cur : List Nat) (i s : Nat)
    (h : (positional attr cur)[i]? = some (some s)) : attr[i]? = some (some s) := by
  induction cur generalizing attr i with
  | nil => cases attr <;> simp [positional] at h
  | cons y ys ih =>
    cases attr with
    | nil =>
      cases i with
      | zero => simp [positional] at h
      | succ n =>
        simp only [positional, List.getElem?_cons_succ] at h
        have := ih [] n h
        simp at this
    | cons a as =>
      cases i with
      | zero => simpa [positional] using h
      | succ n =>
        simp only [positional, List.getElem?_cons_succ] at h ⊢
        exact ih as n h

theorem positional_nil_none (cur : List Nat) (i s : Nat) : (positional [] cur)[i]? ≠ some (some s) := by
  intro h
  have := positional_getElem? [] cur i s h
  simp at this

theorem checkpointAttr_getElem? (prev : Entry) (cur : List Nat) (i s : Nat)
    (h : (checkpointAttr prev cur none)[i]? = some (some s)) :
    ∃ y, cur[i]? = some y ∧ lookup prev.snap prev.attr y = some (some s) := by
  simp only [checkpointAttr, List.getElem?_map] at h
  cases hc : cur[i]? with
  | none => simp [hc] at h
  | some y =>
    refine ⟨y, rfl, ?_⟩
    simp only [hc, Option.map_some, Option.some.injEq] at h
    cases hl : lookup prev.snap prev.attr y with
    | none => simp [hl] at h
    | some a => simp only [hl, Option.getD_some] at h; rw [h]

theorem mem_enumFrom_getElem? {α} (k : Nat) (l : List α) (i : Nat) (x : α) (h : (i, x) ∈ enumFrom k l) :
    k ≤ i ∧ l[i - k]? = some x := by
  induction l generalizing k with
  | nil => simp [enumFrom] at h
  | cons a as ih =>
    simp only [enumFrom, List.mem_cons, Prod.mk.injEq] at h
    rcases h with ⟨rfl, rfl⟩ | h
    · simp
    · obtain ⟨h1, h2⟩ := ih (k + 1) h
      refine ⟨by omega, ?_⟩
      have : i - k = (i - (k + 1)) + 1 := by omega
      rw [this, List.getElem?_cons_succ]
      exact h2

theorem getElem?_mem_enumFrom {α} (k : Nat) (l : List α) (j : Nat) (x : α) (h : l[j]? = some x) :
    (k + j, x) ∈ enumFrom k l := by
  induction l generalizing k j with
  | nil => simp at h
  | cons a as ih =>
    cases j with
    | zero => simp at h; subst h; simp [enumFrom]
    | succ n =>
      simp only [List.getElem?_cons_succ] at h
      have := ih (k + 1) n h
      simp only [enumFrom, List.mem_cons]
      right
      have e : k + (n + 1) = k + 1 + n := by omega
      rw [e]; exact this

/-- what a listed line is: a committed line the commit adds, with that effective author -/
theorem mem_noteOf (head cur : List Nat) (eff : List Author) (i s : Nat) (h : (i, s) ∈ noteOf head cur eff) :
    ∃ y, (i, y) ∈ enum1 cur ∧ y ∉ head ∧ 1 ≤ i ∧ cur[i - 1]? = some y ∧ eff[i - 1]? = some (some s) := by
  simp only [noteOf, List.mem_filterMap] at h
  obtain ⟨⟨j, y, a⟩, hm, hf⟩ := h
  simp only at hf
  split at hf
  · cases hf
  · rename_i hh
    cases a with
    | none => cases hf
    | some s' =>
      simp only [Option.map_some, Option.some.injEq, Prod.mk.injEq] at hf
      obtain ⟨rfl, rfl⟩ := hf
      obtain ⟨h1, h2⟩ := mem_enumFrom_getElem? 1 (cur.zip eff) j (y, some s') hm
      rw [List.getElem?_zip_eq_some] at h2
      obtain ⟨hc, he⟩ := h2
      refine ⟨y, ?_, by simpa using hh, h1, hc, he⟩
      have := getElem?_mem_enumFrom 1 cur (j - 1) y hc
      have e : 1 + (j - 1) = j := by omega
      rw [e] at this
      exact this

/-! ### the theorem's core -/

/-- with "previous content empty" for a lost entry snapshot and "dropped" for a lost INITIAL snapshot, whatever
    author the commit-time attribution gives a line of the current file is sound for that very line. -/
theorem effective_sound (rep : Nat → Nat → Prop) (store₀ se sp : Store) (hd : Damaged store₀ se) (hdp : Damaged store₀ sp)
    (wl : WLog) (hs : Sound rep store₀ wl) (cur : List Nat) :
    EntrySound rep cur (effective ⟨.empty, .drop⟩ se sp wl cur) := by
  intro i y s hc he
  have carried : ∀ c attr, EntrySound rep c attr →
      (positional (checkpointAttr ⟨c, attr⟩ cur none) cur)[i]? = some (some s) → rep s y := by
    intro c attr hsound h
    obtain ⟨y', hy', hl⟩ := checkpointAttr_getElem? ⟨c, attr⟩ cur i s (positional_getElem? _ _ _ _ h)
    rw [hc] at hy'; cases hy'
    exact lookup_sound c attr hsound y s hl
  unfold effective preCommit prevState at he
  cases hlast : wl.entries.getLast? with
  | some e =>
    have hne : wl.entries.isEmpty = false := by
      cases hw : wl.entries with
      | nil => rw [hw] at hlast; cases hlast
      | cons _ _ => rfl
    simp only [hlast, hne] at he
    cases hst : se e.ref with
    | some c =>
      obtain ⟨c₀, h0, hp⟩ := hd _ _ hst
      have hsound : EntrySound rep c e.attr := by
        obtain ⟨c', hc', hs'⟩ := hs.latest e hlast
        rw [h0] at hc'; cases hc'
        exact hs'.of_prefix hp
      simp only [hst] at he
      by_cases hcc : c = cur
      · subst hcc
        simp at he
        exact hsound i y s hc (positional_getElem? _ _ _ _ he)
      · simp [hcc] at he
        exact carried c e.attr hsound he
    | none =>
      simp only [hst] at he
      by_cases hcc : [] = cur
      · subst hcc; simp at hc
      · simp [hcc] at he
        obtain ⟨y', _, hl⟩ := checkpointAttr_getElem? ⟨[], e.attr⟩ cur i s (positional_getElem? _ _ _ _ he)
        simp [lookup] at hl
  | none =>
    have hemp : wl.entries.isEmpty = true := by
      have hnil := List.getLast?_eq_none_iff.1 hlast
      simp [hnil]
    simp only [hlast, hemp] at he
    cases hp : wl.pending with
    | none =>
      simp [hp, pendingEffective] at he
      exact absurd he (positional_nil_none cur i s)
    | some p =>
      cases hst : sp p.ref with
      | some c =>
        obtain ⟨c₀, h0, hpre⟩ := hdp _ _ hst
        have hsound : EntrySound rep c p.attr := by
          obtain ⟨c', hc', hs'⟩ := hs.pending p hp
          rw [h0] at hc'; cases hc'
          exact hs'.of_prefix hpre
        simp [hp, hst] at he
        exact carried c p.attr hsound he
      | none =>
        simp [hp, hst, pendingEffective] at he
        exact absurd he (positional_nil_none cur i s)

/-! ### the working log of Model/Sys.lean as a snapshot log -/

/-- blob names for a `Sys.State`: entry `k` (oldest = 0) is blob `k + 1`; the content recorded with INITIAL is blob 0 -/
def sysStore (st : State) : Store := fun r =>
  match r with
  | 0 => some st.initSnap
  | k + 1 => st.entries[k]?.map (·.snap)

def sysEntries (k : Nat) : List Entry → List LogEntry
  | [] => []
  | e :: es => ⟨k + 1, e.attr⟩ :: sysEntries (k + 1) es

/-- INITIAL is read only while the working log has no entry (an entry overrides it in both readers) -/
def sysLog (st : State) : WLog :=
  { entries := sysEntries 0 st.entries
    pending := if st.entries.isEmpty && !st.initial.isEmpty
               then some ⟨0, (enum1 st.initSnap).map (fun p => initialAuthor st.initial p.1)⟩ else none }

theorem sysEntries_getLast? (k : Nat) (es : List Entry) (le : LogEntry) (h : (sysEntries k es).getLast? = some le) :
    ∃ e, es.getLast? = some e ∧ le.attr = e.attr ∧ le.ref = k + es.length ∧ es[es.length - 1]? = some e := by
  induction es generalizing k with
  | nil => simp [sysEntries] at h
  | cons a as ih =>
    cases as with
    | nil =>
      simp [sysEntries] at h
      subst h
      exact ⟨a, by simp, rfl, by simp, by simp⟩
    | cons b bs =>
      simp only [sysEntries, List.getLast?_cons_cons] at h
      have := ih (k + 1) (by simpa [sysEntries] using h)
      obtain ⟨e, h1, h2, h3, h4⟩ := this
      have h3' : (le.ref : Nat) = k + 1 + (b :: bs).length := h3
      refine ⟨e, by simpa [List.getLast?_cons_cons] using h1, h2, ?_, ?_⟩
      · show (le.ref : Nat) = k + (a :: b :: bs).length
        simp only [List.length_cons] at h3' ⊢; omega
      · simp at h4 ⊢
        exact h4

theorem map_target_sound (sp : Spec) (c : List Nat) :
    EntrySound (fun s y => sp.g y = some s) c (c.map (target sp)) := by
  intro i y s hc ha
  simp only [List.getElem?_map, hc, Option.map_some, Option.some.injEq] at ha
  simp only [target] at ha
  split at ha
  · cases ha
  · exact ha

/-- **link to C03.** In every state the working-log invariant of Model/Sys.lean holds for (`Inv2`: every state of a
    valid history, `specRun_inv2`), the working log read as a snapshot log is `Sound` for "the ghost author of the
    line is that session" — the statement C03's `no_invention` is about. -/
theorem sound_of_inv2 (sp : Spec) (h : Inv2 sp) :
    Sound (fun s y => sp.g y = some s) (sysStore sp.st) (sysLog sp.st) := by
  constructor
  · intro le hle
    obtain ⟨e, he, hattr, href, hidx⟩ := sysEntries_getLast? 0 sp.st.entries le hle
    have hl := h.latest
    rw [he] at hl
    have hpos : 0 < sp.st.entries.length := by
      cases hw : sp.st.entries with
      | nil => rw [hw] at he; cases he
      | cons _ _ => simp
    have e1 : le.ref = (sp.st.entries.length - 1) + 1 := by omega
    refine ⟨e.snap, by simp only [sysStore, e1, hidx, Option.map_some], ?_⟩
    rw [hattr, hl.1]
    exact map_target_sound sp e.snap
  · intro p hp
    simp only [sysLog] at hp
    split at hp
    · rename_i hcond
      cases hp
      refine ⟨sp.st.initSnap, rfl, ?_⟩
      simp only [Bool.and_eq_true, Bool.not_eq_true', List.isEmpty_iff] at hcond
      obtain ⟨hemp, hne⟩ := hcond
      have hl := h.latest
      rw [hemp] at hl
      simp only [List.getLast?_nil] at hl
      rcases hl with ⟨hi, _⟩ | ⟨_, hi, hnd, _, _⟩
      · rw [hi] at hne; simp at hne
      · show EntrySound _ sp.st.initSnap ((enum1 sp.st.initSnap).map (fun p => initialAuthor sp.st.initial p.1))
        rw [hi, map_initialAuthor_claimsFrom sp.st.initSnap (target sp) hnd]
        exact map_target_sound sp sp.st.initSnap
    · cases hp

end GitAi.Snapshot
