/-
  Lemmas/Split3.lean — coordinate translation and sorting facts for the three-way split.
-/
import GitAiModel.Model.Split3
namespace GitAi.Split3

/-- the committed version of a file: working-tree lines that are not unstaged insertions -/
def keep {α} : List α → List Bool → List α
  | x :: xs, m :: ms => if m then keep xs ms else x :: keep xs ms
  | _, _ => []

/-- number of `true` among the first `i` entries -/
def truesBefore : List Bool → Nat → Nat
  | _, 0 => 0
  | [], _ => 0
  | m :: ms, i + 1 => (if m then 1 else 0) + truesBefore ms i

/-- 1-based positions (offset by `k`) of the `true` entries: the unstaged line numbers -/
def positionsFrom (k : Nat) : List Bool → List Nat
  | [] => []
  | m :: ms => if m then k :: positionsFrom (k + 1) ms else positionsFrom (k + 1) ms

theorem truesBefore_le (mask : List Bool) (i : Nat) : truesBefore mask i ≤ i := by
  induction mask generalizing i with
  | nil => cases i <;> simp [truesBefore]
  | cons m ms ih =>
    cases i with
    | zero => simp [truesBefore]
    | succ i =>
      simp only [truesBefore]
      have := ih i
      split <;> omega

/-- **coordinate lemma** (0-based): a line that is not an unstaged insertion sits in the committed
    version at its working-tree index minus the number of unstaged insertions before it. -/
theorem keep_getElem? {α} (W : List α) (mask : List Bool) (i : Nat)
    (hlen : mask.length = W.length) (h : mask[i]? = some false) :
    (keep W mask)[i - truesBefore mask i]? = W[i]? := by
  induction W generalizing mask i with
  | nil =>
    cases mask with
    | nil => simp at h
    | cons _ _ => simp at hlen
  | cons x xs ih =>
    cases mask with
    | nil => simp at hlen
    | cons m ms =>
      have hlen' : ms.length = xs.length := by simpa using hlen
      cases i with
      | zero =>
        simp at h
        subst h
        simp [keep, truesBefore]
      | succ i =>
        have h' : ms[i]? = some false := by simpa using h
        have hle := truesBefore_le ms i
        cases m with
        | true =>
          simp only [keep, truesBefore, if_true]
          have : i + 1 - (1 + truesBefore ms i) = i - truesBefore ms i := by omega
          rw [this, ih ms i hlen' h']
          simp
        | false =>
          simp only [keep, truesBefore]
          have : i + 1 - (0 + truesBefore ms i) = (i - truesBefore ms i) + 1 := by omega
          simp only [Bool.false_eq_true, if_false, this, List.getElem?_cons_succ]
          exact ih ms i hlen' h'

theorem positionsFrom_ge (k : Nat) (mask : List Bool) : ∀ p ∈ positionsFrom k mask, k ≤ p := by
  induction mask generalizing k with
  | nil => simp [positionsFrom]
  | cons m ms ih =>
    intro p hp
    simp only [positionsFrom] at hp
    split at hp
    · simp at hp
      rcases hp with rfl | hp
      · omega
      · have := ih (k + 1) p hp; omega
    · have := ih (k + 1) p hp; omega

/-- counting unstaged line numbers below `w` = counting `true` entries before index `w - k` -/
theorem filter_positions_lt (k : Nat) (mask : List Bool) (j : Nat) :
    ((positionsFrom k mask).filter (· < k + j)).length = truesBefore mask j := by
  induction mask generalizing k j with
  | nil => cases j <;> simp [positionsFrom, truesBefore]
  | cons m ms ih =>
    cases j with
    | zero =>
      simp only [truesBefore, Nat.add_zero]
      have : ∀ p ∈ positionsFrom k (m :: ms), ¬ p < k := fun p hp => by
        have := positionsFrom_ge k _ p hp; omega
      rw [List.filter_eq_nil_iff.2 (by simpa using this)]
      rfl
    | succ j =>
      have ihj := ih (k + 1) j
      have hk : k + 1 + j = k + (j + 1) := by omega
      rw [hk] at ihj
      cases m with
      | true =>
        simp only [positionsFrom, truesBefore, if_true]
        rw [List.filter_cons]
        have : decide (k < k + (j + 1)) = true := by simp
        simp only [this, if_true, List.length_cons, ihj]
        omega
      | false =>
        simp only [positionsFrom, truesBefore, Bool.false_eq_true, if_false, ihj]
        omega

/-! ### sorting facts -/

theorem mem_insertSorted (n x : Nat) (l : List Nat) : x ∈ insertSorted n l ↔ x = n ∨ x ∈ l := by
  induction l with
  | nil => simp [insertSorted]
  | cons y ys ih =>
    unfold insertSorted
    split
    · simp
    · split
      · rename_i h; subst h; simp
      · simp [ih]; constructor
        · rintro (h | h | h) <;> simp [h]
        · rintro (h | h | h) <;> simp [h]

theorem mem_sortDedup (x : Nat) (l : List Nat) : x ∈ sortDedup l ↔ x ∈ l := by
  induction l with
  | nil => simp [sortDedup]
  | cons y ys ih =>
    have : sortDedup (y :: ys) = insertSorted y (sortDedup ys) := rfl
    rw [this, mem_insertSorted, ih]; simp

theorem insertSorted_sorted (n : Nat) (l : List Nat) (h : l.Pairwise (· < ·)) :
    (insertSorted n l).Pairwise (· < ·) := by
  induction l with
  | nil => simp [insertSorted]
  | cons y ys ih =>
    rw [List.pairwise_cons] at h
    unfold insertSorted
    split
    · rename_i hlt
      rw [List.pairwise_cons]
      refine ⟨?_, List.pairwise_cons.2 h⟩
      intro z hz
      simp at hz
      rcases hz with rfl | hz
      · exact hlt
      · exact Nat.lt_trans hlt (h.1 z hz)
    · split
      · exact List.pairwise_cons.2 h
      · rename_i hnlt hne
        rw [List.pairwise_cons]
        refine ⟨?_, ih h.2⟩
        intro z hz
        rcases (mem_insertSorted n z ys).1 hz with rfl | hz
        · omega
        · exact h.1 z hz

/-- `sort` + `dedup`: strictly increasing output -/
theorem sortDedup_sorted (l : List Nat) : (sortDedup l).Pairwise (· < ·) := by
  induction l with
  | nil => simp [sortDedup]
  | cons y ys ih => exact insertSorted_sorted y _ ih

end GitAi.Split3
