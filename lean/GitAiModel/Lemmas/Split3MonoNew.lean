/-
  Lemmas/Split3Mono.lean — the translation of working-tree lines to commit lines is strictly
  increasing (hence injective): no commit line is claimed by two working-tree lines.
-/
import GitAiModel.Lemmas.Split3New
namespace GitAi.Split3

variable {α : Type}

/-- position of the `w`-th (1-based) working-tree line of a script, read off the script itself;
    `c0` = commit lines before the script -/
def specPos : List (Seg α) → Nat → Nat → Option Pos
  | [], _, _ => none
  | .eq _ :: r, c0, w => if w = 1 then some (.unchanged (c0 + 1)) else specPos r (c0 + 1) (w - 1)
  | .chg o n :: r, c0, w =>
    if w ≤ n.length then (if w - 1 < o.length then some (.replaces (c0 + w)) else some .added)
    else specPos r (c0 + o.length) (w - n.length)

/-- the commit line a position names -/
def Pos.line? : Pos → Option Nat
  | .unchanged c => some c
  | .replaces c => some c
  | _ => none

theorem specPos_eq_line (pre post : List (Seg α)) (x : α) (c0 : Nat) :
    specPos (pre ++ .eq x :: post) c0 ((workOf pre).length + 1) = some (.unchanged (c0 + (commitOf pre).length + 1)) := by
  induction pre generalizing c0 with
  | nil => simp [specPos, workOf, commitOf]
  | cons s tl ih =>
    cases s with
    | eq y =>
      simp only [List.cons_append, specPos, workOf, commitOf, List.length_cons]
      have h1 : ¬ (workOf tl).length + 1 + 1 = 1 := by omega
      simp only [h1, if_false, Nat.add_sub_cancel]
      rw [ih (c0 + 1)]
      congr 2; omega
    | chg o n =>
      simp only [List.cons_append, specPos, workOf, commitOf, List.length_append]
      have h1 : ¬ n.length + (workOf tl).length + 1 ≤ n.length := by omega
      have h2 : n.length + (workOf tl).length + 1 - n.length = (workOf tl).length + 1 := by omega
      simp only [h1, if_false, h2]
      rw [ih (c0 + o.length)]
      congr 2; omega

theorem specPos_new_line (pre post : List (Seg α)) (o n : List α) (k : Nat) (hk : k < n.length) (c0 : Nat) :
    specPos (pre ++ .chg o n :: post) c0 ((workOf pre).length + k + 1) =
      some (if k < o.length then .replaces (c0 + (commitOf pre).length + k + 1) else .added) := by
  induction pre generalizing c0 with
  | nil =>
    have h1 : k + 1 ≤ n.length := by omega
    simp only [List.nil_append, specPos, workOf, commitOf, List.length_nil, Nat.zero_add, h1, if_true,
      Nat.add_sub_cancel, Nat.add_zero]
    split <;> simp <;> omega
  | cons s tl ih =>
    cases s with
    | eq y =>
      simp only [List.cons_append, specPos, workOf, commitOf, List.length_cons]
      have h1 : ¬ (workOf tl).length + 1 + k + 1 = 1 := by omega
      have h2 : (workOf tl).length + 1 + k + 1 - 1 = (workOf tl).length + k + 1 := by omega
      simp only [h1, if_false, h2]
      rw [ih (c0 + 1)]
      congr 1
      split <;> simp <;> omega
    | chg o' n' =>
      simp only [List.cons_append, specPos, workOf, commitOf, List.length_append]
      have h1 : ¬ n'.length + (workOf tl).length + k + 1 ≤ n'.length := by omega
      have h2 : n'.length + (workOf tl).length + k + 1 - n'.length = (workOf tl).length + k + 1 := by omega
      simp only [h1, if_false, h2]
      rw [ih (c0 + o'.length)]
      congr 1
      split <;> simp <;> omega

theorem specPos_line_gt (segs : List (Seg α)) (c0 w : Nat) (hw : 1 ≤ w) (p : Pos) (c : Nat)
    (h : specPos segs c0 w = some p) (hc : p.line? = some c) : c0 < c := by
  induction segs generalizing c0 w with
  | nil => simp [specPos] at h
  | cons s tl ih =>
    cases s with
    | eq y =>
      simp only [specPos] at h
      split at h
      · cases h; simp [Pos.line?] at hc; omega
      · have := ih (c0 + 1) (w - 1) (by omega) h; omega
    | chg o n =>
      simp only [specPos] at h
      split at h
      · split at h
        · cases h; simp [Pos.line?] at hc; omega
        · cases h; simp [Pos.line?] at hc
      · have := ih (c0 + o.length) (w - n.length) (by omega) h; omega

/-- **strictly increasing**: of two working-tree lines that both have a commit line, the lower one has
    the lower commit line -/
theorem specPos_strictMono (segs : List (Seg α)) (c0 w1 w2 : Nat) (h1 : 1 ≤ w1) (h12 : w1 < w2)
    (p1 p2 : Pos) (c1 c2 : Nat)
    (e1 : specPos segs c0 w1 = some p1) (e2 : specPos segs c0 w2 = some p2)
    (l1 : p1.line? = some c1) (l2 : p2.line? = some c2) : c1 < c2 := by
  induction segs generalizing c0 w1 w2 with
  | nil => simp [specPos] at e1
  | cons s tl ih =>
    cases s with
    | eq y =>
      simp only [specPos] at e1 e2
      have hw2 : ¬ w2 = 1 := by omega
      simp only [hw2, if_false] at e2
      split at e1
      · cases e1; simp [Pos.line?] at l1
        have := specPos_line_gt tl (c0 + 1) (w2 - 1) (by omega) p2 c2 e2 l2
        omega
      · exact ih (c0 + 1) (w1 - 1) (w2 - 1) (by omega) (by omega) e1 e2
    | chg o n =>
      simp only [specPos] at e1 e2
      split at e1
      · rename_i hw1
        split at e1
        · rename_i ho1
          cases e1; simp [Pos.line?] at l1
          split at e2
          · split at e2
            · cases e2; simp [Pos.line?] at l2; omega
            · cases e2; simp [Pos.line?] at l2
          · have := specPos_line_gt tl (c0 + o.length) (w2 - n.length) (by omega) p2 c2 e2 l2
            omega
        · cases e1; simp [Pos.line?] at l1
      · rename_i hw1
        have hw2 : ¬ w2 ≤ n.length := by omega
        simp only [hw2, if_false] at e2
        exact ih (c0 + o.length) (w1 - n.length) (w2 - n.length) (by omega) (by omega) e1 e2

end GitAi.Split3
