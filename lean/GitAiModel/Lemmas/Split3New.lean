/-
  Lemmas/Split3.lean — coordinate translation through the unstaged hunks, and sorting facts, for
  the three-way split.
-/
import GitAiModel.Model.Split3New
namespace GitAi.Split3

/-! ### an edit script between the committed file and the working tree

  `eq x` is a line present in both, `chg old new` a region where the commit's lines `old` were
  replaced by the working-tree lines `new` (either may be empty: pure insertion / pure deletion).
  Any diff git reports is such a script; the theorems hold for every script. -/

inductive Seg (α : Type) where
  | eq (x : α)
  | chg (old new : List α)

variable {α : Type}

/-- the committed file -/
def commitOf : List (Seg α) → List α
  | [] => []
  | .eq x :: r => x :: commitOf r
  | .chg o _ :: r => o ++ commitOf r

/-- the working tree -/
def workOf : List (Seg α) → List α
  | [] => []
  | .eq x :: r => x :: workOf r
  | .chg _ n :: r => n ++ workOf r

/-- commit lines removed by the change regions -/
def olds : List (Seg α) → Nat
  | [] => 0
  | .eq _ :: r => olds r
  | .chg o _ :: r => o.length + olds r

/-- working-tree lines added by the change regions -/
def news : List (Seg α) → Nat
  | [] => 0
  | .eq _ :: r => news r
  | .chg _ n :: r => n.length + news r

/-- the `-U0` hunks of the script; `p` = number of working-tree lines before it. Git's convention:
    a hunk that adds lines starts at its first added line, a hunk that only removes lines names the
    working-tree line after which they were removed. -/
def hunksFrom (p : Nat) : List (Seg α) → List Hunk
  | [] => []
  | .eq _ :: r => hunksFrom (p + 1) r
  | .chg o n :: r => ⟨o.length, if n.length = 0 then p else p + 1, n.length⟩ :: hunksFrom (p + n.length) r

def hunksOf (s : List (Seg α)) : List Hunk := hunksFrom 0 s

theorem commitOf_append (a b : List (Seg α)) : commitOf (a ++ b) = commitOf a ++ commitOf b := by
  induction a with
  | nil => rfl
  | cons s r ih => cases s <;> simp [commitOf, ih]

theorem workOf_append (a b : List (Seg α)) : workOf (a ++ b) = workOf a ++ workOf b := by
  induction a with
  | nil => rfl
  | cons s r ih => cases s <;> simp [workOf, ih]

theorem hunksFrom_append (p : Nat) (a b : List (Seg α)) :
    hunksFrom p (a ++ b) = hunksFrom p a ++ hunksFrom (p + (workOf a).length) b := by
  induction a generalizing p with
  | nil => simp [hunksFrom, workOf]
  | cons s r ih =>
    cases s with
    | eq x => simp [hunksFrom, workOf, ih]; congr 1; omega
    | chg o n => simp [hunksFrom, workOf, ih]; congr 1; omega

/-- lengths: work = eq lines + added, commit = eq lines + removed -/
theorem length_balance (s : List (Seg α)) :
    (workOf s).length + olds s = (commitOf s).length + news s := by
  induction s with
  | nil => rfl
  | cons x r ih => cases x <;> simp [workOf, commitOf, olds, news] <;> omega

/-- hunks of a script whose working-tree lines all lie before `w` are counted in full -/
theorem scan_before (w p : Nat) (pre : List (Seg α)) (rest : List Hunk) (r a : Nat) (i : Option Hunk)
    (h : p + (workOf pre).length < w) :
    scan w (hunksFrom p pre ++ rest) r a i = scan w rest (r + olds pre) (a + news pre) i := by
  induction pre generalizing p r a with
  | nil => simp [hunksFrom, olds, news]
  | cons s tl ih =>
    cases s with
    | eq x =>
      simp only [workOf, List.length_cons] at h
      simp only [hunksFrom, olds, news]
      exact ih (p + 1) r a (by omega)
    | chg o n =>
      simp only [workOf, List.length_append] at h
      simp only [hunksFrom, olds, news, List.cons_append]
      by_cases hn : n.length = 0
      · have hlt : p < w := by omega
        simp only [scan, hn, if_true, hlt]
        rw [ih (p + 0) (r + o.length) a (by omega)]
        congr 1 <;> omega
      · have hle : p + 1 + n.length ≤ w := by omega
        simp only [scan, hn, if_false, hle, if_true]
        rw [ih (p + n.length) (r + o.length) (a + n.length) (by omega)]
        congr 1 <;> omega

/-- hunks of a script that starts at or after working-tree line `w` do not count -/
theorem scan_after (w q : Nat) (post : List (Seg α)) (r a : Nat) (i : Option Hunk) (h : w ≤ q) :
    scan w (hunksFrom q post) r a i = (r, a, i) := by
  induction post generalizing q with
  | nil => simp [hunksFrom, scan]
  | cons s tl ih =>
    cases s with
    | eq x => simp only [hunksFrom]; exact ih (q + 1) (by omega)
    | chg o n =>
      simp only [hunksFrom]
      by_cases hn : n.length = 0
      · have : ¬ q < w := by omega
        simp only [scan, hn, if_true, this, if_false]
        exact ih (q + 0) (by omega)
      · have h1 : ¬ q + 1 + n.length ≤ w := by omega
        have h2 : ¬ q + 1 ≤ w := by omega
        simp only [scan, hn, if_false, h1, h2]
        exact ih (q + n.length) (by omega)

/-- `scan` around an unchanged line -/
theorem scan_eq_line (pre post : List (Seg α)) (x : α) :
    scan ((workOf pre).length + 1) (hunksOf (pre ++ .eq x :: post)) 0 0 none
      = (olds pre, news pre, none) := by
  unfold hunksOf
  rw [hunksFrom_append, scan_before _ _ _ _ _ _ _ (by omega)]
  simp only [hunksFrom, Nat.zero_add]
  exact scan_after _ _ _ _ _ _ (by omega)

/-- `scan` around the `k`-th added line of a change region -/
theorem scan_new_line (pre post : List (Seg α)) (o n : List α) (k : Nat) (hk : k < n.length) :
    scan ((workOf pre).length + k + 1) (hunksOf (pre ++ .chg o n :: post)) 0 0 none
      = (olds pre, news pre, some ⟨o.length, (workOf pre).length + 1, n.length⟩) := by
  unfold hunksOf
  rw [hunksFrom_append, scan_before _ _ _ _ _ _ _ (by omega)]
  have hn : ¬ n.length = 0 := by omega
  have h1 : ¬ (workOf pre).length + 1 + n.length ≤ (workOf pre).length + k + 1 := by omega
  have h2 : (workOf pre).length + 1 ≤ (workOf pre).length + k + 1 := by omega
  simp only [hunksFrom, Nat.zero_add, scan, hn, if_false, h1, h2, if_true]
  exact scan_after _ _ _ _ _ _ (by omega)

/-- the first hunk found by `scan` is one of the hunks and contains `w` in its new range -/
theorem scan_inside (w : Nat) (hunks : List Hunk) (r a : Nat) (i : Option Hunk) (r' a' : Nat) (h : Hunk)
    (hs : scan w hunks r a i = (r', a', some h)) :
    i = some h ∨ (h ∈ hunks ∧ h.ns ≤ w ∧ w < h.ns + h.nc) := by
  induction hunks generalizing r a i with
  | nil => simp [scan] at hs; exact Or.inl hs.2.2
  | cons g gs ih =>
    simp only [scan] at hs
    split at hs
    · split at hs
      · rcases ih _ _ _ hs with h' | ⟨hm, hb⟩
        · exact Or.inl h'
        · exact Or.inr ⟨List.mem_cons_of_mem _ hm, hb⟩
      · rcases ih _ _ _ hs with h' | ⟨hm, hb⟩
        · exact Or.inl h'
        · exact Or.inr ⟨List.mem_cons_of_mem _ hm, hb⟩
    · split at hs
      · rcases ih _ _ _ hs with h' | ⟨hm, hb⟩
        · exact Or.inl h'
        · exact Or.inr ⟨List.mem_cons_of_mem _ hm, hb⟩
      · split at hs
        · rename_i hnc hnle hle
          rcases ih _ _ _ hs with h' | ⟨hm, hb⟩
          · cases i with
            | some i0 => exact Or.inl h'
            | none =>
              simp at h'
              subst h'
              exact Or.inr ⟨List.mem_cons_self, hle, by omega⟩
          · exact Or.inr ⟨List.mem_cons_of_mem _ hm, hb⟩
        · rcases ih _ _ _ hs with h' | ⟨hm, hb⟩
          · exact Or.inl h'
          · exact Or.inr ⟨List.mem_cons_of_mem _ hm, hb⟩

/-! ### sorting facts -/

theorem mem_insertSorted (n x : Nat) (l : List Nat) : x ∈ insertSorted n l ↔ x = n ∨ x ∈ l := by
  induction l with
  | nil => simp [insertSorted]
  | cons y ys ih =>
    unfold insertSorted
    split
    · simp
    · split
      · rename_i h; subst h; simp
      · simp [ih]; constructor
        · rintro (h | h | h) <;> simp [h]
        · rintro (h | h | h) <;> simp [h]

theorem mem_sortDedup (x : Nat) (l : List Nat) : x ∈ sortDedup l ↔ x ∈ l := by
  induction l with
  | nil => simp [sortDedup]
  | cons y ys ih =>
    have : sortDedup (y :: ys) = insertSorted y (sortDedup ys) := rfl
    rw [this, mem_insertSorted, ih]; simp

theorem insertSorted_sorted (n : Nat) (l : List Nat) (h : l.Pairwise (· < ·)) :
    (insertSorted n l).Pairwise (· < ·) := by
  induction l with
  | nil => simp [insertSorted]
  | cons y ys ih =>
    rw [List.pairwise_cons] at h
    unfold insertSorted
    split
    · rename_i hlt
      rw [List.pairwise_cons]
      refine ⟨?_, List.pairwise_cons.2 h⟩
      intro z hz
      simp at hz
      rcases hz with rfl | hz
      · exact hlt
      · exact Nat.lt_trans hlt (h.1 z hz)
    · split
      · exact List.pairwise_cons.2 h
      · rename_i hnlt hne
        rw [List.pairwise_cons]
        refine ⟨?_, ih h.2⟩
        intro z hz
        rcases (mem_insertSorted n z ys).1 hz with rfl | hz
        · omega
        · exact h.1 z hz

/-- `sort` + `dedup`: strictly increasing output -/
theorem sortDedup_sorted (l : List Nat) : (sortDedup l).Pairwise (· < ·) := by
  induction l with
  | nil => simp [sortDedup]
  | cons y ys ih => exact insertSorted_sorted y _ ih

end GitAi.Split3
