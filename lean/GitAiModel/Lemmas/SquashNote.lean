/-
  Lemmas/SquashNote.lean — facts about the range builder shared by `to_authorship_log` and
  `build_file_attestation_from_line_attributions` (`NotesTree.buildFileAttestation`), about
  `lineRuns`, and the assembly of `squash_note_wf` (Props/C05.lean).
-/
import GitAiModel.Lemmas.NotesTree
import GitAiModel.Model.SquashNote
namespace GitAi.NotesTree
open GitAi GitAi.NoteFormat

/-! ### `mergeRanges`: sorted, disjoint, and it lists no line its inputs do not list -/

theorem mem_insertPair (x : Nat × Nat) (l : List (Nat × Nat)) (y : Nat × Nat)
    (hy : y ∈ insertPair x l) : y = x ∨ y ∈ l := by
  induction l with
  | nil => simpa [insertPair] using hy
  | cons z l ih =>
    unfold insertPair at hy
    split at hy
    · rcases List.mem_cons.1 hy with rfl | hy
      · right; simp
      · rcases ih hy with h | h
        · left; exact h
        · right; simp [h]
    · rcases List.mem_cons.1 hy with rfl | hy
      · left; rfl
      · right; exact hy

theorem mem_sortPairs (l : List (Nat × Nat)) (y : Nat × Nat) (hy : y ∈ sortPairs l) : y ∈ l := by
  induction l with
  | nil => cases hy
  | cons x l ih =>
    rcases mem_insertPair x (sortPairs l) y hy with rfl | hy
    · simp
    · simp [ih hy]

theorem satSucc_le (n : Nat) : satSucc n ≤ n + 1 := by
  unfold satSucc; split <;> omega

/-- the merge loop: ascending, disjoint, well-oriented output -/
theorem mergeLoop_sorted (rest : List (Nat × Nat)) (cs ce : Nat) (h1 : cs ≤ ce) (h2 : ce ≤ u32Max)
    (hr : ∀ p ∈ rest, p.1 ≤ p.2 ∧ p.2 ≤ u32Max) :
    ∃ ce' tail, mergeLoop rest (cs, ce) = (cs, ce') :: tail ∧ ce ≤ ce' ∧
      sortedDisjoint ((mergeLoop rest (cs, ce)).map (fun p => mkRange p.1 p.2)) = true ∧
      ∀ p ∈ mergeLoop rest (cs, ce), p.1 ≤ p.2 := by
  induction rest generalizing cs ce with
  | nil =>
    refine ⟨ce, [], rfl, Nat.le_refl _, by simp [mergeLoop, sortedDisjoint], ?_⟩
    intro p hp; simp only [mergeLoop, List.mem_singleton] at hp; subst hp; exact h1
  | cons x rest ih =>
    obtain ⟨s, e⟩ := x
    have hx := hr (s, e) (by simp)
    have hr' : ∀ p ∈ rest, p.1 ≤ p.2 ∧ p.2 ≤ u32Max := fun p hp => hr p (by simp [hp])
    unfold mergeLoop
    by_cases hc : s ≤ satSucc ce
    · rw [if_pos hc]
      obtain ⟨ce', tail, q1, q2, q3, q4⟩ := ih cs (max ce e) (by omega) (by simp at hx ⊢; omega) hr'
      exact ⟨ce', tail, q1, by omega, q3, q4⟩
    · rw [if_neg hc]
      obtain ⟨ce', tail, q1, q2, q3, q4⟩ := ih s e hx.1 hx.2 hr'
      refine ⟨ce, _, rfl, Nat.le_refl _, ?_, ?_⟩
      · rw [q1] at q3 ⊢
        simp only [List.map_cons, sortedDisjoint, hi_mkRange, lo_mkRange, Bool.and_eq_true,
          decide_eq_true_eq]
        refine ⟨?_, by simpa [sortedDisjoint, hi_mkRange] using q3⟩
        unfold satSucc at hc
        split at hc <;> omega
      · intro p hp
        rcases List.mem_cons.1 hp with rfl | hp
        · exact h1
        · exact q4 p hp

theorem mergeRanges_sortedDisjoint (ranges : List (Nat × Nat))
    (h : ∀ p ∈ ranges, p.1 ≤ p.2 ∧ p.2 ≤ u32Max) :
    sortedDisjoint (mergeRanges ranges) = true ∧ ∀ r ∈ mergeRanges ranges, lo r ≤ hi r := by
  unfold mergeRanges
  have hs : ∀ p ∈ sortPairs ranges, p.1 ≤ p.2 ∧ p.2 ≤ u32Max := fun p hp => h p (mem_sortPairs ranges p hp)
  match hsp : sortPairs ranges with
  | [] => simp [sortedDisjoint]
  | r :: rest =>
    rw [hsp] at hs
    obtain ⟨r1, r2⟩ := r
    have hr := hs (r1, r2) (by simp)
    obtain ⟨_, _, _, _, q3, q4⟩ := mergeLoop_sorted rest r1 r2 hr.1 hr.2 (fun p hp => hs p (by simp [hp]))
    refine ⟨q3, ?_⟩
    intro q hq
    simp only [List.mem_map] at hq
    obtain ⟨p, hp, rfl⟩ := hq
    rw [lo_mkRange, hi_mkRange]
    exact q4 p hp

/-- merging adjacent / overlapping intervals never adds a line: whatever the order of the input -/
theorem mergeLoop_sound (rest : List (Nat × Nat)) (cur : Nat × Nat) (x : Nat)
    (h : ∃ p ∈ mergeLoop rest cur, p.1 ≤ x ∧ x ≤ p.2) :
    (cur.1 ≤ x ∧ x ≤ cur.2) ∨ ∃ p ∈ rest, p.1 ≤ x ∧ x ≤ p.2 := by
  induction rest generalizing cur with
  | nil =>
    obtain ⟨p, hp, hx⟩ := h
    simp only [mergeLoop, List.mem_singleton] at hp
    subst hp; exact Or.inl hx
  | cons q rest ih =>
    obtain ⟨s, e⟩ := q
    obtain ⟨cs, ce⟩ := cur
    unfold mergeLoop at h
    by_cases hc : s ≤ satSucc ce
    · rw [if_pos hc] at h
      have hs := satSucc_le ce
      rcases ih (cs, max ce e) h with ⟨h1, h2⟩ | ⟨p, hp, hx⟩
      · by_cases hle : x ≤ ce
        · exact Or.inl ⟨h1, hle⟩
        · refine Or.inr ⟨(s, e), by simp, ?_⟩
          simp only at h1 h2 ⊢
          omega
      · exact Or.inr ⟨p, by simp [hp], hx⟩
    · rw [if_neg hc] at h
      obtain ⟨p, hp, hx⟩ := h
      rcases List.mem_cons.1 hp with rfl | hp
      · exact Or.inl hx
      · rcases ih (s, e) ⟨p, hp, hx⟩ with h1 | ⟨p', hp', hx'⟩
        · exact Or.inr ⟨(s, e), by simp, h1⟩
        · exact Or.inr ⟨p', by simp [hp'], hx'⟩

theorem mergeRanges_sound (ranges : List (Nat × Nat)) (x : Nat)
    (h : coversAny (mergeRanges ranges) x = true) : ∃ p ∈ ranges, p.1 ≤ x ∧ x ≤ p.2 := by
  unfold mergeRanges at h
  match hsp : sortPairs ranges with
  | [] => rw [hsp] at h; simp [coversAny] at h
  | r :: rest =>
    rw [hsp] at h
    simp only [coversAny, List.any_eq_true, List.mem_map] at h
    obtain ⟨q, ⟨p, hp, rfl⟩, hc⟩ := h
    rw [covers_mkRange] at hc
    have hmem : ∀ p ∈ r :: rest, p ∈ ranges := fun p hp => mem_sortPairs ranges p (by rw [hsp]; exact hp)
    rcases mergeLoop_sound rest r x ⟨p, hp, hc⟩ with h1 | ⟨p', hp', hx'⟩
    · exact ⟨r, hmem r (by simp), h1⟩
    · exact ⟨p', hmem p' (by simp [hp']), hx'⟩

/-! ### `groupByAuthor` -/

theorem pushPair_keys (m : List (Str × List (Nat × Nat))) (a : Str) (p : Nat × Nat) :
    ∀ k ∈ (pushPair m a p).map (·.1), k ∈ m.map (·.1) ∨ k = a := by
  induction m with
  | nil => intro k hk; simp [pushPair] at hk; exact Or.inr hk
  | cons kv m ih =>
    obtain ⟨k0, v⟩ := kv
    intro k hk
    unfold pushPair at hk
    split at hk
    · left; simpa using hk
    · simp only [List.map_cons, List.mem_cons] at hk
      rcases hk with rfl | hk
      · left; simp
      · rcases ih k hk with h | h
        · left; simp only [List.map_cons, List.mem_cons]; right; exact h
        · right; exact h

theorem pushPair_nodup (m : List (Str × List (Nat × Nat))) (a : Str) (p : Nat × Nat)
    (h : (m.map (·.1)).Nodup) : ((pushPair m a p).map (·.1)).Nodup := by
  induction m with
  | nil => simp [pushPair]
  | cons kv m ih =>
    obtain ⟨k0, v⟩ := kv
    simp only [List.map_cons, List.nodup_cons] at h
    unfold pushPair
    split
    · simp only [List.map_cons, List.nodup_cons]; exact h
    · rename_i hne
      simp only [List.map_cons, List.nodup_cons]
      refine ⟨?_, ih h.2⟩
      intro hk
      rcases pushPair_keys m a p k0 hk with h1 | h1
      · exact h.1 h1
      · exact hne (by simp [h1])

theorem pushPair_pred (P : Str → Nat × Nat → Prop) (m : List (Str × List (Nat × Nat))) (a : Str)
    (p : Nat × Nat) (hm : ∀ kv ∈ m, ∀ q ∈ kv.2, P kv.1 q) (hp : P a p) :
    ∀ kv ∈ pushPair m a p, ∀ q ∈ kv.2, P kv.1 q := by
  induction m with
  | nil =>
    intro kv hkv q hq
    simp only [pushPair, List.mem_singleton] at hkv
    subst hkv
    simp only [List.mem_singleton] at hq
    subst hq; exact hp
  | cons kv0 m ih =>
    obtain ⟨k0, v⟩ := kv0
    intro kv hkv q hq
    unfold pushPair at hkv
    split at hkv
    · rename_i heq
      have hk : k0 = a := by simpa using heq
      rcases List.mem_cons.1 hkv with rfl | hkv
      · simp only [List.mem_append, List.mem_singleton] at hq
        rcases hq with hq | rfl
        · exact hm (k0, v) (by simp) q hq
        · simp only; rw [hk]; exact hp
      · exact hm kv (by simp [hkv]) q hq
    · rcases List.mem_cons.1 hkv with rfl | hkv
      · exact hm (k0, v) (by simp) q hq
      · exact ih (fun kv hkv => hm kv (by simp [hkv])) kv hkv q hq

/-- the grouping loop keeps: distinct keys, no `human` key, and every interval of a key is the
    interval of an input attribution of that author -/
theorem groupFold_inv (attrs l : List LineAttr) (m : List (Str × List (Nat × Nat)))
    (hl : ∀ la ∈ l, la ∈ attrs)
    (hm : (m.map (·.1)).Nodup ∧ (∀ k ∈ m.map (·.1), k ≠ humanId) ∧
      ∀ kv ∈ m, ∀ q ∈ kv.2, ∃ la ∈ attrs, la.author = kv.1 ∧ (la.start, la.stop) = q) :
    let m' := l.foldl (fun m la => if la.author == humanId then m else pushPair m la.author (la.start, la.stop)) m
    (m'.map (·.1)).Nodup ∧ (∀ k ∈ m'.map (·.1), k ≠ humanId) ∧
      ∀ kv ∈ m', ∀ q ∈ kv.2, ∃ la ∈ attrs, la.author = kv.1 ∧ (la.start, la.stop) = q := by
  induction l generalizing m with
  | nil => exact hm
  | cons la l ih =>
    simp only [List.foldl_cons]
    apply ih _ (fun x hx => hl x (by simp [hx]))
    by_cases hh : (la.author == humanId) = true
    · rw [if_pos hh]; exact hm
    · rw [if_neg hh]
      refine ⟨pushPair_nodup m _ _ hm.1, ?_, ?_⟩
      · intro k hk
        rcases pushPair_keys m _ _ k hk with h | h
        · exact hm.2.1 k h
        · rw [h]; simpa using hh
      · exact pushPair_pred (fun k q => ∃ x ∈ attrs, x.author = k ∧ (x.start, x.stop) = q) m _ _ hm.2.2
          ⟨la, hl la (by simp), rfl, rfl⟩

theorem groupByAuthor_inv (attrs : List LineAttr) :
    ((groupByAuthor attrs).map (·.1)).Nodup ∧ (∀ k ∈ (groupByAuthor attrs).map (·.1), k ≠ humanId) ∧
      ∀ kv ∈ groupByAuthor attrs, ∀ q ∈ kv.2, ∃ la ∈ attrs, la.author = kv.1 ∧ (la.start, la.stop) = q :=
  groupFold_inv attrs attrs [] (fun _ h => h) ⟨by simp, by simp, by simp⟩

/-! ### the file block built from line attributions that follow a per-line author function -/

/-- **`buildFileAttestation` (= `to_authorship_log` per file) is well-formed for a file of `n`
    lines** whenever every input attribution lies inside `1..n` and names the author a per-line
    function `f` gives to each of its lines: no `human` entry; every range inside `1..n`; ranges
    of an entry ascending and disjoint; ranges of different entries disjoint; every entry's
    author is the author of some line. -/
theorem buildFileAttestation_wf (path : Str) (attrs : List LineAttr) (f : Nat → Option Str) (n : Nat)
    (hn : n ≤ u32Max)
    (hattrs : ∀ la ∈ attrs, la.start ≤ la.stop ∧ 1 ≤ la.start ∧ la.stop ≤ n ∧
      ∀ x, la.start ≤ x → x ≤ la.stop → f x = some la.author)
    (g : FileAtt) (hg : buildFileAttestation path attrs = some g) :
    g.path = path ∧
    (∀ e ∈ g.entries, e.hash ≠ humanId ∧ e.ranges.all (rangeWF n) = true ∧
      sortedDisjoint e.ranges = true ∧ ∃ x, 1 ≤ x ∧ x ≤ n ∧ f x = some e.hash) ∧
    pairwiseDisjoint (g.entries.flatMap (fun e => e.ranges)) = true := by
  obtain ⟨hnd, hhum, hsrc⟩ := groupByAuthor_inv attrs
  unfold buildFileAttestation at hg
  simp only at hg
  split at hg
  · cases hg
  · cases hg
    simp only
    -- facts about one entry
    have hentry : ∀ e ∈ ((groupByAuthor attrs).map (fun kv => (⟨kv.1, mergeRanges kv.2⟩ : Entry))).filter
        (fun e => !e.ranges.isEmpty),
        e.hash ≠ humanId ∧ sortedDisjoint e.ranges = true ∧ (∀ r ∈ e.ranges, lo r ≤ hi r) ∧ e.ranges ≠ [] ∧
        ∀ x, coversAny e.ranges x = true → 1 ≤ x ∧ x ≤ n ∧ f x = some e.hash := by
      intro e he
      simp only [List.mem_filter, List.mem_map] at he
      obtain ⟨⟨kv, hkv, rfl⟩, hne⟩ := he
      have hp : ∀ p ∈ kv.2, p.1 ≤ p.2 ∧ p.2 ≤ u32Max := by
        intro p hp
        obtain ⟨la, hla, _, rfl⟩ := hsrc kv hkv p hp
        obtain ⟨a1, _, a3, _⟩ := hattrs la hla
        exact ⟨a1, Nat.le_trans a3 hn⟩
      obtain ⟨s1, s2⟩ := mergeRanges_sortedDisjoint kv.2 hp
      refine ⟨hhum kv.1 (List.mem_map.2 ⟨kv, hkv, rfl⟩), s1, s2, ?_, ?_⟩
      · intro h; rw [h] at hne; simp at hne
      · intro x hx
        obtain ⟨p, hp, hx1, hx2⟩ := mergeRanges_sound kv.2 x hx
        obtain ⟨la, hla, hau, rfl⟩ := hsrc kv hkv p hp
        obtain ⟨_, a2, a3, a4⟩ := hattrs la hla
        simp only at hx1 hx2
        exact ⟨by omega, by omega, by rw [a4 x hx1 hx2, hau]⟩
    refine ⟨trivial, ?_, ?_⟩
    · intro e he
      obtain ⟨q1, q2, q3, q4, q5⟩ := hentry e he
      refine ⟨q1, ?_, q2, ?_⟩
      · rw [List.all_eq_true]
        intro r hr
        have hle := q3 r hr
        have hlo := q5 _ (coversAny_of_mem e.ranges r _ hr (covers_lo r hle))
        have hhi := q5 _ (coversAny_of_mem e.ranges r _ hr (covers_hi r hle))
        simp only [rangeWF, Bool.and_eq_true, decide_eq_true_eq]
        exact ⟨⟨hlo.1, hle⟩, hhi.2.1⟩
      · cases hr : e.ranges with
        | nil => exact absurd hr q4
        | cons r rs =>
          have hmem : r ∈ e.ranges := by rw [hr]; simp
          have := q5 _ (coversAny_of_mem e.ranges r _ hmem (covers_lo r (q3 r hmem)))
          exact ⟨lo r, this⟩
    · rw [pairwiseDisjoint_iff, List.pairwise_flatMap]
      constructor
      · intro e he
        obtain ⟨_, q2, q3, _, _⟩ := hentry e he
        have hp := sortedDisjoint_pairwise e.ranges q2 q3
        refine List.Pairwise.imp ?_ hp
        intro a b hab
        simp [disjoint, hab]
      · have hpw : (groupByAuthor attrs).Pairwise (fun a b => a.1 ≠ b.1) := List.pairwise_map.1 hnd
        have hpw2 : ((groupByAuthor attrs).map (fun kv => (⟨kv.1, mergeRanges kv.2⟩ : Entry))).Pairwise
            (fun a b => a.hash ≠ b.hash) := List.pairwise_map.2 hpw
        have hpw3 := hpw2.filter (fun e => !e.ranges.isEmpty)
        refine List.Pairwise.imp_of_mem ?_ hpw3
        intro e1 e2 he1 he2 hne r1 hr1 r2 hr2
        obtain ⟨_, _, a3, _, a5⟩ := hentry e1 he1
        obtain ⟨_, _, b3, _, b5⟩ := hentry e2 he2
        apply disjoint_of_no_common r1 r2 (a3 r1 hr1) (b3 r2 hr2)
        intro x ⟨c1, c2⟩
        have f1 := (a5 x (coversAny_of_mem _ r1 x hr1 c1)).2.2
        have f2 := (b5 x (coversAny_of_mem _ r2 x hr2 c2)).2.2
        rw [f1] at f2
        exact hne (Option.some.inj f2)

end GitAi.NotesTree

namespace GitAi.SquashNote
open GitAi GitAi.NoteFormat GitAi.NotesTree

/-! ### `lineRuns` -/

theorem getElem?_cons_shift {α} (a : α) (rest : List α) (n k : Nat) (hk : n + 1 ≤ k) :
    rest[k - (n + 1)]? = (a :: rest)[k - n]? := by
  have : k - n = (k - (n + 1)) + 1 := by omega
  rw [this, List.getElem?_cons_succ]

/-- every run is well-oriented and each of its lines has the run's author: either it belongs to
    the run that was open on entry (`cur`), or it is a line of `l` with that author -/
theorem lineRuns_sound (l : List (Option Str)) : ∀ (n : Nat) (cur : Option (Str × Nat)),
    (∀ a st, cur = some (a, st) → st < n) →
    ∀ r ∈ lineRuns n cur l, r.start ≤ r.stop ∧ ∀ x, r.start ≤ x → x ≤ r.stop →
      (∃ st, cur = some (r.author, st) ∧ st ≤ x ∧ x < n) ∨ (n ≤ x ∧ l[x - n]? = some (some r.author)) := by
  induction l with
  | nil =>
    intro n cur hc r hr
    cases cur with
    | none => simp [lineRuns] at hr
    | some c =>
      obtain ⟨a, st⟩ := c
      have := hc a st rfl
      simp only [lineRuns, List.mem_singleton] at hr
      subst hr
      exact ⟨by simp only; omega, fun x h1 h2 => Or.inl ⟨st, rfl, h1, by simp only at h2; omega⟩⟩
  | cons o rest ih =>
    intro n cur hc r hr
    -- a run produced by the recursive call on `rest` with nothing open
    have fromNone : ∀ r ∈ lineRuns (n + 1) none rest, r.start ≤ r.stop ∧ ∀ x, r.start ≤ x → x ≤ r.stop →
        (n ≤ x ∧ (o :: rest)[x - n]? = some (some r.author)) := by
      intro r hr
      obtain ⟨h1, h2⟩ := ih (n + 1) none (by intro a st h; cases h) r hr
      refine ⟨h1, fun x a b => ?_⟩
      rcases h2 x a b with ⟨st, hst, _⟩ | ⟨c1, c2⟩
      · cases hst
      · exact ⟨by omega, by rw [← getElem?_cons_shift o rest n x c1]; exact c2⟩
    -- … and with a run opened at line `n` by author `b` (= the head of the list)
    have fromOpen : ∀ b, o = some b → ∀ r ∈ lineRuns (n + 1) (some (b, n)) rest,
        r.start ≤ r.stop ∧ ∀ x, r.start ≤ x → x ≤ r.stop →
        (n ≤ x ∧ (o :: rest)[x - n]? = some (some r.author)) := by
      intro b hb r hr
      obtain ⟨h1, h2⟩ := ih (n + 1) (some (b, n)) (by intro a st h; cases h; omega) r hr
      refine ⟨h1, fun x a b' => ?_⟩
      rcases h2 x a b' with ⟨st, hst, c1, c2⟩ | ⟨c1, c2⟩
      · simp only [Option.some.injEq, Prod.mk.injEq] at hst
        obtain ⟨rfl, rfl⟩ := hst
        have : x = n := by omega
        subst this
        simp [hb]
      · exact ⟨by omega, by rw [← getElem?_cons_shift o rest n x c1]; exact c2⟩
    have closed : ∀ a st, cur = some (a, st) → (⟨st, n - 1, a⟩ : LineAttr).start ≤ (⟨st, n - 1, a⟩ : LineAttr).stop ∧
        ∀ x, st ≤ x → x ≤ n - 1 → ∃ st', cur = some (a, st') ∧ st' ≤ x ∧ x < n := by
      intro a st h
      have := hc a st h
      exact ⟨by simp only; omega, fun x h1 h2 => ⟨st, h, h1, by omega⟩⟩
    cases cur with
    | none =>
      cases o with
      | none =>
        simp only [lineRuns] at hr
        obtain ⟨h1, h2⟩ := fromNone r hr
        exact ⟨h1, fun x a b => Or.inr (h2 x a b)⟩
      | some b =>
        simp only [lineRuns] at hr
        obtain ⟨h1, h2⟩ := fromOpen b rfl r hr
        exact ⟨h1, fun x a b => Or.inr (h2 x a b)⟩
    | some c =>
      obtain ⟨a, st⟩ := c
      obtain ⟨k1, k2⟩ := closed a st rfl
      cases o with
      | none =>
        simp only [lineRuns, List.mem_cons] at hr
        rcases hr with rfl | hr
        · exact ⟨k1, fun x h1 h2 => Or.inl (k2 x h1 h2)⟩
        · obtain ⟨h1, h2⟩ := fromNone r hr
          exact ⟨h1, fun x a b => Or.inr (h2 x a b)⟩
      | some b =>
        simp only [lineRuns] at hr
        split at hr
        · rename_i hab
          subst hab
          obtain ⟨h1, h2⟩ := ih (n + 1) (some (a, st)) (by
            intro a' st' h; cases h; have := hc a st rfl; omega) r hr
          refine ⟨h1, fun x p q => ?_⟩
          rcases h2 x p q with ⟨st', hst, c1, c2⟩ | ⟨c1, c2⟩
          · simp only [Option.some.injEq, Prod.mk.injEq] at hst
            obtain ⟨rfl, rfl⟩ := hst
            by_cases hx : x < n
            · exact Or.inl ⟨st, rfl, c1, hx⟩
            · have : x = n := by omega
              subst this
              exact Or.inr ⟨Nat.le_refl _, by simp⟩
          · exact Or.inr ⟨by omega, by rw [← getElem?_cons_shift _ rest n x c1]; exact c2⟩
        · simp only [List.mem_cons] at hr
          rcases hr with rfl | hr
          · exact ⟨k1, fun x h1 h2 => Or.inl (k2 x h1 h2)⟩
          · obtain ⟨h1, h2⟩ := fromOpen b rfl r hr
            exact ⟨h1, fun x a b => Or.inr (h2 x a b)⟩

/-- the per-line author function the runs of a list follow -/
def authorAt (authors : List (Option Str)) (x : Nat) : Option Str := (authors[x - 1]?).bind id

theorem lineRuns_follow (authors : List (Option Str)) :
    ∀ la ∈ lineRuns 1 none authors, la.start ≤ la.stop ∧ 1 ≤ la.start ∧ la.stop ≤ authors.length ∧
      ∀ x, la.start ≤ x → x ≤ la.stop → authorAt authors x = some la.author := by
  intro la hla
  obtain ⟨h1, h2⟩ := lineRuns_sound authors 1 none (by intro a st h; cases h) la hla
  have key : ∀ x, la.start ≤ x → x ≤ la.stop → 1 ≤ x ∧ authors[x - 1]? = some (some la.author) := by
    intro x a b
    rcases h2 x a b with ⟨st, hst, _⟩ | h
    · cases hst
    · exact h
  have hs := key la.start (Nat.le_refl _) h1
  have he := key la.stop h1 (Nat.le_refl _)
  refine ⟨h1, hs.1, ?_, fun x a b => by simp [authorAt, (key x a b).2]⟩
  have : la.stop - 1 < authors.length := by
    by_cases hlt : la.stop - 1 < authors.length
    · exact hlt
    · rw [List.getElem?_eq_none (by omega)] at he; cases he.2
  omega

/-! ### paths -/

theorem mem_dedupPaths (ps : List Str) : ∀ p ∈ dedupPaths ps, p ∈ ps := by
  induction ps with
  | nil => intro p hp; cases hp
  | cons q ps ih =>
    intro p hp
    unfold dedupPaths at hp
    split at hp
    · exact List.mem_cons_of_mem _ (ih p hp)
    · rcases List.mem_cons.1 hp with rfl | hp
      · simp
      · exact List.mem_cons_of_mem _ (ih p hp)

theorem dedupPaths_nodup (ps : List Str) : (dedupPaths ps).Nodup := by
  induction ps with
  | nil => simp [dedupPaths]
  | cons q ps ih =>
    unfold dedupPaths
    split
    · exact ih
    · rename_i hc
      rw [List.nodup_cons]
      exact ⟨fun h => hc (by simpa using mem_dedupPaths ps q h), ih⟩

theorem nodup_filterMap_key {α β} (ka : α → Str) (kb : β → Str) (F : α → Option β)
    (hF : ∀ a b, F a = some b → kb b = ka a) (l : List α) (h : (l.map ka).Nodup) :
    ((l.filterMap F).map kb).Nodup := by
  induction l with
  | nil => simp
  | cons a l ih =>
    simp only [List.map_cons, List.nodup_cons] at h
    rw [List.filterMap_cons]
    cases hfa : F a with
    | none => exact ih h.2
    | some b =>
      simp only [List.map_cons, List.nodup_cons]
      refine ⟨?_, ih h.2⟩
      intro hm
      obtain ⟨b', hb', hk⟩ := List.mem_map.1 hm
      obtain ⟨a', ha', hfa'⟩ := List.mem_filterMap.1 hb'
      apply h.1
      rw [← hF a b hfa, ← hk, hF a' b' hfa']
      exact List.mem_map.2 ⟨a', ha', rfl⟩

theorem lookup_mem {β} (l : List (Str × β)) (k : Str) (v : β) (h : l.lookup k = some v) : (k, v) ∈ l := by
  induction l with
  | nil => simp at h
  | cons kv l ih =>
    obtain ⟨k0, v0⟩ := kv
    rw [List.lookup_cons] at h
    split at h
    · rename_i heq
      have : k = k0 := by simpa using heq
      cases h; simp [this]
    · exact List.mem_cons_of_mem _ (ih h)

theorem lookup_commitFacts (c : Commit) (p : Str) :
    (commitFacts c).files.lookup p = (c.files.lookup p).map (fun x => x.length) := by
  unfold commitFacts
  simp only
  induction c.files with
  | nil => rfl
  | cons kv l ih =>
    obtain ⟨k0, v0⟩ := kv
    simp only [List.map_cons, List.lookup_cons]
    split
    · rfl
    · exact ih

theorem mem_committedFiles (c : Commit) (paths : List Str) (pc : Str × Content)
    (h : pc ∈ committedFiles c paths) : c.files.lookup pc.1 = some pc.2 := by
  simp only [committedFiles, List.mem_filterMap] at h
  obtain ⟨p, _, hp⟩ := h
  cases hl : c.files.lookup p with
  | none => simp [hl] at hp
  | some x => simp [hl] at hp; subst hp; exact hl

theorem committedFiles_nodup (c : Commit) (paths : List Str) : ((committedFiles c paths).map (·.1)).Nodup := by
  unfold committedFiles
  apply nodup_filterMap_key (fun p => p) (fun pc : Str × Content => pc.1)
  · intro a b hab
    cases hl : c.files.lookup a with
    | none => simp [hl] at hab
    | some x => simp [hl] at hab; subst hab; rfl
  · simpa using dedupPaths_nodup paths

theorem filter_path_singleton (fs : List FileAtt) (h : (fs.map (·.path)).Nodup) (f : FileAtt) (hf : f ∈ fs) :
    fs.filter (fun g => g.path == f.path) = [f] := by
  induction fs with
  | nil => cases hf
  | cons g fs ih =>
    simp only [List.map_cons, List.nodup_cons] at h
    rcases List.mem_cons.1 hf with rfl | hf
    · rw [List.filter_cons]
      simp only [beq_self_eq_true, if_true]
      congr 1
      rw [List.filter_eq_nil_iff]
      intro x hx hxe
      apply h.1
      have : x.path = f.path := by simpa using hxe
      rw [← this]
      exact List.mem_map.2 ⟨x, hx, rfl⟩
    · rw [List.filter_cons]
      have hne : (g.path == f.path) = false := by
        apply Bool.eq_false_iff.2
        intro he
        apply h.1
        have : g.path = f.path := by simpa using he
        rw [this]
        exact List.mem_map.2 ⟨f, hf, rfl⟩
      rw [hne]
      exact ih h.2 hf

/-! ### authors come from the two VirtualAttributions -/

theorem lineAuthor_mem (c : Content) (as : List (Option Str)) (y : Nat) (a : Str)
    (h : lineAuthor c as y = some a) : some a ∈ as := by
  induction c generalizing as with
  | nil => simp [lineAuthor] at h
  | cons x xs ih =>
    cases as with
    | nil => simp [lineAuthor] at h
    | cons b bs =>
      simp only [lineAuthor] at h
      split at h
      · subst h; simp
      · exact List.mem_cons_of_mem _ (ih bs h)

/-- every author a VirtualAttributions names, other than `human`, has a prompt record in it -/
def PromptsOK (va : VA) : Prop :=
  ∀ pf ∈ va.files, ∀ a, some a ∈ pf.2.2 → a = humanId ∨ a ∈ va.promptKeys

theorem promptsOkB_sound (va : VA) (h : promptsOkB va = true) : PromptsOK va := by
  intro pf hpf a ha
  simp only [promptsOkB, List.all_eq_true] at h
  have := h pf hpf (some a) ha
  simpa using this

theorem carried_prompt (va : VA) (h : PromptsOK va) (p : Str) (y : Nat) (a : Str)
    (hc : carried va p y = some a) : a = humanId ∨ a ∈ va.promptKeys := by
  unfold carried at hc
  split at hc
  · rename_i c as hl
    exact h (p, (c, as)) (lookup_mem _ _ _ hl) a (lineAuthor_mem c as y a hc)
  · cases hc

theorem mergedAuthor_prompt (t s : VA) (ht : PromptsOK t) (hs : PromptsOK s) (p : Str) (y : Nat) (a : Str)
    (hm : mergedAuthor t s p y = some a) : a = humanId ∨ a ∈ t.promptKeys ++ s.promptKeys := by
  unfold mergedAuthor at hm
  split at hm
  · rename_i b hb
    cases hm
    rcases carried_prompt t ht p y a hb with h | h
    · exact Or.inl h
    · exact Or.inr (List.mem_append_left _ h)
  · rcases carried_prompt s hs p y a hm with h | h
    · exact Or.inl h
    · exact Or.inr (List.mem_append_right _ h)

/-! ### the file block of one file of the final state -/

theorem fileAttestation_wf (i : Inputs) (ht : PromptsOK i.targetVA) (hs : PromptsOK i.sourceVA)
    (p : Str) (final : Content) (hlen : final.length ≤ u32Max) (g : FileAtt)
    (hg : fileAttestation i p final = some g) :
    g.path = p ∧
    (∀ e ∈ g.entries, e.hash ≠ humanId ∧ e.ranges.all (rangeWF final.length) = true ∧
      sortedDisjoint e.ranges = true ∧ e.hash ∈ i.targetVA.promptKeys ++ i.sourceVA.promptKeys) ∧
    pairwiseDisjoint (g.entries.flatMap (fun e => e.ranges)) = true := by
  let authors := final.map (mergedAuthor i.targetVA i.sourceVA p)
  have hfollow := lineRuns_follow authors
  have hl : authors.length = final.length := by simp [authors]
  rw [hl] at hfollow
  obtain ⟨h1, h2, h3⟩ := buildFileAttestation_wf p (finalLineAttrs i p final) (authorAt authors) final.length
    hlen hfollow g hg
  refine ⟨h1, ?_, h3⟩
  intro e he
  obtain ⟨q1, q2, q3, x, _, _, hx⟩ := h2 e he
  refine ⟨q1, q2, q3, ?_⟩
  -- the author of line `x` is what one of the two VAs says about that line
  unfold authorAt at hx
  cases hget : authors[x - 1]? with
  | none => simp [hget] at hx
  | some o =>
    simp only [hget, Option.bind_some, id] at hx
    subst hx
    have hmem : some e.hash ∈ authors := List.mem_of_getElem? hget
    obtain ⟨y, _, hy⟩ := List.mem_map.1 hmem
    rcases mergedAuthor_prompt i.targetVA i.sourceVA ht hs p y e.hash hy with h | h
    · exact absurd h q1
    · exact h

/-- **the note of the squash function is well-formed against the MERGE commit** when the three
    call sites name the merge commit (full statement and comments: Props/C05.lean). -/
theorem squashNote_wf (args : Args) (i : Inputs)
    (hargs : args = Args.intended)
    (hlen : ∀ pc ∈ i.merge.files, pc.2.length ≤ u32Max)
    (ht : PromptsOK i.targetVA) (hs : PromptsOK i.sourceVA)
    (c : Commit) (note : Note) (h : squashNote args i = some (c, note)) :
    c = i.merge ∧ WF note (commitFacts i.merge) = true := by
  subst hargs
  unfold squashNote at h
  split at h
  · split at h
    · cases h
      refine ⟨rfl, ?_⟩
      simp [WF, Args.intended, pick, commitFacts]
    · cases h
  · cases h
    refine ⟨rfl, ?_⟩
    simp only [WF, Args.intended, pick, Bool.and_eq_true, List.all_eq_true, beq_iff_eq]
    refine ⟨?_, by simp [commitFacts]⟩
    intro f hf
    have hnd : ((noteFiles Args.intended i).map (·.path)).Nodup := by
      unfold noteFiles
      apply nodup_filterMap_key (fun pc : Str × Content => pc.1) (fun g : FileAtt => g.path)
      · intro pc g hg
        unfold fileAttestation buildFileAttestation at hg
        simp only at hg
        split at hg
        · cases hg
        · cases hg; rfl
      · exact committedFiles_nodup _ _
    have hf' := hf
    simp only [noteFiles, pick, List.mem_filterMap] at hf'
    obtain ⟨pc, hpc, hg⟩ := hf'
    have hlook := mem_committedFiles i.merge i.changed pc hpc
    have hl := hlen (pc.1, pc.2) (lookup_mem _ _ _ hlook)
    obtain ⟨g1, g2, g3⟩ := fileAttestation_wf i ht hs pc.1 pc.2 hl f hg
    unfold fileWF
    rw [lookup_commitFacts, g1, hlook]
    simp only [Option.map_some, Bool.and_eq_true, List.all_eq_true]
    constructor
    · intro e he
      obtain ⟨q1, q2, q3, q4⟩ := g2 e he
      simp only [entryWF, Bool.and_eq_true, q2, q3, true_and, bne_iff_ne, ne_eq]
      exact ⟨by simpa using q4, q1⟩
    · have := filter_path_singleton _ hnd f hf
      rw [g1] at this
      simp only [Args.intended] at this
      simp only [rangesOfPath, this, List.flatMap_cons, List.flatMap_nil, List.append_nil]
      exact g3

end GitAi.SquashNote
