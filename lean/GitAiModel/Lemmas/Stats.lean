/-
  Lemmas/Stats.lean — helper lemmas for property C19 (Model/Stats.lean).
-/
import GitAiModel.Model.Stats
import GitAiModel.Lemmas.Text
import GitAiModel.Lemmas.Digits
namespace GitAi.Stats
open GitAi GitAi.NoteFormat

/-! ## binary search -/

/-- Loop invariant of `binary_search_by` on a predicate that is true exactly below `k`. -/
theorem bsBase_spec (q : Nat → Bool) (n k : Nat)
    (hq : ∀ i, i < n → (q i = true ↔ i < k)) :
    ∀ fuel size base, size ≤ fuel → 1 ≤ size → base + size ≤ n → k ≤ base + size →
      (base < k ∨ base = 0) →
      bsBase q fuel size base < n ∧
      (bsBase q fuel size base < k ∨ bsBase q fuel size base = 0) ∧
      bsBase q fuel size base + (if q (bsBase q fuel size base) then 1 else 0) = k := by
  intro fuel
  induction fuel with
  | zero => intro size base h1 h2; omega
  | succ fuel ih =>
    intro size base hf h1 hn hk hb
    unfold bsBase
    by_cases hs : size ≤ 1
    · simp only [hs, if_true]
      have hsz : size = 1 := by omega
      subst hsz
      refine ⟨by omega, hb, ?_⟩
      by_cases hbk : base < k
      · have : q base = true := (hq base (by omega)).2 hbk
        simp [this]; omega
      · have : q base = false := by
          cases hqb : q base with
          | false => rfl
          | true => exact absurd ((hq base (by omega)).1 hqb) hbk
        simp [this]; omega
    · simp only [hs, if_false]
      have hhalf : 1 ≤ size / 2 := by omega
      have hhalf2 : size / 2 ≤ size - size / 2 := by omega
      by_cases hm : q (base + size / 2) = true
      · simp only [hm, if_true]
        have hlt : base + size / 2 < k := (hq _ (by omega)).1 hm
        exact ih (size - size / 2) (base + size / 2) (by omega) (by omega) (by omega) (by omega)
          (Or.inl hlt)
      · simp only [hm]
        have hge : ¬ base + size / 2 < k := fun h => hm ((hq _ (by omega)).2 h)
        exact ih (size - size / 2) base (by omega) (by omega) (by omega) (by omega) hb

theorem getD_eq_getElem (l : List Nat) (i : Nat) (h : i < l.length) : l.getD i 0 = l[i] := by
  simp [List.getD_eq_getElem?_getD, List.getElem?_eq_getElem h]

theorem count_nodup (l : List Nat) (hnd : l.Nodup) (n : Nat) :
    l.count n = if n ∈ l then 1 else 0 := by
  induction l with
  | nil => simp
  | cons x xs ih =>
    obtain ⟨hx, hxs⟩ := List.nodup_cons.1 hnd
    rw [List.count_cons, ih hxs]
    by_cases h : x = n
    · subst h; simp [hx]
    · have h' : ¬ n = x := fun e => h e.symm
      simp [h, h']

/-- ascending (not necessarily strictly) -/
def Sorted (l : List Nat) : Prop := List.Pairwise (· ≤ ·) l

/-- strictly ascending: what `sort_unstable(); dedup()` leaves -/
def StrictSorted (l : List Nat) : Prop := List.Pairwise (· < ·) l

theorem StrictSorted.sorted {l : List Nat} (h : StrictSorted l) : Sorted l :=
  List.Pairwise.imp (fun h => Nat.le_of_lt h) h

/-- on a sorted list a downward-closed predicate holds exactly on the first `countP` elements -/
theorem sorted_prefix (p : Nat → Bool) (hp : ∀ x y, x ≤ y → p y = true → p x = true) :
    ∀ (l : List Nat), Sorted l → ∀ i, i < l.length → (p (l.getD i 0) = true ↔ i < l.countP p) := by
  intro l
  induction l with
  | nil => intro _ i hi; simp at hi
  | cons x xs ih =>
    intro hs i hi
    have hs' := List.pairwise_cons.1 hs
    by_cases hx : p x = true
    · rw [List.countP_cons_of_pos hx]
      cases i with
      | zero => simp [hx]
      | succ j =>
        have := ih hs'.2 j (by simpa using hi)
        simp only [List.getD_cons_succ]
        rw [this]; omega
    · have hall : ∀ y ∈ xs, p y = false := by
        intro y hy
        cases hpy : p y with
        | false => rfl
        | true => exact absurd (hp x y (hs'.1 y hy) hpy) hx
      have hc : xs.countP p = 0 := by
        rw [List.countP_eq_zero]
        intro y hy; simp [hall y hy]
      rw [List.countP_cons_of_neg hx, hc]
      constructor
      · intro h
        cases i with
        | zero => simp at h; exact absurd h hx
        | succ j =>
          simp only [List.getD_cons_succ] at h
          have hj : j < xs.length := by simpa using hi
          have hmem : xs.getD j 0 ∈ xs := by
            rw [getD_eq_getElem _ _ hj]; exact List.getElem_mem hj
          rw [hall _ hmem] at h; cases h
      · intro h; omega

theorem partitionPoint_eq_countP (p : Nat → Bool) (hp : ∀ x y, x ≤ y → p y = true → p x = true)
    (l : List Nat) (hs : Sorted l) : partitionPoint p l = l.countP p := by
  unfold partitionPoint
  cases l with
  | nil => simp
  | cons x xs =>
    simp only [List.isEmpty_cons, Bool.false_eq_true, if_false]
    have hlen : 1 ≤ (x :: xs).length := by simp
    have hk : (x :: xs).countP p ≤ (x :: xs).length := List.countP_le_length
    have := bsBase_spec (fun i => p ((x :: xs).getD i 0)) (x :: xs).length ((x :: xs).countP p)
      (fun i hi => sorted_prefix p hp _ hs i hi) (x :: xs).length (x :: xs).length 0
      (Nat.le_refl _) hlen (by omega) (by omega) (Or.inr rfl)
    obtain ⟨_, _, h2⟩ := this
    split
    · rename_i hq; simp only [hq, if_true] at h2; exact h2
    · rename_i hq; simp only [hq] at h2; simpa using h2

/-- the index `partition_point` reads with `get_unchecked` is in range (no UB) -/
theorem bsBase_in_bounds (q : Nat → Bool) : ∀ fuel size base, size ≤ fuel → 1 ≤ size →
    bsBase q fuel size base < base + size := by
  intro fuel
  induction fuel with
  | zero => intro size base h1 h2; omega
  | succ fuel ih =>
    intro size base hf h1
    unfold bsBase
    by_cases hs : size ≤ 1
    · simp only [hs, if_true]; omega
    · simp only [hs, if_false]
      split
      · have := ih (size - size / 2) (base + size / 2) (by omega) (by omega); omega
      · have := ih (size - size / 2) base (by omega) (by omega); omega

theorem binarySearchOk_eq_contains (x : Nat) (l : List Nat) (hs : Sorted l) :
    binarySearchOk x l = l.contains x := by
  unfold binarySearchOk
  cases l with
  | nil => simp
  | cons y ys =>
    simp only [List.isEmpty_cons, Bool.false_eq_true, if_false]
    let l := y :: ys
    let p : Nat → Bool := fun v => decide (v ≤ x)
    have hp : ∀ a b, a ≤ b → p b = true → p a = true := by
      intro a b hab hb; simp only [p, decide_eq_true_eq] at hb ⊢; omega
    have hlen : 1 ≤ l.length := by simp [l]
    have hk : l.countP p ≤ l.length := List.countP_le_length
    have hpre := sorted_prefix p hp l hs
    obtain ⟨hb, hb0, h2⟩ := bsBase_spec (fun i => p (l.getD i 0)) l.length (l.countP p)
      (fun i hi => hpre i hi) l.length l.length 0
      (Nat.le_refl _) hlen (by omega) (by omega) (Or.inr rfl)
    -- name the final base
    generalize hbdef : bsBase (fun i => p (l.getD i 0)) l.length l.length 0 = b at hb hb0 h2
    have hget : ∀ i (hi : i < l.length), l.getD i 0 = l[i] := fun i hi => getD_eq_getElem _ _ hi
    have hmono : ∀ i j (hi : i < l.length) (hj : j < l.length), i ≤ j → l[i] ≤ l[j] := by
      intro i j hi hj hij
      rcases Nat.lt_or_eq_of_le hij with h | h
      · exact (List.pairwise_iff_getElem.1 hs) i j hi hj h
      · subst h; exact Nat.le_refl _
    show (l.getD b 0 == x) = l.contains x
    by_cases hmem : x ∈ l
    · have hc : l.contains x = true := by simpa using hmem
      rw [hc]
      obtain ⟨j, hj, hjx⟩ := List.getElem_of_mem hmem
      have hpj : p (l.getD j 0) = true := by rw [hget j hj, hjx]; simp [p]
      have hjk : j < l.countP p := (hpre j hj).1 hpj
      -- so countP > 0, q b holds and b = countP - 1 ≥ j
      have hqb : p (l.getD b 0) = true := by
        cases hq : p (l.getD b 0) with
        | true => rfl
        | false => rw [hq] at h2; simp at h2; omega
      simp only [hqb, if_true] at h2
      have hle : l.getD b 0 ≤ x := by simpa [p] using hqb
      have hge : x ≤ l.getD b 0 := by
        rw [hget b hb, ← hjx]; exact hmono j b hj hb (by omega)
      have : l.getD b 0 = x := by omega
      rw [this]; simp
    · have hc : l.contains x = false := by simpa using hmem
      rw [hc]
      have : l.getD b 0 ≠ x := by
        intro h
        apply hmem
        rw [← h, hget b hb]; exact List.getElem_mem hb
      simpa using this

/-! ## overlap as a count -/

theorem countP_range_split (s e : Nat) (l : List Nat) :
    l.countP (fun x => decide (x ≤ e)) + l.countP (fun x => decide (e < x) && decide (x < s)) =
    l.countP (fun x => decide (x < s)) + l.countP (fun x => decide (s ≤ x) && decide (x ≤ e)) := by
  induction l with
  | nil => simp
  | cons x xs ih =>
    simp only [List.countP_cons]
    have h3 : decide (e < x) = !decide (x ≤ e) := by
      by_cases h : x ≤ e
      · have : ¬ e < x := by omega
        simp [h, this]
      · have : e < x := by omega
        simp [h, this]
    have h4 : decide (s ≤ x) = !decide (x < s) := by
      by_cases h : x < s
      · have : ¬ s ≤ x := by omega
        simp [h, this]
      · have : s ≤ x := by omega
        simp [h, this]
    rw [h3, h4]
    by_cases h1 : x ≤ e <;> by_cases h2 : x < s <;> simp [h1, h2] <;> omega

theorem countP_false {α} (p : α → Bool) (l : List α) (h : ∀ x ∈ l, p x = false) : l.countP p = 0 := by
  rw [List.countP_eq_zero]; intro x hx; simp [h x hx]

theorem countP_diff (s e : Nat) (l : List Nat) :
    l.countP (fun x => decide (x ≤ e)) - l.countP (fun x => decide (x < s)) =
    l.countP (fun x => decide (s ≤ x) && decide (x ≤ e)) := by
  have h := countP_range_split s e l
  by_cases hse : s ≤ e + 1
  · have : l.countP (fun x => decide (e < x) && decide (x < s)) = 0 := by
      apply countP_false; intro x _; simp; omega
    omega
  · have : l.countP (fun x => decide (s ≤ x) && decide (x ≤ e)) = 0 := by
      apply countP_false; intro x _; simp; omega
    omega

/-- **`line_range_overlap_len` counts the added lines the range contains**, for strictly
    ascending `added` of fewer than 2³² elements. -/
theorem overlapLen_eq_countP (r : LineRange) (added : List Nat) (hs : StrictSorted added)
    (hlen : added.length < 4294967296) : overlapLen r added = added.countP (contains r) := by
  cases r with
  | single n =>
    simp only [overlapLen, binarySearchOk_eq_contains n added hs.sorted]
    have hnd : added.Nodup := List.Pairwise.imp (fun h => Nat.ne_of_lt h) hs
    have hcount : added.countP (contains (.single n)) = added.count n := by
      simp only [List.count]
      apply List.countP_congr
      intro x _
      simp only [contains, beq_iff_eq]
      exact ⟨fun h => h.symm, fun h => h.symm⟩
    rw [hcount]
    rw [count_nodup added hnd n]
    by_cases hm : n ∈ added <;> simp [hm]
  | range s e =>
    simp only [overlapLen]
    rw [partitionPoint_eq_countP _ (by intro a b hab hb; simp at hb ⊢; omega) added hs.sorted,
      partitionPoint_eq_countP _ (by intro a b hab hb; simp at hb ⊢; omega) added hs.sorted,
      countP_diff]
    have hle : added.countP (fun x => decide (s ≤ x) && decide (x ≤ e)) ≤ added.length :=
      List.countP_le_length
    rw [Nat.mod_eq_of_lt (by omega)]
    rfl

/-! ## `sort_unstable(); dedup()` -/

theorem mem_insertSorted (x y : Nat) (l : List Nat) : y ∈ insertSorted x l ↔ y = x ∨ y ∈ l := by
  induction l with
  | nil => simp [insertSorted]
  | cons z zs ih =>
    unfold insertSorted
    split
    · simp
    · split
      · rename_i h; subst h; simp
      · simp only [List.mem_cons, ih]
        constructor
        · rintro (h | h | h) <;> simp [h]
        · rintro (h | h | h) <;> simp [h]

theorem insertSorted_strict (x : Nat) (l : List Nat) (h : StrictSorted l) : StrictSorted (insertSorted x l) := by
  induction l with
  | nil => simp [insertSorted, StrictSorted]
  | cons z zs ih =>
    unfold StrictSorted at h ih ⊢
    obtain ⟨h1, h2⟩ := List.pairwise_cons.1 h
    unfold insertSorted
    split
    · rename_i hlt
      refine List.pairwise_cons.2 ⟨?_, h⟩
      intro y hy
      simp only [List.mem_cons] at hy
      rcases hy with rfl | hy
      · exact hlt
      · exact Nat.lt_trans hlt (h1 y hy)
    · split
      · exact h
      · refine List.pairwise_cons.2 ⟨?_, ih h2⟩
        intro y hy
        rcases (mem_insertSorted x y zs).1 hy with rfl | hy
        · omega
        · exact h1 y hy

theorem sortDedup_strict (l : List Nat) : StrictSorted (sortDedup l) := by
  induction l with
  | nil => simp [sortDedup, StrictSorted]
  | cons x xs ih => exact insertSorted_strict x _ ih

theorem mem_sortDedup (y : Nat) (l : List Nat) : y ∈ sortDedup l ↔ y ∈ l := by
  induction l with
  | nil => simp [sortDedup]
  | cons x xs ih => simp [sortDedup, mem_insertSorted, ih]

theorem insertSorted_length (x : Nat) (l : List Nat) : (insertSorted x l).length ≤ l.length + 1 := by
  induction l with
  | nil => simp [insertSorted]
  | cons z zs ih =>
    unfold insertSorted
    split
    · simp
    · split
      · simp
      · simp only [List.length_cons]; omega

theorem sortDedup_length (l : List Nat) : (sortDedup l).length ≤ l.length := by
  induction l with
  | nil => simp [sortDedup]
  | cons x xs ih =>
    have := insertSorted_length x (sortDedup xs)
    simp only [sortDedup, List.length_cons]; omega

end GitAi.Stats
