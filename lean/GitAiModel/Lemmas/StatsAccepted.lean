/-
  Lemmas/StatsAccepted.lean — `accepted_lines_from_attestations` as a sum, and the sum as the
  size of an intersection (C19).
-/
import GitAiModel.Lemmas.Stats
namespace GitAi.Stats
open GitAi GitAi.NoteFormat

/-! ## specification vocabulary -/

/-- the note lists line `l` for this file -/
def fileListed (f : FileAtt) (l : Nat) : Bool :=
  f.entries.any (fun e => e.ranges.any (fun r => contains r l))

/-- the note lists line `l` for path `p` -/
def listed (files : List FileAtt) (p : Str) (l : Nat) : Bool :=
  files.any (fun f => f.path == p && fileListed f l)

/-- number of (file, line) pairs that the commit added and the note lists -/
def intersectionCount (files : List FileAtt) (added : List (Str × List Nat)) : Nat :=
  (added.map (fun kv => kv.2.countP (listed files kv.1))).sum

/-- number of added (file, line) pairs -/
def addedCount (added : List (Str × List Nat)) : Nat := (added.map (fun kv => kv.2.length)).sum

def fileRanges (f : FileAtt) : List LineRange := f.entries.flatMap (·.ranges)

/-- no line is in two ranges of the list (positions, not values: a repeated range overlaps itself) -/
def RangesDisjoint (rs : List LineRange) : Prop :=
  List.Pairwise (fun a b => ∀ l, ¬ (contains a l = true ∧ contains b l = true)) rs

/-- the part of C05's well-formedness C19 depends on: one attestation per path, ranges of a file
    pairwise disjoint (across all its sessions) -/
structure WF (files : List FileAtt) : Prop where
  paths : (files.map (·.path)).Nodup
  disjoint : ∀ f ∈ files, RangesDisjoint (fileRanges f)

/-- what `stats_for_commit_stats` hands over: a map (distinct keys) of strictly ascending lines -/
structure AddedOk (added : List (Str × List Nat)) : Prop where
  keys : (added.map (·.1)).Nodup
  sorted : ∀ kv ∈ added, StrictSorted kv.2
  small : ∀ kv ∈ added, kv.2.length < 4294967296

/-! ## generic sums -/

theorem sum_map_add {α} (f g : α → Nat) (l : List α) :
    (l.map (fun x => f x + g x)).sum = (l.map f).sum + (l.map g).sum := by
  induction l with
  | nil => simp
  | cons x xs ih => simp only [List.map_cons, List.sum_cons, ih]; omega

theorem sum_map_zero {α} (f : α → Nat) (l : List α) (h : ∀ x ∈ l, f x = 0) : (l.map f).sum = 0 := by
  induction l with
  | nil => simp
  | cons x xs ih =>
    simp only [List.map_cons, List.sum_cons, h x (by simp), ih (fun y hy => h y (by simp [hy]))]

theorem sum_map_congr {α} (f g : α → Nat) (l : List α) (h : ∀ x ∈ l, f x = g x) :
    (l.map f).sum = (l.map g).sum := by
  induction l with
  | nil => simp
  | cons x xs ih =>
    simp only [List.map_cons, List.sum_cons, h x (by simp), ih (fun y hy => h y (by simp [hy]))]

theorem countP_or_disjoint {α} (a b : α → Bool) (l : List α)
    (h : ∀ x ∈ l, ¬ (a x = true ∧ b x = true)) :
    l.countP (fun x => a x || b x) = l.countP a + l.countP b := by
  induction l with
  | nil => simp
  | cons x xs ih =>
    have ih' := ih (fun y hy => h y (by simp [hy]))
    have hx := h x (by simp)
    simp only [List.countP_cons, ih']
    cases ha : a x <;> cases hb : b x <;> simp_all <;> omega

/-- pairwise disjoint predicates: the counts add up to the count of the union -/
theorem countP_any_disjoint (rs : List LineRange) (ls : List Nat) (hd : RangesDisjoint rs) :
    (rs.map (fun r => ls.countP (contains r))).sum = ls.countP (fun l => rs.any (fun r => contains r l)) := by
  induction rs with
  | nil => simp
  | cons r rest ih =>
    obtain ⟨h1, h2⟩ := List.pairwise_cons.1 hd
    simp only [List.map_cons, List.sum_cons, List.any_cons, ih h2]
    rw [countP_or_disjoint (fun l => contains r l) (fun l => rest.any (fun r => contains r l))]
    intro l _ ⟨ha, hb⟩
    obtain ⟨r', hr', hc⟩ := List.any_eq_true.1 hb
    exact h1 r' hr' l ⟨ha, hc⟩

/-! ## `accepted` as a plain sum -/

theorem acceptedEntries_total (ps : List (Str × Prompt)) (ls : List Nat) (es : List Entry) (acc : Accepted) :
    (acceptedEntries ps ls es acc).total = acc.total + (es.map (fun e => entryAccepted e ls)).sum := by
  induction es generalizing acc with
  | nil => simp [acceptedEntries]
  | cons e es ih =>
    unfold acceptedEntries
    simp only [List.map_cons, List.sum_cons]
    split
    · rename_i h0; rw [ih, h0]; omega
    · rw [ih]; simp only []; omega

/-- what one file contributes -/
def fileAccepted (added : List (Str × List Nat)) (f : FileAtt) : Nat :=
  match added.lookup f.path with
  | some ls => (f.entries.map (fun e => entryAccepted e ls)).sum
  | none => 0

theorem acceptedFiles_total (ps : List (Str × Prompt)) (added : List (Str × List Nat))
    (fs : List FileAtt) (acc : Accepted) :
    (acceptedFiles ps added fs acc).total = acc.total + (fs.map (fileAccepted added)).sum := by
  induction fs generalizing acc with
  | nil => simp [acceptedFiles]
  | cons f fs ih =>
    unfold acceptedFiles
    simp only [List.map_cons, List.sum_cons, fileAccepted]
    cases h : added.lookup f.path with
    | none => dsimp only; rw [ih]; omega
    | some ls => dsimp only; rw [ih, acceptedEntries_total]; omega

theorem sum_flatMap {α β} (f : α → List β) (g : β → Nat) (l : List α) :
    ((l.flatMap f).map g).sum = (l.map (fun a => ((f a).map g).sum)).sum := by
  induction l with
  | nil => simp
  | cons x xs ih => simp [List.flatMap_cons, List.sum_append, ih]

/-- a file's entries, on strictly ascending lines, under disjointness: the listed added lines -/
theorem entries_sum_eq_countP (f : FileAtt) (ls : List Nat) (hs : StrictSorted ls)
    (hlen : ls.length < 4294967296) (hd : RangesDisjoint (fileRanges f)) :
    (f.entries.map (fun e => entryAccepted e ls)).sum = ls.countP (fileListed f) := by
  have h1 : (f.entries.map (fun e => entryAccepted e ls)).sum
      = ((fileRanges f).map (fun r => ls.countP (contains r))).sum := by
    unfold fileRanges
    rw [sum_flatMap]
    apply sum_map_congr
    intro e _
    unfold entryAccepted
    apply sum_map_congr
    intro r _
    exact overlapLen_eq_countP r ls hs hlen
  rw [h1, countP_any_disjoint _ _ hd]
  apply List.countP_congr
  intro l _
  simp [fileListed, fileRanges, List.any_flatMap]

/-! ## exchanging "per file of the note" with "per file of the diff" -/

theorem lookup_as_sum (added : List (Str × List Nat)) (p : Str) (c : List Nat → Nat)
    (hk : (added.map (·.1)).Nodup) :
    (match added.lookup p with | some ls => c ls | none => 0)
      = (added.map (fun kv => if kv.1 = p then c kv.2 else 0)).sum := by
  induction added with
  | nil => simp
  | cons kv rest ih =>
    obtain ⟨k, v⟩ := kv
    simp only [List.map_cons, List.nodup_cons] at hk
    simp only [List.lookup_cons, List.map_cons, List.sum_cons]
    by_cases h : k = p
    · subst h
      have hz : (rest.map (fun kv => if kv.1 = k then c kv.2 else 0)).sum = 0 := by
        apply sum_map_zero
        intro kv hkv
        have : kv.1 ≠ k := fun e => hk.1 (by rw [← e]; exact List.mem_map_of_mem hkv)
        simp [this]
      simp [hz]
    · have hb : (p == k) = false := by
        simp only [beq_eq_false_iff_ne, ne_eq]; exact fun e => h e.symm
      simp only [hb, h, if_false, Nat.zero_add]
      exact ih hk.2

theorem listed_false_of_not_mem (fs : List FileAtt) (p : Str) (h : p ∉ fs.map (·.path)) (l : Nat) :
    listed fs p l = false := by
  unfold listed
  rw [List.any_eq_false]
  intro f hf
  have : f.path ≠ p := fun e => h (by rw [← e]; exact List.mem_map_of_mem hf)
  simp [this]

/-- the sum over the note's files of "listed lines among the added lines of that path" equals
    the sum over the diff's files of "added lines listed by the note" -/
theorem files_sum_eq_intersection (files : List FileAtt) (added : List (Str × List Nat))
    (hp : (files.map (·.path)).Nodup) (hk : (added.map (·.1)).Nodup) :
    (files.map (fun f => match added.lookup f.path with
        | some ls => ls.countP (fileListed f) | none => 0)).sum
      = intersectionCount files added := by
  unfold intersectionCount
  induction files with
  | nil =>
    simp only [List.map_nil, List.sum_nil]
    symm; apply sum_map_zero
    intro kv _; apply countP_false; intro l _; simp [listed]
  | cons f fs ih =>
    simp only [List.map_cons, List.nodup_cons] at hp
    simp only [List.map_cons, List.sum_cons, ih hp.2]
    rw [lookup_as_sum added f.path (fun ls => ls.countP (fileListed f)) hk, ← sum_map_add]
    apply sum_map_congr
    intro kv _
    have hl : ∀ l, listed (f :: fs) kv.1 l = ((f.path == kv.1 && fileListed f l) || listed fs kv.1 l) := by
      intro l; simp [listed]
    have hcp : kv.2.countP (listed (f :: fs) kv.1)
        = kv.2.countP (fun l => (f.path == kv.1 && fileListed f l) || listed fs kv.1 l) :=
      List.countP_congr (fun l _ => by rw [hl l])
    rw [hcp]
    by_cases h : kv.1 = f.path
    · have hno : ∀ l, listed fs kv.1 l = false := by
        intro l; apply listed_false_of_not_mem; rw [h]; exact hp.1
      rw [countP_or_disjoint (fun l => f.path == kv.1 && fileListed f l) (fun l => listed fs kv.1 l)]
      · simp only [h, if_true]
        congr 1
        apply List.countP_congr
        intro l _; simp
      · intro l _ ⟨_, hb⟩; rw [hno l] at hb; cases hb
    · have hb : (f.path == kv.1) = false := by
        simp only [beq_eq_false_iff_ne, ne_eq]; exact fun e => h e.symm
      simp only [h, if_false, Nat.zero_add]
      apply List.countP_congr
      intro l _; simp [hb]

theorem lookup_mem (added : List (Str × List Nat)) (p : Str) (ls : List Nat)
    (h : added.lookup p = some ls) : (p, ls) ∈ added := by
  induction added with
  | nil => simp at h
  | cons kv rest ih =>
    obtain ⟨k, v⟩ := kv
    simp only [List.lookup_cons] at h
    split at h
    · rename_i hb
      have : p = k := by simpa using hb
      cases h; simp [this]
    · simp [ih h]

/-- **accepted = |added ∩ listed|** (total of `accepted_lines_from_attestations`). -/
theorem accepted_total_eq_intersection (lg : Log) (added : List (Str × List Nat))
    (hwf : WF lg.files) (ha : AddedOk added) :
    (accepted (some lg) added false).total = intersectionCount lg.files added := by
  simp only [accepted, Bool.false_eq_true, if_false]
  rw [acceptedFiles_total, Nat.zero_add, ← files_sum_eq_intersection lg.files added hwf.paths ha.keys]
  apply sum_map_congr
  intro f hf
  unfold fileAccepted
  split
  · rename_i ls hlk
    have hm := lookup_mem added f.path ls hlk
    exact entries_sum_eq_countP f ls (ha.sorted _ hm) (ha.small _ hm) (hwf.disjoint f hf)
  · rfl

theorem intersection_le_added (files : List FileAtt) (added : List (Str × List Nat)) :
    intersectionCount files added ≤ addedCount added := by
  unfold intersectionCount addedCount
  induction added with
  | nil => simp
  | cons kv rest ih =>
    simp only [List.map_cons, List.sum_cons]
    have : kv.2.countP (listed files kv.1) ≤ kv.2.length := List.countP_le_length
    omega

/-! ## per-tool accounting of accepted lines -/

def toolSum (m : List (Str × Nat)) : Nat := (m.map (·.2)).sum

theorem toolSum_upsert (k : Str) (a : Nat) (m : List (Str × Nat)) :
    toolSum (upsert k (· + a) 0 m) = toolSum m + a := by
  induction m with
  | nil => simp [upsert, toolSum]
  | cons kv rest ih =>
    obtain ⟨k', v⟩ := kv
    unfold upsert
    split
    · simp only [toolSum, List.map_cons, List.sum_cons]; omega
    · split
      · simp only [toolSum, List.map_cons, List.sum_cons]; omega
      · simp only [toolSum, List.map_cons, List.sum_cons] at ih ⊢; omega

/-- accepted lines of entries whose hash has no prompt record -/
def missingEntries (ps : List (Str × Prompt)) (ls : List Nat) (es : List Entry) : Nat :=
  (es.map (fun e => match ps.lookup e.hash with
    | some _ => 0
    | none => entryAccepted e ls)).sum

def missingFile (ps : List (Str × Prompt)) (added : List (Str × List Nat)) (f : FileAtt) : Nat :=
  match added.lookup f.path with
  | some ls => missingEntries ps ls f.entries
  | none => 0

theorem acceptedEntries_tools (ps : List (Str × Prompt)) (ls : List Nat) (es : List Entry) (acc : Accepted) :
    toolSum (acceptedEntries ps ls es acc).perTool + missingEntries ps ls es
      = toolSum acc.perTool + (es.map (fun e => entryAccepted e ls)).sum := by
  induction es generalizing acc with
  | nil => simp [acceptedEntries, missingEntries]
  | cons e es ih =>
    unfold acceptedEntries
    simp only [missingEntries, List.map_cons, List.sum_cons] at ih ⊢
    split
    · rename_i h0
      have := ih acc
      rw [h0]
      cases hl : ps.lookup e.hash <;> simp only [] <;> omega
    · cases hl : ps.lookup e.hash with
      | none =>
        have := ih ⟨acc.total + entryAccepted e ls, acc.perTool⟩
        simp only [] at this ⊢
        omega
      | some p =>
        have := ih ⟨acc.total + entryAccepted e ls, upsert p.key (· + entryAccepted e ls) 0 acc.perTool⟩
        simp only [toolSum_upsert] at this ⊢
        omega

theorem acceptedFiles_tools (ps : List (Str × Prompt)) (added : List (Str × List Nat))
    (fs : List FileAtt) (acc : Accepted) :
    toolSum (acceptedFiles ps added fs acc).perTool + (fs.map (missingFile ps added)).sum
      = toolSum acc.perTool + (fs.map (fileAccepted added)).sum := by
  induction fs generalizing acc with
  | nil => simp [acceptedFiles]
  | cons f fs ih =>
    unfold acceptedFiles
    simp only [List.map_cons, List.sum_cons, fileAccepted, missingFile]
    split
    · rename_i h
      have := ih acc
      rw [h]; simp only []; omega
    · rename_i ls h
      have h1 := ih (acceptedEntries ps ls f.entries acc)
      have h2 := acceptedEntries_tools ps ls f.entries acc
      rw [h]; simp only []; omega

/-- accepted lines credited to no tool -/
def missingCount (lg : Log) (added : List (Str × List Nat)) : Nat :=
  (lg.files.map (missingFile lg.prompts added)).sum

/-- **exact accounting**: per-tool accepted + accepted lines of sessions without a prompt record
    = accepted -/
theorem accepted_tools_accounting (lg : Log) (added : List (Str × List Nat)) :
    toolSum (accepted (some lg) added false).perTool + missingCount lg added
      = (accepted (some lg) added false).total := by
  simp only [accepted, Bool.false_eq_true, if_false]
  have h1 := acceptedFiles_tools lg.prompts added lg.files ⟨0, []⟩
  have h2 := acceptedFiles_total lg.prompts added lg.files ⟨0, []⟩
  simp only [toolSum, List.map_nil, List.sum_nil, Nat.zero_add] at h1 h2
  unfold missingCount toolSum
  omega

theorem missingCount_zero_of_prompts (lg : Log) (added : List (Str × List Nat))
    (h : ∀ f ∈ lg.files, ∀ e ∈ f.entries, lg.prompts.lookup e.hash ≠ none) :
    missingCount lg added = 0 := by
  unfold missingCount
  apply sum_map_zero
  intro f hf
  unfold missingFile
  split
  · unfold missingEntries
    apply sum_map_zero
    intro e he
    have := h f hf e he
    cases hl : lg.prompts.lookup e.hash with
    | none => exact absurd hl this
    | some p => rfl
  · rfl

end GitAi.Stats
