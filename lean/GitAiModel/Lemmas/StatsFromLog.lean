/-
  Lemmas/StatsFromLog.lean — sums over the per-tool map of `stats_from_authorship_log` (C19).
-/
import GitAiModel.Lemmas.StatsAccepted
namespace GitAi.Stats
open GitAi GitAi.NoteFormat

/-- sum of one field over the per-tool map -/
def sumF (g : ToolStats → Nat) (m : List (Str × ToolStats)) : Nat := (m.map (fun kv => g kv.2)).sum

@[simp] theorem sumF_nil (g : ToolStats → Nat) : sumF g [] = 0 := rfl
@[simp] theorem sumF_cons (g : ToolStats → Nat) (kv : Str × ToolStats) (m : List (Str × ToolStats)) :
    sumF g (kv :: m) = g kv.2 + sumF g m := by simp [sumF]

/-- `upsert` with an update that adds `δ` to field `g` (and `g` of the default is 0) -/
theorem sumF_upsert (g : ToolStats → Nat) (f : ToolStats → ToolStats) (δ : Nat) (k : Str)
    (hf : ∀ t, g (f t) = g t + δ) (h0 : g {} = 0) (m : List (Str × ToolStats)) :
    sumF g (upsert k f {} m) = sumF g m + δ := by
  induction m with
  | nil => simp [upsert, hf, h0]
  | cons kv rest ih =>
    obtain ⟨k', v⟩ := kv
    unfold upsert
    split
    · simp only [sumF_cons, hf]; omega
    · split
      · simp only [sumF_cons, hf, h0]; omega
      · simp only [sumF_cons, ih]; omega

/-- entries of the map after `upsert`: old ones, or the touched one -/
theorem mem_upsert {α} (k : Str) (f : α → α) (d : α) (m : List (Str × α)) (kv : Str × α)
    (h : kv ∈ upsert k f d m) : kv ∈ m ∨ (kv.1 = k ∧ (kv.2 = f d ∨ ∃ v, (k, v) ∈ m ∧ kv.2 = f v)) := by
  induction m with
  | nil =>
    simp only [upsert, List.mem_singleton] at h
    subst h; right; simp
  | cons x rest ih =>
    obtain ⟨k', v⟩ := x
    unfold upsert at h
    split at h
    · rename_i hk
      simp only [List.mem_cons] at h
      rcases h with h | h
      · subst h; right; subst hk; exact ⟨rfl, Or.inr ⟨v, by simp, rfl⟩⟩
      · left; simp [h]
    · split at h
      · simp only [List.mem_cons] at h
        rcases h with h | h | h
        · subst h; right; simp
        · left; simp [h]
        · left; simp [h]
      · simp only [List.mem_cons] at h
        rcases h with h | h
        · left; simp [h]
        · rcases ih h with h' | ⟨h1, h2⟩
          · left; simp [h']
          · right
            refine ⟨h1, ?_⟩
            rcases h2 with h2 | ⟨w, hw, h2⟩
            · exact Or.inl h2
            · exact Or.inr ⟨w, by simp [hw], h2⟩

/-! ### first loop -/

def sumP (g : Prompt → Nat) (ps : List (Str × Prompt)) : Nat := (ps.map (fun kv => g kv.2)).sum

theorem addPrompts_fields (ps : List (Str × Prompt)) (s : CommitStats) :
    (addPrompts ps s).totalAdd = s.totalAdd + sumP Prompt.totalAdd ps ∧
    (addPrompts ps s).totalDel = s.totalDel + sumP Prompt.totalDel ps ∧
    (addPrompts ps s).mixed = s.mixed + sumP Prompt.overriden ps ∧
    (addPrompts ps s).aiAccepted = s.aiAccepted ∧
    (addPrompts ps s).gitAdded = s.gitAdded ∧
    (addPrompts ps s).gitDeleted = s.gitDeleted ∧
    sumF ToolStats.totalAdd (addPrompts ps s).tools = sumF ToolStats.totalAdd s.tools + sumP Prompt.totalAdd ps ∧
    sumF ToolStats.totalDel (addPrompts ps s).tools = sumF ToolStats.totalDel s.tools + sumP Prompt.totalDel ps ∧
    sumF ToolStats.mixed (addPrompts ps s).tools = sumF ToolStats.mixed s.tools + sumP Prompt.overriden ps := by
  induction ps generalizing s with
  | nil => simp [addPrompts, sumP]
  | cons kv ps ih =>
    obtain ⟨h, p⟩ := kv
    unfold addPrompts
    have := ih { s with
      totalAdd := s.totalAdd + p.totalAdd
      totalDel := s.totalDel + p.totalDel
      mixed := s.mixed + p.overriden
      tools := upsert p.key (fun t => { t with
        totalAdd := t.totalAdd + p.totalAdd, totalDel := t.totalDel + p.totalDel,
        mixed := t.mixed + p.overriden }) {} s.tools }
    obtain ⟨h1, h2, h3, h4, h5, h6, h7, h8, h9⟩ := this
    simp only [sumP, List.map_cons, List.sum_cons] at *
    rw [sumF_upsert ToolStats.totalAdd _ p.totalAdd _ (fun t => rfl) rfl] at h7
    rw [sumF_upsert ToolStats.totalDel _ p.totalDel _ (fun t => rfl) rfl] at h8
    rw [sumF_upsert ToolStats.mixed _ p.overriden _ (fun t => rfl) rfl] at h9
    refine ⟨?_, ?_, ?_, h4, h5, h6, ?_, ?_, ?_⟩ <;> omega

theorem addPrompts_accepted_zero (ps : List (Str × Prompt)) (s : CommitStats)
    (h : ∀ kv ∈ s.tools, kv.2.aiAccepted = 0) : ∀ kv ∈ (addPrompts ps s).tools, kv.2.aiAccepted = 0 := by
  induction ps generalizing s with
  | nil => simpa [addPrompts] using h
  | cons kv ps ih =>
    obtain ⟨hh, p⟩ := kv
    unfold addPrompts
    apply ih
    intro kv hkv
    rcases mem_upsert _ _ _ _ _ hkv with h' | ⟨_, h' | ⟨v, hv, h'⟩⟩
    · exact h kv h'
    · rw [h']
    · rw [h']; exact h (p.key, v) hv

/-! ### per-tool cap -/

theorem capTools_mixed (r : Nat) (m : List (Str × ToolStats)) :
    sumF ToolStats.mixed (capTools r m) = min r (sumF ToolStats.mixed m) := by
  induction m generalizing r with
  | nil => simp [capTools]
  | cons kv rest ih =>
    obtain ⟨k, t⟩ := kv
    simp only [capTools, sumF_cons, ih]
    omega

theorem capTools_other (g : ToolStats → Nat) (hg : ∀ t m, g { t with mixed := m } = g t)
    (r : Nat) (m : List (Str × ToolStats)) : sumF g (capTools r m) = sumF g m := by
  induction m generalizing r with
  | nil => simp [capTools]
  | cons kv rest ih =>
    obtain ⟨k, t⟩ := kv
    simp only [capTools, sumF_cons, ih, hg]

theorem capTools_mem (r : Nat) (m : List (Str × ToolStats)) (kv : Str × ToolStats)
    (h : kv ∈ capTools r m) : ∃ t, (kv.1, t) ∈ m ∧ kv.2.aiAccepted = t.aiAccepted ∧ kv.2.mixed ≤ t.mixed := by
  induction m generalizing r with
  | nil => simp [capTools] at h
  | cons x rest ih =>
    obtain ⟨k, t⟩ := x
    simp only [capTools, List.mem_cons] at h
    rcases h with h | h
    · subst h; exact ⟨t, by simp, rfl, Nat.min_le_left _ _⟩
    · obtain ⟨t', ht', h2⟩ := ih _ h
      exact ⟨t', by simp [ht'], h2⟩

/-! ### accepted counts per tool -/

theorem setAccepted_other (g : ToolStats → Nat) (hg : ∀ t a, g { t with aiAccepted := a } = g t)
    (h0 : g {} = 0) (by_ : List (Str × Nat)) (m : List (Str × ToolStats)) :
    sumF g (setAccepted by_ m) = sumF g m := by
  induction by_ generalizing m with
  | nil => rfl
  | cons ka rest ih =>
    obtain ⟨k, a⟩ := ka
    unfold setAccepted
    rw [ih, sumF_upsert g _ 0 k (fun t => by simp [hg]) h0]
    rfl

/-- setting key `k` when every entry with key `k` holds 0 adds `a` -/
theorem sumF_upsert_set (k : Str) (a : Nat) (m : List (Str × ToolStats))
    (hz : ∀ kv ∈ m, kv.1 = k → kv.2.aiAccepted = 0) :
    sumF ToolStats.aiAccepted (upsert k (fun t => { t with aiAccepted := a }) {} m)
      = sumF ToolStats.aiAccepted m + a := by
  induction m with
  | nil => simp [upsert]
  | cons kv rest ih =>
    obtain ⟨k', v⟩ := kv
    unfold upsert
    split
    · rename_i hk
      have : v.aiAccepted = 0 := hz (k', v) (by simp) hk.symm
      simp only [sumF_cons, this]; omega
    · split
      · simp only [sumF_cons]; omega
      · simp only [sumF_cons, ih (fun kv hkv => hz kv (by simp [hkv]))]; omega

theorem setAccepted_sum (by_ : List (Str × Nat)) (hk : (by_.map (·.1)).Nodup)
    (m : List (Str × ToolStats))
    (hz : ∀ kv ∈ m, kv.1 ∈ by_.map (·.1) → kv.2.aiAccepted = 0) :
    sumF ToolStats.aiAccepted (setAccepted by_ m) = sumF ToolStats.aiAccepted m + toolSum by_ := by
  induction by_ generalizing m with
  | nil => simp [setAccepted, toolSum]
  | cons ka rest ih =>
    obtain ⟨k, a⟩ := ka
    simp only [List.map_cons, List.nodup_cons] at hk
    unfold setAccepted
    rw [ih hk.2, sumF_upsert_set k a m (fun kv hkv he => hz kv hkv (by simp [he]))]
    · simp only [toolSum, List.map_cons, List.sum_cons]; omega
    · intro kv hkv hin
      rcases mem_upsert _ _ _ _ _ hkv with h' | ⟨h1, _⟩
      · exact hz kv h' (by simp [hin])
      · exact absurd (h1 ▸ hin) hk.1

/-! ### last loop -/

theorem sumF_aiAdditions (m : List (Str × ToolStats)) :
    sumF ToolStats.aiAdditions
      (m.map (fun kv => (kv.1, { kv.2 with aiAdditions := kv.2.aiAccepted + kv.2.mixed })))
      = sumF ToolStats.aiAccepted m + sumF ToolStats.mixed m := by
  induction m with
  | nil => rfl
  | cons kv rest ih => simp only [List.map_cons, sumF_cons, ih]; omega

theorem sumF_map_other (g : ToolStats → Nat) (hg : ∀ t a, g { t with aiAdditions := a } = g t)
    (m : List (Str × ToolStats)) :
    sumF g (m.map (fun kv => (kv.1, { kv.2 with aiAdditions := kv.2.aiAccepted + kv.2.mixed }))) = sumF g m := by
  induction m with
  | nil => rfl
  | cons kv rest ih => simp only [List.map_cons, sumF_cons, ih, hg]

theorem le_sumF (g : ToolStats → Nat) (m : List (Str × ToolStats)) (kv : Str × ToolStats) (h : kv ∈ m) :
    g kv.2 ≤ sumF g m := by
  induction m with
  | nil => simp at h
  | cons x rest ih =>
    simp only [List.mem_cons] at h
    rcases h with h | h
    · subst h; simp only [sumF_cons]; omega
    · have := ih h; simp only [sumF_cons]; omega

end GitAi.Stats
