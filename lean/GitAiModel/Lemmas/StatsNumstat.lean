/-
  Lemmas/StatsNumstat.lean — git's numstat rendering parsed back by `get_git_diff_stats` (C19).
-/
import GitAiModel.Lemmas.Stats
import GitAiModel.Lemmas.StatsUnescape
import GitAiModel.Lemmas.NoteFormat
namespace GitAi.Stats
open GitAi GitAi.NoteFormat

/-! ## C-quoted names contain no raw tab / newline / carriage return -/

def ctl (c : Char) : Prop := c = '\t' ∨ c = '\n' ∨ c = '\r'

instance (c : Char) : Decidable (ctl c) := by unfold ctl; infer_instance

theorem printable_not_ctl : ∀ b : Fin 127, 32 ≤ b.val → ¬ ctl (Char.ofNat b.val) := by decide

theorem octDigit_not_ctl (n : Nat) : ¬ ctl (octDigit n) := by
  have h : ∀ k : Fin 8, ¬ ctl (Char.ofNat (48 + k.val)) := by decide
  exact h ⟨n % 8, Nat.mod_lt _ (by omega)⟩

theorem quoteByte_clean (b : Nat) : ∀ c ∈ quoteByte b, ¬ ctl c := by
  intro c hc
  unfold quoteByte at hc
  repeat' split at hc
  all_goals
    simp only [List.mem_cons, List.mem_nil_iff, or_false] at hc
  all_goals first
    | (rcases hc with rfl | rfl; all_goals decide)
    | (rcases hc with rfl | rfl | rfl | rfl
       · decide
       · exact octDigit_not_ctl _
       · exact octDigit_not_ctl _
       · exact octDigit_not_ctl _)
    | (subst hc
       rename_i h1 h2 h3 h4 h5 h6 h7 h8 h9 h10
       exact printable_not_ctl ⟨b, by omega⟩ (by simp only []; omega))

theorem gitQuote_clean (path : List Nat) : ∀ c ∈ gitQuote path, ¬ ctl c := by
  intro c hc
  unfold gitQuote at hc
  split at hc
  · simp only [List.mem_cons, List.mem_append, List.mem_flatMap, List.mem_nil_iff, or_false] at hc
    rcases hc with rfl | ⟨b, _, hb⟩ | rfl
    · decide
    · exact quoteByte_clean b c hb
    · decide
  · rename_i hany
    simp only [List.mem_map] at hc
    obtain ⟨b, hb, rfl⟩ := hc
    have hnq : byteNeedsQuote b = false := by
      cases h : byteNeedsQuote b with
      | false => rfl
      | true => exact absurd (List.any_eq_true.2 ⟨b, hb, h⟩) hany
    simp only [byteNeedsQuote, Bool.or_eq_false_iff, decide_eq_false_iff_not, beq_eq_false_iff_ne] at hnq
    exact printable_not_ctl ⟨b, by omega⟩ (by simp only []; omega)

/-! ## one rendered record parses back -/

theorem natToStr_no_tab (n : Nat) : '\t' ∉ natToStr n := natToStr_not_mem n '\t' (by decide)

theorem natToStr_head_digit (n : Nat) : ∃ c rest, natToStr n = c :: rest ∧ isDigit c = true := by
  cases h : natToStr n with
  | nil => exact absurd h (natToStr_ne_nil n)
  | cons c rest =>
    refine ⟨c, rest, rfl, ?_⟩
    have := natToStr_all_isDigit n
    rw [h] at this
    simp only [List.all_cons, Bool.and_eq_true] at this
    exact this.1

theorem isDigit_not_ws (c : Char) (h : isDigit c = true) : isWhitespace c = false := by
  simp only [isDigit, Bool.and_eq_true, decide_eq_true_eq] at h
  have h1 : 48 ≤ c.toNat := h.1
  have h2 : c.toNat ≤ 57 := h.2
  unfold isWhitespace
  simp only [Bool.or_eq_false_iff, Bool.and_eq_false_iff, decide_eq_false_iff_not]
  refine ⟨⟨⟨⟨⟨⟨⟨⟨⟨⟨?_, ?_⟩, ?_⟩, ?_⟩, ?_⟩, ?_⟩, ?_⟩, ?_⟩, ?_⟩, ?_⟩, ?_⟩ <;> omega

/-- what a record is worth: nothing when binary or ignored (the predicate sees the real path:
    the bytes as a string) -/
def recValue (ign : Str → Bool) (r : NumRec) : Nat × Nat :=
  match r.counts with
  | some (a, d) => if ign (pathStr r.path) then (0, 0) else (a, d)
  | none => (0, 0)

theorem numstatLine_renderRec (ign : Str → Bool) (r : NumRec) (hbytes : ∀ b ∈ r.path, b < 256)
    (hfit : ∀ a d, r.counts = some (a, d) → a < 4294967296 ∧ d < 4294967296) :
    numstatLine ign (renderRec r) = recValue ign r := by
  have hq : '\t' ∉ gitQuote r.path := fun h => gitQuote_clean r.path _ h (Or.inl rfl)
  cases hc : r.counts with
  | none =>
    simp only [renderRec, recValue, hc]
    simp [numstatLine, isWhitespace, isDigit, startsWithDigit]
  | some ad =>
    obtain ⟨a, d⟩ := ad
    obtain ⟨ha, hd⟩ := hfit a d hc
    simp only [renderRec, recValue, hc]
    obtain ⟨c, rest, hcr, hdig⟩ := natToStr_head_digit a
    have hsplit : splitOn '\t' (natToStr a ++ '\t' :: natToStr d ++ '\t' :: gitQuote r.path)
        = [natToStr a, natToStr d, gitQuote r.path] := by
      have : natToStr a ++ '\t' :: natToStr d ++ '\t' :: gitQuote r.path
          = natToStr a ++ '\t' :: (natToStr d ++ '\t' :: gitQuote r.path) := by simp
      rw [this, splitOn_append_sep _ _ _ (natToStr_no_tab a), splitOn_append_sep _ _ _ (natToStr_no_tab d),
        splitOn_nosep _ _ hq]
    unfold numstatLine
    rw [hsplit]
    have hws : (natToStr a ++ '\t' :: natToStr d ++ '\t' :: gitQuote r.path).all isWhitespace = false := by
      rw [hcr]; simp [isDigit_not_ws c hdig]
    have hhead : startsWithDigit (natToStr a ++ '\t' :: natToStr d ++ '\t' :: gitQuote r.path) = true := by
      rw [hcr]; simpa [startsWithDigit] using hdig
    rw [hws, hhead]
    have hdash : natToStr d ≠ ['-'] := fun e => natToStr_no_dash d (by rw [e]; simp)
    simp only [unescape_gitQuote r.path hbytes, Bool.false_eq_true, if_false, Bool.not_true, parseU32_natToStr a ha,
      parseU32_natToStr d hd, Option.getD_some, ne_eq, hdash, not_false_eq_true, if_true]

theorem renderRec_line_ok (r : NumRec) : '\n' ∉ renderRec r ∧ (renderRec r).getLast? ≠ some '\r' := by
  have hq := gitQuote_clean r.path
  have hmem : ∀ c ∈ renderRec r, c ≠ '\n' ∧ c ≠ '\r' := by
    intro c hc
    unfold renderRec at hc
    simp only [List.mem_append, List.mem_cons] at hc
    rcases hc with hc | rfl | hc
    · cases hcnt : r.counts with
      | none =>
        rw [hcnt] at hc
        simp only [List.mem_cons, List.mem_nil_iff, or_false] at hc
        rcases hc with rfl | rfl | rfl <;> decide
      | some ad =>
        obtain ⟨a, d⟩ := ad
        rw [hcnt] at hc
        simp only [List.mem_append, List.mem_cons] at hc
        rcases hc with hc | rfl | hc
        · constructor
          · intro e; subst e; exact natToStr_no_nl a hc
          · intro e; subst e; exact natToStr_not_mem a '\r' (by decide) hc
        · decide
        · constructor
          · intro e; subst e; exact natToStr_no_nl d hc
          · intro e; subst e; exact natToStr_not_mem d '\r' (by decide) hc
    · decide
    · have := hq c hc
      unfold ctl at this
      constructor
      · intro e; exact this (Or.inr (Or.inl e))
      · intro e; exact this (Or.inr (Or.inr e))
  constructor
  · intro h; exact (hmem _ h).1 rfl
  · intro h; exact (hmem _ (List.mem_of_getLast? h)).2 rfl

def sumRecs (ign : Str → Bool) : List NumRec → Nat × Nat
  | [] => (0, 0)
  | r :: rs => ((recValue ign r).1 + (sumRecs ign rs).1, (recValue ign r).2 + (sumRecs ign rs).2)

theorem numstatLines_render (ign : Str → Bool) (rs : List NumRec)
    (hbytes : ∀ r ∈ rs, ∀ b ∈ r.path, b < 256)
    (hfit : ∀ r ∈ rs, ∀ a d, r.counts = some (a, d) → a < 4294967296 ∧ d < 4294967296) :
    numstatLines ign (rs.map renderRec) = sumRecs ign rs := by
  induction rs with
  | nil => rfl
  | cons r rs ih =>
    simp only [List.map_cons, numstatLines, sumRecs]
    rw [numstatLine_renderRec ign r (hbytes r (by simp)) (hfit r (by simp)),
      ih (fun r' hr' => hbytes r' (by simp [hr'])) (fun r' hr' => hfit r' (by simp [hr']))]

theorem numstat_render (ign : Str → Bool) (rs : List NumRec)
    (hbytes : ∀ r ∈ rs, ∀ b ∈ r.path, b < 256)
    (hfit : ∀ r ∈ rs, ∀ a d, r.counts = some (a, d) → a < 4294967296 ∧ d < 4294967296) :
    numstat ign (renderNumstat rs) = sumRecs ign rs := by
  unfold numstat renderNumstat
  have h := rustLines_unlinesNl (rs.map renderRec) []
    (by intro l hl; obtain ⟨r, _, rfl⟩ := List.mem_map.1 hl; exact renderRec_line_ok r)
  simp only [List.append_nil] at h
  have h0 : rustLines [] = [] := by decide
  rw [h, h0, List.append_nil]
  exact numstatLines_render ign rs hbytes hfit

end GitAi.Stats
