/-
  Lemmas/StatsUnescape.lean — `unescape_git_path` undoes git's C-quoting (C19 numstat).
-/
import GitAiModel.Lemmas.Stats
namespace GitAi.Stats
open GitAi GitAi.NoteFormat

/-- the path as a string: what `unescape_git_path` returns for git's printing of these bytes -/
def pathStr (p : List Nat) : Str := utf8Lossy p.length p

/-! ### facts about single characters (finite checks) -/

theorem plain_char : ∀ b : Fin 127, 32 ≤ b.val → b.val ≠ 92 → b.val ≠ 34 →
    Char.ofNat b.val ≠ '\\' ∧ Char.ofNat b.val ≠ '"' ∧ (Char.ofNat b.val).toNat = b.val := by decide

theorem oct_char : ∀ k : Fin 8,
    let c := Char.ofNat (48 + k.val)
    isOct c = true ∧ isDigit c = true ∧ c.toNat - 48 = k.val ∧
    c ≠ '\\' ∧ c ≠ '"' ∧ c ≠ 'n' ∧ c ≠ 't' ∧ c ≠ 'r' ∧ c ≠ 'a' ∧ c ≠ 'b' ∧ c ≠ 'f' ∧ c ≠ 'v' := by decide

theorem octDigit_facts (n : Nat) :
    isOct (octDigit n) = true ∧ isDigit (octDigit n) = true ∧ (octDigit n).toNat - 48 = n % 8 ∧
    octDigit n ≠ '\\' ∧ octDigit n ≠ '"' ∧ octDigit n ≠ 'n' ∧ octDigit n ≠ 't' ∧ octDigit n ≠ 'r' ∧
    octDigit n ≠ 'a' ∧ octDigit n ≠ 'b' ∧ octDigit n ≠ 'f' ∧ octDigit n ≠ 'v' :=
  oct_char ⟨n % 8, Nat.mod_lt _ (by omega)⟩

/-! ### one quoted byte decodes to the byte -/

theorem unescapeInner_quoteByte (b : Nat) (hb : b < 256) (S : Str) (f : Nat) :
    unescapeInner (f + 1) (quoteByte b ++ S) = b :: unescapeInner f S := by
  unfold quoteByte
  split
  · rename_i h; subst h; simp [unescapeInner]
  split
  · rename_i h; subst h; simp [unescapeInner]
  split
  · rename_i h; subst h; simp [unescapeInner]
  split
  · rename_i h; subst h; simp [unescapeInner]
  split
  · rename_i h; subst h; simp [unescapeInner]
  split
  · rename_i h; subst h; simp [unescapeInner]
  split
  · rename_i h; subst h; simp [unescapeInner]
  split
  · rename_i h; subst h; simp [unescapeInner]
  split
  · rename_i h; subst h; simp [unescapeInner]
  split
  · -- octal
    obtain ⟨a1, a2, a3, a4, a5, a6, a7, a8, a9, a10, a11, a12⟩ := octDigit_facts (b / 64)
    obtain ⟨b1, _, b3, _⟩ := octDigit_facts (b / 8)
    obtain ⟨c1, _, c3, _⟩ := octDigit_facts b
    have htake : takeOct 3 (octDigit (b / 64) :: octDigit (b / 8) :: octDigit b :: S)
        = ([octDigit (b / 64), octDigit (b / 8), octDigit b], S) := by
      simp [takeOct, a1, b1, c1]
    have hval : octVal [octDigit (b / 64), octDigit (b / 8), octDigit b] 0 = b := by
      simp only [octVal, a3, b3, c3]; omega
    simp only [List.cons_append, List.nil_append, unescapeInner, if_true, a4, a5, a6, a7, a8, a9,
      a10, a11, a12, if_false, a2, htake, hval]
    have : ¬ 255 < b := by omega
    simp [this]
  · -- plain ASCII
    rename_i h1 h2 h3 h4 h5 h6 h7 h8 h9 h10
    obtain ⟨p1, _, p3⟩ := plain_char ⟨b, by omega⟩ (by simp only []; omega) (by simpa using h9) (by simpa using h8)
    simp only [List.cons_append, List.nil_append, unescapeInner, p1, if_false, utf8Encode, p3]
    have : b < 128 := by omega
    simp [this]

theorem unescapeInner_flatMap (p : List Nat) (hp : ∀ b ∈ p, b < 256) :
    ∀ f, (p.flatMap quoteByte).length ≤ f → unescapeInner f (p.flatMap quoteByte) = p := by
  induction p with
  | nil => intro f _; cases f <;> simp [unescapeInner]
  | cons b ps ih =>
    intro f hf
    have hq : 1 ≤ (quoteByte b).length := by
      unfold quoteByte; repeat' split
      all_goals simp
    simp only [List.flatMap_cons, List.length_append] at hf ⊢
    cases f with
    | zero => omega
    | succ f =>
      rw [unescapeInner_quoteByte b (hp b (by simp)) _ f,
        ih (fun x hx => hp x (by simp [hx])) f (by omega)]

/-! ### ASCII decodes to itself -/

theorem utf8Lossy_ascii (p : List Nat) (h : ∀ b ∈ p, b < 128) :
    ∀ f, p.length ≤ f → utf8Lossy f p = p.map Char.ofNat := by
  induction p with
  | nil => intro f _; cases f <;> simp [utf8Lossy]
  | cons b ps ih =>
    intro f hf
    cases f with
    | zero => simp at hf
    | succ f =>
      have hb : b < 128 := h b (by simp)
      simp only [utf8Lossy, hb, if_true, List.map_cons]
      rw [ih (fun x hx => h x (by simp [hx])) f (by simpa using hf)]

/-- **`unescape_git_path` inverts git's C-quoting** on every byte string. -/
theorem unescape_gitQuote (p : List Nat) (hp : ∀ b ∈ p, b < 256) :
    unescapeGitPath (gitQuote p) = pathStr p := by
  unfold gitQuote pathStr
  split
  · -- quoted
    have hcond : (decide (2 ≤ ('"' :: (p.flatMap quoteByte ++ ['"'])).length)
        && ('"' :: (p.flatMap quoteByte ++ ['"'])).head? = some '"'
        && ('"' :: (p.flatMap quoteByte ++ ['"'])).getLast? = some '"') = true := by
      have hl : ('"' :: (p.flatMap quoteByte ++ ['"'])).getLast? = some '"' := by
        have : '"' :: (p.flatMap quoteByte ++ ['"']) = ('"' :: p.flatMap quoteByte) ++ ['"'] := rfl
        rw [this, List.getLast?_concat]
      rw [hl]; simp
    unfold unescapeGitPath
    rw [if_pos hcond]
    have htd : ('"' :: (p.flatMap quoteByte ++ ['"'])).tail.dropLast = p.flatMap quoteByte := by
      simp [List.dropLast_concat]
    rw [htd, unescapeInner_flatMap p hp _ (by simp; omega)]
  · -- printed as is: all bytes are printable ASCII other than `"` and `\`
    rename_i hany
    have hall : ∀ b ∈ p, 32 ≤ b ∧ b < 127 ∧ b ≠ 34 ∧ b ≠ 92 := by
      intro b hb
      have hnq : byteNeedsQuote b = false := by
        cases h : byteNeedsQuote b with
        | false => rfl
        | true => exact absurd (List.any_eq_true.2 ⟨b, hb, h⟩) hany
      simp only [byteNeedsQuote, Bool.or_eq_false_iff, decide_eq_false_iff_not, beq_eq_false_iff_ne] at hnq
      omega
    rw [utf8Lossy_ascii p (fun b hb => by have := hall b hb; omega) _ (Nat.le_refl _)]
    unfold unescapeGitPath
    cases p with
    | nil => simp
    | cons b ps =>
      obtain ⟨h1, h2, h3, h4⟩ := hall b (by simp)
      obtain ⟨_, q2, _⟩ := plain_char ⟨b, by omega⟩ (by simp only []; omega) (by simpa using h4) (by simpa using h3)
      have q2' : Char.ofNat b ≠ '"' := q2
      simp [q2']

end GitAi.Stats
