/-
  Lemmas/Sync.lean — helper lemmas for the notes synchronisation model (property C10):
  finite maps / sets as lists, the three-way notes merge, the protocol invariant `Inv` and
  its preservation by every step.
-/
import GitAiModel.Model.Sync
namespace GitAi.Sync

/-! ## maps and sets -/

theorem get_filter_ne (m : NMap) (k k' : Oid) (h : k' ≠ k) :
    get (m.filter (fun p => !(p.1 == k))) k' = get m k' := by
  induction m with
  | nil => rfl
  | cons p m ih =>
    obtain ⟨a, b⟩ := p
    rw [List.filter_cons]
    by_cases ha : a = k
    · subst ha
      simp [get, h, ih]
    · have : (!(a == k)) = true := by simp [ha]
      simp only [this, if_true, get, ih]

theorem get_put (m : NMap) (k : Oid) (v : Note) (k' : Oid) :
    get (put m k v) k' = if k' = k then some v else get m k' := by
  unfold put
  by_cases h : k' = k
  · simp [get, h]
  · simp [get, h, get_filter_ne m k k' h]

theorem get_isSome_iff (m : NMap) (k : Oid) : (get m k).isSome = true ↔ k ∈ keys m := by
  induction m with
  | nil => simp [get, keys]
  | cons p m ih =>
    obtain ⟨a, b⟩ := p
    by_cases h : k = a
    · simp [get, keys, h]
    · simp only [get, h, if_false, ih, keys, List.map_cons, List.mem_cons, false_or]

theorem subset_iff (a b : List Nat) : subset a b = true ↔ ∀ x ∈ a, x ∈ b := by
  simp [subset, List.all_eq_true]

theorem subset_refl (a : List Nat) : subset a a = true := (subset_iff a a).2 (fun _ h => h)

theorem mem_union (a b : List Nat) (x : Nat) : x ∈ union a b ↔ x ∈ a ∨ x ∈ b := by
  by_cases hx : x ∈ a <;> simp [union, hx]

/-! ## the three-way merge -/

theorem get_filterMap_keys (ks : List Oid) (g : Oid → Option Note) (k : Oid) :
    get (ks.filterMap (fun k => (g k).map (fun v => (k, v)))) k = if k ∈ ks then g k else none := by
  induction ks with
  | nil => simp [get]
  | cons a ks ih =>
    simp only [List.filterMap_cons]
    by_cases hka : k = a
    · subst hka
      cases hg : g k with
      | none =>
        simp only [Option.map_none, ih, List.mem_cons, true_or, if_true]
        split <;> simp_all
      | some v => simp [get]
    · cases hg : g a with
      | none => simp [ih, List.mem_cons, hka]
      | some v => simp [get, hka, ih, List.mem_cons]

theorem mergeVal_none : mergeVal none none none = none := rfl

/-- lookup commutes with the merge: the merged tree is the per-object three-way rule. -/
theorem get_mergeMap (b l r : NMap) (k : Oid) :
    get (mergeMap b l r) k = mergeVal (get b k) (get l k) (get r k) := by
  unfold mergeMap
  rw [get_filterMap_keys]
  split
  · rfl
  · rename_i h
    simp only [mergeKeys, mem_union, not_or] at h
    obtain ⟨⟨hl, hr⟩, hb⟩ := h
    have e1 : get l k = none := by
      cases hh : get l k with
      | none => rfl
      | some v => exact absurd ((get_isSome_iff l k).1 (by simp [hh])) hl
    have e2 : get r k = none := by
      cases hh : get r k with
      | none => rfl
      | some v => exact absurd ((get_isSome_iff r k).1 (by simp [hh])) hr
    have e3 : get b k = none := by
      cases hh : get b k with
      | none => rfl
      | some v => exact absurd ((get_isSome_iff b k).1 (by simp [hh])) hb
    simp [e1, e2, e3, mergeVal]

/-- the merged value is always the local or the remote value of the same object. -/
theorem mergeVal_cases (b l r : Option Note) : mergeVal b l r = l ∨ mergeVal b l r = r := by
  unfold mergeVal
  split
  · exact Or.inl rfl
  · split
    · exact Or.inl rfl
    · split
      · exact Or.inr rfl
      · exact Or.inl rfl

theorem mergeVal_keeps_local (b l r : Option Note) (hl : l.isSome = true)
    (hnd : b.isSome = true → r.isSome = true) : (mergeVal b l r).isSome = true := by
  unfold mergeVal
  split
  · exact hl
  · split
    · exact hl
    · split
      · rename_i h; subst h; exact hnd hl
      · exact hl

theorem mergeVal_keeps_remote (b l r : Option Note) (hr : r.isSome = true)
    (hnd : b.isSome = true → l.isSome = true) : (mergeVal b l r).isSome = true := by
  unfold mergeVal
  split
  · rename_i h; subst h; exact hnd hr
  · split
    · rename_i h; subst h; exact hr
    · split
      · exact hr
      · rename_i h1 h2 h3
        cases l with
        | some x => rfl
        | none =>
          cases b with
          | none => exact absurd rfl h3
          | some y => exact hnd rfl

theorem mergeBase_spec (objs : List NRef) (l r b : NRef) (h : mergeBase objs l r = some b) :
    b ∈ objs ∧ subset b.reach l.reach = true ∧ subset b.reach r.reach = true := by
  induction objs generalizing b with
  | nil => simp [mergeBase] at h
  | cons o os ih =>
    simp only [mergeBase] at h
    split at h
    · rename_i hc
      simp only [Bool.and_eq_true] at hc
      split at h
      · rename_i b' hb'
        split at h
        · cases h
          have := ih b hb'
          exact ⟨List.mem_cons_of_mem _ this.1, this.2⟩
        · cases h
          exact ⟨List.mem_cons_self, hc.1, hc.2⟩
      · cases h
        exact ⟨List.mem_cons_self, hc.1, hc.2⟩
    · have := ih b h
      exact ⟨List.mem_cons_of_mem _ this.1, this.2⟩


/-! ## clone list updates -/

theorem clone_set_self (cs : List Clone) (i : Nat) (cl cl' : Clone) (hi : cs[i]? = some cl) :
    (cs.set i cl')[i]? = some cl' := by
  have : i < cs.length := by
    rcases Nat.lt_or_ge i cs.length with h | h
    · exact h
    · simp [List.getElem?_eq_none h] at hi
  simp [List.getElem?_set_self this]

theorem clone_set_ne (cs : List Clone) (i j : Nat) (cl' : Clone) (h : i ≠ j) :
    (cs.set i cl')[j]? = cs[j]? := List.getElem?_set_ne h

theorem clone_set_cases (cs : List Clone) (i j : Nat) (cl cl' x : Clone) (hi : cs[i]? = some cl)
    (hx : (cs.set i cl')[j]? = some x) : (j = i ∧ x = cl') ∨ (j ≠ i ∧ cs[j]? = some x) := by
  by_cases h : i = j
  · subst h
    rw [clone_set_self cs i cl cl' hi] at hx
    exact Or.inl ⟨rfl, (Option.some.inj hx).symm⟩
  · rw [clone_set_ne cs i j cl' h] at hx
    exact Or.inr ⟨fun e => h e.symm, hx⟩

/-! ## the protocol invariant -/

def hasKey (o : NRef) (k : Oid) : Prop := (get o.map k).isSome = true

/-- the keys of a notes commit are exactly the keys written by the `notes add` commits it
    reaches; every value was written for that key. -/
def Grounded (wr : List (Nat × Oid × Note)) (o : NRef) : Prop :=
  (∀ k, hasKey o k ↔ ∃ id ∈ o.reach, ∃ v, (id, k, v) ∈ wr) ∧
  (∀ k v, get o.map k = some v → ∃ id, (id, k, v) ∈ wr)

structure Inv (s : State) : Prop where
  b1 : ∀ o ∈ s.objs, ∀ id ∈ o.reach, id < s.next
  b2 : ∀ p ∈ s.wr, p.1 < s.next
  g  : ∀ o ∈ s.objs, Grounded s.wr o
  rr : ∀ r, s.remote = some r → r ∈ s.objs
  rl : ∀ (i : Nat) (cl : Clone) (l : NRef), s.clones[i]? = some cl → cl.loc = some l → l ∈ s.objs
  rt : ∀ (i : Nat) (cl : Clone) (t : NRef), s.clones[i]? = some cl → cl.trk = some t → t ∈ s.objs
  w  : ∀ e ∈ s.log, ∃ cl l, s.clones[e.2.1]? = some cl ∧ cl.loc = some l ∧ hasKey l e.1

theorem inv_init (n : Nat) : Inv (init n) := by
  constructor <;> simp [init]
  all_goals
    intro i cl
    intro l h
    have : cl ∈ List.replicate n ({} : Clone) := List.mem_of_getElem? h
    rw [List.mem_replicate] at this
    obtain ⟨_, rfl⟩ := this
    simp

/-- ancestors have fewer keys (no notes commit ever removes a key). -/
theorem keys_mono_of_subset {wr} {a b : NRef} (ha : Grounded wr a) (hb : Grounded wr b)
    (h : subset a.reach b.reach = true) (k : Oid) (hk : hasKey a k) : hasKey b k := by
  obtain ⟨id, hid, v, hv⟩ := (ha.1 k).1 hk
  exact (hb.1 k).2 ⟨id, (subset_iff _ _).1 h id hid, v, hv⟩

/-- generic preservation: clone `i` is replaced, objects are added, nothing is written. -/
theorem inv_setClone (s : State) (hs : Inv s) (i : Nat) (cl cl' : Clone)
    (hi : s.clones[i]? = some cl) (objs' : List NRef) (next' : Nat) (rhas' : List Oid)
    (hn : s.next ≤ next')
    (hobjs : ∀ o ∈ objs', o ∈ s.objs ∨ ((∀ id ∈ o.reach, id < next') ∧ Grounded s.wr o))
    (hsub : ∀ o ∈ s.objs, o ∈ objs')
    (hloc : ∀ l', cl'.loc = some l' → l' ∈ objs')
    (hkeep : ∀ l, cl.loc = some l → ∃ l', cl'.loc = some l' ∧ ∀ k, hasKey l k → hasKey l' k)
    (htrk : ∀ t, cl'.trk = some t → t ∈ objs') :
    Inv { s with clones := s.clones.set i cl', objs := objs', next := next', rhas := rhas' } := by
  constructor
  · intro o ho id hid
    rcases hobjs o ho with h | h
    · exact Nat.lt_of_lt_of_le (hs.b1 o h id hid) hn
    · exact h.1 id hid
  · intro p hp
    exact Nat.lt_of_lt_of_le (hs.b2 p hp) hn
  · intro o ho
    rcases hobjs o ho with h | h
    · exact hs.g o h
    · exact h.2
  · intro r hr
    exact hsub r (hs.rr r hr)
  · intro j x l hx hl
    rcases clone_set_cases _ _ _ cl cl' x hi hx with ⟨_, rfl⟩ | ⟨_, hx'⟩
    · exact hloc l hl
    · exact hsub l (hs.rl j x l hx' hl)
  · intro j x t hx ht
    rcases clone_set_cases _ _ _ cl cl' x hi hx with ⟨_, rfl⟩ | ⟨_, hx'⟩
    · exact htrk t ht
    · exact hsub t (hs.rt j x t hx' ht)
  · intro e he
    obtain ⟨x, l, hx, hl, hk⟩ := hs.w e he
    by_cases hj : e.2.1 = i
    · rw [hj] at hx
      rw [hi] at hx
      cases hx
      obtain ⟨l', hl', hk'⟩ := hkeep l hl
      exact ⟨cl', l', by rw [hj]; exact clone_set_self _ _ cl cl' hi, hl', hk' _ hk⟩
    · refine ⟨x, l, ?_, hl, hk⟩
      show (s.clones.set i cl')[e.2.1]? = some x
      rw [clone_set_ne _ _ _ _ (fun h => hj h.symm)]
      exact hx


/-! ## `git notes merge -s ours` on grounded objects -/

theorem baseMap_nodel {wr} (objs : List NRef) (hg : ∀ o ∈ objs, Grounded wr o) (l r : NRef)
    (hl : Grounded wr l) (hr : Grounded wr r) (k : Oid)
    (h : (get (baseMap objs l r) k).isSome = true) : hasKey l k ∧ hasKey r k := by
  unfold baseMap at h
  split at h
  · rename_i b hb
    obtain ⟨hbo, hbl, hbr⟩ := mergeBase_spec objs l r b hb
    exact ⟨keys_mono_of_subset (hg b hbo) hl hbl k h, keys_mono_of_subset (hg b hbo) hr hbr k h⟩
  · simp [get] at h

theorem mergeMap_keeps_local (b l r : NMap) (k : Oid) (hl : (get l k).isSome = true)
    (hnd : (get b k).isSome = true → (get r k).isSome = true) :
    (get (mergeMap b l r) k).isSome = true := by
  rw [get_mergeMap]; exact mergeVal_keeps_local _ _ _ hl hnd

theorem mergeMap_keeps_remote (b l r : NMap) (k : Oid) (hr : (get r k).isSome = true)
    (hnd : (get b k).isSome = true → (get l k).isSome = true) :
    (get (mergeMap b l r) k).isSome = true := by
  rw [get_mergeMap]; exact mergeVal_keeps_remote _ _ _ hr hnd

theorem mergeMap_value (b l r : NMap) (k : Oid) (v : Note) (h : get (mergeMap b l r) k = some v) :
    get l k = some v ∨ get r k = some v := by
  rw [get_mergeMap] at h
  rcases mergeVal_cases (get b k) (get l k) (get r k) with e | e
  · exact Or.inl (e ▸ h)
  · exact Or.inr (e ▸ h)

section merge
variable {wr : List (Nat × Oid × Note)} (objs : List NRef) (id : Nat) (l t : NRef)

theorem notesMerge_keeps_local (hg : ∀ o ∈ objs, Grounded wr o) (hl : Grounded wr l)
    (ht : Grounded wr t) (k : Oid) (hk : hasKey l k) : hasKey (notesMerge objs id l t) k := by
  unfold notesMerge
  split
  · exact hk
  · split
    · rename_i h; exact keys_mono_of_subset hl ht h k hk
    · exact mergeMap_keeps_local _ _ _ k hk (fun hb => (baseMap_nodel objs hg l t hl ht k hb).2)

theorem notesMerge_keeps_remote (hg : ∀ o ∈ objs, Grounded wr o) (hl : Grounded wr l)
    (ht : Grounded wr t) (k : Oid) (hk : hasKey t k) : hasKey (notesMerge objs id l t) k := by
  unfold notesMerge
  split
  · rename_i h; exact keys_mono_of_subset ht hl h k hk
  · split
    · exact hk
    · exact mergeMap_keeps_remote _ _ _ k hk (fun hb => (baseMap_nodel objs hg l t hl ht k hb).1)

/-- after the merge the other side is an ancestor of the result (so a push fast-forwards). -/
theorem notesMerge_reach_remote : subset t.reach (notesMerge objs id l t).reach = true := by
  unfold notesMerge
  split
  · assumption
  · split
    · exact subset_refl _
    · rw [subset_iff]; intro x hx
      exact List.mem_cons_of_mem _ ((mem_union _ _ _).2 (Or.inr hx))

theorem notesMerge_reach_local : subset l.reach (notesMerge objs id l t).reach = true := by
  unfold notesMerge
  split
  · exact subset_refl _
  · split
    · assumption
    · rw [subset_iff]; intro x hx
      exact List.mem_cons_of_mem _ ((mem_union _ _ _).2 (Or.inl hx))

theorem notesMerge_value (k : Oid) (v : Note) (h : get (notesMerge objs id l t).map k = some v) :
    get l.map k = some v ∨ get t.map k = some v := by
  unfold notesMerge at h
  split at h
  · exact Or.inl h
  · split at h
    · exact Or.inr h
    · exact mergeMap_value _ _ _ k v h

theorem notesMerge_good (hg : ∀ o ∈ objs, Grounded wr o) (hl : Grounded wr l) (ht : Grounded wr t)
    (hbl : ∀ x ∈ l.reach, x < id) (hbt : ∀ x ∈ t.reach, x < id) (hwr : ∀ p ∈ wr, p.1 < id) :
    (∀ x ∈ (notesMerge objs id l t).reach, x < id + 1) ∧ Grounded wr (notesMerge objs id l t) := by
  have hkl := notesMerge_keeps_local objs id l t hg hl ht
  have hkt := notesMerge_keeps_remote objs id l t hg hl ht
  have hval := notesMerge_value objs id l t
  refine ⟨?_, ?_, ?_⟩
  · unfold notesMerge
    split
    · intro x hx; exact Nat.lt_succ_of_lt (hbl x hx)
    · split
      · intro x hx; exact Nat.lt_succ_of_lt (hbt x hx)
      · intro x hx
        rcases List.mem_cons.1 hx with rfl | hx
        · exact Nat.lt_succ_self _
        · rcases (mem_union _ _ _).1 hx with h | h
          · exact Nat.lt_succ_of_lt (hbl x h)
          · exact Nat.lt_succ_of_lt (hbt x h)
  · intro k
    constructor
    · intro hk
      unfold hasKey at hk
      cases hv : get (notesMerge objs id l t).map k with
      | none => simp [hv] at hk
      | some v =>
        rcases hval k v hv with h | h
        · obtain ⟨x, hx, w, hw⟩ := (hl.1 k).1 (by simp [hasKey, h])
          exact ⟨x, (subset_iff _ _).1 (notesMerge_reach_local objs id l t) x hx, w, hw⟩
        · obtain ⟨x, hx, w, hw⟩ := (ht.1 k).1 (by simp [hasKey, h])
          exact ⟨x, (subset_iff _ _).1 (notesMerge_reach_remote objs id l t) x hx, w, hw⟩
    · rintro ⟨x, hx, w, hw⟩
      have : x ∈ l.reach ∨ x ∈ t.reach := by
        unfold notesMerge at hx
        split at hx
        · exact Or.inl hx
        · split at hx
          · exact Or.inr hx
          · rcases List.mem_cons.1 hx with rfl | hx
            · exact absurd (hwr _ hw) (Nat.lt_irrefl _)
            · exact (mem_union _ _ _).1 hx
      rcases this with h | h
      · exact hkl k ((hl.1 k).2 ⟨x, h, w, hw⟩)
      · exact hkt k ((ht.1 k).2 ⟨x, h, w, hw⟩)
  · intro k v hv
    rcases hval k v hv with h | h
    · exact hl.2 k v h
    · exact ht.2 k v h

end merge

/-! ## the existence probe

  Everything below is about `step P` for a probe `P` that is `Faithful` (answers "exists"
  exactly for refs that exist, loose or packed). Under that hypothesis the decision
  `if ref_exists(tracking) { if ref_exists(local) { merge } else { copy } }` depends on the
  refs' VALUES only (`integrate_eq`), so ref storage — and with it `Op.maintenance` — cannot
  influence any value. -/

variable {P : Probe} [Faithful P]

theorem probe_refSt (v : Option NRef) (st : Store) : P (refSt v st) = v.isSome := by
  cases v with
  | none => exact Faithful.absent
  | some x => cases st with
    | loose => exact Faithful.loose
    | packed => exact Faithful.packed

/-- what `integrate` does when the probe is faithful: a case split on the values. -/
def integrateG (s : State) (i : Nat) (cl : Clone) : State :=
  match cl.trk with
  | none => { s with clones := s.clones.set i cl }
  | some t =>
    match cl.loc with
    | none => { s with clones := s.clones.set i { cl with loc := some t, locSt := .loose } }
    | some l =>
      let m := notesMerge s.objs s.next l t
      { s with clones := s.clones.set i { cl with loc := some m, locSt := written (some l) cl.locSt m },
               next := s.next + 1, objs := m :: s.objs }

theorem integrate_eq (s : State) (i : Nat) (cl : Clone) : integrate P s i cl = integrateG s i cl := by
  unfold integrate integrateG
  rw [probe_refSt (P := P), probe_refSt (P := P)]
  cases ht : cl.trk with
  | none => simp
  | some t =>
    cases hl : cl.loc with
    | none => simp [doCopy, ht, hl, written]
    | some l => simp [doMerge, ht, hl]

/-! ## every step preserves the invariant -/

theorem inv_integrate (s : State) (hs : Inv s) (i : Nat) (cl0 cl : Clone)
    (hi : s.clones[i]? = some cl0) (hl : cl.loc = cl0.loc)
    (ht : ∀ t, cl.trk = some t → t ∈ s.objs) : Inv (integrate P s i cl) := by
  rw [integrate_eq]; unfold integrateG
  split
  · rename_i htn
    have := inv_setClone s hs i cl0 cl hi s.objs s.next s.rhas (Nat.le_refl _)
      (fun o ho => Or.inl ho) (fun o ho => ho)
      (fun l' hl' => hs.rl i cl0 l' hi (hl ▸ hl'))
      (fun l h => ⟨l, hl ▸ h, fun _ hk => hk⟩)
      ht
    exact this
  · rename_i t htt
    have hto : t ∈ s.objs := ht t htt
    split
    · rename_i hln
      have := inv_setClone s hs i cl0 { cl with loc := some t, locSt := .loose } hi s.objs s.next s.rhas (Nat.le_refl _)
        (fun o ho => Or.inl ho) (fun o ho => ho)
        (fun l' hl' => by cases hl'; exact hto)
        (fun l h => by rw [← hl, hln] at h; cases h)
        ht
      exact this
    · rename_i l hll
      have hlo : l ∈ s.objs := hs.rl i cl0 l hi (hl ▸ hll)
      have good := notesMerge_good s.objs s.next l t hs.g (hs.g l hlo) (hs.g t hto)
        (hs.b1 l hlo) (hs.b1 t hto) hs.b2
      have := inv_setClone s hs i cl0
        { cl with loc := some (notesMerge s.objs s.next l t),
                  locSt := written (some l) cl.locSt (notesMerge s.objs s.next l t) } hi
        (notesMerge s.objs s.next l t :: s.objs) (s.next + 1) s.rhas (Nat.le_succ _)
        (fun o ho => by
          rcases List.mem_cons.1 ho with rfl | ho
          · exact Or.inr good
          · exact Or.inl ho)
        (fun o ho => List.mem_cons_of_mem _ ho)
        (fun l' hl' => by cases hl'; exact List.mem_cons_self)
        (fun l0 h => by
          rw [← hl, hll] at h; cases h
          exact ⟨_, rfl, notesMerge_keeps_local s.objs s.next l t hs.g (hs.g l hlo) (hs.g t hto)⟩)
        (fun t' ht' => List.mem_cons_of_mem _ (ht t' ht'))
      exact this

theorem grounded_weaken {wr : List (Nat × Oid × Note)} {o : NRef} (p : Nat × Oid × Note)
    (h : Grounded wr o) (hfresh : p.1 ∉ o.reach) : Grounded (p :: wr) o := by
  refine ⟨fun k => ?_, fun k v hv => ?_⟩
  · rw [h.1 k]
    constructor
    · rintro ⟨id, hid, v, hv⟩; exact ⟨id, hid, v, List.mem_cons_of_mem _ hv⟩
    · rintro ⟨id, hid, v, hv⟩
      rcases List.mem_cons.1 hv with e | hv
      · exact absurd (by rw [← e]; exact hid) hfresh
      · exact ⟨id, hid, v, hv⟩
  · obtain ⟨id, hid⟩ := h.2 k v hv
    exact ⟨id, List.mem_cons_of_mem _ hid⟩

theorem hasKey_addNote_self (loc : Option NRef) (id : Nat) (c : Oid) (v : Note) :
    hasKey (addNote loc id c v) c := by
  unfold hasKey addNote
  split
  · simp [get]
  · simp [get_put]

theorem hasKey_addNote_mono (l : NRef) (id : Nat) (c : Oid) (v : Note) (k : Oid)
    (h : hasKey l k) : hasKey (addNote (some l) id c v) k := by
  unfold hasKey addNote
  simp only [get_put]
  split
  · rfl
  · exact h

theorem addNote_grounded {wr : List (Nat × Oid × Note)} (loc : Option NRef) (id : Nat) (c : Oid)
    (v : Note) (hl : ∀ l, loc = some l → Grounded wr l ∧ id ∉ l.reach) (hwr : ∀ p ∈ wr, p.1 ≠ id) :
    Grounded ((id, c, v) :: wr) (addNote loc id c v) := by
  cases loc with
  | none =>
    refine ⟨fun k => ?_, fun k w hw => ?_⟩
    · simp only [hasKey, addNote, get]
      constructor
      · intro h
        by_cases hk : k = c
        · subst hk; exact ⟨id, List.mem_singleton.2 rfl, v, List.mem_cons_self⟩
        · simp [hk] at h
      · rintro ⟨x, hx, w, hw⟩
        rw [List.mem_singleton] at hx; subst hx
        rcases List.mem_cons.1 hw with e | hw
        · cases e; simp
        · exact absurd rfl (hwr _ hw)
    · simp only [addNote, get] at hw
      split at hw
      · cases hw; rename_i h; subst h; exact ⟨id, List.mem_cons_self⟩
      · simp at hw
  | some l =>
    obtain ⟨hg, hfr⟩ := hl l rfl
    refine ⟨fun k => ?_, fun k w hw => ?_⟩
    · simp only [hasKey, addNote, get_put]
      constructor
      · intro h
        by_cases hk : k = c
        · subst hk; exact ⟨id, List.mem_cons_self, v, List.mem_cons_self⟩
        · simp only [hk, if_false] at h
          obtain ⟨x, hx, w, hw⟩ := (hg.1 k).1 h
          exact ⟨x, List.mem_cons_of_mem _ hx, w, List.mem_cons_of_mem _ hw⟩
      · rintro ⟨x, hx, w, hw⟩
        by_cases hk : k = c
        · simp [hk]
        · simp only [hk, if_false]
          rcases List.mem_cons.1 hw with e | hw
          · cases e; exact absurd rfl hk
          · rcases List.mem_cons.1 hx with e | hx
            · exact absurd e (hwr _ hw)
            · exact (hg.1 k).2 ⟨x, hx, w, hw⟩
    · simp only [addNote, get_put] at hw
      split at hw
      · cases hw; rename_i h; subst h; exact ⟨id, List.mem_cons_self⟩
      · obtain ⟨x, hx⟩ := hg.2 k w hw
        exact ⟨x, List.mem_cons_of_mem _ hx⟩

theorem addNote_reach_bound (s : State) (hs : Inv s) (loc : Option NRef)
    (hlo : ∀ l, loc = some l → l ∈ s.objs) (id : Nat) (c : Oid) (v : Note) (next' : Nat)
    (h1 : s.next ≤ id) (h2 : id < next') : ∀ x ∈ (addNote loc id c v).reach, x < next' := by
  intro x hx
  unfold addNote at hx
  split at hx
  · rw [List.mem_singleton] at hx; subst hx; exact h2
  · rename_i l
    rcases List.mem_cons.1 hx with rfl | hx
    · exact h2
    · exact Nat.lt_trans (Nat.lt_of_lt_of_le (hs.b1 l (hlo l rfl) x hx) h1) h2

/-- generic preservation for `git notes add` in clone `i` (commit or rewrite). -/
theorem inv_addNote (s : State) (hs : Inv s) (i : Nat) (cl cl' : Clone)
    (hi : s.clones[i]? = some cl) (id : Nat) (c : Oid) (v : Note) (next' : Nat)
    (h1 : s.next ≤ id) (h2 : id < next')
    (hloc : cl'.loc = some (addNote cl.loc id c v)) (htrk : cl'.trk = cl.trk)
    (log' : List (Oid × Nat × Note)) (hlog : log' = s.log ∨ log' = (c, i, v) :: s.log) :
    Inv { s with clones := s.clones.set i cl', next := next',
                 objs := addNote cl.loc id c v :: s.objs, wr := (id, c, v) :: s.wr, log := log' } := by
  have hlo : ∀ l, cl.loc = some l → l ∈ s.objs := fun l h => hs.rl i cl l hi h
  have hfresh : ∀ o ∈ s.objs, id ∉ o.reach := fun o ho hx =>
    absurd (hs.b1 o ho id hx) (Nat.not_lt.2 h1)
  have hnext : s.next ≤ next' := Nat.le_of_lt (Nat.lt_of_le_of_lt h1 h2)
  constructor
  · intro o ho
    rcases List.mem_cons.1 ho with rfl | ho
    · exact addNote_reach_bound s hs cl.loc hlo id c v next' h1 h2
    · intro x hx; exact Nat.lt_of_lt_of_le (hs.b1 o ho x hx) hnext
  · intro p hp
    rcases List.mem_cons.1 hp with rfl | hp
    · exact h2
    · exact Nat.lt_of_lt_of_le (hs.b2 p hp) hnext
  · intro o ho
    rcases List.mem_cons.1 ho with rfl | ho
    · exact addNote_grounded cl.loc id c v
        (fun l hl => ⟨hs.g l (hlo l hl), hfresh l (hlo l hl)⟩)
        (fun p hp e => absurd (hs.b2 p hp) (Nat.not_lt.2 (e ▸ h1)))
    · exact grounded_weaken _ (hs.g o ho) (hfresh o ho)
  · intro r hr; exact List.mem_cons_of_mem _ (hs.rr r hr)
  · intro j x l hx hl
    rcases clone_set_cases _ _ _ cl cl' x hi hx with ⟨_, rfl⟩ | ⟨_, hx'⟩
    · rw [hloc] at hl; cases hl; exact List.mem_cons_self
    · exact List.mem_cons_of_mem _ (hs.rl j x l hx' hl)
  · intro j x t hx ht
    rcases clone_set_cases _ _ _ cl cl' x hi hx with ⟨_, rfl⟩ | ⟨_, hx'⟩
    · exact List.mem_cons_of_mem _ (hs.rt i cl t hi (htrk ▸ ht))
    · exact List.mem_cons_of_mem _ (hs.rt j x t hx' ht)
  · intro e he
    have old : ∀ e ∈ s.log, ∃ x l, (s.clones.set i cl')[e.2.1]? = some x ∧ x.loc = some l ∧ hasKey l e.1 := by
      intro e he
      obtain ⟨x, l, hx, hl, hk⟩ := hs.w e he
      by_cases hj : e.2.1 = i
      · rw [hj, hi] at hx; cases hx
        refine ⟨cl', _, by rw [hj]; exact clone_set_self _ _ cl cl' hi, hloc, ?_⟩
        rw [hl]; exact hasKey_addNote_mono l id c v _ hk
      · exact ⟨x, l, by rw [clone_set_ne _ _ _ _ (fun h => hj h.symm)]; exact hx, hl, hk⟩
    rcases hlog with rfl | rfl
    · exact old e he
    · rcases List.mem_cons.1 he with rfl | he
      · exact ⟨cl', _, clone_set_self _ _ cl cl' hi, hloc, hasKey_addNote_self _ _ _ _⟩
      · exact old e he

theorem inv_stepCommit (s : State) (hs : Inv s) (i : Nat) : Inv (stepCommit s i) := by
  unfold stepCommit
  split
  · exact hs
  · rename_i cl hi
    exact inv_addNote s hs i cl
      { cl with loc := some (addNote cl.loc (s.next + 2) s.next (s.next + 1)), locSt := .loose,
                has := s.next :: cl.has, own := s.next :: cl.own }
      hi (s.next + 2) s.next (s.next + 1) (s.next + 3)
      (by omega) (by omega) rfl rfl _ (Or.inr rfl)

theorem inv_stepRewrite (s : State) (hs : Inv s) (i : Nat) (c : Oid) : Inv (stepRewrite s i c) := by
  unfold stepRewrite
  split
  · exact hs
  · rename_i cl hi
    exact inv_addNote s hs i cl
      { cl with loc := some (addNote cl.loc (s.next + 1) c s.next), locSt := .loose }
      hi (s.next + 1) c s.next (s.next + 2)
      (by omega) (by omega) rfl rfl _ (Or.inl rfl)

theorem inv_stepFetch (s : State) (hs : Inv s) (i : Nat) : Inv (stepFetch P s i) := by
  unfold stepFetch
  split
  · exact hs
  · rename_i cl hi
    split
    · exact inv_setClone s hs i cl _ hi s.objs s.next s.rhas (Nat.le_refl _)
        (fun o ho => Or.inl ho) (fun o ho => ho) (fun l' hl' => hs.rl i cl l' hi hl')
        (fun l h => ⟨l, h, fun _ hk => hk⟩) (fun t ht => hs.rt i cl t hi ht)
    · rename_i r hr
      exact inv_integrate s hs i cl _ hi rfl (fun t ht => by cases ht; exact hs.rr r hr)

theorem inv_stepPFetch (s : State) (hs : Inv s) (i : Nat) : Inv (stepPFetch s i) := by
  unfold stepPFetch
  split
  · exact hs
  · rename_i cl hi
    split
    · exact inv_setClone s hs i cl _ hi s.objs s.next s.rhas (Nat.le_refl _)
        (fun o ho => Or.inl ho) (fun o ho => ho) (fun l' hl' => hs.rl i cl l' hi hl')
        (fun l h => ⟨l, h, fun _ hk => hk⟩) (fun t ht => hs.rt i cl t hi ht)
    · rename_i r hr
      exact inv_setClone s hs i cl _ hi s.objs s.next s.rhas (Nat.le_refl _)
        (fun o ho => Or.inl ho) (fun o ho => ho) (fun l' hl' => hs.rl i cl l' hi hl')
        (fun l h => ⟨l, h, fun _ hk => hk⟩) (fun t ht => by cases ht; exact hs.rr r hr)

theorem inv_stepPMerge (s : State) (hs : Inv s) (i : Nat) : Inv (stepPMerge P s i) := by
  unfold stepPMerge
  split
  · exact hs
  · rename_i cl hi
    split
    · exact inv_integrate s hs i cl _ hi rfl (fun t ht => hs.rt i cl t hi ht)
    · exact hs

theorem inv_rhas (s : State) (hs : Inv s) (rh : List Oid) : Inv { s with rhas := rh } :=
  ⟨hs.b1, hs.b2, hs.g, hs.rr, hs.rl, hs.rt, hs.w⟩

theorem inv_remote (s : State) (hs : Inv s) (l : NRef) (hl : l ∈ s.objs) (st : Store) :
    Inv { s with remote := some l, rst := st } :=
  ⟨hs.b1, hs.b2, hs.g, fun r hr => by cases hr; exact hl, hs.rl, hs.rt, hs.w⟩

theorem inv_rst (s : State) (hs : Inv s) (st : Store) : Inv { s with rst := st } :=
  ⟨hs.b1, hs.b2, hs.g, hs.rr, hs.rl, hs.rt, hs.w⟩

/-- maintenance touches storage only: the clone's values are what they were. -/
theorem inv_stepMaint (s : State) (hs : Inv s) (i : Nat) : Inv (stepMaint s i) := by
  unfold stepMaint
  split
  · exact hs
  · rename_i cl hi
    exact inv_setClone s hs i cl _ hi s.objs s.next s.rhas (Nat.le_refl _)
      (fun o ho => Or.inl ho) (fun o ho => ho) (fun l' hl' => hs.rl i cl l' hi hl')
      (fun l h => ⟨l, h, fun _ hk => hk⟩) (fun t ht => hs.rt i cl t hi ht)

theorem inv_stepPSend (s : State) (hs : Inv s) (i : Nat) : Inv (stepPSend s i) := by
  unfold stepPSend
  split
  · exact hs
  · rename_i cl hi
    have h0 := inv_rhas s hs (union s.rhas cl.own)
    split
    · exact h0
    · rename_i l hl
      have hlo : l ∈ s.objs := hs.rl i cl l hi hl
      dsimp only
      split
      · exact inv_remote _ h0 l hlo _
      · split
        · exact inv_remote _ h0 l hlo _
        · exact h0

theorem inv_step (s : State) (hs : Inv s) (op : Op) : Inv (step P s op) := by
  cases op with
  | commit i => exact inv_stepCommit s hs i
  | rewrite i c => exact inv_stepRewrite s hs i c
  | fetch i => exact inv_stepFetch s hs i
  | pull i => exact inv_stepFetch s hs i
  | push i => exact inv_stepPSend _ (inv_stepPMerge _ (inv_stepPFetch s hs i) i) i
  | pFetch i => exact inv_stepPFetch s hs i
  | pMerge i => exact inv_stepPMerge s hs i
  | pSend i => exact inv_stepPSend s hs i
  | maintenance i => exact inv_stepMaint s hs i
  | maintRemote => exact inv_rst s hs _

theorem inv_run (σ : List Op) (s : State) (hs : Inv s) : Inv (run P σ s) := by
  induction σ generalizing s with
  | nil => exact hs
  | cons op σ ih => exact ih _ (inv_step s hs op)


/-! ## key sets never shrink; frames -/

def remoteHas (s : State) (k : Oid) : Prop := ∃ r, s.remote = some r ∧ hasKey r k
def cloneHas (s : State) (j : Nat) (k : Oid) : Prop :=
  ∃ cl l, s.clones[j]? = some cl ∧ cl.loc = some l ∧ hasKey l k

/-- the clone list changes at most at index `i`, and there the local ref keeps its keys. -/
def CloneStepAt (i : Nat) (s s' : State) : Prop :=
  s'.clones = s.clones ∨
  ∃ cl cl', s.clones[i]? = some cl ∧ s'.clones = s.clones.set i cl' ∧
    ∀ l, cl.loc = some l → ∃ l', cl'.loc = some l' ∧ ∀ k, hasKey l k → hasKey l' k

theorem CloneStepAt.frame {i : Nat} {s s' : State} (h : CloneStepAt i s s') (j : Nat) (hj : j ≠ i) :
    s'.clones[j]? = s.clones[j]? := by
  rcases h with h | ⟨cl, cl', _, h, _⟩
  · rw [h]
  · rw [h, clone_set_ne _ _ _ _ (fun e => hj e.symm)]

theorem CloneStepAt.mono {i : Nat} {s s' : State} (h : CloneStepAt i s s') (j : Nat) (k : Oid)
    (hk : cloneHas s j k) : cloneHas s' j k := by
  rcases h with h | ⟨cl, cl', hi, h, keep⟩
  · unfold cloneHas; rw [h]; exact hk
  · obtain ⟨x, l, hx, hl, hkk⟩ := hk
    by_cases hj : j = i
    · subst hj
      rw [hi] at hx; cases hx
      obtain ⟨l', hl', hk'⟩ := keep l hl
      exact ⟨cl', l', by rw [h]; exact clone_set_self _ _ cl cl' hi, hl', hk' k hkk⟩
    · exact ⟨x, l, by rw [h, clone_set_ne _ _ _ _ (fun e => hj e.symm)]; exact hx, hl, hkk⟩

theorem CloneStepAt.length {i : Nat} {s s' : State} (h : CloneStepAt i s s') :
    s'.clones.length = s.clones.length := by
  rcases h with h | ⟨_, _, _, h, _⟩ <;> simp [h]

theorem cloneStep_integrate (s : State) (hs : Inv s) (i : Nat) (cl0 cl : Clone)
    (hi : s.clones[i]? = some cl0) (hl : cl.loc = cl0.loc)
    (ht : ∀ t, cl.trk = some t → t ∈ s.objs) : CloneStepAt i s (integrate P s i cl) := by
  rw [integrate_eq]; unfold integrateG
  split
  · exact Or.inr ⟨cl0, cl, hi, rfl, fun l h => ⟨l, hl ▸ h, fun _ hk => hk⟩⟩
  · rename_i t htt
    split
    · rename_i hln
      exact Or.inr ⟨cl0, _, hi, rfl, fun l h => by rw [← hl, hln] at h; cases h⟩
    · rename_i l hll
      have hlo : l ∈ s.objs := hs.rl i cl0 l hi (hl ▸ hll)
      have hto : t ∈ s.objs := ht t htt
      exact Or.inr ⟨cl0, _, hi, rfl, fun l0 h => by
        rw [← hl, hll] at h; cases h
        exact ⟨_, rfl, notesMerge_keeps_local s.objs s.next l t hs.g (hs.g l hlo) (hs.g t hto)⟩⟩

theorem cloneStep_commit (s : State) (i : Nat) : CloneStepAt i s (stepCommit s i) := by
  unfold stepCommit
  split
  · exact Or.inl rfl
  · rename_i cl hi
    exact Or.inr ⟨cl, _, hi, rfl, fun l h => ⟨_, rfl, fun k hk => by
      rw [h]; exact hasKey_addNote_mono l _ _ _ k hk⟩⟩

theorem cloneStep_rewrite (s : State) (i : Nat) (c : Oid) : CloneStepAt i s (stepRewrite s i c) := by
  unfold stepRewrite
  split
  · exact Or.inl rfl
  · rename_i cl hi
    exact Or.inr ⟨cl, _, hi, rfl, fun l h => ⟨_, rfl, fun k hk => by
      rw [h]; exact hasKey_addNote_mono l _ _ _ k hk⟩⟩

theorem cloneStep_fetch (s : State) (hs : Inv s) (i : Nat) : CloneStepAt i s (stepFetch P s i) := by
  unfold stepFetch
  split
  · exact Or.inl rfl
  · rename_i cl hi
    split
    · exact Or.inr ⟨cl, _, hi, rfl, fun l h => ⟨l, h, fun _ hk => hk⟩⟩
    · rename_i r hr
      exact cloneStep_integrate s hs i cl _ hi rfl (fun t ht => by cases ht; exact hs.rr r hr)

theorem cloneStep_pFetch (s : State) (i : Nat) : CloneStepAt i s (stepPFetch s i) := by
  unfold stepPFetch
  split
  · exact Or.inl rfl
  · rename_i cl hi
    split
    · exact Or.inr ⟨cl, _, hi, rfl, fun l h => ⟨l, h, fun _ hk => hk⟩⟩
    · exact Or.inr ⟨cl, _, hi, rfl, fun l h => ⟨l, h, fun _ hk => hk⟩⟩

theorem cloneStep_pMerge (s : State) (hs : Inv s) (i : Nat) : CloneStepAt i s (stepPMerge P s i) := by
  unfold stepPMerge
  split
  · exact Or.inl rfl
  · rename_i cl hi
    split
    · exact cloneStep_integrate s hs i cl _ hi rfl (fun t ht => hs.rt i cl t hi ht)
    · exact Or.inl rfl

theorem clones_pSend (s : State) (i : Nat) : (stepPSend s i).clones = s.clones := by
  unfold stepPSend
  split
  · rfl
  · dsimp only
    split
    · rfl
    · split
      · rfl
      · split <;> rfl

theorem cloneStep_pSend (s : State) (i : Nat) : CloneStepAt i s (stepPSend s i) :=
  Or.inl (clones_pSend s i)

theorem cloneStep_maint (s : State) (i : Nat) : CloneStepAt i s (stepMaint s i) := by
  unfold stepMaint
  split
  · exact Or.inl rfl
  · rename_i cl hi
    exact Or.inr ⟨cl, _, hi, rfl, fun l h => ⟨l, h, fun _ hk => hk⟩⟩

theorem cloneStep_maintRemote (s : State) (i : Nat) : CloneStepAt i s (stepMaintRemote s) :=
  Or.inl rfl

/-- which clone an operation acts on (`maintRemote` acts on none). -/
def Op.who : Op → Nat
  | .commit i | .rewrite i _ | .fetch i | .pull i | .push i | .pFetch i | .pMerge i | .pSend i
  | .maintenance i => i
  | .maintRemote => 0

theorem cloneHas_mono_step (s : State) (hs : Inv s) (op : Op) (j : Nat) (k : Oid)
    (h : cloneHas s j k) : cloneHas (step P s op) j k := by
  cases op with
  | commit i => exact (cloneStep_commit s i).mono j k h
  | rewrite i c => exact (cloneStep_rewrite s i c).mono j k h
  | fetch i => exact (cloneStep_fetch s hs i).mono j k h
  | pull i => exact (cloneStep_fetch s hs i).mono j k h
  | push i =>
    have h1 := (cloneStep_pFetch s i).mono j k h
    have h2 := (cloneStep_pMerge (P := P) _ (inv_stepPFetch s hs i) i).mono j k h1
    exact (cloneStep_pSend _ i).mono j k h2
  | pFetch i => exact (cloneStep_pFetch s i).mono j k h
  | pMerge i => exact (cloneStep_pMerge s hs i).mono j k h
  | pSend i => exact (cloneStep_pSend s i).mono j k h
  | maintenance i => exact (cloneStep_maint s i).mono j k h
  | maintRemote => exact (cloneStep_maintRemote s 0).mono j k h

theorem clones_frame_step (s : State) (hs : Inv s) (op : Op) (j : Nat) (hj : j ≠ op.who) :
    (step P s op).clones[j]? = s.clones[j]? := by
  cases op with
  | commit i => exact (cloneStep_commit s i).frame j hj
  | rewrite i c => exact (cloneStep_rewrite s i c).frame j hj
  | fetch i => exact (cloneStep_fetch s hs i).frame j hj
  | pull i => exact (cloneStep_fetch s hs i).frame j hj
  | push i =>
    have h1 := (cloneStep_pFetch s i).frame j hj
    have h2 := (cloneStep_pMerge (P := P) _ (inv_stepPFetch s hs i) i).frame j hj
    have h3 := (cloneStep_pSend (stepPMerge P (stepPFetch s i) i) i).frame j hj
    exact h3.trans (h2.trans h1)
  | pFetch i => exact (cloneStep_pFetch s i).frame j hj
  | pMerge i => exact (cloneStep_pMerge s hs i).frame j hj
  | pSend i => exact (cloneStep_pSend s i).frame j hj
  | maintenance i => exact (cloneStep_maint s i).frame j hj
  | maintRemote => rfl

/-! ### the remote -/

theorem remote_integrate (s : State) (i : Nat) (cl : Clone) : (integrate P s i cl).remote = s.remote := by
  rw [integrate_eq]; unfold integrateG; split
  · rfl
  · split <;> rfl

theorem remote_fetch (s : State) (i : Nat) : (stepFetch P s i).remote = s.remote := by
  unfold stepFetch; split
  · rfl
  · split
    · rfl
    · exact remote_integrate _ _ _

theorem remote_pFetch (s : State) (i : Nat) : (stepPFetch s i).remote = s.remote := by
  unfold stepPFetch; split
  · rfl
  · split <;> rfl

theorem remote_pMerge (s : State) (i : Nat) : (stepPMerge P s i).remote = s.remote := by
  unfold stepPMerge; split
  · rfl
  · split
    · exact remote_integrate _ _ _
    · rfl

theorem remote_commit (s : State) (i : Nat) : (stepCommit s i).remote = s.remote := by
  unfold stepCommit; split <;> rfl

theorem remote_rewrite (s : State) (i : Nat) (c : Oid) : (stepRewrite s i c).remote = s.remote := by
  unfold stepRewrite; split <;> rfl

theorem remote_maint (s : State) (i : Nat) : (stepMaint s i).remote = s.remote := by
  unfold stepMaint; split <;> rfl

theorem remoteHas_pSend (s : State) (hs : Inv s) (i : Nat) (k : Oid) (h : remoteHas s k) :
    remoteHas (stepPSend s i) k := by
  obtain ⟨r, hr, hk⟩ := h
  unfold stepPSend
  split
  · exact ⟨r, hr, hk⟩
  · rename_i cl hi
    dsimp only
    split
    · exact ⟨r, hr, hk⟩
    · rename_i l hl
      split
      · rename_i hn; rw [hr] at hn; cases hn
      · rename_i r' hr'
        rw [hr] at hr'; cases hr'
        split
        · rename_i hsub
          exact ⟨l, rfl, keys_mono_of_subset (hs.g r (hs.rr r hr)) (hs.g l (hs.rl i cl l hi hl)) hsub k hk⟩
        · exact ⟨r, hr, hk⟩

theorem remoteHas_mono_step (s : State) (hs : Inv s) (op : Op) (k : Oid) (h : remoteHas s k) :
    remoteHas (step P s op) k := by
  cases op with
  | commit i => unfold remoteHas; rw [show (step P s (.commit i)).remote = s.remote from remote_commit s i]; exact h
  | rewrite i c => unfold remoteHas; rw [show (step P s (.rewrite i c)).remote = s.remote from remote_rewrite s i c]; exact h
  | fetch i => unfold remoteHas; rw [show (step P s (.fetch i)).remote = s.remote from remote_fetch s i]; exact h
  | pull i => unfold remoteHas; rw [show (step P s (.pull i)).remote = s.remote from remote_fetch s i]; exact h
  | push i =>
    apply remoteHas_pSend _ (inv_stepPMerge _ (inv_stepPFetch s hs i) i)
    unfold remoteHas; rw [remote_pMerge (P := P), remote_pFetch]; exact h
  | pFetch i => unfold remoteHas; rw [show (step P s (.pFetch i)).remote = s.remote from remote_pFetch s i]; exact h
  | pMerge i => unfold remoteHas; rw [show (step P s (.pMerge i)).remote = s.remote from remote_pMerge s i]; exact h
  | pSend i => exact remoteHas_pSend s hs i k h
  | maintenance i => unfold remoteHas; rw [show (step P s (.maintenance i)).remote = s.remote from remote_maint s i]; exact h
  | maintRemote => exact h


/-! ## what push delivers and fetch receives -/

theorem pFetch_some (s : State) (i : Nat) (cl : Clone) (r : NRef) (hi : s.clones[i]? = some cl)
    (hr : s.remote = some r) :
    stepPFetch s i = { s with clones := s.clones.set i { cl with trk := some r, trkSt := written cl.trk cl.trkSt r, fetchOk := true } } := by
  unfold stepPFetch; rw [hi]; simp only [hr]

theorem pFetch_none (s : State) (i : Nat) (cl : Clone) (hi : s.clones[i]? = some cl)
    (hr : s.remote = none) :
    stepPFetch s i = { s with clones := s.clones.set i { cl with fetchOk := false } } := by
  unfold stepPFetch; rw [hi]; simp only [hr]

/-- clone `i` after the fetch+merge inside push, when the remote has a notes ref: a local
    ref exists and the remote value is its ancestor. -/
theorem push_merge_some (s : State) (i : Nat) (cl : Clone) (r : NRef) (hi : s.clones[i]? = some cl)
    (hr : s.remote = some r) :
    ∃ cl2 l, (stepPMerge P (stepPFetch s i) i).clones[i]? = some cl2 ∧ cl2.loc = some l ∧
      subset r.reach l.reach = true := by
  rw [pFetch_some s i cl r hi hr]
  unfold stepPMerge
  simp only [clone_set_self _ _ cl _ hi, if_true]
  rw [integrate_eq]; unfold integrateG
  simp only
  cases hl : cl.loc with
  | none =>
    simp only
    exact ⟨_, r, clone_set_self _ _ _ _ (clone_set_self _ _ cl _ hi), rfl, subset_refl _⟩
  | some l =>
    simp only
    exact ⟨_, _, clone_set_self _ _ _ _ (clone_set_self _ _ cl _ hi), rfl,
      notesMerge_reach_remote _ _ _ _⟩

theorem pSend_delivers (s : State) (i : Nat) (cl : Clone) (l : NRef) (hi : s.clones[i]? = some cl)
    (hl : cl.loc = some l) (hok : ∀ r, s.remote = some r → subset r.reach l.reach = true) :
    (stepPSend s i).remote = some l := by
  unfold stepPSend
  rw [hi]
  simp only [hl]
  cases hr : s.remote with
  | none => rfl
  | some r => simp only [hok r hr, if_true]

theorem push_delivers (s : State) (hs : Inv s) (i : Nat) (k : Oid) (h : cloneHas s i k) :
    remoteHas (step P s (.push i)) k := by
  have h1 := (cloneStep_pFetch s i).mono i k h
  have h2 := (cloneStep_pMerge (P := P) _ (inv_stepPFetch s hs i) i).mono i k h1
  obtain ⟨cl, _, hi, _, _⟩ := h
  obtain ⟨cl2, l, hc2, hl2, hk2⟩ := h2
  have hok : ∀ r, (stepPMerge P (stepPFetch s i) i).remote = some r → subset r.reach l.reach = true := by
    intro r hr
    rw [remote_pMerge (P := P), remote_pFetch] at hr
    obtain ⟨cl2', l', hc, hl', hsub⟩ := push_merge_some (P := P) s i cl r hi hr
    rw [hc2] at hc; cases hc
    rw [hl2] at hl'; cases hl'
    exact hsub
  exact ⟨l, pSend_delivers _ i cl2 l hc2 hl2 hok, hk2⟩

theorem fetch_receives (s : State) (hs : Inv s) (i : Nat) (cl : Clone) (hi : s.clones[i]? = some cl)
    (k : Oid) (h : remoteHas s k) : cloneHas (stepFetch P s i) i k := by
  obtain ⟨r, hr, hk⟩ := h
  have hro := hs.rr r hr
  unfold stepFetch
  rw [hi]
  simp only [hr]
  rw [integrate_eq]; unfold integrateG
  simp only
  cases hl : cl.loc with
  | none =>
    simp only
    exact ⟨_, r, clone_set_self _ _ cl _ hi, rfl, hk⟩
  | some l =>
    simp only
    have hlo := hs.rl i cl l hi hl
    exact ⟨_, _, clone_set_self _ _ cl _ hi, rfl,
      notesMerge_keeps_remote s.objs s.next l r hs.g (hs.g l hlo) (hs.g r hro) k hk⟩

/-! ## ghost log frames -/

theorem log_integrate (s : State) (i : Nat) (cl : Clone) : (integrate P s i cl).log = s.log := by
  rw [integrate_eq]; unfold integrateG; split
  · rfl
  · split <;> rfl

theorem log_fetch (s : State) (i : Nat) : (stepFetch P s i).log = s.log := by
  unfold stepFetch; split
  · rfl
  · split
    · rfl
    · exact log_integrate _ _ _

theorem log_pFetch (s : State) (i : Nat) : (stepPFetch s i).log = s.log := by
  unfold stepPFetch; split
  · rfl
  · split <;> rfl

theorem log_pMerge (s : State) (i : Nat) : (stepPMerge P s i).log = s.log := by
  unfold stepPMerge; split
  · rfl
  · split
    · exact log_integrate _ _ _
    · rfl

theorem log_pSend (s : State) (i : Nat) : (stepPSend s i).log = s.log := by
  unfold stepPSend; split
  · rfl
  · dsimp only
    split
    · rfl
    · split
      · rfl
      · split <;> rfl

theorem log_push (s : State) (i : Nat) : (step P s (.push i)).log = s.log := by
  show (stepPSend (stepPMerge P (stepPFetch s i) i) i).log = s.log
  rw [log_pSend, log_pMerge, log_pFetch]

theorem length_step (s : State) (hs : Inv s) (op : Op) : (step P s op).clones.length = s.clones.length := by
  cases op with
  | commit i => exact (cloneStep_commit s i).length
  | rewrite i c => exact (cloneStep_rewrite s i c).length
  | fetch i => exact (cloneStep_fetch s hs i).length
  | pull i => exact (cloneStep_fetch s hs i).length
  | push i =>
    have h1 := (cloneStep_pFetch s i).length
    have h2 := (cloneStep_pMerge (P := P) _ (inv_stepPFetch s hs i) i).length
    have h3 := (cloneStep_pSend (stepPMerge P (stepPFetch s i) i) i).length
    exact h3.trans (h2.trans h1)
  | pFetch i => exact (cloneStep_pFetch s i).length
  | pMerge i => exact (cloneStep_pMerge s hs i).length
  | pSend i => exact (cloneStep_pSend s i).length
  | maintenance i => exact (cloneStep_maint s i).length
  | maintRemote => rfl


/-! ## single-writer invariant: every stored note is the one its commit's author wrote -/

structure SW (s : State) : Prop where
  v  : ∀ o ∈ s.objs, ∀ k n, get o.map k = some n → ∃ i, (k, i, n) ∈ s.log
  u  : ∀ e ∈ s.log, ∀ e' ∈ s.log, e.1 = e'.1 → e = e'
  b3 : ∀ e ∈ s.log, e.1 < s.next
  bk : ∀ o ∈ s.objs, ∀ k n, get o.map k = some n → k < s.next

theorem sw_init (n : Nat) : SW (init n) := by
  constructor <;> simp [init]

/-- objects may be added whose entries all occur in old objects; nothing is written. -/
theorem sw_same (s s' : State) (hw : SW s) (hlog : s'.log = s.log) (hn : s.next ≤ s'.next)
    (hobjs : ∀ o ∈ s'.objs, ∀ k n, get o.map k = some n → ∃ o' ∈ s.objs, get o'.map k = some n) :
    SW s' := by
  constructor
  · intro o ho k n h
    obtain ⟨o', ho', h'⟩ := hobjs o ho k n h
    rw [hlog]; exact hw.v o' ho' k n h'
  · rw [hlog]; exact hw.u
  · rw [hlog]; intro e he; exact Nat.lt_of_lt_of_le (hw.b3 e he) hn
  · intro o ho k n h
    obtain ⟨o', ho', h'⟩ := hobjs o ho k n h
    exact Nat.lt_of_lt_of_le (hw.bk o' ho' k n h') hn

theorem sw_integrate (s : State) (hs : Inv s) (hw : SW s) (i : Nat) (cl0 cl : Clone)
    (hi : s.clones[i]? = some cl0) (hl : cl.loc = cl0.loc)
    (ht : ∀ t, cl.trk = some t → t ∈ s.objs) : SW (integrate P s i cl) := by
  rw [integrate_eq]; unfold integrateG
  split
  · exact sw_same s _ hw rfl (Nat.le_refl _) (fun o ho k n h => ⟨o, ho, h⟩)
  · rename_i t htt
    split
    · exact sw_same s _ hw rfl (Nat.le_refl _) (fun o ho k n h => ⟨o, ho, h⟩)
    · rename_i l hll
      have hlo : l ∈ s.objs := hs.rl i cl0 l hi (hl ▸ hll)
      have hto : t ∈ s.objs := ht t htt
      refine sw_same s _ hw rfl (Nat.le_succ _) (fun o ho k n h => ?_)
      rcases List.mem_cons.1 ho with rfl | ho
      · rcases notesMerge_value s.objs s.next l t k n h with h' | h'
        · exact ⟨l, hlo, h'⟩
        · exact ⟨t, hto, h'⟩
      · exact ⟨o, ho, h⟩

theorem sw_stepFetch (s : State) (hs : Inv s) (hw : SW s) (i : Nat) : SW (stepFetch P s i) := by
  unfold stepFetch
  split
  · exact hw
  · rename_i cl hi
    split
    · exact sw_same s _ hw rfl (Nat.le_refl _) (fun o ho k n h => ⟨o, ho, h⟩)
    · rename_i r hr
      exact sw_integrate s hs hw i cl _ hi rfl (fun t ht => by cases ht; exact hs.rr r hr)

theorem sw_stepPFetch (s : State) (hw : SW s) (i : Nat) : SW (stepPFetch s i) := by
  unfold stepPFetch
  split
  · exact hw
  · split <;> exact sw_same s _ hw rfl (Nat.le_refl _) (fun o ho k n h => ⟨o, ho, h⟩)

theorem sw_stepPMerge (s : State) (hs : Inv s) (hw : SW s) (i : Nat) : SW (stepPMerge P s i) := by
  unfold stepPMerge
  split
  · exact hw
  · rename_i cl hi
    split
    · exact sw_integrate s hs hw i cl _ hi rfl (fun t ht => hs.rt i cl t hi ht)
    · exact hw

theorem sw_stepPSend (s : State) (hw : SW s) (i : Nat) : SW (stepPSend s i) := by
  unfold stepPSend
  split
  · exact hw
  · dsimp only
    split
    · exact sw_same s _ hw rfl (Nat.le_refl _) (fun o ho k n h => ⟨o, ho, h⟩)
    · split
      · exact sw_same s _ hw rfl (Nat.le_refl _) (fun o ho k n h => ⟨o, ho, h⟩)
      · split <;> exact sw_same s _ hw rfl (Nat.le_refl _) (fun o ho k n h => ⟨o, ho, h⟩)

theorem sw_stepCommit (s : State) (hs : Inv s) (hw : SW s) (i : Nat) : SW (stepCommit s i) := by
  unfold stepCommit
  split
  · exact hw
  · rename_i cl hi
    have hnew : ∀ k n, get (addNote cl.loc (s.next + 2) s.next (s.next + 1)).map k = some n →
        (k = s.next ∧ n = s.next + 1) ∨ ∃ o ∈ s.objs, get o.map k = some n := by
      intro k n h
      unfold addNote at h
      split at h
      · simp only [get] at h
        split at h
        · cases h; rename_i e; exact Or.inl ⟨e, rfl⟩
        · simp at h
      · rename_i l hl
        simp only [get_put] at h
        split at h
        · cases h; rename_i e; exact Or.inl ⟨e, rfl⟩
        · exact Or.inr ⟨l, hs.rl i cl l hi hl, h⟩
    constructor
    · intro o ho k n h
      have : (k = s.next ∧ n = s.next + 1) ∨ ∃ o' ∈ s.objs, get o'.map k = some n := by
        rcases List.mem_cons.1 ho with rfl | ho
        · exact hnew k n h
        · exact Or.inr ⟨o, ho, h⟩
      rcases this with ⟨rfl, rfl⟩ | ⟨o', ho', h'⟩
      · exact ⟨i, List.mem_cons_self⟩
      · obtain ⟨j, hj⟩ := hw.v o' ho' k n h'
        exact ⟨j, List.mem_cons_of_mem _ hj⟩
    · intro e he e' he' hee
      rcases List.mem_cons.1 he with rfl | he
      · rcases List.mem_cons.1 he' with rfl | he'
        · rfl
        · exact absurd (hw.b3 e' he') (by rw [← hee]; exact Nat.lt_irrefl _)
      · rcases List.mem_cons.1 he' with rfl | he'
        · exact absurd (hw.b3 e he) (by rw [hee]; exact Nat.lt_irrefl _)
        · exact hw.u e he e' he' hee
    · intro e he
      rcases List.mem_cons.1 he with rfl | he
      · show s.next < s.next + 3; omega
      · exact Nat.lt_of_lt_of_le (hw.b3 e he) (by show s.next ≤ s.next + 3; omega)
    · intro o ho k n h
      have : (k = s.next ∧ n = s.next + 1) ∨ ∃ o' ∈ s.objs, get o'.map k = some n := by
        rcases List.mem_cons.1 ho with rfl | ho
        · exact hnew k n h
        · exact Or.inr ⟨o, ho, h⟩
      rcases this with ⟨rfl, rfl⟩ | ⟨o', ho', h'⟩
      · show s.next < s.next + 3; omega
      · exact Nat.lt_of_lt_of_le (hw.bk o' ho' k n h') (by show s.next ≤ s.next + 3; omega)

theorem sw_step (s : State) (hs : Inv s) (hw : SW s) (op : Op) (hop : op.isRewrite = false) :
    SW (step P s op) := by
  cases op with
  | commit i => exact sw_stepCommit s hs hw i
  | rewrite i c => simp [Op.isRewrite] at hop
  | fetch i => exact sw_stepFetch s hs hw i
  | pull i => exact sw_stepFetch s hs hw i
  | push i =>
    exact sw_stepPSend _ (sw_stepPMerge _ (inv_stepPFetch s hs i) (sw_stepPFetch s hw i) i) i
  | pFetch i => exact sw_stepPFetch s hw i
  | pMerge i => exact sw_stepPMerge s hs hw i
  | pSend i => exact sw_stepPSend s hw i
  | maintenance i =>
    show SW (stepMaint s i)
    unfold stepMaint; split
    · exact hw
    · exact sw_same s _ hw rfl (Nat.le_refl _) (fun o ho k n h => ⟨o, ho, h⟩)
  | maintRemote => exact sw_same s _ hw rfl (Nat.le_refl _) (fun o ho k n h => ⟨o, ho, h⟩)

theorem sw_run (σ : List Op) (hσ : SingleWriter σ) (s : State) (hs : Inv s) (hw : SW s) :
    SW (run P σ s) := by
  induction σ generalizing s with
  | nil => exact hw
  | cons op σ ih =>
    exact ih (fun o ho => hσ o (List.mem_cons_of_mem _ ho)) _ (inv_step s hs op)
      (sw_step s hs hw op (hσ op List.mem_cons_self))

omit [Faithful P] in
theorem run_append (σ τ : List Op) (s : State) : run P (σ ++ τ) s = run P τ (run P σ s) := by
  induction σ generalizing s with
  | nil => rfl
  | cons op σ ih => exact ih _


/-! ## note ids are fresh: a note id belongs to one key -/

structure NoteIds (s : State) : Prop where
  bn : ∀ p ∈ s.wr, p.2.2 < s.next
  un : ∀ p ∈ s.wr, ∀ p' ∈ s.wr, p.2.2 = p'.2.2 → p.2.1 = p'.2.1

theorem noteIds_same (s s' : State) (h : NoteIds s) (hwr : s'.wr = s.wr) (hn : s.next ≤ s'.next) :
    NoteIds s' :=
  ⟨by rw [hwr]; intro p hp; exact Nat.lt_of_lt_of_le (h.bn p hp) hn, by rw [hwr]; exact h.un⟩

theorem noteIds_write (s s' : State) (h : NoteIds s) (id : Nat) (c : Oid) (v : Note)
    (hwr : s'.wr = (id, c, v) :: s.wr) (hv : s.next ≤ v) (hv' : v < s'.next) : NoteIds s' := by
  have hn : s.next ≤ s'.next := Nat.le_of_lt (Nat.lt_of_le_of_lt hv hv')
  constructor
  · rw [hwr]; intro p hp
    rcases List.mem_cons.1 hp with rfl | hp
    · exact hv'
    · exact Nat.lt_of_lt_of_le (h.bn p hp) hn
  · rw [hwr]; intro p hp p' hp' e
    rcases List.mem_cons.1 hp with rfl | hp
    · rcases List.mem_cons.1 hp' with rfl | hp'
      · rfl
      · exact absurd (h.bn p' hp') (by rw [← e]; exact Nat.not_lt.2 hv)
    · rcases List.mem_cons.1 hp' with rfl | hp'
      · exact absurd (h.bn p hp) (by rw [e]; exact Nat.not_lt.2 hv)
      · exact h.un p hp p' hp' e

theorem wr_next_integrate (s : State) (i : Nat) (cl : Clone) :
    (integrate P s i cl).wr = s.wr ∧ s.next ≤ (integrate P s i cl).next := by
  rw [integrate_eq]; unfold integrateG; split
  · exact ⟨rfl, Nat.le_refl _⟩
  · split
    · exact ⟨rfl, Nat.le_refl _⟩
    · exact ⟨rfl, Nat.le_succ _⟩

theorem wr_next_fetch (s : State) (i : Nat) :
    (stepFetch P s i).wr = s.wr ∧ s.next ≤ (stepFetch P s i).next := by
  unfold stepFetch; split
  · exact ⟨rfl, Nat.le_refl _⟩
  · split
    · exact ⟨rfl, Nat.le_refl _⟩
    · exact wr_next_integrate _ _ _

theorem wr_next_pFetch (s : State) (i : Nat) :
    (stepPFetch s i).wr = s.wr ∧ s.next ≤ (stepPFetch s i).next := by
  unfold stepPFetch; split
  · exact ⟨rfl, Nat.le_refl _⟩
  · split <;> exact ⟨rfl, Nat.le_refl _⟩

theorem wr_next_pMerge (s : State) (i : Nat) :
    (stepPMerge P s i).wr = s.wr ∧ s.next ≤ (stepPMerge P s i).next := by
  unfold stepPMerge; split
  · exact ⟨rfl, Nat.le_refl _⟩
  · split
    · exact wr_next_integrate _ _ _
    · exact ⟨rfl, Nat.le_refl _⟩

theorem wr_next_pSend (s : State) (i : Nat) :
    (stepPSend s i).wr = s.wr ∧ s.next ≤ (stepPSend s i).next := by
  unfold stepPSend; split
  · exact ⟨rfl, Nat.le_refl _⟩
  · dsimp only
    split
    · exact ⟨rfl, Nat.le_refl _⟩
    · split
      · exact ⟨rfl, Nat.le_refl _⟩
      · split <;> exact ⟨rfl, Nat.le_refl _⟩

theorem noteIds_step (s : State) (h : NoteIds s) (op : Op) : NoteIds (step P s op) := by
  cases op with
  | commit i =>
    show NoteIds (stepCommit s i)
    unfold stepCommit; split
    · exact h
    · exact noteIds_write s _ h _ _ _ rfl (Nat.le_succ _) (by show s.next + 1 < s.next + 3; omega)
  | rewrite i c =>
    show NoteIds (stepRewrite s i c)
    unfold stepRewrite; split
    · exact h
    · exact noteIds_write s _ h _ _ _ rfl (Nat.le_refl _) (by show s.next < s.next + 2; omega)
  | fetch i => exact noteIds_same s _ h (wr_next_fetch s i).1 (wr_next_fetch s i).2
  | pull i => exact noteIds_same s _ h (wr_next_fetch s i).1 (wr_next_fetch s i).2
  | push i =>
    have h1 := noteIds_same s _ h (wr_next_pFetch s i).1 (wr_next_pFetch s i).2
    have h2 := noteIds_same _ _ h1 (wr_next_pMerge (P := P) _ i).1 (wr_next_pMerge (P := P) _ i).2
    exact noteIds_same _ _ h2 (wr_next_pSend _ i).1 (wr_next_pSend _ i).2
  | pFetch i => exact noteIds_same s _ h (wr_next_pFetch s i).1 (wr_next_pFetch s i).2
  | pMerge i => exact noteIds_same s _ h (wr_next_pMerge s i).1 (wr_next_pMerge s i).2
  | pSend i => exact noteIds_same s _ h (wr_next_pSend s i).1 (wr_next_pSend s i).2
  | maintenance i =>
    show NoteIds (stepMaint s i)
    unfold stepMaint; split
    · exact h
    · exact noteIds_same s _ h rfl (Nat.le_refl _)
  | maintRemote => exact noteIds_same s _ h rfl (Nat.le_refl _)

theorem noteIds_run (σ : List Op) (s : State) (h : NoteIds s) : NoteIds (run P σ s) := by
  induction σ generalizing s with
  | nil => exact h
  | cons op σ ih => exact ih _ (noteIds_step s h op)

theorem noteIds_init (n : Nat) : NoteIds (init n) := by
  constructor <;> simp [init]

/-! ## runs -/

theorem remoteHas_mono_run (σ : List Op) (s : State) (hs : Inv s) (k : Oid) (h : remoteHas s k) :
    remoteHas (run P σ s) k := by
  induction σ generalizing s with
  | nil => exact h
  | cons op σ ih => exact ih _ (inv_step s hs op) (remoteHas_mono_step s hs op k h)

theorem cloneHas_mono_run (σ : List Op) (s : State) (hs : Inv s) (j : Nat) (k : Oid)
    (h : cloneHas s j k) : cloneHas (run P σ s) j k := by
  induction σ generalizing s with
  | nil => exact h
  | cons op σ ih => exact ih _ (inv_step s hs op) (cloneHas_mono_step s hs op j k h)

theorem length_run (σ : List Op) (s : State) (hs : Inv s) : (run P σ s).clones.length = s.clones.length := by
  induction σ generalizing s with
  | nil => rfl
  | cons op σ ih => exact (ih _ (inv_step s hs op)).trans (length_step s hs op)

omit [Faithful P] in
theorem run_snoc (σ : List Op) (op : Op) (s : State) : run P (σ ++ [op]) s = step P (run P σ s) op := by
  rw [run_append]; rfl

/-- after `push 0; …; push (m-1)` the remote has the note key of every commit authored by a
    clone `< m`. -/
theorem pushAll_delivers (m : Nat) (s : State) (hs : Inv s) :
    Inv (run P (pushAll m) s) ∧ (run P (pushAll m) s).log = s.log ∧
    ∀ e ∈ s.log, e.2.1 < m → remoteHas (run P (pushAll m) s) e.1 := by
  induction m with
  | zero => exact ⟨hs, rfl, fun e _ h => absurd h (Nat.not_lt_zero _)⟩
  | succ m ih =>
    obtain ⟨hi, hlog, hrem⟩ := ih
    have e : pushAll (m + 1) = pushAll m ++ [Op.push m] := by
      simp [pushAll, List.range_succ]
    rw [e, run_snoc]
    refine ⟨inv_step _ hi _, (log_push _ m).trans hlog, fun e he hlt => ?_⟩
    rcases Nat.lt_succ_iff_lt_or_eq.1 hlt with h | h
    · exact remoteHas_mono_step _ hi _ _ (hrem e he h)
    · have := hi.w e (hlog ▸ he)
      rw [h] at this
      exact push_delivers _ hi m e.1 this

/-- after `fetch 0; …; fetch (m-1)` every clone `< m` has every key the remote had; the
    remote is unchanged. -/
theorem fetchAll_receives (m : Nat) (s : State) (hs : Inv s) :
    Inv (run P (fetchAll m) s) ∧ (run P (fetchAll m) s).log = s.log ∧
    (run P (fetchAll m) s).remote = s.remote ∧
    ∀ j, j < m → j < s.clones.length → ∀ k, remoteHas s k → cloneHas (run P (fetchAll m) s) j k := by
  induction m with
  | zero => exact ⟨hs, rfl, rfl, fun j h => absurd h (Nat.not_lt_zero _)⟩
  | succ m ih =>
    obtain ⟨hi, hlog, hrem, hcl⟩ := ih
    have e : fetchAll (m + 1) = fetchAll m ++ [Op.fetch m] := by
      simp [fetchAll, List.range_succ]
    rw [e, run_snoc]
    refine ⟨inv_step _ hi _, (log_fetch _ m).trans hlog, (remote_fetch _ m).trans hrem,
      fun j hj hjn k hk => ?_⟩
    rcases Nat.lt_succ_iff_lt_or_eq.1 hj with h | h
    · exact cloneHas_mono_step _ hi _ j k (hcl j h hjn k hk)
    · subst h
      have hlen : j < (run P (fetchAll j) s).clones.length := by rw [length_run _ s hs]; exact hjn
      have hk' : remoteHas (run P (fetchAll j) s) k := by unfold remoteHas; rw [hrem]; exact hk
      exact fetch_receives _ hi j _ (List.getElem?_eq_getElem hlen) k hk'

theorem singleWriter_append {σ τ : List Op} (h1 : SingleWriter σ) (h2 : SingleWriter τ) :
    SingleWriter (σ ++ τ) := by
  intro op hop
  rcases List.mem_append.1 hop with h | h
  · exact h1 op h
  · exact h2 op h

theorem singleWriter_pushAll (n : Nat) : SingleWriter (pushAll n) := by
  intro op hop
  simp only [pushAll, List.mem_map] at hop
  obtain ⟨_, _, rfl⟩ := hop
  rfl

theorem singleWriter_fetchAll (n : Nat) : SingleWriter (fetchAll n) := by
  intro op hop
  simp only [fetchAll, List.mem_map] at hop
  obtain ⟨_, _, rfl⟩ := hop
  rfl

/-- under the single-writer invariant a stored note for a logged commit is the logged one. -/
theorem value_of_hasKey (s : State) (hw : SW s) (o : NRef) (ho : o ∈ s.objs)
    (e : Oid × Nat × Note) (he : e ∈ s.log) (hk : hasKey o e.1) : get o.map e.1 = some e.2.2 := by
  unfold hasKey at hk
  cases h : get o.map e.1 with
  | none => simp [h] at hk
  | some n =>
    obtain ⟨i, hi⟩ := hw.v o ho e.1 n h
    have := hw.u _ hi e he rfl
    rw [← this]


/-! ## agreement (no single-writer hypothesis): after pushAll+fetchAll all refs are one object -/

theorem subset_trans {a b c : List Nat} (h1 : subset a b = true) (h2 : subset b c = true) :
    subset a c = true := by
  rw [subset_iff] at *
  exact fun x hx => h2 x (h1 x hx)

/-- a stored notes commit is determined by its reachable set. -/
def ObjId (s : State) : Prop :=
  ∀ o ∈ s.objs, ∀ o' ∈ s.objs, subset o.reach o'.reach = true → subset o'.reach o.reach = true → o = o'

theorem objId_init (n : Nat) : ObjId (init n) := by
  intro o ho; simp [init] at ho

/-- adding an object that is old, or whose reach contains an id no old object reaches. -/
theorem objId_cons (s : State) (h : ObjId s) (m : NRef)
    (hm : m ∈ s.objs ∨ ∃ id ∈ m.reach, ∀ o ∈ s.objs, id ∉ o.reach) :
    ∀ o ∈ m :: s.objs, ∀ o' ∈ m :: s.objs,
      subset o.reach o'.reach = true → subset o'.reach o.reach = true → o = o' := by
  intro o ho o' ho' h1 h2
  rcases hm with hm | ⟨id, hid, hfresh⟩
  · have a : o ∈ s.objs := by rcases List.mem_cons.1 ho with rfl | h' <;> assumption
    have b : o' ∈ s.objs := by rcases List.mem_cons.1 ho' with rfl | h' <;> assumption
    exact h o a o' b h1 h2
  · rcases List.mem_cons.1 ho with rfl | a
    · rcases List.mem_cons.1 ho' with rfl | b
      · rfl
      · exact absurd ((subset_iff _ _).1 h1 id hid) (hfresh o' b)
    · rcases List.mem_cons.1 ho' with rfl | b
      · exact absurd ((subset_iff _ _).1 h2 id hid) (hfresh o a)
      · exact h o a o' b h1 h2

theorem notesMerge_old_or_fresh (s : State) (hs : Inv s) (l t : NRef) (hl : l ∈ s.objs) (ht : t ∈ s.objs) :
    notesMerge s.objs s.next l t ∈ s.objs ∨
    ∃ id ∈ (notesMerge s.objs s.next l t).reach, ∀ o ∈ s.objs, id ∉ o.reach := by
  unfold notesMerge
  split
  · exact Or.inl hl
  · split
    · exact Or.inl ht
    · exact Or.inr ⟨s.next, List.mem_cons_self, fun o ho hx => absurd (hs.b1 o ho _ hx) (Nat.lt_irrefl _)⟩

theorem addNote_fresh (s : State) (hs : Inv s) (loc : Option NRef) (id : Nat) (c : Oid) (v : Note)
    (h1 : s.next ≤ id) : ∃ x ∈ (addNote loc id c v).reach, ∀ o ∈ s.objs, x ∉ o.reach := by
  refine ⟨id, ?_, fun o ho hx => absurd (hs.b1 o ho _ hx) (Nat.not_lt.2 h1)⟩
  unfold addNote; split <;> simp

theorem objId_integrate (s : State) (hs : Inv s) (h : ObjId s) (i : Nat) (cl0 cl : Clone)
    (hi : s.clones[i]? = some cl0) (hl : cl.loc = cl0.loc)
    (ht : ∀ t, cl.trk = some t → t ∈ s.objs) : ObjId (integrate P s i cl) := by
  rw [integrate_eq]; unfold integrateG
  split
  · exact h
  · rename_i t htt
    split
    · exact h
    · rename_i l hll
      exact objId_cons s h _ (notesMerge_old_or_fresh s hs l t (hs.rl i cl0 l hi (hl ▸ hll)) (ht t htt))

theorem objId_step (s : State) (hs : Inv s) (h : ObjId s) (op : Op) : ObjId (step P s op) := by
  have hf : ∀ i, ObjId (stepFetch P s i) := by
    intro i
    unfold stepFetch; split
    · exact h
    · rename_i cl hi
      split
      · exact h
      · rename_i r hr
        exact objId_integrate s hs h i cl _ hi rfl (fun t ht => by cases ht; exact hs.rr r hr)
  have hpf : ∀ i, ObjId (stepPFetch s i) := by
    intro i
    unfold stepPFetch; split
    · exact h
    · split <;> exact h
  have hpm : ∀ (s : State), Inv s → ObjId s → ∀ i, ObjId (stepPMerge P s i) := by
    intro s hs h i
    unfold stepPMerge; split
    · exact h
    · rename_i cl hi
      split
      · exact objId_integrate s hs h i cl _ hi rfl (fun t ht => hs.rt i cl t hi ht)
      · exact h
  have hps : ∀ (s : State), ObjId s → ∀ i, ObjId (stepPSend s i) := by
    intro s h i
    unfold stepPSend; split
    · exact h
    · dsimp only
      split
      · exact h
      · split
        · exact h
        · split <;> exact h
  cases op with
  | commit i =>
    show ObjId (stepCommit s i)
    unfold stepCommit; split
    · exact h
    · exact objId_cons s h _ (Or.inr (addNote_fresh s hs _ _ _ _ (by omega)))
  | rewrite i c =>
    show ObjId (stepRewrite s i c)
    unfold stepRewrite; split
    · exact h
    · exact objId_cons s h _ (Or.inr (addNote_fresh s hs _ _ _ _ (by omega)))
  | fetch i => exact hf i
  | pull i => exact hf i
  | push i => exact hps _ (hpm _ (inv_stepPFetch s hs i) (hpf i) i) i
  | pFetch i => exact hpf i
  | pMerge i => exact hpm s hs h i
  | pSend i => exact hps s h i
  | maintenance i =>
    show ObjId (stepMaint s i)
    unfold stepMaint; split <;> exact h
  | maintRemote => exact h

theorem objId_run (σ : List Op) (s : State) (hs : Inv s) (h : ObjId s) : ObjId (run P σ s) := by
  induction σ generalizing s with
  | nil => exact h
  | cons op σ ih => exact ih _ (inv_step s hs op) (objId_step s hs h op)

/-- the remote ref only moves to descendants. -/
theorem remote_chain_pSend (s : State) (i : Nat) (r : NRef) (hr : s.remote = some r) :
    ∃ r', (stepPSend s i).remote = some r' ∧ subset r.reach r'.reach = true := by
  unfold stepPSend
  split
  · exact ⟨r, hr, subset_refl _⟩
  · dsimp only
    split
    · exact ⟨r, hr, subset_refl _⟩
    · rename_i l hl
      split
      · rename_i hn; rw [hr] at hn; cases hn
      · rename_i r0 hr0
        rw [hr] at hr0; cases hr0
        split
        · rename_i hsub; exact ⟨l, rfl, hsub⟩
        · exact ⟨r, hr, subset_refl _⟩

theorem remote_chain_push (s : State) (i : Nat) (r : NRef) (hr : s.remote = some r) :
    ∃ r', (step P s (.push i)).remote = some r' ∧ subset r.reach r'.reach = true :=
  remote_chain_pSend _ i r (by rw [remote_pMerge (P := P), remote_pFetch]; exact hr)

theorem pSend_remote_none (s : State) (i : Nat) (cl : Clone) (hi : s.clones[i]? = some cl)
    (hr : s.remote = none) : (stepPSend s i).remote = cl.loc := by
  unfold stepPSend
  rw [hi]
  dsimp only
  cases hl : cl.loc with
  | none => simp only [hr]
  | some l => simp only [hr]

/-- clone `i` right after its own uninterrupted push: its local ref *is* the remote ref
    (or neither exists). -/
theorem push_result (s : State) (i : Nat) (cl : Clone) (hi : s.clones[i]? = some cl) :
    ∃ cl', (step P s (.push i)).clones[i]? = some cl' ∧ cl'.loc = (step P s (.push i)).remote := by
  show ∃ cl', (stepPSend (stepPMerge P (stepPFetch s i) i) i).clones[i]? = some cl' ∧
      cl'.loc = (stepPSend (stepPMerge P (stepPFetch s i) i) i).remote
  rw [clones_pSend]
  cases hr : s.remote with
  | some r =>
    obtain ⟨cl2, l, hc2, hl2, hsub⟩ := push_merge_some (P := P) s i cl r hi hr
    refine ⟨cl2, hc2, ?_⟩
    rw [hl2]
    exact (pSend_delivers _ i cl2 l hc2 hl2 (fun r' hr' => by
      rw [remote_pMerge (P := P), remote_pFetch, hr] at hr'; cases hr'; exact hsub)).symm
  | none =>
    rw [pFetch_none s i cl hi hr]
    have hc1 : (s.clones.set i { cl with fetchOk := false })[i]? = some { cl with fetchOk := false } :=
      clone_set_self _ _ cl _ hi
    have hm : stepPMerge P { s with clones := s.clones.set i { cl with fetchOk := false } } i
        = { s with clones := s.clones.set i { cl with fetchOk := false } } := by
      unfold stepPMerge
      simp only [hc1]
      simp
    rw [hm]
    exact ⟨_, hc1, (pSend_remote_none
      { s with clones := s.clones.set i { cl with fetchOk := false } } i _ hc1 hr).symm⟩

/-- after `push 0 … push (m-1)`: every clone `< m` has no local ref or an ancestor of the remote. -/
theorem pushAll_ancestors (m : Nat) (s : State) (hs : Inv s) :
    ∀ i, i < m → ∀ cl, (run P (pushAll m) s).clones[i]? = some cl →
      cl.loc = none ∨ ∃ l r, cl.loc = some l ∧ (run P (pushAll m) s).remote = some r ∧
        subset l.reach r.reach = true := by
  induction m with
  | zero => intro i h; exact absurd h (Nat.not_lt_zero _)
  | succ m ih =>
    have hi := (pushAll_delivers (P := P) m s hs).1
    have e : pushAll (m + 1) = pushAll m ++ [Op.push m] := by simp [pushAll, List.range_succ]
    rw [e, run_snoc]
    intro i hlt cl hcl
    rcases Nat.lt_succ_iff_lt_or_eq.1 hlt with h | h
    · rw [clones_frame_step _ hi (.push m) i (by simp [Op.who]; omega)] at hcl
      rcases ih i h cl hcl with hn | ⟨l, r, hl, hr, hsub⟩
      · exact Or.inl hn
      · obtain ⟨r', hr', hsub'⟩ := remote_chain_push (P := P) _ m r hr
        exact Or.inr ⟨l, r', hl, hr', subset_trans hsub hsub'⟩
    · subst h
      have hlen : i < (run P (pushAll i) s).clones.length := by
        have := length_step (P := P) _ hi (.push i)
        rcases Nat.lt_or_ge i (run P (pushAll i) s).clones.length with h | h
        · exact h
        · rw [List.getElem?_eq_none (by rw [this]; exact h)] at hcl; cases hcl
      obtain ⟨cl', hc', hl'⟩ := push_result (P := P) _ i _ (List.getElem?_eq_getElem hlen)
      rw [hcl] at hc'; cases hc'
      cases hl : cl.loc with
      | none => exact Or.inl rfl
      | some l => exact Or.inr ⟨l, l, rfl, by rw [← hl']; exact hl, subset_refl _⟩

/-- fetching a descendant of the local ref fast-forwards to it (or copies it). -/
theorem fetch_ff (s : State) (hs : Inv s) (ho : ObjId s) (i : Nat) (cl : Clone) (r : NRef)
    (hi : s.clones[i]? = some cl) (hr : s.remote = some r)
    (hanc : cl.loc = none ∨ ∃ l, cl.loc = some l ∧ subset l.reach r.reach = true) :
    ∃ cl', (stepFetch P s i).clones[i]? = some cl' ∧ cl'.loc = some r := by
  unfold stepFetch
  rw [hi]
  simp only [hr]
  rw [integrate_eq]; unfold integrateG
  simp only
  rcases hanc with hn | ⟨l, hl, hsub⟩
  · simp only [hn]
    exact ⟨_, clone_set_self _ _ cl _ hi, rfl⟩
  · simp only [hl]
    refine ⟨_, clone_set_self _ _ cl _ hi, ?_⟩
    have : notesMerge s.objs s.next l r = r := by
      unfold notesMerge
      split
      · rename_i h2
        exact ho l (hs.rl i cl l hi hl) r (hs.rr r hr) hsub h2
      · simp
    simp [this]

/-- **agreement**: from any state satisfying the invariants, after every clone pushed and then
    every clone fetched, every clone's local ref is the remote's ref (same notes commit). -/
theorem agreement_from (n : Nat) (s : State) (hs : Inv s) (ho : ObjId s) (hn : s.clones.length = n) :
    ∀ (j : Nat) (cl : Clone), (run P (fetchAll n) (run P (pushAll n) s)).clones[j]? = some cl →
      cl.loc = (run P (fetchAll n) (run P (pushAll n) s)).remote := by
  have hs1 := (pushAll_delivers (P := P) n s hs).1
  have ho1 := objId_run (P := P) (pushAll n) s hs ho
  have hlen1 : (run P (pushAll n) s).clones.length = n := by rw [length_run _ s hs]; exact hn
  have hanc := pushAll_ancestors (P := P) n s hs
  -- generalise over the fetch prefix
  have key : ∀ m, m ≤ n →
      Inv (run P (fetchAll m) (run P (pushAll n) s)) ∧ ObjId (run P (fetchAll m) (run P (pushAll n) s)) ∧
      (run P (fetchAll m) (run P (pushAll n) s)).remote = (run P (pushAll n) s).remote ∧
      (∀ j, m ≤ j → (run P (fetchAll m) (run P (pushAll n) s)).clones[j]? = (run P (pushAll n) s).clones[j]?) ∧
      (∀ (j : Nat), j < m → ∀ (cl : Clone), (run P (fetchAll m) (run P (pushAll n) s)).clones[j]? = some cl →
        cl.loc = (run P (pushAll n) s).remote) := by
    intro m
    induction m with
    | zero =>
      intro _
      exact ⟨hs1, ho1, rfl, fun _ _ => rfl, fun j h => absurd h (Nat.not_lt_zero _)⟩
    | succ m ih =>
      intro hm
      obtain ⟨hi, hoi, hrem, hfr, hdone⟩ := ih (Nat.le_of_succ_le hm)
      have e : fetchAll (m + 1) = fetchAll m ++ [Op.fetch m] := by simp [fetchAll, List.range_succ]
      rw [e, run_snoc]
      refine ⟨inv_step _ hi _, objId_step _ hi hoi _, (remote_fetch _ m).trans hrem, ?_, ?_⟩
      · intro j hj
        rw [clones_frame_step _ hi (.fetch m) j (by simp [Op.who]; omega)]
        exact hfr j (by omega)
      · intro j hj cl hcl
        rcases Nat.lt_succ_iff_lt_or_eq.1 hj with h | h
        · rw [clones_frame_step _ hi (.fetch m) j (by simp [Op.who]; omega)] at hcl
          exact hdone j h cl hcl
        · subst h
          have hjn : j < n := hm
          have hcj : (run P (fetchAll j) (run P (pushAll n) s)).clones[j]? = (run P (pushAll n) s).clones[j]? :=
            hfr j (Nat.le_refl _)
          have hjl : j < (run P (pushAll n) s).clones.length := by rw [hlen1]; exact hjn
          have hex : (run P (pushAll n) s).clones[j]? = some ((run P (pushAll n) s).clones[j]'hjl) :=
            List.getElem?_eq_getElem hjl
          cases hR : (run P (pushAll n) s).remote with
          | none =>
            -- no remote ref: the fetch finds nothing; the clone had no local ref either
            rcases hanc j hjn _ hex with hnone | ⟨l, r, _, hr, _⟩
            · have : (step P (run P (fetchAll j) (run P (pushAll n) s)) (.fetch j)).clones[j]? = some cl := hcl
              show cl.loc = none
              have hstep : (stepFetch P (run P (fetchAll j) (run P (pushAll n) s)) j).clones[j]? = some cl := hcl
              unfold stepFetch at hstep
              rw [hcj, hex] at hstep
              simp only [hrem, hR] at hstep
              rw [clone_set_self _ _ _ _ (hcj.trans hex)] at hstep
              cases hstep
              exact hnone
            · rw [hR] at hr; cases hr
          | some R =>
            have hanc' : ((run P (pushAll n) s).clones[j]'hjl).loc = none ∨
                ∃ l, ((run P (pushAll n) s).clones[j]'hjl).loc = some l ∧ subset l.reach R.reach = true := by
              rcases hanc j hjn _ hex with hnone | ⟨l, r, hl, hr, hsub⟩
              · exact Or.inl hnone
              · rw [hR] at hr; cases hr; exact Or.inr ⟨l, hl, hsub⟩
            obtain ⟨cl', hc', hl'⟩ := fetch_ff (P := P) _ hi hoi j _ R (hcj.trans hex) (hrem.trans hR) hanc'
            have : (stepFetch P (run P (fetchAll j) (run P (pushAll n) s)) j).clones[j]? = some cl := hcl
            rw [this] at hc'; cases hc'
            exact hl'
  obtain ⟨_, _, hrem, _, hdone⟩ := key n (Nat.le_refl _)
  intro j cl hcl
  rw [hrem]
  have hjn : j < n := by
    have hl : (run P (fetchAll n) (run P (pushAll n) s)).clones.length = n := by
      rw [length_run _ _ hs1]; exact hlen1
    rcases Nat.lt_or_ge j n with h | h
    · exact h
    · rw [List.getElem?_eq_none (by rw [hl]; exact h)] at hcl; cases hcl
  exact hdone j hjn cl hcl

end GitAi.Sync
