/-
  Lemmas/SyncStorage.lean — ref storage cannot influence a value (property C10).

  `State.vals` forgets where every ref is stored. For a faithful existence probe every step
  commutes with forgetting (`step_vals`), maintenance steps vanish (`maint_vals`), hence
  deleting all `maintenance` / `maintRemote` ops from a schedule changes no ref value, object,
  held commit or ghost (`run_erase_maint`).
-/
import GitAiModel.Lemmas.Sync
namespace GitAi.Sync

def Clone.vals (c : Clone) : Clone := { c with locSt := .loose, trkSt := .loose }

def State.vals (s : State) : State := { s with clones := s.clones.map Clone.vals, rst := .loose }

def Op.isMaint : Op → Bool
  | .maintenance _ | .maintRemote => true
  | _ => false

theorem vals_vals (s : State) : s.vals.vals = s.vals := by
  simp [State.vals, Clone.vals, Function.comp_def]

@[simp] theorem vals_next (s : State) : s.vals.next = s.next := rfl
@[simp] theorem vals_objs (s : State) : s.vals.objs = s.objs := rfl
@[simp] theorem vals_wr (s : State) : s.vals.wr = s.wr := rfl
@[simp] theorem vals_log (s : State) : s.vals.log = s.log := rfl
@[simp] theorem vals_remote (s : State) : s.vals.remote = s.remote := rfl
@[simp] theorem vals_rhas (s : State) : s.vals.rhas = s.rhas := rfl

theorem vals_get (s : State) (i : Nat) : s.vals.clones[i]? = (s.clones[i]?).map Clone.vals := by
  simp [State.vals]

/-- two states that agree after forgetting storage: setting clone `i` to records that agree. -/
theorem vals_set (s : State) (i : Nat) (cl cl' : Clone) (h : cl.vals = cl'.vals)
    {rm : Option NRef} {rh : List Oid} {nx : Nat} {ob : List NRef} {w : List (Nat × Oid × Note)}
    {lg : List (Oid × Nat × Note)} {st st' : Store} :
    (State.mk rm rh (s.clones.set i cl) nx ob w lg st).vals
      = (State.mk rm rh (s.vals.clones.set i cl') nx ob w lg st').vals := by
  have e : (Clone.vals ∘ Clone.vals) = Clone.vals := by funext c; rfl
  unfold State.vals
  simp only [List.map_set, List.map_map, e, h]

theorem vals_stepCommit (s : State) (i : Nat) : (stepCommit s i).vals = (stepCommit s.vals i).vals := by
  unfold stepCommit
  rw [vals_get]
  cases h : s.clones[i]? with
  | none => simp [vals_vals]
  | some cl =>
    refine vals_set s i _ _ ?_
    simp [Clone.vals]

theorem vals_stepRewrite (s : State) (i : Nat) (c : Oid) :
    (stepRewrite s i c).vals = (stepRewrite s.vals i c).vals := by
  unfold stepRewrite
  rw [vals_get]
  cases h : s.clones[i]? with
  | none => simp [vals_vals]
  | some cl =>
    refine vals_set s i _ _ ?_
    simp [Clone.vals]

theorem vals_integrateG (s : State) (i : Nat) (cl cl' : Clone) (h : cl.vals = cl'.vals) :
    (integrateG s i cl).vals = (integrateG s.vals i cl').vals := by
  have h' := h
  simp only [Clone.vals, Clone.mk.injEq] at h'
  obtain ⟨hloc, htrk, hhas, hown, hok, _, _⟩ := h'
  unfold integrateG
  rw [← htrk, ← hloc]
  cases cl.trk with
  | none => exact vals_set s i _ _ h
  | some t =>
    cases cl.loc with
    | none =>
      refine vals_set s i _ _ ?_
      simp [Clone.vals, hhas, hown, hok]
    | some l =>
      refine vals_set s i _ _ ?_
      simp [Clone.vals, hhas, hown, hok]

variable {P : Probe} [Faithful P]

theorem vals_stepFetch (s : State) (i : Nat) : (stepFetch P s i).vals = (stepFetch P s.vals i).vals := by
  unfold stepFetch
  rw [vals_get]
  cases h : s.clones[i]? with
  | none => simp [vals_vals]
  | some cl =>
    simp only [Option.map_some]
    rw [vals_remote, vals_rhas]
    cases s.remote with
    | none =>
      dsimp only
      refine vals_set s i _ _ ?_
      simp [Clone.vals]
    | some r =>
      dsimp only
      rw [integrate_eq, integrate_eq]
      refine vals_integrateG s i _ _ ?_
      simp [Clone.vals]

theorem vals_stepPFetch (s : State) (i : Nat) : (stepPFetch s i).vals = (stepPFetch s.vals i).vals := by
  unfold stepPFetch
  rw [vals_get]
  cases h : s.clones[i]? with
  | none => simp [vals_vals]
  | some cl =>
    simp only [Option.map_some]
    rw [vals_remote]
    cases s.remote with
    | none =>
      dsimp only
      refine vals_set s i _ _ ?_
      simp [Clone.vals]
    | some r =>
      dsimp only
      refine vals_set s i _ _ ?_
      simp [Clone.vals]

theorem vals_stepPMerge (s : State) (i : Nat) : (stepPMerge P s i).vals = (stepPMerge P s.vals i).vals := by
  unfold stepPMerge
  rw [vals_get]
  cases h : s.clones[i]? with
  | none => simp [vals_vals]
  | some cl =>
    simp only [Option.map_some]
    have : cl.vals.fetchOk = cl.fetchOk := rfl
    rw [this]
    cases cl.fetchOk with
    | false => simp [vals_vals]
    | true =>
      simp only [if_true]
      rw [integrate_eq, integrate_eq]
      refine vals_integrateG s i _ _ ?_
      simp [Clone.vals]

theorem vals_stepPSend (s : State) (i : Nat) : (stepPSend s i).vals = (stepPSend s.vals i).vals := by
  unfold stepPSend
  rw [vals_get]
  cases h : s.clones[i]? with
  | none => simp [vals_vals]
  | some cl =>
    simp only [Option.map_some]
    have e1 : cl.vals.own = cl.own := rfl
    have e2 : cl.vals.loc = cl.loc := rfl
    rw [e1, e2]
    cases cl.loc with
    | none => simp [State.vals, Clone.vals, Function.comp_def]
    | some l =>
      simp only
      rw [vals_remote]
      cases s.remote with
      | none => simp [State.vals, Clone.vals, Function.comp_def]
      | some r =>
        simp only
        split <;> simp [State.vals, Clone.vals, Function.comp_def]

theorem vals_stepMaint (s : State) (i : Nat) : (stepMaint s i).vals = s.vals := by
  unfold stepMaint
  cases h : s.clones[i]? with
  | none => rfl
  | some cl =>
    simp only [State.vals, List.map_set]
    congr 1
    have hlt : i < s.clones.length := by
      rcases Nat.lt_or_ge i s.clones.length with h' | h'
      · exact h'
      · simp [List.getElem?_eq_none h'] at h
    apply List.ext_getElem?
    intro j
    by_cases hj : i = j
    · subst hj
      rw [List.getElem?_set_self (by simpa using hlt)]
      simp [h, Clone.vals]
    · rw [List.getElem?_set_ne hj]

/-- a step commutes with forgetting storage. -/
theorem step_vals (s : State) (op : Op) : (step P s op).vals = (step P s.vals op).vals := by
  cases op with
  | commit i => exact vals_stepCommit s i
  | rewrite i c => exact vals_stepRewrite s i c
  | fetch i => exact vals_stepFetch s i
  | pull i => exact vals_stepFetch s i
  | push i =>
    show (stepPSend (stepPMerge P (stepPFetch s i) i) i).vals = (stepPSend (stepPMerge P (stepPFetch s.vals i) i) i).vals
    rw [vals_stepPSend, vals_stepPMerge, vals_stepPFetch, ← vals_stepPMerge, ← vals_stepPSend]
  | pFetch i => exact vals_stepPFetch s i
  | pMerge i => exact vals_stepPMerge s i
  | pSend i => exact vals_stepPSend s i
  | maintenance i =>
    show (stepMaint s i).vals = (stepMaint s.vals i).vals
    rw [vals_stepMaint, vals_stepMaint, vals_vals]
  | maintRemote =>
    show (stepMaintRemote s).vals = (stepMaintRemote s.vals).vals
    simp [stepMaintRemote, State.vals, Clone.vals, Function.comp_def]

omit [Faithful P] in
/-- maintenance steps vanish. -/
theorem maint_vals (s : State) (op : Op) (h : op.isMaint = true) : (step P s op).vals = s.vals := by
  cases op with
  | maintenance i => exact vals_stepMaint s i
  | maintRemote => rfl
  | _ => simp [Op.isMaint] at h

theorem run_vals (σ : List Op) (s : State) : (run P σ s).vals = (run P σ s.vals).vals := by
  induction σ generalizing s with
  | nil => exact (vals_vals s).symm
  | cons op σ ih =>
    show (run P σ (step P s op)).vals = (run P σ (step P s.vals op)).vals
    rw [ih (step P s op), ih (step P s.vals op), step_vals s op]

/-- deleting every maintenance op from a schedule changes nothing but where refs are stored. -/
theorem run_erase_maint (σ : List Op) (s : State) :
    (run P σ s).vals = (run P (σ.filter (fun op => !op.isMaint)) s).vals := by
  induction σ generalizing s with
  | nil => rfl
  | cons op σ ih =>
    cases hm : op.isMaint with
    | true =>
      simp only [List.filter_cons, hm, Bool.not_true, Bool.false_eq_true, if_false]
      show (run P σ (step P s op)).vals = _
      rw [run_vals σ (step P s op), maint_vals s op hm, ← run_vals σ s]
      exact ih s
    | false =>
      simp only [List.filter_cons, hm, Bool.not_false, if_true]
      exact ih (step P s op)

end GitAi.Sync
