/-
  Lemmas/Sys.lean — ghost provenance and the working-log invariant for Model/Sys.lean.
-/
import GitAiModel.Model.Sys
namespace GitAi.Sys

/-! ### lookup on function-induced attribute lists -/

theorem lookup_map (snap : List Nat) (f : Nat → Author) (y : Nat) :
    lookup snap (snap.map f) y = if y ∈ snap then some (f y) else none := by
  induction snap with
  | nil => simp [lookup]
  | cons x xs ih =>
    simp only [List.map_cons, lookup]
    by_cases h : x = y
    · subst h; simp
    · have : y ≠ x := fun e => h e.symm
      simp [h, ih, this]

theorem filterMap_congr_mem {α β} (l : List α) (f g : α → Option β) (h : ∀ a ∈ l, f a = g a) :
    l.filterMap f = l.filterMap g := by
  induction l with
  | nil => rfl
  | cons x xs ih =>
    simp only [List.filterMap_cons, h x (by simp)]
    rw [ih (fun a ha => h a (by simp [ha]))]

/-- with no claims every line number is nobody's -/
theorem map_initialAuthor_nil (k : Nat) (l : List Nat) :
    (enumFrom k l).map (fun p => initialAuthor [] p.1) = l.map (fun _ => (none : Author)) := by
  induction l generalizing k with
  | nil => rfl
  | cons x xs ih =>
    simp only [enumFrom, List.map_cons, ih (k + 1)]
    simp [initialAuthor]

/-- an INITIAL without claims credits nobody, whatever content was recorded with it -/
theorem checkpointAttr_no_claims (S W : List Nat) :
    checkpointAttr ⟨S, (enum1 S).map (fun p => initialAuthor [] p.1)⟩ W none = W.map (fun _ => (none : Author)) := by
  unfold checkpointAttr enum1
  simp only
  rw [map_initialAuthor_nil]
  apply List.map_congr_left
  intro y _
  rw [lookup_map]
  by_cases h : y ∈ S <;> simp [h]

/-! ### ghost provenance (specification state; never read by the model) -/

structure Spec where
  st : State
  g : Nat → Author        -- who made the last substantive change to the line with this id
  seen : List Nat         -- every id that ever existed

/-- an edit keeps some current lines and introduces fresh ids -/
def ValidEdit (sp : Spec) (ys : List Nat) : Prop :=
  ys.Nodup ∧ ∀ y ∈ ys, y ∈ sp.seen → y ∈ sp.st.work

def ValidOp (sp : Spec) : Op → Prop
  | .humanEdit ys => ValidEdit sp ys
  | .aiEdit _ ys => ValidEdit sp ys
  | .humanCheckpoint => True
  | _ => False            -- staging and commits are not part of the edit phase

def credit (sp : Spec) (ys : List Nat) (who : Author) : Nat → Author :=
  fun y => if y ∈ sp.seen then sp.g y else if y ∈ ys then who else sp.g y

def specStep (sp : Spec) (op : Op) : Spec :=
  match op with
  | .humanEdit ys => ⟨step sp.st op, credit sp ys none, sp.seen ++ ys⟩
  | .aiEdit s ys => ⟨step sp.st op, credit sp ys (some s), sp.seen ++ ys⟩
  | _ => ⟨step sp.st op, sp.g, sp.seen⟩

/-- the attribution every working-log entry must carry: lines of HEAD are nobody's (their
    attribution lives in earlier notes), other lines belong to their ghost author -/
def target (sp : Spec) : Nat → Author := fun y => if y ∈ sp.st.head then none else sp.g y

structure Inv (sp : Spec) : Prop where
  noInitial : sp.st.initial = []
  nodup : sp.st.work.Nodup
  workSeen : ∀ y ∈ sp.st.work, y ∈ sp.seen
  headSeen : ∀ y ∈ sp.st.head, y ∈ sp.seen
  snapSeen : ∀ e ∈ sp.st.entries, ∀ y ∈ e.snap, y ∈ sp.seen
  latest : match sp.st.entries.getLast? with
    | some e => e.attr = e.snap.map (target sp) ∧ ∀ y ∈ sp.st.work, y ∉ e.snap → sp.g y = none
    | none => ∀ y ∈ sp.st.work, y ∉ sp.st.head → sp.g y = none

/-- everything the invariant says except the part about not-yet-checkpointed lines -/
structure Pre (sp : Spec) : Prop where
  noInitial : sp.st.initial = []
  nodup : sp.st.work.Nodup
  workSeen : ∀ y ∈ sp.st.work, y ∈ sp.seen
  headSeen : ∀ y ∈ sp.st.head, y ∈ sp.seen
  snapSeen : ∀ e ∈ sp.st.entries, ∀ y ∈ e.snap, y ∈ sp.seen
  prevAttr : (previous sp.st).attr = (previous sp.st).snap.map (target sp)

theorem previous_spec (sp : Spec) (h : Inv sp) :
    (previous sp.st).attr = (previous sp.st).snap.map (target sp) ∧
    (∀ y ∈ (previous sp.st).snap, y ∈ sp.seen) ∧
    (∀ y ∈ sp.st.work, y ∉ (previous sp.st).snap → sp.g y = none) := by
  unfold previous
  have hl := h.latest
  cases he : sp.st.entries.getLast? with
  | some e =>
    rw [he] at hl
    simp only
    refine ⟨hl.1, ?_, hl.2⟩
    exact h.snapSeen e (List.mem_of_getLast? he)
  | none =>
    rw [he] at hl
    simp only [h.noInitial, List.isEmpty_nil, if_true]
    refine ⟨?_, h.headSeen, hl⟩
    apply List.map_congr_left
    intro y hy
    simp [target, hy]

theorem Inv.pre {sp : Spec} (h : Inv sp) : Pre sp :=
  ⟨h.noInitial, h.nodup, h.workSeen, h.headSeen, h.snapSeen, (previous_spec sp h).1⟩

/-- a checkpoint by `who` establishes the invariant provided every line that is not in the
    previous snapshot belongs to `who` according to the ghost (and is not a HEAD line) -/
theorem checkpoint_gen (sp : Spec) (who : Author) (h : Pre sp)
    (hnew : ∀ y ∈ sp.st.work, y ∉ (previous sp.st).snap → target sp y = who) :
    Inv ⟨checkpoint sp.st who, sp.g, sp.seen⟩ := by
  have pa := h.prevAttr
  unfold checkpoint
  simp only [h.noInitial, List.isEmpty_nil, Bool.not_true, Bool.and_false, Bool.not_false, Bool.and_true]
  split
  · -- content unchanged: nothing is appended
    rename_i heq
    have heq' : (previous sp.st).snap = sp.st.work := by simpa using heq
    refine ⟨h.noInitial, h.nodup, h.workSeen, h.headSeen, h.snapSeen, ?_⟩
    show match sp.st.entries.getLast? with
      | some e => _
      | none => _
    unfold previous at pa heq'
    cases he : sp.st.entries.getLast? with
    | some e =>
      rw [he] at pa heq'
      simp only at pa heq' ⊢
      exact ⟨pa, fun y hy hn => absurd (heq' ▸ hy) hn⟩
    | none =>
      rw [he] at heq'
      simp only [h.noInitial, List.isEmpty_nil, if_true] at heq' ⊢
      intro y hy hn
      exact absurd (heq' ▸ hy) hn
  · -- a new entry is appended
    have hattr : checkpointAttr (previous sp.st) sp.st.work who = sp.st.work.map (target sp) := by
      unfold checkpointAttr
      apply List.map_congr_left
      intro y hy
      rw [pa, lookup_map]
      by_cases hm : y ∈ (previous sp.st).snap
      · simp [hm]
      · simp [hm, hnew y hy hm]
    refine ⟨by first | exact h.noInitial | rfl, h.nodup, h.workSeen, h.headSeen, ?_, ?_⟩
    · intro e he y hy
      simp only [List.mem_append, List.mem_singleton] at he
      rcases he with he | rfl
      · exact h.snapSeen e he y hy
      · exact h.workSeen y hy
    · simp only [List.getLast?_append, List.getLast?_singleton, Option.some_or]
      refine ⟨?_, ?_⟩
      · rw [hattr]; rfl
      · intro y hy hn; exact absurd hy hn

theorem humanCheckpoint_inv (sp : Spec) (h : Inv sp) :
    Inv (specStep sp .humanCheckpoint) := by
  obtain ⟨_, _, pg⟩ := previous_spec sp h
  apply checkpoint_gen sp none h.pre
  intro y hy hn
  simp [target, pg y hy hn]

/-- ids already seen keep their ghost author across an edit -/
theorem credit_seen (sp : Spec) (ys : List Nat) (who : Author) (y : Nat) (h : y ∈ sp.seen) :
    credit sp ys who y = sp.g y := by simp [credit, h]

theorem credit_fresh (sp : Spec) (ys : List Nat) (who : Author) (y : Nat) (h : y ∉ sp.seen)
    (hy : y ∈ ys) : credit sp ys who y = who := by simp [credit, h, hy]

theorem humanEdit_inv (sp : Spec) (ys : List Nat) (h : Inv sp) (hv : ValidEdit sp ys) :
    Inv (specStep sp (.humanEdit ys)) := by
  obtain ⟨hnd, hkeep⟩ := hv
  have hl := h.latest
  refine ⟨h.noInitial, hnd, ?_, ?_, ?_, ?_⟩
  · intro y hy; simp [specStep, step] at hy ⊢; exact Or.inr hy
  · intro y hy; simp [specStep, step] at hy ⊢; exact Or.inl (h.headSeen y hy)
  · intro e he y hy
    simp [specStep, step] at he ⊢
    exact Or.inl (h.snapSeen e he y hy)
  · show match (specStep sp (.humanEdit ys)).st.entries.getLast? with
      | some e => _
      | none => _
    have hent : (specStep sp (.humanEdit ys)).st.entries = sp.st.entries := rfl
    rw [hent]
    cases he : sp.st.entries.getLast? with
    | some e =>
      rw [he] at hl
      simp only
      have hsnap := h.snapSeen e (List.mem_of_getLast? he)
      refine ⟨?_, ?_⟩
      · rw [hl.1]
        apply List.map_congr_left
        intro y hy
        show target sp y = target (specStep sp (.humanEdit ys)) y
        simp [target, specStep, step, credit_seen sp ys none y (hsnap y hy)]
      · intro y hy hn
        have hy' : y ∈ ys := hy
        by_cases hs : y ∈ sp.seen
        · show credit sp ys none y = none
          rw [credit_seen sp ys none y hs]
          exact hl.2 y (hkeep y hy' hs) hn
        · exact credit_fresh sp ys none y hs hy'
    | none =>
      rw [he] at hl
      simp only
      intro y hy hn
      have hy' : y ∈ ys := hy
      have hn' : y ∉ sp.st.head := hn
      by_cases hs : y ∈ sp.seen
      · show credit sp ys none y = none
        rw [credit_seen sp ys none y hs]
        exact hl y (hkeep y hy' hs) hn'
      · exact credit_fresh sp ys none y hs hy'

/-- after a checkpoint the snapshot the next checkpoint diffs against is the working tree -/
theorem previous_after_checkpoint (st : State) (who : Author) (hi : st.initial = []) :
    (previous (checkpoint st who)).snap = st.work := by
  unfold checkpoint
  simp only [hi, List.isEmpty_nil, Bool.not_true, Bool.and_false, Bool.not_false, Bool.and_true]
  split
  · rename_i heq
    simpa using heq
  · unfold previous
    simp [List.getLast?_append]

theorem checkpoint_fields (st : State) (who : Author) :
    (checkpoint st who).work = st.work ∧ (checkpoint st who).head = st.head ∧
    (checkpoint st who).initial = st.initial ∧ (checkpoint st who).index = st.index ∧
    (checkpoint st who).notes = st.notes := by
  unfold checkpoint; simp only; split <;> simp

/-- `previous` does not look at the working tree when there is no INITIAL -/
theorem previous_work_irrelevant (st : State) (ys : List Nat) (hi : st.initial = []) :
    previous { st with work := ys } = previous st := by
  unfold previous
  simp [hi]

theorem aiEdit_inv (sp : Spec) (s : Nat) (ys : List Nat) (h : Inv sp) (hv : ValidEdit sp ys) :
    Inv (specStep sp (.aiEdit s ys)) := by
  obtain ⟨hnd, hkeep⟩ := hv
  -- 1. the pre-edit human checkpoint
  have h1 : Inv ⟨checkpoint sp.st none, sp.g, sp.seen⟩ := humanCheckpoint_inv sp h
  obtain ⟨hw1, hh1, hi1, _, _⟩ := checkpoint_fields sp.st none
  have hi1' : (checkpoint sp.st none).initial = [] := by rw [hi1]; exact h.noInitial
  have hprev : (previous (checkpoint sp.st none)).snap = sp.st.work :=
    previous_after_checkpoint sp.st none h.noInitial
  -- 2. the edit: working tree := ys, fresh ids credited to the session; then the AI checkpoint
  let sp2 : Spec := ⟨{ checkpoint sp.st none with work := ys }, credit sp ys (some s), sp.seen ++ ys⟩
  have hprev2 : previous sp2.st = previous (checkpoint sp.st none) :=
    previous_work_irrelevant _ ys hi1'
  have hpre2 : Pre sp2 := by
    refine ⟨hi1', hnd, ?_, ?_, ?_, ?_⟩
    · intro y hy; simp [sp2] at hy ⊢; exact Or.inr hy
    · intro y hy; simp [sp2] at hy ⊢; exact Or.inl (h1.headSeen y hy)
    · intro e he y hy
      simp [sp2] at he ⊢
      exact Or.inl (h1.snapSeen e he y hy)
    · rw [hprev2]
      obtain ⟨pa, ps, _⟩ := previous_spec _ h1
      rw [pa]
      apply List.map_congr_left
      intro y hy
      have hseen : y ∈ sp.seen := ps y hy
      show target ⟨checkpoint sp.st none, sp.g, sp.seen⟩ y = target sp2 y
      simp [target, sp2, credit_seen sp ys (some s) y hseen]
  have hnew : ∀ y ∈ sp2.st.work, y ∉ (previous sp2.st).snap → target sp2 y = some s := by
    intro y hy hn
    rw [hprev2, hprev] at hn
    have hy' : y ∈ ys := hy
    have hfresh : y ∉ sp.seen := fun hs => hn (hkeep y hy' hs)
    have hnh : y ∉ sp.st.head := fun hh => hfresh (h.headSeen y hh)
    have hnh2 : y ∉ sp2.st.head := by
      show y ∉ (checkpoint sp.st none).head
      rw [hh1]; exact hnh
    simp only [target, hnh2, if_false]
    exact credit_fresh sp ys (some s) y hfresh hy'
  exact checkpoint_gen sp2 (some s) hpre2 hnew

/-- every valid editing operation preserves the invariant -/
theorem specStep_inv (sp : Spec) (op : Op) (h : Inv sp) (hv : ValidOp sp op) :
    Inv (specStep sp op) := by
  cases op with
  | humanEdit ys => exact humanEdit_inv sp ys h hv
  | aiEdit s ys => exact aiEdit_inv sp s ys h hv
  | humanCheckpoint => exact humanCheckpoint_inv sp h
  | stageAll => exact absurd hv (by simp [ValidOp])
  | stage ys => exact absurd hv (by simp [ValidOp])
  | commit => exact absurd hv (by simp [ValidOp])

/-- valid sequences of editing operations -/
def ValidOps : Spec → List Op → Prop
  | _, [] => True
  | sp, op :: ops => ValidOp sp op ∧ ValidOps (specStep sp op) ops

def specRun (sp : Spec) (ops : List Op) : Spec := ops.foldl specStep sp

theorem specRun_inv (sp : Spec) (ops : List Op) (h : Inv sp) (hv : ValidOps sp ops) :
    Inv (specRun sp ops) := by
  induction ops generalizing sp with
  | nil => exact h
  | cons op ops ih =>
    exact ih (specStep sp op) (specStep_inv sp op h hv.1) hv.2

theorem specRun_st (sp : Spec) (ops : List Op) : (specRun sp ops).st = run sp.st ops := by
  induction ops generalizing sp with
  | nil => rfl
  | cons op ops ih =>
    simp only [specRun, run, List.foldl_cons] at ih ⊢
    rw [ih (specStep sp op)]
    cases op <;> rfl

end GitAi.Sys
