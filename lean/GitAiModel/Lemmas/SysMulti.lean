/-
  Lemmas/SysMulti.lean — the shared working log of Model/SysMulti.lean, file by file.
-/
import GitAiModel.Model.SysMulti
import GitAiModel.Lemmas.Sys
namespace GitAi.SysMulti
open GitAi.Sys

/-! ### `Sys.checkpoint` / `Sys.commitStep` through `newEntry?` / `commitCore` -/

theorem checkpoint_eq_newEntry (st : State) (who : Author) :
    checkpoint st who = match newEntry? st who with
      | none => st
      | some e => { st with entries := st.entries ++ [e] } := by
  unfold checkpoint newEntry?
  simp only
  split <;> rfl

theorem commitStep_eq_commitCore (st : State) : commitStep st = commitCore (checkpoint st none) := rfl

theorem checkpoint_log (st : State) (who : Author) : (checkpoint st who).log = st.log := by
  unfold checkpoint; simp only; split <;> rfl

theorem commitCore_congr (a b : State) (h1 : effective a = effective b) (hh : a.head = b.head)
    (hi : a.index = b.index) (hw : a.work = b.work) (hn : a.notes = b.notes) (hl : a.log = b.log) :
    commitCore a = commitCore b := by
  unfold commitCore
  simp only [h1, hh, hi, hw, hn, hl]

/-- a checkpoint of a file that has no entry yet does not change what commit time reads -/
theorem effective_checkpoint_nil (st : State) (h : st.entries = []) :
    effective (checkpoint st none) = effective st := by
  unfold checkpoint
  simp only
  split
  · rfl
  · unfold effective
    simp only [h, List.nil_append, List.getLast?_singleton, List.getLast?_nil]
    have hself : ∀ (F : Nat → Author), checkpointAttr ⟨st.work, st.work.map F⟩ st.work none = st.work.map F := by
      intro F
      unfold checkpointAttr
      apply List.map_congr_left
      intro y hy
      simp only
      rw [lookup_map]
      simp [hy]
    have hA : ∀ prev : Entry, checkpointAttr prev st.work none
        = st.work.map (fun y => (lookup prev.snap prev.attr y).getD none) := fun _ => rfl
    rw [hA (previous st), hself]
    unfold previous
    simp only [h, List.getLast?_nil]
    by_cases hi : st.initial.isEmpty = true
    · have hi' : st.initial = [] := by simpa using hi
      simp only [hi, if_true]
      rw [hi', checkpointAttr_no_claims]
      apply List.map_congr_left
      intro y _
      rw [lookup_map]
      by_cases hm : y ∈ st.head <;> simp [hm]
    · simp only [hi]
      rfl

theorem commitCore_checkpoint_nil (st : State) (h : st.entries = []) :
    commitCore (checkpoint st none) = commitCore st := by
  obtain ⟨hw, hh, _, hi, hn⟩ := checkpoint_fields st none
  exact commitCore_congr _ _ (effective_checkpoint_nil st h) hh hi hw hn (checkpoint_log st none)

/-! ### dedup -/

theorem mem_dedup (l : List Nat) (x : Nat) : x ∈ dedup l ↔ x ∈ l := by
  induction l with
  | nil => simp [dedup]
  | cons y ys ih =>
    unfold dedup
    by_cases h : y ∈ ys
    · simp only [h, if_true, ih, List.mem_cons]
      constructor
      · exact Or.inr
      · rintro (rfl | h')
        · exact h
        · exact h'
    · simp [h, ih]

theorem nodup_dedup (l : List Nat) : (dedup l).Nodup := by
  induction l with
  | nil => simp [dedup]
  | cons y ys ih =>
    unfold dedup
    by_cases h : y ∈ ys
    · simp [h, ih]
    · simp [h, ih, mem_dedup]

theorem humanScope_nodup (ms : MState) (nm : List Path) : (humanScope ms nm).Nodup := nodup_dedup _

theorem named_nodup (edits : List (Path × List Nat)) : (named edits).Nodup := nodup_dedup _

/-! ### file maps -/

theorem writeAll_other (F : Path → FileSt) (edits : List (Path × List Nat)) (f : Path)
    (h : f ∉ edits.map (·.1)) : writeAll F edits f = F f := by
  induction edits generalizing F with
  | nil => rfl
  | cons e es ih =>
    simp only [List.map_cons, List.mem_cons, not_or] at h
    simp only [writeAll, List.foldl_cons] at ih ⊢
    rw [ih _ h.2]
    simp [setFile, h.1]

/-- the agent's writes change the working tree content only -/
theorem writeAll_fields (F : Path → FileSt) (edits : List (Path × List Nat)) (f : Path) :
    writeAll F edits f = { F f with work := (writeAll F edits f).work } := by
  induction edits generalizing F with
  | nil => rfl
  | cons e es ih =>
    simp only [writeAll, List.foldl_cons] at ih ⊢
    rw [ih]
    by_cases h : f = e.1
    · subst h; simp [setFile]
    · simp [setFile, h]

theorem addAll_at (F : Path → FileSt) (fs : List Path) (f : Path) :
    addAll F fs f = if f ∈ fs then { F f with index := (F f).work } else F f := by
  induction fs generalizing F with
  | nil => rfl
  | cons p ps ih =>
    simp only [addAll, List.foldl_cons] at ih ⊢
    rw [ih]
    by_cases h : f = p
    · subst h
      by_cases h2 : f ∈ ps <;> simp [setFile, h2]
    · by_cases h2 : f ∈ ps <;> simp [setFile, h, h2]

theorem toSys_ofSys (st : State) (h : st.entries = []) : (FileSt.ofSys st).toSys [] = st := by
  cases st; simp_all [FileSt.ofSys, FileSt.toSys]

/-! ### the working log -/

theorem logEntries_nil_of_not_mem (cks : List Ckpt) (f : Path) (h : f ∉ logFiles cks) :
    logEntries cks f = [] := by
  induction cks with
  | nil => rfl
  | cons c older ih =>
    simp only [logFiles, List.mem_append, not_or] at h
    simp only [logEntries, ih h.1, List.nil_append, List.filter_eq_nil_iff, decide_eq_true_eq]
    intro e he hf
    exact h.2 (List.mem_map.2 ⟨e, he, hf⟩)

theorem filter_map_line (g : MEntry → MEntry) (hg : ∀ e, (g e).file = e.file ∧ (g e).line = e.line)
    (l : List MEntry) (f : Path) :
    ((l.map g).filter (fun e => e.file = f)).map MEntry.line = (l.filter (fun e => e.file = f)).map MEntry.line := by
  induction l with
  | nil => rfl
  | cons e es ih =>
    simp only [List.map_cons, List.filter_cons, (hg e).1]
    split
    · simp only [List.map_cons, (hg e).2, ih]
    · exact ih

theorem filter_map_same (g : MEntry → MEntry) (f : Path) (hg : ∀ e, (g e).file = e.file ∧ (e.file = f → g e = e))
    (l : List MEntry) :
    (l.map g).filter (fun e => e.file = f) = l.filter (fun e => e.file = f) := by
  induction l with
  | nil => rfl
  | cons e es ih =>
    simp only [List.map_cons, List.filter_cons, (hg e).1]
    split
    · rename_i hf
      have hf' : e.file = f := by simpa using hf
      rw [(hg e).2 hf', ih]
    · exact ih

theorem clr_props (seen : List Path) (e : MEntry) :
    (if e.file ∈ seen then e.clear else e).file = e.file ∧ (if e.file ∈ seen then e.clear else e).line = e.line := by
  split <;> exact ⟨rfl, rfl⟩

/-- clearing keeps file, snapshot and line attributions of every entry -/
theorem filter_map_clear_line (l : List MEntry) (seen : List Path) (f : Path) :
    ((l.map (fun e => if e.file ∈ seen then e.clear else e)).filter (fun e => e.file = f)).map MEntry.line
      = (l.filter (fun e => e.file = f)).map MEntry.line :=
  filter_map_line _ (clr_props seen) l f

/-- entries of a file that has no newer entry are left alone -/
theorem filter_map_clear_of_not_mem (l : List MEntry) (seen : List Path) (f : Path) (h : f ∉ seen) :
    (l.map (fun e => if e.file ∈ seen then e.clear else e)).filter (fun e => e.file = f)
      = l.filter (fun e => e.file = f) := by
  apply filter_map_same
  intro e
  refine ⟨(clr_props seen e).1, ?_⟩
  intro hf
  have : e.file ∉ seen := hf ▸ h
  simp [this]

theorem pruneAux_line (cks : List Ckpt) (seen : List Path) (f : Path) :
    (logEntries (pruneAux cks seen) f).map MEntry.line = (logEntries cks f).map MEntry.line := by
  induction cks generalizing seen with
  | nil => rfl
  | cons c older ih =>
    simp only [pruneAux, logEntries, List.map_append, ih, filter_map_clear_line]

theorem pruneAux_latest (cks : List Ckpt) (seen : List Path) (f : Path) (h : f ∉ seen) :
    (logEntries (pruneAux cks seen) f).getLast? = (logEntries cks f).getLast? := by
  induction cks generalizing seen with
  | nil => rfl
  | cons c older ih =>
    simp only [pruneAux, logEntries, filter_map_clear_of_not_mem _ _ _ h, List.getLast?_append]
    cases hb : (c.entries.filter (fun e => e.file = f)).getLast? with
    | some e => rfl
    | none =>
      simp only [Option.none_or]
      apply ih
      have hnil : c.entries.filter (fun e => e.file = f) = [] := List.getLast?_eq_none_iff.1 hb
      simp only [List.mem_append, not_or]
      refine ⟨h, ?_⟩
      intro hm
      obtain ⟨e, he, hf⟩ := List.mem_map.1 hm
      have : e ∈ c.entries.filter (fun e => e.file = f) := by simp [he, hf]
      rw [hnil] at this
      exact absurd this (by simp)

/-- the newest entry of every file still has its character-level ranges -/
def WF (cks : List Ckpt) : Prop :=
  ∀ f e, (logEntries cks f).getLast? = some e → e.chars = some e.attr

theorem wf_nil : WF [] := by intro f e h; simp [logEntries] at h

/-- what the next checkpoint of a file starts from is what commit time reads -/
theorem previous_base (ms : MState) (f : Path) (h : WF ms.ckpts) :
    previous (baseView ms f) = previous (view ms f) := by
  unfold previous baseView view FileSt.toSys
  simp only [List.getLast?_map]
  cases hl : (logEntries ms.ckpts f).getLast? with
  | none => rfl
  | some e =>
    have := h f e hl
    simp [MEntry.base, MEntry.line, this]

theorem newEntry_base (ms : MState) (f : Path) (who : Author) (h : WF ms.ckpts) :
    newEntry? (baseView ms f) who = newEntry? (view ms f) who := by
  have hp := previous_base ms f h
  have hw : (baseView ms f).work = (view ms f).work := rfl
  have hi : (baseView ms f).initial = (view ms f).initial := rfl
  have he : (baseView ms f).entries.isEmpty = (view ms f).entries.isEmpty := by
    simp [baseView, view, FileSt.toSys]
  unfold newEntry?
  simp only [hp, hw, hi, he]

theorem mkEntries_chars (ms : MState) (who : Author) (sc : List Path) :
    ∀ e ∈ mkEntries ms who sc, e.chars = some e.attr := by
  intro e he
  unfold mkEntries at he
  obtain ⟨p, _, hp⟩ := List.mem_filterMap.1 he
  cases hn : newEntry? (baseView ms p) who with
  | none => simp [hn] at hp
  | some x => simp [hn] at hp; subst hp; rfl

theorem mkEntries_filter (ms : MState) (who : Author) (sc : List Path) (hnd : sc.Nodup) (f : Path) :
    (mkEntries ms who sc).filter (fun e => e.file = f) =
      if f ∈ sc then ((newEntry? (baseView ms f) who).map
        (fun e => (⟨f, e.snap, e.attr, some e.attr⟩ : MEntry))).toList else [] := by
  induction sc with
  | nil => rfl
  | cons p ps ih =>
    have hnd' := List.nodup_cons.1 hnd
    have ih' := ih hnd'.2
    unfold mkEntries at ih' ⊢
    simp only [List.filterMap_cons]
    by_cases hpf : p = f
    · subst hpf
      have hnot : p ∉ ps := hnd'.1
      simp only [hnot, if_false] at ih'
      cases hn : newEntry? (baseView ms p) who with
      | none => simp [ih']
      | some x => simp [ih']
    · have hfp : f ≠ p := fun e => hpf e.symm
      cases hn : newEntry? (baseView ms p) who with
      | none => simp [ih', hfp]
      | some x => simp [hpf, ih', hfp]

theorem checkpointM_files (ms : MState) (who : Author) (sc : List Path) :
    (checkpointM ms who sc).files = ms.files ∧ (checkpointM ms who sc).paths = ms.paths := by
  unfold checkpointM; simp only; split <;> exact ⟨rfl, rfl⟩

theorem wf_checkpointM (ms : MState) (who : Author) (sc : List Path) (hwf : WF ms.ckpts) :
    WF (checkpointM ms who sc).ckpts := by
  unfold checkpointM
  simp only
  split
  · exact hwf
  · intro f e hl
    simp only [prune] at hl
    rw [pruneAux_latest _ [] f (by simp)] at hl
    simp only [logEntries, List.getLast?_append] at hl
    cases hb : ((mkEntries ms who sc).filter (fun e => e.file = f)).getLast? with
    | none =>
      rw [hb] at hl
      exact hwf f e (by simpa using hl)
    | some e' =>
      rw [hb] at hl
      have : e' = e := by simpa using hl
      subst this
      have hm := List.mem_of_getLast? hb
      exact mkEntries_chars ms who sc e' (List.mem_filter.1 hm).1

/-- **a checkpoint over `sc`, seen from one file**: it is `Sys.checkpoint` for the files in `sc`
    and nothing for every other file -/
theorem view_checkpointM (ms : MState) (who : Author) (sc : List Path) (hnd : sc.Nodup)
    (hwf : WF ms.ckpts) (f : Path) :
    view (checkpointM ms who sc) f = if f ∈ sc then checkpoint (view ms f) who else view ms f := by
  have hfil := mkEntries_filter ms who sc hnd f
  rw [newEntry_base ms f who hwf] at hfil
  rw [checkpoint_eq_newEntry]
  unfold checkpointM
  simp only
  split
  · rename_i hes
    have hnil : mkEntries ms who sc = [] := by simpa using hes
    rw [hnil] at hfil
    by_cases hf : f ∈ sc
    · simp only [hf, if_true] at hfil ⊢
      cases hn : newEntry? (view ms f) who with
      | none => rfl
      | some x => rw [hn] at hfil; simp at hfil
    · simp [hf]
  · have hl : (logEntries (prune (⟨who, mkEntries ms who sc⟩ :: ms.ckpts)) f).map MEntry.line
        = (logEntries ms.ckpts f).map MEntry.line
          ++ ((mkEntries ms who sc).filter (fun e => e.file = f)).map MEntry.line := by
      simp only [prune, pruneAux_line, logEntries, List.map_append]
    have hv : view { ms with ckpts := prune (⟨who, mkEntries ms who sc⟩ :: ms.ckpts) } f
        = { view ms f with entries := (view ms f).entries
              ++ ((mkEntries ms who sc).filter (fun e => e.file = f)).map MEntry.line } := by
      simp only [view, FileSt.toSys, hl]
    rw [hv, hfil]
    by_cases hf : f ∈ sc
    · simp only [hf, if_true]
      cases hn : newEntry? (view ms f) who with
      | none => simp
      | some x => simp [MEntry.line]
    · simp [hf]

/-! ### one step, seen from one file -/

/-- the only place where the one-file protocol and the code can part: an agent names a file whose
    pre-edit checkpoint did not examine it (git reports it unchanged and it has no entry) — then the
    one-file model's pre-edit checkpoint must be a no-op too, which it is unless the file carries
    INITIAL claims (the model would force an entry for them) -/
def PreExactOp (ms : MState) (f : Path) : MOp → Prop
  | .aiEdit _ edits => f ∈ named edits → f ∉ humanScope ms (named edits) → (ms.files f).initial = []
  | _ => True

def PreExact (ms : MState) (f : Path) : List MOp → Prop
  | [] => True
  | op :: ops => PreExactOp ms f op ∧ PreExact (stepM ms op) f ops

theorem not_mem_logFiles_of_not_mem_scope (ms : MState) (nm : List Path) (f : Path)
    (h : f ∉ humanScope ms nm) : f ∉ logFiles ms.ckpts := by
  intro hm
  apply h
  unfold humanScope
  simp only [mem_dedup, List.mem_append]
  exact Or.inr hm

/-- a named file outside the pre-edit checkpoint's scope is unchanged and has no entry -/
theorem unchanged_of_named_not_in_scope (ms : MState) (nm : List Path) (f : Path) (hn : f ∈ nm)
    (h : f ∉ humanScope ms nm) : changed (ms.files f) = false := by
  cases hc : changed (ms.files f) with
  | false => rfl
  | true =>
    exfalso
    apply h
    unfold humanScope
    simp only [mem_dedup, List.mem_append, List.mem_filter]
    left
    refine ⟨?_, hc⟩
    have hne : (nm ++ ms.paths.filter (fun p => !(ms.files p).initial.isEmpty) ++ logFiles ms.ckpts).isEmpty = false := by
      cases nm with
      | nil => simp at hn
      | cons a as => rfl
    simp only [hne]
    simp [hn]

theorem checkpoint_noop_of_out_of_scope (ms : MState) (nm : List Path) (f : Path) (hn : f ∈ nm)
    (h : f ∉ humanScope ms nm) (hi : (ms.files f).initial = []) :
    checkpoint (view ms f) none = view ms f := by
  have hlog := logEntries_nil_of_not_mem _ _ (not_mem_logFiles_of_not_mem_scope ms nm f h)
  have hc := unchanged_of_named_not_in_scope ms nm f hn h
  unfold changed at hc
  simp only [Bool.or_eq_false_iff, bne_eq_false_iff_eq] at hc
  unfold checkpoint previous view FileSt.toSys
  simp [hlog, hi, hc.1, hc.2]

theorem run_single (st : State) (op : Op) : run st [op] = step st op := rfl

theorem view_files_congr (ms ms' : MState) (f : Path) (hf : ms'.files f = ms.files f) (hc : ms'.ckpts = ms.ckpts) :
    view ms' f = view ms f := by
  unfold view; rw [hf, hc]

/-- **one multi-file operation, seen from file `f`, is the run of the one-file operations that
    concern `f`** (and the newest entry of every file keeps its ranges) -/
theorem view_stepM (ms : MState) (op : MOp) (f : Path) (hwf : WF ms.ckpts) (hx : PreExactOp ms f op) :
    view (stepM ms op) f = run (view ms f) (concern ms f op) := by
  cases op with
  | humanEdit p ys =>
    by_cases h : p = f
    · subst h; simp [stepM, concern, view, setFile, run, step, FileSt.toSys]
    · have h' : f ≠ p := fun e => h e.symm
      simp [stepM, concern, view, setFile, run, h, h']
  | stage p ys =>
    by_cases h : p = f
    · subst h; simp [stepM, concern, view, setFile, run, step, FileSt.toSys]
    · have h' : f ≠ p := fun e => h e.symm
      simp [stepM, concern, view, setFile, run, h, h']
  | stageAll fs =>
    by_cases h : f ∈ fs
    · simp [stepM, concern, view, addAll_at, h, run, step, FileSt.toSys]
    · simp [stepM, concern, view, addAll_at, h, run]
  | humanCheckpoint nm =>
    simp only [stepM, concern]
    rw [view_checkpointM ms none _ (humanScope_nodup ms (dedup nm)) hwf f]
    by_cases h : f ∈ humanScope ms (dedup nm) <;> simp [h, run, step]
  | plainCheckpoint =>
    simp only [stepM, concern]
    rw [view_checkpointM ms none _ (humanScope_nodup ms (changedPaths ms)) hwf f]
    by_cases h : f ∈ humanScope ms (changedPaths ms) <;> simp [h, run, step]
  | aiEdit s edits =>
    simp only [stepM, concern, aiReport]
    have hwf1 := wf_checkpointM ms none (humanScope ms (named edits)) hwf
    have hv1 := view_checkpointM ms none _ (humanScope_nodup ms (named edits)) hwf f
    obtain ⟨hf1, _⟩ := checkpointM_files ms none (humanScope ms (named edits))
    -- the state after the agent's writes
    have hv2 : view (⟨writeAll (checkpointM ms none (humanScope ms (named edits))).files edits,
          (checkpointM ms none (humanScope ms (named edits))).paths,
          (checkpointM ms none (humanScope ms (named edits))).ckpts⟩ : MState) f
        = { view (checkpointM ms none (humanScope ms (named edits))) f with
            work := (writeAll ms.files edits f).work } := by
      unfold view
      simp only [hf1]
      rw [writeAll_fields]
      simp [FileSt.toSys]
    have hv3 := view_checkpointM (⟨writeAll (checkpointM ms none (humanScope ms (named edits))).files edits,
          (checkpointM ms none (humanScope ms (named edits))).paths,
          (checkpointM ms none (humanScope ms (named edits))).ckpts⟩ : MState) (some s) _ (named_nodup edits) hwf1 f
    show view (checkpointM (⟨writeAll (checkpointM ms none (humanScope ms (named edits))).files edits,
          (checkpointM ms none (humanScope ms (named edits))).paths,
          (checkpointM ms none (humanScope ms (named edits))).ckpts⟩ : MState) (some s) (named edits)) f = _
    rw [hv3, hv2, hv1]
    by_cases hn : f ∈ named edits
    · simp only [hn, if_true, run_single, step]
      by_cases hs : f ∈ humanScope ms (named edits)
      · simp only [hs, if_true]
      · simp only [hs, if_false]
        rw [checkpoint_noop_of_out_of_scope ms _ f hn hs (hx hn hs)]
    · have hne : f ∉ edits.map (·.1) := by
        intro hm; exact hn ((mem_dedup _ _).2 hm)
      have hsame : (writeAll ms.files edits f).work = (ms.files f).work := by rw [writeAll_other _ _ _ hne]
      simp only [hn, if_false, hsame]
      by_cases hs : f ∈ humanScope ms (named edits)
      · simp only [hs, if_true, run_single, step]
        obtain ⟨hw, _⟩ := checkpoint_fields (view ms f) none
        have : (view ms f).work = (ms.files f).work := rfl
        rw [← this, ← hw]
      · simp only [hs, if_false]
        show { view ms f with work := (ms.files f).work } = run (view ms f) []
        rfl
  | commit =>
    simp only [stepM, concern, run_single, step]
    have hv1 := view_checkpointM ms none _ (humanScope_nodup ms []) hwf f
    have hcore : view { checkpointM ms none (humanScope ms []) with
          files := fun p => FileSt.ofSys (commitCore (view (checkpointM ms none (humanScope ms [])) p)),
          ckpts := [] } f = commitCore (view (checkpointM ms none (humanScope ms [])) f) := by
      unfold view
      simp only [logEntries, List.map_nil]
      exact toSys_ofSys _ rfl
    rw [hcore, hv1, commitStep_eq_commitCore]
    by_cases hs : f ∈ humanScope ms []
    · simp only [hs, if_true]
    · simp only [hs, if_false]
      have hlog := logEntries_nil_of_not_mem _ _ (not_mem_logFiles_of_not_mem_scope ms [] f hs)
      rw [commitCore_checkpoint_nil]
      simp [view, FileSt.toSys, hlog]

theorem wf_stepM (ms : MState) (op : MOp) (hwf : WF ms.ckpts) : WF (stepM ms op).ckpts := by
  cases op with
  | humanEdit p ys => exact hwf
  | stage p ys => exact hwf
  | stageAll fs => exact hwf
  | humanCheckpoint nm => exact wf_checkpointM _ _ _ hwf
  | plainCheckpoint => exact wf_checkpointM _ _ _ hwf
  | aiEdit s edits =>
    simp only [stepM, aiReport]
    apply wf_checkpointM
    exact wf_checkpointM _ _ _ hwf
  | commit => exact wf_nil

theorem wf_runM (ms : MState) (ops : List MOp) (hwf : WF ms.ckpts) : WF (runM ms ops).ckpts := by
  induction ops generalizing ms with
  | nil => exact hwf
  | cons op ops ih => exact ih (stepM ms op) (wf_stepM ms op hwf)

theorem run_append (st : State) (a b : List Op) : run st (a ++ b) = run (run st a) b := by
  simp [run, List.foldl_append]

theorem view_runM (ms : MState) (ops : List MOp) (f : Path) (hwf : WF ms.ckpts) (hx : PreExact ms f ops) :
    view (runM ms ops) f = run (view ms f) (projOps ms f ops) := by
  induction ops generalizing ms with
  | nil => rfl
  | cons op ops ih =>
    simp only [runM, List.foldl_cons, projOps, run_append] at ih ⊢
    rw [ih (stepM ms op) (wf_stepM ms op hwf) hx.2, view_stepM ms op f hwf hx.1]

theorem projOps_append (ms : MState) (f : Path) (a b : List MOp) :
    projOps ms f (a ++ b) = projOps ms f a ++ projOps (runM ms a) f b := by
  induction a generalizing ms with
  | nil => rfl
  | cons op a ih =>
    simp only [List.cons_append, projOps, ih, List.append_assoc, runM, List.foldl_cons]

theorem preExact_append (ms : MState) (f : Path) (a b : List MOp) (ha : PreExact ms f a)
    (hb : PreExact (runM ms a) f b) : PreExact ms f (a ++ b) := by
  induction a generalizing ms with
  | nil => exact hb
  | cons op a ih => exact ⟨ha.1, ih (stepM ms op) ha.2 hb⟩

/-! ### the edit phase keeps INITIAL empty -/

def EditOp : MOp → Prop
  | .humanEdit _ _ => True
  | .aiEdit _ _ => True
  | .humanCheckpoint _ => True
  | .plainCheckpoint => True
  | _ => False

theorem initial_stepM_edit (ms : MState) (op : MOp) (f : Path) (he : EditOp op) :
    ((stepM ms op).files f).initial = (ms.files f).initial := by
  cases op with
  | humanEdit p ys =>
    by_cases h : f = p <;> simp [stepM, setFile, h]
  | humanCheckpoint nm => simp only [stepM, (checkpointM_files _ _ _).1]
  | plainCheckpoint => simp only [stepM, (checkpointM_files _ _ _).1]
  | aiEdit s edits =>
    simp only [stepM, aiReport, (checkpointM_files _ _ _).1]
    rw [writeAll_fields]
  | stage p ys => exact absurd he (by simp [EditOp])
  | stageAll fs => exact absurd he (by simp [EditOp])
  | commit => exact absurd he (by simp [EditOp])

theorem preExact_edit (ms : MState) (f : Path) (ops : List MOp) (he : ∀ op ∈ ops, EditOp op)
    (hi : (ms.files f).initial = []) : PreExact ms f ops := by
  induction ops generalizing ms with
  | nil => trivial
  | cons op ops ih =>
    refine ⟨?_, ih (stepM ms op) (fun o ho => he o (List.mem_cons_of_mem _ ho)) ?_⟩
    · cases op <;> first | trivial | (intro _ _; exact hi)
    · rw [initial_stepM_edit ms op f (he op (by simp))]; exact hi

end GitAi.SysMulti
