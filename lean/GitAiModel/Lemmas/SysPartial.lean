/-
  Lemmas/SysPartial.lean — the working-log invariant of Model/Sys.lean generalised to partial
  commits: pending attribution (INITIAL, bare line numbers) left by a commit that takes only part
  of the working tree, and its hand-over to the next working log.
-/
import GitAiModel.Lemmas.Sys
namespace GitAi.Sys

/-! ### positions -/

theorem mem_enumFrom' {α} (k : Nat) (l : List α) (i : Nat) (y : α) (h : (i, y) ∈ enumFrom k l) :
    y ∈ l ∧ k ≤ i := by
  induction l generalizing k with
  | nil => simp [enumFrom] at h
  | cons x xs ih =>
    simp only [enumFrom, List.mem_cons, Prod.mk.injEq] at h
    rcases h with ⟨rfl, rfl⟩ | h
    · exact ⟨by simp, Nat.le_refl _⟩
    · obtain ⟨h1, h2⟩ := ih (k + 1) h
      exact ⟨List.mem_cons_of_mem _ h1, by omega⟩

theorem exists_enumFrom {α} (k : Nat) (l : List α) (y : α) (h : y ∈ l) : ∃ i, (i, y) ∈ enumFrom k l := by
  induction l generalizing k with
  | nil => simp at h
  | cons x xs ih =>
    simp only [List.mem_cons] at h
    rcases h with rfl | h
    · exact ⟨k, by simp [enumFrom]⟩
    · obtain ⟨i, hi⟩ := ih (k + 1) h
      exact ⟨i, by simp [enumFrom, hi]⟩

/-- claims generated from a content by a per-id author function -/
def claimsFrom (k : Nat) (l : List Nat) (F : Nat → Author) : List (Nat × Nat) :=
  (enumFrom k l).filterMap (fun p => (F p.2).map (fun s => (p.1, s)))

theorem claimsFrom_index_ge (k : Nat) (l : List Nat) (F : Nat → Author) :
    ∀ p ∈ claimsFrom k l F, k ≤ p.1 := by
  intro p hp
  simp only [claimsFrom, List.mem_filterMap] at hp
  obtain ⟨⟨i, y⟩, hm, hf⟩ := hp
  cases hF : F y with
  | none => simp [hF] at hf
  | some s =>
    simp [hF] at hf
    subst hf
    exact (mem_enumFrom' k l i y hm).2

/-- looking a line number up in the claims gives back the author function at that line -/
theorem initialAuthor_claimsFrom (k : Nat) (l : List Nat) (F : Nat → Author) (i y : Nat)
    (h : (i, y) ∈ enumFrom k l) (hnd : l.Nodup) :
    initialAuthor (claimsFrom k l F) i = F y := by
  induction l generalizing k with
  | nil => simp [enumFrom] at h
  | cons x xs ih =>
    have hnd' : xs.Nodup := (List.nodup_cons.1 hnd).2
    simp only [enumFrom, List.mem_cons, Prod.mk.injEq] at h
    have hrest : ∀ p ∈ claimsFrom (k + 1) xs F, k + 1 ≤ p.1 := claimsFrom_index_ge (k + 1) xs F
    rcases h with ⟨rfl, rfl⟩ | h
    · -- the head position
      unfold initialAuthor claimsFrom
      simp only [enumFrom, List.filterMap_cons]
      cases hF : F y with
      | none =>
        simp only [Option.map_none]
        have : List.find? (fun p => decide (p.1 = i)) (claimsFrom (i + 1) xs F) = none := by
          rw [List.find?_eq_none]
          intro p hp
          have := hrest p hp
          simp; omega
        unfold claimsFrom at this
        rw [this]
      | some s => simp
    · -- a later position: the head claim (if any) has index k ≠ i
      obtain ⟨_, hge⟩ := mem_enumFrom' (k + 1) xs i y h
      have ih' := ih (k + 1) h hnd'
      unfold initialAuthor claimsFrom at ih' ⊢
      simp only [enumFrom, List.filterMap_cons]
      cases hF : F x with
      | none => simpa using ih'
      | some s =>
        simp only [Option.map_some]
        rw [List.find?_cons_of_neg (by simp; omega)]
        exact ih'

theorem map_initialAuthor_claimsFrom (l : List Nat) (F : Nat → Author) (hnd : l.Nodup) :
    (enum1 l).map (fun p => initialAuthor (claimsFrom 1 l F) p.1) = l.map F := by
  have h1 : (enum1 l).map (fun p => initialAuthor (claimsFrom 1 l F) p.1) = (enum1 l).map (fun p => F p.2) := by
    apply List.map_congr_left
    intro ⟨i, y⟩ hm
    exact initialAuthor_claimsFrom 1 l F i y hm hnd
  rw [h1]
  have : ∀ (k : Nat) (l : List Nat), (enumFrom k l).map (fun p => F p.2) = l.map F := by
    intro k l
    induction l generalizing k with
    | nil => rfl
    | cons x xs ih => simp [enumFrom, ih]
  exact this 1 l

/-! ### the generalised invariant -/

/-- the pending claims a state must carry when its working log is still empty: working-tree lines
    not in HEAD whose ghost author is a session, at their working-tree line number -/
def pendingOf (sp : Spec) : List (Nat × Nat) := claimsFrom 1 sp.st.work (target sp)

/-- what a state whose working log is still empty must satisfy. Either nothing is pending and
    every line of the working tree is nobody's (the next checkpoint diffs against HEAD), or INITIAL
    lists exactly the AI lines of the content recorded with it, and whatever the working tree has
    beyond that content is nobody's (the next checkpoint diffs against the recorded content). -/
def PendingOK (sp : Spec) : Prop :=
  (sp.st.initial = [] ∧ ∀ y ∈ sp.st.work, target sp y = none) ∨
  (sp.st.initial ≠ [] ∧ sp.st.initial = claimsFrom 1 sp.st.initSnap (target sp) ∧ sp.st.initSnap.Nodup ∧
    (∀ y ∈ sp.st.initSnap, y ∈ sp.seen) ∧ ∀ y ∈ sp.st.work, y ∉ sp.st.initSnap → target sp y = none)

structure Inv2 (sp : Spec) : Prop where
  nodup : sp.st.work.Nodup
  workSeen : ∀ y ∈ sp.st.work, y ∈ sp.seen
  headSeen : ∀ y ∈ sp.st.head, y ∈ sp.seen
  snapSeen : ∀ e ∈ sp.st.entries, ∀ y ∈ e.snap, y ∈ sp.seen
  latest : match sp.st.entries.getLast? with
    | some e => e.attr = e.snap.map (target sp) ∧ ∀ y ∈ sp.st.work, y ∉ e.snap → target sp y = none
    | none => PendingOK sp

theorem pendingOf_nil (sp : Spec) (h : pendingOf sp = []) :
    ∀ y ∈ sp.st.work, target sp y = none := by
  intro y hy
  obtain ⟨i, hi⟩ := exists_enumFrom 1 sp.st.work y hy
  unfold pendingOf claimsFrom at h
  rw [List.filterMap_eq_nil_iff] at h
  have := h (i, y) hi
  simpa using this

/-- the pending claims written together with the working tree they describe satisfy `PendingOK` -/
theorem PendingOK.of_work {sp : Spec} (hi : sp.st.initial = pendingOf sp) (hs : sp.st.initSnap = sp.st.work)
    (hnd : sp.st.work.Nodup) (hseen : ∀ y ∈ sp.st.work, y ∈ sp.seen) : PendingOK sp := by
  by_cases he : sp.st.initial = []
  · left
    exact ⟨he, pendingOf_nil sp (by rw [← hi]; exact he)⟩
  · right
    refine ⟨he, ?_, ?_, ?_, ?_⟩
    · rw [hs]; exact hi
    · rw [hs]; exact hnd
    · rw [hs]; exact hseen
    · intro y hy hn; rw [hs] at hn; exact absurd hy hn

theorem claimsFrom_nil_target (l : List Nat) (F : Nat → Author) (h : claimsFrom 1 l F = []) :
    ∀ y ∈ l, F y = none := by
  intro y hy
  obtain ⟨i, hi⟩ := exists_enumFrom 1 l y hy
  unfold claimsFrom at h
  rw [List.filterMap_eq_nil_iff] at h
  have := h (i, y) hi
  simpa using this

/-- what the next checkpoint diffs against, in the generalised setting -/
theorem previous_spec2 (sp : Spec) (h : Inv2 sp) :
    (previous sp.st).attr = (previous sp.st).snap.map (target sp) ∧
    (∀ y ∈ (previous sp.st).snap, y ∈ sp.seen) ∧
    (∀ y ∈ sp.st.work, y ∉ (previous sp.st).snap → target sp y = none) := by
  unfold previous
  have hl := h.latest
  cases he : sp.st.entries.getLast? with
  | some e =>
    rw [he] at hl
    simp only
    refine ⟨hl.1, h.snapSeen e (List.mem_of_getLast? he), ?_⟩
    intro y hy hn
    exact hl.2 y hy hn
  | none =>
    rw [he] at hl
    simp only
    rcases hl with ⟨hi, hnone⟩ | ⟨hne, hi, hnd, hseen, hrest⟩
    · simp only [hi, List.isEmpty_nil, if_true]
      refine ⟨?_, h.headSeen, fun y hy _ => hnone y hy⟩
      apply List.map_congr_left
      intro y hy
      simp [target, hy]
    · have hemp : sp.st.initial.isEmpty = false := by
        cases hx : sp.st.initial with
        | nil => exact absurd hx hne
        | cons a as => rfl
      simp only [hemp, Bool.false_eq_true, if_false]
      refine ⟨?_, hseen, hrest⟩
      rw [hi]
      exact map_initialAuthor_claimsFrom sp.st.initSnap (target sp) hnd

end GitAi.Sys

namespace GitAi.Sys

theorem claimsFrom_eq_nil (k : Nat) (l : List Nat) (F : Nat → Author) (h : ∀ y ∈ l, F y = none) :
    claimsFrom k l F = [] := by
  unfold claimsFrom
  rw [List.filterMap_eq_nil_iff]
  intro ⟨i, y⟩ hm
  simp [h y (mem_enumFrom' k l i y hm).1]

theorem claimsFrom_congr (k : Nat) (l : List Nat) (F G : Nat → Author) (h : ∀ y ∈ l, F y = G y) :
    claimsFrom k l F = claimsFrom k l G := by
  unfold claimsFrom
  apply filterMap_congr_mem
  intro ⟨i, y⟩ hm
  simp [h y (mem_enumFrom' k l i y hm).1]

/-- INITIAL (if any) has been taken over by a working-log entry -/
def Settled (st : State) : Prop := st.entries ≠ [] ∨ st.initial = []

theorem previous_snap_after_checkpoint (st : State) (who : Author) :
    (previous (checkpoint st who)).snap = st.work := by
  unfold checkpoint
  simp only
  split
  · rename_i h
    simp only [Bool.and_eq_true, decide_eq_true_eq] at h
    exact h.1
  · unfold previous
    simp [List.getLast?_append]

theorem settled_after_checkpoint (st : State) (who : Author) : Settled (checkpoint st who) := by
  unfold checkpoint Settled
  simp only
  split
  · rename_i h
    simp only [Bool.and_eq_true, decide_eq_true_eq, Bool.not_eq_true', Bool.and_eq_false_iff,
      Bool.not_eq_false'] at h
    rcases h.2 with h2 | h2
    · left; simpa using h2
    · right; simpa using h2
  · left; simp

theorem previous_work_irrelevant2 (st : State) (ys : List Nat) :
    previous { st with work := ys } = previous st := by
  unfold previous
  rfl

/-- a checkpoint by `who` establishes the invariant provided every line that is not in the
    previous snapshot belongs to `who` (generalised to states with pending INITIAL) -/
theorem checkpoint_gen2 (sp : Spec) (who : Author)
    (nodup : sp.st.work.Nodup) (workSeen : ∀ y ∈ sp.st.work, y ∈ sp.seen)
    (headSeen : ∀ y ∈ sp.st.head, y ∈ sp.seen)
    (snapSeen : ∀ e ∈ sp.st.entries, ∀ y ∈ e.snap, y ∈ sp.seen)
    (prevAttr : (previous sp.st).attr = (previous sp.st).snap.map (target sp))
    (hnew : ∀ y ∈ sp.st.work, y ∉ (previous sp.st).snap → target sp y = who)
    (hpend : sp.st.entries.getLast? = none → (previous sp.st).snap = sp.st.work → sp.st.initial = [] →
      PendingOK sp) :
    Inv2 ⟨checkpoint sp.st who, sp.g, sp.seen⟩ := by
  unfold checkpoint
  simp only
  split
  · -- unchanged: the previous snapshot is the working tree and no INITIAL waits to be taken over
    rename_i hcond
    simp only [Bool.and_eq_true, decide_eq_true_eq, Bool.not_eq_true', Bool.and_eq_false_iff,
      Bool.not_eq_false'] at hcond
    obtain ⟨hsnap, hset⟩ := hcond
    refine ⟨nodup, workSeen, headSeen, snapSeen, ?_⟩
    show match sp.st.entries.getLast? with
      | some e => _
      | none => _
    have hsnap0 := hsnap
    unfold previous at prevAttr hsnap
    cases he : sp.st.entries.getLast? with
    | some e =>
      rw [he] at prevAttr hsnap
      simp only at prevAttr hsnap ⊢
      exact ⟨prevAttr, fun y hy hn => absurd (hsnap ▸ hy) hn⟩
    | none =>
      have hent : sp.st.entries = [] := by simpa using he
      have hiemp : sp.st.initial.isEmpty = true := by
        rcases hset with h | h
        · simp [hent] at h
        · exact h
      have hi : sp.st.initial = [] := by simpa using hiemp
      simp only
      exact hpend he hsnap0 hi
  · -- a new entry is appended
    have hattr : checkpointAttr (previous sp.st) sp.st.work who = sp.st.work.map (target sp) := by
      unfold checkpointAttr
      apply List.map_congr_left
      intro y hy
      rw [prevAttr, lookup_map]
      by_cases hm : y ∈ (previous sp.st).snap
      · simp [hm]
      · simp [hm, hnew y hy hm]
    refine ⟨nodup, workSeen, headSeen, ?_, ?_⟩
    · intro e he y hy
      simp only [List.mem_append, List.mem_singleton] at he
      rcases he with he | rfl
      · exact snapSeen e he y hy
      · exact workSeen y hy
    · simp only [List.getLast?_append, List.getLast?_singleton, Option.some_or]
      refine ⟨?_, ?_⟩
      · rw [hattr]; rfl
      · intro y hy hn; exact absurd hy hn

theorem humanCheckpoint_inv2 (sp : Spec) (h : Inv2 sp) :
    Inv2 ⟨checkpoint sp.st none, sp.g, sp.seen⟩ := by
  obtain ⟨pa, _, pg⟩ := previous_spec2 sp h
  refine checkpoint_gen2 sp none h.nodup h.workSeen h.headSeen h.snapSeen pa pg ?_
  intro he _ _
  have hl := h.latest
  rw [he] at hl
  exact hl

theorem target_credit (sp : Spec) (ys : List Nat) (who : Author) (st' : State)
    (hh : st'.head = sp.st.head) (y : Nat) (h : y ∈ sp.seen) :
    target ⟨st', credit sp ys who, sp.seen ++ ys⟩ y = target sp y := by
  simp [target, hh, credit_seen sp ys who y h]

/-- a person's edit keeps some current lines, may put lines of HEAD back (`git restore`,
    `git checkout -- <file>`, undo) and introduces fresh ids -/
def ValidEditH (sp : Spec) (ys : List Nat) : Prop :=
  ys.Nodup ∧ ∀ y ∈ ys, y ∈ sp.seen → y ∈ sp.st.work ∨ y ∈ sp.st.head

theorem ValidEdit.toH {sp : Spec} {ys : List Nat} (h : ValidEdit sp ys) : ValidEditH sp ys :=
  ⟨h.1, fun y hy hs => Or.inl (h.2 y hy hs)⟩

theorem humanEdit_inv2 (sp : Spec) (ys : List Nat) (h : Inv2 sp) (hv : ValidEditH sp ys) :
    Inv2 (specStep sp (.humanEdit ys)) := by
  obtain ⟨hnd, hkeep⟩ := hv
  have hl := h.latest
  -- a line of the edited file is a current line, a HEAD line or a fresh one; whenever the old
  -- state says "nobody's" for the first kind, the new state says so for all three
  have hline : ∀ y ∈ ys, (y ∈ sp.st.work → target sp y = none) →
      target (specStep sp (.humanEdit ys)) y = none := by
    intro y hy hw
    by_cases hsn : y ∈ sp.seen
    · have ht : target (specStep sp (.humanEdit ys)) y = target sp y :=
        target_credit sp ys none (step sp.st (.humanEdit ys)) rfl y hsn
      rw [ht]
      rcases hkeep y hy hsn with hw' | hh
      · exact hw hw'
      · simp [target, hh]
    · have hnh : y ∉ sp.st.head := fun hh => hsn (h.headSeen y hh)
      show (if y ∈ sp.st.head then none else credit sp ys none y) = none
      simp [hnh, credit_fresh sp ys none y hsn hy]
  refine ⟨hnd, ?_, ?_, ?_, ?_⟩
  · intro y hy; simp [specStep, step] at hy ⊢; exact Or.inr hy
  · intro y hy; simp [specStep, step] at hy ⊢; exact Or.inl (h.headSeen y hy)
  · intro e he y hy
    simp [specStep, step] at he ⊢
    exact Or.inl (h.snapSeen e he y hy)
  · show match (specStep sp (.humanEdit ys)).st.entries.getLast? with
      | some e => _
      | none => _
    have hent : (specStep sp (.humanEdit ys)).st.entries = sp.st.entries := rfl
    rw [hent]
    cases he : sp.st.entries.getLast? with
    | some e =>
      rw [he] at hl
      simp only
      have hsnap := h.snapSeen e (List.mem_of_getLast? he)
      refine ⟨?_, ?_⟩
      · rw [hl.1]
        apply List.map_congr_left
        intro y hy
        exact (target_credit sp ys none _ rfl y (hsnap y hy)).symm
      · intro y hy hn
        exact hline y hy (fun hw => hl.2 y hw hn)
    | none =>
      rw [he] at hl
      simp only
      rcases hl with ⟨hi, hnone⟩ | ⟨hne, hi, hndS, hseenS, hrest⟩
      · left
        exact ⟨hi, fun y hy => hline y hy (fun hw => hnone y hw)⟩
      · right
        refine ⟨hne, ?_, hndS, ?_, ?_⟩
        · show sp.st.initial = claimsFrom 1 sp.st.initSnap (target (specStep sp (.humanEdit ys)))
          rw [hi]
          apply claimsFrom_congr
          intro y hy
          exact (target_credit sp ys none _ rfl y (hseenS y hy)).symm
        · intro y hy
          show y ∈ sp.seen ++ ys
          exact List.mem_append_left _ (hseenS y hy)
        · intro y hy hn
          exact hline y hy (fun hw => hrest y hw hn)

theorem aiEdit_inv2 (sp : Spec) (s : Nat) (ys : List Nat) (h : Inv2 sp) (hv : ValidEdit sp ys) :
    Inv2 (specStep sp (.aiEdit s ys)) := by
  obtain ⟨hnd, hkeep⟩ := hv
  have h1 : Inv2 ⟨checkpoint sp.st none, sp.g, sp.seen⟩ := humanCheckpoint_inv2 sp h
  obtain ⟨hw1, hh1, _, _, _⟩ := checkpoint_fields sp.st none
  have hprev : (previous (checkpoint sp.st none)).snap = sp.st.work := previous_snap_after_checkpoint sp.st none
  let sp2 : Spec := ⟨{ checkpoint sp.st none with work := ys }, credit sp ys (some s), sp.seen ++ ys⟩
  have hprev2 : previous sp2.st = previous (checkpoint sp.st none) := previous_work_irrelevant2 _ ys
  obtain ⟨pa, ps, _⟩ := previous_spec2 _ h1
  have hnew : ∀ y ∈ sp2.st.work, y ∉ (previous sp2.st).snap → target sp2 y = some s := by
    intro y hy hn
    rw [hprev2, hprev] at hn
    have hy' : y ∈ ys := hy
    have hfresh : y ∉ sp.seen := fun hs => hn (hkeep y hy' hs)
    have hnh : y ∉ sp.st.head := fun hh => hfresh (h.headSeen y hh)
    have hnh2 : y ∉ sp2.st.head := by
      show y ∉ (checkpoint sp.st none).head
      rw [hh1]; exact hnh
    simp only [target, hnh2, if_false]
    exact credit_fresh sp ys (some s) y hfresh hy'
  refine checkpoint_gen2 sp2 (some s) hnd ?_ ?_ ?_ ?_ hnew ?_
  · intro y hy; simp [sp2] at hy ⊢; exact Or.inr hy
  · intro y hy; simp [sp2] at hy ⊢; exact Or.inl (h1.headSeen y hy)
  · intro e he y hy
    simp [sp2] at he ⊢
    exact Or.inl (h1.snapSeen e he y hy)
  · rw [hprev2, pa]
    apply List.map_congr_left
    intro y hy
    have hseen : y ∈ sp.seen := ps y hy
    show target ⟨checkpoint sp.st none, sp.g, sp.seen⟩ y = target sp2 y
    simp [target, sp2, credit_seen sp ys (some s) y hseen]
  · -- the agent changed nothing and nothing is pending: every line is a line the previous
    -- snapshot has, and those are known lines whose target did not change
    intro _ hsnap hi
    left
    refine ⟨hi, ?_⟩
    intro y hy
    have hy' : y ∈ ys := hy
    rw [hprev2, hprev] at hsnap
    have hw : y ∈ sp.st.work := by
      have : sp2.st.work = ys := rfl
      rw [this] at hsnap
      rw [hsnap]; exact hy'
    have hseen : y ∈ sp.seen := h.workSeen y hw
    have ht : target sp2 y = target sp y := by
      simp [target, sp2, hh1, credit_seen sp ys (some s) y hseen]
    rw [ht]
    -- nothing pending after the pre-edit checkpoint, and no entry: the old working tree is HEAD
    obtain ⟨_, _, pg⟩ := previous_spec2 _ h1
    have := pg y (by show y ∈ (checkpoint sp.st none).work; rw [hw1]; exact hw)
    by_cases hin : y ∈ (previous (checkpoint sp.st none)).snap
    · -- the snapshot is HEAD here (no entry, nothing pending)
      have hhead : (previous (checkpoint sp.st none)).snap = (checkpoint sp.st none).head := by
        have he1 : (checkpoint sp.st none).entries.getLast? = none := by assumption
        have hi1 : (checkpoint sp.st none).initial = [] := hi
        unfold previous
        simp [he1, hi1]
      rw [hhead, hh1] at hin
      simp [target, hin]
    · have htt : target ⟨checkpoint sp.st none, sp.g, sp.seen⟩ y = target sp y := by simp [target, hh1]
      rw [← htt]; exact this hin

end GitAi.Sys

namespace GitAi.Sys

/-- the commit is well-formed with respect to the ghost bookkeeping: staged ids are known, and a
    line common to HEAD and the working tree is part of what is committed (the staged version
    mixes HEAD and working-tree regions; it does not delete a line the working tree keeps) -/
def CommitOK (sp : Spec) : Prop :=
  (∀ y ∈ sp.st.index, y ∈ sp.seen) ∧ (∀ y ∈ sp.st.work, y ∈ sp.st.head → y ∈ sp.st.index)

/-- effective attribution right after the pre-commit checkpoint -/
theorem effective_after_checkpoint (sp : Spec) (h : Inv2 sp) :
    effective (checkpoint sp.st none) = sp.st.work.map (target sp) := by
  have hC : Inv2 ⟨checkpoint sp.st none, sp.g, sp.seen⟩ := humanCheckpoint_inv2 sp h
  obtain ⟨hwC, hhC, _, _, _⟩ := checkpoint_fields sp.st none
  have hprev : (previous (checkpoint sp.st none)).snap = sp.st.work := previous_snap_after_checkpoint sp.st none
  obtain ⟨paC, _, _⟩ := previous_spec2 _ hC
  have htgt : target ⟨checkpoint sp.st none, sp.g, sp.seen⟩ = target sp := by
    funext y; simp [target, hhC]
  rw [htgt] at paC
  unfold effective
  unfold previous at hprev paC
  cases he : (checkpoint sp.st none).entries.getLast? with
  | some e =>
    rw [he] at hprev paC
    simp only at hprev paC ⊢
    unfold checkpointAttr
    rw [hwC]
    apply List.map_congr_left
    intro y hy
    rw [paC, lookup_map, hprev]
    simp [hy]
  | none =>
    rw [he] at hprev paC
    simp only at hprev paC ⊢
    -- no entry after a checkpoint: INITIAL is empty (else an entry is forced) and work = HEAD
    have hset := settled_after_checkpoint sp.st none
    have hi : (checkpoint sp.st none).initial = [] := by
      rcases hset with h1 | h1
      · have : (checkpoint sp.st none).entries = [] := by simpa using he
        exact absurd this h1
      · exact h1
    simp only [hi, List.isEmpty_nil, if_true] at hprev paC
    rw [hwC]
    have hwh : sp.st.head = sp.st.work := by rw [← hhC]; exact hprev
    rw [hi, checkpointAttr_no_claims]
    apply List.map_congr_left
    intro y hy
    have : y ∈ sp.st.head := hwh ▸ hy
    simp [target, this]

/-- the note a commit of the staged content must carry -/
def expectedPartialNote (sp : Spec) : Note :=
  (enum1 sp.st.index).filterMap (fun p =>
    if sp.st.head.contains p.2 || !sp.st.work.contains p.2 then none else (sp.g p.2).map (fun s => (p.1, s)))

theorem commit_spec (sp : Spec) (h : Inv2 sp) (hok : CommitOK sp) :
    (commitStep sp.st).notes.head? = some (expectedPartialNote sp) ∧
    Inv2 ⟨commitStep sp.st, sp.g, sp.seen⟩ := by
  obtain ⟨hwC, hhC, _, hxC, _⟩ := checkpoint_fields sp.st none
  have heff := effective_after_checkpoint sp h
  have hauthor : ∀ y, (lookup (checkpoint sp.st none).work (effective (checkpoint sp.st none)) y).getD none
      = if y ∈ sp.st.work then target sp y else none := by
    intro y
    rw [heff, hwC, lookup_map]
    by_cases hy : y ∈ sp.st.work <;> simp [hy]
  constructor
  · unfold commitStep expectedPartialNote
    simp only [List.head?_cons]
    congr 1
    rw [hxC]
    apply filterMap_congr_mem
    intro ⟨i, y⟩ _
    simp only [hauthor y, hhC]
    by_cases hh : y ∈ sp.st.head
    · simp [hh]
    · by_cases hw : y ∈ sp.st.work
      · simp [hh, hw, target]
      · simp [hh, hw]
  · -- the state after the commit: HEAD = staged content, empty working log, INITIAL = pending
    refine ⟨?_, ?_, ?_, ?_, ?_⟩
    · show (commitStep sp.st).work.Nodup
      unfold commitStep; simp only; rw [hwC]; exact h.nodup
    · intro y hy
      have : y ∈ sp.st.work := by
        have : (commitStep sp.st).work = sp.st.work := by unfold commitStep; simp only; rw [hwC]
        exact this ▸ hy
      exact h.workSeen y this
    · intro y hy
      have : y ∈ sp.st.index := by
        have : (commitStep sp.st).head = sp.st.index := by unfold commitStep; simp only; rw [hxC]
        exact this ▸ hy
      exact hok.1 y this
    · intro e he
      have : (commitStep sp.st).entries = [] := by unfold commitStep; rfl
      rw [this] at he
      simp at he
    · have hent : (commitStep sp.st).entries = [] := by unfold commitStep; rfl
      have hgoal : (commitStep sp.st).initial = pendingOf ⟨commitStep sp.st, sp.g, sp.seen⟩ := by
        -- INITIAL written by the commit = pendingOf the new state
        unfold commitStep pendingOf claimsFrom
        simp only
        rw [hwC, hxC]
        show List.filterMap _ (enum1 sp.st.work) = List.filterMap _ (enumFrom 1 sp.st.work)
        unfold enum1
        apply filterMap_congr_mem
        intro ⟨i, y⟩ hm
        have hy : y ∈ sp.st.work := (mem_enumFrom' 1 _ i y hm).1
        have hau := hauthor y
        rw [hwC] at hau
        simp only [hau, hy, if_true]
        by_cases hx : y ∈ sp.st.index
        · simp [hx, target]
        · have hnh : y ∉ sp.st.head := fun hh => hx (hok.2 y hy hh)
          simp [hx, target, hnh]
      show match (commitStep sp.st).entries.getLast? with
        | some e => e.attr = e.snap.map (target ⟨commitStep sp.st, sp.g, sp.seen⟩) ∧
            ∀ y ∈ (commitStep sp.st).work, y ∉ e.snap → target ⟨commitStep sp.st, sp.g, sp.seen⟩ y = none
        | none => PendingOK ⟨commitStep sp.st, sp.g, sp.seen⟩
      rw [hent]
      simp only [List.getLast?_nil]
      have hwk : (commitStep sp.st).work = sp.st.work := by unfold commitStep; simp only; rw [hwC]
      have hsn : (commitStep sp.st).initSnap = (commitStep sp.st).work := by unfold commitStep; rfl
      apply PendingOK.of_work hgoal hsn
      · show (commitStep sp.st).work.Nodup
        rw [hwk]; exact h.nodup
      · intro y hy
        have : y ∈ sp.st.work := hwk ▸ hy
        exact h.workSeen y this

end GitAi.Sys

namespace GitAi.Sys

/-- validity of an operation in histories with partial commits. A person's edit is allowed
    at any time, also between a partial commit and the next checkpoint: pending attribution
    (INITIAL) is recorded together with the content it refers to and is carried over through it. -/
def ValidOp2 (sp : Spec) : Op → Prop
  | .humanEdit ys => ValidEditH sp ys
  | .aiEdit _ ys => ValidEdit sp ys
  | .humanCheckpoint => True
  | .stageAll => True
  | .stage _ => True
  | .commit => CommitOK sp

def ValidOps2 : Spec → List Op → Prop
  | _, [] => True
  | sp, op :: ops => ValidOp2 sp op ∧ ValidOps2 (specStep sp op) ops

theorem specStep_inv2 (sp : Spec) (op : Op) (h : Inv2 sp) (hv : ValidOp2 sp op) :
    Inv2 (specStep sp op) := by
  cases op with
  | humanEdit ys => exact humanEdit_inv2 sp ys h hv
  | aiEdit s ys => exact aiEdit_inv2 sp s ys h hv
  | humanCheckpoint => exact humanCheckpoint_inv2 sp h
  | stageAll => exact ⟨h.nodup, h.workSeen, h.headSeen, h.snapSeen, h.latest⟩
  | stage ys => exact ⟨h.nodup, h.workSeen, h.headSeen, h.snapSeen, h.latest⟩
  | commit => exact (commit_spec sp h hv).2

theorem specRun_inv2 (sp : Spec) (ops : List Op) (h : Inv2 sp) (hv : ValidOps2 sp ops) :
    Inv2 (specRun sp ops) := by
  induction ops generalizing sp with
  | nil => exact h
  | cons op ops ih => exact ih (specStep sp op) (specStep_inv2 sp op h hv.1) hv.2

theorem validOps2_append (sp : Spec) (a b : List Op) (h : ValidOps2 sp (a ++ b)) :
    ValidOps2 sp a ∧ ValidOps2 (specRun sp a) b := by
  induction a generalizing sp with
  | nil => exact ⟨trivial, h⟩
  | cons op a ih =>
    obtain ⟨h1, h2⟩ := h
    obtain ⟨i1, i2⟩ := ih (specStep sp op) h2
    exact ⟨⟨h1, i1⟩, i2⟩

/-- the clean start: working tree = index = HEAD, empty working log, nothing pending -/
def cleanSpec (h0 : List Nat) (g0 : Nat → Author) : Spec :=
  ⟨{ head := h0, index := h0, work := h0 }, g0, h0⟩

theorem cleanSpec_inv2 (h0 : List Nat) (g0 : Nat → Author) (hnd : h0.Nodup) : Inv2 (cleanSpec h0 g0) := by
  refine ⟨hnd, fun y hy => hy, fun y hy => hy, by intro e he; simp [cleanSpec] at he, ?_⟩
  show PendingOK (cleanSpec h0 g0)
  left
  refine ⟨rfl, ?_⟩
  intro y hy
  have : y ∈ (cleanSpec h0 g0).st.head := hy
  simp [target, this]

/-- ghost authors of known ids never change -/
theorem specStep_g_seen (sp : Spec) (op : Op) (y : Nat) (hy : y ∈ sp.seen) :
    (specStep sp op).g y = sp.g y ∧ y ∈ (specStep sp op).seen := by
  cases op <;> simp [specStep, credit, hy]

theorem specRun_g_seen (sp : Spec) (ops : List Op) (y : Nat) (hy : y ∈ sp.seen) :
    (specRun sp ops).g y = sp.g y ∧ y ∈ (specRun sp ops).seen := by
  induction ops generalizing sp with
  | nil => exact ⟨rfl, hy⟩
  | cons op ops ih =>
    obtain ⟨h1, h2⟩ := specStep_g_seen sp op y hy
    obtain ⟨i1, i2⟩ := ih (specStep sp op) h2
    exact ⟨by simp only [specRun, List.foldl_cons] at i1 ⊢; rw [i1, h1], i2⟩

end GitAi.Sys
