/-
  Lemmas/SysPartial.lean — the working-log invariant of Model/Sys.lean generalised to partial
  commits: pending attribution (INITIAL, bare line numbers) left by a commit that takes only part
  of the working tree, and its hand-over to the next working log.
-/
import GitAiModel.Lemmas.Sys
namespace GitAi.Sys

/-! ### positions -/

theorem mem_enumFrom' {α} (k : Nat) (l : List α) (i : Nat) (y : α) (h : (i, y) ∈ enumFrom k l) :
    y ∈ l ∧ k ≤ i := by
  induction l generalizing k with
  | nil => simp [enumFrom] at h
  | cons x xs ih =>
    simp only [enumFrom, List.mem_cons, Prod.mk.injEq] at h
    rcases h with ⟨rfl, rfl⟩ | h
    · exact ⟨by simp, Nat.le_refl _⟩
    · obtain ⟨h1, h2⟩ := ih (k + 1) h
      exact ⟨List.mem_cons_of_mem _ h1, by omega⟩

theorem exists_enumFrom {α} (k : Nat) (l : List α) (y : α) (h : y ∈ l) : ∃ i, (i, y) ∈ enumFrom k l := by
  induction l generalizing k with
  | nil => simp at h
  | cons x xs ih =>
    simp only [List.mem_cons] at h
    rcases h with rfl | h
    · exact ⟨k, by simp [enumFrom]⟩
    · obtain ⟨i, hi⟩ := ih (k + 1) h
      exact ⟨i, by simp [enumFrom, hi]⟩

/-- claims generated from a content by a per-id author function -/
def claimsFrom (k : Nat) (l : List Nat) (F : Nat → Author) : List (Nat × Nat) :=
  (enumFrom k l).filterMap (fun p => (F p.2).map (fun s => (p.1, s)))

theorem claimsFrom_index_ge (k : Nat) (l : List Nat) (F : Nat → Author) :
    ∀ p ∈ claimsFrom k l F, k ≤ p.1 := by
  intro p hp
  simp only [claimsFrom, List.mem_filterMap] at hp
  obtain ⟨⟨i, y⟩, hm, hf⟩ := hp
  cases hF : F y with
  | none => simp [hF] at hf
  | some s =>
    simp [hF] at hf
    subst hf
    exact (mem_enumFrom' k l i y hm).2

/-- looking a line number up in the claims gives back the author function at that line -/
theorem initialAuthor_claimsFrom (k : Nat) (l : List Nat) (F : Nat → Author) (i y : Nat)
    (h : (i, y) ∈ enumFrom k l) (hnd : l.Nodup) :
    initialAuthor (claimsFrom k l F) i = F y := by
  induction l generalizing k with
  | nil => simp [enumFrom] at h
  | cons x xs ih =>
    have hnd' : xs.Nodup := (List.nodup_cons.1 hnd).2
    simp only [enumFrom, List.mem_cons, Prod.mk.injEq] at h
    have hrest : ∀ p ∈ claimsFrom (k + 1) xs F, k + 1 ≤ p.1 := claimsFrom_index_ge (k + 1) xs F
    rcases h with ⟨rfl, rfl⟩ | h
    · -- the head position
      unfold initialAuthor claimsFrom
      simp only [enumFrom, List.filterMap_cons]
      cases hF : F y with
      | none =>
        simp only [Option.map_none]
        have : List.find? (fun p => decide (p.1 = i)) (claimsFrom (i + 1) xs F) = none := by
          rw [List.find?_eq_none]
          intro p hp
          have := hrest p hp
          simp; omega
        unfold claimsFrom at this
        rw [this]
      | some s => simp
    · -- a later position: the head claim (if any) has index k ≠ i
      obtain ⟨_, hge⟩ := mem_enumFrom' (k + 1) xs i y h
      have ih' := ih (k + 1) h hnd'
      unfold initialAuthor claimsFrom at ih' ⊢
      simp only [enumFrom, List.filterMap_cons]
      cases hF : F x with
      | none => simpa using ih'
      | some s =>
        simp only [Option.map_some]
        rw [List.find?_cons_of_neg (by simp; omega)]
        exact ih'

theorem map_initialAuthor_claimsFrom (l : List Nat) (F : Nat → Author) (hnd : l.Nodup) :
    (enum1 l).map (fun p => initialAuthor (claimsFrom 1 l F) p.1) = l.map F := by
  have h1 : (enum1 l).map (fun p => initialAuthor (claimsFrom 1 l F) p.1) = (enum1 l).map (fun p => F p.2) := by
    apply List.map_congr_left
    intro ⟨i, y⟩ hm
    exact initialAuthor_claimsFrom 1 l F i y hm hnd
  rw [h1]
  have : ∀ (k : Nat) (l : List Nat), (enumFrom k l).map (fun p => F p.2) = l.map F := by
    intro k l
    induction l generalizing k with
    | nil => rfl
    | cons x xs ih => simp [enumFrom, ih]
  exact this 1 l

/-! ### the generalised invariant -/

/-- the pending claims a state must carry when its working log is still empty: working-tree lines
    not in HEAD whose ghost author is a session, at their working-tree line number -/
def pendingOf (sp : Spec) : List (Nat × Nat) := claimsFrom 1 sp.st.work (target sp)

structure Inv2 (sp : Spec) : Prop where
  nodup : sp.st.work.Nodup
  workSeen : ∀ y ∈ sp.st.work, y ∈ sp.seen
  headSeen : ∀ y ∈ sp.st.head, y ∈ sp.seen
  snapSeen : ∀ e ∈ sp.st.entries, ∀ y ∈ e.snap, y ∈ sp.seen
  latest : match sp.st.entries.getLast? with
    | some e => e.attr = e.snap.map (target sp) ∧ ∀ y ∈ sp.st.work, y ∉ e.snap → target sp y = none
    | none => sp.st.initial = pendingOf sp

theorem pendingOf_nil (sp : Spec) (h : pendingOf sp = []) :
    ∀ y ∈ sp.st.work, target sp y = none := by
  intro y hy
  obtain ⟨i, hi⟩ := exists_enumFrom 1 sp.st.work y hy
  unfold pendingOf claimsFrom at h
  rw [List.filterMap_eq_nil_iff] at h
  have := h (i, y) hi
  simpa using this

/-- what the next checkpoint diffs against, in the generalised setting -/
theorem previous_spec2 (sp : Spec) (h : Inv2 sp) :
    (previous sp.st).attr = (previous sp.st).snap.map (target sp) ∧
    (∀ y ∈ (previous sp.st).snap, y ∈ sp.seen) ∧
    (∀ y ∈ sp.st.work, y ∉ (previous sp.st).snap → target sp y = none) := by
  unfold previous
  have hl := h.latest
  cases he : sp.st.entries.getLast? with
  | some e =>
    rw [he] at hl
    simp only
    refine ⟨hl.1, h.snapSeen e (List.mem_of_getLast? he), ?_⟩
    intro y hy hn
    exact hl.2 y hy hn
  | none =>
    rw [he] at hl
    simp only
    by_cases hemp : sp.st.initial.isEmpty = true
    · simp only [hemp, if_true]
      refine ⟨?_, h.headSeen, ?_⟩
      · apply List.map_congr_left
        intro y hy
        simp [target, hy]
      · intro y hy _
        have hnil : pendingOf sp = [] := by rw [← hl]; simpa using hemp
        exact pendingOf_nil sp hnil y hy
    · simp only [hemp, Bool.false_eq_true, if_false]
      refine ⟨?_, h.workSeen, fun y hy hn => absurd hy hn⟩
      rw [hl]
      exact map_initialAuthor_claimsFrom sp.st.work (target sp) h.nodup

end GitAi.Sys

namespace GitAi.Sys

theorem claimsFrom_eq_nil (k : Nat) (l : List Nat) (F : Nat → Author) (h : ∀ y ∈ l, F y = none) :
    claimsFrom k l F = [] := by
  unfold claimsFrom
  rw [List.filterMap_eq_nil_iff]
  intro ⟨i, y⟩ hm
  simp [h y (mem_enumFrom' k l i y hm).1]

theorem claimsFrom_congr (k : Nat) (l : List Nat) (F G : Nat → Author) (h : ∀ y ∈ l, F y = G y) :
    claimsFrom k l F = claimsFrom k l G := by
  unfold claimsFrom
  apply filterMap_congr_mem
  intro ⟨i, y⟩ hm
  simp [h y (mem_enumFrom' k l i y hm).1]

/-- INITIAL (if any) has been taken over by a working-log entry -/
def Settled (st : State) : Prop := st.entries ≠ [] ∨ st.initial = []

theorem previous_snap_after_checkpoint (st : State) (who : Author) :
    (previous (checkpoint st who)).snap = st.work := by
  unfold checkpoint
  simp only
  split
  · rename_i h
    simp only [Bool.and_eq_true, decide_eq_true_eq] at h
    exact h.1
  · unfold previous
    simp [List.getLast?_append]

theorem settled_after_checkpoint (st : State) (who : Author) : Settled (checkpoint st who) := by
  unfold checkpoint Settled
  simp only
  split
  · rename_i h
    simp only [Bool.and_eq_true, decide_eq_true_eq, Bool.not_eq_true', Bool.and_eq_false_iff,
      Bool.not_eq_false'] at h
    rcases h.2 with h2 | h2
    · left; simpa using h2
    · right; simpa using h2
  · left; simp

theorem previous_work_irrelevant2 (st : State) (ys : List Nat) (h : Settled st) :
    previous { st with work := ys } = previous st := by
  unfold previous
  rcases h with h | h
  · cases he : st.entries.getLast? with
    | none => simp at he; exact absurd he h
    | some e => simp [he]
  · simp [h]

/-- a checkpoint by `who` establishes the invariant provided every line that is not in the
    previous snapshot belongs to `who` (generalised to states with pending INITIAL) -/
theorem checkpoint_gen2 (sp : Spec) (who : Author)
    (nodup : sp.st.work.Nodup) (workSeen : ∀ y ∈ sp.st.work, y ∈ sp.seen)
    (headSeen : ∀ y ∈ sp.st.head, y ∈ sp.seen)
    (snapSeen : ∀ e ∈ sp.st.entries, ∀ y ∈ e.snap, y ∈ sp.seen)
    (prevAttr : (previous sp.st).attr = (previous sp.st).snap.map (target sp))
    (hnew : ∀ y ∈ sp.st.work, y ∉ (previous sp.st).snap → target sp y = who) :
    Inv2 ⟨checkpoint sp.st who, sp.g, sp.seen⟩ := by
  unfold checkpoint
  simp only
  split
  · -- unchanged: the previous snapshot is the working tree and no INITIAL waits to be taken over
    rename_i hcond
    simp only [Bool.and_eq_true, decide_eq_true_eq, Bool.not_eq_true', Bool.and_eq_false_iff,
      Bool.not_eq_false'] at hcond
    obtain ⟨hsnap, hset⟩ := hcond
    refine ⟨nodup, workSeen, headSeen, snapSeen, ?_⟩
    show match sp.st.entries.getLast? with
      | some e => _
      | none => _
    unfold previous at prevAttr hsnap
    cases he : sp.st.entries.getLast? with
    | some e =>
      rw [he] at prevAttr hsnap
      simp only at prevAttr hsnap ⊢
      exact ⟨prevAttr, fun y hy hn => absurd (hsnap ▸ hy) hn⟩
    | none =>
      rw [he] at hsnap
      have hent : sp.st.entries = [] := by simpa using he
      have hiemp : sp.st.initial.isEmpty = true := by
        rcases hset with h | h
        · simp [hent] at h
        · exact h
      simp only [hiemp, if_true] at hsnap ⊢
      have hi : sp.st.initial = [] := by simpa using hiemp
      rw [hi]
      symm
      apply claimsFrom_eq_nil
      intro y hy
      have : y ∈ sp.st.head := hsnap ▸ hy
      simp [target, this]
  · -- a new entry is appended
    have hattr : checkpointAttr (previous sp.st) sp.st.work who = sp.st.work.map (target sp) := by
      unfold checkpointAttr
      apply List.map_congr_left
      intro y hy
      rw [prevAttr, lookup_map]
      by_cases hm : y ∈ (previous sp.st).snap
      · simp [hm]
      · simp [hm, hnew y hy hm]
    refine ⟨nodup, workSeen, headSeen, ?_, ?_⟩
    · intro e he y hy
      simp only [List.mem_append, List.mem_singleton] at he
      rcases he with he | rfl
      · exact snapSeen e he y hy
      · exact workSeen y hy
    · simp only [List.getLast?_append, List.getLast?_singleton, Option.some_or]
      refine ⟨?_, ?_⟩
      · rw [hattr]; rfl
      · intro y hy hn; exact absurd hy hn

theorem humanCheckpoint_inv2 (sp : Spec) (h : Inv2 sp) :
    Inv2 ⟨checkpoint sp.st none, sp.g, sp.seen⟩ := by
  obtain ⟨pa, _, pg⟩ := previous_spec2 sp h
  exact checkpoint_gen2 sp none h.nodup h.workSeen h.headSeen h.snapSeen pa pg

theorem target_credit (sp : Spec) (ys : List Nat) (who : Author) (st' : State)
    (hh : st'.head = sp.st.head) (y : Nat) (h : y ∈ sp.seen) :
    target ⟨st', credit sp ys who, sp.seen ++ ys⟩ y = target sp y := by
  simp [target, hh, credit_seen sp ys who y h]

/-- a person's edit keeps some current lines, may put lines of HEAD back (`git restore`,
    `git checkout -- <file>`, undo) and introduces fresh ids -/
def ValidEditH (sp : Spec) (ys : List Nat) : Prop :=
  ys.Nodup ∧ ∀ y ∈ ys, y ∈ sp.seen → y ∈ sp.st.work ∨ y ∈ sp.st.head

theorem ValidEdit.toH {sp : Spec} {ys : List Nat} (h : ValidEdit sp ys) : ValidEditH sp ys :=
  ⟨h.1, fun y hy hs => Or.inl (h.2 y hy hs)⟩

theorem humanEdit_inv2 (sp : Spec) (ys : List Nat) (h : Inv2 sp) (hv : ValidEditH sp ys)
    (hs : Settled sp.st) : Inv2 (specStep sp (.humanEdit ys)) := by
  obtain ⟨hnd, hkeep⟩ := hv
  have hl := h.latest
  refine ⟨hnd, ?_, ?_, ?_, ?_⟩
  · intro y hy; simp [specStep, step] at hy ⊢; exact Or.inr hy
  · intro y hy; simp [specStep, step] at hy ⊢; exact Or.inl (h.headSeen y hy)
  · intro e he y hy
    simp [specStep, step] at he ⊢
    exact Or.inl (h.snapSeen e he y hy)
  · show match (specStep sp (.humanEdit ys)).st.entries.getLast? with
      | some e => _
      | none => _
    have hent : (specStep sp (.humanEdit ys)).st.entries = sp.st.entries := rfl
    rw [hent]
    cases he : sp.st.entries.getLast? with
    | some e =>
      rw [he] at hl
      simp only
      have hsnap := h.snapSeen e (List.mem_of_getLast? he)
      refine ⟨?_, ?_⟩
      · rw [hl.1]
        apply List.map_congr_left
        intro y hy
        exact (target_credit sp ys none _ rfl y (hsnap y hy)).symm
      · intro y hy hn
        have hy' : y ∈ ys := hy
        by_cases hsn : y ∈ sp.seen
        · have ht : target (specStep sp (.humanEdit ys)) y = target sp y :=
            target_credit sp ys none (step sp.st (.humanEdit ys)) rfl y hsn
          rw [ht]
          rcases hkeep y hy' hsn with hw | hh
          · exact hl.2 y hw hn
          · simp [target, hh]
        · have hnh : y ∉ sp.st.head := fun hh => hsn (h.headSeen y hh)
          show (if y ∈ sp.st.head then none else credit sp ys none y) = none
          simp [hnh, credit_fresh sp ys none y hsn hy']
    | none =>
      rw [he] at hl
      simp only
      -- no entry yet: settled means INITIAL is empty, so nothing is pending; stays so after a human edit
      have hent0 : sp.st.entries = [] := by simpa using he
      have hi0 : sp.st.initial = [] := by
        rcases hs with h1 | h1
        · exact absurd hent0 h1
        · exact h1
      have hpend : pendingOf sp = [] := by rw [← hl, hi0]
      show sp.st.initial = pendingOf (specStep sp (.humanEdit ys))
      rw [hi0]
      symm
      apply claimsFrom_eq_nil
      intro y hy
      have hy' : y ∈ ys := hy
      by_cases hsn : y ∈ sp.seen
      · have ht : target (specStep sp (.humanEdit ys)) y = target sp y :=
          target_credit sp ys none (step sp.st (.humanEdit ys)) rfl y hsn
        rw [ht]
        rcases hkeep y hy' hsn with hw | hh
        · exact pendingOf_nil sp hpend y hw
        · simp [target, hh]
      · have hnh : y ∉ sp.st.head := fun hh => hsn (h.headSeen y hh)
        show (if y ∈ sp.st.head then none else credit sp ys none y) = none
        simp [hnh, credit_fresh sp ys none y hsn hy']

theorem aiEdit_inv2 (sp : Spec) (s : Nat) (ys : List Nat) (h : Inv2 sp) (hv : ValidEdit sp ys) :
    Inv2 (specStep sp (.aiEdit s ys)) := by
  obtain ⟨hnd, hkeep⟩ := hv
  have h1 : Inv2 ⟨checkpoint sp.st none, sp.g, sp.seen⟩ := humanCheckpoint_inv2 sp h
  obtain ⟨hw1, hh1, _, _, _⟩ := checkpoint_fields sp.st none
  have hprev : (previous (checkpoint sp.st none)).snap = sp.st.work := previous_snap_after_checkpoint sp.st none
  have hset : Settled (checkpoint sp.st none) := settled_after_checkpoint sp.st none
  let sp2 : Spec := ⟨{ checkpoint sp.st none with work := ys }, credit sp ys (some s), sp.seen ++ ys⟩
  have hprev2 : previous sp2.st = previous (checkpoint sp.st none) := previous_work_irrelevant2 _ ys hset
  obtain ⟨pa, ps, _⟩ := previous_spec2 _ h1
  have hnew : ∀ y ∈ sp2.st.work, y ∉ (previous sp2.st).snap → target sp2 y = some s := by
    intro y hy hn
    rw [hprev2, hprev] at hn
    have hy' : y ∈ ys := hy
    have hfresh : y ∉ sp.seen := fun hs => hn (hkeep y hy' hs)
    have hnh : y ∉ sp.st.head := fun hh => hfresh (h.headSeen y hh)
    have hnh2 : y ∉ sp2.st.head := by
      show y ∉ (checkpoint sp.st none).head
      rw [hh1]; exact hnh
    simp only [target, hnh2, if_false]
    exact credit_fresh sp ys (some s) y hfresh hy'
  refine checkpoint_gen2 sp2 (some s) hnd ?_ ?_ ?_ ?_ hnew
  · intro y hy; simp [sp2] at hy ⊢; exact Or.inr hy
  · intro y hy; simp [sp2] at hy ⊢; exact Or.inl (h1.headSeen y hy)
  · intro e he y hy
    simp [sp2] at he ⊢
    exact Or.inl (h1.snapSeen e he y hy)
  · rw [hprev2, pa]
    apply List.map_congr_left
    intro y hy
    have hseen : y ∈ sp.seen := ps y hy
    show target ⟨checkpoint sp.st none, sp.g, sp.seen⟩ y = target sp2 y
    simp [target, sp2, credit_seen sp ys (some s) y hseen]

end GitAi.Sys

namespace GitAi.Sys

/-- the commit is well-formed with respect to the ghost bookkeeping: staged ids are known, and a
    line common to HEAD and the working tree is part of what is committed (the staged version
    mixes HEAD and working-tree regions; it does not delete a line the working tree keeps) -/
def CommitOK (sp : Spec) : Prop :=
  (∀ y ∈ sp.st.index, y ∈ sp.seen) ∧ (∀ y ∈ sp.st.work, y ∈ sp.st.head → y ∈ sp.st.index)

/-- effective attribution right after the pre-commit checkpoint -/
theorem effective_after_checkpoint (sp : Spec) (h : Inv2 sp) :
    effective (checkpoint sp.st none) = sp.st.work.map (target sp) := by
  have hC : Inv2 ⟨checkpoint sp.st none, sp.g, sp.seen⟩ := humanCheckpoint_inv2 sp h
  obtain ⟨hwC, hhC, _, _, _⟩ := checkpoint_fields sp.st none
  have hprev : (previous (checkpoint sp.st none)).snap = sp.st.work := previous_snap_after_checkpoint sp.st none
  obtain ⟨paC, _, _⟩ := previous_spec2 _ hC
  have htgt : target ⟨checkpoint sp.st none, sp.g, sp.seen⟩ = target sp := by
    funext y; simp [target, hhC]
  rw [htgt] at paC
  unfold effective
  unfold previous at hprev paC
  cases he : (checkpoint sp.st none).entries.getLast? with
  | some e =>
    rw [he] at hprev paC
    simp only at hprev paC ⊢
    unfold checkpointAttr
    rw [hwC]
    apply List.map_congr_left
    intro y hy
    rw [paC, lookup_map, hprev]
    simp [hy]
  | none =>
    rw [he] at hprev paC
    simp only at hprev paC ⊢
    -- no entry after a checkpoint: INITIAL is empty (else an entry is forced) and work = HEAD
    have hset := settled_after_checkpoint sp.st none
    have hi : (checkpoint sp.st none).initial = [] := by
      rcases hset with h1 | h1
      · have : (checkpoint sp.st none).entries = [] := by simpa using he
        exact absurd this h1
      · exact h1
    simp only [hi, List.isEmpty_nil, if_true] at hprev paC
    rw [hwC]
    have hwh : sp.st.head = sp.st.work := by rw [← hhC]; exact hprev
    have : ∀ (k : Nat) (l : List Nat), (enumFrom k l).map (fun p => initialAuthor [] p.1)
        = l.map (fun _ => (none : Author)) := by
      intro k l
      induction l generalizing k with
      | nil => rfl
      | cons x xs ih =>
        simp only [enumFrom, List.map_cons, ih (k + 1)]
        simp [initialAuthor]
    rw [hi, enum1, this]
    apply List.map_congr_left
    intro y hy
    have : y ∈ sp.st.head := hwh ▸ hy
    simp [target, this]

/-- the note a commit of the staged content must carry -/
def expectedPartialNote (sp : Spec) : Note :=
  (enum1 sp.st.index).filterMap (fun p =>
    if sp.st.head.contains p.2 || !sp.st.work.contains p.2 then none else (sp.g p.2).map (fun s => (p.1, s)))

theorem commit_spec (sp : Spec) (h : Inv2 sp) (hok : CommitOK sp) :
    (commitStep sp.st).notes.head? = some (expectedPartialNote sp) ∧
    Inv2 ⟨commitStep sp.st, sp.g, sp.seen⟩ := by
  obtain ⟨hwC, hhC, _, hxC, _⟩ := checkpoint_fields sp.st none
  have heff := effective_after_checkpoint sp h
  have hauthor : ∀ y, (lookup (checkpoint sp.st none).work (effective (checkpoint sp.st none)) y).getD none
      = if y ∈ sp.st.work then target sp y else none := by
    intro y
    rw [heff, hwC, lookup_map]
    by_cases hy : y ∈ sp.st.work <;> simp [hy]
  constructor
  · unfold commitStep expectedPartialNote
    simp only [List.head?_cons]
    congr 1
    rw [hxC]
    apply filterMap_congr_mem
    intro ⟨i, y⟩ _
    simp only [hauthor y, hhC]
    by_cases hh : y ∈ sp.st.head
    · simp [hh]
    · by_cases hw : y ∈ sp.st.work
      · simp [hh, hw, target]
      · simp [hh, hw]
  · -- the state after the commit: HEAD = staged content, empty working log, INITIAL = pending
    refine ⟨?_, ?_, ?_, ?_, ?_⟩
    · show (commitStep sp.st).work.Nodup
      unfold commitStep; simp only; rw [hwC]; exact h.nodup
    · intro y hy
      have : y ∈ sp.st.work := by
        have : (commitStep sp.st).work = sp.st.work := by unfold commitStep; simp only; rw [hwC]
        exact this ▸ hy
      exact h.workSeen y this
    · intro y hy
      have : y ∈ sp.st.index := by
        have : (commitStep sp.st).head = sp.st.index := by unfold commitStep; simp only; rw [hxC]
        exact this ▸ hy
      exact hok.1 y this
    · intro e he
      have : (commitStep sp.st).entries = [] := by unfold commitStep; rfl
      rw [this] at he
      simp at he
    · have hent : (commitStep sp.st).entries = [] := by unfold commitStep; rfl
      have hgoal : (commitStep sp.st).initial = pendingOf ⟨commitStep sp.st, sp.g, sp.seen⟩ := by
        -- INITIAL written by the commit = pendingOf the new state
        unfold commitStep pendingOf claimsFrom
        simp only
        rw [hwC, hxC]
        show List.filterMap _ (enum1 sp.st.work) = List.filterMap _ (enumFrom 1 sp.st.work)
        unfold enum1
        apply filterMap_congr_mem
        intro ⟨i, y⟩ hm
        have hy : y ∈ sp.st.work := (mem_enumFrom' 1 _ i y hm).1
        have hau := hauthor y
        rw [hwC] at hau
        simp only [hau, hy, if_true]
        by_cases hx : y ∈ sp.st.index
        · simp [hx, target]
        · have hnh : y ∉ sp.st.head := fun hh => hx (hok.2 y hy hh)
          simp [hx, target, hnh]
      show match (commitStep sp.st).entries.getLast? with
        | some e => e.attr = e.snap.map (target ⟨commitStep sp.st, sp.g, sp.seen⟩) ∧
            ∀ y ∈ (commitStep sp.st).work, y ∉ e.snap → target ⟨commitStep sp.st, sp.g, sp.seen⟩ y = none
        | none => (commitStep sp.st).initial = pendingOf ⟨commitStep sp.st, sp.g, sp.seen⟩
      rw [hent]
      exact hgoal

end GitAi.Sys

namespace GitAi.Sys

/-- validity of an operation in histories with partial commits. A person's edit is only allowed
    once pending attribution (INITIAL) has been taken over by a checkpoint: the explicit
    `Settled` hypothesis is exactly the region excluded by the known finding
    "pending AI lines edited by a person before the next checkpoint". -/
def ValidOp2 (sp : Spec) : Op → Prop
  | .humanEdit ys => ValidEditH sp ys ∧ Settled sp.st
  | .aiEdit _ ys => ValidEdit sp ys
  | .humanCheckpoint => True
  | .stageAll => True
  | .stage _ => True
  | .commit => CommitOK sp

def ValidOps2 : Spec → List Op → Prop
  | _, [] => True
  | sp, op :: ops => ValidOp2 sp op ∧ ValidOps2 (specStep sp op) ops

theorem specStep_inv2 (sp : Spec) (op : Op) (h : Inv2 sp) (hv : ValidOp2 sp op) :
    Inv2 (specStep sp op) := by
  cases op with
  | humanEdit ys => exact humanEdit_inv2 sp ys h hv.1 hv.2
  | aiEdit s ys => exact aiEdit_inv2 sp s ys h hv
  | humanCheckpoint => exact humanCheckpoint_inv2 sp h
  | stageAll => exact ⟨h.nodup, h.workSeen, h.headSeen, h.snapSeen, h.latest⟩
  | stage ys => exact ⟨h.nodup, h.workSeen, h.headSeen, h.snapSeen, h.latest⟩
  | commit => exact (commit_spec sp h hv).2

theorem specRun_inv2 (sp : Spec) (ops : List Op) (h : Inv2 sp) (hv : ValidOps2 sp ops) :
    Inv2 (specRun sp ops) := by
  induction ops generalizing sp with
  | nil => exact h
  | cons op ops ih => exact ih (specStep sp op) (specStep_inv2 sp op h hv.1) hv.2

theorem validOps2_append (sp : Spec) (a b : List Op) (h : ValidOps2 sp (a ++ b)) :
    ValidOps2 sp a ∧ ValidOps2 (specRun sp a) b := by
  induction a generalizing sp with
  | nil => exact ⟨trivial, h⟩
  | cons op a ih =>
    obtain ⟨h1, h2⟩ := h
    obtain ⟨i1, i2⟩ := ih (specStep sp op) h2
    exact ⟨⟨h1, i1⟩, i2⟩

/-- the clean start: working tree = index = HEAD, empty working log, nothing pending -/
def cleanSpec (h0 : List Nat) (g0 : Nat → Author) : Spec :=
  ⟨{ head := h0, index := h0, work := h0 }, g0, h0⟩

theorem cleanSpec_inv2 (h0 : List Nat) (g0 : Nat → Author) (hnd : h0.Nodup) : Inv2 (cleanSpec h0 g0) := by
  refine ⟨hnd, fun y hy => hy, fun y hy => hy, by intro e he; simp [cleanSpec] at he, ?_⟩
  show (cleanSpec h0 g0).st.initial = pendingOf (cleanSpec h0 g0)
  symm
  apply claimsFrom_eq_nil
  intro y hy
  have : y ∈ (cleanSpec h0 g0).st.head := hy
  simp [target, this]

/-- ghost authors of known ids never change -/
theorem specStep_g_seen (sp : Spec) (op : Op) (y : Nat) (hy : y ∈ sp.seen) :
    (specStep sp op).g y = sp.g y ∧ y ∈ (specStep sp op).seen := by
  cases op <;> simp [specStep, credit, hy]

theorem specRun_g_seen (sp : Spec) (ops : List Op) (y : Nat) (hy : y ∈ sp.seen) :
    (specRun sp ops).g y = sp.g y ∧ y ∈ (specRun sp ops).seen := by
  induction ops generalizing sp with
  | nil => exact ⟨rfl, hy⟩
  | cons op ops ih =>
    obtain ⟨h1, h2⟩ := specStep_g_seen sp op y hy
    obtain ⟨i1, i2⟩ := ih (specStep sp op) h2
    exact ⟨by simp only [specRun, List.foldl_cons] at i1 ⊢; rw [i1, h1], i2⟩

end GitAi.Sys
