/-
  Lemmas/Text.lean — facts about the text primitives of Base/Text.lean.
-/
import GitAiModel.Base.Text
namespace GitAi

theorem splitOn_ne_nil (sep : Char) (s : Str) : splitOn sep s ≠ [] := by
  induction s with
  | nil => simp [splitOn]
  | cons c cs ih =>
    unfold splitOn
    split
    · simp
    · split <;> simp

theorem splitOn_nosep (sep : Char) (a : Str) (h : sep ∉ a) : splitOn sep a = [a] := by
  induction a with
  | nil => simp [splitOn]
  | cons c cs ih =>
    have hc : c ≠ sep := fun e => h (by simp [e])
    have hcs : sep ∉ cs := fun e => h (by simp [e])
    simp [splitOn, hc, ih hcs]

theorem splitOn_append_sep (sep : Char) (a b : Str) (h : sep ∉ a) :
    splitOn sep (a ++ sep :: b) = a :: splitOn sep b := by
  induction a with
  | nil => simp [splitOn]
  | cons c cs ih =>
    have hc : c ≠ sep := fun e => h (by simp [e])
    have hcs : sep ∉ cs := fun e => h (by simp [e])
    simp [splitOn, hc, ih hcs]

theorem joinWith_splitOn (sep : Char) (s : Str) : joinWith sep (splitOn sep s) = s := by
  induction s with
  | nil => simp [splitOn, joinWith]
  | cons c cs ih =>
    unfold splitOn
    split
    · rename_i h
      subst h
      cases hsp : splitOn c cs with
      | nil => exact absurd hsp (splitOn_ne_nil _ _)
      | cons l ls => rw [hsp] at ih; simp [joinWith, ih]
    · cases hsp : splitOn sep cs with
      | nil => exact absurd hsp (splitOn_ne_nil _ _)
      | cons l ls =>
        rw [hsp] at ih
        cases ls with
        | nil => simp [joinWith] at ih ⊢; exact ih
        | cons m ms => simp [joinWith] at ih ⊢; exact ih

/-- every piece of a split is free of the separator -/
theorem splitOn_pieces_nosep (sep : Char) (s : Str) : ∀ p ∈ splitOn sep s, sep ∉ p := by
  induction s with
  | nil => simp [splitOn]
  | cons c cs ih =>
    unfold splitOn
    split
    · intro p hp
      simp at hp
      rcases hp with rfl | hp
      · simp
      · exact ih p hp
    · rename_i hne
      cases hsp : splitOn sep cs with
      | nil => exact absurd hsp (splitOn_ne_nil _ _)
      | cons l ls =>
        rw [hsp] at ih
        intro p hp
        simp at hp
        rcases hp with rfl | hp
        · have := ih l (by simp)
          intro hm
          simp at hm
          rcases hm with rfl | hm
          · exact hne rfl
          · exact this hm
        · exact ih p (by simp [hp])

theorem splitOn_joinWith (sep : Char) (ps : List Str) (hne : ps ≠ [])
    (h : ∀ p ∈ ps, sep ∉ p) : splitOn sep (joinWith sep ps) = ps := by
  induction ps with
  | nil => exact absurd rfl hne
  | cons p rest ih =>
    cases rest with
    | nil => simp [joinWith]; exact splitOn_nosep sep p (h p (by simp))
    | cons q qs =>
      simp only [joinWith]
      rw [splitOn_append_sep sep p _ (h p (by simp))]
      rw [ih (by simp) (fun x hx => h x (by simp [hx]))]

theorem stripCr_eq_self (l : Str) (h : l.getLast? ≠ some '\r') : stripCr l = l := by
  simp [stripCr, h]

theorem rustLines_cons (l rest : Str) (h : '\n' ∉ l) :
    rustLines (l ++ '\n' :: rest) = stripCr l :: rustLines rest := by
  unfold rustLines
  rw [splitOn_append_sep _ _ _ h]
  cases hsp : splitOn '\n' rest with
  | nil => exact absurd hsp (splitOn_ne_nil _ _)
  | cons q qs => simp [rustLinesAux]

theorem getLast?_mem {α} (l : List α) (c : α) (h : l.getLast? = some c) : c ∈ l := by
  exact List.mem_of_getLast? h

/-- `rustLinesAux` is the identity on pieces without `\r` whose last piece is non-empty. -/
theorem rustLinesAux_id (ps : List Str) (hcr : ∀ p ∈ ps, '\r' ∉ p)
    (hlast : ∀ p, ps.getLast? = some p → p ≠ []) : rustLinesAux ps = ps := by
  induction ps with
  | nil => rfl
  | cons p rest ih =>
    cases rest with
    | nil =>
      have : p ≠ [] := hlast p (by simp)
      simp [rustLinesAux, this]
    | cons q qs =>
      have hp : stripCr p = p := by
        apply stripCr_eq_self
        intro hl
        exact hcr p (by simp) (getLast?_mem _ _ hl)
      simp only [rustLinesAux, hp]
      rw [ih (fun x hx => hcr x (by simp [hx])) (fun x hx => hlast x (by simpa using hx))]

theorem getLast?_splitOn (sep : Char) (s : Str) :
    ∃ p, (splitOn sep s).getLast? = some p ∧
      (p = [] → s = [] ∨ s.getLast? = some sep) := by
  induction s with
  | nil => exact ⟨[], by simp [splitOn]⟩
  | cons c cs ih =>
    obtain ⟨p, hp, himp⟩ := ih
    unfold splitOn
    split
    · rename_i hc
      subst hc
      cases hsp : splitOn c cs with
      | nil => exact absurd hsp (splitOn_ne_nil _ _)
      | cons l ls =>
        rw [hsp] at hp
        refine ⟨p, by simpa [List.getLast?_cons_cons] using hp, ?_⟩
        intro hpe
        right
        rcases himp hpe with rfl | h
        · simp
        · cases cs with
          | nil => simp at h
          | cons d ds => simpa [List.getLast?_cons_cons] using h
    · rename_i hc
      cases hsp : splitOn sep cs with
      | nil => exact absurd hsp (splitOn_ne_nil _ _)
      | cons l ls =>
        rw [hsp] at hp
        cases ls with
        | nil =>
          simp at hp
          subst hp
          exact ⟨c :: l, by simp, by simp⟩
        | cons m ms =>
          refine ⟨p, by simpa [List.getLast?_cons_cons] using hp, ?_⟩
          intro hpe
          right
          rcases himp hpe with rfl | h
          · simp [splitOn] at hsp
          · cases cs with
            | nil => simp at h
            | cons d ds => simpa [List.getLast?_cons_cons] using h

/-- `lines().join("\n")` gives the text back when it has no `\r` and no final newline. -/
theorem joinWith_rustLines (J : Str) (hcr : '\r' ∉ J) (hnl : J.getLast? ≠ some '\n') :
    joinWith '\n' (rustLines J) = J := by
  by_cases hJ : J = []
  · subst hJ; simp [rustLines, splitOn, rustLinesAux, joinWith]
  · unfold rustLines
    have hpieces : ∀ p ∈ splitOn '\n' J, '\r' ∉ p := by
      intro p hp hm
      -- every char of a piece is a char of J
      have : ∀ (s : Str) (p : Str), p ∈ splitOn '\n' s → ∀ c ∈ p, c ∈ s := by
        intro s
        induction s with
        | nil => intro p hp c hc; simp [splitOn] at hp; subst hp; simp at hc
        | cons d ds ih =>
          intro p hp c hc
          unfold splitOn at hp
          split at hp
          · simp at hp
            rcases hp with rfl | hp
            · simp at hc
            · exact List.mem_cons_of_mem _ (ih p hp c hc)
          · cases hsp : splitOn '\n' ds with
            | nil => exact absurd hsp (splitOn_ne_nil _ _)
            | cons l ls =>
              rw [hsp] at hp ih
              simp at hp
              rcases hp with rfl | hp
              · simp at hc
                rcases hc with rfl | hc
                · simp
                · exact List.mem_cons_of_mem _ (ih l (by simp) c hc)
              · exact List.mem_cons_of_mem _ (ih p (by simp [hp]) c hc)
      exact hcr (this J p hp _ hm)
    have hlast : ∀ p, (splitOn '\n' J).getLast? = some p → p ≠ [] := by
      intro p hp hpe
      obtain ⟨q, hq, himp⟩ := getLast?_splitOn '\n' J
      rw [hp] at hq
      cases hq
      rcases himp hpe with h | h
      · exact hJ h
      · exact hnl h
    rw [rustLinesAux_id _ hpieces hlast, joinWith_splitOn]

theorem getLast?_cons_of_some {α} (x : α) (l : List α) (c : α) (h : l.getLast? = some c) :
    (x :: l).getLast? = some c := by
  cases l with
  | nil => simp at h
  | cons y ys => simpa [List.getLast?_cons_cons] using h

theorem getLast?_append_of_some {α} (a l : List α) (c : α) (h : l.getLast? = some c) :
    (a ++ l).getLast? = some c := by
  simp [List.getLast?_append, h]

theorem dropTrailing_eq_self (p : Char → Bool) (s : Str)
    (h : ∀ c, s.getLast? = some c → p c = false) : dropTrailing p s = s := by
  induction s with
  | nil => rfl
  | cons c cs ih =>
    cases cs with
    | nil =>
      have := h c (by simp)
      simp [dropTrailing, this]
    | cons d ds =>
      have ih' := ih (fun x hx => h x (by simpa [List.getLast?_cons_cons] using hx))
      unfold dropTrailing
      rw [ih']

theorem trimEnd_eq_self (s : Str) (c : Char) (h : s.getLast? = some c)
    (hc : isWhitespace c = false) : trimEnd s = s := by
  apply dropTrailing_eq_self
  intro d hd
  rw [h] at hd
  cases hd
  exact hc

theorem splitFirst_append (c : Char) (a b : Str) (h : c ∉ a) :
    splitFirst c (a ++ c :: b) = some (a, b) := by
  induction a with
  | nil => simp [splitFirst]
  | cons x xs ih =>
    have hx : x ≠ c := fun e => h (by simp [e])
    have hxs : c ∉ xs := fun e => h (by simp [e])
    simp [splitFirst, hx, ih hxs]

theorem splitFirst_none (c : Char) (a : Str) (h : c ∉ a) : splitFirst c a = none := by
  induction a with
  | nil => rfl
  | cons x xs ih =>
    have hx : x ≠ c := fun e => h (by simp [e])
    have hxs : c ∉ xs := fun e => h (by simp [e])
    simp [splitFirst, hx, ih hxs]

end GitAi
