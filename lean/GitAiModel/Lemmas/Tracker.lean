/-
  Lemmas/Tracker.lean — helper lemmas for property C16 (bounds and panic-freedom of
  `transform` / `merge`).
-/
import GitAiModel.Model.Tracker
namespace GitAi.Tracker
open GitAi

/-- a range lying inside `[0, N]` -/
def Bnd (N : Nat) (a : Attr) : Prop := a.start ≤ a.stop ∧ a.stop ≤ N

theorem Bnd.mono {N M : Nat} {a : Attr} (h : Bnd N a) (hNM : N ≤ M) : Bnd M a :=
  ⟨h.1, Nat.le_trans h.2 hNM⟩

/-! ## pieces of `step` -/

theorem mapOverlaps_bnd (lo hi base : Nat) (l : List Attr) :
    ∀ a ∈ mapOverlaps lo hi base l, Bnd (base + (hi - lo)) a := by
  induction l with
  | nil => intro a ha; simp [mapOverlaps] at ha
  | cons x xs ih =>
    intro a ha
    simp only [mapOverlaps] at ha
    split at ha
    · simp at ha
    · split at ha
      · simp only [List.mem_cons] at ha
        rcases ha with rfl | ha
        · constructor <;> simp only <;> omega
        · exact ih a ha
      · exact ih a ha

theorem clampGo_le (ins : Ins) (limit : Nat) : ∀ (fuel p : Nat), p ≤ limit → clampGo ins limit fuel p ≤ limit := by
  intro fuel
  induction fuel with
  | zero => intro p hp; simpa [clampGo] using hp
  | succ f ih =>
    intro p hp
    simp only [clampGo]
    split
    · rename_i h; exact ih (p + 1) (by omega)
    · exact hp

theorem clampInto_le (ins : Ins) (pos limit : Nat) : clampInto ins pos limit ≤ limit := by
  simp only [clampInto]
  exact clampGo_le ins limit _ _ (Nat.min_le_right _ _)

theorem mapMoved_bnd (ins : Ins) (lo hi ts te : Nat) (l : List Attr) :
    ∀ a ∈ mapMoved ins lo hi ts te l, Bnd te a := by
  induction l with
  | nil => intro a ha; simp [mapMoved] at ha
  | cons x xs ih =>
    intro a ha
    simp only [mapMoved] at ha
    split at ha
    · simp at ha
    · split at ha
      · split at ha
        · simp only [List.mem_cons] at ha
          rcases ha with rfl | ha
          · rename_i hlt
            exact ⟨Nat.le_of_lt hlt, clampInto_le _ _ _⟩
          · exact ih a ha
        · exact ih a ha
      · exact ih a ha

theorem gapAttrs_bnd (np len : Nat) (author : Str) (ts : Nat) (l : List (Nat × Nat)) :
    ∀ (cur : Nat), ∀ a ∈ gapAttrs np len author ts cur l, Bnd (np + len) a := by
  induction l with
  | nil =>
    intro cur a ha
    simp only [gapAttrs] at ha
    split at ha
    · simp only [List.mem_singleton] at ha
      subst ha
      constructor <;> simp only <;> omega
    · simp at ha
  | cons x xs ih =>
    intro cur a ha
    obtain ⟨s, e⟩ := x
    simp only [gapAttrs, List.mem_append] at ha
    rcases ha with ha | ha
    · split at ha
      · simp only [List.mem_singleton] at ha
        subst ha
        constructor <;> simp only <;> omega
      · simp at ha
    · exact ih _ a ha

/-! ## catalog facts -/

theorem insertionsFrom_stop_le (segs : List Seg) :
    ∀ (np : Nat), ∀ i ∈ insertionsFrom segs np, i.stop ≤ np + (newOf segs).length := by
  induction segs with
  | nil => intro np i hi; simp [insertionsFrom] at hi
  | cons g r ih =>
    intro np i hi
    simp only [insertionsFrom] at hi
    cases hop : g.op <;> simp only [hop] at hi
    · have := ih _ i hi
      simp only [newOf, hop, List.length_append]; omega
    · have := ih _ i hi
      simp only [newOf, hop]; omega
    · simp only [List.mem_cons] at hi
      rcases hi with rfl | hi
      · simp only [newOf, hop, List.length_append]; omega
      · have := ih _ i hi
        simp only [newOf, hop, List.length_append]; omega

/-- length contributed to the new text by one segment -/
def Seg.newLen (g : Seg) : Nat := match g.op with
  | .delete => 0
  | _ => g.data.length

theorem newOf_cons_length (g : Seg) (r : List Seg) :
    (newOf (g :: r)).length = g.newLen + (newOf r).length := by
  cases hop : g.op <;> simp [newOf, Seg.newLen, hop]

/-! ## the moved-deletion loop -/

theorem applyMoves_bnd (c : Ctx) (N : Nat) (hins : ∀ i ∈ c.ins, i.stop ≤ N) (delStart : Nat)
    (ms : List Move) : ∀ (cur : Nat) (out : List Attr) (cur' : Nat) (out' : List Attr),
      (∀ a ∈ out, Bnd N a) → applyMoves c delStart ms cur out = .ok (cur', out') →
      ∀ a ∈ out', Bnd N a := by
  induction ms with
  | nil =>
    intro cur out cur' out' hout h a ha
    simp only [applyMoves, Except.ok.injEq, Prod.mk.injEq] at h
    obtain ⟨_, rfl⟩ := h
    exact hout a ha
  | cons m r ih =>
    intro cur out cur' out' hout h
    simp only [applyMoves] at h
    split at h
    · cases h
    · rename_i insn hget
      have hmem : insn ∈ c.ins := List.mem_of_getElem? hget
      split at h
      · refine ih _ _ _ _ ?_ h
        intro a ha
        simp only [List.mem_append] at ha
        rcases ha with ha | ha
        · exact hout a ha
        · have hb := mapMoved_bnd _ _ _ _ _ _ a ha
          refine hb.mono ?_
          exact Nat.le_trans (Nat.min_le_right _ _) (hins insn hmem)
      · exact ih _ _ _ _ hout h

/-! ## one step -/

theorem step_newPos (c : Ctx) (s s' : St) (g : Seg) (h : step c s g = .ok s') :
    s'.newPos = s.newPos + g.newLen := by
  simp only [step] at h
  cases hop : g.op <;> simp only [hop] at h
  · cases h; simp [Seg.newLen, hop]
  · split at h
    · split at h
      · cases h
      · cases h; simp [Seg.newLen, hop]
    · cases h; simp [Seg.newLen, hop]
  · split at h
    · cases h; simp [Seg.newLen, hop]
    · split at h
      · cases h
      · cases h; simp [Seg.newLen, hop]

theorem step_bnd (c : Ctx) (N : Nat) (hins : ∀ i ∈ c.ins, i.stop ≤ N) (s s' : St) (g : Seg)
    (hout : ∀ a ∈ s.out, Bnd N a) (hpos : s.newPos + g.newLen ≤ N)
    (h : step c s g = .ok s') : ∀ a ∈ s'.out, Bnd N a := by
  simp only [step] at h
  cases hop : g.op <;> simp only [hop] at h
  · -- equal
    cases h
    intro a ha
    simp only [List.mem_append] at ha
    rcases ha with ha | ha
    · exact hout a ha
    · have hb := mapOverlaps_bnd _ _ _ _ a ha
      refine hb.mono ?_
      simp only [Seg.newLen, hop] at hpos
      omega
  · -- delete
    split at h
    · split at h
      · cases h
      · rename_i cur out hap
        cases h
        exact applyMoves_bnd c N hins _ _ _ _ _ _ hout hap
    · cases h
      intro a ha
      simp only at ha
      split at ha
      · simp only [List.mem_append, List.mem_singleton] at ha
        rcases ha with ha | rfl
        · exact hout a ha
        · simp only [Seg.newLen, hop] at hpos
          exact ⟨Nat.le_refl _, by simp only; omega⟩
      · exact hout a ha
  · -- insert
    simp only [Seg.newLen, hop] at hpos
    split at h
    · cases h
      intro a ha
      simp only [List.mem_append] at ha
      rcases ha with ha | ha
      · exact hout a ha
      · exact (gapAttrs_bnd _ _ _ _ _ _ a ha).mono hpos
    · split at h
      · cases h
      · cases h
        intro a ha
        simp only [List.mem_append, List.mem_singleton] at ha
        rcases ha with ha | rfl
        · exact hout a ha
        · exact ⟨by simp only; omega, by simp only; omega⟩

theorem runSegs_bnd (c : Ctx) (N : Nat) (hins : ∀ i ∈ c.ins, i.stop ≤ N) (segs : List Seg) :
    ∀ (s s' : St), (∀ a ∈ s.out, Bnd N a) → s.newPos + (newOf segs).length ≤ N →
      runSegs c s segs = .ok s' → ∀ a ∈ s'.out, Bnd N a := by
  induction segs with
  | nil =>
    intro s s' hout _ h
    simp only [runSegs, Except.ok.injEq] at h
    subst h; exact hout
  | cons g r ih =>
    intro s s' hout hpos h
    simp only [runSegs] at h
    split at h
    · cases h
    · rename_i s1 hstep
      rw [newOf_cons_length] at hpos
      refine ih s1 s' (step_bnd c N hins s s1 g hout (by omega) hstep) ?_ h
      rw [step_newPos c s s1 g hstep]; omega

/-- every range produced by `transform` lies inside the new text -/
theorem transform_bnd (segs : List Seg) (subst : List (Nat × Nat)) (moves : List Move)
    (old : List Attr) (author : Str) (ts : Nat) (out : List Attr)
    (h : transform segs subst moves old author ts = .ok out) :
    ∀ a ∈ out, Bnd (newOf segs).length a := by
  simp only [transform] at h
  split at h
  · cases h
  · rename_i s hrun
    cases h
    refine runSegs_bnd _ _ ?_ segs St.init s ?_ ?_ hrun
    · intro i hi
      have := insertionsFrom_stop_le segs 0 i hi
      simpa using this
    · intro a ha; simp [St.init] at ha
    · simp [St.init]

/-! ## sorting / dedup membership -/

theorem mem_insertBy {α} (le : α → α → Bool) (x y : α) (l : List α) :
    y ∈ insertBy le x l ↔ y = x ∨ y ∈ l := by
  induction l with
  | nil => simp [insertBy]
  | cons z zs ih =>
    simp only [insertBy]
    split
    · simp
    · simp only [List.mem_cons, ih]
      constructor
      · rintro (h | h | h) <;> simp [h]
      · rintro (h | h | h) <;> simp [h]

theorem mem_sortBy {α} (le : α → α → Bool) (y : α) (l : List α) : y ∈ sortBy le l ↔ y ∈ l := by
  induction l with
  | nil => simp [sortBy]
  | cons z zs ih => simp [sortBy, mem_insertBy, ih]

theorem length_insertBy {α} (le : α → α → Bool) (x : α) (l : List α) :
    (insertBy le x l).length = l.length + 1 := by
  induction l with
  | nil => simp [insertBy]
  | cons z zs ih =>
    simp only [insertBy]
    split <;> simp [ih]

theorem length_sortBy {α} (le : α → α → Bool) (l : List α) : (sortBy le l).length = l.length := by
  induction l with
  | nil => simp [sortBy]
  | cons z zs ih => simp [sortBy, length_insertBy, ih]

theorem mem_dedupAdj (l : List Attr) : ∀ a ∈ dedupAdj l, a ∈ l := by
  induction l with
  | nil => intro a ha; simp [dedupAdj] at ha
  | cons x xs ih =>
    intro a ha
    cases xs with
    | nil => simpa [dedupAdj] using ha
    | cons y ys =>
      simp only [dedupAdj] at ha
      split at ha
      · exact List.mem_cons_of_mem _ (ih a ha)
      · simp only [List.mem_cons] at ha
        rcases ha with rfl | ha
        · simp
        · exact List.mem_cons_of_mem _ (ih a (by simpa using ha))

theorem coalesce_forall (P : Attr → Prop)
    (hm : ∀ l a : Attr, P l → P a → P { l with stop := max l.stop a.stop }) (l : List Attr) :
    ∀ (cur : Option Attr), (∀ x ∈ cur.toList, P x) → (∀ x ∈ l, P x) →
      ∀ x ∈ coalesce cur l, P x := by
  induction l with
  | nil =>
    intro cur hc _ x hx
    simp only [coalesce] at hx
    exact hc x hx
  | cons a r ih =>
    intro cur hc hl x hx
    have ha : P a := hl a (by simp)
    have hr : ∀ x ∈ r, P x := fun x hx => hl x (by simp [hx])
    cases cur with
    | none =>
      simp only [coalesce] at hx
      exact ih (some a) (by simpa using ha) hr x hx
    | some l0 =>
      have hl0 : P l0 := hc l0 (by simp)
      simp only [coalesce] at hx
      split at hx
      · exact ih _ (by simpa using hm l0 a hl0 ha) hr x hx
      · simp only [List.mem_cons] at hx
        rcases hx with rfl | hx
        · exact hl0
        · exact ih (some a) (by simpa using ha) hr x hx

/-- `merge` keeps every range inside `[0, N]` -/
theorem merge_bnd (N : Nat) (l : List Attr) (h : ∀ a ∈ l, Bnd N a) : ∀ a ∈ merge l, Bnd N a := by
  intro a ha
  simp only [merge] at ha
  split at ha
  · exact h a ha
  · refine coalesce_forall (Bnd N) ?_ _ none (by simp) ?_ a ha
    · intro l a hl ha
      exact ⟨by simp only; have := hl.1; omega, by simp only; have := hl.2; have := ha.2; omega⟩
    · intro x hx
      exact h x ((mem_sortBy _ _ _).1 (mem_dedupAdj _ x hx))

/-! ## panic-freedom of `transform` -/

theorem skipEnded_le (pos : Nat) (l : List Attr) : skipEnded pos l ≤ l.length := by
  induction l with
  | nil => simp [skipEnded]
  | cons a r ih =>
    simp only [skipEnded]
    split <;> simp <;> omega

theorem advance_le (attrs : List Attr) (pos cur : Nat) (h : cur ≤ attrs.length) :
    advance attrs pos cur ≤ attrs.length := by
  simp only [advance]
  have := skipEnded_le pos (attrs.drop cur)
  simp only [List.length_drop] at this
  omega

theorem findForInsertion_ok (attrs : List Attr) (pos cur : Nat) (h : cur ≤ attrs.length) :
    ∃ r cur', findForInsertion attrs pos cur = .ok (r, cur') ∧ cur' ≤ attrs.length := by
  simp only [findForInsertion]
  split
  · exact ⟨_, _, rfl, h⟩
  · have hadv := advance_le attrs pos cur h
    split
    · exact ⟨_, _, rfl, hadv⟩
    · split
      · rename_i hpos
        split
        · exact ⟨_, _, rfl, hadv⟩
        · rename_i hnone
          rw [List.getElem?_eq_none_iff] at hnone
          omega
      · exact ⟨_, _, rfl, hadv⟩

theorem mem_dedupMoves (l : List Move) : ∀ (acc : List Move), ∀ m ∈ dedupMoves acc l, m ∈ acc ∨ m ∈ l := by
  induction l with
  | nil => intro acc m hm; simp only [dedupMoves] at hm; exact Or.inl hm
  | cons x xs ih =>
    intro acc m hm
    simp only [dedupMoves] at hm
    split at hm
    · rcases ih acc m hm with h | h
      · exact Or.inl h
      · exact Or.inr (List.mem_cons_of_mem _ h)
    · rcases ih _ m hm with h | h
      · simp only [List.mem_append, List.mem_singleton] at h
        rcases h with h | rfl
        · exact Or.inl h
        · exact Or.inr (by simp)
      · exact Or.inr (List.mem_cons_of_mem _ h)

theorem movesForDeletion_sub (moves : List Move) (d : Nat) (ms : List Move)
    (h : movesForDeletion moves d = some ms) : ∀ m ∈ ms, m ∈ moves := by
  simp only [movesForDeletion] at h
  split at h
  · cases h
  · cases h
    intro m hm
    rw [mem_sortBy] at hm
    rcases mem_dedupMoves _ [] m hm with h | h
    · simp at h
    · exact (List.mem_filter.1 h).1

theorem applyMoves_ok (c : Ctx) (delStart : Nat) (ms : List Move)
    (hms : ∀ m ∈ ms, m.insIdx < c.ins.length) :
    ∀ (cur : Nat) (out : List Attr), ∃ r, applyMoves c delStart ms cur out = .ok r := by
  induction ms with
  | nil => intro cur out; exact ⟨_, rfl⟩
  | cons m r ih =>
    intro cur out
    have hr : ∀ m ∈ r, m.insIdx < c.ins.length := fun x hx => hms x (by simp [hx])
    simp only [applyMoves]
    split
    · rename_i hnone
      rw [List.getElem?_eq_none_iff] at hnone
      have := hms m (by simp)
      omega
    · split
      · exact ih hr _ _
      · exact ih hr _ _

/-- the hypothesis of `no_panic`: every move names an existing insertion -/
def MovesIndexed (segs : List Seg) (moves : List Move) : Prop :=
  ∀ m ∈ moves, m.insIdx < (insertions segs).length

theorem decideInsert_ok (c : Ctx) (s : St) (g : Seg) (hcur : s.insCur ≤ c.old.length) :
    ∃ w ic, decideInsert c s g = .ok (w, ic) ∧ ic ≤ c.old.length := by
  obtain ⟨r, cur', hf, hle⟩ := findForInsertion_ok c.old s.oldPos s.insCur hcur
  simp only [decideInsert]
  split
  · exact ⟨_, _, rfl, hcur⟩
  · split
    · exact ⟨_, _, rfl, hcur⟩
    · split
      · rw [hf]
        cases r with
        | some a => exact ⟨_, _, rfl, hle⟩
        | none =>
          simp only
          split <;> exact ⟨_, _, rfl, hle⟩
      · split
        · exact ⟨_, _, rfl, hcur⟩
        · rw [hf]
          cases r with
          | some a => exact ⟨_, _, rfl, hle⟩
          | none => exact ⟨_, _, rfl, hle⟩

theorem step_ok (c : Ctx) (hm : ∀ m ∈ c.moves, m.insIdx < c.ins.length) (s : St) (g : Seg)
    (hcur : s.insCur ≤ c.old.length) :
    ∃ s', step c s g = .ok s' ∧ s'.insCur ≤ c.old.length := by
  simp only [step]
  cases hop : g.op <;> simp only
  · exact ⟨_, rfl, hcur⟩
  · split
    · rename_i ms hms
      obtain ⟨r, hr⟩ := applyMoves_ok c s.oldPos ms
        (fun m hmem => hm m (movesForDeletion_sub _ _ _ hms m hmem)) s.oldCur s.out
      rw [hr]
      exact ⟨_, rfl, hcur⟩
    · exact ⟨_, rfl, hcur⟩
  · split
    · exact ⟨_, rfl, hcur⟩
    · obtain ⟨w, ic, hd, hle⟩ := decideInsert_ok c s g hcur
      rw [hd]
      exact ⟨_, rfl, hle⟩

theorem runSegs_ok (c : Ctx) (hm : ∀ m ∈ c.moves, m.insIdx < c.ins.length) (segs : List Seg) :
    ∀ (s : St), s.insCur ≤ c.old.length → ∃ s', runSegs c s segs = .ok s' := by
  induction segs with
  | nil => intro s _; exact ⟨_, rfl⟩
  | cons g r ih =>
    intro s hs
    obtain ⟨s1, h1, hle⟩ := step_ok c hm s g hs
    simp only [runSegs, h1]
    exact ih s1 hle

theorem transform_ok (segs : List Seg) (subst : List (Nat × Nat)) (moves : List Move)
    (old : List Attr) (author : Str) (ts : Nat) (hm : MovesIndexed segs moves) :
    ∃ out, transform segs subst moves old author ts = .ok out := by
  obtain ⟨s, hs⟩ := runSegs_ok ⟨old, author, ts, insertions segs, moves, subst⟩ hm segs St.init
    (by simp [St.init])
  exact ⟨s.out, by simp only [transform, hs]⟩

end GitAi.Tracker
