/-
  Lemmas/TrackerBoundaries.lean — output ranges of `transform` / `merge` start and end on char
  boundaries of the new text.
-/
import GitAiModel.Lemmas.TrackerUnchanged
namespace GitAi.Tracker
open GitAi

/-! ## texts and boundaries -/

/-- empty, or not starting with a continuation byte -/
def headOk : Text → Prop
  | [] => True
  | b :: _ => isCont b = false

/-- the segment contract for boundaries: every segment that contributes to the new text starts on
    a char boundary (so every segment end in the new text is one too) -/
def SegStartsOk (segs : List Seg) : Prop := ∀ g ∈ segs, g.op ≠ .delete → headOk g.data

theorem newOf_append (l1 l2 : List Seg) : newOf (l1 ++ l2) = newOf l1 ++ newOf l2 := by
  induction l1 with
  | nil => rfl
  | cons g r ih => cases hop : g.op <;> simp [newOf, hop, ih]

theorem oldOf_append (l1 l2 : List Seg) : oldOf (l1 ++ l2) = oldOf l1 ++ oldOf l2 := by
  induction l1 with
  | nil => rfl
  | cons g r ih => cases hop : g.op <;> simp [oldOf, hop, ih]

theorem headOk_append (x y : Text) (hx : headOk x) (hy : headOk y) : headOk (x ++ y) := by
  cases x with
  | nil => simpa using hy
  | cons b r => simpa [headOk] using hx

theorem newOf_headOk (segs : List Seg) (h : SegStartsOk segs) : headOk (newOf segs) := by
  induction segs with
  | nil => trivial
  | cons g r ih =>
    have hr : SegStartsOk r := fun x hx => h x (by simp [hx])
    cases hop : g.op
    · simp only [newOf, hop]; exact headOk_append _ _ (h g (by simp) (by simp [hop])) (ih hr)
    · simp only [newOf, hop]; exact ih hr
    · simp only [newOf, hop]; exact headOk_append _ _ (h g (by simp) (by simp [hop])) (ih hr)

theorem isBoundary_append (x y : Text) (hy : headOk y) : isBoundary (x ++ y) x.length = true := by
  cases y with
  | nil => simp [isBoundary]
  | cons b r =>
    simp only [headOk] at hy
    simp [isBoundary, hy]

/-- a segment boundary of the new text is a char boundary -/
theorem seg_boundary (pre rest : List Seg) (h : SegStartsOk (pre ++ rest)) :
    isBoundary (newOf (pre ++ rest)) (newOf pre).length = true := by
  rw [newOf_append]
  apply isBoundary_append
  apply newOf_headOk
  intro g hg; exact h g (by simp [hg])

theorem isBoundary_interior (x d y : Text) (k : Nat) (hk0 : 0 < k) (hk : k < d.length) :
    isBoundary (x ++ d ++ y) (x.length + k) = !isCont (d[k]'hk) := by
  have h1 : (x.length + k == 0) = false := by simp; omega
  have h2 : (x.length + k == (x ++ d ++ y).length) = false := by simp; omega
  have h3 : (x ++ d ++ y)[x.length + k]? = some (d[k]'hk) := by
    rw [List.append_assoc, List.getElem?_append_right (by omega)]
    simp only [Nat.add_sub_cancel_left]
    rw [List.getElem?_append_left hk, List.getElem?_eq_getElem hk]
  simp only [isBoundary, h1, h2, h3, Bool.false_or]

/-- interior positions of a shared segment are boundaries of old iff of new -/
theorem equal_transfer (xo yo xn yn d : Text) (k : Nat) (hk0 : 0 < k) (hk : k < d.length) :
    isBoundary (xn ++ d ++ yn) (xn.length + k) = isBoundary (xo ++ d ++ yo) (xo.length + k) := by
  rw [isBoundary_interior _ _ _ _ hk0 hk, isBoundary_interior _ _ _ _ hk0 hk]

/-! ## Equal segments -/

theorem mapOverlaps_boundaries (xo yo xn yn d : Text) (l : List Attr)
    (hs : isBoundary (xn ++ d ++ yn) xn.length = true)
    (he : isBoundary (xn ++ d ++ yn) (xn.length + d.length) = true)
    (hl : ∀ x ∈ l, isBoundary (xo ++ d ++ yo) x.start = true ∧ isBoundary (xo ++ d ++ yo) x.stop = true) :
    ∀ a ∈ mapOverlaps xo.length (xo.length + d.length) xn.length l,
      isBoundary (xn ++ d ++ yn) a.start = true ∧ isBoundary (xn ++ d ++ yn) a.stop = true := by
  induction l with
  | nil => intro a ha; simp [mapOverlaps] at ha
  | cons x xs ih =>
    have ihx := ih (fun y hy => hl y (by simp [hy]))
    have hx := hl x (by simp)
    intro a ha
    simp only [mapOverlaps] at ha
    split at ha
    · simp at ha
    · split at ha
      · rename_i hge hlt
        simp only [List.mem_cons] at ha
        rcases ha with rfl | ha
        · simp only
          constructor
          · by_cases h1 : x.start ≤ xo.length
            · have : max x.start xo.length - xo.length = 0 := by omega
              rw [this, Nat.add_zero]; exact hs
            · have hk : max x.start xo.length - xo.length = x.start - xo.length := by omega
              rw [hk, equal_transfer xo yo xn yn d _ (by omega) (by omega)]
              have : xo.length + (x.start - xo.length) = x.start := by omega
              rw [this]; exact hx.1
          · have e : xn.length + (max x.start xo.length - xo.length) +
                (min x.stop (xo.length + d.length) - max x.start xo.length)
                = xn.length + (min x.stop (xo.length + d.length) - xo.length) := by omega
            rw [e]
            by_cases h1 : xo.length + d.length ≤ x.stop
            · have : min x.stop (xo.length + d.length) - xo.length = d.length := by omega
              rw [this]; exact he
            · have hk : min x.stop (xo.length + d.length) - xo.length = x.stop - xo.length := by omega
              rw [hk, equal_transfer xo yo xn yn d _ (by omega) (by omega)]
              have : xo.length + (x.stop - xo.length) = x.stop := by omega
              rw [this]; exact hx.2
        · exact ihx a ha
      · exact ihx a ha

/-! ## clamp -/

theorem clampGo_spec (ins : Ins) (limit : Nat) : ∀ (fuel p : Nat), limit - p ≤ fuel → p ≤ limit →
    clampGo ins limit fuel p = limit ∨
      (clampGo ins limit fuel p < limit ∧
        (clampGo ins limit fuel p < ins.start ∨ ins.contAt (clampGo ins limit fuel p) = false)) := by
  intro fuel
  induction fuel with
  | zero => intro p h1 h2; left; simp only [clampGo]; omega
  | succ f ih =>
    intro p h1 h2
    simp only [clampGo]
    split
    · rename_i hc
      exact ih (p + 1) (by omega) (by omega)
    · rename_i hc
      by_cases hp : p = limit
      · left; exact hp
      · right
        refine ⟨by omega, ?_⟩
        by_cases h3 : p < ins.start
        · exact Or.inl h3
        · right
          cases hca : ins.contAt p with
          | false => rfl
          | true => exact absurd ⟨by omega, by omega, hca⟩ hc

/-- a catalog entry sits in the new text where its segment is -/
theorem mem_insertions_split (segs : List Seg) : ∀ (np : Nat), ∀ i ∈ insertionsFrom segs np,
    ∃ pre post, segs = pre ++ ⟨.insert, i.data⟩ :: post ∧ i.start = np + (newOf pre).length ∧
      i.stop = i.start + i.data.length := by
  induction segs with
  | nil => intro np i hi; simp [insertionsFrom] at hi
  | cons g r ih =>
    intro np i hi
    simp only [insertionsFrom] at hi
    cases hop : g.op <;> simp only [hop] at hi
    · obtain ⟨pre, post, h1, h2, h3⟩ := ih _ i hi
      refine ⟨g :: pre, post, by rw [h1]; rfl, ?_, h3⟩
      simp only [newOf, hop, List.length_append]; omega
    · obtain ⟨pre, post, h1, h2, h3⟩ := ih _ i hi
      refine ⟨g :: pre, post, by rw [h1]; rfl, ?_, h3⟩
      simp only [newOf, hop]; omega
    · simp only [List.mem_cons] at hi
      rcases hi with rfl | hi
      · refine ⟨[], r, ?_, by simp [newOf], rfl⟩
        cases g with
        | mk o dd => simp only at hop; subst hop; rfl
      · obtain ⟨pre, post, h1, h2, h3⟩ := ih _ i hi
        refine ⟨g :: pre, post, by rw [h1]; rfl, ?_, h3⟩
        simp only [newOf, hop, List.length_append]; omega

/-- offset `t` into an insertion's bytes is a char boundary or lies at/after its end -/
def relB (d : Text) (t : Nat) : Prop :=
  t = 0 ∨ d.length ≤ t ∨ ∃ (h : t < d.length), isCont (d[t]'h) = false

theorem relB_boundary (x d y : Text) (t : Nat) (h : relB d t)
    (hs : isBoundary (x ++ d ++ y) x.length = true)
    (he : isBoundary (x ++ d ++ y) (x.length + d.length) = true) :
    isBoundary (x ++ d ++ y) (x.length + min t d.length) = true := by
  rcases h with h | h | ⟨hlt, hc⟩
  · subst h; simpa using hs
  · have : min t d.length = d.length := by omega
    rw [this]; exact he
  · have : min t d.length = t := by omega
    rw [this]
    by_cases h0 : t = 0
    · subst h0; simpa using hs
    · rw [isBoundary_interior _ _ _ _ (by omega) hlt, hc]; rfl

/-- the result of `clamp_into_insertion` is a char boundary of the new text -/
theorem clampInto_boundary (x d y : Text) (ins : Ins) (hd : ins.data = d) (hst : ins.start = x.length)
    (pos limit : Nat) (hpos : x.length ≤ pos) (hlim1 : x.length ≤ limit) (hlim2 : limit ≤ x.length + d.length)
    (hlimB : isBoundary (x ++ d ++ y) limit = true)
    (hs : isBoundary (x ++ d ++ y) x.length = true) :
    isBoundary (x ++ d ++ y) (clampInto ins pos limit) = true := by
  have hge := clampInto_ge ins pos limit
  simp only [clampInto] at hge ⊢
  rcases clampGo_spec ins limit (limit - min pos limit) (min pos limit) (Nat.le_refl _) (Nat.min_le_right _ _) with h | ⟨h1, h2⟩
  · rw [h]; exact hlimB
  · generalize clampGo ins limit (limit - min pos limit) (min pos limit) = r at *
    rcases h2 with h2 | h2
    · omega
    · have hr : x.length ≤ r := by omega
      by_cases hr0 : r = x.length
      · rw [hr0]; exact hs
      · have hk : r - x.length < d.length := by omega
        have e : r = x.length + (r - x.length) := by omega
        rw [e, isBoundary_interior _ _ _ _ (by omega) hk]
        simp only [Ins.contAt, hst, hd, List.getElem?_eq_getElem hk] at h2
        rw [h2]; rfl

/-! ## moved text, gaps -/

theorem mapMoved_boundaries (x d y : Text) (ins : Ins) (hd : ins.data = d) (hst : ins.start = x.length)
    (lo hi ts te : Nat) (hts : x.length ≤ ts) (hte1 : x.length ≤ te) (hte2 : te ≤ x.length + d.length)
    (hteB : isBoundary (x ++ d ++ y) te = true) (hs : isBoundary (x ++ d ++ y) x.length = true)
    (l : List Attr) :
    ∀ a ∈ mapMoved ins lo hi ts te l,
      isBoundary (x ++ d ++ y) a.start = true ∧ isBoundary (x ++ d ++ y) a.stop = true := by
  induction l with
  | nil => intro a ha; simp [mapMoved] at ha
  | cons z zs ih =>
    intro a ha
    simp only [mapMoved] at ha
    split at ha
    · simp at ha
    · split at ha
      · split at ha
        · simp only [List.mem_cons] at ha
          rcases ha with rfl | ha
          · exact ⟨clampInto_boundary x d y ins hd hst _ te (by omega) hte1 hte2 hteB hs,
              clampInto_boundary x d y ins hd hst _ te (by omega) hte1 hte2 hteB hs⟩
          · exact ih a ha
        · exact ih a ha
      · exact ih a ha

theorem max_cases (R : Nat → Prop) (a b : Nat) (ha : R a) (hb : R b) : R (max a b) := by
  rcases Nat.le_total a b with h | h
  · rw [Nat.max_eq_right h]; exact hb
  · rw [Nat.max_eq_left h]; exact ha

theorem mergeCov_ends (R : Nat → Prop) (l : List (Nat × Nat)) :
    ∀ (cur : Option (Nat × Nat)), (∀ p ∈ cur.toList, R p.1 ∧ R p.2) → (∀ p ∈ l, R p.1 ∧ R p.2) →
      ∀ p ∈ mergeCov cur l, R p.1 ∧ R p.2 := by
  induction l with
  | nil => intro cur hc _ p hp; simp only [mergeCov] at hp; exact hc p hp
  | cons q r ih =>
    intro cur hc hl p hp
    obtain ⟨s, e⟩ := q
    have hq := hl (s, e) (by simp)
    have hr : ∀ p ∈ r, R p.1 ∧ R p.2 := fun p hp => hl p (by simp [hp])
    simp only [mergeCov] at hp
    split at hp
    · exact ih cur hc hr p hp
    · cases cur with
      | none => exact ih (some (s, e)) (by simpa using hq) hr p hp
      | some c0 =>
        obtain ⟨ls, le⟩ := c0
        have hc0 := hc (ls, le) (by simp)
        simp only at hp
        split at hp
        · exact ih (some (ls, max le e)) (by simpa using ⟨hc0.1, max_cases R _ _ hc0.2 hq.2⟩) hr p hp
        · simp only [List.mem_cons] at hp
          rcases hp with rfl | hp
          · exact hc0
          · exact ih (some (s, e)) (by simpa using hq) hr p hp

theorem gapAttrs_ends (G : Nat → Prop) (np len : Nat) (author : Str) (ts : Nat) (hlen : G len)
    (l : List (Nat × Nat)) (hl : ∀ p ∈ l, G (min p.1 len) ∧ G (min p.2 len)) :
    ∀ (cur : Nat), G cur → ∀ a ∈ gapAttrs np len author ts cur l,
      ∃ t1 t2, a.start = np + t1 ∧ a.stop = np + t2 ∧ G t1 ∧ G t2 := by
  induction l with
  | nil =>
    intro cur hcur a ha
    simp only [gapAttrs] at ha
    split at ha
    · simp only [List.mem_singleton] at ha
      subst ha
      exact ⟨cur, len, rfl, rfl, hcur, hlen⟩
    · simp at ha
  | cons q r ih =>
    intro cur hcur a ha
    obtain ⟨s, e⟩ := q
    have hq := hl (s, e) (by simp)
    simp only [gapAttrs, List.mem_append] at ha
    rcases ha with ha | ha
    · split at ha
      · simp only [List.mem_singleton] at ha
        subst ha
        exact ⟨cur, min s len, rfl, rfl, hcur, hq.1⟩
      · simp at ha
    · exact ih (fun p hp => hl p (by simp [hp])) _ (max_cases G _ _ hcur hq.2) a ha

/-! ## the step invariant -/

/-- both ends on char boundaries of `t` -/
def OnB (t : Text) (a : Attr) : Prop := isBoundary t a.start = true ∧ isBoundary t a.stop = true

/-- move targets start and end on char boundaries of their insertion (or at/after its end) -/
def TargetsOk (segs : List Seg) (moves : List Move) : Prop :=
  ∀ m ∈ moves, ∀ i, (insertions segs)[m.insIdx]? = some i → relB i.data m.tgtS ∧ relB i.data m.tgtE

theorem insertions_at (pre post : List Seg) (d : Text) :
    (insertions (pre ++ ⟨.insert, d⟩ :: post))[insCount pre]? =
      some ⟨(newOf pre).length, (newOf pre).length + d.length, d⟩ := by
  simp only [insertions, insertionsFrom_append, Nat.zero_add]
  rw [List.getElem?_append_right (by rw [insertionsFrom_length]; exact Nat.le_refl _)]
  simp [insertionsFrom_length, insertionsFrom]

theorem newOf_split (pre post : List Seg) (g : Seg) (h : g.op ≠ .delete) :
    newOf (pre ++ g :: post) = newOf pre ++ g.data ++ newOf post := by
  rw [newOf_append]
  cases hop : g.op
  · simp [newOf, hop]
  · exact absurd hop h
  · simp [newOf, hop]

theorem oldOf_split (pre post : List Seg) (g : Seg) (h : g.op ≠ .insert) :
    oldOf (pre ++ g :: post) = oldOf pre ++ g.data ++ oldOf post := by
  rw [oldOf_append]
  cases hop : g.op
  · simp [oldOf, hop]
  · simp [oldOf, hop]
  · exact absurd hop h

theorem seg_end_boundary (pre post : List Seg) (g : Seg) (hne : g.op ≠ .delete)
    (h : SegStartsOk (pre ++ g :: post)) :
    isBoundary (newOf (pre ++ g :: post)) ((newOf pre).length + g.data.length) = true := by
  have := seg_boundary (pre ++ [g]) post (by simpa using h)
  rw [List.append_assoc] at this
  simp only [List.singleton_append] at this
  have e : (newOf (pre ++ [g])).length = (newOf pre).length + g.data.length := by
    rw [newOf_append, List.length_append]
    cases hop : g.op
    · simp [newOf, hop]
    · exact absurd hop hne
    · simp [newOf, hop]
  rw [e] at this
  exact this

theorem applyMoves_boundaries (c : Ctx) (segs : List Seg) (hins : c.ins = insertions segs)
    (hok : SegStartsOk segs) (htg : TargetsOk segs c.moves) (delStart : Nat) (ms : List Move)
    (hms : ∀ m ∈ ms, m ∈ c.moves) :
    ∀ (cur : Nat) (out : List Attr) (cur' : Nat) (out' : List Attr),
      (∀ a ∈ out, OnB (newOf segs) a) → applyMoves c delStart ms cur out = .ok (cur', out') →
      ∀ a ∈ out', OnB (newOf segs) a := by
  induction ms with
  | nil =>
    intro cur out cur' out' hout h
    simp only [applyMoves, Except.ok.injEq, Prod.mk.injEq] at h
    rw [← h.2]; exact hout
  | cons m r ih =>
    intro cur out cur' out' hout h
    have hr : ∀ m ∈ r, m ∈ c.moves := fun x hx => hms x (by simp [hx])
    simp only [applyMoves] at h
    split at h
    · cases h
    · rename_i insn hget
      split at h
      · refine ih hr _ _ _ _ ?_ h
        intro a ha
        simp only [List.mem_append] at ha
        rcases ha with ha | ha
        · exact hout a ha
        · have hmem : insn ∈ insertions segs := by rw [← hins]; exact List.mem_of_getElem? hget
          obtain ⟨pre, post, hsegs, hst, hstop⟩ := mem_insertions_split segs 0 insn hmem
          have hN : newOf segs = newOf pre ++ insn.data ++ newOf post := by
            rw [hsegs]; exact newOf_split pre post _ (by simp)
          have hs : isBoundary (newOf segs) (newOf pre).length = true := by
            rw [hsegs]; exact seg_boundary pre _ (hsegs ▸ hok)
          have he : isBoundary (newOf segs) ((newOf pre).length + insn.data.length) = true := by
            have := seg_end_boundary pre post ⟨.insert, insn.data⟩ (by simp) (hsegs ▸ hok)
            rw [hsegs]; exact this
          rw [hins] at hget
          have hrel := (htg m (hms m (by simp)) insn hget).2
          rw [Nat.zero_add] at hst
          have hte : min (insn.start + m.tgtE) insn.stop = (newOf pre).length + min m.tgtE insn.data.length := by
            rw [hstop, hst]; omega
          rw [hN] at hs he ⊢
          have hteB := relB_boundary _ _ _ m.tgtE hrel hs he
          have := mapMoved_boundaries (newOf pre) insn.data (newOf post) insn rfl hst
            (delStart + m.srcS) (delStart + m.srcE) (insn.start + m.tgtS)
            (min (insn.start + m.tgtE) insn.stop) (by omega) (by omega) (by omega)
            (by rw [hte]; exact hteB) hs _ a ha
          exact this
      · exact ih hr _ _ _ _ hout h

theorem rangesForInsertion_mem (moves : List Move) (k : Nat) (rs : List (Nat × Nat))
    (h : rangesForInsertion moves k = some rs) :
    ∀ p ∈ rs, ∃ m ∈ moves, m.insIdx = k ∧ p = (m.tgtS, m.tgtE) := by
  simp only [rangesForInsertion] at h
  split at h
  · cases h
  · cases h
    intro p hp
    simp only [List.mem_map, List.mem_filter] at hp
    obtain ⟨m, ⟨hm, hk⟩, rfl⟩ := hp
    exact ⟨m, hm, by simpa using hk, rfl⟩

theorem step_boundaries (c : Ctx) (pre post : List Seg) (g : Seg)
    (hins : c.ins = insertions (pre ++ g :: post)) (hok : SegStartsOk (pre ++ g :: post))
    (hold : ∀ x ∈ c.old, OnB (oldOf (pre ++ g :: post)) x) (htg : TargetsOk (pre ++ g :: post) c.moves)
    (s s' : St) (hnp : s.newPos = (newOf pre).length) (hop : s.oldPos = (oldOf pre).length)
    (hidx : s.insIdx = insCount pre)
    (hout : ∀ a ∈ s.out, OnB (newOf (pre ++ g :: post)) a) (h : step c s g = .ok s') :
    ∀ a ∈ s'.out, OnB (newOf (pre ++ g :: post)) a := by
  have hstart := seg_boundary pre (g :: post) hok
  simp only [step] at h
  cases hg : g.op <;> simp only [hg] at h
  · -- equal
    cases h
    intro a ha
    simp only [List.mem_append] at ha
    rcases ha with ha | ha
    · exact hout a ha
    · have hN := newOf_split pre post g (by simp [hg])
      have hO := oldOf_split pre post g (by simp [hg])
      have hend := seg_end_boundary pre post g (by simp [hg]) hok
      rw [hnp, hop] at ha
      rw [hN] at hstart hend ⊢
      refine mapOverlaps_boundaries (oldOf pre) (oldOf post) (newOf pre) (newOf post) g.data _ hstart hend ?_ a ha
      intro x hx
      have := hold x (List.mem_of_mem_drop hx)
      rw [hO] at this
      exact this
  · -- delete
    split at h
    · rename_i ms hms
      split at h
      · cases h
      · rename_i cur out hap
        cases h
        exact applyMoves_boundaries c _ hins hok htg _ ms (movesForDeletion_sub _ _ _ hms) _ _ _ _ hout hap
    · cases h
      intro a ha
      simp only at ha
      split at ha
      · simp only [List.mem_append, List.mem_singleton] at ha
        rcases ha with ha | rfl
        · exact hout a ha
        · rw [hnp]; exact ⟨hstart, hstart⟩
      · exact hout a ha
  · -- insert
    have hend := seg_end_boundary pre post g (by simp [hg]) hok
    have hN := newOf_split pre post g (by simp [hg])
    split at h
    · rename_i rs hrs
      cases h
      intro a ha
      simp only [List.mem_append] at ha
      rcases ha with ha | ha
      · exact hout a ha
      · have hgeq : g = ⟨.insert, g.data⟩ := by cases g; simp only at hg; subst hg; rfl
        have hat := insertions_at pre post g.data
        rw [← hgeq] at hat
        have hR : ∀ p ∈ rs, isBoundary (newOf (pre ++ g :: post)) ((newOf pre).length + min p.1 g.data.length) = true ∧
            isBoundary (newOf (pre ++ g :: post)) ((newOf pre).length + min p.2 g.data.length) = true := by
          intro p hp
          obtain ⟨m, hm, hk, rfl⟩ := rangesForInsertion_mem _ _ _ hrs p hp
          rw [hidx] at hk
          have := htg m hm _ (by rw [hk]; exact hat)
          simp only at this
          rw [hN] at hstart hend ⊢
          exact ⟨relB_boundary _ _ _ _ this.1 hstart hend, relB_boundary _ _ _ _ this.2 hstart hend⟩
        have hmerged := mergeCov_ends
          (fun t => isBoundary (newOf (pre ++ g :: post)) ((newOf pre).length + min t g.data.length) = true)
          (sortBy (fun a b => decide (a.1 ≤ b.1)) rs) none (by simp)
          (fun p hp => hR p ((mem_sortBy _ _ _).1 hp))
        obtain ⟨t1, t2, e1, e2, g1, g2⟩ := gapAttrs_ends
          (fun t => isBoundary (newOf (pre ++ g :: post)) ((newOf pre).length + t) = true)
          s.newPos g.data.length c.author c.ts hend _ hmerged 0 (by simpa using hstart) a ha
        rw [hnp] at e1 e2
        exact ⟨by rw [e1]; exact g1, by rw [e2]; exact g2⟩
    · split at h
      · cases h
      · cases h
        intro a ha
        simp only [List.mem_append, List.mem_singleton] at ha
        rcases ha with ha | rfl
        · exact hout a ha
        · rw [hnp]; exact ⟨hstart, hend⟩

theorem insCount_append (l1 l2 : List Seg) : insCount (l1 ++ l2) = insCount l1 + insCount l2 := by
  induction l1 with
  | nil => simp [insCount]
  | cons x xs ih => simp only [List.cons_append, insCount, ih]; omega

theorem runSegs_boundaries (c : Ctx) (segs : List Seg) (hins : c.ins = insertions segs)
    (hok : SegStartsOk segs) (hold : ∀ x ∈ c.old, OnB (oldOf segs) x) (htg : TargetsOk segs c.moves) :
    ∀ (rest pre : List Seg) (s s' : St), segs = pre ++ rest → s.newPos = (newOf pre).length →
      s.oldPos = (oldOf pre).length → s.insIdx = insCount pre →
      (∀ a ∈ s.out, OnB (newOf segs) a) → runSegs c s rest = .ok s' → ∀ a ∈ s'.out, OnB (newOf segs) a := by
  intro rest
  induction rest with
  | nil =>
    intro pre s s' _ _ _ _ hout h
    simp only [runSegs, Except.ok.injEq] at h
    subst h; exact hout
  | cons g r ih =>
    intro pre s s' hsegs hnp hop hidx hout h
    simp only [runSegs] at h
    split at h
    · cases h
    · rename_i s1 h1
      subst hsegs
      have hout1 := step_boundaries c pre r g hins hok hold htg s s1 hnp hop hidx hout h1
      have e1 := step_newPos c s s1 g h1
      have e2 := (step_oldPos c s s1 g h1).1
      have e3 := step_insIdx c s s1 g h1
      refine ih (pre ++ [g]) s1 s' (by simp) ?_ ?_ ?_ hout1 h
      · rw [e1, hnp, newOf_append, List.length_append]
        cases hg : g.op <;> simp [newOf, Seg.newLen, hg]
      · rw [e2, hop, oldOf_append, List.length_append]
        cases hg : g.op <;> simp [oldOf, hg]
      · rw [e3, hidx]
        rw [insCount_append]; simp [insCount]

theorem transform_boundaries (segs : List Seg) (subst : List (Nat × Nat)) (moves : List Move)
    (old : List Attr) (author : Str) (ts : Nat) (out : List Attr) (hok : SegStartsOk segs)
    (hold : ∀ x ∈ old, OnB (oldOf segs) x) (htg : TargetsOk segs moves)
    (h : transform segs subst moves old author ts = .ok out) : ∀ a ∈ out, OnB (newOf segs) a := by
  simp only [transform] at h
  split at h
  · cases h
  · rename_i s hrun
    cases h
    exact runSegs_boundaries ⟨old, author, ts, insertions segs, moves, subst⟩ segs rfl hok hold htg
      segs [] St.init s rfl rfl rfl rfl (by intro a ha; simp [St.init] at ha) hrun

theorem merge_boundaries (t : Text) (l : List Attr) (h : ∀ a ∈ l, OnB t a) : ∀ a ∈ merge l, OnB t a := by
  intro a ha
  simp only [merge] at ha
  split at ha
  · exact h a ha
  · refine coalesce_forall (OnB t) ?_ _ none (by simp) ?_ a ha
    · intro l a hl ha
      exact ⟨hl.1, max_cases (fun n => isBoundary t n = true) _ _ hl.2 ha.2⟩
    · intro x hx
      exact h x ((mem_sortBy _ _ _).1 (mem_dedupAdj _ x hx))

end GitAi.Tracker
