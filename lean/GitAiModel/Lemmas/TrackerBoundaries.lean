/-
  Lemmas/TrackerBoundaries.lean — output ranges of `transform` / `merge` start and end on char
  boundaries of the new text.
-/
import GitAiModel.Lemmas.TrackerNewText
namespace GitAi.Tracker
open GitAi

/-! ## texts and boundaries -/

/-- empty, or not starting with a continuation byte -/
def headOk : Text → Prop
  | [] => True
  | b :: _ => isCont b = false

/-- the segment contract for boundaries: every segment that contributes to the new text starts on
    a char boundary (so every segment end in the new text is one too) -/
def SegStartsOk (segs : List Seg) : Prop := ∀ g ∈ segs, g.op ≠ .delete → headOk g.data

theorem newOf_append (l1 l2 : List Seg) : newOf (l1 ++ l2) = newOf l1 ++ newOf l2 := by
  induction l1 with
  | nil => rfl
  | cons g r ih => cases hop : g.op <;> simp [newOf, hop, ih]

theorem oldOf_append (l1 l2 : List Seg) : oldOf (l1 ++ l2) = oldOf l1 ++ oldOf l2 := by
  induction l1 with
  | nil => rfl
  | cons g r ih => cases hop : g.op <;> simp [oldOf, hop, ih]

theorem headOk_append (x y : Text) (hx : headOk x) (hy : headOk y) : headOk (x ++ y) := by
  cases x with
  | nil => simpa using hy
  | cons b r => simpa [headOk] using hx

theorem newOf_headOk (segs : List Seg) (h : SegStartsOk segs) : headOk (newOf segs) := by
  induction segs with
  | nil => trivial
  | cons g r ih =>
    have hr : SegStartsOk r := fun x hx => h x (by simp [hx])
    cases hop : g.op
    · simp only [newOf, hop]; exact headOk_append _ _ (h g (by simp) (by simp [hop])) (ih hr)
    · simp only [newOf, hop]; exact ih hr
    · simp only [newOf, hop]; exact headOk_append _ _ (h g (by simp) (by simp [hop])) (ih hr)

theorem isBoundary_append (x y : Text) (hy : headOk y) : isBoundary (x ++ y) x.length = true := by
  cases y with
  | nil => simp [isBoundary]
  | cons b r =>
    simp only [headOk] at hy
    simp [isBoundary, hy]

/-- a segment boundary of the new text is a char boundary -/
theorem seg_boundary (pre rest : List Seg) (h : SegStartsOk (pre ++ rest)) :
    isBoundary (newOf (pre ++ rest)) (newOf pre).length = true := by
  rw [newOf_append]
  apply isBoundary_append
  apply newOf_headOk
  intro g hg; exact h g (by simp [hg])

theorem isBoundary_interior (x d y : Text) (k : Nat) (hk0 : 0 < k) (hk : k < d.length) :
    isBoundary (x ++ d ++ y) (x.length + k) = !isCont (d[k]'hk) := by
  have h1 : (x.length + k == 0) = false := by simp; omega
  have h2 : (x.length + k == (x ++ d ++ y).length) = false := by simp; omega
  have h3 : (x ++ d ++ y)[x.length + k]? = some (d[k]'hk) := by
    rw [List.append_assoc, List.getElem?_append_right (by omega)]
    simp only [Nat.add_sub_cancel_left]
    rw [List.getElem?_append_left hk, List.getElem?_eq_getElem hk]
  simp only [isBoundary, h1, h2, h3, Bool.false_or]

/-- interior positions of a shared segment are boundaries of old iff of new -/
theorem equal_transfer (xo yo xn yn d : Text) (k : Nat) (hk0 : 0 < k) (hk : k < d.length) :
    isBoundary (xn ++ d ++ yn) (xn.length + k) = isBoundary (xo ++ d ++ yo) (xo.length + k) := by
  rw [isBoundary_interior _ _ _ _ hk0 hk, isBoundary_interior _ _ _ _ hk0 hk]

/-! ## Equal segments -/

theorem mapOverlaps_boundaries (xo yo xn yn d : Text) (l : List Attr)
    (hs : isBoundary (xn ++ d ++ yn) xn.length = true)
    (he : isBoundary (xn ++ d ++ yn) (xn.length + d.length) = true)
    (hl : ∀ x ∈ l, isBoundary (xo ++ d ++ yo) x.start = true ∧ isBoundary (xo ++ d ++ yo) x.stop = true) :
    ∀ a ∈ mapOverlaps xo.length (xo.length + d.length) xn.length l,
      isBoundary (xn ++ d ++ yn) a.start = true ∧ isBoundary (xn ++ d ++ yn) a.stop = true := by
  induction l with
  | nil => intro a ha; simp [mapOverlaps] at ha
  | cons x xs ih =>
    have ihx := ih (fun y hy => hl y (by simp [hy]))
    have hx := hl x (by simp)
    intro a ha
    simp only [mapOverlaps] at ha
    split at ha
    · simp at ha
    · split at ha
      · rename_i hge hlt
        simp only [List.mem_cons] at ha
        rcases ha with rfl | ha
        · simp only
          constructor
          · by_cases h1 : x.start ≤ xo.length
            · have : max x.start xo.length - xo.length = 0 := by omega
              rw [this, Nat.add_zero]; exact hs
            · have hk : max x.start xo.length - xo.length = x.start - xo.length := by omega
              rw [hk, equal_transfer xo yo xn yn d _ (by omega) (by omega)]
              have : xo.length + (x.start - xo.length) = x.start := by omega
              rw [this]; exact hx.1
          · have e : xn.length + (max x.start xo.length - xo.length) +
                (min x.stop (xo.length + d.length) - max x.start xo.length)
                = xn.length + (min x.stop (xo.length + d.length) - xo.length) := by omega
            rw [e]
            by_cases h1 : xo.length + d.length ≤ x.stop
            · have : min x.stop (xo.length + d.length) - xo.length = d.length := by omega
              rw [this]; exact he
            · have hk : min x.stop (xo.length + d.length) - xo.length = x.stop - xo.length := by omega
              rw [hk, equal_transfer xo yo xn yn d _ (by omega) (by omega)]
              have : xo.length + (x.stop - xo.length) = x.stop := by omega
              rw [this]; exact hx.2
        · exact ihx a ha
      · exact ihx a ha

/-! ## clamp -/

theorem clampGo_spec (ins : Ins) (limit : Nat) : ∀ (fuel p : Nat), limit - p ≤ fuel → p ≤ limit →
    clampGo ins limit fuel p = limit ∨
      (clampGo ins limit fuel p < limit ∧
        (clampGo ins limit fuel p < ins.start ∨ ins.contAt (clampGo ins limit fuel p) = false)) := by
  intro fuel
  induction fuel with
  | zero => intro p h1 h2; left; simp only [clampGo]; omega
  | succ f ih =>
    intro p h1 h2
    simp only [clampGo]
    split
    · rename_i hc
      exact ih (p + 1) (by omega) (by omega)
    · rename_i hc
      by_cases hp : p = limit
      · left; exact hp
      · right
        refine ⟨by omega, ?_⟩
        by_cases h3 : p < ins.start
        · exact Or.inl h3
        · right
          cases hca : ins.contAt p with
          | false => rfl
          | true => exact absurd ⟨by omega, by omega, hca⟩ hc

/-- a catalog entry sits in the new text where its segment is -/
theorem mem_insertions_split (segs : List Seg) : ∀ (np : Nat), ∀ i ∈ insertionsFrom segs np,
    ∃ pre post, segs = pre ++ ⟨.insert, i.data⟩ :: post ∧ i.start = np + (newOf pre).length ∧
      i.stop = i.start + i.data.length := by
  induction segs with
  | nil => intro np i hi; simp [insertionsFrom] at hi
  | cons g r ih =>
    intro np i hi
    simp only [insertionsFrom] at hi
    cases hop : g.op <;> simp only [hop] at hi
    · obtain ⟨pre, post, h1, h2, h3⟩ := ih _ i hi
      refine ⟨g :: pre, post, by rw [h1]; rfl, ?_, h3⟩
      simp only [newOf, hop, List.length_append]; omega
    · obtain ⟨pre, post, h1, h2, h3⟩ := ih _ i hi
      refine ⟨g :: pre, post, by rw [h1]; rfl, ?_, h3⟩
      simp only [newOf, hop]; omega
    · simp only [List.mem_cons] at hi
      rcases hi with rfl | hi
      · refine ⟨[], r, ?_, by simp [newOf], rfl⟩
        cases g with
        | mk o dd => simp only at hop; subst hop; rfl
      · obtain ⟨pre, post, h1, h2, h3⟩ := ih _ i hi
        refine ⟨g :: pre, post, by rw [h1]; rfl, ?_, h3⟩
        simp only [newOf, hop, List.length_append]; omega

/-- offset `t` into an insertion's bytes is a char boundary or lies at/after its end -/
def relB (d : Text) (t : Nat) : Prop :=
  t = 0 ∨ d.length ≤ t ∨ ∃ (h : t < d.length), isCont (d[t]'h) = false

theorem relB_boundary (x d y : Text) (t : Nat) (h : relB d t)
    (hs : isBoundary (x ++ d ++ y) x.length = true)
    (he : isBoundary (x ++ d ++ y) (x.length + d.length) = true) :
    isBoundary (x ++ d ++ y) (x.length + min t d.length) = true := by
  rcases h with h | h | ⟨hlt, hc⟩
  · subst h; simpa using hs
  · have : min t d.length = d.length := by omega
    rw [this]; exact he
  · have : min t d.length = t := by omega
    rw [this]
    by_cases h0 : t = 0
    · subst h0; simpa using hs
    · rw [isBoundary_interior _ _ _ _ (by omega) hlt, hc]; rfl

/-- the result of `clamp_into_insertion` is a char boundary of the new text -/
theorem clampInto_boundary (x d y : Text) (ins : Ins) (hd : ins.data = d) (hst : ins.start = x.length)
    (pos limit : Nat) (hpos : x.length ≤ pos) (hlim1 : x.length ≤ limit) (hlim2 : limit ≤ x.length + d.length)
    (hlimB : isBoundary (x ++ d ++ y) limit = true)
    (hs : isBoundary (x ++ d ++ y) x.length = true) :
    isBoundary (x ++ d ++ y) (clampInto ins pos limit) = true := by
  have hge := clampInto_ge ins pos limit
  simp only [clampInto] at hge ⊢
  rcases clampGo_spec ins limit (limit - min pos limit) (min pos limit) (Nat.le_refl _) (Nat.min_le_right _ _) with h | ⟨h1, h2⟩
  · rw [h]; exact hlimB
  · generalize clampGo ins limit (limit - min pos limit) (min pos limit) = r at *
    rcases h2 with h2 | h2
    · omega
    · have hr : x.length ≤ r := by omega
      by_cases hr0 : r = x.length
      · rw [hr0]; exact hs
      · have hk : r - x.length < d.length := by omega
        have e : r = x.length + (r - x.length) := by omega
        rw [e, isBoundary_interior _ _ _ _ (by omega) hk]
        simp only [Ins.contAt, hst, hd, List.getElem?_eq_getElem hk] at h2
        rw [h2]; rfl

end GitAi.Tracker
