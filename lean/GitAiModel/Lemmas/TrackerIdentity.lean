/-
  Lemmas/TrackerIdentity.lean — `update` on an identical text (one Equal segment).
-/
import GitAiModel.Lemmas.Tracker
namespace GitAi.Tracker
open GitAi

/-- prior ranges that are non-empty and inside a text of length `n` -/
def Tame (n : Nat) (P : List Attr) : Prop := ∀ a ∈ P, a.start < a.stop ∧ a.stop ≤ n

theorem mapOverlaps_id (n : Nat) (P : List Attr) (h : Tame n P) : mapOverlaps 0 n 0 P = P := by
  induction P with
  | nil => rfl
  | cons a r ih =>
    have ha := h a (by simp)
    have hr : Tame n r := fun x hx => h x (by simp [hx])
    have h1 : ¬ a.start ≥ n := by omega
    have h2 : max a.start 0 < min a.stop n := by omega
    simp only [mapOverlaps, h1, if_false, h2, if_true, ih hr]
    congr 1
    cases a with
    | mk s e au t =>
      simp only at ha h1 h2 ⊢
      have e1 : 0 + (max s 0 - 0) = s := by omega
      have e2 : 0 + (max s 0 - 0) + (min e n - max s 0) = e := by omega
      rw [e2, e1]

theorem skipEnded_tame (n : Nat) (P : List Attr) (h : Tame n P) : skipEnded 0 P = 0 := by
  cases P with
  | nil => rfl
  | cons a r =>
    have ha := h a (by simp)
    have : ¬ a.stop ≤ 0 := by omega
    simp [skipEnded, this]

/-- on one Equal segment, `transform` returns tame priors unchanged -/
theorem transform_identity (c : Text) (subst : List (Nat × Nat)) (moves : List Move) (P : List Attr)
    (author : Str) (ts : Nat) (hP : Tame c.length P) :
    transform [⟨.equal, c⟩] subst moves P author ts = .ok P := by
  simp only [transform, runSegs, step, St.init, advance, List.drop_zero, skipEnded_tame _ P hP,
    Nat.zero_add, Nat.add_zero, List.nil_append, mapOverlaps_id _ P hP]

theorem tame_of_mem_iff (n : Nat) (P Q : List Attr) (h : ∀ a, a ∈ Q ↔ a ∈ P) (hP : Tame n P) : Tame n Q :=
  fun a ha => hP a ((h a).1 ha)

theorem normalizeOld_tame (n : Nat) (P : List Attr) (hP : Tame n P) : Tame n (normalizeOld P) := by
  simp only [normalizeOld]
  split
  · exact hP
  · exact tame_of_mem_iff n P _ (fun a => mem_sortBy _ a P) hP

/-- **identity update = normalisation**: on an identical text `update_attributions` only sorts,
    de-duplicates and coalesces the priors; no range is moved, dropped or re-attributed. -/
theorem update_identity (c : Text) (subst : List (Nat × Nat)) (moves : List Move) (P : List Attr)
    (author : Str) (ts : Nat) (hP : Tame c.length P) :
    update [⟨.equal, c⟩] subst moves P author ts = .ok (merge (normalizeOld P)) := by
  simp only [update, transform_identity c subst moves _ author ts (normalizeOld_tame _ P hP)]

end GitAi.Tracker
