/-
  Lemmas/TrackerInPlace.lean — `update_attributions` on an unchanged content
  (`keepInPlace` / `updateAttributions`, Model/Tracker.lean): bounds, boundaries, cover sets and
  the line projection.
-/
import GitAiModel.Lemmas.Tracker
import GitAiModel.Lemmas.TrackerLines
import GitAiModel.Lemmas.TrackerMerge
import GitAiModel.Lemmas.TrackerBoundaries
namespace GitAi.Tracker
open GitAi

/-! ## stable insertion sort: sortedness, idempotence -/

theorem insertBy_of_le_head {α} (le : α → α → Bool) (x : α) (l : List α)
    (h : ∀ y, l.head? = some y → le x y = true) : insertBy le x l = x :: l := by
  cases l with
  | nil => rfl
  | cons y ys => simp [insertBy, h y rfl]

/-- a list already in order is left alone (stability: nothing moves) -/
theorem sortBy_of_pairwise {α} (le : α → α → Bool) (l : List α)
    (h : l.Pairwise (fun a b => le a b = true)) : sortBy le l = l := by
  induction l with
  | nil => rfl
  | cons x xs ih =>
    rw [List.pairwise_cons] at h
    simp only [sortBy, ih h.2]
    apply insertBy_of_le_head
    intro y hy
    cases xs with
    | nil => cases hy
    | cons z zs =>
      simp only [List.head?_cons, Option.some.injEq] at hy
      subst hy
      exact h.1 z (by simp)

theorem insertBy_pairwise {α} (le : α → α → Bool)
    (htot : ∀ a b, le a b = true ∨ le b a = true)
    (htr : ∀ a b c, le a b = true → le b c = true → le a c = true)
    (x : α) (l : List α) (h : l.Pairwise (fun a b => le a b = true)) :
    (insertBy le x l).Pairwise (fun a b => le a b = true) := by
  induction l with
  | nil => simp [insertBy]
  | cons y ys ih =>
    rw [List.pairwise_cons] at h
    simp only [insertBy]
    split
    · rename_i hxy
      rw [List.pairwise_cons]
      refine ⟨?_, List.pairwise_cons.2 h⟩
      intro z hz
      rcases List.mem_cons.1 hz with rfl | hz
      · exact hxy
      · exact htr _ _ _ hxy (h.1 z hz)
    · rename_i hxy
      rw [List.pairwise_cons]
      refine ⟨?_, ih h.2⟩
      intro z hz
      rcases (mem_insertBy le x z ys).1 hz with rfl | hz
      · rcases htot z y with h1 | h1
        · exact absurd h1 hxy
        · exact h1
      · exact h.1 z hz

theorem sortBy_pairwise {α} (le : α → α → Bool)
    (htot : ∀ a b, le a b = true ∨ le b a = true)
    (htr : ∀ a b c, le a b = true → le b c = true → le a c = true) (l : List α) :
    (sortBy le l).Pairwise (fun a b => le a b = true) := by
  induction l with
  | nil => simp [sortBy]
  | cons x xs ih => exact insertBy_pairwise le htot htr x _ ih

theorem posLe_total (a b : Attr) : posLe a b = true ∨ posLe b a = true := by
  simp only [posLe, Bool.or_eq_true, Bool.and_eq_true, decide_eq_true_eq, beq_iff_eq]
  omega

theorem posLe_trans (a b c : Attr) (h1 : posLe a b = true) (h2 : posLe b c = true) :
    posLe a c = true := by
  simp only [posLe, Bool.or_eq_true, Bool.and_eq_true, decide_eq_true_eq, beq_iff_eq] at h1 h2 ⊢
  omega

theorem sortBy_posLe_pairwise (l : List Attr) :
    (sortBy posLe l).Pairwise (fun a b => posLe a b = true) :=
  sortBy_pairwise posLe posLe_total posLe_trans l

theorem sortBy_posLe_idem (l : List Attr) : sortBy posLe (sortBy posLe l) = sortBy posLe l :=
  sortBy_of_pairwise posLe _ (sortBy_posLe_pairwise l)

/-! ## the projection's `(start, end, idx)` order is the stable `(start, end)` order -/

theorem idxLe_eq_posLe (k j : Nat) (x y : Attr) (h : k ≤ j) : idxLe (k, x) (j, y) = posLe x y := by
  rw [Bool.eq_iff_iff]
  simp only [idxLe, posLe, Bool.or_eq_true, Bool.and_eq_true, decide_eq_true_eq, beq_iff_eq]
  omega

theorem map_insertBy_idx (k : Nat) (x : Attr) (L : List (Nat × Attr)) (h : ∀ p ∈ L, k ≤ p.1) :
    (insertBy idxLe (k, x) L).map (·.2) = insertBy posLe x (L.map (·.2)) := by
  induction L with
  | nil => rfl
  | cons p ps ih =>
    obtain ⟨j, y⟩ := p
    have hj : k ≤ j := h (j, y) (by simp)
    have ih' := ih (fun q hq => h q (by simp [hq]))
    simp only [insertBy, List.map_cons, idxLe_eq_posLe k j x y hj]
    split
    · rfl
    · simp only [List.map_cons, ih']

theorem enumFrom_idx_ge {α} (l : List α) : ∀ (n : Nat) (p : Nat × α), p ∈ enumFrom n l → n ≤ p.1 := by
  induction l with
  | nil => intro n p hp; simp [enumFrom] at hp
  | cons x xs ih =>
    intro n p hp
    simp only [enumFrom, List.mem_cons] at hp
    rcases hp with rfl | hp
    · exact Nat.le_refl _
    · exact Nat.le_of_succ_le (ih (n + 1) p hp)

/-- the attributions in the order the line projection visits them -/
theorem map_sortBy_idxLe (P : List Attr) : ∀ (k : Nat),
    (sortBy idxLe (enumFrom k P)).map (·.2) = sortBy posLe P := by
  induction P with
  | nil => intro k; rfl
  | cons x xs ih =>
    intro k
    simp only [enumFrom, sortBy]
    rw [map_insertBy_idx k x _ ?_, ih (k + 1)]
    intro p hp
    have := enumFrom_idx_ge xs (k + 1) p ((mem_sortBy _ _ _).1 hp)
    omega

/-! ## the per-line specification over plain attribution lists -/

/-- `ov` on an attribution -/
def ovA (ls le : Nat) (a : Attr) : Bool := decide (a.start < le) && decide (a.stop > ls)

def sweepSpecA (content : Text) (Q : List Attr) :
    List (Nat × Nat) → Except Err (List (Option (Str × Option Str)))
  | [] => .ok []
  | (ls, le) :: r =>
    match lineResult content ls le (Q.filter (ovA ls le)) with
    | .error e => .error e
    | .ok d =>
      match sweepSpecA content Q r with
      | .error e => .error e
      | .ok rest => .ok (d :: rest)

theorem filter_ov_map (S : List (Nat × Attr)) (ls le : Nat) :
    (S.filter (ov ls le)).map (·.2) = (S.map (·.2)).filter (ovA ls le) := by
  induction S with
  | nil => rfl
  | cons p ps ih =>
    have : ov ls le p = ovA ls le p.2 := rfl
    simp only [List.filter_cons, List.map_cons, this]
    split
    · simp only [List.map_cons, ih]
    · exact ih

theorem sweepSpec_eq_A (content : Text) (S : List (Nat × Attr)) (L : List (Nat × Nat)) :
    sweepSpec content S L = sweepSpecA content (S.map (·.2)) L := by
  induction L with
  | nil => rfl
  | cons l r ih =>
    obtain ⟨ls, le⟩ := l
    simp only [sweepSpec, sweepSpecA, filter_ov_map, ih]
    rfl

/-- `toLineAttrs` reads the attributions only through their stable `(start, end)` order -/
theorem toLineAttrs_eq_A (attrs : List Attr) (content : Text) :
    toLineAttrs attrs content =
      if content.isEmpty || attrs.isEmpty then .ok []
      else if (lineRanges content).isEmpty then .ok []
      else match sweepSpecA content (sortBy posLe attrs) (lineRanges content) with
        | .error e => .error e
        | .ok las => .ok ((mergeLines 1 none las).filter (fun l => l.author != human || l.overrode.isSome)) := by
  rw [toLineAttrs_eq, sweepSpec_eq_A, map_sortBy_idxLe]
  rfl

theorem isEmpty_sortBy {α} (le : α → α → Bool) (l : List α) : (sortBy le l).isEmpty = l.isEmpty := by
  have := length_sortBy le l
  cases l with
  | nil => rfl
  | cons x xs =>
    cases h : sortBy le (x :: xs) with
    | nil => rw [h] at this; simp at this
    | cons y ys => rfl

/-- **the line projection does not see a stable `(start, end)` sort** -/
theorem toLineAttrs_sortBy_posLe (P : List Attr) (c : Text) :
    toLineAttrs (sortBy posLe P) c = toLineAttrs P c := by
  rw [toLineAttrs_eq_A, toLineAttrs_eq_A, sortBy_posLe_idem, isEmpty_sortBy]

/-! ## `keepInPlace` -/

/-- ranges (deletion markers included) that lie in a content of length `n`: `start ≤ end ≤ n` -/
def InRange (n : Nat) (P : List Attr) : Prop := ∀ a ∈ P, a.start ≤ a.stop ∧ a.stop ≤ n

theorem filter_eq_self_of {α} (p : α → Bool) (l : List α) (h : ∀ a ∈ l, p a = true) : l.filter p = l :=
  List.filter_eq_self.2 h

theorem map_eq_self_of {α} (f : α → α) (l : List α) (h : ∀ a ∈ l, f a = a) : l.map f = l := by
  induction l with
  | nil => rfl
  | cons x xs ih =>
    simp only [List.map_cons, h x (by simp), ih (fun a ha => h a (by simp [ha]))]

/-- in-range priors are only put in position order: nothing dropped, nothing cut -/
theorem keepInPlace_inRange (n : Nat) (P : List Attr) (h : InRange n P) :
    keepInPlace n P = sortBy posLe P := by
  have hs : ∀ a ∈ sortBy posLe P, a.start ≤ a.stop ∧ a.stop ≤ n :=
    fun a ha => h a ((mem_sortBy _ _ _).1 ha)
  simp only [keepInPlace]
  rw [filter_eq_self_of _ _ ?_, map_eq_self_of _ _ ?_]
  · intro a ha
    have := hs a ha
    cases a with
    | mk s e au t =>
      simp only [cutTo] at this ⊢
      congr 1
      omega
  · intro a ha
    have := hs a ha
    simp only [insideB, Bool.and_eq_true, Bool.or_eq_true, decide_eq_true_eq]
    omega

theorem mem_keepInPlace (n : Nat) (P : List Attr) (b : Attr) :
    b ∈ keepInPlace n P ↔ ∃ a ∈ P, insideB n a = true ∧ b = cutTo n a := by
  simp only [keepInPlace, List.mem_map, List.mem_filter, mem_sortBy]
  constructor
  · rintro ⟨a, ⟨ha, hi⟩, rfl⟩; exact ⟨a, ha, hi, rfl⟩
  · rintro ⟨a, ha, hi, rfl⟩; exact ⟨a, ⟨ha, hi⟩, rfl⟩

/-- every returned range satisfies `start ≤ end ≤ n`, whatever the priors were -/
theorem keepInPlace_bnd (n : Nat) (P : List Attr) : ∀ b ∈ keepInPlace n P, Bnd n b := by
  intro b hb
  obtain ⟨a, _, hi, rfl⟩ := (mem_keepInPlace n P b).1 hb
  simp only [insideB, Bool.and_eq_true, Bool.or_eq_true, decide_eq_true_eq] at hi
  simp only [Bnd, cutTo]
  omega

theorem isBoundary_length (t : Text) : isBoundary t t.length = true := by
  simp [isBoundary]

/-- priors on char boundaries stay on char boundaries (the end of the content is one) -/
theorem keepInPlace_boundaries (c : Text) (P : List Attr) (h : ∀ a ∈ P, OnB c a) :
    ∀ b ∈ keepInPlace c.length P, OnB c b := by
  intro b hb
  obtain ⟨a, ha, _, rfl⟩ := (mem_keepInPlace _ P b).1 hb
  obtain ⟨h1, h2⟩ := h a ha
  refine ⟨h1, ?_⟩
  simp only [cutTo]
  rcases Nat.le_total a.stop c.length with hle | hle
  · rw [Nat.min_eq_left hle]; exact h2
  · rw [Nat.min_eq_right hle]; exact isBoundary_length c

/-- every byte of the content keeps exactly the (author, ts) pairs that covered it — for ALL
    prior lists (out of range, inverted, zero-length, unsorted, duplicated) -/
theorem keepInPlace_covered (n : Nat) (P : List Attr) (w : Str × Nat) (p : Nat) (hp : p < n) :
    Covered (keepInPlace n P) w p ↔ Covered P w p := by
  simp only [Covered]
  constructor
  · rintro ⟨b, hb, hw, h1, h2⟩
    obtain ⟨a, ha, _, rfl⟩ := (mem_keepInPlace n P b).1 hb
    simp only [cutTo] at h1 h2
    exact ⟨a, ha, hw, h1, by omega⟩
  · rintro ⟨a, ha, hw, h1, h2⟩
    refine ⟨cutTo n a, (mem_keepInPlace n P _).2 ⟨a, ha, ?_, rfl⟩, hw, h1, ?_⟩
    · simp only [insideB, Bool.and_eq_true, Bool.or_eq_true, decide_eq_true_eq]
      omega
    · simp only [cutTo]
      omega

/-! ## `updateAttributions` -/

@[simp] theorem updateAttributions_same (c : Text) (segs : List Seg) (subst : List (Nat × Nat))
    (moves : List Move) (old : List Attr) (author : Str) (ts : Nat) :
    updateAttributions c c segs subst moves old author ts = .ok (keepInPlace c.length old) := by
  simp [updateAttributions]

theorem updateAttributions_ne (oldC newC : Text) (h : oldC ≠ newC) (segs : List Seg)
    (subst : List (Nat × Nat)) (moves : List Move) (old : List Attr) (author : Str) (ts : Nat) :
    updateAttributions oldC newC segs subst moves old author ts = update segs subst moves old author ts := by
  simp [updateAttributions, h]

end GitAi.Tracker
