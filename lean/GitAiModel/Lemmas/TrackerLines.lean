/-
  Lemmas/TrackerLines.lean — the line projection (`attributions_to_line_attributions`):
  the incremental sweep over sorted attributions equals the per-line filter specification.
-/
import GitAiModel.Lemmas.Tracker
namespace GitAi.Tracker
open GitAi

/-! ## list facts -/

theorem takeWhile_imp {α} (p q : α → Bool) (h : ∀ x, p x = true → q x = true) (l : List α) :
    l.takeWhile q = l.takeWhile p ++ (l.dropWhile p).takeWhile q := by
  induction l with
  | nil => simp
  | cons x xs ih =>
    by_cases hp : p x = true
    · have hq := h x hp
      simp [List.takeWhile_cons, List.dropWhile_cons, hp, hq, ih]
    · simp [List.takeWhile_cons, List.dropWhile_cons, hp]

theorem dropWhile_imp {α} (p q : α → Bool) (h : ∀ x, p x = true → q x = true) (l : List α) :
    (l.dropWhile p).dropWhile q = l.dropWhile q := by
  induction l with
  | nil => simp
  | cons x xs ih =>
    by_cases hp : p x = true
    · have hq := h x hp
      simp [List.dropWhile_cons, hp, hq, ih]
    · simp [List.dropWhile_cons, hp]

theorem filter_filter_of_imp {α} (p q : α → Bool) (l : List α)
    (h : ∀ x ∈ l, q x = true → p x = true) : (l.filter p).filter q = l.filter q := by
  induction l with
  | nil => simp
  | cons x xs ih =>
    have ih' := ih (fun y hy => h y (List.mem_cons_of_mem _ hy))
    by_cases hp : p x = true
    · simp [List.filter_cons, hp, ih']
    · have hq : q x = false := by
        cases hqx : q x with
        | false => rfl
        | true => exact absurd (h x (by simp) hqx) hp
      simp [List.filter_cons, hp, hq, ih']

theorem mem_takeWhile_sat {α} (p : α → Bool) (l : List α) : ∀ x ∈ l.takeWhile p, p x = true := by
  induction l with
  | nil => intro x hx; simp at hx
  | cons y ys ih =>
    intro x hx
    by_cases hp : p y = true
    · simp only [List.takeWhile_cons, hp, if_true, List.mem_cons] at hx
      rcases hx with rfl | hx
      · exact hp
      · exact ih x hx
    · simp [List.takeWhile_cons, hp] at hx

/-- sorted by start (what `sort_by_key (start, end, idx)` establishes) -/
def SortedByStart (l : List (Nat × Attr)) : Prop := l.Pairwise (fun a b => a.2.start ≤ b.2.start)

theorem filter_takeWhile_sorted (l : List (Nat × Attr)) (hs : SortedByStart l) (ls le : Nat) :
    (l.takeWhile (startsBefore le)).filter (ov ls le) = l.filter (ov ls le) := by
  induction l with
  | nil => simp
  | cons x xs ih =>
    have hs' : SortedByStart xs := (List.pairwise_cons.1 hs).2
    by_cases hx : startsBefore le x = true
    · simp [List.takeWhile_cons, hx, List.filter_cons, ih hs']
    · simp only [List.takeWhile_cons, hx]
      -- every later element starts at or after `le`, so none meets the line
      symm
      simp only [Bool.false_eq_true, if_false, List.filter_nil]
      rw [List.filter_eq_nil_iff]
      intro y hy
      have hxle : le ≤ x.2.start := by
        simp only [startsBefore, decide_eq_true_eq] at hx; omega
      have hy' : x.2.start ≤ y.2.start := by
        rcases List.mem_cons.1 hy with rfl | hy
        · exact Nat.le_refl _
        · exact (List.pairwise_cons.1 hs).1 y hy
      simp only [ov, Bool.and_eq_true, decide_eq_true_eq]
      omega

/-! ## the sweep equals the per-line specification -/

/-- the per-line specification: line `[ls, le)` sees exactly the sorted attributions meeting it. -/
def sweepSpec (content : Text) (S : List (Nat × Attr)) :
    List (Nat × Nat) → Except Err (List (Option (Str × Option Str)))
  | [] => .ok []
  | (ls, le) :: r =>
    match lineResult content ls le ((S.filter (ov ls le)).map (·.2)) with
    | .error e => .error e
    | .ok d =>
      match sweepSpec content S r with
      | .error e => .error e
      | .ok rest => .ok (d :: rest)

/-- line ranges advance monotonically from `(ps, pe)` -/
def Mono : Nat → Nat → List (Nat × Nat) → Prop
  | _, _, [] => True
  | ps, pe, (ls, le) :: r => ps ≤ ls ∧ pe ≤ le ∧ Mono ls le r

theorem sweep_eq_spec (content : Text) (S : List (Nat × Attr)) (hS : SortedByStart S) :
    ∀ (L : List (Nat × Nat)) (ps pe : Nat), Mono ps pe L →
      sweep content L (S.dropWhile (startsBefore pe))
        ((S.takeWhile (startsBefore pe)).filter (ov ps pe)) = sweepSpec content S L := by
  intro L
  induction L with
  | nil => intro ps pe _; simp [sweep, sweepSpec]
  | cons l r ih =>
    intro ps pe hm
    obtain ⟨ls, le⟩ := l
    obtain ⟨hps, hpe, hr⟩ := hm
    have himp : ∀ x : Nat × Attr, startsBefore pe x = true → startsBefore le x = true := by
      intro x hx
      simp only [startsBefore, decide_eq_true_eq] at hx ⊢
      omega
    -- the new active set is the filter of the whole prefix
    have hact : (((S.takeWhile (startsBefore pe)).filter (ov ps pe)) ++
          (S.dropWhile (startsBefore pe)).takeWhile (startsBefore le)).filter (ov ls le)
        = (S.takeWhile (startsBefore le)).filter (ov ls le) := by
      rw [takeWhile_imp (startsBefore pe) (startsBefore le) himp S, List.filter_append, List.filter_append]
      congr 1
      apply filter_filter_of_imp
      intro x hx hov
      have hsb : startsBefore pe x = true := mem_takeWhile_sat _ _ x hx
      simp only [ov, startsBefore, Bool.and_eq_true, decide_eq_true_eq] at hov hsb ⊢
      omega
    simp only [sweep, sweepSpec]
    rw [hact, dropWhile_imp _ _ himp, filter_takeWhile_sorted S hS ls le]
    have := ih ls le hr
    rw [filter_takeWhile_sorted S hS ls le] at this
    -- the recursive call has exactly the invariant's shape
    rw [this]
    rfl

/-! ## `sort_by_key (start, end, idx)` sorts by start -/

theorem idxLe_start {a b : Nat × Attr} (h : idxLe a b = true) : a.2.start ≤ b.2.start := by
  simp only [idxLe, Bool.or_eq_true, Bool.and_eq_true, decide_eq_true_eq, beq_iff_eq] at h
  omega

theorem not_idxLe_start {a b : Nat × Attr} (h : ¬ idxLe a b = true) : b.2.start ≤ a.2.start := by
  simp only [idxLe, Bool.or_eq_true, Bool.and_eq_true, decide_eq_true_eq, beq_iff_eq] at h
  omega

theorem insertBy_sortedByStart (x : Nat × Attr) (l : List (Nat × Attr)) (h : SortedByStart l) :
    SortedByStart (insertBy idxLe x l) := by
  induction l with
  | nil => simp [insertBy, SortedByStart]
  | cons y ys ih =>
    unfold SortedByStart at h ih ⊢
    rw [List.pairwise_cons] at h
    simp only [insertBy]
    split
    · rename_i hle
      rw [List.pairwise_cons]
      refine ⟨?_, List.pairwise_cons.2 h⟩
      intro z hz
      rcases List.mem_cons.1 hz with rfl | hz
      · exact idxLe_start hle
      · exact Nat.le_trans (idxLe_start hle) (h.1 z hz)
    · rename_i hnle
      rw [List.pairwise_cons]
      refine ⟨?_, ih h.2⟩
      intro z hz
      rcases (mem_insertBy _ _ _ _).1 hz with rfl | hz
      · exact not_idxLe_start hnle
      · exact h.1 z hz

theorem sortBy_sortedByStart (l : List (Nat × Attr)) : SortedByStart (sortBy idxLe l) := by
  induction l with
  | nil => simp [sortBy, SortedByStart]
  | cons x xs ih => exact insertBy_sortedByStart x _ ih

/-! ## structure of `LineBoundaries` -/

/-- consecutive non-empty ranges from `s` to `e` -/
def Chain : Nat → List (Nat × Nat) → Nat → Prop
  | s, [], e => s = e
  | s, (a, b) :: r, e => a = s ∧ s < b ∧ Chain b r e

theorem linesGo_chain (t : Text) : ∀ (i s : Nat), s ≤ i → Chain s (linesGo i s t) (i + t.length) := by
  induction t with
  | nil =>
    intro i s h
    simp only [linesGo]
    split
    · simp [Chain]; omega
    · simp [Chain]; omega
  | cons b r ih =>
    intro i s h
    simp only [linesGo]
    split
    · refine ⟨rfl, by omega, ?_⟩
      have := ih (i + 1) (i + 1) (Nat.le_refl _)
      simpa [Nat.add_assoc, Nat.add_comm 1] using this
    · have := ih (i + 1) s (by omega)
      simpa [Nat.add_assoc, Nat.add_comm 1] using this

theorem lineRanges_chain (t : Text) : Chain 0 (lineRanges t) t.length := by
  have := linesGo_chain t 0 0 (Nat.le_refl _)
  simpa [lineRanges] using this

theorem Chain.mono {s e : Nat} {L : List (Nat × Nat)} (h : Chain s L e) :
    ∀ (ps pe : Nat), ps ≤ s → pe ≤ s → Mono ps pe L := by
  induction L generalizing s with
  | nil => intro _ _ _ _; trivial
  | cons l r ih =>
    obtain ⟨a, b⟩ := l
    obtain ⟨rfl, hlt, hr⟩ := h
    intro ps pe h1 h2
    exact ⟨h1, by omega, ih hr _ _ (by omega) (Nat.le_refl _)⟩

theorem Chain.le {s e : Nat} {L : List (Nat × Nat)} (h : Chain s L e) : s ≤ e := by
  induction L generalizing s with
  | nil => exact Nat.le_of_eq h
  | cons l r ih =>
    obtain ⟨a, b⟩ := l
    obtain ⟨rfl, hlt, hr⟩ := h
    have := ih hr
    omega

/-- `toLineAttrs` through the per-line specification -/
theorem toLineAttrs_eq (attrs : List Attr) (content : Text) :
    toLineAttrs attrs content =
      if content.isEmpty || attrs.isEmpty then .ok []
      else if (lineRanges content).isEmpty then .ok []
      else match sweepSpec content (sortBy idxLe (enumFrom 0 attrs)) (lineRanges content) with
        | .error e => .error e
        | .ok las => .ok ((mergeLines 1 none las).filter (fun l => l.author != human || l.overrode.isSome)) := by
  have hS := sortBy_sortedByStart (enumFrom 0 attrs)
  have hm : Mono 0 0 (lineRanges content) := (lineRanges_chain content).mono 0 0 (Nat.le_refl _) (Nat.le_refl _)
  have := sweep_eq_spec content _ hS (lineRanges content) 0 0 hm
  have h0 : ∀ (S : List (Nat × Attr)), S.dropWhile (startsBefore 0) = S := by
    intro S
    cases S with
    | nil => rfl
    | cons x xs => simp [List.dropWhile_cons, startsBefore]
  have h1 : ∀ (S : List (Nat × Attr)), S.takeWhile (startsBefore 0) = [] := by
    intro S
    cases S with
    | nil => rfl
    | cons x xs => simp [List.takeWhile_cons, startsBefore]
  rw [h0, h1] at this
  simp only [List.filter_nil] at this
  simp only [toLineAttrs, this]
  rfl

end GitAi.Tracker
