/-
  Lemmas/TrackerMerge.lean — `merge_attributions` and the sort-if-unsorted prologue preserve, for
  every byte, the SET of (author, ts) pairs covering it.
-/
import GitAiModel.Lemmas.TrackerUnchanged
namespace GitAi.Tracker
open GitAi

/-- some range of `l` by `w` covers byte `p` -/
def Covered (l : List Attr) (w : Str × Nat) (p : Nat) : Prop :=
  ∃ x ∈ l, x.who = w ∧ x.start ≤ p ∧ p < x.stop

theorem cov_pos_iff (l : List Attr) (w : Str × Nat) (p : Nat) : 0 < cov l w p ↔ Covered l w p := by
  simp only [cov, List.countP_pos_iff, Covered, coversP, Bool.and_eq_true, decide_eq_true_eq]
  constructor
  · rintro ⟨x, hx, ⟨h1, h2⟩, h3⟩; exact ⟨x, hx, h1, h2, h3⟩
  · rintro ⟨x, hx, h1, h2, h3⟩; exact ⟨x, hx, ⟨h1, h2⟩, h3⟩

theorem Covered_of_mem_iff {l l' : List Attr} (h : ∀ x, x ∈ l' ↔ x ∈ l) (w : Str × Nat) (p : Nat) :
    Covered l' w p ↔ Covered l w p := by
  constructor
  · rintro ⟨x, hx, r⟩; exact ⟨x, (h x).1 hx, r⟩
  · rintro ⟨x, hx, r⟩; exact ⟨x, (h x).2 hx, r⟩

/-! ## sorting by the attribution comparator sorts by start -/

theorem leOf_attrCmp_start {a b : Attr} (h : leOf attrCmp a b = true) : a.start ≤ b.start := by
  by_cases hlt : b.start < a.start
  · have : compare a.start b.start = .gt := Nat.compare_eq_gt.2 hlt
    simp [leOf, attrCmp, this, Ordering.then] at h
  · omega

theorem not_leOf_attrCmp_start {a b : Attr} (h : ¬ leOf attrCmp a b = true) : b.start ≤ a.start := by
  by_cases hlt : a.start < b.start
  · have : compare a.start b.start = .lt := Nat.compare_eq_lt.2 hlt
    simp [leOf, attrCmp, this, Ordering.then] at h
  · omega

theorem insertBy_sortedStart (x : Attr) (l : List Attr) (h : SortedStart l) :
    SortedStart (insertBy (leOf attrCmp) x l) := by
  induction l with
  | nil => simp [insertBy, SortedStart]
  | cons y ys ih =>
    unfold SortedStart at h ih ⊢
    rw [List.pairwise_cons] at h
    simp only [insertBy]
    split
    · rename_i hle
      rw [List.pairwise_cons]
      refine ⟨?_, List.pairwise_cons.2 h⟩
      intro z hz
      rcases List.mem_cons.1 hz with rfl | hz
      · exact leOf_attrCmp_start hle
      · exact Nat.le_trans (leOf_attrCmp_start hle) (h.1 z hz)
    · rename_i hnle
      rw [List.pairwise_cons]
      refine ⟨?_, ih h.2⟩
      intro z hz
      rcases (mem_insertBy _ _ _ _).1 hz with rfl | hz
      · exact not_leOf_attrCmp_start hnle
      · exact h.1 z hz

theorem sortBy_sortedStart (l : List Attr) : SortedStart (sortBy (leOf attrCmp) l) := by
  induction l with
  | nil => simp [sortBy, SortedStart]
  | cons x xs ih => exact insertBy_sortedStart x _ ih

theorem isSortedAttrs_sortedStart (l : List Attr) (h : isSortedAttrs l = true) : SortedStart l := by
  induction l with
  | nil => simp [SortedStart]
  | cons a r ih =>
    cases r with
    | nil => simp [SortedStart]
    | cons b r' =>
      simp only [isSortedAttrs, Bool.and_eq_true] at h
      have hr := ih h.2
      unfold SortedStart at hr ⊢
      rw [List.pairwise_cons]
      refine ⟨?_, hr⟩
      intro y hy
      have hab := leOf_attrCmp_start h.1
      rcases List.mem_cons.1 hy with rfl | hy
      · exact hab
      · exact Nat.le_trans hab ((List.pairwise_cons.1 hr).1 y hy)

theorem normalizeOld_sortedStart (l : List Attr) : SortedStart (normalizeOld l) := by
  simp only [normalizeOld]
  split
  · rename_i h; exact isSortedAttrs_sortedStart l h
  · exact sortBy_sortedStart l

theorem countP_insertBy {α} (p : α → Bool) (le : α → α → Bool) (x : α) (l : List α) :
    (insertBy le x l).countP p = (x :: l).countP p := by
  induction l with
  | nil => rfl
  | cons y ys ih =>
    simp only [insertBy]
    split
    · rfl
    · simp only [List.countP_cons, ih]; omega

theorem countP_sortBy {α} (p : α → Bool) (le : α → α → Bool) (l : List α) :
    (sortBy le l).countP p = l.countP p := by
  induction l with
  | nil => rfl
  | cons x xs ih => simp only [sortBy, countP_insertBy, List.countP_cons, ih]

theorem cov_normalizeOld (l : List Attr) (w : Str × Nat) (p : Nat) : cov (normalizeOld l) w p = cov l w p := by
  simp only [normalizeOld]
  split
  · rfl
  · exact countP_sortBy _ _ _

/-! ## dedup and coalesce -/

theorem mem_dedupAdj_of_mem (l : List Attr) : ∀ a ∈ l, a ∈ dedupAdj l := by
  induction l with
  | nil => intro a ha; simp at ha
  | cons x xs ih =>
    intro a ha
    cases xs with
    | nil => simpa [dedupAdj] using ha
    | cons y ys =>
      simp only [dedupAdj]
      split
      · rename_i heq
        rcases List.mem_cons.1 ha with rfl | ha
        · rw [heq]; exact ih y (by simp)
        · exact ih a ha
      · rcases List.mem_cons.1 ha with rfl | ha
        · simp
        · exact List.mem_cons_of_mem _ (ih a ha)

theorem dedupAdj_sortedStart (l : List Attr) (h : SortedStart l) : SortedStart (dedupAdj l) := by
  induction l with
  | nil => simpa [dedupAdj] using h
  | cons x xs ih =>
    cases xs with
    | nil => simpa [dedupAdj] using h
    | cons y ys =>
      have hs' : SortedStart (y :: ys) := (List.pairwise_cons.1 h).2
      simp only [dedupAdj]
      split
      · exact ih hs'
      · unfold SortedStart
        rw [List.pairwise_cons]
        refine ⟨?_, ih hs'⟩
        intro z hz
        exact (List.pairwise_cons.1 h).1 z (mem_dedupAdj _ z hz)

theorem coalesce_covered (w : Str × Nat) (p : Nat) (S : List Attr) :
    ∀ (cur : Option Attr), SortedStart S → (∀ l, cur = some l → ∀ y ∈ S, l.start ≤ y.start) →
      (Covered (coalesce cur S) w p ↔ Covered (cur.toList ++ S) w p) := by
  induction S with
  | nil => intro cur _ _; simp [coalesce]
  | cons a r ih =>
    intro cur hs hcur
    have hs' : SortedStart r := (List.pairwise_cons.1 hs).2
    have har : ∀ y ∈ r, a.start ≤ y.start := (List.pairwise_cons.1 hs).1
    cases cur with
    | none =>
      simp only [coalesce]
      rw [ih (some a) hs' (by intro l hl; cases hl; exact har)]
      simp
    | some l =>
      have hla : l.start ≤ a.start := hcur l rfl a (by simp)
      simp only [coalesce]
      split
      · rename_i hc
        obtain ⟨hau, hts, hl, ha, hov⟩ := hc
        rw [ih (some { l with stop := max l.stop a.stop }) hs'
          (by intro l' hl'; cases hl'; intro y hy; have := har y hy; simp only; omega)]
        simp only [Covered, Option.toList_some, List.singleton_append, List.mem_cons]
        constructor
        · rintro ⟨x, hx | hx, hw, h1, h2⟩
          · subst hx
            simp only [Attr.who] at hw h1 h2
            by_cases hp : p < l.stop
            · exact ⟨l, Or.inl rfl, hw, h1, hp⟩
            · refine ⟨a, Or.inr (Or.inl rfl), ?_, by omega, by omega⟩
              simp only [Attr.who]; rw [← hau, ← hts]; exact hw
          · exact ⟨x, Or.inr (Or.inr hx), hw, h1, h2⟩
        · rintro ⟨x, hx | hx | hx, hw, h1, h2⟩
          · subst hx
            exact ⟨_, Or.inl rfl, hw, h1, by simp only; omega⟩
          · subst hx
            refine ⟨{ l with stop := max l.stop x.stop }, Or.inl rfl, ?_, by simp only; omega, by simp only; omega⟩
            simp only [Attr.who] at hw ⊢; rw [hau, hts]; exact hw
          · exact ⟨x, Or.inr hx, hw, h1, h2⟩
      · simp only [Covered, List.mem_cons, Option.toList_some, List.singleton_append] at ih ⊢
        have := ih (some a) hs' (by intro l' hl'; cases hl'; exact har)
        simp only [Covered, Option.toList_some, List.singleton_append, List.mem_cons] at this
        constructor
        · rintro ⟨x, hx | hx, r⟩
          · exact ⟨x, Or.inl hx, r⟩
          · obtain ⟨y, hy, r'⟩ := this.1 ⟨x, hx, r⟩
            exact ⟨y, Or.inr hy, r'⟩
        · rintro ⟨x, hx | hx, r⟩
          · exact ⟨x, Or.inl hx, r⟩
          · obtain ⟨y, hy, r'⟩ := this.2 ⟨x, hx, r⟩
            exact ⟨y, Or.inr hy, r'⟩

/-- **merge keeps coverage**: for every byte, the set of (author, ts) covering it is unchanged -/
theorem merge_covered (l : List Attr) (w : Str × Nat) (p : Nat) : Covered (merge l) w p ↔ Covered l w p := by
  simp only [merge]
  split
  · rfl
  · rw [coalesce_covered w p _ none (dedupAdj_sortedStart _ (sortBy_sortedStart l)) (by intro l hl; cases hl)]
    simp only [Option.toList_none, List.nil_append]
    apply Covered_of_mem_iff
    intro x
    constructor
    · intro hx; exact (mem_sortBy _ _ _).1 (mem_dedupAdj _ x hx)
    · intro hx; exact mem_dedupAdj_of_mem _ x ((mem_sortBy _ _ _).2 hx)

end GitAi.Tracker
