/-
  Lemmas/TrackerNewText.lean — catalog / position facts for a split segment list and the exact
  attribution of a plain insertion.
-/
import GitAiModel.Lemmas.TrackerRanges
namespace GitAi.Tracker
open GitAi

/-- number of Insert segments -/
def insCount : List Seg → Nat
  | [] => 0
  | g :: r => (match g.op with | .insert => 1 | _ => 0) + insCount r

theorem insertionsFrom_length (segs : List Seg) : ∀ np, (insertionsFrom segs np).length = insCount segs := by
  induction segs with
  | nil => intro np; rfl
  | cons g r ih =>
    intro np
    cases hop : g.op <;> simp [insertionsFrom, insCount, hop, ih] <;> omega

theorem insertionsFrom_append (l1 l2 : List Seg) : ∀ np,
    insertionsFrom (l1 ++ l2) np = insertionsFrom l1 np ++ insertionsFrom l2 (np + (newOf l1).length) := by
  induction l1 with
  | nil => intro np; simp [insertionsFrom, newOf]
  | cons g r ih =>
    intro np
    cases hop : g.op <;>
      simp [insertionsFrom, newOf, hop, ih, Nat.add_assoc]

theorem insertionsFrom_start_ge (segs : List Seg) :
    ∀ (np : Nat), ∀ i ∈ insertionsFrom segs np, np ≤ i.start ∧ i.start ≤ i.stop := by
  induction segs with
  | nil => intro np i hi; simp [insertionsFrom] at hi
  | cons g r ih =>
    intro np i hi
    simp only [insertionsFrom] at hi
    cases hop : g.op <;> simp only [hop] at hi
    · have := ih _ i hi; omega
    · exact ih _ i hi
    · simp only [List.mem_cons] at hi
      rcases hi with rfl | hi
      · simp only; omega
      · have := ih _ i hi; omega

theorem insertions_wf (segs : List Seg) (c : Ctx) (h : c.ins = insertions segs) : InsWf c := by
  intro i hi
  rw [h] at hi
  exact (insertionsFrom_start_ge segs 0 i hi).2

theorem step_insIdx (c : Ctx) (s s' : St) (g : Seg) (h : step c s g = .ok s') :
    s'.insIdx = s.insIdx + (match g.op with | .insert => 1 | _ => 0) := by
  simp only [step] at h
  cases hop : g.op <;> simp only [hop] at h
  · cases h; rfl
  · split at h
    · split at h
      · cases h
      · cases h; rfl
    · cases h; rfl
  · split at h
    · cases h; rfl
    · split at h
      · cases h
      · cases h; rfl

theorem runSegs_insIdx (c : Ctx) (segs : List Seg) : ∀ (s s' : St), runSegs c s segs = .ok s' →
    s'.insIdx = s.insIdx + insCount segs := by
  induction segs with
  | nil => intro s s' h; simp only [runSegs, Except.ok.injEq] at h; subst h; rfl
  | cons g r ih =>
    intro s s' h
    simp only [runSegs] at h
    split at h
    · cases h
    · rename_i s1 h1
      rw [ih s1 s' h, step_insIdx c s s1 g h1]
      simp only [insCount]; omega

theorem rangesForInsertion_none (moves : List Move) (k : Nat)
    (h : rangesForInsertion moves k = none) : ∀ m ∈ moves, m.insIdx ≠ k := by
  intro m hm heq
  simp only [rangesForInsertion] at h
  split at h
  · rename_i hemp
    have : m ∈ moves.filter (fun m => m.insIdx == k) := List.mem_filter.2 ⟨hm, by simp [heq]⟩
    rw [List.isEmpty_iff] at hemp
    rw [hemp] at this
    simp at this
  · cases h

/-- in `pre ++ ⟨insert, d⟩ :: post`, every catalog entry other than the one of `d` lies entirely
    before or entirely after the range of `d` -/
theorem other_insertions_disjoint (pre post : List Seg) (d : Text) (j : Nat) (i : Ins)
    (hj : j ≠ insCount pre)
    (hget : (insertions (pre ++ ⟨.insert, d⟩ :: post))[j]? = some i) :
    i.stop ≤ (newOf pre).length ∨ (newOf pre).length + d.length ≤ i.start := by
  simp only [insertions, insertionsFrom_append, Nat.zero_add] at hget
  by_cases hlt : j < (insertionsFrom pre 0).length
  · rw [List.getElem?_append_left hlt] at hget
    have := insertionsFrom_stop_le pre 0 i (List.mem_of_getElem? hget)
    left; omega
  · rw [List.getElem?_append_right (by omega)] at hget
    rw [insertionsFrom_length] at hget hlt
    simp only [insertionsFrom] at hget
    have hpos : j - insCount pre = (j - insCount pre - 1) + 1 := by omega
    rw [hpos, List.getElem?_cons_succ] at hget
    have := insertionsFrom_start_ge post _ i (List.mem_of_getElem? hget)
    right; omega

/-- an Equal segment's slice of the new text meets no catalog entry -/
theorem equal_insertions_disjoint (pre post : List Seg) (d : Text) (i : Ins)
    (hi : i ∈ insertions (pre ++ ⟨.equal, d⟩ :: post)) :
    i.stop ≤ (newOf pre).length ∨ (newOf pre).length + d.length ≤ i.start := by
  simp only [insertions, insertionsFrom_append, Nat.zero_add, List.mem_append] at hi
  rcases hi with hi | hi
  · have := insertionsFrom_stop_le pre 0 i hi
    left; omega
  · simp only [insertionsFrom] at hi
    have := insertionsFrom_start_ge post _ i hi
    right; omega

/-- splitting a successful run at a segment -/
theorem runSegs_split (c : Ctx) (pre post : List Seg) (g : Seg) (s s3 : St)
    (h : runSegs c s (pre ++ g :: post) = .ok s3) :
    ∃ s1 s2, runSegs c s pre = .ok s1 ∧ step c s1 g = .ok s2 ∧ runSegs c s2 post = .ok s3 := by
  rw [runSegs_append] at h
  split at h
  · cases h
  · rename_i s1 h1
    simp only [runSegs] at h
    split at h
    · cases h
    · rename_i s2 h2
      exact ⟨s1, s2, h1, h2, h⟩

theorem decideInsert_reporter (c : Ctx) (s : St) (g : Seg)
    (h : hasNewline g.data = true ∨ rangesIntersect c.subst s.newPos (s.newPos + g.data.length) = true) :
    decideInsert c s g = .ok ((c.author, c.ts), s.insCur) := by
  simp only [decideInsert]
  rcases h with h | h
  · simp [h]
  · by_cases hn : hasNewline g.data = true
    · simp [hn]
    · simp [hn, h]

/-- **exact attribution of new text** (transform level): a plain insertion (not a move
    target) that contains a newline or meets a substantive range receives exactly one range,
    the reporter's, and no other output range covers any of its bytes. -/
theorem new_text_exact (pre post : List Seg) (d : Text) (subst : List (Nat × Nat)) (moves : List Move)
    (old : List Attr) (author : Str) (ts : Nat) (out : List Attr)
    (hplain : rangesForInsertion moves (insCount pre) = none)
    (hsub : hasNewline d = true ∨
      rangesIntersect subst (newOf pre).length ((newOf pre).length + d.length) = true)
    (h : transform (pre ++ ⟨.insert, d⟩ :: post) subst moves old author ts = .ok out) :
    (⟨(newOf pre).length, (newOf pre).length + d.length, author, ts⟩ : Attr) ∈ out ∧
    ∀ x ∈ out, ∀ p, (newOf pre).length ≤ p → p < (newOf pre).length + d.length →
      x.start ≤ p → p < x.stop →
      x = ⟨(newOf pre).length, (newOf pre).length + d.length, author, ts⟩ := by
  simp only [transform] at h
  split at h
  · cases h
  · rename_i s3 hrun
    cases h
    generalize hc : (⟨old, author, ts, insertions (pre ++ ⟨.insert, d⟩ :: post), moves, subst⟩ : Ctx) = c at hrun
    have hins : c.ins = insertions (pre ++ ⟨.insert, d⟩ :: post) := by rw [← hc]
    have hmv : c.moves = moves := by rw [← hc]
    have hau : c.author = author := by rw [← hc]
    have hts : c.ts = ts := by rw [← hc]
    have hsb : c.subst = subst := by rw [← hc]
    have hwf := insertions_wf _ c hins
    obtain ⟨s1, s2, h1, h2, h3⟩ := runSegs_split c pre post _ St.init s3 hrun
    have hnp1 : s1.newPos = (newOf pre).length := by
      rw [runSegs_newPos c pre _ _ h1]; simp [St.init]
    have hidx1 : s1.insIdx = insCount pre := by
      rw [runSegs_insIdx c pre _ _ h1]; simp [St.init]
    obtain ⟨d1, hd1, hP1⟩ := runSegs_delta c hwf pre _ _ h1
    obtain ⟨d3, hd3, hP3⟩ := runSegs_delta c hwf post _ _ h3
    -- the step itself
    have hstep : s2.out = s1.out ++ [⟨s1.newPos, s1.newPos + d.length, author, ts⟩] ∧
        s2.newPos = s1.newPos + d.length := by
      simp only [step] at h2
      rw [hmv, hidx1, hplain] at h2
      rw [decideInsert_reporter c s1 ⟨.insert, d⟩ (by rw [hsb, hnp1]; exact hsub)] at h2
      simp only [Except.ok.injEq] at h2
      subst h2
      simp [hau, hts]
    simp only [St.init, List.nil_append] at hd1
    have hout : s3.out = d1 ++ [⟨(newOf pre).length, (newOf pre).length + d.length, author, ts⟩] ++ d3 := by
      rw [hd3, hstep.1, hd1, hnp1]
    have hmoved : ∀ x, InMovedIns c x → ∀ p, (newOf pre).length ≤ p → p < (newOf pre).length + d.length →
        x.start ≤ p → p < x.stop → False := by
      intro x ⟨m, hm, i, hget, hi1, hi2⟩ p hp1 hp2 hx1 hx2
      rw [hmv] at hm
      have hne := rangesForInsertion_none moves _ hplain m hm
      rw [hins] at hget
      rcases other_insertions_disjoint pre post d m.insIdx i hne hget with h | h <;> omega
    refine ⟨by rw [hout]; simp, ?_⟩
    intro x hx p hp1 hp2 hx1 hx2
    rw [hout] at hx
    simp only [List.mem_append, List.mem_singleton] at hx
    rcases hx with (hx | hx) | hx
    · rcases hP1 x hx with hw | hm
      · simp only [Within, St.init] at hw; omega
      · exact absurd (hmoved x hm p hp1 hp2 hx1 hx2) id
    · exact hx
    · rcases hP3 x hx with hw | hm
      · simp only [Within] at hw
        have := hstep.2
        omega
      · exact absurd (hmoved x hm p hp1 hp2 hx1 hx2) id

end GitAi.Tracker
