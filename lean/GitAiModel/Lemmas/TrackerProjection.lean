/-
  Lemmas/TrackerProjection.lean — who can win a line in `attributions_to_line_attributions`.

  The candidate filter of `find_dominant_author_for_line_candidates` keeps, on a line that is not
  blank, only attributions that cover a non-whitespace character of the line or are zero-length
  (deletion markers).  The winner of the line is one of the kept candidates.  Hence an author all
  of whose ranges touch only whitespace of a non-blank line (inserted indentation that inherited an
  attribution, the line break in front of the line) never receives that line.
-/
import GitAiModel.Lemmas.TrackerRoundtrip
namespace GitAi.Tracker
open GitAi

/-- the part of the line `[ls, le)` that the candidate filter inspects for `a`: the overlap of `a`
    with the line, widened to character boundaries inside the line (`safe_start`, `safe_end`). -/
def inspected (content : Text) (ls le : Nat) (a : Attr) : Nat × Nat :=
  let ss := max ls a.start
  let se := min le a.stop
  (if isBoundary content ss then ss else max (floorBoundary content ss) ls,
   if isBoundary content se then se else min (ceilBoundary content se) le)

/-- `a` covers a non-whitespace character of the line `[ls, le)` (as the filter reads it) -/
def NonWsOn (content : Text) (ls le : Nat) (a : Attr) : Prop :=
  max ls a.start < min le a.stop ∧
    (inspected content ls le a).1 < (inspected content ls le a).2 ∧
    ∃ sl, sliceStr content (inspected content ls le a).1 (inspected content ls le a).2 = .ok sl ∧
      allWs sl = false

/-- on a line that is not blank the filter keeps only markers and attributions with a
    non-whitespace character on the line -/
theorem isCandidate_nonblank (content : Text) (ls le : Nat) (a : Attr)
    (h : isCandidate content ls le false a = .ok true) :
    a.start = a.stop ∨ NonWsOn content ls le a := by
  unfold isCandidate at h
  by_cases hov : a.overlaps ls le = true
  · simp only [hov, Bool.not_true, Bool.false_eq_true, if_false] at h
    by_cases h1 : max ls a.start < min le a.stop
    · simp only [h1, if_true] at h
      by_cases h2 : (inspected content ls le a).1 < (inspected content ls le a).2
      · have h2' := h2
        simp only [inspected] at h2'
        simp only [h2', if_true] at h
        cases hs : sliceStr content (inspected content ls le a).1 (inspected content ls le a).2 with
        | error e =>
          simp only [inspected] at hs
          simp [hs] at h
        | ok sl =>
          have hs' := hs
          simp only [inspected] at hs'
          simp only [hs', Bool.or_false] at h
          cases hw : allWs sl with
          | false => exact Or.inr ⟨h1, h2, sl, hs, hw⟩
          | true =>
            simp only [hw, Bool.not_true, Bool.false_or] at h
            have : (a.start == a.stop) = true := by
              injection h
            exact Or.inl (by simpa using this)
      · have h2' := h2
        simp only [inspected] at h2'
        simp only [h2', if_false, Bool.or_false, Bool.false_or] at h
        have : (a.start == a.stop) = true := by
          injection h
        exact Or.inl (by simpa using this)
    · simp only [h1, if_false, Bool.or_false, Bool.false_or] at h
      have : (a.start == a.stop) = true := by
        injection h
      exact Or.inl (by simpa using this)
  · have hov' : a.overlaps ls le = false := by
      cases hh : a.overlaps ls le
      · rfl
      · exact absurd hh hov
    simp [hov'] at h

/-- every kept candidate is one of the active attributions and passed the filter -/
theorem filterCandidates_sound (content : Text) (ls le : Nat) (lineEmpty : Bool) :
    ∀ (act cs : List Attr), filterCandidates content ls le lineEmpty act = .ok cs →
      ∀ a ∈ cs, a ∈ act ∧ isCandidate content ls le lineEmpty a = .ok true := by
  intro act
  induction act with
  | nil =>
    intro cs h a ha
    simp only [filterCandidates] at h
    injection h with h
    subst h
    simp at ha
  | cons x r ih =>
    intro cs h a ha
    simp only [filterCandidates] at h
    cases hx : isCandidate content ls le lineEmpty x with
    | error e => simp [hx] at h
    | ok keep =>
      cases hr : filterCandidates content ls le lineEmpty r with
      | error e => simp [hx, hr] at h
      | ok rest =>
        simp only [hx, hr] at h
        injection h with h
        cases keep with
        | true =>
          simp only [if_true] at h
          subst h
          rcases List.mem_cons.1 ha with rfl | ha'
          · exact ⟨by simp, hx⟩
          · have := ih rest hr a ha'
            exact ⟨by simp [this.1], this.2⟩
        | false =>
          simp only [Bool.false_eq_true, if_false] at h
          subst h
          have := ih rest hr a ha
          exact ⟨by simp [this.1], this.2⟩

/-- the winner of a line is a kept candidate, or nobody (human) when no candidate is kept -/
theorem dominant_winner (content : Text) (ls le : Nat) (lineEmpty : Bool) (act : List Attr)
    (w : Str) (o : Option Str) (h : dominant content ls le lineEmpty act = .ok (w, o)) :
    (w = human ∧ o = none ∧ filterCandidates content ls le lineEmpty act = .ok []) ∨
      ∃ a ∈ act, a.author = w ∧ isCandidate content ls le lineEmpty a = .ok true := by
  unfold dominant at h
  cases hf : filterCandidates content ls le lineEmpty act with
  | error e => simp [hf] at h
  | ok cs =>
    cases cs with
    | nil =>
      simp only [hf] at h
      injection h with h
      injection h with h1 h2
      exact Or.inl ⟨h1.symm, h2.symm, rfl⟩
    | cons c0 cs =>
      simp only [hf] at h
      injection h with h
      injection h with h1 _
      have hm : latest c0 cs ∈ c0 :: cs := by
        rcases latest_mem c0 cs with e | m
        · simp [e]
        · simp [m]
      have := filterCandidates_sound content ls le lineEmpty act (c0 :: cs) hf _ hm
      exact Or.inr ⟨latest c0 cs, this.1, h1, this.2⟩

end GitAi.Tracker
