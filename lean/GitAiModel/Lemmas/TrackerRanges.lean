/-
  Lemmas/TrackerRanges.lean — range discipline of `transform`: every iteration appends ranges
  that lie inside its own slice `[newPos, newPos')` of the new text, or inside an insertion that
  is the target of a move mapping.
-/
import GitAiModel.Lemmas.Tracker
namespace GitAi.Tracker
open GitAi

/-- the range lies inside an insertion that some move mapping targets -/
def InMovedIns (c : Ctx) (x : Attr) : Prop :=
  ∃ m ∈ c.moves, ∃ i, c.ins[m.insIdx]? = some i ∧ i.start ≤ x.start ∧ x.stop ≤ i.stop

/-- the range lies inside `[lo, hi]` -/
def Within (lo hi : Nat) (x : Attr) : Prop := lo ≤ x.start ∧ x.start ≤ x.stop ∧ x.stop ≤ hi

/-! ## pieces -/

theorem mapOverlaps_within (lo hi base : Nat) (l : List Attr) :
    ∀ a ∈ mapOverlaps lo hi base l, Within base (base + (hi - lo)) a := by
  induction l with
  | nil => intro a ha; simp [mapOverlaps] at ha
  | cons x xs ih =>
    intro a ha
    simp only [mapOverlaps] at ha
    split at ha
    · simp at ha
    · split at ha
      · simp only [List.mem_cons] at ha
        rcases ha with rfl | ha
        · refine ⟨?_, ?_, ?_⟩ <;> simp only <;> omega
        · exact ih a ha
      · exact ih a ha

theorem clampGo_ge (ins : Ins) (limit : Nat) : ∀ (fuel p : Nat), p ≤ clampGo ins limit fuel p := by
  intro fuel
  induction fuel with
  | zero => intro p; simp [clampGo]
  | succ f ih =>
    intro p
    simp only [clampGo]
    split
    · exact Nat.le_trans (Nat.le_succ p) (ih (p + 1))
    · exact Nat.le_refl _

theorem clampInto_ge (ins : Ins) (pos limit : Nat) : min pos limit ≤ clampInto ins pos limit := by
  simp only [clampInto]
  exact clampGo_ge ins limit _ _

theorem mapMoved_within (ins : Ins) (lo hi ts te : Nat) (l : List Attr) :
    ∀ a ∈ mapMoved ins lo hi ts te l, Within (min ts te) te a := by
  induction l with
  | nil => intro a ha; simp [mapMoved] at ha
  | cons x xs ih =>
    intro a ha
    simp only [mapMoved] at ha
    split at ha
    · simp at ha
    · split at ha
      · split at ha
        · simp only [List.mem_cons] at ha
          rcases ha with rfl | ha
          · rename_i hlt
            refine ⟨?_, Nat.le_of_lt hlt, clampInto_le _ _ _⟩
            have := clampInto_ge ins (ts + (max x.start lo - lo)) te
            simp only
            omega
          · exact ih a ha
        · exact ih a ha
      · exact ih a ha

theorem gapAttrs_within (np len : Nat) (author : Str) (ts : Nat) (l : List (Nat × Nat)) :
    ∀ (cur : Nat), ∀ a ∈ gapAttrs np len author ts cur l, Within np (np + len) a := by
  induction l with
  | nil =>
    intro cur a ha
    simp only [gapAttrs] at ha
    split at ha
    · simp only [List.mem_singleton] at ha
      subst ha
      refine ⟨?_, ?_, ?_⟩ <;> simp only <;> omega
    · simp at ha
  | cons x xs ih =>
    intro cur a ha
    obtain ⟨s, e⟩ := x
    simp only [gapAttrs, List.mem_append] at ha
    rcases ha with ha | ha
    · split at ha
      · simp only [List.mem_singleton] at ha
        subst ha
        refine ⟨?_, ?_, ?_⟩ <;> simp only <;> omega
      · simp at ha
    · exact ih _ a ha

/-- every range the reporter gets in a moved-into insertion is the reporter's -/
theorem gapAttrs_who (np len : Nat) (author : Str) (ts : Nat) (l : List (Nat × Nat)) :
    ∀ (cur : Nat), ∀ a ∈ gapAttrs np len author ts cur l, a.author = author ∧ a.ts = ts := by
  induction l with
  | nil =>
    intro cur a ha
    simp only [gapAttrs] at ha
    split at ha
    · simp only [List.mem_singleton] at ha
      subst ha; exact ⟨rfl, rfl⟩
    · simp at ha
  | cons x xs ih =>
    intro cur a ha
    obtain ⟨s, e⟩ := x
    simp only [gapAttrs, List.mem_append] at ha
    rcases ha with ha | ha
    · split at ha
      · simp only [List.mem_singleton] at ha
        subst ha; exact ⟨rfl, rfl⟩
      · simp at ha
    · exact ih _ a ha

/-- well-formed catalog entries -/
def InsWf (c : Ctx) : Prop := ∀ i ∈ c.ins, i.start ≤ i.stop

theorem applyMoves_delta (c : Ctx) (hwf : InsWf c) (delStart : Nat) (ms : List Move)
    (hms : ∀ m ∈ ms, m ∈ c.moves) :
    ∀ (cur : Nat) (out : List Attr) (cur' : Nat) (out' : List Attr),
      applyMoves c delStart ms cur out = .ok (cur', out') →
      ∃ d, out' = out ++ d ∧ ∀ x ∈ d, InMovedIns c x := by
  induction ms with
  | nil =>
    intro cur out cur' out' h
    simp only [applyMoves, Except.ok.injEq, Prod.mk.injEq] at h
    exact ⟨[], by simp [h.2], by simp⟩
  | cons m r ih =>
    intro cur out cur' out' h
    have hr : ∀ m ∈ r, m ∈ c.moves := fun x hx => hms x (by simp [hx])
    simp only [applyMoves] at h
    split at h
    · cases h
    · rename_i insn hget
      have hmem : insn ∈ c.ins := List.mem_of_getElem? hget
      have hw := hwf insn hmem
      split at h
      · obtain ⟨d, hd, hP⟩ := ih hr _ _ _ _ h
        refine ⟨mapMoved insn (delStart + m.srcS) (delStart + m.srcE) (insn.start + m.tgtS)
          (min (insn.start + m.tgtE) insn.stop) (c.old.drop (advance c.old (delStart + m.srcS) cur)) ++ d,
          by rw [hd, List.append_assoc], ?_⟩
        intro x hx
        simp only [List.mem_append] at hx
        rcases hx with hx | hx
        · have := mapMoved_within insn _ _ _ _ _ x hx
          simp only [Within] at this
          exact ⟨m, hms m (by simp), insn, hget, by omega, by omega⟩
        · exact hP x hx
      · exact ih hr _ _ _ _ h

/-! ## one step and whole runs -/

theorem step_delta (c : Ctx) (hwf : InsWf c) (s s' : St) (g : Seg) (h : step c s g = .ok s') :
    ∃ d, s'.out = s.out ++ d ∧
      ∀ x ∈ d, Within s.newPos s'.newPos x ∨ InMovedIns c x := by
  have hnp := step_newPos c s s' g h
  simp only [step] at h
  cases hop : g.op <;> simp only [hop] at h
  · cases h
    refine ⟨_, rfl, ?_⟩
    intro x hx
    have := mapOverlaps_within _ _ _ _ x hx
    left
    simp only [Within] at this ⊢
    omega
  · split at h
    · rename_i ms hms
      split at h
      · cases h
      · rename_i cur out hap
        cases h
        obtain ⟨d, hd, hP⟩ := applyMoves_delta c hwf _ ms (movesForDeletion_sub _ _ _ hms) _ _ _ _ hap
        exact ⟨d, hd, fun x hx => Or.inr (hP x hx)⟩
    · cases h
      simp only
      split
      · refine ⟨[⟨s.newPos, s.newPos, c.author, c.ts⟩], rfl, ?_⟩
        intro x hx
        simp only [List.mem_singleton] at hx
        subst hx
        left
        simp only [Within, Seg.newLen, hop, Nat.add_zero] at hnp ⊢
        omega
      · exact ⟨[], by simp, by simp⟩
  · simp only [Seg.newLen, hop] at hnp
    split at h
    · cases h
      refine ⟨_, rfl, ?_⟩
      intro x hx
      left
      have := gapAttrs_within _ _ _ _ _ _ x hx
      simp only [Within] at this ⊢
      omega
    · split at h
      · cases h
      · cases h
        refine ⟨_, rfl, ?_⟩
        intro x hx
        simp only [List.mem_singleton] at hx
        subst hx
        left
        simp only [Within]
        omega

theorem step_newPos_le (c : Ctx) (s s' : St) (g : Seg) (h : step c s g = .ok s') :
    s.newPos ≤ s'.newPos := by
  rw [step_newPos c s s' g h]; omega

theorem runSegs_newPos (c : Ctx) (segs : List Seg) : ∀ (s s' : St), runSegs c s segs = .ok s' →
    s'.newPos = s.newPos + (newOf segs).length := by
  induction segs with
  | nil => intro s s' h; simp only [runSegs, Except.ok.injEq] at h; subst h; simp [newOf]
  | cons g r ih =>
    intro s s' h
    simp only [runSegs] at h
    split at h
    · cases h
    · rename_i s1 h1
      rw [ih s1 s' h, step_newPos c s s1 g h1, newOf_cons_length]
      omega

/-- a run appends ranges that lie inside its own slice of the new text or in a moved-into insertion -/
theorem runSegs_delta (c : Ctx) (hwf : InsWf c) (segs : List Seg) : ∀ (s s' : St),
    runSegs c s segs = .ok s' →
    ∃ d, s'.out = s.out ++ d ∧ ∀ x ∈ d, Within s.newPos s'.newPos x ∨ InMovedIns c x := by
  induction segs with
  | nil =>
    intro s s' h
    simp only [runSegs, Except.ok.injEq] at h
    subst h
    exact ⟨[], by simp, by simp⟩
  | cons g r ih =>
    intro s s' h
    simp only [runSegs] at h
    split at h
    · cases h
    · rename_i s1 h1
      obtain ⟨d1, hd1, hP1⟩ := step_delta c hwf s s1 g h1
      obtain ⟨d2, hd2, hP2⟩ := ih s1 s' h
      have hle1 := step_newPos_le c s s1 g h1
      have hle2 : s1.newPos ≤ s'.newPos := by rw [runSegs_newPos c r s1 s' h]; omega
      refine ⟨d1 ++ d2, by rw [hd2, hd1, List.append_assoc], ?_⟩
      intro x hx
      simp only [List.mem_append] at hx
      rcases hx with hx | hx
      · rcases hP1 x hx with hw | hm
        · left; simp only [Within] at hw ⊢; omega
        · exact Or.inr hm
      · rcases hP2 x hx with hw | hm
        · left; simp only [Within] at hw ⊢; omega
        · exact Or.inr hm

theorem runSegs_append (c : Ctx) (l1 l2 : List Seg) : ∀ (s : St),
    runSegs c s (l1 ++ l2) =
      match runSegs c s l1 with
      | .error e => .error e
      | .ok s1 => runSegs c s1 l2 := by
  induction l1 with
  | nil => intro s; rfl
  | cons g r ih =>
    intro s
    simp only [List.cons_append, runSegs]
    split
    · rfl
    · exact ih _

end GitAi.Tracker
