/-
  Lemmas/TrackerRoundtrip.lean — line attributions → char attributions → line attributions.
-/
import GitAiModel.Lemmas.TrackerLines
namespace GitAi.Tracker
open GitAi

/-! ## reading a list of line attributions -/

/-- line `k` lies in the (inclusive) range of `r` -/
def coversB (r : LineAttr) (k : Nat) : Bool := decide (r.startLine ≤ k) && decide (k ≤ r.endLine)

/-- the author a list of line attributions assigns to line `k` (first entry covering it) -/
def lineAuthor (L : List LineAttr) (k : Nat) : Option Str :=
  (L.find? (fun r => coversB r k)).map (·.author)

/-- pairwise disjoint line ranges -/
def DisjointLines (L : List LineAttr) : Prop :=
  L.Pairwise (fun a b => a.endLine < b.startLine ∨ b.endLine < a.startLine)

theorem covering_unique (L : List LineAttr) (h : DisjointLines L) (k : Nat) :
    ∀ l1 ∈ L, ∀ l2 ∈ L, coversB l1 k = true → coversB l2 k = true → l1 = l2 := by
  induction L with
  | nil => intro l1 h1; simp at h1
  | cons x xs ih =>
    unfold DisjointLines at h ih
    rw [List.pairwise_cons] at h
    intro l1 h1 l2 h2 c1 c2
    simp only [coversB, Bool.and_eq_true, decide_eq_true_eq] at c1 c2
    rcases List.mem_cons.1 h1 with e1 | m1
    · rcases List.mem_cons.1 h2 with e2 | m2
      · rw [e1, e2]
      · subst e1; have := h.1 l2 m2; omega
    · rcases List.mem_cons.1 h2 with e2 | m2
      · subst e2; have := h.1 l1 m1; omega
      · exact ih h.2 l1 m1 l2 m2 (by simp [coversB]; omega) (by simp [coversB]; omega)

/-! ## `merge_consecutive_line_attributions` -/

theorem mergeLines_sound (auths : List (Str × Option Str)) :
    ∀ (n : Nat) (cur : Option ((Str × Option Str) × Nat)), 1 ≤ n →
      ∀ r ∈ mergeLines n cur (auths.map some), ∀ k, coversB r k = true →
        (∃ st, cur = some ((r.author, r.overrode), st) ∧ st ≤ k ∧ k < n) ∨
        (n ≤ k ∧ auths[k - n]? = some (r.author, r.overrode)) := by
  induction auths with
  | nil =>
    intro n cur hn r hr k hk
    simp only [coversB, Bool.and_eq_true, decide_eq_true_eq] at hk
    cases cur with
    | none => simp [mergeLines] at hr
    | some c =>
      obtain ⟨au, st⟩ := c
      simp only [List.map_nil, mergeLines, List.mem_singleton] at hr
      subst hr
      simp only at hk
      exact Or.inl ⟨st, rfl, hk.1, by omega⟩
  | cons a rest ih =>
    intro n cur hn r hr k hk
    have hk' := hk
    simp only [coversB, Bool.and_eq_true, decide_eq_true_eq] at hk'
    have shift : ∀ k, n + 1 ≤ k → rest[k - (n + 1)]? = (a :: rest)[k - n]? := by
      intro k hk
      have : k - n = (k - (n + 1)) + 1 := by omega
      rw [this, List.getElem?_cons_succ]
    have fresh : ∀ r ∈ mergeLines (n + 1) (some (a, n)) (rest.map some), ∀ k, coversB r k = true →
        n ≤ k ∧ (a :: rest)[k - n]? = some (r.author, r.overrode) := by
      intro r hr k hk
      rcases ih (n + 1) (some (a, n)) (by omega) r hr k hk with ⟨st, hc, h1, h2⟩ | ⟨h1, h2⟩
      · simp only [Option.some.injEq, Prod.mk.injEq] at hc
        obtain ⟨rfl, rfl⟩ := hc
        have : k = n := by omega
        subst this
        simp
      · exact ⟨by omega, by rw [← shift k h1]; exact h2⟩
    cases cur with
    | none =>
      simp only [List.map_cons, mergeLines] at hr
      exact Or.inr (fresh r hr k hk)
    | some c =>
      obtain ⟨au, st⟩ := c
      simp only [List.map_cons, mergeLines] at hr
      split at hr
      · rename_i heq
        subst heq
        rcases ih (n + 1) (some (au, st)) (by omega) r hr k hk with ⟨st', hc, h1, h2⟩ | ⟨h1, h2⟩
        · simp only [Option.some.injEq, Prod.mk.injEq] at hc
          obtain ⟨rfl, rfl⟩ := hc
          by_cases hkn : k < n
          · exact Or.inl ⟨st, rfl, h1, hkn⟩
          · have : k = n := by omega
            subst this
            exact Or.inr ⟨Nat.le_refl _, by simp⟩
        · exact Or.inr ⟨by omega, by rw [← shift k h1]; exact h2⟩
      · simp only [List.mem_cons] at hr
        rcases hr with rfl | hr
        · simp only at hk'
          exact Or.inl ⟨st, rfl, hk'.1, by omega⟩
        · exact Or.inr (fresh r hr k hk)

theorem mergeLines_complete (auths : List (Str × Option Str)) :
    ∀ (n : Nat) (cur : Option ((Str × Option Str) × Nat)), 1 ≤ n →
      (∀ au st, cur = some (au, st) → st ≤ n) → ∀ k,
      ((n ≤ k ∧ k < n + auths.length) ∨ (∃ au st, cur = some (au, st) ∧ st ≤ k ∧ k < n)) →
      ∃ r ∈ mergeLines n cur (auths.map some), coversB r k = true := by
  induction auths with
  | nil =>
    intro n cur hn _ k hk
    rcases hk with ⟨h1, h2⟩ | ⟨au, st, rfl, h1, h2⟩
    · simp at h2; omega
    · refine ⟨⟨st, n - 1, au.1, au.2⟩, by simp [mergeLines], ?_⟩
      simp only [coversB, Bool.and_eq_true, decide_eq_true_eq]; omega
  | cons a rest ih =>
    intro n cur hn hcur k hk
    have fresh : (n ≤ k ∧ k < n + (a :: rest).length) →
        ∃ r ∈ mergeLines (n + 1) (some (a, n)) (rest.map some), coversB r k = true := by
      intro ⟨h1, h2⟩
      simp only [List.length_cons] at h2
      apply ih (n + 1) (some (a, n)) (by omega)
        (by intro au st h; simp only [Option.some.injEq, Prod.mk.injEq] at h; omega) k
      by_cases hkn : k = n
      · exact Or.inr ⟨a, n, rfl, by omega, by omega⟩
      · exact Or.inl ⟨by omega, by omega⟩
    cases cur with
    | none =>
      simp only [List.map_cons, mergeLines]
      rcases hk with h | ⟨au, st, hc, _, _⟩
      · exact fresh h
      · cases hc
    | some c =>
      obtain ⟨au, st⟩ := c
      have hst : st ≤ n := hcur au st rfl
      simp only [List.map_cons, mergeLines]
      split
      · rename_i heq
        subst heq
        apply ih (n + 1) (some (au, st)) (by omega)
          (by intro au' st' h; simp only [Option.some.injEq, Prod.mk.injEq] at h; omega) k
        rcases hk with ⟨h1, h2⟩ | ⟨au', st', hc, h1, h2⟩
        · simp only [List.length_cons] at h2
          by_cases hkn : k = n
          · exact Or.inr ⟨au, st, rfl, by omega, by omega⟩
          · exact Or.inl ⟨by omega, by omega⟩
        · simp only [Option.some.injEq, Prod.mk.injEq] at hc
          obtain ⟨rfl, rfl⟩ := hc
          exact Or.inr ⟨au, st, rfl, h1, by omega⟩
      · rcases hk with h | ⟨au', st', hc, h1, h2⟩
        · obtain ⟨r, hr, hc⟩ := fresh h
          exact ⟨r, List.mem_cons_of_mem _ hr, hc⟩
        · simp only [Option.some.injEq, Prod.mk.injEq] at hc
          obtain ⟨rfl, rfl⟩ := hc
          refine ⟨⟨st, n - 1, au.1, au.2⟩, by simp, ?_⟩
          simp only [coversB, Bool.and_eq_true, decide_eq_true_eq]; omega

/-- the final `retain` of `attributions_to_line_attributions` -/
def keepLine (l : LineAttr) : Bool := l.author != human || l.overrode.isSome

/-- what the merged and filtered line list says about line `k`, in terms of the per-line
    authorship list -/
theorem lineAuthor_project (auths : List (Str × Option Str)) (k : Nat) :
    lineAuthor ((mergeLines 1 none (auths.map some)).filter keepLine) k =
      match (if 1 ≤ k then auths[k - 1]? else none) with
      | some (X, o) => if (X != human || o.isSome) = true then some X else none
      | none => none := by
  have hsound : ∀ r ∈ mergeLines 1 none (auths.map some), coversB r k = true →
      1 ≤ k ∧ auths[k - 1]? = some (r.author, r.overrode) := by
    intro r hr hk
    rcases mergeLines_sound auths 1 none (Nat.le_refl _) r hr k hk with ⟨st, hc, _, _⟩ | h
    · cases hc
    · exact h
  have hcomplete : 1 ≤ k → k < 1 + auths.length →
      ∃ r ∈ mergeLines 1 none (auths.map some), coversB r k = true := by
    intro h1 h2
    exact mergeLines_complete auths 1 none (Nat.le_refl _) (by intro au st h; cases h) k (Or.inl ⟨h1, h2⟩)
  simp only [lineAuthor]
  cases hf : ((mergeLines 1 none (auths.map some)).filter keepLine).find? (fun r => coversB r k) with
  | some r =>
    have hmem := List.mem_of_find?_eq_some hf
    have hcov := List.find?_some hf
    rw [List.mem_filter] at hmem
    obtain ⟨h1, h2⟩ := hsound r hmem.1 hcov
    have hk := hmem.2
    simp only [keepLine] at hk
    simp [h1, h2, hk]
  | none =>
    rw [List.find?_eq_none] at hf
    by_cases h1 : 1 ≤ k
    · simp only [h1, if_true, Option.map_none]
      cases hget : auths[k - 1]? with
      | none => rfl
      | some xo =>
        obtain ⟨X, o⟩ := xo
        have hlt : k - 1 < auths.length := by
          rcases List.getElem?_eq_some_iff.1 hget with ⟨h, _⟩; exact h
        obtain ⟨r, hr, hcov⟩ := hcomplete h1 (by omega)
        obtain ⟨_, h2⟩ := hsound r hr hcov
        rw [hget] at h2
        simp only [Option.some.injEq, Prod.mk.injEq] at h2
        have hnot : ¬ keepLine r = true := by
          intro hk
          exact hf r (List.mem_filter.2 ⟨hr, hk⟩) hcov
        simp only [keepLine, h2.1.symm, h2.2.symm] at hnot
        simp [hnot]
    · simp [h1]

/-! ## indexing into a chain of line ranges -/

theorem Chain.get? {s e : Nat} {L : List (Nat × Nat)} (h : Chain s L e) :
    ∀ (i a b : Nat), L[i]? = some (a, b) → s ≤ a ∧ a < b ∧ b ≤ e := by
  induction L generalizing s with
  | nil => intro i a b hi; simp at hi
  | cons l r ih =>
    obtain ⟨x, y⟩ := l
    obtain ⟨rfl, hlt, hr⟩ := h
    intro i a b hi
    cases i with
    | zero =>
      simp only [List.getElem?_cons_zero, Option.some.injEq, Prod.mk.injEq] at hi
      obtain ⟨rfl, rfl⟩ := hi
      exact ⟨Nat.le_refl _, hlt, hr.le⟩
    | succ i =>
      simp only [List.getElem?_cons_succ] at hi
      have := ih hr i a b hi
      omega

theorem Chain.ord {s e : Nat} {L : List (Nat × Nat)} (h : Chain s L e) :
    ∀ (i j a b a' b' : Nat), L[i]? = some (a, b) → L[j]? = some (a', b') → i < j → b ≤ a' := by
  induction L generalizing s with
  | nil => intro i j a b a' b' hi; simp at hi
  | cons l r ih =>
    obtain ⟨x, y⟩ := l
    obtain ⟨rfl, hlt, hr⟩ := h
    intro i j a b a' b' hi hj hij
    cases j with
    | zero => omega
    | succ j =>
      simp only [List.getElem?_cons_succ] at hj
      cases i with
      | zero =>
        simp only [List.getElem?_cons_zero, Option.some.injEq, Prod.mk.injEq] at hi
        obtain ⟨rfl, rfl⟩ := hi
        exact (hr.get? j a' b' hj).1
      | succ i =>
        simp only [List.getElem?_cons_succ] at hi
        exact ih hr i j a b a' b' hi hj (by omega)

/-! ## enumFrom -/

theorem mem_enumFrom {α} (l : List α) : ∀ (n : Nat) (p : Nat × α), p ∈ enumFrom n l → p.2 ∈ l := by
  induction l with
  | nil => intro n p hp; simp [enumFrom] at hp
  | cons x xs ih =>
    intro n p hp
    simp only [enumFrom, List.mem_cons] at hp
    rcases hp with rfl | hp
    · simp
    · exact List.mem_cons_of_mem _ (ih _ p hp)

theorem exists_enumFrom {α} (l : List α) : ∀ (n : Nat) (a : α), a ∈ l → ∃ i, (i, a) ∈ enumFrom n l := by
  induction l with
  | nil => intro n a ha; simp at ha
  | cons x xs ih =>
    intro n a ha
    rcases List.mem_cons.1 ha with rfl | ha
    · exact ⟨n, by simp [enumFrom]⟩
    · obtain ⟨i, hi⟩ := ih (n + 1) a ha
      exact ⟨i, by simp [enumFrom, hi]⟩

/-! ## candidates that cover a whole line -/

theorem filterCandidates_all (content : Text) (ls le : Nat) (lineEmpty : Bool) (act : List Attr)
    (h : ∀ a ∈ act, isCandidate content ls le lineEmpty a = .ok true) :
    filterCandidates content ls le lineEmpty act = .ok act := by
  induction act with
  | nil => rfl
  | cons a r ih =>
    have ha := h a (by simp)
    have hr := ih (fun x hx => h x (by simp [hx]))
    simp [filterCandidates, ha, hr]

theorem isCandidate_full (content : Text) (ls le : Nat) (line : Text) (a : Attr)
    (hslice : sliceStr content ls le = .ok line) (hlt : ls < le)
    (hbs : isBoundary content ls = true) (hbe : isBoundary content le = true)
    (h1 : a.start ≤ ls) (h2 : le ≤ a.stop) :
    isCandidate content ls le (line.isEmpty || allWs line) a = .ok true := by
  have hov : a.overlaps ls le = true := by
    simp only [Attr.overlaps, Bool.and_eq_true, decide_eq_true_eq]; omega
  have hmax : max ls a.start = ls := by omega
  have hmin : min le a.stop = le := by omega
  simp only [isCandidate, hov, hmax, hmin, hlt, hbs, hbe, hslice, Bool.not_true, Bool.false_eq_true,
    if_false, if_true]
  cases allWs line <;> simp

theorem latest_mem (best : Attr) (l : List Attr) : latest best l = best ∨ latest best l ∈ l := by
  induction l generalizing best with
  | nil => exact Or.inl rfl
  | cons a r ih =>
    simp only [latest]
    split
    · rcases ih a with h | h
      · exact Or.inr (by simp [h])
      · exact Or.inr (List.mem_cons_of_mem _ h)
    · rcases ih best with h | h
      · exact Or.inl h
      · exact Or.inr (List.mem_cons_of_mem _ h)

theorem lastWhere_none (p : Attr → Bool) (l : List Attr) (h : ∀ a ∈ l, p a = false) :
    lastWhere p none l = none := by
  induction l with
  | nil => rfl
  | cons a r ih =>
    simp only [lastWhere, h a (by simp), Bool.false_eq_true, if_false]
    exact ih (fun x hx => h x (by simp [hx]))

theorem lastWhere_some (p : Attr → Bool) (l : List Attr) :
    ∀ (acc : Option Attr), (acc.isSome = true ∨ ∃ a ∈ l, p a = true) → (lastWhere p acc l).isSome = true := by
  induction l with
  | nil =>
    intro acc h
    rcases h with h | ⟨a, ha, _⟩
    · simpa [lastWhere] using h
    · simp at ha
  | cons a r ih =>
    intro acc h
    simp only [lastWhere]
    split
    · exact ih _ (Or.inl rfl)
    · rename_i hp
      apply ih
      rcases h with h | ⟨x, hx, hpx⟩
      · exact Or.inl h
      · rcases List.mem_cons.1 hx with rfl | hx
        · exact absurd hpx hp
        · exact Or.inr ⟨x, hx, hpx⟩

/-- all candidates cover the whole line and share one non-human author: that author wins,
    nothing is overridden -/
theorem dominant_single (content : Text) (ls le : Nat) (line : Text) (act : List Attr) (X : Str)
    (hslice : sliceStr content ls le = .ok line) (hlt : ls < le)
    (hbs : isBoundary content ls = true) (hbe : isBoundary content le = true)
    (hcov : ∀ a ∈ act, a.start ≤ ls ∧ le ≤ a.stop ∧ a.author = X) (hX : X ≠ human)
    (hne : act ≠ []) :
    dominant content ls le (line.isEmpty || allWs line) act = .ok (X, none) := by
  have hfc := filterCandidates_all content ls le (line.isEmpty || allWs line) act
    (fun a ha => isCandidate_full content ls le line a hslice hlt hbs hbe (hcov a ha).1 (hcov a ha).2.1)
  cases act with
  | nil => exact absurd rfl hne
  | cons c0 cs =>
    simp only [dominant, hfc]
    have hwin : (latest c0 cs).author = X := by
      rcases latest_mem c0 cs with h | h
      · rw [h]; exact (hcov c0 (by simp)).2.2
      · exact (hcov _ (List.mem_cons_of_mem _ h)).2.2
    have hnoh : lastWhere (fun a => a.author == human) none (c0 :: cs) = none := by
      apply lastWhere_none
      intro a ha
      have := (hcov a ha).2.2
      simp [this, hX]
    simp only [hwin, hnoh]
    cases lastWhere (fun a => a.author != human) none (c0 :: cs) <;> rfl

/-! ## the round trip, line by line -/

/-- every line of `c` starts and ends on a char boundary (true of every valid UTF-8 text: a
    line starts at 0 or right after a `\n` byte, which is a complete character) -/
def LinesOnBoundaries (c : Text) : Prop :=
  ∀ p ∈ lineRanges c, isBoundary c p.1 = true ∧ isBoundary c p.2 = true

/-- in range (1 ≤ start ≤ end ≤ m), not attributed to "human", pairwise disjoint -/
def LinesOk (m : Nat) (L : List LineAttr) : Prop :=
  (∀ l ∈ L, 1 ≤ l.startLine ∧ l.startLine ≤ l.endLine ∧ l.endLine ≤ m ∧ l.author ≠ human) ∧
    DisjointLines L

/-- the char attribution `line_attributions_to_attributions` makes from one line attribution -/
def toA (lr : List (Nat × Nat)) (ts : Nat) (l : LineAttr) : Attr :=
  ⟨(lr.getD (l.startLine - 1) (0, 0)).1, (lr.getD (l.endLine - 1) (0, 0)).2, l.author, ts⟩

/-- per-line authorship the round trip must reproduce -/
def authAt (L : List LineAttr) (k : Nat) : Str × Option Str :=
  match L.find? (fun r => coversB r k) with
  | some l => (l.author, none)
  | none => (human, none)

theorem getLineRange_in (lr : List (Nat × Nat)) (n : Nat) (h1 : 1 ≤ n) (h2 : n ≤ lr.length) :
    getLineRange lr n = some (lr.getD (n - 1) (0, 0)) := by
  have hlt : n - 1 < lr.length := by omega
  have hnot : ¬ (n < 1 ∨ n > lr.length) := by omega
  simp only [getLineRange, hnot, if_false, List.getD_eq_getElem?_getD, List.getElem?_eq_getElem hlt,
    Option.getD_some]

theorem filterMap_eq_map_of {α β} (f : α → Option β) (g : α → β) (l : List α)
    (h : ∀ x ∈ l, f x = some (g x)) : l.filterMap f = l.map g := by
  induction l with
  | nil => rfl
  | cons x xs ih =>
    simp only [List.filterMap_cons, h x (by simp), List.map_cons]
    rw [ih (fun y hy => h y (by simp [hy]))]

theorem lineAttrsToAttrs_eq (L : List LineAttr) (c : Text) (ts : Nat)
    (hL : ∀ l ∈ L, 1 ≤ l.startLine ∧ l.startLine ≤ l.endLine ∧ l.endLine ≤ (lineRanges c).length)
    (hne : L ≠ []) (hc : c ≠ []) :
    lineAttrsToAttrs L c ts = L.map (toA (lineRanges c) ts) := by
  have h1 : L.isEmpty = false := by cases L <;> simp_all
  have h2 : c.isEmpty = false := by cases c <;> simp_all
  simp only [lineAttrsToAttrs, h1, h2, Bool.or_self, Bool.false_eq_true, if_false]
  apply filterMap_eq_map_of
  intro l hl
  obtain ⟨a, b, d⟩ := hL l hl
  rw [getLineRange_in _ _ a (by omega), getLineRange_in _ _ (by omega) d]
  rfl

theorem toA_bounds (lr : List (Nat × Nat)) (e : Nat) (hch : Chain 0 lr e) (ts : Nat) (l : LineAttr)
    (hl : 1 ≤ l.startLine ∧ l.startLine ≤ l.endLine ∧ l.endLine ≤ lr.length)
    (i ls le : Nat) (hi : lr[i]? = some (ls, le)) :
    (coversB l (i + 1) = true → (toA lr ts l).start ≤ ls ∧ le ≤ (toA lr ts l).stop) ∧
    (∀ idx, ov ls le (idx, toA lr ts l) = true → coversB l (i + 1) = true) := by
  obtain ⟨h1, h2, h3⟩ := hl
  have hs : l.startLine - 1 < lr.length := by omega
  have he : l.endLine - 1 < lr.length := by omega
  obtain ⟨⟨sa, sb⟩, gs⟩ : ∃ p, lr[l.startLine - 1]? = some p := ⟨_, List.getElem?_eq_getElem hs⟩
  obtain ⟨⟨ea, eb⟩, ge⟩ : ∃ p, lr[l.endLine - 1]? = some p := ⟨_, List.getElem?_eq_getElem he⟩
  have hstart : (toA lr ts l).start = sa := by
    simp [toA, List.getD_eq_getElem?_getD, gs]
  have hstop : (toA lr ts l).stop = eb := by
    simp [toA, List.getD_eq_getElem?_getD, ge]
  have fs := hch.get? _ _ _ gs
  have fe := hch.get? _ _ _ ge
  have fi := hch.get? _ _ _ hi
  constructor
  · intro hc
    simp only [coversB, Bool.and_eq_true, decide_eq_true_eq] at hc
    rw [hstart, hstop]
    constructor
    · by_cases heq : l.startLine - 1 = i
      · have h' : lr[i]? = some (sa, sb) := heq ▸ gs
        rw [hi] at h'
        simp only [Option.some.injEq, Prod.mk.injEq] at h'
        omega
      · have := hch.ord _ _ _ _ _ _ gs hi (by omega)
        omega
    · by_cases heq : l.endLine - 1 = i
      · have h' : lr[i]? = some (ea, eb) := heq ▸ ge
        rw [hi] at h'
        simp only [Option.some.injEq, Prod.mk.injEq] at h'
        omega
      · have := hch.ord _ _ _ _ _ _ hi ge (by omega)
        omega
  · intro idx hov
    simp only [ov, Bool.and_eq_true, decide_eq_true_eq] at hov
    rw [hstart, hstop] at hov
    simp only [coversB, Bool.and_eq_true, decide_eq_true_eq]
    constructor
    · by_cases hlt : i < l.startLine - 1
      · have := hch.ord _ _ _ _ _ _ hi gs hlt
        omega
      · omega
    · by_cases hlt : l.endLine - 1 < i
      · have := hch.ord _ _ _ _ _ _ ge hi hlt
        omega
      · omega

theorem lineResult_roundtrip (c : Text) (L : List LineAttr) (ts : Nat) (hb : LinesOnBoundaries c)
    (hL : LinesOk (lineRanges c).length L) (i ls le : Nat) (hi : (lineRanges c)[i]? = some (ls, le)) :
    lineResult c ls le
      (((sortBy idxLe (enumFrom 0 (L.map (toA (lineRanges c) ts)))).filter (ov ls le)).map (·.2))
      = .ok (some (authAt L (i + 1))) := by
  have hch := lineRanges_chain c
  obtain ⟨_, hlt, hle⟩ := hch.get? i ls le hi
  obtain ⟨hbs, hbe⟩ := hb (ls, le) (List.mem_of_getElem? hi)
  have hslice : sliceStr c ls le = .ok ((c.drop ls).take (le - ls)) := by
    simp only [sliceStr]
    rw [if_pos ⟨by omega, hle, hbs, hbe⟩]
  have hrange : ∀ l ∈ L, 1 ≤ l.startLine ∧ l.startLine ≤ l.endLine ∧ l.endLine ≤ (lineRanges c).length :=
    fun l hl => ⟨(hL.1 l hl).1, (hL.1 l hl).2.1, (hL.1 l hl).2.2.1⟩
  -- membership in the active set
  have hact1 : ∀ a ∈ ((sortBy idxLe (enumFrom 0 (L.map (toA (lineRanges c) ts)))).filter (ov ls le)).map (·.2),
      ∃ l ∈ L, a = toA (lineRanges c) ts l ∧ coversB l (i + 1) = true := by
    intro a ha
    simp only [List.mem_map, List.mem_filter, mem_sortBy] at ha
    obtain ⟨p, ⟨hp, hov⟩, rfl⟩ := ha
    have := mem_enumFrom _ _ p hp
    simp only [List.mem_map] at this
    obtain ⟨l, hl, hpl⟩ := this
    refine ⟨l, hl, hpl.symm, ?_⟩
    have hb2 := (toA_bounds _ _ hch ts l (hrange l hl) i ls le hi).2 p.1
    rw [hpl] at hb2
    exact hb2 hov
  have hact2 : ∀ l ∈ L, coversB l (i + 1) = true →
      toA (lineRanges c) ts l ∈ ((sortBy idxLe (enumFrom 0 (L.map (toA (lineRanges c) ts)))).filter (ov ls le)).map (·.2) := by
    intro l hl hc
    obtain ⟨idx, hidx⟩ := exists_enumFrom (L.map (toA (lineRanges c) ts)) 0 (toA (lineRanges c) ts l)
      (List.mem_map.2 ⟨l, hl, rfl⟩)
    simp only [List.mem_map, List.mem_filter, mem_sortBy]
    refine ⟨(idx, toA (lineRanges c) ts l), ⟨hidx, ?_⟩, rfl⟩
    have hb1 := (toA_bounds _ _ hch ts l (hrange l hl) i ls le hi).1 hc
    simp only [ov, Bool.and_eq_true, decide_eq_true_eq]
    omega
  simp only [lineResult, hslice, authAt]
  cases hf : L.find? (fun r => coversB r (i + 1)) with
  | none =>
    rw [List.find?_eq_none] at hf
    have hnil : ((sortBy idxLe (enumFrom 0 (L.map (toA (lineRanges c) ts)))).filter (ov ls le)).map (·.2) = [] := by
      rw [List.eq_nil_iff_forall_not_mem]
      intro a ha
      obtain ⟨l, hl, _, hc⟩ := hact1 a ha
      exact hf l hl hc
    rw [hnil]
    simp [dominant, filterCandidates]
  | some lstar =>
    have hmem := List.mem_of_find?_eq_some hf
    have hcov := List.find?_some hf
    have hX : lstar.author ≠ human := (hL.1 lstar hmem).2.2.2
    rw [dominant_single c ls le _ _ lstar.author hslice hlt hbs hbe ?_ hX ?_]
    · intro a ha
      obtain ⟨l, hl, rfl, hc⟩ := hact1 a ha
      have heq : l = lstar := covering_unique L hL.2 (i + 1) l hl lstar hmem hc hcov
      subst heq
      have := (toA_bounds _ _ hch ts l (hrange l hl) i ls le hi).1 hc
      exact ⟨this.1, this.2, rfl⟩
    · intro hnil
      have := hact2 lstar hmem hcov
      rw [hnil] at this
      simp at this

/-! ## assembling the lines -/

def authsFrom {α} (f : Nat → α) : Nat → Nat → List α
  | _, 0 => []
  | n0, len + 1 => f n0 :: authsFrom f (n0 + 1) len

theorem authsFrom_getElem? {α} (f : Nat → α) : ∀ (len n0 i : Nat),
    (authsFrom f n0 len)[i]? = if i < len then some (f (n0 + i)) else none := by
  intro len
  induction len with
  | zero => intro n0 i; simp [authsFrom]
  | succ len ih =>
    intro n0 i
    cases i with
    | zero => simp [authsFrom]
    | succ i =>
      simp only [authsFrom, List.getElem?_cons_succ, ih]
      have : n0 + 1 + i = n0 + (i + 1) := by omega
      simp [this]

theorem sweepSpec_pointwise (c : Text) (S : List (Nat × Attr)) (f : Nat → Str × Option Str) :
    ∀ (Ls : List (Nat × Nat)) (n0 : Nat),
      (∀ i a b, Ls[i]? = some (a, b) →
        lineResult c a b ((S.filter (ov a b)).map (·.2)) = .ok (some (f (n0 + i)))) →
      sweepSpec c S Ls = .ok ((authsFrom f n0 Ls.length).map some) := by
  intro Ls
  induction Ls with
  | nil => intro n0 _; rfl
  | cons l r ih =>
    intro n0 h
    obtain ⟨a, b⟩ := l
    have h0 := h 0 a b (by simp)
    have hr := ih (n0 + 1) (by
      intro i a' b' hi
      have := h (i + 1) a' b' (by simpa using hi)
      have e : n0 + 1 + i = n0 + (i + 1) := by omega
      rw [e]; exact this)
    simp only [sweepSpec, h0, hr, Nat.add_zero, List.length_cons, authsFrom, List.map_cons]

/-- **round trip core**: the line projection of the char ranges made from `L` reads back, line
    by line, the author `L` gives -/
theorem roundtrip_core (c : Text) (L : List LineAttr) (ts : Nat) (hb : LinesOnBoundaries c)
    (hL : LinesOk (lineRanges c).length L) :
    ∃ R, toLineAttrs (lineAttrsToAttrs L c ts) c = .ok R ∧ ∀ k, lineAuthor R k = lineAuthor L k := by
  by_cases hnil : L = []
  · subst hnil
    refine ⟨[], ?_, fun k => rfl⟩
    simp [lineAttrsToAttrs, toLineAttrs]
  have hrange : ∀ l ∈ L, 1 ≤ l.startLine ∧ l.startLine ≤ l.endLine ∧ l.endLine ≤ (lineRanges c).length :=
    fun l hl => ⟨(hL.1 l hl).1, (hL.1 l hl).2.1, (hL.1 l hl).2.2.1⟩
  have hch := lineRanges_chain c
  have hlr : lineRanges c ≠ [] := by
    intro h
    cases L with
    | nil => exact hnil rfl
    | cons l r =>
      have := hrange l (by simp)
      rw [h] at this
      simp at this
      omega
  have hc : c ≠ [] := by
    intro h
    subst h
    exact hlr rfl
  rw [lineAttrsToAttrs_eq L c ts hrange hnil hc, toLineAttrs_eq]
  have e1 : c.isEmpty = false := by cases c <;> simp_all
  have e2 : (L.map (toA (lineRanges c) ts)).isEmpty = false := by cases L <;> simp_all
  have e3 : (lineRanges c).isEmpty = false := by
    cases h : lineRanges c with
    | nil => exact absurd h hlr
    | cons _ _ => rfl
  have hsw := sweepSpec_pointwise c (sortBy idxLe (enumFrom 0 (L.map (toA (lineRanges c) ts))))
    (authAt L) (lineRanges c) 1 (by
      intro i a b hi
      have := lineResult_roundtrip c L ts hb hL i a b hi
      rw [Nat.add_comm 1 i]; exact this)
  simp only [e1, e2, e3, Bool.or_self, Bool.false_eq_true, if_false, hsw]
  refine ⟨_, rfl, ?_⟩
  intro k
  have hproj := lineAuthor_project (authsFrom (authAt L) 1 (lineRanges c).length) k
  have hkeep : (fun l : LineAttr => l.author != human || l.overrode.isSome) = keepLine := rfl
  rw [hkeep, hproj, authsFrom_getElem?]
  -- what `L` says about line k
  by_cases h1 : 1 ≤ k
  · by_cases h2 : k - 1 < (lineRanges c).length
    · have e : 1 + (k - 1) = k := by omega
      simp only [h1, if_true, h2, e, authAt, lineAuthor]
      cases hf : L.find? (fun r => coversB r k) with
      | none => simp
      | some l =>
        have hmem := List.mem_of_find?_eq_some hf
        have hX : l.author ≠ human := (hL.1 l hmem).2.2.2
        simp [hX]
    · simp only [h1, if_true, h2, if_false, lineAuthor]
      have : L.find? (fun r => coversB r k) = none := by
        rw [List.find?_eq_none]
        intro l hl
        have := hrange l hl
        simp only [coversB, Bool.and_eq_true, decide_eq_true_eq]
        omega
      simp [this]
  · simp only [h1, if_false, lineAuthor]
    have : L.find? (fun r => coversB r k) = none := by
      rw [List.find?_eq_none]
      intro l hl
      have := hrange l hl
      simp only [coversB, Bool.and_eq_true, decide_eq_true_eq]
      omega
    simp [this]

end GitAi.Tracker
