/-
  Lemmas/TrackerUnchanged.lean — bytes of an Equal segment keep the multiset of (author, ts)
  covering them (transform level).
-/
import GitAiModel.Lemmas.TrackerNewText
namespace GitAi.Tracker
open GitAi

/-- `x` is by `w = (author, ts)` and covers byte `p` -/
def coversP (w : Str × Nat) (p : Nat) (x : Attr) : Bool :=
  decide (x.who = w) && decide (x.start ≤ p) && decide (p < x.stop)

/-- how many ranges of `l` by `w` cover byte `p` -/
def cov (l : List Attr) (w : Str × Nat) (p : Nat) : Nat := l.countP (coversP w p)

theorem cov_append (l1 l2 : List Attr) (w : Str × Nat) (p : Nat) :
    cov (l1 ++ l2) w p = cov l1 w p + cov l2 w p := by
  simp [cov, List.countP_append]

theorem cov_zero_of (l : List Attr) (w : Str × Nat) (p : Nat)
    (h : ∀ x ∈ l, x.start ≤ p → p < x.stop → False) : cov l w p = 0 := by
  simp only [cov, List.countP_eq_zero]
  intro x hx hc
  simp only [coversP, Bool.and_eq_true, decide_eq_true_eq] at hc
  exact h x hx hc.1.2 hc.2

/-- sorted by start -/
def SortedStart (l : List Attr) : Prop := l.Pairwise (fun a b => a.start ≤ b.start)

theorem mapOverlaps_cov (lo hi base : Nat) (w : Str × Nat) (q : Nat) (h1 : lo ≤ q) (h2 : q < hi)
    (l : List Attr) (hs : SortedStart l) :
    cov (mapOverlaps lo hi base l) w (base + (q - lo)) = cov l w q := by
  induction l with
  | nil => rfl
  | cons x xs ih =>
    have hs' : SortedStart xs := (List.pairwise_cons.1 hs).2
    have hle : ∀ y ∈ xs, x.start ≤ y.start := (List.pairwise_cons.1 hs).1
    simp only [mapOverlaps]
    split
    · rename_i hge
      symm
      apply cov_zero_of
      intro y hy hy1 hy2
      rcases List.mem_cons.1 hy with rfl | hy
      · omega
      · have := hle y hy; omega
    · split
      · rename_i hlt
        simp only [cov, List.countP_cons] at ih ⊢
        rw [ih hs']
        congr 1
        simp only [coversP, Attr.who]
        by_cases hw : (x.author, x.ts) = w
        · simp only [hw, decide_true, Bool.true_and]
          congr 1
          have : (decide (base + (max x.start lo - lo) ≤ base + (q - lo)) &&
              decide (base + (q - lo) < base + (max x.start lo - lo) + (min x.stop hi - max x.start lo)))
              = (decide (x.start ≤ q) && decide (q < x.stop)) := by
            rw [Bool.eq_iff_iff]
            simp only [Bool.and_eq_true, decide_eq_true_eq]
            omega
          rw [this]
        · simp [hw]
      · rename_i hnlt
        simp only [cov, List.countP_cons] at ih ⊢
        rw [ih hs']
        have : coversP w q x = false := by
          simp only [coversP]
          rw [Bool.eq_false_iff]
          simp only [ne_eq, Bool.and_eq_true, decide_eq_true_eq]
          omega
        simp [this]

theorem skipEnded_take (pos : Nat) (m : List Attr) : ∀ x ∈ m.take (skipEnded pos m), x.stop ≤ pos := by
  induction m with
  | nil => intro x hx; simp [skipEnded] at hx
  | cons a r ih =>
    intro x hx
    simp only [skipEnded] at hx
    split at hx
    · simp only [List.take_succ_cons, List.mem_cons] at hx
      rcases hx with rfl | hx
      · assumption
      · exact ih x hx
    · simp at hx

theorem advance_take (old : List Attr) (pos cur : Nat) :
    ∀ x ∈ old.take (advance old pos cur), x ∈ old.take cur ∨ x.stop ≤ pos := by
  intro x hx
  simp only [advance, List.take_add, List.mem_append] at hx
  rcases hx with hx | hx
  · exact Or.inl hx
  · exact Or.inr (skipEnded_take pos _ x hx)

/-- every attribution the cursor has passed ends at or before the current old position -/
def CurInv (c : Ctx) (s : St) : Prop := ∀ x ∈ c.old.take s.oldCur, x.stop ≤ s.oldPos

/-- every move's source starts inside its deletion (threaded along the segment list) -/
def SrcOk (moves : List Move) : Nat → List Seg → Prop
  | _, [] => True
  | k, g :: r =>
    match g.op with
    | .delete => (∀ m ∈ moves, m.delIdx = k → m.srcS ≤ g.data.length) ∧ SrcOk moves (k + 1) r
    | _ => SrcOk moves k r

theorem movesForDeletion_delIdx (moves : List Move) (d : Nat) (ms : List Move)
    (h : movesForDeletion moves d = some ms) : ∀ m ∈ ms, m ∈ moves ∧ m.delIdx = d := by
  simp only [movesForDeletion] at h
  split at h
  · cases h
  · cases h
    intro m hm
    rw [mem_sortBy] at hm
    rcases mem_dedupMoves _ [] m hm with h | h
    · simp at h
    · have := List.mem_filter.1 h
      exact ⟨this.1, by simpa using this.2⟩

theorem applyMoves_cur (c : Ctx) (delStart L : Nat) (ms : List Move) (hms : ∀ m ∈ ms, m.srcS ≤ L) :
    ∀ (cur : Nat) (out : List Attr) (cur' : Nat) (out' : List Attr),
      (∀ x ∈ c.old.take cur, x.stop ≤ delStart + L) →
      applyMoves c delStart ms cur out = .ok (cur', out') →
      ∀ x ∈ c.old.take cur', x.stop ≤ delStart + L := by
  induction ms with
  | nil =>
    intro cur out cur' out' hinv h
    simp only [applyMoves, Except.ok.injEq, Prod.mk.injEq] at h
    rw [← h.1]; exact hinv
  | cons m r ih =>
    intro cur out cur' out' hinv h
    have hr : ∀ m ∈ r, m.srcS ≤ L := fun x hx => hms x (by simp [hx])
    simp only [applyMoves] at h
    split at h
    · cases h
    · split at h
      · refine ih hr _ _ _ _ ?_ h
        intro x hx
        rcases advance_take _ _ _ x hx with h' | h'
        · exact hinv x h'
        · have := hms m (by simp); omega
      · exact ih hr _ _ _ _ hinv h

theorem step_oldPos (c : Ctx) (s s' : St) (g : Seg) (h : step c s g = .ok s') :
    s'.oldPos = s.oldPos + (match g.op with | .insert => 0 | _ => g.data.length) ∧
    s'.delIdx = s.delIdx + (match g.op with | .delete => 1 | _ => 0) := by
  simp only [step] at h
  cases hop : g.op <;> simp only [hop] at h
  · cases h; exact ⟨rfl, rfl⟩
  · split at h
    · split at h
      · cases h
      · cases h; exact ⟨rfl, rfl⟩
    · cases h; exact ⟨rfl, rfl⟩
  · split at h
    · cases h; exact ⟨rfl, rfl⟩
    · split at h
      · cases h
      · cases h; exact ⟨rfl, rfl⟩

theorem step_curInv (c : Ctx) (s s' : St) (g : Seg) (hinv : CurInv c s)
    (hsrc : g.op = .delete → ∀ m ∈ c.moves, m.delIdx = s.delIdx → m.srcS ≤ g.data.length)
    (h : step c s g = .ok s') : CurInv c s' := by
  have hpos := (step_oldPos c s s' g h).1
  simp only [step] at h
  cases hop : g.op <;> simp only [hop] at h hpos
  · cases h
    intro x hx
    simp only at hx ⊢
    rcases advance_take _ _ _ x hx with h' | h'
    · have := hinv x h'; omega
    · omega
  · split at h
    · rename_i ms hms
      split at h
      · cases h
      · rename_i cur out hap
        cases h
        intro x hx
        simp only at hx ⊢
        refine applyMoves_cur c s.oldPos g.data.length ms ?_ _ _ _ _ ?_ hap x hx
        · intro m hm
          have := movesForDeletion_delIdx _ _ _ hms m hm
          exact hsrc hop m this.1 this.2
        · intro y hy
          have := hinv y hy; omega
    · cases h
      intro x hx
      have := hinv x hx
      simp only; omega
  · split at h
    · cases h
      exact hinv
    · split at h
      · cases h
      · cases h
        exact hinv

theorem runSegs_curInv (c : Ctx) (segs : List Seg) : ∀ (s s' : St), CurInv c s →
    SrcOk c.moves s.delIdx segs → runSegs c s segs = .ok s' → CurInv c s' := by
  induction segs with
  | nil => intro s s' hinv _ h; simp only [runSegs, Except.ok.injEq] at h; subst h; exact hinv
  | cons g r ih =>
    intro s s' hinv hsrc h
    simp only [runSegs] at h
    split at h
    · cases h
    · rename_i s1 h1
      have hd := (step_oldPos c s s1 g h1).2
      simp only [SrcOk] at hsrc
      cases hop : g.op <;> simp only [hop] at hsrc hd
      · exact ih s1 s' (step_curInv c s s1 g hinv (by simp [hop]) h1) (by rw [hd]; exact hsrc) h
      · exact ih s1 s' (step_curInv c s s1 g hinv (fun _ => hsrc.1) h1) (by rw [hd]; exact hsrc.2) h
      · exact ih s1 s' (step_curInv c s s1 g hinv (by simp [hop]) h1) (by rw [hd]; exact hsrc) h

theorem SrcOk_append_left (moves : List Move) (l1 l2 : List Seg) : ∀ k, SrcOk moves k (l1 ++ l2) → SrcOk moves k l1 := by
  induction l1 with
  | nil => intro k _; trivial
  | cons g r ih =>
    intro k h
    simp only [List.cons_append, SrcOk] at h ⊢
    cases hop : g.op <;> simp only [hop] at h ⊢
    · exact ih k h
    · exact ⟨h.1, ih _ h.2⟩
    · exact ih k h

theorem runSegs_oldPos (c : Ctx) (segs : List Seg) : ∀ (s s' : St), runSegs c s segs = .ok s' →
    s'.oldPos = s.oldPos + (oldOf segs).length := by
  induction segs with
  | nil => intro s s' h; simp only [runSegs, Except.ok.injEq] at h; subst h; simp [oldOf]
  | cons g r ih =>
    intro s s' h
    simp only [runSegs] at h
    split at h
    · cases h
    · rename_i s1 h1
      rw [ih s1 s' h, (step_oldPos c s s1 g h1).1]
      cases hop : g.op <;> simp [oldOf, hop] <;> omega

theorem cov_drop (old : List Attr) (cur : Nat) (w : Str × Nat) (q lo : Nat) (hq : lo ≤ q)
    (h : ∀ x ∈ old.take cur, x.stop ≤ lo) : cov (old.drop cur) w q = cov old w q := by
  conv => rhs; rw [← List.take_append_drop cur old]
  rw [cov_append, cov_zero_of (old.take cur) w q (fun x hx _ h2 => by have := h x hx; omega)]
  omega

theorem SortedStart.drop {l : List Attr} (h : SortedStart l) (n : Nat) : SortedStart (l.drop n) :=
  List.Pairwise.sublist (List.drop_sublist n l) h

/-- **unchanged text keeps its authors** (transform level, multiset form): for priors sorted by
    start and moves whose source starts inside its deletion, every byte of an Equal segment is
    covered after `transform` by exactly the (author, ts) pairs, with multiplicity, that covered
    its pre-image. -/
theorem unchanged_transform (pre post : List Seg) (d : Text) (subst : List (Nat × Nat))
    (moves : List Move) (old : List Attr) (author : Str) (ts : Nat) (out : List Attr)
    (hsorted : SortedStart old) (hsrc : SrcOk moves 0 (pre ++ ⟨.equal, d⟩ :: post))
    (h : transform (pre ++ ⟨.equal, d⟩ :: post) subst moves old author ts = .ok out) :
    ∀ (w : Str × Nat) (k : Nat), k < d.length →
      cov out w ((newOf pre).length + k) = cov old w ((oldOf pre).length + k) := by
  intro w k hk
  simp only [transform] at h
  split at h
  · cases h
  · rename_i s3 hrun
    cases h
    generalize hc : (⟨old, author, ts, insertions (pre ++ ⟨.equal, d⟩ :: post), moves, subst⟩ : Ctx) = c at hrun
    have hins : c.ins = insertions (pre ++ ⟨.equal, d⟩ :: post) := by rw [← hc]
    have hmv : c.moves = moves := by rw [← hc]
    have hold : c.old = old := by rw [← hc]
    have hwf := insertions_wf _ c hins
    obtain ⟨s1, s2, h1, h2, h3⟩ := runSegs_split c pre post _ St.init s3 hrun
    have hnp1 : s1.newPos = (newOf pre).length := by
      rw [runSegs_newPos c pre _ _ h1]; simp [St.init]
    have hop1 : s1.oldPos = (oldOf pre).length := by
      rw [runSegs_oldPos c pre _ _ h1]; simp [St.init]
    have hinv1 : CurInv c s1 := by
      refine runSegs_curInv c pre St.init s1 (by intro x hx; simp [St.init] at hx) ?_ h1
      rw [hmv]
      exact SrcOk_append_left moves pre _ 0 hsrc
    obtain ⟨d1, hd1, hP1⟩ := runSegs_delta c hwf pre _ _ h1
    obtain ⟨d3, hd3, hP3⟩ := runSegs_delta c hwf post _ _ h3
    -- the Equal step
    have hstep : s2.out = s1.out ++ mapOverlaps s1.oldPos (s1.oldPos + d.length) s1.newPos
          (c.old.drop (advance c.old s1.oldPos s1.oldCur)) ∧ s2.newPos = s1.newPos + d.length := by
      simp only [step] at h2
      simp only [Except.ok.injEq] at h2
      subst h2
      exact ⟨rfl, rfl⟩
    simp only [St.init, List.nil_append] at hd1
    have hmoved : ∀ x, InMovedIns c x → x.start ≤ (newOf pre).length + k → (newOf pre).length + k < x.stop → False := by
      intro x ⟨m, _, i, hget, hi1, hi2⟩ hx1 hx2
      rw [hins] at hget
      rcases equal_insertions_disjoint pre post d i (List.mem_of_getElem? hget) with h | h <;> omega
    rw [hd3, hstep.1, hd1, cov_append, cov_append]
    rw [cov_zero_of d1 w _ (by
      intro x hx hx1 hx2
      rcases hP1 x hx with hw | hm
      · simp only [Within, St.init] at hw; omega
      · exact hmoved x hm hx1 hx2)]
    rw [cov_zero_of d3 w _ (by
      intro x hx hx1 hx2
      rcases hP3 x hx with hw | hm
      · simp only [Within] at hw
        have := hstep.2
        omega
      · exact hmoved x hm hx1 hx2)]
    rw [hnp1, hop1, hold]
    have hk' : (oldOf pre).length + k - (oldOf pre).length = k := by omega
    have := mapOverlaps_cov (oldOf pre).length ((oldOf pre).length + d.length) (newOf pre).length w
      ((oldOf pre).length + k) (by omega) (by omega)
      (old.drop (advance old (oldOf pre).length s1.oldCur)) (hsorted.drop _)
    rw [hk'] at this
    rw [Nat.zero_add, Nat.add_zero, this]
    apply cov_drop old _ w _ (oldOf pre).length (by omega)
    intro x hx
    rcases advance_take _ _ _ x hx with h' | h'
    · have := hinv1 x (by rw [hold]; exact h')
      rw [hop1] at this
      exact this
    · exact h'

end GitAi.Tracker
