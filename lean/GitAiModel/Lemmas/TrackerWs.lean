/-
  Lemmas/TrackerWs.lean — a whitespace-only reformat introduces no deletion marker: every range
  `transform` emits is non-empty.
-/
import GitAiModel.Lemmas.Tracker
namespace GitAi.Tracker
open GitAi

/-- every changed (Delete / Insert) segment is non-empty whitespace -/
def WsReformat (segs : List Seg) : Prop := ∀ g ∈ segs, g.op ≠ .equal → dataIsWs g.data = true

theorem mapOverlaps_nonempty (lo hi base : Nat) (l : List Attr) :
    ∀ a ∈ mapOverlaps lo hi base l, a.start < a.stop := by
  induction l with
  | nil => intro a ha; simp [mapOverlaps] at ha
  | cons x xs ih =>
    intro a ha
    simp only [mapOverlaps] at ha
    split at ha
    · simp at ha
    · split at ha
      · simp only [List.mem_cons] at ha
        rcases ha with rfl | ha
        · simp only; omega
        · exact ih a ha
      · exact ih a ha

theorem movesForDeletion_nil (d : Nat) : movesForDeletion [] d = none := by
  simp [movesForDeletion]

theorem rangesForInsertion_nil (i : Nat) : rangesForInsertion [] i = none := by
  simp [rangesForInsertion]

theorem step_nonempty (c : Ctx) (hm : c.moves = []) (s s' : St) (g : Seg)
    (hws : g.op ≠ .equal → dataIsWs g.data = true)
    (hout : ∀ a ∈ s.out, a.start < a.stop) (h : step c s g = .ok s') :
    ∀ a ∈ s'.out, a.start < a.stop := by
  simp only [step, hm, movesForDeletion_nil, rangesForInsertion_nil] at h
  cases hop : g.op <;> simp only [hop] at h
  · cases h
    intro a ha
    simp only [List.mem_append] at ha
    rcases ha with ha | ha
    · exact hout a ha
    · exact mapOverlaps_nonempty _ _ _ _ a ha
  · have hw := hws (by simp [hop])
    cases h
    intro a ha
    simp only [hw, Bool.not_true, Bool.false_eq_true, if_false] at ha
    exact hout a ha
  · have hw := hws (by simp [hop])
    have hlen : 0 < g.data.length := by
      simp only [dataIsWs, Bool.and_eq_true, Bool.not_eq_true'] at hw
      cases hd : g.data with
      | nil => simp [hd] at hw
      | cons _ _ => simp
    split at h
    · cases h
    · cases h
      intro a ha
      simp only [List.mem_append, List.mem_singleton] at ha
      rcases ha with ha | rfl
      · exact hout a ha
      · simp only; omega

theorem runSegs_nonempty (c : Ctx) (hm : c.moves = []) (segs : List Seg) (hws : WsReformat segs) :
    ∀ (s s' : St), (∀ a ∈ s.out, a.start < a.stop) → runSegs c s segs = .ok s' →
      ∀ a ∈ s'.out, a.start < a.stop := by
  induction segs with
  | nil => intro s s' hout h; simp only [runSegs, Except.ok.injEq] at h; subst h; exact hout
  | cons g r ih =>
    intro s s' hout h
    simp only [runSegs] at h
    split at h
    · cases h
    · rename_i s1 h1
      exact ih (fun x hx => hws x (by simp [hx])) s1 s'
        (step_nonempty c hm s s1 g (hws g (by simp)) hout h1) h

theorem transform_ws_nonempty (segs : List Seg) (subst : List (Nat × Nat)) (old : List Attr)
    (author : Str) (ts : Nat) (out : List Attr) (hws : WsReformat segs)
    (h : transform segs subst [] old author ts = .ok out) : ∀ a ∈ out, a.start < a.stop := by
  simp only [transform] at h
  split at h
  · cases h
  · rename_i s hrun
    cases h
    exact runSegs_nonempty _ rfl segs hws St.init s (by intro a ha; simp [St.init] at ha) hrun

end GitAi.Tracker
