/-
  Lemmas/Wrapper.lean — execution lemmas for Model/Wrapper.lean (used by Props/C06.lean and Props/C07.lean).
-/
import GitAiModel.Model.Wrapper
namespace GitAi.Wrapper
open GitAi

/-- every step of the program is one the inventory allows (for every possible result of the steps before it). -/
inductive Confined : Prog → Prop
  | done : Confined .done
  | panic : Confined .panic
  | exit (c : Nat) : Confined (.exit c)
  | step (s : Step) (k : Res → Prog) : s.allowed = true → (∀ r, Confined (k r)) → Confined (.step s k)

/-- the program has no `process::exit`. -/
inductive NoExit : Prog → Prop
  | done : NoExit .done
  | panic : NoExit .panic
  | step (s : Step) (k : Res → Prog) : (∀ r, NoExit (k r)) → NoExit (.step s k)

/-- every `process::exit` of the program has a non-zero code. -/
inductive ExitsNZ : Prog → Prop
  | done : ExitsNZ .done
  | panic : ExitsNZ .panic
  | exit (c : Nat) : c ≠ 0 → ExitsNZ (.exit c)
  | step (s : Step) (k : Res → Prog) : (∀ r, ExitsNZ (k r)) → ExitsNZ (.step s k)

theorem NoExit.exitsNZ {p : Prog} (h : NoExit p) : ExitsNZ p := by
  induction h with
  | done => exact .done
  | panic => exact .panic
  | step s k _ ih => exact .step s k ih

/-- F2 at the level of one step. -/
theorem doStep_u (K : GitKernel) (st : Step) (w : World) (h : st.allowed = true) :
    (doStep K st w).2.u = w.u := by
  cases st with
  | git argv refs => exact K.frame_confined argv refs w h
  | fsA f => rfl
  | fsU f => simp [Step.allowed] at h
  | readA q => rfl
  | readU q => rfl

/-- a confined program leaves `U` as it was, under every fault plan. -/
theorem exec_u (K : GitKernel) {p : Prog} (h : Confined p) (s : St) :
    (execProg K p s).2.w.u = s.w.u := by
  induction h generalizing s with
  | done => rfl
  | panic => rfl
  | exit c => rfl
  | step st k hst _ ih =>
    unfold execProg
    split
    · rfl
    · rfl
    · rw [ih]
    · rw [ih]; exact doStep_u K st s.w hst
    · rw [ih]; exact doStep_u K st s.w hst

theorem exec_plan_nil (K : GitKernel) (p : Prog) (s : St) (h : s.plan = []) :
    (execProg K p s).2.plan = [] := by
  induction p generalizing s with
  | done => exact h
  | panic => exact h
  | exit c => exact h
  | step st k ih =>
    unfold execProg
    rw [h]
    exact ih _ _ rfl

theorem exec_not_killed_nil (K : GitKernel) (p : Prog) (s : St) (h : s.plan = []) :
    (execProg K p s).1 ≠ .killed := by
  induction p generalizing s with
  | done => simp [execProg]
  | panic => simp [execProg]
  | exit c => simp [execProg]
  | step st k ih =>
    unfold execProg
    rw [h]
    exact ih _ _ rfl

theorem exec_noexit (K : GitKernel) {p : Prog} (h : NoExit p) (s : St) (c : Nat) :
    (execProg K p s).1 ≠ .exited c := by
  induction h generalizing s with
  | done => simp [execProg]
  | panic => simp [execProg]
  | step st k _ ih =>
    unfold execProg
    split
    · simp
    · simp
    · exact ih _ _
    · exact ih _ _
    · exact ih _ _

theorem exec_exit_nz (K : GitKernel) {p : Prog} (h : ExitsNZ p) (s : St) (c : Nat)
    (he : (execProg K p s).1 = .exited c) : c ≠ 0 := by
  induction h generalizing s with
  | done => simp [execProg] at he
  | panic => simp [execProg] at he
  | exit c' hc => simp [execProg] at he; exact he ▸ hc
  | step st k _ ih =>
    unfold execProg at he
    split at he
    · simp at he
    · simp at he
    · exact ih _ _ he
    · exact ih _ _ he
    · exact ih _ _ he

/-- an exit or a panic always comes with a diagnostic on stderr. -/
theorem exec_diag (K : GitKernel) (p : Prog) (s : St) :
    ((execProg K p s).1 = .panicked ∨ ∃ c, (execProg K p s).1 = .exited c) → (execProg K p s).2.diag = true := by
  induction p generalizing s with
  | done => intro h; simp [execProg] at h
  | panic => intro _; rfl
  | exit c => intro _; rfl
  | step st k ih =>
    unfold execProg
    split
    · intro h; simp at h
    · intro _; rfl
    · exact ih _ _
    · exact ih _ _
    · exact ih _ _

/-- `diag` is never reset. -/
theorem exec_diag_mono (K : GitKernel) (p : Prog) (s : St) (h : s.diag = true) :
    (execProg K p s).2.diag = true := by
  induction p generalizing s with
  | done => exact h
  | panic => rfl
  | exit c => rfl
  | step st k ih =>
    unfold execProg
    split
    · exact h
    · rfl
    · exact ih _ _ h
    · exact ih _ _ h
    · exact ih _ _ h

end GitAi.Wrapper
