/-
  Lemmas/WrapperExit.lean — lemmas for Model/WrapperExit.lean (used by Props/C06.lean).
-/
import GitAiModel.Model.WrapperExit
namespace GitAi.Wrapper.Exit
open GitAi

/-! ## A. dispositions -/

theorem get_setDisp (d : Disps) (s t : Signal) (v : Disp) :
    (setDisp d s v).get t = if uncatchable t then .dfl else if t = s then v else d t := by
  unfold Disps.get setDisp
  split <;> rfl

theorem get_setDisp_dfl_self (d : Disps) (s : Signal) : (setDisp d s .dfl).get s = .dfl := by
  rw [get_setDisp]; split <;> simp

theorem get_setDisp_ne (d : Disps) (s t : Signal) (v : Disp) (h : t ≠ s) : (setDisp d s v).get t = d.get t := by
  rw [get_setDisp]; unfold Disps.get; split
  · rfl
  · simp

/-- resetting to default keeps a default disposition default. -/
theorem get_setDisp_dfl_of_dfl (d : Disps) (s t : Signal) (h : d.get t = .dfl) : (setDisp d s .dfl).get t = .dfl := by
  by_cases hts : t = s
  · subst hts; exact get_setDisp_dfl_self d t
  · rw [get_setDisp_ne d s t .dfl hts]; exact h

theorem get_setAll_dfl_of_dfl (l : List Signal) (d : Disps) (t : Signal) (h : d.get t = .dfl) :
    (setAll d l .dfl).get t = .dfl := by
  induction l generalizing d with
  | nil => exact h
  | cons a l ih => exact ih (setDisp d a .dfl) (get_setDisp_dfl_of_dfl d a t h)

theorem get_setAll_dfl_of_mem (l : List Signal) (d : Disps) (t : Signal) (h : t ∈ l) :
    (setAll d l .dfl).get t = .dfl := by
  induction l generalizing d with
  | nil => cases h
  | cons a l ih =>
    show (setAll (setDisp d a .dfl) l .dfl).get t = .dfl
    by_cases hta : t = a
    · subst hta; exact get_setAll_dfl_of_dfl l _ t (get_setDisp_dfl_self d t)
    · cases h with
      | head => exact absurd rfl hta
      | tail _ hm => exact ih _ hm

theorem get_setAll_of_not_mem (l : List Signal) (d : Disps) (t : Signal) (v : Disp) (h : t ∉ l) :
    (setAll d l v).get t = d.get t := by
  induction l generalizing d with
  | nil => rfl
  | cons a l ih =>
    show (setAll (setDisp d a v) l v).get t = d.get t
    have hta : t ≠ a := fun e => h (e ▸ List.mem_cons_self)
    rw [ih _ (fun hm => h (List.mem_cons_of_mem a hm)), get_setDisp_ne d a t v hta]

theorem applyReset_keeps_dfl (sig : Signal) (d : Disps) (r : Reset) (t : Signal) (h : d.get t = .dfl) :
    (applyReset sig d r).get t = .dfl := by
  cases r with
  | dying => exact get_setDisp_dfl_of_dfl d sig t h
  | fixed l => exact get_setAll_dfl_of_dfl l d t h

theorem applyReset_covers (sig : Signal) (d : Disps) (r : Reset) (h : r.covers sig = true) :
    (applyReset sig d r).get sig = .dfl := by
  cases r with
  | dying => exact get_setDisp_dfl_self d sig
  | fixed l =>
    have : sig ∈ l := by simpa [Reset.covers] using h
    exact get_setAll_dfl_of_mem l d sig this

theorem applyReset_not_covers (sig : Signal) (d : Disps) (r : Reset) (h : r.covers sig = false) :
    (applyReset sig d r).get sig = d.get sig := by
  cases r with
  | dying => simp [Reset.covers] at h
  | fixed l =>
    have : sig ∉ l := by simpa [Reset.covers] using h
    exact get_setAll_of_not_mem l d sig .dfl this

theorem foldl_keeps_dfl (sig : Signal) (rs : List Reset) (d : Disps) (h : d.get sig = .dfl) :
    (rs.foldl (applyReset sig) d).get sig = .dfl := by
  induction rs generalizing d with
  | nil => exact h
  | cons r rs ih => exact ih _ (applyReset_keeps_dfl sig d r sig h)

theorem foldl_covers (sig : Signal) (rs : List Reset) (d : Disps) (h : rs.any (Reset.covers sig) = true) :
    (rs.foldl (applyReset sig) d).get sig = .dfl := by
  induction rs generalizing d with
  | nil => simp at h
  | cons r rs ih =>
    show (rs.foldl (applyReset sig) (applyReset sig d r)).get sig = .dfl
    by_cases hr : r.covers sig = true
    · exact foldl_keeps_dfl sig rs _ (applyReset_covers sig d r hr)
    · have : rs.any (Reset.covers sig) = true := by
        simp only [List.any_cons, Bool.or_eq_true] at h
        exact h.resolve_left hr
      exact ih _ this

theorem foldl_not_covers (sig : Signal) (rs : List Reset) (d : Disps) (h : rs.any (Reset.covers sig) = false) :
    (rs.foldl (applyReset sig) d).get sig = d.get sig := by
  induction rs generalizing d with
  | nil => rfl
  | cons r rs ih =>
    simp only [List.any_cons, Bool.or_eq_false_iff] at h
    show (rs.foldl (applyReset sig) (applyReset sig d r)).get sig = d.get sig
    rw [ih _ h.2, applyReset_not_covers sig d r h.1]

theorem raise_of_dfl (d : Disps) (sig : Signal) (hk : canKill sig = true) (h : d.get sig = .dfl) :
    raise d sig = some (.signaled sig) := by
  unfold raise
  rw [h]
  simp only [canKill, Bool.and_eq_true, Bool.or_eq_true, decide_eq_true_eq] at hk
  rcases hk.2 with ht | hc
  · simp [ht]
  · simp [hc]

theorem raise_of_not_dfl (d : Disps) (sig : Signal) (h : d.get sig ≠ .dfl) : raise d sig = none := by
  unfold raise
  cases hd : d.get sig with
  | dfl => exact absurd hd h
  | ign => rfl
  | handler => rfl

/-- **Characterisation.** The wrapper dies by the signal that killed the child exactly when `exit_with_status` raises
    it and its disposition is default at that moment: it was reset by one of the statements before the raise, or it
    was default already. Otherwise the raise returns and the wrapper exits with a code. -/
theorem mirrored_iff (spec : ExitSpec) (sig : Signal) (d : Disps) (hk : canKill sig = true) :
    exitWithStatus spec (.signaled sig) d = .signaled sig ↔
      spec.raisesDying = true ∧ (spec.resets.any (Reset.covers sig) = true ∨ d.get sig = .dfl) := by
  unfold exitWithStatus
  simp only []
  by_cases hr : spec.raisesDying = true
  · simp only [hr, if_true, true_and]
    by_cases hc : spec.resets.any (Reset.covers sig) = true
    · rw [raise_of_dfl _ sig hk (foldl_covers sig _ d hc)]
      simp [hc]
    · have hc' : spec.resets.any (Reset.covers sig) = false := by simpa using hc
      by_cases hd : d.get sig = .dfl
      · rw [raise_of_dfl _ sig hk (foldl_keeps_dfl sig _ d hd)]
        simp [hd]
      · have : (spec.resets.foldl (applyReset sig) d).get sig ≠ .dfl := by
          rw [foldl_not_covers sig _ d hc']; exact hd
        rw [raise_of_not_dfl _ sig this]
        constructor
        · intro h; cases hu : spec.thenUnreachable <;> simp [hu] at h
        · intro h; exact absurd h (by simp [hc', hd])
  · have hr' : spec.raisesDying = false := by simpa using hr
    simp only [hr', Bool.false_eq_true, if_false, false_and, iff_false]
    intro h; cases hu : spec.thenUnreachable <;> simp [hu] at h

/-- sufficient: the dying signal itself is reset (the generic `libc::signal(sig, SIG_DFL)`). -/
theorem mirrored_of_dying (spec : ExitSpec) (sig : Signal) (d : Disps) (hk : canKill sig = true)
    (hr : spec.raisesDying = true) (hd : Reset.dying ∈ spec.resets) :
    exitWithStatus spec (.signaled sig) d = .signaled sig := by
  refine (mirrored_iff spec sig d hk).2 ⟨hr, Or.inl ?_⟩
  exact List.any_eq_true.2 ⟨.dying, hd, rfl⟩

/-- SIGPIPE is ignored when `exit_with_status` starts, whatever was inherited, unless the forwarding handlers cover it. -/
theorem sigpipe_ignored_atExit (spec : ExitSpec) (inh : Disps) (setpgid : Bool)
    (hf : sigPIPE ∉ spec.forwarded) (hu : sigPIPE ∉ spec.uninstalled) :
    (atExit spec inh setpgid).get sigPIPE = .ign := by
  have h0 : (rustRuntimeInit inh).get sigPIPE = .ign := by
    unfold rustRuntimeInit
    rw [get_setDisp_ne _ sigBUS sigPIPE .handler (by decide), get_setDisp_ne _ sigSEGV sigPIPE .handler (by decide), get_setDisp]
    simp [uncatchable, sigPIPE, sigKILL, sigSTOP]
  unfold atExit
  cases setpgid with
  | false => simpa using h0
  | true =>
    simp only [if_true]
    rw [get_setAll_of_not_mem _ _ _ _ hu, get_setAll_of_not_mem _ _ _ _ hf]
    exact h0

/-! ## B. user hooks -/

theorem mem_allBools (b : Bool) : b ∈ allBools := by cases b <;> decide
theorem mem_allLocs (l : UserLoc) : l ∈ allLocs := by cases l <;> decide
theorem mem_allAi (a : AiHooks) : a ∈ allAi := by cases a <;> decide
theorem mem_allUser (u : UserHook) : u ∈ allUser := by cases u <;> decide

/-- the evaluated decision space covers every scenario. -/
theorem userHooksOk_sound (E : HookEntrySpec) (O : OverrideSpec) (h : userHooksOk E O = true)
    (s : Scn) (rl mf : Bool) (hs : s.deadDefaultDir = false) : viaProxy E O s rl mf = plain s := by
  obtain ⟨um, loc, ai, em, u, ex⟩ := s
  unfold userHooksOk at h
  simp only [List.all_eq_true] at h
  have := h um (mem_allBools um) loc (mem_allLocs loc) ai (mem_allAi ai) em (mem_allBools em) u (mem_allUser u)
    ex (mem_allBools ex) rl (mem_allBools rl) mf (mem_allBools mf)
  simp only [hs, Bool.false_or, decide_eq_true_eq] at this
  exact this

end GitAi.Wrapper.Exit
