/-
  Model/Alias.lean — alias tokenizer and alias resolution of the git proxy.

  Mirrors /repo/src/commands/git_handlers.rs:
    is_git_space, parse_alias_tokens, resolve_alias_impl (resolve_alias_invocation).
  The config lookup `repository.config_get_str("alias.<command>")` is a parameter
  `lookup : Str → Option Str` (argument: the command; any lookup error is `none`, as in the
  `_ => return Some(current)` arm).  The `loop` is fuel-bounded; `resolve_terminates`
  (Props/C18.lean) shows that `table size + 1` iterations always suffice.
  `in_single` / `in_double` are never both set (each is set only from the unquoted state), so
  they are one three-valued field here.
-/
import GitAiModel.Model.Cli
namespace GitAi.Alias
open GitAi GitAi.Cli

/-- `is_git_space`: git's own `isspace` (space, tab, LF, CR). -/
def isGitSpace (c : Char) : Bool := c = ' ' || c = '\t' || c = '\n' || c = '\r'

/-- `in_single` / `in_double`. -/
inductive Quote where
  | none | single | double
  deriving Repr, DecidableEq, Inhabited

/-- the `for ch in trimmed.chars()` loop of `parse_alias_tokens` followed by its epilogue.
    Arguments: rest of the input, `tokens`, `current`, `in_token`, quote state, `escaped`. -/
def tokGo : Str → List Str → Str → Bool → Quote → Bool → Option (List Str)
  | [], toks, cur, inTok, q, esc =>
    let cur := if esc then cur ++ ['\\'] else cur
    if q ≠ .none then none
    else some (if inTok then toks ++ [cur] else toks)
  | ch :: cs, toks, cur, inTok, q, esc =>
    if esc then tokGo cs toks (cur ++ [ch]) inTok q false
    else match q with
      | .single =>
        if ch = '\'' then tokGo cs toks cur inTok .none false
        else tokGo cs toks (cur ++ [ch]) inTok .single false
      | .double =>
        if ch = '"' then tokGo cs toks cur inTok .none false
        else if ch = '\\' then tokGo cs toks cur inTok .double true
        else tokGo cs toks (cur ++ [ch]) inTok .double false
      | .none =>
        if ch = '\'' then tokGo cs toks cur true .single false
        else if ch = '"' then tokGo cs toks cur true .double false
        else if ch = '\\' then tokGo cs toks cur true .none true
        else if isGitSpace ch then
          (if inTok then tokGo cs (toks ++ [cur]) [] false .none false
           else tokGo cs toks cur inTok .none false)
        else tokGo cs toks (cur ++ [ch]) true .none false

/-- `value.trim_start_matches(is_git_space)`. -/
def trimStartGit : Str → Str
  | [] => []
  | c :: cs => if isGitSpace c then trimStartGit cs else c :: cs

/-- `trimmed.starts_with('!')`: a shell alias. -/
def isShell (value : Str) : Bool :=
  match trimStartGit value with
  | '!' :: _ => true
  | _ => false

/-- `parse_alias_tokens`. -/
def tokens (value : Str) : Option (List Str) :=
  if isShell value then none
  else tokGo (trimStartGit value) [] [] false .none false

/-- why `resolve_alias_impl` stopped. `final` is `Some(current)`; all others are `None`. -/
inductive Outcome where
  | final (p : Parsed)
  /-- `!seen.insert(command)` -/
  | cycle (c : Str)
  /-- `parse_alias_tokens(..)?` returned `None` for a `!` alias -/
  | shell (c : Str)
  /-- `parse_alias_tokens(..)?` returned `None` for a value that ends inside a quote -/
  | unterminated (c : Str)
  | outOfFuel
  deriving Repr, DecidableEq, Inhabited

/-- the `loop` of `resolve_alias_impl`; `seen` is the `HashSet`. -/
def resolveO (lookup : Str → Option Str) : Nat → List Str → Parsed → Outcome
  | 0, _, _ => .outOfFuel
  | fuel + 1, seen, cur =>
    match cur.command with
    | none => .final cur
    | some c =>
      if seen.contains c then .cycle c
      else match lookup c with
        | none => .final cur
        | some v =>
          match tokens v with
          | none => if isShell v then .shell c else .unterminated c
          | some ts =>
            resolveO lookup fuel (c :: seen)
              (parse (cur.globalArgs ++ (if cur.sawEndOfOpts then [dashDash] else []) ++ ts ++ cur.commandArgs))

/-- `resolve_alias_impl` / `resolve_alias_invocation`. -/
def resolve (lookup : Str → Option Str) (fuel : Nat) (p : Parsed) : Option Parsed :=
  match resolveO lookup fuel [] p with
  | .final q => some q
  | _ => none

/-- lookup in an association list (first binding wins). -/
def lookupIn : List (Str × Str) → Str → Option Str
  | [], _ => none
  | (k, v) :: rest, c => if k = c then some v else lookupIn rest c

end GitAi.Alias
