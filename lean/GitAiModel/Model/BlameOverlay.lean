/-
  Model/BlameOverlay.lean — `git-ai blame`: git blame's porcelain + the authorship notes.

  Mirrors /repo/src/commands/blame.rs
    parse_blame_line_porcelain   (`parsePorcelain`: header / continuation / metadata state machine)
    populate_ai_human_authors    (`splitHunks`)
    overlay_ai_authorship        (`overlayL`, `overlay`)  + hunk_note_path
    output_json_format           (`jsonRuns`, `jsonLines`)
    output_default/porcelain/incremental_format reduced to their line → (commit, author) content
  and /repo/src/authorship/authorship_log_serialization.rs
    AuthorshipLog::get_line_attribution (`attribution`)
  Reference model of git (validated end-to-end, not proved about git):
    `renderLinePorcelain` — the grammar of `git blame --line-porcelain`.
  Lines of text are `Str`s (`str::lines()` has already split them; `parseText` does the split).
-/
import GitAiModel.Model.NoteFormat
import GitAiModel.Model.GitPath
namespace GitAi.BlameOverlay
open GitAi GitAi.NoteFormat GitAi.GitPath

/-! ## 1. The `--line-porcelain` parser -/

/-- `BlameHunk` (fields the property needs). -/
structure Hunk where
  start : Nat        -- range.0   (final line numbers, inclusive)
  stop : Nat         -- range.1
  origStart : Nat    -- orig_range.0
  origStop : Nat     -- orig_range.1
  commit : Str
  author : Str       -- original_author
  boundary : Bool    -- is_boundary
  origPath : Str     -- orig_file_path (porcelain `filename`, un-quoted)
  deriving Repr, DecidableEq, Inhabited

inductive PErr where
  | panic            -- u32 overflow in `start + group_size` (debug builds abort)
  deriving Repr, DecidableEq, Inhabited

/-- `CurMeta` (modelled fields). -/
structure Meta where
  author : Str := []
  boundary : Bool := false
  filename : Str := []
  deriving Repr, DecidableEq, Inhabited

structure PState where
  hunks : List Hunk := []
  cur : Option Str := none      -- cur_commit
  finalStart : Nat := 0
  origStart : Nat := 0
  group : Nat := 0
  info : Meta := {}
  deriving Repr, DecidableEq, Inhabited

/-- `str::strip_prefix`. -/
def stripPrefix : Str → Str → Option Str
  | [], s => some s
  | _ :: _, [] => none
  | p :: ps, c :: cs => if p = c then stripPrefix ps cs else none

/-- `char::is_ascii_hexdigit`. -/
def isHexDigit (c : Char) : Bool :=
  ('0' ≤ c && c ≤ '9') || ('a' ≤ c && c ≤ 'f') || ('A' ≤ c && c ≤ 'F')

/-- `str::split_whitespace` (worker: `cur` is the token being collected). -/
def splitWsGo : Str → Str → List Str
  | cur, [] => if cur.isEmpty then [] else [cur]
  | cur, c :: cs =>
    if isWhitespace c then
      if cur.isEmpty then splitWsGo [] cs else cur :: splitWsGo [] cs
    else splitWsGo (cur ++ [c]) cs

def splitWs (s : Str) : List Str := splitWsGo [] s

def kAuthor : Str := ['a', 'u', 't', 'h', 'o', 'r', ' ']
def kAuthorMail : Str := ['a', 'u', 't', 'h', 'o', 'r', '-', 'm', 'a', 'i', 'l', ' ']
def kAuthorTime : Str := ['a', 'u', 't', 'h', 'o', 'r', '-', 't', 'i', 'm', 'e', ' ']
def kAuthorTz : Str := ['a', 'u', 't', 'h', 'o', 'r', '-', 't', 'z', ' ']
def kCommitter : Str := ['c', 'o', 'm', 'm', 'i', 't', 't', 'e', 'r', ' ']
def kCommitterMail : Str := ['c', 'o', 'm', 'm', 'i', 't', 't', 'e', 'r', '-', 'm', 'a', 'i', 'l', ' ']
def kCommitterTime : Str := ['c', 'o', 'm', 'm', 'i', 't', 't', 'e', 'r', '-', 't', 'i', 'm', 'e', ' ']
def kCommitterTz : Str := ['c', 'o', 'm', 'm', 'i', 't', 't', 'e', 'r', '-', 't', 'z', ' ']
def kBoundary : Str := ['b', 'o', 'u', 'n', 'd', 'a', 'r', 'y']
def kFilename : Str := ['f', 'i', 'l', 'e', 'n', 'a', 'm', 'e', ' ']
def kSummary : Str := ['s', 'u', 'm', 'm', 'a', 'r', 'y', ' ']
def kPrevious : Str := ['p', 'r', 'e', 'v', 'i', 'o', 'u', 's', ' ']

/-- what one line of porcelain text is to the parser -/
inductive LineKind where
  | skip                                   -- empty line, TAB-prefixed content, non-header text
  | author (v : Str)
  | consumed                               -- author-mail/-time/-tz, committer* (values not modelled)
  | boundary
  | filename (v : Str)
  | header (sha p2 p3 : Str) (p4 : Option Str)
  deriving Repr, DecidableEq, Inhabited

/-- the header test: first whitespace-separated token is non-empty hex and two more follow. -/
def headerTokens (line : Str) : Option (Str × Str × Str × Option Str) :=
  match splitWs line with
  | [] => none
  | sha :: more =>
    if sha.all isHexDigit then
      match more with
      | p2 :: p3 :: r => some (sha, p2, p3, r.head?)
      | _ => none
    else none

def isSome' : Option Str → Bool
  | some _ => true
  | none => false

/-- the `if … continue` chain at the top of the parser loop, in source order. -/
def classify (line : Str) : LineKind :=
  if line.isEmpty then .skip
  else if line.head? = some '\t' then .skip
  else match stripPrefix kAuthor line with
  | some rest => .author rest
  | none =>
  if isSome' (stripPrefix kAuthorMail line) then .consumed
  else if isSome' (stripPrefix kAuthorTime line) then .consumed
  else if isSome' (stripPrefix kAuthorTz line) then .consumed
  else if isSome' (stripPrefix kCommitter line) then .consumed
  else if isSome' (stripPrefix kCommitterMail line) then .consumed
  else if isSome' (stripPrefix kCommitterTime line) then .consumed
  else if isSome' (stripPrefix kCommitterTz line) then .consumed
  else if line = kBoundary then .boundary
  else match stripPrefix kFilename line with
  | some rest => .filename (unquotePath rest)
  | none =>
    match headerTokens line with
    | some (sha, p2, p3, p4) => .header sha p2 p3 p4
    | none => .skip

def u32Max : Nat := 4294967295

/-- the `hunks.push(BlameHunk { … })` block; `start + group - 1` is evaluated left to right in
    `u32`, so `start + group` must fit. -/
def mkHunk (st : PState) (sha : Str) : Except PErr Hunk :=
  if st.group > 0 then
    if st.finalStart + st.group > u32Max ∨ st.origStart + st.group > u32Max then .error .panic
    else .ok { start := st.finalStart, stop := st.finalStart + st.group - 1,
               origStart := st.origStart, origStop := st.origStart + st.group - 1,
               commit := sha, author := st.info.author, boundary := st.info.boundary,
               origPath := st.info.filename }
  else .ok { start := st.finalStart, stop := st.finalStart, origStart := st.origStart,
             origStop := st.origStart, commit := sha, author := st.info.author,
             boundary := st.info.boundary, origPath := st.info.filename }

/-- `cur_commit.take()` + push. -/
def flush (st : PState) : Except PErr PState :=
  match st.cur with
  | none => .ok st
  | some sha =>
    match mkHunk st sha with
    | .error e => .error e
    | .ok h => .ok { st with hunks := st.hunks ++ [h], cur := none }

def num (s : Str) (dflt : Nat) : Nat := (parseU32 s).getD dflt

def step (st : PState) (line : Str) : Except PErr PState :=
  match classify line with
  | .skip => .ok st
  | .consumed => .ok st
  | .author v => .ok { st with info := { st.info with author := v } }
  | .boundary => .ok { st with info := { st.info with boundary := true } }
  | .filename v => .ok { st with info := { st.info with filename := v } }
  | .header sha p2 p3 (some p4) =>
    match flush st with
    | .error e => .error e
    | .ok st' =>
      .ok { st' with cur := some sha, origStart := num p2 0, finalStart := num p3 0,
                     group := num p4 1, info := {} }
  | .header sha p2 p3 none =>
    match st.cur with
    | some _ => .ok st
    | none => .ok { st with cur := some sha, origStart := num p2 0, finalStart := num p3 0, group := 1 }

def parseGo : List Str → PState → Except PErr (List Hunk)
  | [], st =>
    match flush st with
    | .error e => .error e
    | .ok st' => .ok st'.hunks
  | l :: ls, st =>
    match step st l with
    | .error e => .error e
    | .ok st' => parseGo ls st'

/-- `parse_blame_line_porcelain` on the lines of git's output. -/
def parsePorcelain (lines : List Str) : Except PErr (List Hunk) := parseGo lines {}

def parseText (t : Str) : Except PErr (List Hunk) := parsePorcelain (rustLines t)

/-! ## 2. Reference renderer: the grammar of `git blame --line-porcelain` -/

/-- per-commit block git repeats for every line under `--line-porcelain` -/
structure Info where
  author : Str
  mail : Str
  time : Str
  tz : Str
  committer : Str
  cmail : Str
  ctime : Str
  ctz : Str
  summary : Str
  previous : Option (Str × Str)     -- `previous <sha> <path>`
  boundary : Bool
  deriving Repr, DecidableEq, Inhabited

/-- one blame entry: `1 + rest.length` consecutive lines of the same commit and path -/
structure Group where
  commit : Str
  origStart : Nat
  finalStart : Nat
  info : Info
  filename : Str            -- path the file had in `commit`
  first : Str               -- content of the first line
  rest : List Str           -- contents of the following lines
  deriving Repr, DecidableEq, Inhabited

def Group.count (g : Group) : Nat := g.rest.length + 1

def infoLines (full : Bool) (i : Info) (filename : Str) : List Str :=
  [kAuthor ++ i.author, kAuthorMail ++ i.mail, kAuthorTime ++ i.time, kAuthorTz ++ i.tz,
   kCommitter ++ i.committer, kCommitterMail ++ i.cmail, kCommitterTime ++ i.ctime,
   kCommitterTz ++ i.ctz, kSummary ++ i.summary] ++
  (if i.boundary then [kBoundary] else []) ++
  (match i.previous with
   | some (sha, path) => [kPrevious ++ (sha ++ ' ' :: quoteC full path)]
   | none => []) ++
  [kFilename ++ quoteC full filename]

def header3 (g : Group) (k : Nat) : Str :=
  g.commit ++ ' ' :: (natToStr (g.origStart + k) ++ ' ' :: natToStr (g.finalStart + k))

/-- continuation lines `k, k+1, …` of a group -/
def contLines (full : Bool) (g : Group) : Nat → List Str → List Str
  | _, [] => []
  | k, c :: cs => (header3 g k :: (infoLines full g.info g.filename ++ ['\t' :: c])) ++
      contLines full g (k + 1) cs

def groupLines (full : Bool) (g : Group) : List Str :=
  ((header3 g 0 ++ ' ' :: natToStr g.count) ::
    (infoLines full g.info g.filename ++ ['\t' :: g.first])) ++ contLines full g 1 g.rest

/-- `git blame --line-porcelain` for the blame entries `gs`; `full` = `core.quotePath`. -/
def renderLinePorcelain (full : Bool) : List Group → List Str
  | [] => []
  | g :: gs => groupLines full g ++ renderLinePorcelain full gs

/-- what git blame says about one line of the blamed file -/
structure BlameLine where
  final : Nat
  orig : Nat
  commit : Str
  origPath : Str
  author : Str
  boundary : Bool
  deriving Repr, DecidableEq, Inhabited

def linesFrom (commit origPath author : Str) (boundary : Bool) (final orig : Nat) :
    Nat → List BlameLine
  | 0 => []
  | n + 1 => ⟨final, orig, commit, origPath, author, boundary⟩ ::
      linesFrom commit origPath author boundary (final + 1) (orig + 1) n

def groupBlameLines (g : Group) : List BlameLine :=
  linesFrom g.commit g.filename g.info.author g.info.boundary g.finalStart g.origStart g.count

/-- the blame result `bl` described by the entries -/
def blameLines : List Group → List BlameLine
  | [] => []
  | g :: gs => groupBlameLines g ++ blameLines gs

/-- the lines a hunk stands for (`for i in 0..num_lines`: `range.0 + i`, `orig_range.0 + i`) -/
def hunkLines (h : Hunk) : List BlameLine :=
  linesFrom h.commit h.origPath h.author h.boundary h.start h.origStart (h.stop - h.start + 1)

def hunksLines : List Hunk → List BlameLine
  | [] => []
  | h :: hs => hunkLines h ++ hunksLines hs

/-! ## 3. Notes and `get_line_attribution` -/

/-- `PromptRecord` (fields blame reads) -/
structure Prompt where
  tool : Str                   -- agent_id.tool
  humanAuthor : Option Str     -- human_author
  deriving Repr, DecidableEq, Inhabited

/-- a parsed authorship note of a supported schema version -/
structure Note where
  files : List FileAtt
  prompts : List (Str × Prompt)      -- metadata.prompts
  deriving Repr, DecidableEq, Inhabited

def lookup {α : Type} (k : Str) : List (Str × α) → Option α
  | [] => none
  | (k', v) :: rest => if k' = k then some v else lookup k rest

def rangeContains : LineRange → Nat → Bool
  | .single l, line => l == line
  | .range s e, line => decide (s ≤ line) && decide (line ≤ e)

def covers (e : Entry) (line : Nat) : Bool := e.ranges.any (fun r => rangeContains r line)

/-- prompt record for a session hash: the note's own `prompts`, else the record found through
    `grep_ai_notes` in another note (`foreign`, an environment parameter). -/
def resolve (n : Note) (foreign : List (Str × Prompt)) (h : Str) : Option Prompt :=
  match lookup h n.prompts with
  | some p => some p
  | none => lookup h foreign

def findFile (file : Str) : List FileAtt → Option FileAtt
  | [] => none
  | f :: fs => if f.path = file then some f else findFile file fs

/-- scan of `entries.iter().rev()`: input is the reversed entry list -/
def firstCredit (n : Note) (foreign : List (Str × Prompt)) (line : Nat) :
    List Entry → Option (Str × Prompt)
  | [] => none
  | e :: es =>
    if covers e line then
      match resolve n foreign e.hash with
      | some p => some (e.hash, p)
      | none => firstCredit n foreign line es
    else firstCredit n foreign line es

/-- `get_line_attribution`. -/
def attribution (n : Note) (foreign : List (Str × Prompt)) (file : Str) (line : Nat) :
    Option (Str × Prompt) :=
  match findFile file n.files with
  | none => none
  | some fa => firstCredit n foreign line fa.entries.reverse

/-! ## 4. Overlay -/

structure Opts where
  hashesAsNames : Bool := false     -- use_prompt_hashes_as_names (--json, --show-prompt)
  returnHuman : Bool := false       -- return_human_authors_as_human
  markUnknown : Bool := false       -- --mark-unknown
  splitHunks : Bool := true         -- split_hunks_by_ai_author
  deriving Repr, DecidableEq, Inhabited

inductive Label where
  | ai (hash : Str) (p : Prompt)
  | human                   -- the commit has a note that does not credit the line to a session
  | noNote                  -- the commit has no (readable) note
  deriving Repr, DecidableEq, Inhabited

def sHuman : Str := ['h', 'u', 'm', 'a', 'n']
def sUnknown : Str := ['U', 'n', 'k', 'n', 'o', 'w', 'n']

/-- the string stored in `line_authors` -/
def labelStr (o : Opts) (author : Str) : Label → Str
  | .ai hash p => if o.hashesAsNames then hash else p.tool
  | .human => if o.returnHuman then sHuman else author
  | .noNote => if o.markUnknown then sUnknown else if o.returnHuman then sHuman else author

/-- `hunk_note_path`. -/
def notePath (origPath blamed : Str) : Str := if origPath.isEmpty then blamed else origPath

/-- the overlay decision for one line -/
def lineLabel (notes : List (Str × Note)) (foreign : List (Str × Prompt)) (blamed : Str)
    (bl : BlameLine) : Label :=
  match lookup bl.commit notes with
  | none => .noNote
  | some n =>
    match attribution n foreign (notePath bl.origPath blamed) bl.orig with
    | some (h, p) => .ai h p
    | none => .human

/-- `overlay_ai_authorship`: the sequence of `line_authors.insert(line, label)` calls. -/
def overlayL (notes : List (Str × Note)) (foreign : List (Str × Prompt)) (blamed : Str)
    (hs : List Hunk) : List (BlameLine × Label) :=
  (hunksLines hs).map (fun bl => (bl, lineLabel notes foreign blamed bl))

def overlay (o : Opts) (notes : List (Str × Note)) (foreign : List (Str × Prompt)) (blamed : Str)
    (hs : List Hunk) : List (Nat × Str) :=
  (overlayL notes foreign blamed hs).map (fun x => (x.1.final, labelStr o x.1.author x.2))

/-- `line_prompt_hashes`: the *kind* of a line's author, kept next to the display string — a row
    (line, session hash) exactly for the lines the overlay labels `ai`; human / unknown lines have
    none, whatever their display string looks like (the formatters read AI-ness from here). -/
def aiRows (out : List (BlameLine × Label)) : List (Nat × Str) :=
  out.filterMap (fun x =>
    match x.2 with
    | .ai h _ => some (x.1.final, h)
    | _ => none)

/-- keys inserted into `prompt_records` -/
def promptKeys (notes : List (Str × Note)) (foreign : List (Str × Prompt)) (blamed : Str)
    (hs : List Hunk) : List Str :=
  (overlayL notes foreign blamed hs).filterMap (fun x =>
    match x.2 with
    | .ai h _ => some h
    | _ => none)

/-! ### `populate_ai_human_authors`: hunks split where the AI-human author changes -/

def humanAuthorOf (notes : List (Str × Note)) (foreign : List (Str × Prompt)) (blamed : Str)
    (bl : BlameLine) : Option Str :=
  match lineLabel notes foreign blamed bl with
  | .ai _ p => p.humanAuthor
  | _ => none

/-- lengths of the maximal runs of equal adjacent elements -/
def runLens {α : Type} [DecidableEq α] : List α → List Nat
  | [] => []
  | [_] => [1]
  | a :: b :: t =>
    match runLens (b :: t) with
    | [] => [1]
    | n :: ns => if a = b then (n + 1) :: ns else 1 :: n :: ns

/-- sub-hunks at offsets `off, off+n₁, …`; the last one ends where the hunk ends -/
def subHunks (h : Hunk) : Nat → List Nat → List Hunk
  | _, [] => []
  | off, [_] => [{ h with start := h.start + off, origStart := h.origStart + off }]
  | off, n :: m :: ns =>
    { h with start := h.start + off, stop := h.start + (off + n) - 1,
             origStart := h.origStart + off, origStop := h.origStart + (off + n) - 1 } ::
      subHunks h (off + n) (m :: ns)

def splitHunk (notes : List (Str × Note)) (foreign : List (Str × Prompt)) (blamed : Str)
    (h : Hunk) : List Hunk :=
  match lookup h.commit notes with
  | none => [h]
  | some _ => subHunks h 0 (runLens ((hunkLines h).map (humanAuthorOf notes foreign blamed)))

def splitHunks (o : Opts) (notes : List (Str × Note)) (foreign : List (Str × Prompt))
    (blamed : Str) : List Hunk → List Hunk
  | [] => []
  | h :: hs =>
    (if o.splitHunks then splitHunk notes foreign blamed h else [h]) ++
      splitHunks o notes foreign blamed hs

/-- `run_blame_analysis_pipeline` on git's output text lines: parse, split, overlay. -/
def analysis (o : Opts) (notes : List (Str × Note)) (foreign : List (Str × Prompt)) (blamed : Str)
    (lines : List Str) : Except PErr (List (BlameLine × Label)) :=
  match parsePorcelain lines with
  | .error e => .error e
  | .ok hs => .ok (overlayL notes foreign blamed (splitHunks o notes foreign blamed hs))

/-! ## 5. Output formats reduced to line → (commit, author) -/

/-- `HashMap::get` on the insert sequence: the last insert for the key wins -/
def lookupLast (k : Nat) : List (Nat × Str) → Option Str
  | [] => none
  | (k', v) :: rest =>
    match lookupLast k rest with
    | some w => some w
    | none => if k' = k then some v else none

/-- default format: one row per line of the (unsplit) hunks: line, commit, boundary, author
    (`line_authors.get(&line).unwrap_or(&hunk.original_author)`). -/
def defaultRows (la : List (Nat × Str)) (hs : List Hunk) : List (Nat × Str × Bool × Str) :=
  (hunksLines hs).map (fun bl => (bl.final, bl.commit, bl.boundary, (lookupLast bl.final la).getD bl.author))

/-- `--porcelain` / `--line-porcelain`: every line gets a header naming its commit -/
def porcelainRows (hs : List Hunk) : List (Nat × Str) :=
  (hunksLines hs).map (fun bl => (bl.final, bl.commit))

/-- `--incremental`: one header per hunk `<sha> <start> <start> <count>` -/
def incrementalRows (hs : List Hunk) : List (Nat × Nat × Str) :=
  hs.map (fun h => (h.start, h.stop - h.start + 1, h.commit))

def expandIncremental : List (Nat × Nat × Str) → List (Nat × Str)
  | [] => []
  | (s, n, c) :: rest => ((List.range' s n).map (fun l => (l, c))) ++ expandIncremental rest

/-- `--json`: AI lines (the rows of `line_prompt_hashes`) grouped into maximal runs of
    consecutive lines with the same prompt id; input sorted by line. -/
def jsonRuns : List (Nat × Str) → List (Nat × Nat × Str)
  | [] => []
  | (l, h) :: rest =>
    match jsonRuns rest with
    | [] => [(l, l, h)]
    | (s, e, h') :: more =>
      if h' = h ∧ s = l + 1 then (l, e, h) :: more else (l, l, h) :: (s, e, h') :: more

def expandRuns : List (Nat × Nat × Str) → List (Nat × Str)
  | [] => []
  | (s, e, h) :: rest => ((List.range' s (e + 1 - s)).map (fun l => (l, h))) ++ expandRuns rest

def jsonKey (s e : Nat) : Str := if s = e then natToStr s else natToStr s ++ '-' :: natToStr e

/-- the `lines` object of the JSON output (before `BTreeMap` ordering); `ai` = the rows of
    `line_prompt_hashes` sorted by line -/
def jsonLines (ai : List (Nat × Str)) : List (Str × Str) :=
  (jsonRuns ai).map (fun r => (jsonKey r.1 r.2.1, r.2.2))

/-- author column of the default format: under `--show-prompt` a line with a row in
    `line_prompt_hashes` whose hash has a prompt record shows `tool [hash7]`; every other line
    shows its `line_authors` string (`-e` / `-s` not modelled). -/
def displayAuthor (showPrompt : Bool) (ai : Option (Str × Prompt)) (author : Str) : Str :=
  match showPrompt, ai with
  | true, some (h, p) => p.tool ++ ' ' :: '[' :: (h.take 7 ++ [']'])
  | _, _ => author

/-- the `ai` argument of `displayAuthor` for a line: `line_prompt_hashes.get(line)` then
    `prompt_records.get(hash)` -/
def aiPromptOf (ai : List (Nat × Str)) (prompts : List (Str × Prompt)) (line : Nat) :
    Option (Str × Prompt) :=
  match lookupLast line ai with
  | none => none
  | some h => (lookup h prompts).map (fun p => (h, p))

/-- `prompt_records` (hash → record) as inserted by the overlay -/
def promptRecords (out : List (BlameLine × Label)) : List (Str × Prompt) :=
  out.filterMap (fun x =>
    match x.2 with
    | .ai h p => some (h, p)
    | _ => none)

/-- default format under `--show-prompt`: line → author column -/
def showPromptRows (o : Opts) (out : List (BlameLine × Label)) (hs : List Hunk) : List (Nat × Str) :=
  let la := out.map (fun x => (x.1.final, labelStr o x.1.author x.2))
  (hunksLines hs).map (fun bl =>
    (bl.final, displayAuthor true (aiPromptOf (aiRows out) (promptRecords out) bl.final)
      ((lookupLast bl.final la).getD bl.author)))

end GitAi.BlameOverlay
