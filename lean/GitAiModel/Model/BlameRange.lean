/-
  Model/BlameRange.lean — the `-L` argument of `git-ai blame`.

  Mirrors /repo/src/commands/blame.rs
    parse_line_range        (`parseLineRange`)
    prepare_blame_request   (`resolveRanges`: open ends, default range, validation)
  Reference semantics of git (git-blame(1) "-L <start>,<end>", line-range.c parse_loc; validated
  end to end against `git blame`, not proved about git): `LSpec.gitLines`.
-/
import GitAiModel.Base.Text
namespace GitAi.BlameRange
open GitAi

/-- `LINE_RANGE_OPEN_END` (`u32::MAX`): an end that was not given -/
def openEnd : Nat := 4294967295

/-- the two numbers of a relative end `<start>,+<n>` / `<start>,-<n>`: both must parse, n > 0 -/
def startCount (a cnt : Str) : Option (Nat × Nat) :=
  match parseU32 a, parseU32 cnt with
  | some st, some n => if n = 0 then none else some (st, n)
  | _, _ => none

/-- `parse_line_range`. -/
def parseLineRange (s : Str) : Option (Nat × Nat) :=
  match splitFirst ',' s with
  | some (a, b) =>
    if b.isEmpty then (parseU32 a).map (fun st => (st, openEnd))
    else if a.isEmpty then (parseU32 b).map (fun e => (1, e))
    else
      match b with
      | '+' :: cnt =>
        match startCount a cnt with
        | some (st, n) => if st + (n - 1) < 4294967296 then some (st, st + (n - 1)) else none
        | none => none
      | '-' :: cnt =>
        match startCount a cnt with
        | some (st, n) => some (max (st - (n - 1)) 1, st)
        | none => none
      | _ =>
        match parseU32 a, parseU32 b with
        | some st, some e => some (st, e)
        | _, _ => none
  | none => (parseU32 s).map (fun l => (l, openEnd))

def rangeBad (total : Nat) (r : Nat × Nat) : Bool :=
  r.1 == 0 || r.2 == 0 || decide (r.1 > r.2) || decide (r.2 > total)

/-- `prepare_blame_request`: no `-L` = the whole file; an open end becomes the last line; every
    range must lie inside the file (`Invalid line range` otherwise). -/
def resolveRanges (total : Nat) (rs : List (Nat × Nat)) : Option (List (Nat × Nat)) :=
  let rs' := if rs.isEmpty then [(1, total)]
             else rs.map (fun r => (r.1, if r.2 = openEnd then total else r.2))
  if rs'.any (rangeBad total) then none else some rs'

/-- one `-L` argument end to end: parse, then resolve against a file of `total` lines -/
def lArg (total : Nat) (s : Str) : Option (Nat × Nat) :=
  match parseLineRange s with
  | none => none
  | some r =>
    match resolveRanges total [r] with
    | some [x] => some x
    | _ => none

/-! ## git's reading of the numeric `-L` forms (reference) -/

inductive LSpec where
  | closed (a b : Nat)       -- a,b
  | plus (a n : Nat)         -- a,+n   n lines starting at a
  | minus (a n : Nat)        -- a,-n   n lines ending at a
  | openEnd (a : Nat)        -- a,     a to the end of the file
  | openStart (b : Nat)      -- ,b     line 1 to b
  | single (a : Nat)         -- a      a to the end of the file
  deriving Repr, DecidableEq

def LSpec.render : LSpec → Str
  | .closed a b => natToStr a ++ ',' :: natToStr b
  | .plus a n => natToStr a ++ ',' :: '+' :: natToStr n
  | .minus a n => natToStr a ++ ',' :: '-' :: natToStr n
  | .openEnd a => natToStr a ++ [',']
  | .openStart b => ',' :: natToStr b
  | .single a => natToStr a

/-- first and last line git blame shows for the form, file of `total` lines -/
def LSpec.gitLines (total : Nat) : LSpec → Nat × Nat
  | .closed a b => (a, b)
  | .plus a n => (a, a + n - 1)
  | .minus a n => (max (a + 1 - n) 1, a)
  | .openEnd a => (a, total)
  | .openStart b => (1, b)
  | .single a => (a, total)

/-- the numbers written in the form (all must fit `u32`; counts are positive) -/
def LSpec.wf : LSpec → Prop
  | .closed a b => a < 4294967296 ∧ b < 4294967295
  | .plus a n => a < 4294967296 ∧ n < 4294967296 ∧ 0 < n
  | .minus a n => a < 4294967296 ∧ n < 4294967296 ∧ 0 < n
  | .openEnd a => a < 4294967296
  | .openStart b => b < 4294967295
  | .single a => a < 4294967296

end GitAi.BlameRange
