/-
  Model/Cli.lean — the proxy's git command-line parser and its reconstruction.

  Mirrors /repo/src/git/cli_parser.rs:
    parse_git_cli_args (with its local fns is_eq_form, classify, take_valueish, the
    pre-command meta buffer and the help/version rewrite block),
    ParsedGitInvocation::to_invocation_vec, is_flag_with_value.
  Option tables come from Extracted/CliTables.lean (regenerated from the Rust source).

  Indices: the Rust loop variable `i` is represented by the suffix `args[i..]`; every
  `args[i]` under an `i < args.len()` guard is a cons-pattern on that suffix.  The single
  index that is not syntactically dominated by its guard inside the same function
  (`all[i + 1]` in take_valueish, guarded by `i + 1 < all.len()`) is modelled as a guarded
  operation: reaching it with no next token sets `Scan.panicked`.
  Strings are `List Char`; the byte-length test of is_eq_form is equivalent to the char-level
  test below because the compared prefix and the `=` are ASCII (see `isEqForm`).
-/
import GitAiModel.Extracted.CliTables
namespace GitAi.Cli
open GitAi CliTables

/-- `str::starts_with(&str)`. -/
def startsWith : Str → Str → Bool
  | [], _ => true
  | _ :: _, [] => false
  | p :: ps, c :: cs => if p = c then startsWith ps cs else false

/-- `tok.starts_with('-')`. -/
def startsWithDash : Str → Bool
  | '-' :: _ => true
  | _ => false

/-- `s.strip_prefix(p)`. -/
def dropPrefix? : Str → Str → Option Str
  | [], s => some s
  | _ :: _, [] => none
  | p :: ps, c :: cs => if p = c then dropPrefix? ps cs else none

/-- `is_eq_form(tok, long)`:
    `tok.len() > long.len() + 1 && tok.starts_with(long) && tok.as_bytes()[long.len()] == b'='`
    i.e. `tok = long ++ "=" ++ v` with `v` non-empty (the byte index is guarded by the length
    test; `long` and `=` are ASCII so byte and char positions coincide on the prefix). -/
def isEqForm (tok long : Str) : Bool :=
  match dropPrefix? long tok with
  | some ('=' :: _ :: _) => true
  | _ => false

def dashDash : Str := ['-', '-']

/-- one statement of `classify`: `some k` when it returns. -/
def ruleMatch (tok : Str) : Rule → Option Kind
  | .exact toks k => if toks.contains tok then some k else none
  | .eqLong l k => if tok = l ∨ isEqForm tok l = true then some k else none
  | .pref p k => if tok = p ∨ startsWith p tok = true then some k else none
  | .dash k => if startsWithDash tok then some k else none

/-- `classify` over a rule list: the first statement that returns decides. -/
def classifyWith (dflt : Kind) : List Rule → Str → Kind
  | [], _ => dflt
  | r :: rs, tok =>
    match ruleMatch tok r with
    | some k => k
    | none => classifyWith dflt rs tok

/-- `classify`. -/
def classify (tok : Str) : Kind := classifyWith classifyDefault classifyRules tok

/-- the `let key = if tok.starts_with("-C") {"-C"} else if … else {""}` chain. -/
def keyOfWith : List Str → Str → Str
  | [], _ => []
  | p :: ps, tok => if startsWith p tok then p else keyOfWith ps tok

def keyOf (tok : Str) : Str := keyOfWith keyChain tok

/-- `tok.find('=')` (position of the first `=`). -/
def findChar (c : Char) : Str → Option Nat
  | [] => none
  | x :: xs => if x = c then some 0 else (findChar c xs).map (· + 1)

/-- `take_valueish`: `true` when two tokens are consumed (the option and the next token),
    `false` when one is.  `hasNext` is `i + 1 < all.len()`. -/
def takesNext (tok key : Str) (hasNext : Bool) : Bool :=
  if (match findChar '=' tok with
      | some eq => decide (eq > 0) && startsWith dashDash tok
      | none => false) then false
  else if stickyKeys.any (fun k => decide (key = k) && decide (tok ≠ k) && startsWith k tok) then false
  else hasNext

/-- state after the first-pass `while` loop. -/
structure Scan where
  globals : List Str
  /-- `pre_command_meta` -/
  pmeta : List Str
  sawEoo : Bool
  /-- `args[i..]` -/
  rest : List Str
  /-- an `all[i + 1]` reached without a next token -/
  panicked : Bool := false
  deriving Repr, DecidableEq, Inhabited

/-- the first-pass loop of `parse_git_cli_args`. -/
def scan : List Str → List Str → List Str → Scan
  | [], g, m => ⟨g, m, false, [], false⟩
  | tok :: rest, g, m =>
    if tok = dashDash then ⟨g, m, true, rest, false⟩
    else match classify tok with
      | .globalNoValue => scan rest (g ++ [tok]) m
      | .globalTakesValue =>
        if takesNext tok (keyOf tok) (!rest.isEmpty) then
          match rest with
          | v :: rest' => scan rest' (g ++ [tok, v]) m
          | [] => ⟨g, m, false, [], true⟩
        else scan rest (g ++ [tok]) m
      | .metaNoValue => scan rest g (m ++ [tok])
      | .unknown => ⟨g, m, false, tok :: rest, false⟩

/-- `ParsedGitInvocation`. -/
structure Parsed where
  globalArgs : List Str
  command : Option Str
  commandArgs : List Str
  sawEndOfOpts : Bool
  isHelp : Bool
  deriving Repr, DecidableEq, Inhabited

def isHelpTok (t : Str) : Bool := helpTokens.contains t
def isVersionTok (t : Str) : Bool := versionTokens.contains t

def helpWord : Str := ['h', 'e', 'l', 'p']
def versionWord : Str := ['v', 'e', 'r', 's', 'i', 'o', 'n']
def dashDashHelp : Str := ['-', '-', 'h', 'e', 'l', 'p']

/-- the `dropped_one_…` loops: skip the first element satisfying `p`. -/
def dropFirst (p : Str → Bool) : List Str → List Str
  | [] => []
  | t :: ts => if p t then ts else t :: dropFirst p ts

/-- "If we haven't decided the command yet": command and the new `args[i..]`. -/
def decideCommand (sawEoo : Bool) : List Str → Option Str × List Str
  | [] => (none, [])
  | t :: r =>
    if sawEoo then (some t, r)
    else if !startsWithDash t then (some t, r)
    else (none, t :: r)

/-- the "post-parse rewrite for help/version" block: new `(command, command_args)`. -/
def rewrite (pmeta : List Str) (cmd : Option Str) (cargs : List Str) : Option Str × List Str :=
  let preHelp := pmeta.any isHelpTok
  let preVersion := pmeta.any isVersionTok
  match cmd with
  | some c =>
    if preHelp then (some helpWord, c :: cargs)
    else if preVersion then (some versionWord, dropFirst isVersionTok pmeta)
    else (some c, cargs)
  | none =>
    if preHelp then
      (some helpWord,
        (dropFirst isHelpTok pmeta).filter (fun t => !isVersionTok t) ++
          cargs.filter (fun t => !(isHelpTok t || isVersionTok t)))
    else if preVersion then
      (some versionWord, (dropFirst isVersionTok cargs).filter startsWithDash)
    else (none, cargs)

/-- `parse_git_cli_args`. -/
def parse (args : List Str) : Parsed :=
  let s := scan args [] []
  let (cmd, rest) := decideCommand s.sawEoo s.rest
  let cargs := match cmd with
    | some _ => rest
    | none => s.pmeta ++ rest
  let (cmd', cargs') := rewrite s.pmeta cmd cargs
  let isHelp := decide (cmd' = some helpWord) || decide (cmd' = some dashDashHelp) ||
    s.pmeta.any isHelpTok || cargs'.any isHelpTok
  ⟨s.globals, cmd', cargs', s.sawEoo, isHelp⟩

/-- `ParsedGitInvocation::to_invocation_vec`. -/
def toVec (p : Parsed) : List Str :=
  p.globalArgs ++ (if p.sawEndOfOpts then [dashDash] else []) ++ p.command.toList ++ p.commandArgs

/-- `is_flag_with_value`. -/
def isFlagWithValue (flag : Str) : Bool := flagsWithValue.contains flag

/-- the meta buffer left by the first pass (empty iff no meta token was met before the
    command position). -/
def preMeta (args : List Str) : List Str := (scan args [] []).pmeta

end GitAi.Cli
