/-
  Model/CliTypes.lean — fixed types shared by the extracted tables (Extracted/CliTables.lean)
  and the parser model (Model/Cli.lean).  Mirrors the local items of
  /repo/src/git/cli_parser.rs:parse_git_cli_args.
-/
import GitAiModel.Base.Text
namespace GitAi.Cli
open GitAi

/-- `enum Kind` local to `parse_git_cli_args`. -/
inductive Kind where
  | globalNoValue
  | globalTakesValue
  | metaNoValue
  | unknown
  deriving Repr, DecidableEq, Inhabited

/-- one statement of `classify` (shape recognised by the extractor). -/
inductive Rule where
  /-- `match tok { "a" | "b" => return k, .. }` arm / `if tok == "a" { return k }` -/
  | exact (toks : List Str) (k : Kind)
  /-- `if tok == long || is_eq_form(tok, long) { return k }` -/
  | eqLong (long : Str) (k : Kind)
  /-- `if tok == p || tok.starts_with(p) { return k }` -/
  | pref (p : Str) (k : Kind)
  /-- `if tok.starts_with('-') { return k }` -/
  | dash (k : Kind)
  deriving Repr, DecidableEq, Inhabited

end GitAi.Cli
