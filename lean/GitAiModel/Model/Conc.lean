/-
  Model/Conc.lean — L2 protocol model for property C11: `k` git-ai processes working on the
  shared state of one repository (all linked worktrees included).

  Shared state = *cells* addressed by the path of the file (or ref) that holds them:
    * a checkpoints journal   `<ai dir>/working_logs/<base sha>/checkpoints.jsonl`
    * a rewrite log           `<ai dir>/rewrite_log`
    * the notes ref           `<common dir>/refs/notes/ai`
  Every update of a cell is a read-modify-write done by one process in several *atomic steps*
  (the granularity of the sync points compiled into /repo under feature `verif-hooks`):

    checkpoint   commands/checkpoint.rs:run → git/repo_storage.rs:append_checkpoint
        snap   `working_log.read_all_checkpoints()`   the entries of the new checkpoint are computed
                                                      from this snapshot (latest entry per file)
        read   `self.read_all_checkpoints()`          inside append_checkpoint
        write  `write_all_checkpoints(prune(read ++ [new]))`   whole file replaced
    rewrite event   git/rewrite_log.rs:append_event_to_file
        read   `read_to_string` + `deserialize_events_from_jsonl` (truncates to MAX_EVENTS)
        write  `fs::write([new] ++ existing, truncated to MAX_EVENTS)`   whole file replaced
    note of one commit   git/refs.rs:notes_add = `git notes --ref=ai add -f`
        read   git reads the notes tree of the current tip
        write  git writes tree + commit and sets the ref WITHOUT comparing the old value
               (builtin/notes.c:commit_notes → update_ref(.., old = NULL, ..)): a blind write
    notes of several commits   git/refs.rs:notes_add_batch = rev-parse + fast-import `from <tip>`
        read   `git rev-parse --verify refs/notes/ai`
        write  fast-import refuses to move the ref when it no longer is at `<tip>` (compare and
               swap; the failure is not retried, the notes of that call are dropped)

                 the real step sequence of the batch writer is
                   acq    `lock_notes_ref`                      (position = a PARAMETER, see `LockTable`)
                   read   `git rev-parse --verify refs/notes/ai`
                   build  the fast-import script `from <tip>` is assembled (local; no shared state)
                   write  `git fast-import`: moves the ref if it still is at `<tip>`, else refuses
                          + the lock guard is dropped when the function returns (`finish`)

  `Mode` selects the locking discipline:
    none    no mutual exclusion (git-ai before the C11 repair)
    append  the journal lock is held from `read` to `write` only — kept to show that this is not
            enough for checkpoints (their content depends on `snap`)
    full    an exclusive advisory lock per cell is held from before the first read (`snap` for
            checkpoints) to after the write (git-ai after the C11 repair)
    tbl t   journals and rewrite logs as `full`; the two kinds of notes writer take the notes lock
            where the table `t` says (`LockPos`): before the read of the tip, between the read and
            the write (check-then-act), or never. `t` is computed (`tableOf`) from the ORDER of the
            lock / read / write statements of every notes-writing function of src/git/refs.rs,
            which extract/notes_lock_order.py regenerates into Extracted/NotesLockOrder.lean.
  A step of a process that needs a lock held by another process changes nothing (the process
  polls). Schedules are lists of process ids.

  Ghost fields (`done`, `acqd`) record completions and lock acquisitions; no transition reads them.
-/
namespace GitAi.Conc

abbrev Str := List Char
abbrev Path := List Str
abbrev Pid := Nat

/-! ### 1. Where the cells live (git/repository.rs:worktree_storage_ai_dir, repo_storage.rs) -/

def sAi : Str := ['a', 'i']
def sWorktrees : Str := ['w', 'o', 'r', 'k', 't', 'r', 'e', 'e', 's']
def sWorkingLogs : Str := ['w', 'o', 'r', 'k', 'i', 'n', 'g', '_', 'l', 'o', 'g', 's']
def sRewriteLog : Str := ['r', 'e', 'w', 'r', 'i', 't', 'e', '_', 'l', 'o', 'g']
def sCheckpoints : Str := ['c', 'h', 'e', 'c', 'k', 'p', 'o', 'i', 'n', 't', 's', '.', 'j', 's', 'o', 'n', 'l']
def sDefault : Str := ['d', 'e', 'f', 'a', 'u', 'l', 't']
def sRefs : Str := ['r', 'e', 'f', 's']
def sNotes : Str := ['n', 'o', 't', 'e', 's']

/-- `Path::strip_prefix` on component lists -/
def stripPrefix : Path → Path → Option Path
  | [], q => some q
  | _ :: _, [] => none
  | a :: p, b :: q => if a = b then stripPrefix p q else none

/-- `worktree_storage_ai_dir(git_dir, git_common_dir)` on canonical paths (component lists):
      git_dir = common dir                         → `<common>/ai`                       (main worktree)
      git_dir = `<common>/worktrees/<rel>`, rel≠ε  → `<common>/ai/worktrees/<rel>`       (linked worktree)
      otherwise                                    → `<common>/ai/worktrees/<leaf name of git_dir | "default">` -/
def aiDir (gitDir common : Path) : Path :=
  if gitDir = common then common ++ [sAi]
  else
    let fallback : Path :=
      common ++ [sAi, sWorktrees,
        match gitDir.getLast? with
        | some n => if n = [] then sDefault else n
        | none => sDefault]
    match stripPrefix (common ++ [sWorktrees]) gitDir with
    | some rel => if rel = [] then fallback else common ++ [sAi, sWorktrees] ++ rel
    | none => fallback

/-- `RepoStorage::working_log_for_base_commit(sha).dir.join("checkpoints.jsonl")` -/
def checkpointsFile (ai : Path) (sha : Str) : Path := ai ++ [sWorkingLogs, sha, sCheckpoints]
/-- `RepoStorage.rewrite_log` -/
def rewriteLogFile (ai : Path) : Path := ai ++ [sRewriteLog]
/-- `refs/notes/ai` lives in the common directory: one ref for all worktrees -/
def notesRef (common : Path) : Path := common ++ [sRefs, sNotes, sAi]

/-- the git dirs git itself creates: the common dir, or `<common>/worktrees/<name…>` -/
def Regular (common gitDir : Path) : Prop :=
  gitDir = common ∨ ∃ rel, rel ≠ [] ∧ gitDir = common ++ [sWorktrees] ++ rel

/-! ### 2. Cell contents -/

/-- one file of a checkpoint (`WorkingLogEntry`): `lines` pairs every line of the snapshot
    (`blob_sha`; lines are identified by a content id) with the session credited for it
    (`line_attributions`; `none` = nobody / a person); `fine` = the char-level `attributions`
    are still there (`prune_old_char_attributions` clears them on all but the newest entry of
    a file). -/
structure Entry where
  file : Nat
  lines : List (Nat × Option Nat)
  fine : Bool
  deriving Repr, DecidableEq, Inhabited

/-- one line of `checkpoints.jsonl`; `id` is a ghost identity of the report. -/
structure Item where
  id : Nat
  author : Nat
  entries : List Entry
  deriving Repr, DecidableEq, Inhabited

inductive Val where
  | journal (items : List Item)                  -- checkpoints.jsonl, oldest first
  | rlog (events : List Nat)                     -- rewrite_log, newest first
  | notes (tip : Nat) (map : List (Nat × Nat))   -- refs/notes/ai: tip commit id, commit ↦ note
  deriving Repr, DecidableEq

instance : Inhabited Val := ⟨.journal []⟩

def Val.items : Val → List Item
  | .journal l => l
  | _ => []
def Val.events : Val → List Nat
  | .rlog l => l
  | _ => []
def Val.tip : Val → Nat
  | .notes t _ => t
  | _ => 0
def Val.map : Val → List (Nat × Nat)
  | .notes _ m => m
  | _ => []

/-- rewrite_log.rs:MAX_EVENTS -/
def maxEvents : Nat := 200

/-! ### 3. What one update computes -/

/-- checkpoint.rs:build_previous_file_state_maps — the latest entry of `f` (later ones win) -/
def latestEntry (j : List Item) (f : Nat) : Option Entry :=
  j.foldl (fun acc it => it.entries.foldl (fun a e => if e.file = f then some e else a) acc) none

def lookupLine : List (Nat × Option Nat) → Nat → Option (Option Nat)
  | [], _ => none
  | (l', c) :: rest, l => if l = l' then some c else lookupLine rest l

/-- who is credited for line `l` of the new snapshot: a line already in the previous snapshot
    keeps its credit (which is gone if the previous entry lost its char-level attributions),
    every other line is the reporter's -/
def credit (prev : Option Entry) (author l : Nat) : Option Nat :=
  match prev with
  | none => some author
  | some e =>
    match lookupLine e.lines l with
    | some c => if e.fine then c else none
    | none => some author

/-- checkpoint.rs:get_checkpoint_entry_for_file for a file that is empty/absent at HEAD:
    no entry when the content equals the previous snapshot (or is empty and never reported). -/
def mkEntry (j : List Item) (author : Nat) (fc : Nat × List Nat) : Option Entry :=
  let prev := latestEntry j fc.1
  let unchanged : Bool := match prev with
    | some e => e.lines.map (·.1) == fc.2
    | none => fc.2.isEmpty
  if unchanged then none
  else some ⟨fc.1, fc.2.map (fun l => (l, credit prev author l)), true⟩

def mkItem (j : List Item) (id author : Nat) (edits : List (Nat × List Nat)) : Item :=
  ⟨id, author, edits.filterMap (mkEntry j author)⟩

/-- index of the newest item with an entry for `f` -/
def newestIdx (j : List Item) (f : Nat) : Option Nat :=
  (j.zipIdx.foldl (fun acc (p : Item × Nat) => if p.1.entries.any (·.file == f) then some p.2 else acc) none)

/-- repo_storage.rs:prune_old_char_attributions -/
def prune (j : List Item) : List Item :=
  j.zipIdx.map fun (p : Item × Nat) =>
    { p.1 with entries := p.1.entries.map fun e =>
        if newestIdx j e.file = some p.2 then e else { e with fine := false } }

/-- `git notes add -f`: set (overwrite) the note of `c` -/
def put (m : List (Nat × Nat)) (c n : Nat) : List (Nat × Nat) :=
  (c, n) :: m.filter (fun p => !(p.1 == c))

def putAll (m : List (Nat × Nat)) : List (Nat × Nat) → List (Nat × Nat)
  | [] => m
  | (c, n) :: rest => putAll (put m c n) rest

def get : List (Nat × Nat) → Nat → Option Nat
  | [], _ => none
  | (c', n) :: m, c => if c = c' then some n else get m c

/-- the four kinds of update -/
inductive Op where
  /-- `git-ai checkpoint`: session `author` reports `edits` = (file, content it sees) -/
  | ckpt (key : Path) (id author : Nat) (edits : List (Nat × List Nat))
  /-- `append_event_to_file` -/
  | rw (key : Path) (ev : Nat)
  /-- `notes_add`: `id` names the notes commit it creates -/
  | noteAdd (key : Path) (id commit note : Nat)
  /-- `notes_add_batch` -/
  | noteBatch (key : Path) (id : Nat) (entries : List (Nat × Nat))
  deriving Repr, DecidableEq, Inhabited

def Op.key : Op → Path
  | .ckpt k .. | .rw k _ | .noteAdd k .. | .noteBatch k .. => k

def Op.isCkpt : Op → Bool
  | .ckpt .. => true
  | _ => false

/-- "Skip adding checkpoint if there are no changes": nothing is appended (and
    `append_checkpoint` is not even called) when no file produced an entry. -/
def Op.noEffect (op : Op) (snap : Val) : Bool :=
  match op with
  | .ckpt _ id a edits => (mkItem snap.items id a edits).entries.isEmpty
  | _ => false

/-- the value written by the `write` step, from the process's snapshot `snap`, its local copy
    `loc` (the `read` step) and the cell's current value `cur` (only the compare-and-swap of
    `noteBatch` looks at it). -/
def Op.write (op : Op) (snap loc cur : Val) : Val :=
  match op with
  | .ckpt _ id a edits => .journal (prune (loc.items ++ [mkItem snap.items id a edits]))
  | .rw _ ev => .rlog ((ev :: loc.events.take maxEvents).take maxEvents)
  | .noteAdd _ id c n => .notes id (put loc.map c n)
  | .noteBatch _ id es => if cur.tip = loc.tip then .notes id (putAll loc.map es) else cur

/-- the update run alone (every read sees the current value) -/
def Op.seq (op : Op) (v : Val) : Val :=
  if op.noEffect v then v else op.write v v v

/-- updates run one after the other -/
def seqRun (v : Val) (l : List (Pid × Op)) : Val := l.foldl (fun v x => x.2.seq v) v

/-! ### 4. Processes and steps -/

/-- where a notes writer takes the notes lock, relative to its read of the tip and its write -/
inductive LockPos where
  /-- lock < read < write: the whole read-modify-write is inside the critical section -/
  | beforeRead
  /-- read < lock < write: only the write is serialised (check-then-act) -/
  | beforeWrite
  /-- no lock before the write (or a guard that is dropped at once) -/
  | never
  deriving Repr, DecidableEq, Inhabited

/-- lock position of the two kinds of notes writer: `add` = the blind writers (`git notes add`,
    `git notes merge`: set the ref without comparing), `batch` = the compare-and-swap writers
    (`rev-parse` + `fast-import from <tip>`) -/
structure LockTable where
  add : LockPos
  batch : LockPos
  deriving Repr, DecidableEq, Inhabited

def LockTable.ok (t : LockTable) : Prop := t.add = .beforeRead ∧ t.batch = .beforeRead

instance (t : LockTable) : Decidable t.ok := by unfold LockTable.ok; exact inferInstance

inductive Mode where
  | none | append | full
  | tbl (t : LockTable)
  deriving Repr, DecidableEq

inductive Phase where
  | acq | snap | read | build | write
  deriving Repr, DecidableEq, Inhabited

def Op.isBatch : Op → Bool
  | .noteBatch .. => true
  | _ => false

/-- where `op` takes its lock under the table -/
def LockTable.pos (t : LockTable) : Op → LockPos
  | .noteAdd .. => t.add
  | .noteBatch .. => t.batch
  | _ => .beforeRead

/-- the discipline takes the lock of `op` only after `op` has read (and built) -/
def Mode.lockLate (m : Mode) (op : Op) : Bool :=
  match m with
  | .tbl t => t.pos op == .beforeWrite
  | _ => false

/-- the lock of a checkpoint is taken before its snapshot -/
def Mode.ckptEarly : Mode → Bool
  | .full | .tbl _ => true
  | _ => false

def firstPh (m : Mode) (op : Op) : Phase :=
  match m with
  | .full => .acq
  | .none => if op.isCkpt then .snap else .read
  | .append => if op.isCkpt then .snap else .acq
  | .tbl t => match t.pos op with
    | .beforeRead => .acq
    | _ => .read

/-- what follows the read of a non-checkpoint update once its lock (if any) is settled -/
def afterBuild (m : Mode) (op : Op) : Phase := if m.lockLate op then .acq else .write

/-- the phase after `ph` (`write` is always the last one) -/
def nextPh (m : Mode) (op : Op) (ph : Phase) : Phase :=
  match ph with
  | .acq => if m.lockLate op then .write
            else if op.isCkpt && m.ckptEarly then .snap else .read
  | .snap => if m == .append then .acq else .read
  | .read => if op.isBatch then .build else afterBuild m op
  | .build => afterBuild m op
  | .write => .write

structure Proc where
  ops : List Op := []
  ph : Phase := .acq
  snap : Val := default
  loc : Val := default
  deriving Repr, Inhabited

structure State where
  cell : Path → Val
  lock : Path → Option Pid
  procs : Pid → Proc
  /-- ghost: completed updates per cell, in completion order -/
  done : Path → List (Pid × Op)
  /-- ghost: lock acquisitions per cell, in order -/
  acqd : Path → List (Pid × Op)

def upd {α β} [DecidableEq α] (f : α → β) (a : α) (b : β) : α → β := fun x => if x = a then b else f x

def startProc (m : Mode) (ops : List Op) (snap loc : Val) : Proc :=
  ⟨ops, match ops with | op :: _ => firstPh m op | [] => .acq, snap, loc⟩

def init (m : Mode) (c₀ : Path → Val) (P₀ : Pid → List Op) : State :=
  { cell := c₀, lock := fun _ => none, procs := fun p => startProc m (P₀ p) default default,
    done := fun _ => [], acqd := fun _ => [] }

/-- the current update of `p` is over: release its lock, record the completion, go to the next -/
def finish (m : Mode) (s : State) (p : Pid) (pr : Proc) (op : Op) (rest : List Op) (cell : Path → Val) : State :=
  { s with
    cell := cell
    lock := if s.lock op.key = some p then upd s.lock op.key none else s.lock
    procs := upd s.procs p (startProc m rest pr.snap pr.loc)
    done := upd s.done op.key (s.done op.key ++ [(p, op)]) }

/-- one atomic step of process `p` -/
def step (m : Mode) (s : State) (p : Pid) : State :=
  let pr := s.procs p
  match pr.ops with
  | [] => s
  | op :: rest =>
    let k := op.key
    match pr.ph with
    | .acq =>
      match s.lock k with
      | some _ => s
      | none =>
        { s with lock := upd s.lock k (some p), acqd := upd s.acqd k (s.acqd k ++ [(p, op)]),
                 procs := upd s.procs p { pr with ph := nextPh m op .acq } }
    | .snap =>
      let v := s.cell k
      if op.noEffect v then finish m s p pr op rest s.cell
      else { s with procs := upd s.procs p { pr with snap := v, ph := nextPh m op .snap } }
    | .read => { s with procs := upd s.procs p { pr with loc := s.cell k, ph := nextPh m op .read } }
    | .build => { s with procs := upd s.procs p { pr with ph := nextPh m op .build } }
    | .write => finish m s p pr op rest (upd s.cell k (op.write pr.snap pr.loc (s.cell k)))

def run (m : Mode) (s : State) (sched : List Pid) : State := sched.foldl (step m) s

def finished (s : State) : Prop := ∀ p, (s.procs p).ops = []

/-! ### 5. Observation of one step (for the driver and the end-to-end trace comparison) -/

/-- what the step of `p` in state `s` is going to do -/
def stepTag (s : State) (p : Pid) : Str :=
  let pr := s.procs p
  match pr.ops with
  | [] => ['i', 'd', 'l', 'e']
  | op :: _ =>
    match pr.ph with
    | .acq => match s.lock op.key with
      | some _ => ['b', 'l', 'o', 'c', 'k', 'e', 'd']
      | none => ['a', 'c', 'q']
    | .snap => if op.noEffect (s.cell op.key) then ['s', 'n', 'a', 'p', '-', 'n', 'o', 'o', 'p'] else ['s', 'n', 'a', 'p']
    | .read => ['r', 'e', 'a', 'd']
    | .build => ['b', 'u', 'i', 'l', 'd']
    | .write =>
      match op with
      | .noteBatch .. => if (s.cell op.key).tip = pr.loc.tip then ['w', 'r', 'i', 't', 'e'] else ['c', 'a', 's', '-', 'f', 'a', 'i', 'l']
      | _ => ['w', 'r', 'i', 't', 'e']

/-! ### 6. The lock order of the notes writers, as read off src/git/refs.rs

  extract/notes_lock_order.py lists every function that runs a git command which moves
  `refs/notes/ai`, with the ORDER of its lock / tip-read / ref-write statements
  (Extracted/NotesLockOrder.lean, regenerated on every C11 run). `tableOf` turns that list into the
  `LockTable` of the `tbl` discipline. -/

inductive Ev where
  /-- `let _guard = lock_notes_ref(repo);` -/
  | lock
  /-- the git command that reads the tip / the notes tree (`rev-parse --verify refs/notes/ai`, or
      the first half of `git notes add|merge`) -/
  | read
  /-- the git command that moves the ref (`fast-import`, or the second half of `git notes add|merge`) -/
  | write
  deriving Repr, DecidableEq

inductive WClass where
  /-- sets the ref without comparing (`git notes add -f`, `git notes merge`) -/
  | blind
  /-- compare-and-swap on the tip read earlier (`fast-import` with `from <tip>`), not retried -/
  | cas
  deriving Repr, DecidableEq

structure NotesWriter where
  name : Str
  cls : WClass
  /-- the statements of the function body, in source order -/
  events : List Ev
  /-- the guard is bound to a named variable that lives until the function returns (not `let _ =`,
      no explicit `drop`) -/
  held : Bool
  deriving Repr, DecidableEq

/-- index of the first `e` (the length when there is none) -/
def idxOf (e : Ev) : List Ev → Nat
  | [] => 0
  | x :: xs => if x = e then 0 else idxOf e xs + 1

/-- the obligation on one writer: lock < read < write, all three present, guard held to the end -/
def NotesWriter.lockReadWrite (w : NotesWriter) : Bool :=
  w.held && decide (idxOf .lock w.events < idxOf .read w.events) &&
  decide (idxOf .read w.events < idxOf .write w.events) &&
  decide (idxOf .write w.events < w.events.length)

def NotesWriter.pos (w : NotesWriter) : LockPos :=
  let l := idxOf .lock w.events
  let r := idxOf .read w.events
  let wr := idxOf .write w.events
  if !w.held || decide (w.events.length ≤ l) then .never
  else if decide (l < r) && decide (l < wr) then .beforeRead
  else if decide (l < wr) then .beforeWrite
  else .never

/-- the weaker of two positions -/
def LockPos.meet : LockPos → LockPos → LockPos
  | .beforeRead, x => x
  | x, .beforeRead => x
  | .never, _ => .never
  | _, .never => .never
  | .beforeWrite, .beforeWrite => .beforeWrite

def classPos (ws : List NotesWriter) (c : WClass) : LockPos :=
  (ws.filter (fun w => w.cls == c)).foldl (fun a w => a.meet w.pos) .beforeRead

def tableOf (ws : List NotesWriter) : LockTable := ⟨classPos ws .blind, classPos ws .cas⟩

end GitAi.Conc
