/-
  Model/DiffParse.lean — parsing `git diff -U0` output into added line numbers.

  Mirrors /repo/src/git/repository.rs: parse_hunk_ranges, parse_hunk_header, HunkBody,
  parse_new_file_path_from_plus_header_line, normalize_diff_path_token,
  parse_diff_added_lines, parse_diff_added_lines_with_insertions.
  Input is the list of lines (`str::lines` of the diff text, see Base/Text.rustLines).
  `unescape` (utils.rs:unescape_git_path) is a parameter; the driver instantiates it with
  `unescapeAscii` (escapes below 0x80 only; the full function is modelled for C12).
-/
import GitAiModel.Base.Text
namespace GitAi.DiffParse
open GitAi

/-- Rust `str::split("@@")`. -/
def splitAtAt : Str → List Str
  | [] => [[]]
  | '@' :: '@' :: rest => [] :: splitAtAt rest
  | c :: rest =>
    match splitAtAt rest with
    | [] => [[c]]
    | p :: ps => (c :: p) :: ps

def dropLeading (p : Char → Bool) : Str → Str
  | [] => []
  | c :: cs => if p c then dropLeading p cs else c :: cs

/-- Rust `str::trim`. -/
def trim (s : Str) : Str := trimEnd (dropLeading isWhitespace s)

/-- split at every char satisfying `p` (pieces may be empty) -/
def splitBy (p : Char → Bool) : Str → List Str
  | [] => [[]]
  | c :: cs =>
    if p c then [] :: splitBy p cs
    else match splitBy p cs with
      | [] => [[c]]
      | l :: ls => (c :: l) :: ls

/-- Rust `str::split_whitespace`: split at Unicode whitespace, empty pieces dropped. -/
def splitWs (s : Str) : List Str := (splitBy isWhitespace s).filter (fun t => !t.isEmpty)

/-- `iter().find(|r| r.starts_with(ch))` -/
def findStarting (ch : Char) : List Str → Option Str
  | [] => none
  | t :: ts => if t.head? = some ch then some t else findStarting ch ts

/-- `parse_hunk_ranges`: (old_count, new_start, new_count); `none` when malformed. -/
def parseHunkRanges (line : Str) : Option (Nat × Nat × Nat) :=
  match splitAtAt line with
  | _ :: info :: _ =>
    let ranges := splitWs (trim info)
    if ranges.length < 2 then none
    else
      match findStarting '-' ranges with
      | none => none
      | some oldTok =>
        let oldParts := splitOn ',' (dropLeading (· == '-') oldTok)
        let oldCount? : Option Nat :=
          match oldParts with
          | _ :: c :: _ => parseU32 c
          | _ => some 1
        match oldCount? with
        | none => none
        | some oldCount =>
          match findStarting '+' ranges with
          | none => none
          | some newTok =>
            let newParts := splitOn ',' (dropLeading (· == '+') newTok)
            match newParts with
            | [] => none
            | s :: rest =>
              match parseU32 s with
              | none => none
              | some start =>
                let count? : Option Nat :=
                  match rest with
                  | c :: _ => parseU32 c
                  | [] => some 1
                match count? with
                | none => none
                | some count => some (oldCount, start, count)
  | _ => none

inductive HunkResult where
  | none                                   -- malformed header
  | lines (ls : List Nat) (pure : Bool)
  | overflow                               -- start + count exceeds u32 (Rust: overflow panic in debug)
  deriving Repr, DecidableEq

/-- `parse_hunk_header`. -/
def parseHunkHeader (line : Str) : HunkResult :=
  match parseHunkRanges line with
  | Option.none => .none
  | some (oldCount, start, count) =>
    if count = 0 then .lines [] false
    else if start + count > 4294967295 then .overflow
    else .lines (List.range' start count) (oldCount = 0)

def stripPrefixStr : Str → Str → Option Str
  | [], s => some s
  | _ :: _, [] => none
  | p :: ps, c :: cs => if p = c then stripPrefixStr ps cs else none

def diffPrefixes : List Str := [['a', '/'], ['b', '/'], ['c', '/'], ['w', '/'], ['i', '/'], ['o', '/']]

def stripFirstPrefix (s : Str) : List Str → Str
  | [] => s
  | p :: ps => match stripPrefixStr p s with
    | some r => r
    | none => stripFirstPrefix s ps

/-- `normalize_diff_path_token`. -/
def normPath (unescape : Str → Str) (raw : Str) : Str :=
  stripFirstPrefix (unescape (trimEnd raw)) diffPrefixes

/-- `parse_new_file_path_from_plus_header_line`: `none` = not a `+++ ` line;
    `some none` = `/dev/null`; `some (some p)`. -/
def plusHeader (unescape : Str → Str) (line : Str) : Option (Option Str) :=
  match stripPrefixStr ['+', '+', '+', ' '] line with
  | none => none
  | some raw =>
    if trimEnd raw = ['/', 'd', 'e', 'v', '/', 'n', 'u', 'l', 'l'] then some none
    else some (some (normPath unescape raw))

/-- parser state -/
structure St where
  cur : Option Str := none
  oldRem : Nat := 0
  newRem : Nat := 0
  all : List (Str × List Nat) := []   -- file → added lines (`entry(file).or_default().extend`)
  ins : List (Str × List Nat) := []   -- the pure-insertion subset
  overflow : Bool := false
  deriving Repr

/-- `HunkBody::consumes`: returns (consumed?, oldRem', newRem'). -/
def consumes (oldRem newRem : Nat) (line : Str) : Bool × Nat × Nat :=
  if oldRem = 0 && newRem = 0 then (false, 0, 0)
  else match line.head? with
    | some '-' => if oldRem > 0 then (true, oldRem - 1, newRem) else (false, 0, 0)
    | some '+' => if newRem > 0 then (true, oldRem, newRem - 1) else (false, 0, 0)
    | some ' ' => if oldRem > 0 && newRem > 0 then (true, oldRem - 1, newRem - 1) else (false, 0, 0)
    | some '\\' => (true, oldRem, newRem)
    | _ => (false, 0, 0)

/-- `map.entry(k).or_default().extend(vs)` on an association list (keys in insertion order) -/
def extendKey (k : Str) (vs : List Nat) : List (Str × List Nat) → List (Str × List Nat)
  | [] => [(k, vs)]
  | (k', ws) :: rest => if k' = k then (k', ws ++ vs) :: rest else (k', ws) :: extendKey k vs rest

def startsWithAtAtSp : Str → Bool
  | '@' :: '@' :: ' ' :: _ => true
  | _ => false

/-- one iteration of the loop in `parse_diff_added_lines_with_insertions`. -/
def step (unescape : Str → Str) (st : St) (line : Str) : St :=
  match consumes st.oldRem st.newRem line with
  | (true, o, n) => { st with oldRem := o, newRem := n }
  | (false, o, n) =>
    let st := { st with oldRem := o, newRem := n }
    match plusHeader unescape line with
    | some p => { st with cur := p }
    | none =>
      if startsWithAtAtSp line then
        let (o', n') := match parseHunkRanges line with
          | some (oc, _, nc) => (oc, nc)
          | none => (0, 0)
        let st := { st with oldRem := o', newRem := n' }
        match st.cur with
        | none => st
        | some f =>
          match parseHunkHeader line with
          | .none => st
          | .overflow => { st with overflow := true }
          | .lines ls pure =>
            { st with all := extendKey f ls st.all,
                      ins := if pure then extendKey f ls st.ins else st.ins }
      else st

def run (unescape : Str → Str) (lines : List Str) : St :=
  lines.foldl (step unescape) {}

/-- insert into a sorted duplicate-free list -/
def insertSorted (n : Nat) : List Nat → List Nat
  | [] => [n]
  | x :: xs => if n < x then n :: x :: xs else if n = x then x :: xs else x :: insertSorted n xs

def sortDedup (l : List Nat) : List Nat := l.foldr insertSorted []

/-- `lines.sort_unstable(); lines.dedup()` for every file -/
def group (m : List (Str × List Nat)) : List (Str × List Nat) :=
  m.map (fun kv => (kv.1, sortDedup kv.2))

/-- `parse_diff_added_lines_with_insertions` on the lines of the diff text: (all, insertions);
    `none` stands for the u32 overflow panic. -/
def parseWithInsertions (unescape : Str → Str) (lines : List Str) :
    Option (List (Str × List Nat) × List (Str × List Nat)) :=
  let st := run unescape lines
  if st.overflow then none else some (group st.all, group st.ins)

/-- `parse_diff_added_lines`. -/
def parseAdded (unescape : Str → Str) (lines : List Str) : Option (List (Str × List Nat)) :=
  (parseWithInsertions unescape lines).map (·.1)

/-! ### driver instance of `unescape_git_path` (ASCII subset) -/

def isOctal (c : Char) : Bool := '0' ≤ c && c ≤ '7'

def octVal : Str → Nat → Nat
  | [], acc => acc
  | c :: cs, acc => octVal cs (acc * 8 + (c.toNat - '0'.toNat))

/-- body of a quoted path; escapes: `\\ \" \n \t \r \NNN` (1–3 octal digits, value < 256 kept
    only when < 128 here), unknown escape keeps the backslash. -/
def unescapeBody : Nat → Str → Str
  | 0, _ => []
  | _, [] => []
  | fuel + 1, '\\' :: rest =>
    match rest with
    | '\\' :: r => '\\' :: unescapeBody fuel r
    | '"' :: r => '"' :: unescapeBody fuel r
    | 'n' :: r => '\n' :: unescapeBody fuel r
    | 't' :: r => '\t' :: unescapeBody fuel r
    | 'r' :: r => '\r' :: unescapeBody fuel r
    | d :: r =>
      if isDigit d then
        -- up to three octal digits
        let ds := (d :: r).take 3 |>.takeWhile isOctal
        let v := octVal ds 0
        let r' := (d :: r).drop ds.length
        if ds.isEmpty then unescapeBody fuel (d :: r)      -- '8'/'9': nothing consumed, nothing pushed
        else if v < 256 then Char.ofNat v :: unescapeBody fuel r'
        else unescapeBody fuel r'
      else '\\' :: unescapeBody fuel (d :: r)
    | [] => ['\\']
  | fuel + 1, c :: rest => c :: unescapeBody fuel rest

def unescapeAscii (p : Str) : Str :=
  if p.head? = some '"' && p.getLast? = some '"' && p.length ≥ 2 then
    unescapeBody (p.length + 1) (p.tail.dropLast)
  else p

end GitAi.DiffParse
