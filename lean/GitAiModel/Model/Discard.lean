/-
  Model/Discard.lean — the porcelain that DISCARDS uncommitted work, over the one-file state machine
  of Model/Sys.lean and the stash stack of Model/Rewrite.lean, at the same content-identity level.
  Each operation is what git does to the file (which version lands in the working tree / index) plus
  what git-ai's pre/post hooks of that command do to the file's claims (working-log entries,
  INITIAL, stash notes). What each function mirrors:

    dropClaims         repo_storage.rs:delete_working_log_for_base_commit as far as one file goes (its
                       entries, its INITIAL claims and the recorded snapshot go)
    discardFile        `git checkout [<tree-ish>] -- <path>` (post_checkout_hook Case 1 →
                       checkout_hooks.rs:reexamine_attributions_for_pathspecs): git writes the index
                       version into the working tree; a human checkpoint records the restored content —
                       a line that is still there keeps its author (carried over by content from the
                       previous snapshot), the discarded lines are in no snapshot any more. (A restored
                       file that git then reports as unchanged gets no entry in the code and loses its
                       INITIAL claims instead; the model's checkpoint appends the entry without AI line
                       that shadows them: the same readings, see `checkpoint`.)
                       Before the repair (`discardFileDrop`): every claim of the file was removed,
                       also those about lines that the restored version still holds
    restoreFile        `git restore <path>` (no hook at all: git_handlers.rs has no arm for `restore`) and
                       `git checkout <path>` without `--` (ParsedGitInvocation::pathspecs is empty, HEAD
                       unchanged: Case 2, nothing is done): the index version lands in the working tree,
                       every claim stays — the next checkpoint re-examines the file (36801845) and
                       INITIAL is carried over through its recorded content (9561d78f)
    unstage            `git restore --staged <path>`: no hook
    unstageAll         `git reset` (mixed, HEAD): reset_hooks.rs pre-reset human checkpoint, then
                       handle_reset_preserve_working_dir returns at "Reset to same commit"
    resetHard k        `git reset --hard [HEAD~k]`: pre-reset human checkpoint, git moves HEAD back and
                       makes index and working tree the new HEAD, handle_reset_hard deletes the working
                       log of the old HEAD
    checkoutForceSame  `git checkout -f` / `git checkout -f <current>` / `git switch -f <current>`: HEAD
                       unchanged (Case 2 / "HEAD unchanged after switch"): the tree goes back to HEAD, the
                       working log stays
    checkoutForce      `git checkout -f <other>` / `git switch -f|--force|--discard-changes <other>`
                       (Case 3): the tree becomes the other tip, the working log of the old HEAD is deleted
    (switchCarry)      `git switch <other>` carrying the work: Model/Rewrite.lean:switchCarry
                       (rename_working_log), already an `ROp`
    stashDrop          `git stash drop`: stash_hooks.rs:pre_stash_hook runs a human checkpoint for every
                       subcommand other than pop / apply; git removes the entry (its note in
                       refs/notes/ai-stash is keyed by the dropped stash commit and is never read again)
    stashPushOther     `git stash push -- <pathspec>` seen from a file the pathspec does NOT match: the
                       pre-stash human checkpoint; save_stash_authorship_log keeps only matching files,
                       so this stash holds nothing of the file (a matching file is Rewrite.stashPush)
    stashPopNoNote     `git stash pop` of an entry for which no note was written (no stashed file had an
                       AI line: save_stash_authorship_log returns before save_stash_note):
                       restore_stash_attributions returns at read_stash_note, INITIAL is left alone
    stashApply         `git stash apply`: restore_stash_attributions as for pop, the entry stays

  `git clean` only removes untracked files and `git merge --abort` only follows a merge that stopped;
  neither has a hook and neither touches a tracked, unconflicted file: for the file of this model they are
  `ROp.aborted`.
-/
import GitAiModel.Model.Sys
import GitAiModel.Model.Rewrite
namespace GitAi.Sys

/-- the file's working-log entries and INITIAL claims are removed -/
def dropClaims (st : State) : State := { st with entries := [], initial := [], initSnap := [] }

def discardFile (st : State) : State := checkpoint { st with work := st.index } none

def restoreFile (st : State) : State := { st with work := st.index }

def unstage (st : State) : State := { st with index := st.head }

def unstageAll (st : State) : State := { checkpoint st none with index := st.head }

def resetHard (k : Nat) (st : State) : State :=
  let st' := undoN k (checkpoint st none)
  dropClaims { st' with index := st'.head, work := st'.head }

def checkoutForceSame (st : State) : State := { st with index := st.head, work := st.head }

def checkoutForce (otherLog : List (List Nat × List Nat)) (otherNotes : List Note) (otherHead : List Nat)
    (st : State) : State :=
  dropClaims { st with head := otherHead, index := otherHead, work := otherHead, log := otherLog, notes := otherNotes }

def stashDrop (r : RState) : RState := { st := checkpoint r.st none, stash := r.stash.tail }

def stashPushOther (r : RState) : RState := { st := checkpoint r.st none, stash := ([], []) :: r.stash }

def stashPopNoNote (ys : List Nat) (r : RState) : RState :=
  match r.stash with
  | _ :: rest => { st := { r.st with work := ys }, stash := rest }
  | [] => r

def stashApply (ys : List Nat) (r : RState) : RState := { (stashPop ys r) with stash := r.stash }

/-- the union alphabet: edits, checkpoints, staging, commits (`Op`), the history-rewriting operations
    (`ROp`) and the discarding operations -/
inductive DOp where
  | r (op : ROp)
  | discardFile
  | restoreFile
  | unstage
  | unstageAll
  | resetHard (k : Nat)
  | checkoutForceSame
  | checkoutForce (otherLog : List (List Nat × List Nat)) (otherNotes : List Note) (otherHead : List Nat)
  | stashDrop
  | stashPushOther
  | stashPopNoNote (ys : List Nat)
  | stashApply (ys : List Nat)
  deriving Repr

def dstep (r : RState) : DOp → RState
  | .r op => rstep r op
  | .discardFile => { r with st := discardFile r.st }
  | .restoreFile => { r with st := restoreFile r.st }
  | .unstage => { r with st := unstage r.st }
  | .unstageAll => { r with st := unstageAll r.st }
  | .resetHard k => { r with st := resetHard k r.st }
  | .checkoutForceSame => { r with st := checkoutForceSame r.st }
  | .checkoutForce l n h => { r with st := checkoutForce l n h r.st }
  | .stashDrop => stashDrop r
  | .stashPushOther => stashPushOther r
  | .stashPopNoNote ys => stashPopNoNote ys r
  | .stashApply ys => stashApply ys r

def drun (r : RState) (ops : List DOp) : RState := ops.foldl dstep r

/-! ### whitespace-sensitive reading of "the lines a commit adds"

  The ids of this model identify a line modulo whitespace; git does not: a line whose indentation changed is,
  for `git diff`, a line the new content ADDS (and the old one removes), while git-ai's own diffs carry its
  attribution over (a whitespace-only change keeps the author: attribution_tracker.rs). Where the split
  `to_authorship_log_and_initial_working_log` asks git which lines a commit adds (`splitNote`'s `parent.contains`)
  or which lines of the working tree the new HEAD does not have (`splitPending`), a line that the older content
  holds in ANOTHER whitespace form counts as added. Which lines those are is git's business and an input here
  (`re`, like the merged contents of a replay; `hum` ⊆ `re`: the lines whose current form a commit introduced
  WITHOUT listing them — git blame stops there): with `re = []` the three operations below ARE `commitStep`,
  `amendStep`, `resetStep` (`commitStepWs_nil`, `amendStepWs_nil`, `resetStepWs_nil` in Lemmas/DiscardWs.lean).
  They are what the driver runs for a commit / amend / reset when the runner reports such lines.

    commitStepWs   post_commit.rs: the working log credits the re-indented line (a claim in INITIAL left by a
                   reset / amend, carried over by the pre-commit checkpoint), git lists it as added: it is in the note
    amendStepWs    rewrite_authorship_after_commit_amend: `from_working_log_for_commit(original)` = working log, gaps
                   filled by blame at the replaced commit (no lower bound), carried over to the amended content
    resetStepWs    reconstruct_working_log_after_reset since /repo df029dce: `from_working_log_for_commit(old HEAD,
                   blame_start = target)` = working log, gaps filled by `git blame target..old`, and for what is still
                   open the target's own attribution `new_for_base_commit(target, blame_start = target)` =
                   `git blame target^!`. A bounded blame reports an older line under the BOUNDARY commit (the
                   target, resp. the target's parent) and the overlay reads that commit's note: the lines of the
                   `k` undone commits, of the target and of the target's parent keep their session
                   (`blame` over the newest `k + 2` commits), older lines are nobody's. Before df029dce
                   `target..target` blamed the working tree and the target's attribution came out empty. -/

/-- `xs` without the ids git reports in another whitespace form -/
def minus (xs re : List Nat) : List Nat := xs.filter (fun y => !re.contains y)

def commitStepWs (re : List Nat) (st : State) : State :=
  let st := checkpoint st none
  { head := st.index, index := st.index, work := st.work, entries := [],
    initial := splitPending st.index st.work (wlAuthor st), initSnap := st.work,
    notes := splitNote (minus st.head re) st.index (wlAuthor st) :: st.notes,
    log := (st.index, st.head) :: st.log }

/-- working log first; blame fills the gaps except for the lines `hum`:
    (a) lines whose CURRENT whitespace form was introduced by a commit whose note does not list them (a person
        re-indented the line and committed: git blame stops at that commit, the id-level `blame` of this model would
        walk on to the commit that introduced the text);
    (b) lines for which the working log holds an explicit human OVERRIDE: an agent had modified the committed line in
        place, the committed text came back (checkout -f, restore, …) and the next checkpoint recorded that as a
        person's change of the agent's line — for `merge_attributions_favoring_first` that is an attribution of the
        working log (the person's), not a gap, so blame does not fill it. -/
def mergedAuthorWs (hum : List Nat) (st : State) (y : Nat) : Author :=
  if hum.contains y then wlAuthor st y else mergedAuthor st y

def amendCoreWs (re hum : List Nat) (st : State) : State :=
  match st.log, st.notes with
  | (_, p) :: log, _ :: notes =>
    let author := mergedAuthor st
    { head := st.index, index := st.index, work := st.work, entries := [],
      initial := splitPending st.index st.work author, initSnap := st.work,
      notes := splitNote (minus p re) st.index (mergedAuthorWs hum st) :: notes, log := (st.index, p) :: log }
  | _, _ => st

def amendStepWs (re hum : List Nat) (st : State) : State := amendCoreWs re hum (checkpoint st none)

/-- the author the reset's reconstruction finds for a line that the target holds in another whitespace form:
    the working log, then blame bounded below by the target's parent -/
def boundedAuthor (k : Nat) (hum : List Nat) (st : State) (y : Nat) : Author :=
  match wlAuthor st y with
  | some s => some s
  | none =>
    if st.head.contains y && !hum.contains y then blame (st.log.take (k + 2)) (st.notes.take (k + 2)) y else none

/-- does the reset's reconstruction look at this file at all? `reconstruct_working_log_after_reset` takes the files
    that differ between the target and the old HEAD and that a note of an undone commit lists
    (`filter_pathspecs_to_ai_touched_files`), plus the files of the old working log (checkpoint entries, INITIAL).
    Every other file keeps no claim: its working log is deleted with the old HEAD's. (For `resetStep` the question
    does not arise: a line of such a file that the target lacks is not in the old HEAD either, so only the
    working log could credit it.) -/
def resetConsiders (k : Nat) (st : State) : Bool :=
  (st.head != (undoN k st).head && (st.notes.take k).any (fun n => !n.isEmpty)) ||
    !st.entries.isEmpty || !st.initial.isEmpty

def resetStepWs (k : Nat) (soft : Bool) (re hum : List Nat) (st : State) : State :=
  let st' := undoN k st
  { st' with index := if soft then st.index else st'.head, entries := [],
             initial := (enum1 st.work).filterMap (fun p =>
               if st'.head.contains p.2 then
                 (if re.contains p.2 && resetConsiders k st then (boundedAuthor k hum st p.2).map (fun s => (p.1, s)) else none)
               else (mergedAuthorWs hum st p.2).map (fun s => (p.1, s))),
             initSnap := st.work }

/-! ### the behaviour BEFORE the repairs (used only by the `regression_*` theorems of Props/C03.lean) -/

/-- attribution applied by bare LINE NUMBER to whatever the file contains now: how INITIAL was read
    before 9561d78f and how the latest entry of a file that git reported as unchanged was read before
    36801845 / e9a96f54 -/
def byLineNumber (claims : List (Nat × Nat)) (work : List Nat) : List Author :=
  (enum1 work).map (fun p => initialAuthor claims p.1)

/-- the AI lines of an entry as (line number, session) claims -/
def entryClaims (e : Entry) : List (Nat × Nat) :=
  (enum1 e.attr).filterMap (fun p => p.2.map (fun s => (p.1, s)))

/-- path checkout before the repair of `reexamine_attributions_for_pathspecs`
    (remove_attributions_for_pathspecs): every claim of the file goes, whatever the restored version holds -/
def discardFileDrop (st : State) : State := dropClaims { st with work := st.index }

/-- path checkout before cad0dd6e: the entries of the file go, but `write_initial_attributions` returned
    early on an empty set and left the INITIAL file with the claims of the last file in place -/
def discardFileLegacy (st : State) : State := { st with work := st.index, entries := [] }

/-- the note of a commit whose working-log attribution is read by line number (no pre-commit
    checkpoint: it was skipped when the working log held no AI checkpoint / git saw no change) -/
def legacyNote (st : State) (claims : List (Nat × Nat)) : Note :=
  let eff := byLineNumber claims st.work
  splitNote st.head st.index (fun y => (lookup st.work eff y).getD none)

end GitAi.Sys
