/-
  Model/Discard.lean — the porcelain that DISCARDS uncommitted work, over the one-file state machine
  of Model/Sys.lean and the stash stack of Model/Rewrite.lean, at the same content-identity level.
  Each operation is what git does to the file (which version lands in the working tree / index) plus
  what git-ai's pre/post hooks of that command do to the file's claims (working-log entries,
  INITIAL, stash notes). What each function mirrors:

    dropClaims         repo_storage.rs:delete_working_log_for_base_commit as far as one file goes (its
                       entries, its INITIAL claims and the recorded snapshot go)
    discardFile        `git checkout [<tree-ish>] -- <path>` (post_checkout_hook Case 1 →
                       checkout_hooks.rs:reexamine_attributions_for_pathspecs): git writes the index
                       version into the working tree; a human checkpoint records the restored content —
                       a line that is still there keeps its author (carried over by content from the
                       previous snapshot), the discarded lines are in no snapshot any more. (A restored
                       file that git then reports as unchanged gets no entry in the code and loses its
                       INITIAL claims instead; the model's checkpoint appends the entry without AI line
                       that shadows them: the same readings, see `checkpoint`.)
                       Before the repair (`discardFileDrop`): every claim of the file was removed,
                       also those about lines that the restored version still holds
    restoreFile        `git restore <path>` (no hook at all: git_handlers.rs has no arm for `restore`) and
                       `git checkout <path>` without `--` (ParsedGitInvocation::pathspecs is empty, HEAD
                       unchanged: Case 2, nothing is done): the index version lands in the working tree,
                       every claim stays — the next checkpoint re-examines the file (36801845) and
                       INITIAL is carried over through its recorded content (9561d78f)
    unstage            `git restore --staged <path>`: no hook
    unstageAll         `git reset` (mixed, HEAD): reset_hooks.rs pre-reset human checkpoint, then
                       handle_reset_preserve_working_dir returns at "Reset to same commit"
    resetHard k        `git reset --hard [HEAD~k]`: pre-reset human checkpoint, git moves HEAD back and
                       makes index and working tree the new HEAD, handle_reset_hard deletes the working
                       log of the old HEAD
    checkoutForceSame  `git checkout -f` / `git checkout -f <current>` / `git switch -f <current>`: HEAD
                       unchanged (Case 2 / "HEAD unchanged after switch"): the tree goes back to HEAD, the
                       working log stays
    checkoutForce      `git checkout -f <other>` / `git switch -f|--force|--discard-changes <other>`
                       (Case 3): the tree becomes the other tip, the working log of the old HEAD is deleted
    (switchCarry)      `git switch <other>` carrying the work: Model/Rewrite.lean:switchCarry
                       (rename_working_log), already an `ROp`
    stashDrop          `git stash drop`: stash_hooks.rs:pre_stash_hook runs a human checkpoint for every
                       subcommand other than pop / apply; git removes the entry (its note in
                       refs/notes/ai-stash is keyed by the dropped stash commit and is never read again)
    stashPushOther     `git stash push -- <pathspec>` seen from a file the pathspec does NOT match: the
                       pre-stash human checkpoint; save_stash_authorship_log keeps only matching files,
                       so this stash holds nothing of the file (a matching file is Rewrite.stashPush)
    stashPopNoNote     `git stash pop` of an entry for which no note was written (no stashed file had an
                       AI line: save_stash_authorship_log returns before save_stash_note):
                       restore_stash_attributions returns at read_stash_note, INITIAL is left alone
    stashApply         `git stash apply`: restore_stash_attributions as for pop, the entry stays

  `git clean` only removes untracked files and `git merge --abort` only follows a merge that stopped;
  neither has a hook and neither touches a tracked, unconflicted file: for the file of this model they are
  `ROp.aborted`.
-/
import GitAiModel.Model.Sys
import GitAiModel.Model.Rewrite
namespace GitAi.Sys

/-- the file's working-log entries and INITIAL claims are removed -/
def dropClaims (st : State) : State := { st with entries := [], initial := [], initSnap := [] }

def discardFile (st : State) : State := checkpoint { st with work := st.index } none

def restoreFile (st : State) : State := { st with work := st.index }

def unstage (st : State) : State := { st with index := st.head }

def unstageAll (st : State) : State := { checkpoint st none with index := st.head }

def resetHard (k : Nat) (st : State) : State :=
  let st' := undoN k (checkpoint st none)
  dropClaims { st' with index := st'.head, work := st'.head }

def checkoutForceSame (st : State) : State := { st with index := st.head, work := st.head }

def checkoutForce (otherLog : List (List Nat × List Nat)) (otherNotes : List Note) (otherHead : List Nat)
    (st : State) : State :=
  dropClaims { st with head := otherHead, index := otherHead, work := otherHead, log := otherLog, notes := otherNotes }

def stashDrop (r : RState) : RState := { st := checkpoint r.st none, stash := r.stash.tail }

def stashPushOther (r : RState) : RState := { st := checkpoint r.st none, stash := ([], []) :: r.stash }

def stashPopNoNote (ys : List Nat) (r : RState) : RState :=
  match r.stash with
  | _ :: rest => { st := { r.st with work := ys }, stash := rest }
  | [] => r

def stashApply (ys : List Nat) (r : RState) : RState := { (stashPop ys r) with stash := r.stash }

/-- the union alphabet: edits, checkpoints, staging, commits (`Op`), the history-rewriting operations
    (`ROp`) and the discarding operations -/
inductive DOp where
  | r (op : ROp)
  | discardFile
  | restoreFile
  | unstage
  | unstageAll
  | resetHard (k : Nat)
  | checkoutForceSame
  | checkoutForce (otherLog : List (List Nat × List Nat)) (otherNotes : List Note) (otherHead : List Nat)
  | stashDrop
  | stashPushOther
  | stashPopNoNote (ys : List Nat)
  | stashApply (ys : List Nat)
  deriving Repr

def dstep (r : RState) : DOp → RState
  | .r op => rstep r op
  | .discardFile => { r with st := discardFile r.st }
  | .restoreFile => { r with st := restoreFile r.st }
  | .unstage => { r with st := unstage r.st }
  | .unstageAll => { r with st := unstageAll r.st }
  | .resetHard k => { r with st := resetHard k r.st }
  | .checkoutForceSame => { r with st := checkoutForceSame r.st }
  | .checkoutForce l n h => { r with st := checkoutForce l n h r.st }
  | .stashDrop => stashDrop r
  | .stashPushOther => stashPushOther r
  | .stashPopNoNote ys => stashPopNoNote ys r
  | .stashApply ys => stashApply ys r

def drun (r : RState) (ops : List DOp) : RState := ops.foldl dstep r

/-! ### the behaviour BEFORE the repairs (used only by the `regression_*` theorems of Props/C03.lean) -/

/-- attribution applied by bare LINE NUMBER to whatever the file contains now: how INITIAL was read
    before 9561d78f and how the latest entry of a file that git reported as unchanged was read before
    36801845 / e9a96f54 -/
def byLineNumber (claims : List (Nat × Nat)) (work : List Nat) : List Author :=
  (enum1 work).map (fun p => initialAuthor claims p.1)

/-- the AI lines of an entry as (line number, session) claims -/
def entryClaims (e : Entry) : List (Nat × Nat) :=
  (enum1 e.attr).filterMap (fun p => p.2.map (fun s => (p.1, s)))

/-- path checkout before the repair of `reexamine_attributions_for_pathspecs`
    (remove_attributions_for_pathspecs): every claim of the file goes, whatever the restored version holds -/
def discardFileDrop (st : State) : State := dropClaims { st with work := st.index }

/-- path checkout before cad0dd6e: the entries of the file go, but `write_initial_attributions` returned
    early on an empty set and left the INITIAL file with the claims of the last file in place -/
def discardFileLegacy (st : State) : State := { st with work := st.index, entries := [] }

/-- the note of a commit whose working-log attribution is read by line number (no pre-commit
    checkpoint: it was skipped when the working log held no AI checkpoint / git saw no change) -/
def legacyNote (st : State) (claims : List (Nat × Nat)) : Note :=
  let eff := byLineNumber claims st.work
  splitNote st.head st.index (fun y => (lookup st.work eff y).getD none)

end GitAi.Sys
