/-
  Model/GitPath.lean — git's C-style path quoting and git-ai's un-quoting, over UTF-8 bytes.

  * `quoteC`      : git `quote.c: quote_c_style` as used by `write_name_quoted` (what
                    `git blame --porcelain` prints after `filename ` / `previous <sha> `);
                    `full` = `core.quotePath` (bytes ≥ 0x80 are octal-escaped when set).
                    This is part of the *git kernel* (reference model of git, validated by the
                    end-to-end check, not proved about git).
  * `unquotePath` : /repo/src/utils.rs `unescape_git_path` (state machine over `chars()` with
                    one-char look-ahead), followed by `String::from_utf8` / `from_utf8_lossy`
                    (`decodeLossy`, Rust core `Utf8Chunks` semantics: every maximal invalid
                    prefix becomes one U+FFFD).
  Bytes are `Nat`s below 256.
-/
import GitAiModel.Base.Text
namespace GitAi.GitPath
open GitAi

/-! ## UTF-8 -/

/-- UTF-8 bytes of the scalar value `n`. -/
def utf8EncodeN (n : Nat) : List Nat :=
  if n < 0x80 then [n]
  else if n < 0x800 then [0xC0 + n / 64, 0x80 + n % 64]
  else if n < 0x10000 then [0xE0 + n / 4096, 0x80 + n / 64 % 64, 0x80 + n % 64]
  else [0xF0 + n / 262144, 0x80 + n / 4096 % 64, 0x80 + n / 64 % 64, 0x80 + n % 64]

/-- `char::encode_utf8`. -/
def utf8Encode (c : Char) : List Nat := utf8EncodeN c.toNat

/-- decoder state: at a character boundary, or inside a multi-byte sequence with `rem`
    continuation bytes outstanding, the next of which must lie in `[lo, hi]`. -/
inductive DState where
  | start
  | need (rem acc lo hi : Nat)
  deriving Repr, DecidableEq

def replacement : Char := Char.ofNat 0xFFFD

/-- first byte of a sequence (`utf8_char_width` + the second-byte windows of `Utf8Chunks`). -/
def startStep (b : Nat) : Option Char × DState :=
  if b < 0x80 then (some (Char.ofNat b), .start)
  else if 0xC2 ≤ b ∧ b ≤ 0xDF then (none, .need 1 (b - 0xC0) 0x80 0xBF)
  else if b = 0xE0 then (none, .need 2 0 0xA0 0xBF)
  else if b = 0xED then (none, .need 2 13 0x80 0x9F)
  else if 0xE1 ≤ b ∧ b ≤ 0xEF then (none, .need 2 (b - 0xE0) 0x80 0xBF)
  else if b = 0xF0 then (none, .need 3 0 0x90 0xBF)
  else if 0xF1 ≤ b ∧ b ≤ 0xF3 then (none, .need 3 (b - 0xF0) 0x80 0xBF)
  else if b = 0xF4 then (none, .need 3 4 0x80 0x8F)
  else (some replacement, .start)

def emit : Option Char → Str
  | none => []
  | some c => [c]

/-- `String::from_utf8_lossy` (equal to `String::from_utf8` on valid input). -/
def decGo : DState → List Nat → Str
  | .start, [] => []
  | .need _ _ _ _, [] => [replacement]
  | .start, b :: bs => emit (startStep b).1 ++ decGo (startStep b).2 bs
  | .need rem acc lo hi, b :: bs =>
    if lo ≤ b ∧ b ≤ hi then
      if rem ≤ 1 then Char.ofNat (acc * 64 + (b - 0x80)) :: decGo .start bs
      else decGo (.need (rem - 1) (acc * 64 + (b - 0x80)) 0x80 0xBF) bs
    else
      -- the invalid prefix becomes one U+FFFD; `b` starts a new sequence
      replacement :: (emit (startStep b).1 ++ decGo (startStep b).2 bs)

def decodeLossy (bs : List Nat) : Str := decGo .start bs

/-! ## `unescape_git_path` -/

inductive UState where
  | normal
  | esc                      -- a backslash was consumed; the next char is being peeked
  | octal (val k : Nat)      -- `k` octal digits collected (1 ≤ k < 3), value `val`
  deriving Repr, DecidableEq

def isOct (c : Char) : Bool := '0' ≤ c && c ≤ '7'

/-- `u8::from_str_radix(&octal, 8)`: values above 255 fail and push nothing. -/
def finishOct (v : Nat) : List Nat := if v < 256 then [v] else []

def normalStep (c : Char) : List Nat × UState :=
  if c = '\\' then ([], .esc) else (utf8Encode c, .normal)

def unescGo : UState → Str → List Nat
  | .normal, [] => []
  | .esc, [] => [92]                    -- trailing backslash: "unknown escape – keep it"
  | .octal v _, [] => finishOct v
  | .normal, c :: cs => (normalStep c).1 ++ unescGo (normalStep c).2 cs
  | .esc, c :: cs =>
    if c = '\\' then 92 :: unescGo .normal cs
    else if c = '"' then 34 :: unescGo .normal cs
    else if c = 'n' then 10 :: unescGo .normal cs
    else if c = 't' then 9 :: unescGo .normal cs
    else if c = 'r' then 13 :: unescGo .normal cs
    else if c = 'a' then 7 :: unescGo .normal cs
    else if c = 'b' then 8 :: unescGo .normal cs
    else if c = 'f' then 12 :: unescGo .normal cs
    else if c = 'v' then 11 :: unescGo .normal cs
    else if isDigit c then
      if isOct c then unescGo (.octal (digitVal c) 1) cs
      else
        -- `\8`, `\9`: the octal string stays empty, parsing fails, nothing is pushed, and the
        -- digit (not consumed) is an ordinary character
        utf8Encode c ++ unescGo .normal cs
    else
      -- unknown escape: keep the backslash; `c` (≠ backslash) is an ordinary character
      92 :: (utf8Encode c ++ unescGo .normal cs)
  | .octal v k, c :: cs =>
    if isOct c then
      if 3 ≤ k + 1 then finishOct (v * 8 + digitVal c) ++ unescGo .normal cs
      else unescGo (.octal (v * 8 + digitVal c) (k + 1)) cs
    else finishOct v ++ ((normalStep c).1 ++ unescGo (normalStep c).2 cs)

/-- `unescape_git_path`. -/
def unquotePath (p : Str) : Str :=
  if decide (p.length < 2) || p.head? != some '"' || p.getLast? != some '"' then p
  else decodeLossy (unescGo .normal p.tail.dropLast)

/-! ## git's `quote_c_style` -/

def oct3 (b : Nat) : Str := [digitChar (b / 64), digitChar (b / 8 % 8), digitChar (b % 8)]

/-- escape of an ASCII byte, `none` = printed literally (`cq_lookup`). -/
def escAscii (n : Nat) : Option Str :=
  if n = 7 then some ['\\', 'a'] else if n = 8 then some ['\\', 'b']
  else if n = 9 then some ['\\', 't'] else if n = 10 then some ['\\', 'n']
  else if n = 11 then some ['\\', 'v'] else if n = 12 then some ['\\', 'f']
  else if n = 13 then some ['\\', 'r'] else if n = 34 then some ['\\', '"']
  else if n = 92 then some ['\\', '\\']
  else if n < 0x20 ∨ n = 0x7F then some ('\\' :: oct3 n)
  else none

def octEscapes : List Nat → Str
  | [] => []
  | b :: bs => '\\' :: (oct3 b ++ octEscapes bs)

def quoteChar (full : Bool) (c : Char) : Option Str :=
  if c.toNat < 0x80 then escAscii c.toNat
  else if full then some (octEscapes (utf8Encode c)) else none

def charText (full : Bool) (c : Char) : Str := (quoteChar full c).getD [c]

def quoteBody (full : Bool) : Str → Str
  | [] => []
  | c :: cs => charText full c ++ quoteBody full cs

def needsQuote (full : Bool) (p : Str) : Bool := p.any (fun c => (quoteChar full c).isSome)

/-- `write_name_quoted(path, stdout, '\n')` with `core.quotePath = full`. -/
def quoteC (full : Bool) (p : Str) : Str :=
  if needsQuote full p then '"' :: (quoteBody full p ++ ['"']) else p

end GitAi.GitPath
