/-
  Model/GitRef.lean — reference model of real git ("git kernel", validated not proved):
    * `gitStep` / `gitScan`: `handle_options` of git 2.39.5's git.c (which top-level options
      exist, which take a detached or an attached value, which print and exit, which are
      usage errors),
    * `gitNormalise`: the documented `--help`, `-h` → `help` and `--version`, `-v` → `version`
      conversion that `cmd_main` performs on the token where option scanning stopped,
    * `gitSplitM` / `gitSplit`: `split_cmdline` (alias.c),
    * `gitExpand`: the alias loop of `run_argv` / `handle_alias`.
  Written from git's source, independent of git-ai's tables.  Checked against the installed
  git by the harness oracles and the recording stand-in (vlib/props/c18.py).
-/
import GitAiModel.Model.Alias
namespace GitAi.GitRef
open GitAi GitAi.Cli GitAi.Alias

def helpToks : List Str := [['-', '-', 'h', 'e', 'l', 'p'],
  ['-', 'h']]
def versionToks : List Str := [['-', '-', 'v', 'e', 'r', 's', 'i', 'o', 'n'],
  ['-', 'v']]
def execPath : Str := ['-', '-', 'e', 'x', 'e', 'c', '-', 'p', 'a', 't', 'h']
def listCmdsEq : Str := ['-', '-', 'l', 'i', 's', 't', '-', 'c', 'm', 'd', 's', '=']
/-- options that print a path and `exit(0)` -/
def gitQuery : List Str := [['-', '-', 'h', 't', 'm', 'l', '-', 'p', 'a', 't', 'h'],
  ['-', '-', 'm', 'a', 'n', '-', 'p', 'a', 't', 'h'],
  ['-', '-', 'i', 'n', 'f', 'o', '-', 'p', 'a', 't', 'h']]
/-- options without a value -/
def gitNoValue : List Str := [['-', 'p'],
  ['-', '-', 'p', 'a', 'g', 'i', 'n', 'a', 't', 'e'],
  ['-', 'P'],
  ['-', '-', 'n', 'o', '-', 'p', 'a', 'g', 'e', 'r'],
  ['-', '-', 'n', 'o', '-', 'r', 'e', 'p', 'l', 'a', 'c', 'e', '-', 'o', 'b', 'j', 'e', 'c', 't', 's'],
  ['-', '-', 'b', 'a', 'r', 'e'],
  ['-', '-', 'l', 'i', 't', 'e', 'r', 'a', 'l', '-', 'p', 'a', 't', 'h', 's', 'p', 'e', 'c', 's'],
  ['-', '-', 'g', 'l', 'o', 'b', '-', 'p', 'a', 't', 'h', 's', 'p', 'e', 'c', 's'],
  ['-', '-', 'n', 'o', 'g', 'l', 'o', 'b', '-', 'p', 'a', 't', 'h', 's', 'p', 'e', 'c', 's'],
  ['-', '-', 'i', 'c', 'a', 's', 'e', '-', 'p', 'a', 't', 'h', 's', 'p', 'e', 'c', 's'],
  ['-', '-', 'n', 'o', '-', 'o', 'p', 't', 'i', 'o', 'n', 'a', 'l', '-', 'l', 'o', 'c', 'k', 's']]
/-- options whose value is the next argument -/
def gitDetached : List Str := [['-', '-', 'g', 'i', 't', '-', 'd', 'i', 'r'],
  ['-', '-', 'n', 'a', 'm', 'e', 's', 'p', 'a', 'c', 'e'],
  ['-', '-', 'w', 'o', 'r', 'k', '-', 't', 'r', 'e', 'e'],
  ['-', '-', 's', 'u', 'p', 'e', 'r', '-', 'p', 'r', 'e', 'f', 'i', 'x'],
  ['-', 'c'],
  ['-', '-', 'c', 'o', 'n', 'f', 'i', 'g', '-', 'e', 'n', 'v'],
  ['-', 'C'],
  ['-', '-', 's', 'h', 'a', 'l', 'l', 'o', 'w', '-', 'f', 'i', 'l', 'e']]
/-- `skip_prefix(cmd, "--opt=", &cmd)` forms (the value may be empty) -/
def gitAttached : List Str := [['-', '-', 'g', 'i', 't', '-', 'd', 'i', 'r', '='],
  ['-', '-', 'n', 'a', 'm', 'e', 's', 'p', 'a', 'c', 'e', '='],
  ['-', '-', 'w', 'o', 'r', 'k', '-', 't', 'r', 'e', 'e', '='],
  ['-', '-', 's', 'u', 'p', 'e', 'r', '-', 'p', 'r', 'e', 'f', 'i', 'x', '='],
  ['-', '-', 'c', 'o', 'n', 'f', 'i', 'g', '-', 'e', 'n', 'v', '=']]

/-- what `handle_options` does with one token -/
inductive GStep where
  /-- `cmd[0] != '-'`: not an option, scanning stops (this is the command) -/
  | stopWord
  /-- `--help`, `-h`, `--version`, `-v`: scanning stops -/
  | stopHelpVersion
  | take1
  | take2
  /-- prints and `exit(0)` -/
  | queryExit
  /-- "unknown option" / missing value: usage, exit 129 -/
  | usageErr
  deriving Repr, DecidableEq, Inhabited

/-- (`take2` with no next argument is the "no directory given" / "-c expects …" usage error,
    decided in `gitScan`.) -/
def gitStep (tok : Str) : GStep :=
  if !startsWithDash tok then .stopWord
  else if helpToks.contains tok || versionToks.contains tok then .stopHelpVersion
  else match dropPrefix? execPath tok with
    | some ('=' :: _) => .take1
    | some _ => .queryExit
    | none =>
      if gitQuery.contains tok then .queryExit
      else if gitNoValue.contains tok then .take1
      else if gitDetached.contains tok then .take2
      else if gitAttached.any (fun p => startsWith p tok) then .take1
      else if startsWith listCmdsEq tok then .queryExit
      else .usageErr

/-- result of `handle_options` on the whole vector: `pre` is what was consumed -/
inductive GScan where
  | command (pre : List Str) (cmd : Str) (rest : List Str)
  | helpVersion (pre : List Str) (tok : Str) (rest : List Str)
  /-- no arguments left: usage, exit 1 -/
  | noCommand (pre : List Str)
  | exits (pre : List Str) (tok : Str) (rest : List Str)
  | usage (pre : List Str) (tok : Str) (rest : List Str)
  deriving Repr, DecidableEq, Inhabited

def gitScan : List Str → List Str → GScan
  | [], pre => .noCommand pre
  | tok :: rest, pre =>
    match gitStep tok with
    | .stopWord => .command pre tok rest
    | .stopHelpVersion => .helpVersion pre tok rest
    | .take1 => gitScan rest (pre ++ [tok])
    | .take2 =>
      match rest with
      | v :: rest' => gitScan rest' (pre ++ [tok, v])
      | [] => .usage pre tok []
    | .queryExit => .exits pre tok rest
    | .usageErr => .usage pre tok rest

/-- the argv git acts on: the token where scanning stopped is replaced by `help` / `version`
    when it is `--help`, `-h` or `--version`, `-v`; everything else stays where it is. -/
def gitNormalise (a : List Str) : List Str :=
  match gitScan a [] with
  | .helpVersion pre t rest =>
    pre ++ (if versionToks.contains t then versionWord else helpWord) :: rest
  | _ => a

/-- index of the command when git finds one -/
def gitCommand (a : List Str) : Option (List Str × Str × List Str) :=
  match gitScan a [] with
  | .command pre c rest => some (pre, c, rest)
  | _ => none

/-! ### split_cmdline -/

inductive SplitErr where
  | unclosedQuote
  /-- "cmdline ends with \"; `quoted`: inside double quotes when it happened -/
  | badEnding (quoted : Bool)
  deriving Repr, DecidableEq, Inhabited

def quoteOf (c : Char) : Quote := if c = '\'' then .single else if c = '"' then .double else .none
def quoteChar : Quote → Option Char
  | .none => none | .single => some '\'' | .double => some '"'

/-- `split_cmdline`, each argument marked with whether any character (quote, backslash or
    ordinary) started it; unmarked arguments are the empty ones git creates at the very start
    and after a whitespace run.  State: finished arguments, current argument, its mark,
    `quoted`, and whether the inner whitespace-skipping loop is running. -/
def gitSplitGo : Str → List (Str × Bool) → Str → Bool → Quote → Bool → Except SplitErr (List (Str × Bool))
  | [], done, cur, st, q, _ =>
    if q ≠ .none then .error .unclosedQuote else .ok (done ++ [(cur, st)])
  | c :: cs, done, cur, st, q, skip =>
    if q = .none ∧ isGitSpace c = true then
      if skip then gitSplitGo cs done cur st q true
      else gitSplitGo cs (done ++ [(cur, st)]) [] false .none true
    else if q = .none ∧ (c = '\'' ∨ c = '"') then gitSplitGo cs done cur true (quoteOf c) false
    else if quoteChar q = some c then gitSplitGo cs done cur true .none false
    else if c = '\\' ∧ q ≠ .single then
      match cs with
      | [] => .error (.badEnding (decide (q = .double)))
      | d :: cs' => gitSplitGo cs' done (cur ++ [d]) true q false
    else gitSplitGo cs done (cur ++ [c]) true q false

def gitSplitM (v : Str) : Except SplitErr (List (Str × Bool)) := gitSplitGo v [] [] false .none false

/-- `split_cmdline`. -/
def gitSplit (v : Str) : Except SplitErr (List Str) :=
  match gitSplitM v with
  | .ok ms => .ok (ms.map Prod.fst)
  | .error e => .error e

/-! ### the alias loop (`run_argv`, `handle_alias`) -/

inductive GExpand where
  /-- git executes (or fails on) this argv: a command, an unknown word, help/version, … -/
  | runs (argv : List Str)
  /-- `!` alias: handed to the shell -/
  | shell (cmd : Str)
  /-- "alias loop detected" / "recursive alias" -/
  | loop (cmd : Str)
  /-- "bad alias.x string" -/
  | badAlias (cmd : Str) (e : SplitErr)
  /-- "empty alias for x" -/
  | emptyAlias (cmd : Str)
  /-- the alias's own options end in a query option or a usage error -/
  | aliasOptions (cmd : Str)
  | outOfFuel
  deriving Repr, DecidableEq, Inhabited

/-- `isCommand`: builtins and `git-<x>` programs on the path (they win over aliases).
    The alias's leading options are left in place (git applies them itself). -/
def gitExpand (lookup : Str → Option Str) (isCommand : Str → Bool) :
    Nat → List Str → List Str → GExpand
  | 0, _, _ => .outOfFuel
  | fuel + 1, seen, argv =>
    match gitScan argv [] with
    | .command pre c rest =>
      if isCommand c then .runs argv
      else if seen.contains c then .loop c
      else match lookup c with
        | none => .runs argv
        | some v =>
          -- `alias_string[0] == '!'`
          if v.head? = some '!' then .shell c
          else
            match gitSplit v with
            | .error e => .badAlias c e
            | .ok ts =>
              match gitScan ts [] with
              | .command _ _ _ => gitExpand lookup isCommand fuel (c :: seen) (pre ++ ts ++ rest)
              | .helpVersion _ _ _ => .runs (pre ++ ts ++ rest)
              | .noCommand _ => .emptyAlias c
              | _ => .aliasOptions c
    | _ => .runs argv

end GitAi.GitRef
